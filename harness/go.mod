module verif/harness

go 1.23

require (
	github.com/ctessum/geom v0.0.0
	github.com/jonas-p/go-shp v0.1.2-0.20190401125246-9fd306ae10a6
	github.com/paulmach/osm v0.1.1
	gonum.org/v1/gonum v0.9.3
)

require (
	github.com/ctessum/polyclip-go v1.1.0 // indirect
	github.com/gogo/protobuf v1.3.1 // indirect
	github.com/gonum/floats v0.0.0-20181209220543-c233463c7e82 // indirect
	github.com/gonum/internal v0.0.0-20181124074243-f884aa714029 // indirect
	github.com/paulmach/orb v0.1.6 // indirect
	golang.org/x/exp v0.0.0-20191002040644-a1355ae1e2c3 // indirect
	golang.org/x/sync v0.0.0-20200625203802-6e8e738ad208 // indirect
)

replace github.com/ctessum/geom => /repo
