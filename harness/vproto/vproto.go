// Package vproto holds what every per-property harness shares: the seeded PRNG, the
// token encoding of geometries (coordinates as IEEE-754 bit patterns in hex), and
// helpers to run implementation calls under recover.
package vproto

import (
	"bufio"
	"fmt"
	"math"
	"os"
	"strconv"
	"strings"

	"github.com/ctessum/geom"
)

// Rng is splitmix64; every random choice of a generator derives from one seed.
type Rng struct{ s uint64 }

// NewRng scrambles the seed first: consecutive seeds must give unrelated streams (the state
// advances by a fixed increment, so an unscrambled seed k+1 would be seed k shifted by one draw).
func NewRng(seed uint64) *Rng {
	z := seed + 0x632BE59BD9B4E019
	z = (z ^ (z >> 30)) * 0xBF58476D1CE4E5B9
	z = (z ^ (z >> 27)) * 0x94D049BB133111EB
	z ^= z >> 31
	z = (z ^ (z >> 33)) * 0xFF51AFD7ED558CCD
	return &Rng{s: z ^ (z >> 29)}
}
func (r *Rng) U64() uint64 {
	r.s += 0x9E3779B97F4A7C15
	z := r.s
	z = (z ^ (z >> 30)) * 0xBF58476D1CE4E5B9
	z = (z ^ (z >> 27)) * 0x94D049BB133111EB
	return z ^ (z >> 31)
}
func (r *Rng) Intn(n int) int {
	if n <= 0 {
		return 0
	}
	return int(r.U64() % uint64(n))
}
func (r *Rng) Range(lo, hi int) int { return lo + r.Intn(hi-lo+1) }
func (r *Rng) Bool() bool           { return r.U64()&1 == 1 }
func (r *Rng) Chance(p float64) bool {
	return float64(r.U64()>>11)/float64(1<<53) < p
}
func (r *Rng) Float() float64 { return float64(r.U64()>>11) / float64(1<<53) }

func F2H(f float64) string { return fmt.Sprintf("%016x", math.Float64bits(f)) }
func H2F(s string) (float64, error) {
	u, err := strconv.ParseUint(s, 16, 64)
	if err != nil {
		return 0, err
	}
	return math.Float64frombits(u), nil
}

func ptToks(b *strings.Builder, p geom.Point) {
	b.WriteString(" ")
	b.WriteString(F2H(p.X))
	b.WriteString(" ")
	b.WriteString(F2H(p.Y))
}
func ptsToks(b *strings.Builder, ps []geom.Point) {
	fmt.Fprintf(b, " %d", len(ps))
	for _, p := range ps {
		ptToks(b, p)
	}
}

// GeomToks renders g in the line protocol (see lean/GeomV/Common/Geom.lean).
func GeomToks(g geom.Geom) string {
	var b strings.Builder
	geomToks(&b, g)
	return strings.TrimSpace(b.String())
}

func geomToks(b *strings.Builder, g geom.Geom) {
	switch t := g.(type) {
	case nil:
		b.WriteString(" NIL")
	case geom.Point:
		b.WriteString(" P")
		ptToks(b, t)
	case geom.MultiPoint:
		b.WriteString(" MP")
		ptsToks(b, t)
	case geom.LineString:
		b.WriteString(" LS")
		ptsToks(b, t)
	case geom.MultiLineString:
		fmt.Fprintf(b, " MLS %d", len(t))
		for _, l := range t {
			ptsToks(b, l)
		}
	case geom.Polygon:
		fmt.Fprintf(b, " PG %d", len(t))
		for _, l := range t {
			ptsToks(b, l)
		}
	case geom.MultiPolygon:
		fmt.Fprintf(b, " MPG %d", len(t))
		for _, pg := range t {
			fmt.Fprintf(b, " %d", len(pg))
			for _, l := range pg {
				ptsToks(b, l)
			}
		}
	case geom.GeometryCollection:
		fmt.Fprintf(b, " GC %d", len(t))
		for _, m := range t {
			geomToks(b, m)
		}
	case *geom.Bounds:
		if t == nil {
			b.WriteString(" NIL")
			return
		}
		b.WriteString(" B")
		ptToks(b, t.Min)
		ptToks(b, t.Max)
	default:
		fmt.Fprintf(b, " UNKNOWN(%T)", g)
	}
}

// Parser over a token slice.
type Parser struct {
	T []string
	I int
}

func NewParser(s string) *Parser { return &Parser{T: strings.Fields(s)} }
func (p *Parser) Done() bool     { return p.I >= len(p.T) }
func (p *Parser) Peek() string {
	if p.Done() {
		return ""
	}
	return p.T[p.I]
}
func (p *Parser) Next() string {
	if p.Done() {
		panic("vproto: unexpected end of line")
	}
	s := p.T[p.I]
	p.I++
	return s
}
func (p *Parser) Int() int {
	n, err := strconv.Atoi(p.Next())
	if err != nil {
		panic(err)
	}
	return n
}
func (p *Parser) F() float64 {
	f, err := H2F(p.Next())
	if err != nil {
		panic(err)
	}
	return f
}
func (p *Parser) Pt() geom.Point { x := p.F(); y := p.F(); return geom.Point{X: x, Y: y} }
func (p *Parser) Pts() []geom.Point {
	if p.Peek() == "nil" { // a nil slice (Go distinguishes it from an empty one; the models do not)
		p.Next()
		return nil
	}
	n := p.Int()
	r := make([]geom.Point, n)
	for i := range r {
		r[i] = p.Pt()
	}
	return r
}
func (p *Parser) Ptss() []geom.Path {
	if p.Peek() == "nil" {
		p.Next()
		return nil
	}
	n := p.Int()
	r := make([]geom.Path, n)
	for i := range r {
		r[i] = p.Pts()
	}
	return r
}

// Rest returns the remaining tokens joined by a space.
func (p *Parser) Rest() string { return strings.Join(p.T[p.I:], " ") }

// Geom parses one geometry.
func (p *Parser) Geom() geom.Geom {
	switch tag := p.Next(); tag {
	case "NIL":
		return nil
	case "P":
		return p.Pt()
	case "MP":
		return geom.MultiPoint(p.Pts())
	case "LS":
		return geom.LineString(p.Pts())
	case "MLS":
		n := p.Int()
		r := make(geom.MultiLineString, n)
		for i := range r {
			r[i] = geom.LineString(p.Pts())
		}
		return r
	case "PG":
		return geom.Polygon(p.Ptss())
	case "MPG":
		n := p.Int()
		r := make(geom.MultiPolygon, n)
		for i := range r {
			r[i] = geom.Polygon(p.Ptss())
		}
		return r
	case "GC":
		n := p.Int()
		r := make(geom.GeometryCollection, n)
		for i := range r {
			r[i] = p.Geom()
		}
		return r
	case "B":
		mn := p.Pt()
		mx := p.Pt()
		return &geom.Bounds{Min: mn, Max: mx}
	default:
		panic("vproto: unknown geometry tag " + tag)
	}
}

// Safe runs f and reports a panic as a string ("" when none).
func Safe(f func()) (panicked string) {
	defer func() {
		if e := recover(); e != nil {
			panicked = strings.ReplaceAll(fmt.Sprint(e), " ", "_")
			if panicked == "" {
				panicked = "panic"
			}
		}
	}()
	f()
	return ""
}

// Lines feeds every non-empty stdin line to f; output is flushed after every line.
func Lines(f func(line string, out *bufio.Writer)) {
	in := bufio.NewReaderSize(os.Stdin, 1<<20)
	out := bufio.NewWriterSize(os.Stdout, 1<<20)
	defer out.Flush()
	for {
		line, err := in.ReadString('\n')
		l := strings.TrimSpace(line)
		if l != "" {
			f(l, out)
			out.Flush() // per line: if the process dies on the next input, everything before it is out
		}
		if err != nil {
			return
		}
	}
}

// SplitArrow splits "lhs => rhs".
func SplitArrow(line string) (string, string) {
	i := strings.Index(line, " => ")
	if i < 0 {
		return line, ""
	}
	return line[:i], line[i+4:]
}

// SeedTier reads "--seed N --tier quick|thorough" style arguments.
func SeedTier(args []string) (seed uint64, tier string) {
	tier = "quick"
	for i := 0; i+1 < len(args); i++ {
		switch args[i] {
		case "--seed":
			seed, _ = strconv.ParseUint(args[i+1], 10, 64)
		case "--tier":
			tier = args[i+1]
		}
	}
	return
}
