// Compile-time tie for C19: gonum's AStar uses the link weights only if the value it is given
// satisfies path.Weighted. ShortestRoute has a VALUE receiver and passes that value on, so the
// assertion is about route.Network, not *route.Network. checks/C19.py builds this package on
// every run; a compile error is a broken obligation.
package main

import (
	"github.com/ctessum/geom/route"
	"gonum.org/v1/gonum/graph/path"
	"gonum.org/v1/gonum/graph/traverse"
)

var _ path.Weighted = route.Network{}
var _ traverse.Graph = route.Network{}

func main() {}
