// T1 tie for C19: regenerate Lean definitions of the functions of route/route.go from the Go source of the
// tree under test.
//
//	extract --repo DIR      prints the module GeomV.C19.Gen
//
// lean/GeomV/C19/Ties.lean proves that each regenerated function returns, without fault, the value of the
// model's function (Model.lean) on every network built by AddLink calls.  A function that leaves the subset
// below is NOT skipped: the extractor exits 3 and names it on stderr (the tie is then reported broken).
//
// Translation (every function is rendered in the monad Go.M = Except GFault; GenLib.lean).  C : Go.Ctx is the
// context (geometric primitives, +Inf, map order, queue); `net` is the receiver, threaded as a value:
//
//	x := e ; x = e ; var x T          ↦ let x := e                 (zero value of T for var / named results)
//	net.f = e ; net.f++               ↦ let net := { net with f := e }
//	net.m[k] = v                      ↦ let net := { net with m := Go.mapSet net.m k v }
//	net.m[k1][k2] = v                 ↦ let net := { net with m := (← Go.mapSet2 net.m k1 k2 v) }   (faults on a nil inner map)
//	v, ok := m[k] ; m[k]              ↦ Go.mapGetOk m k zero ; Go.mapGetD m k zero    (nested reads go through the nil inner map)
//	a[i] (slice)                      ↦ (← Go.idx a i)             (faulting)
//	p.f, p.m() through *node / *edge / graph.Node ↦ (← Go.deref p).f   (faulting on nil);  n.ID() ↦ (← Go.deref n).id
//	x.(*node)                         ↦ (← Go.assert x)            (faulting on a nil interface)
//	&node{..} &edge{..} &Network{..}  ↦ some { .. } / { .. }       (unnamed fields: zero values)
//	if [init;] c { S }                ↦ S ends in return/panic: if c then do S else do REST;
//	                                    otherwise: let vars ← (if c then do S; pure vars else pure vars), vars = variables assigned in S
//	switch t { case A: ..return ...}  ↦ if t = A then .. else if .. else default   (every branch must return or panic)
//	for i := 0; i < n; i++ { S }      ↦ let vars ← Go.forUpTo n vars (fun vars i => do S; pure vars)   (S must not assign i or the variables of n)
//	for k[, v] := range m { S }       ↦ let vars ← Go.forMap C.mo m vars (fun vars k v => do S; pure vars)   (order = parameter)
//	return e.. ; return (named)       ↦ pure (e.., net)  for methods that change the receiver, pure (e..) otherwise
//	panic(x)                          ↦ throw (.panic "..")
//	a && b with a faulting b          ↦ (← (if a then (do pure b) else pure false))   (short circuit)
//	+ - * / == != < <= > >= && || !   ↦ the same on α / Nat / Int, comparisons through decide
//	make(map..) rtree.NewTree(..)     ↦ []        t.Insert(x) ↦ t ++ [x] (x dereferenced)   t.Size() ↦ length
//	t.NearestNeighbor(p)              ↦ C.geo.nearest t p          op.PointEquals/Length/Distance ↦ C.geo.ptEq/length/euclid
//	math.Inf(1) ↦ C.inf     maxInt ↦ Go.maxInt     Distance, Time ↦ (0 : α), (1 : α)  (iota order read from the const block)
//	path.AStar(s, t, net, net.costHeuristic) ; shortest.To(id) ↦ Go.aStar on the regenerated From/Weight/costHeuristic ; Go.shortestTo
//	iterator.NewOrderedNodes(x) ↦ some x ;  nil ↦ none
package main

import (
	"fmt"
	"go/ast"
	"go/parser"
	"go/token"
	"os"
	"path/filepath"
	"sort"
	"strconv"
	"strings"
)

type xerr struct{ msg string }

func xfail(f string, a ...interface{}) { panic(xerr{fmt.Sprintf(f, a...)}) }

// ---------------------------------------------------------------- types

var leanType = map[string]string{
	"float64": "α", "MinimizeOption": "α", "int64": "Nat", "id": "Nat", "int": "Int", "bool": "Bool",
	"geom.Point": "Pt α", "geom.LineString": "List (Pt α)", "geom.MultiLineString": "List (List (Pt α))",
	"*node": "Option (MNode α)", "graph.Node": "Option (MNode α)", "rtree.Spatial": "Option (MNode α)",
	"*edge": "Option (Edge α)", "graph.Edge": "Option (Edge α)",
	"graph.Nodes": "Option (List (Option (MNode α)))", "[]graph.Node": "List (Option (MNode α))",
	"[]gonum.Node": "List Nat", "gonum.Node": "Nat", "path.Shortest": "AState α × Nat",
	"*Network": "Network α", "Network": "Network α",
	"map[int64]*node": "Map Nat (Option (MNode α))", "map[int64]*edge": "Map Nat (Option (Edge α))",
	"map[int64]map[int64]*edge": "Map Nat (Map Nat (Option (Edge α)))",
	"*rtree.Rtree(node)": "List (MNode α)", "*rtree.Rtree(edge)": "List (Edge α)",
}

func isPtr(t string) bool {
	switch t {
	case "*node", "graph.Node", "rtree.Spatial", "*edge", "graph.Edge":
		return true
	}
	return false
}

func zeroOf(t string) string {
	switch {
	case isPtr(t) || t == "graph.Nodes":
		return "none"
	case t == "float64" || t == "MinimizeOption":
		return "(0 : α)"
	case t == "int":
		return "(0 : Int)"
	case t == "int64" || t == "id":
		return "(0 : Nat)"
	case t == "bool":
		return "false"
	case strings.HasPrefix(t, "map[") || strings.HasPrefix(t, "[]") || strings.HasPrefix(t, "*rtree.") || t == "geom.LineString" || t == "geom.MultiLineString":
		return "[]"
	}
	xfail("zero value of type %s", t)
	return ""
}

func typeName(x ast.Expr) string {
	switch t := x.(type) {
	case *ast.Ident:
		return t.Name
	case *ast.StarExpr:
		return "*" + typeName(t.X)
	case *ast.ArrayType:
		if t.Len == nil {
			return "[]" + typeName(t.Elt)
		}
	case *ast.MapType:
		return "map[" + typeName(t.Key) + "]" + typeName(t.Value)
	case *ast.SelectorExpr:
		if id, ok := t.X.(*ast.Ident); ok {
			return id.Name + "." + t.Sel.Name
		}
	}
	return "?"
}

func mapElem(t string) string { // map[K]V -> V
	if !strings.HasPrefix(t, "map[") {
		return ""
	}
	depth := 0
	for i, c := range t {
		if c == '[' {
			depth++
		}
		if c == ']' {
			depth--
			if depth == 0 {
				return t[i+1:]
			}
		}
	}
	return ""
}

// fields of the structs: Go name -> (Go type, Lean field)
type field struct{ typ, lean string }

var structs = map[string]map[string]field{
	"node": {"Point": {"geom.Point", "p"}, "id": {"id", "id"}},
	"edge": {"LineString": {"geom.LineString", "LineString"}, "start": {"*node", "start"}, "end": {"*node", "end_"},
		"length": {"float64", "length"}, "speed": {"float64", "speed"}, "time": {"float64", "time"}},
	"Network": {"nodes": {"*rtree.Rtree(node)", "nodes"}, "edges": {"*rtree.Rtree(edge)", "edges"},
		"neighbors": {"map[int64]map[int64]*edge", "neighbors"}, "nodeMap": {"map[int64]*node", "nodeMap"},
		"maxID": {"id", "maxID"}, "minimizeOption": {"MinimizeOption", "minimizeOption"},
		"maximumSpeed": {"float64", "maximumSpeed"}, "heuristicScale": {"float64", "heuristicScale"}},
}

// the declared Go field lists the table above was written for (checked against the source)
var declared = map[string]string{
	"node":    "Point:geom.Point id:int",
	"edge":    "LineString:geom.LineString start,end:*node length,speed,time:float64",
	"Network": "nodes,edges:*rtree.Rtree neighbors:map[int64]map[int64]*edge nodeMap:map[int64]*node maxID:int freeMap:map[int]struct minimizeOption:MinimizeOption maximumSpeed:float64 heuristicScale:float64",
}

func structSig(st *ast.StructType) string {
	var parts []string
	for _, f := range st.Fields.List {
		tn := typeName(f.Type)
		if mt, ok := f.Type.(*ast.MapType); ok {
			if _, ok := mt.Value.(*ast.StructType); ok {
				tn = "map[" + typeName(mt.Key) + "]struct"
			}
		}
		var ns []string
		for _, n := range f.Names {
			ns = append(ns, n.Name)
		}
		if len(ns) == 0 { // embedded
			ns = []string{f.Type.(*ast.SelectorExpr).Sel.Name}
		}
		parts = append(parts, strings.Join(ns, ",")+":"+tn)
	}
	return strings.Join(parts, " ")
}

// ---------------------------------------------------------------- functions

type fnInfo struct {
	name, lean string
	fd         *ast.FuncDecl
	recv       string   // receiver variable name ("" = function)
	params     []string // names
	ptypes     []string
	results    []string // Go types
	rnames     []string // named results
	mutates    bool
}

var order = []string{"Has", "Node", "Edge", "From", "newNodeID", "newNode", "addNode", "AddLink", "Weight", "costHeuristic", "ShortestRoute", "NewNetwork"}

var fns = map[string]*fnInfo{}
var consts = map[string]string{} // Distance -> (0 : α)

var rename = map[string]string{"from": "from_", "end": "end_", "exists": "exists_", "at": "at_", "open": "open_", "then": "then_", "fun": "fun_", "show": "show_", "have": "have_"}

func ln(n string) string {
	if r, ok := rename[n]; ok {
		return r
	}
	return n
}

type tr struct {
	fi      *fnInfo
	vars    map[string]string
	pre     []string // statements hoisted in front of the current one
	hoistOK bool
	ntmp    int
}

func (t *tr) isRecv(e ast.Expr) bool {
	id, ok := e.(*ast.Ident)
	return ok && t.fi.recv != "" && id.Name == t.fi.recv
}

func (t *tr) typeOf(e ast.Expr) string {
	switch x := e.(type) {
	case *ast.ParenExpr:
		return t.typeOf(x.X)
	case *ast.Ident:
		if ty, ok := t.vars[x.Name]; ok {
			return ty
		}
		if _, ok := consts[x.Name]; ok {
			return "MinimizeOption"
		}
		if x.Name == "maxInt" {
			return "int"
		}
		if x.Name == "true" || x.Name == "false" {
			return "bool"
		}
	case *ast.BasicLit:
		return ""
	case *ast.SelectorExpr:
		if t.isRecv(x.X) {
			if f, ok := structs["Network"][x.Sel.Name]; ok {
				return f.typ
			}
		}
		switch t.typeOf(x.X) {
		case "*node", "graph.Node", "rtree.Spatial":
			if f, ok := structs["node"][x.Sel.Name]; ok {
				return f.typ
			}
		case "*edge", "graph.Edge":
			if f, ok := structs["edge"][x.Sel.Name]; ok {
				return f.typ
			}
		}
	case *ast.IndexExpr:
		bt := t.typeOf(x.X)
		if me := mapElem(bt); me != "" {
			return me
		}
		switch bt {
		case "geom.LineString":
			return "geom.Point"
		case "[]graph.Node":
			return "graph.Node"
		case "[]gonum.Node":
			return "gonum.Node"
		}
	case *ast.TypeAssertExpr:
		return typeName(x.Type)
	case *ast.UnaryExpr:
		if x.Op == token.AND {
			if cl, ok := x.X.(*ast.CompositeLit); ok {
				return "*" + typeName(cl.Type)
			}
		}
		if x.Op == token.NOT {
			return "bool"
		}
		return t.typeOf(x.X)
	case *ast.BinaryExpr:
		switch x.Op {
		case token.ADD, token.SUB, token.MUL, token.QUO:
			if ty := t.typeOf(x.X); ty != "" {
				return ty
			}
			return t.typeOf(x.Y)
		}
		return "bool"
	case *ast.CallExpr:
		switch f := x.Fun.(type) {
		case *ast.Ident:
			switch f.Name {
			case "len":
				return "int"
			case "int64":
				return "int64"
			case "make":
				return typeName(x.Args[0])
			case "append":
				return t.typeOf(x.Args[0])
			}
		case *ast.SelectorExpr:
			tn := typeName(f)
			switch tn {
			case "op.Distance", "op.Length":
				return "float64"
			case "op.PointEquals":
				return "bool"
			case "math.Inf":
				return "float64"
			case "geom.LineString":
				return "geom.LineString"
			}
			switch f.Sel.Name {
			case "ID":
				if t.typeOf(f.X) == "gonum.Node" {
					return "int64"
				}
				return "int64"
			case "NearestNeighbor":
				return "rtree.Spatial"
			case "Size":
				return "int"
			}
			if t.isRecv(f.X) {
				if fi, ok := fns[f.Sel.Name]; ok && len(fi.results) == 1 {
					return fi.results[0]
				}
			}
		}
	}
	return ""
}

func (t *tr) lit(x *ast.BasicLit, want string) string {
	if x.Kind != token.INT {
		xfail("literal %s", x.Value)
	}
	switch want {
	case "float64", "MinimizeOption":
		if x.Value != "0" && x.Value != "1" {
			xfail("float literal %s (only 0 and 1 are in the subset)", x.Value)
		}
		return "(" + x.Value + " : α)"
	case "id", "int64":
		return "(" + x.Value + " : Nat)"
	case "int", "":
		return "(" + x.Value + " : Int)"
	}
	xfail("literal %s of type %s", x.Value, want)
	return ""
}

func hasFault(s string) bool { return strings.Contains(s, "←") }

func (t *tr) expr(e ast.Expr, want string) string {
	switch x := e.(type) {
	case *ast.ParenExpr:
		return t.expr(x.X, want)
	case *ast.Ident:
		switch x.Name {
		case "true", "false":
			return x.Name
		case "nil":
			if isPtr(want) || want == "graph.Nodes" {
				return "none"
			}
			xfail("nil of type %q", want)
		case "maxInt":
			if want == "id" || want == "int64" {
				return "Go.maxInt"
			}
			return "(Go.maxInt : Int)"
		}
		if c, ok := consts[x.Name]; ok {
			return c
		}
		if _, ok := t.vars[x.Name]; !ok {
			xfail("unknown identifier %s", x.Name)
		}
		return ln(x.Name)
	case *ast.BasicLit:
		return t.lit(x, want)
	case *ast.UnaryExpr:
		switch x.Op {
		case token.NOT:
			return "(!" + t.expr(x.X, "bool") + ")"
		case token.AND:
			cl, ok := x.X.(*ast.CompositeLit)
			if !ok {
				xfail("address of a non-literal")
			}
			if typeName(cl.Type) == "Network" {
				return t.composite(cl)
			}
			return "(some " + t.composite(cl) + ")"
		}
		xfail("unary operator %s", x.Op)
	case *ast.BinaryExpr:
		ty := t.typeOf(x.X)
		if ty == "" {
			ty = t.typeOf(x.Y)
		}
		switch x.Op {
		case token.LAND, token.LOR:
			a, b := t.expr(x.X, "bool"), t.expr(x.Y, "bool")
			if hasFault(b) {
				if x.Op == token.LAND {
					return "(← (if " + a + " then (do pure " + b + ") else pure false))"
				}
				return "(← (if " + a + " then pure true else (do pure " + b + ")))"
			}
			return "(" + a + " " + x.Op.String() + " " + b + ")"
		case token.ADD, token.SUB, token.MUL, token.QUO:
			if want != "" && ty == "" {
				ty = want
			}
			return "(" + t.expr(x.X, ty) + " " + x.Op.String() + " " + t.expr(x.Y, ty) + ")"
		case token.EQL, token.NEQ, token.LSS, token.GTR, token.LEQ, token.GEQ:
			if isPtr(ty) {
				if id, ok := x.Y.(*ast.Ident); ok && id.Name == "nil" {
					if x.Op == token.NEQ {
						return "(" + t.expr(x.X, ty) + ").isSome"
					}
					if x.Op == token.EQL {
						return "(" + t.expr(x.X, ty) + ").isNone"
					}
				}
				xfail("comparison of pointers")
			}
			if ty == "int64" && t.typeOf(x.Y) == "id" || ty == "id" && t.typeOf(x.Y) == "int" { // maxID != maxInt
				ty = "id"
			}
			op := map[token.Token]string{token.EQL: "=", token.NEQ: "≠", token.LSS: "<", token.GTR: ">", token.LEQ: "≤", token.GEQ: "≥"}[x.Op]
			return "(decide (" + t.expr(x.X, ty) + " " + op + " " + t.expr(x.Y, ty) + "))"
		}
		xfail("binary operator %s", x.Op)
	case *ast.SelectorExpr:
		if t.isRecv(x.X) {
			f, ok := structs["Network"][x.Sel.Name]
			if !ok {
				xfail("field net.%s", x.Sel.Name)
			}
			return ln(t.fi.recv) + "." + f.lean
		}
		bt := t.typeOf(x.X)
		var st string
		switch bt {
		case "*node", "graph.Node", "rtree.Spatial":
			st = "node"
		case "*edge", "graph.Edge":
			st = "edge"
		default:
			xfail("selector .%s on a value of type %q", x.Sel.Name, bt)
		}
		f, ok := structs[st][x.Sel.Name]
		if !ok {
			xfail("field %s.%s", st, x.Sel.Name)
		}
		return "(← Go.deref " + t.expr(x.X, bt) + ")." + f.lean
	case *ast.TypeAssertExpr:
		tn := typeName(x.Type)
		if tn != "*node" {
			xfail("type assertion to %s", tn)
		}
		return "(← Go.assert " + t.expr(x.X, "rtree.Spatial") + ")"
	case *ast.IndexExpr:
		bt := t.typeOf(x.X)
		if me := mapElem(bt); me != "" {
			return "(Go.mapGetD " + t.expr(x.X, bt) + " " + t.expr(x.Index, "int64") + " " + zeroOf(me) + ")"
		}
		if bt == "geom.LineString" || strings.HasPrefix(bt, "[]") {
			return "(← Go.idx " + t.expr(x.X, bt) + " " + t.expr(x.Index, "int") + ")"
		}
		xfail("index into a value of type %q", bt)
	case *ast.CompositeLit:
		return t.composite(x)
	case *ast.CallExpr:
		return t.call(x, want)
	}
	xfail("expression %T", e)
	return ""
}

func (t *tr) composite(x *ast.CompositeLit) string {
	tn := typeName(x.Type)
	fs, ok := structs[tn]
	if !ok {
		xfail("composite literal of type %s", tn)
	}
	given := map[string]string{}
	for _, el := range x.Elts {
		kv, ok := el.(*ast.KeyValueExpr)
		if !ok {
			xfail("unkeyed struct literal")
		}
		k := kv.Key.(*ast.Ident).Name
		f, ok := fs[k]
		if !ok {
			xfail("field %s.%s", tn, k)
		}
		given[k] = t.expr(kv.Value, f.typ)
	}
	var names []string
	for k := range fs {
		names = append(names, k)
	}
	sort.Strings(names)
	var parts []string
	for _, k := range names {
		v, ok := given[k]
		if !ok {
			v = zeroOf(fs[k].typ)
		}
		parts = append(parts, fs[k].lean+" := "+v)
	}
	lt := map[string]string{"node": "MNode α", "edge": "Edge α", "Network": "Network α"}[tn]
	return "({ " + strings.Join(parts, ", ") + " } : " + lt + ")"
}

func (t *tr) call(x *ast.CallExpr, want string) string {
	switch f := x.Fun.(type) {
	case *ast.Ident:
		switch f.Name {
		case "len":
			return "(Go.len " + t.expr(x.Args[0], "") + ")"
		case "int64":
			return t.expr(x.Args[0], "id")
		case "make":
			tn := typeName(x.Args[0])
			if strings.HasPrefix(tn, "map[") {
				return "[]"
			}
			if tn == "[]graph.Node" && len(x.Args) == 2 {
				return "(← Go.make " + t.expr(x.Args[1], "int") + " (none : Option (MNode α)))"
			}
			xfail("make of type %s", tn)
		case "append":
			if len(x.Args) != 2 || x.Ellipsis != token.NoPos {
				xfail("append form")
			}
			return "(" + t.expr(x.Args[0], "") + " ++ [" + t.expr(x.Args[1], "") + "])"
		}
		xfail("call of %s", f.Name)
	case *ast.SelectorExpr:
		tn := typeName(f)
		switch tn {
		case "op.PointEquals":
			return "(C.geo.ptEq " + t.expr(x.Args[0], "") + " " + t.expr(x.Args[1], "") + ")"
		case "op.Distance":
			return "(C.geo.euclid " + t.expr(x.Args[0], "") + " " + t.expr(x.Args[1], "") + ")"
		case "op.Length":
			return "(C.geo.length " + t.expr(x.Args[0], "") + ")"
		case "math.Inf":
			if b, ok := x.Args[0].(*ast.BasicLit); !ok || b.Value != "1" {
				xfail("math.Inf of something other than 1")
			}
			return "C.inf"
		case "rtree.NewTree":
			return "[]"
		case "iterator.NewOrderedNodes":
			return "(some " + t.expr(x.Args[0], "") + ")"
		case "geom.LineString":
			return t.expr(x.Args[0], "")
		}
		switch f.Sel.Name {
		case "ID":
			bt := t.typeOf(f.X)
			if bt == "gonum.Node" {
				return t.expr(f.X, bt)
			}
			if !isPtr(bt) {
				xfail("ID() on a value of type %q", bt)
			}
			return "(← Go.deref " + t.expr(f.X, bt) + ").id"
		case "Size":
			return "(Go.treeSize " + t.expr(f.X, "") + ")"
		case "NearestNeighbor":
			return "(C.geo.nearest " + t.expr(f.X, "") + " " + t.expr(x.Args[0], "") + ")"
		}
		if t.isRecv(f.X) {
			fi, ok := fns[f.Sel.Name]
			if !ok {
				xfail("method %s is not translated", f.Sel.Name)
			}
			if fi.mutates {
				// hoisted in front of the statement (only where the caller collects t.pre: return statements)
				if !t.hoistOK || len(fi.results) != 1 {
					xfail("call of the receiver-changing method %s inside an expression", f.Sel.Name)
				}
				t.ntmp++
				tmp := fmt.Sprintf("r%d", t.ntmp)
				t.pre = append(t.pre, fmt.Sprintf("let (%s, %s) ← %s C %s%s", tmp, ln(t.fi.recv), fi.lean, ln(t.fi.recv), t.args(fi, x.Args)))
				return tmp
			}
			return "(← " + fi.lean + " C " + ln(t.fi.recv) + t.args(fi, x.Args) + ")"
		}
		xfail("method %s", tn)
	}
	xfail("call")
	return ""
}

func (t *tr) args(fi *fnInfo, as []ast.Expr) string {
	if len(as) != len(fi.ptypes) {
		xfail("argument count of %s", fi.name)
	}
	s := ""
	for i, a := range as {
		s += " " + t.expr(a, fi.ptypes[i])
	}
	return s
}

// ---------------------------------------------------------------- statements

// does the statement list change the receiver?
func (t *tr) mutatesRecv(ss []ast.Stmt) bool {
	found := false
	for _, s := range ss {
		ast.Inspect(s, func(n ast.Node) bool {
			switch x := n.(type) {
			case *ast.AssignStmt:
				for _, l := range x.Lhs {
					if t.baseIsRecvField(l) {
						found = true
					}
				}
			case *ast.IncDecStmt:
				if t.baseIsRecvField(x.X) {
					found = true
				}
			case *ast.CallExpr:
				if sel, ok := x.Fun.(*ast.SelectorExpr); ok {
					if t.isRecv(sel.X) {
						if fi, ok := fns[sel.Sel.Name]; ok && fi.mutates {
							found = true
						}
					}
					if sel.Sel.Name == "Insert" {
						found = true
					}
				}
			}
			return true
		})
	}
	return found
}

func (t *tr) baseIsRecvField(e ast.Expr) bool {
	for {
		switch x := e.(type) {
		case *ast.IndexExpr:
			e = x.X
		case *ast.SelectorExpr:
			return t.isRecv(x.X)
		default:
			return false
		}
	}
}

// variables assigned in ss that are declared outside ss (the receiver counts when it is changed)
func (t *tr) assigned(ss []ast.Stmt) []string {
	declared := map[string]bool{}
	seen := map[string]bool{}
	var out []string
	note := func(n string) {
		if n != "_" && !declared[n] && !seen[n] {
			seen[n] = true
			out = append(out, n)
		}
	}
	var walk func(ss []ast.Stmt)
	walk = func(ss []ast.Stmt) {
		for _, s := range ss {
			switch x := s.(type) {
			case *ast.AssignStmt:
				for _, l := range x.Lhs {
					if id, ok := l.(*ast.Ident); ok {
						if x.Tok == token.DEFINE {
							declared[id.Name] = true
						} else {
							note(id.Name)
						}
					} else if ix, ok := l.(*ast.IndexExpr); ok {
						if id, ok := ix.X.(*ast.Ident); ok {
							note(id.Name)
						}
					}
				}
			case *ast.IncDecStmt:
				if id, ok := x.X.(*ast.Ident); ok {
					note(id.Name)
				}
			case *ast.IfStmt:
				if x.Init != nil {
					walk([]ast.Stmt{x.Init})
				}
				walk(x.Body.List)
			case *ast.ForStmt:
				walk(x.Body.List)
			case *ast.RangeStmt:
				walk(x.Body.List)
			case *ast.SwitchStmt:
				for _, c := range x.Body.List {
					walk(c.(*ast.CaseClause).Body)
				}
			}
		}
	}
	walk(ss)
	if t.fi.recv != "" && t.mutatesRecv(ss) {
		out = append(out, t.fi.recv)
	}
	return out
}

func tuple(vs []string) string {
	var r []string
	for _, v := range vs {
		r = append(r, ln(v))
	}
	switch len(r) {
	case 0:
		return "()"
	case 1:
		return r[0]
	}
	return "(" + strings.Join(r, ", ") + ")"
}

func terminates(ss []ast.Stmt) bool {
	if len(ss) == 0 {
		return false
	}
	switch x := ss[len(ss)-1].(type) {
	case *ast.ReturnStmt:
		return true
	case *ast.ExprStmt:
		if c, ok := x.X.(*ast.CallExpr); ok {
			if id, ok := c.Fun.(*ast.Ident); ok && id.Name == "panic" {
				return true
			}
		}
	case *ast.SwitchStmt:
		hasDefault := false
		for _, c := range x.Body.List {
			cc := c.(*ast.CaseClause)
			if cc.List == nil {
				hasDefault = true
			}
			if !terminates(cc.Body) {
				return false
			}
		}
		return hasDefault
	}
	return false
}

func containsReturn(ss []ast.Stmt) bool {
	found := false
	for _, s := range ss {
		ast.Inspect(s, func(n ast.Node) bool {
			if _, ok := n.(*ast.ReturnStmt); ok {
				found = true
			}
			if _, ok := n.(*ast.FuncLit); ok {
				return false
			}
			return true
		})
	}
	return found
}

func panicMsg(c *ast.CallExpr) string {
	msg := ""
	ast.Inspect(c, func(n ast.Node) bool {
		if b, ok := n.(*ast.BasicLit); ok && b.Kind == token.STRING && msg == "" {
			msg, _ = strconv.Unquote(b.Value)
		}
		return true
	})
	return strconv.Quote(msg)
}

func (t *tr) save() map[string]string {
	m := map[string]string{}
	for k, v := range t.vars {
		m[k] = v
	}
	return m
}

func (t *tr) retTuple(vals []string) string {
	if t.fi.mutates {
		vals = append(vals, ln(t.fi.recv))
	}
	switch len(vals) {
	case 0:
		return "pure ()"
	case 1:
		return "pure " + vals[0]
	}
	return "pure (" + strings.Join(vals, ", ") + ")"
}

// setRecvField renders `net.f... = rhs`
func (t *tr) assignRecv(l ast.Expr, rhs func(want string) string, ind string, out *strings.Builder) {
	r := ln(t.fi.recv)
	switch x := l.(type) {
	case *ast.SelectorExpr:
		f := structs["Network"][x.Sel.Name]
		if f.lean == "" {
			xfail("field net.%s", x.Sel.Name)
		}
		fmt.Fprintf(out, "%slet %s := { %s with %s := %s }\n", ind, r, r, f.lean, rhs(f.typ))
	case *ast.IndexExpr:
		switch b := x.X.(type) {
		case *ast.SelectorExpr: // net.m[k] = v
			f := structs["Network"][b.Sel.Name]
			me := mapElem(f.typ)
			if me == "" {
				xfail("index assignment into net.%s", b.Sel.Name)
			}
			fmt.Fprintf(out, "%slet %s := { %s with %s := Go.mapSet %s.%s %s %s }\n", ind, r, r, f.lean, r, f.lean, t.expr(x.Index, "int64"), rhs(me))
		case *ast.IndexExpr: // net.m[k1][k2] = v
			sel, ok := b.X.(*ast.SelectorExpr)
			if !ok || !t.isRecv(sel.X) {
				xfail("nested index assignment target")
			}
			f := structs["Network"][sel.Sel.Name]
			me := mapElem(mapElem(f.typ))
			if me == "" {
				xfail("nested index assignment into net.%s", sel.Sel.Name)
			}
			fmt.Fprintf(out, "%slet %s := { %s with %s := (← Go.mapSet2 %s.%s %s %s %s) }\n", ind, r, r, f.lean, r, f.lean,
				t.expr(b.Index, "int64"), t.expr(x.Index, "int64"), rhs(me))
		default:
			xfail("assignment target")
		}
	default:
		xfail("assignment target %T", l)
	}
}

func (t *tr) block(ss []ast.Stmt, ind string, tail string, inLoop bool, out *strings.Builder) {
	for i, s := range ss {
		switch x := s.(type) {
		case *ast.AssignStmt:
			t.assign(x, ind, out)
		case *ast.IncDecStmt:
			if x.Tok != token.INC {
				xfail("decrement")
			}
			if t.baseIsRecvField(x.X) {
				t.assignRecv(x.X, func(w string) string { return "(" + t.expr(x.X, w) + " + 1)" }, ind, out)
			} else if id, ok := x.X.(*ast.Ident); ok {
				fmt.Fprintf(out, "%slet %s := (%s + 1)\n", ind, ln(id.Name), ln(id.Name))
			} else {
				xfail("increment target")
			}
		case *ast.DeclStmt:
			xfail("declaration statement")
		case *ast.ExprStmt:
			c, ok := x.X.(*ast.CallExpr)
			if !ok {
				xfail("expression statement")
			}
			if id, ok := c.Fun.(*ast.Ident); ok && id.Name == "panic" {
				fmt.Fprintf(out, "%sthrow (.panic %s)\n", ind, panicMsg(c))
				return
			}
			sel, ok := c.Fun.(*ast.SelectorExpr)
			if !ok {
				xfail("call statement")
			}
			r := ln(t.fi.recv)
			if sel.Sel.Name == "Insert" { // net.nodes.Insert(x)
				fs, ok := sel.X.(*ast.SelectorExpr)
				if !ok || !t.isRecv(fs.X) {
					xfail("Insert on something that is not a tree of the receiver")
				}
				f := structs["Network"][fs.Sel.Name]
				arg := c.Args[0]
				var a string
				if ta, ok := arg.(*ast.TypeAssertExpr); ok {
					a = "(← Go.deref (← Go.assert " + t.expr(ta.X, "graph.Node") + "))"
				} else {
					a = "(← Go.deref " + t.expr(arg, "") + ")"
				}
				fmt.Fprintf(out, "%slet %s := { %s with %s := Go.treeInsert %s.%s %s }\n", ind, r, r, f.lean, r, f.lean, a)
			} else if t.isRecv(sel.X) {
				fi, ok := fns[sel.Sel.Name]
				if !ok || !fi.mutates || len(fi.results) != 0 {
					xfail("call statement of %s", sel.Sel.Name)
				}
				fmt.Fprintf(out, "%slet %s ← %s C %s%s\n", ind, r, fi.lean, r, t.args(fi, c.Args))
			} else {
				xfail("call statement %s", typeName(sel))
			}
		case *ast.IfStmt:
			if x.Else != nil {
				xfail("else")
			}
			saved := t.save()
			if x.Init != nil {
				as, ok := x.Init.(*ast.AssignStmt)
				if !ok || as.Tok != token.DEFINE {
					xfail("if init")
				}
				for _, l := range as.Lhs {
					if id := l.(*ast.Ident); id.Name != "_" {
						if _, dup := t.vars[id.Name]; dup && id.Name != "ok" {
							xfail("if init shadows %s", id.Name)
						}
					}
				}
				t.assign(as, ind, out)
			}
			cond := t.expr(x.Cond, "bool")
			if terminates(x.Body.List) {
				if inLoop {
					if _, isRet := x.Body.List[len(x.Body.List)-1].(*ast.ReturnStmt); isRet {
						xfail("return inside a loop")
					}
				}
				fmt.Fprintf(out, "%sif %s then do\n", ind, cond)
				in := t.save()
				t.block(x.Body.List, ind+"  ", "", inLoop, out)
				t.vars = in
				fmt.Fprintf(out, "%selse do\n", ind)
				t.block(ss[i+1:], ind+"  ", tail, inLoop, out)
				t.vars = saved
				return
			}
			if containsReturn(x.Body.List) {
				// `if c { S }; REST` with a return somewhere inside S: if c then do S; REST else do REST
				if inLoop {
					xfail("return inside a loop")
				}
				fmt.Fprintf(out, "%sif %s then do\n", ind, cond)
				in := t.save()
				t.block(append(append([]ast.Stmt{}, x.Body.List...), ss[i+1:]...), ind+"  ", tail, inLoop, out)
				t.vars = in
				fmt.Fprintf(out, "%selse do\n", ind)
				t.block(ss[i+1:], ind+"  ", tail, inLoop, out)
				t.vars = saved
				return
			}
			st := t.assigned(x.Body.List)
			fmt.Fprintf(out, "%slet %s ← (if %s then do\n", ind, tuple(st), cond)
			in := t.save()
			t.block(x.Body.List, ind+"    ", "pure "+tuple(st), true, out)
			t.vars = in
			fmt.Fprintf(out, "%s  else pure %s)\n", ind, tuple(st))
			if x.Init == nil {
				t.vars = saved
			}
		case *ast.SwitchStmt:
			if x.Init != nil || x.Tag == nil || !terminates([]ast.Stmt{x}) {
				xfail("switch form (every branch must return or panic, with a default)")
			}
			tag := t.expr(x.Tag, "")
			tt := t.typeOf(x.Tag)
			var def *ast.CaseClause
			cur := ind
			for _, c := range x.Body.List {
				cc := c.(*ast.CaseClause)
				if cc.List == nil {
					def = cc
					continue
				}
				var cs []string
				for _, v := range cc.List {
					cs = append(cs, "decide ("+tag+" = "+t.expr(v, tt)+")")
				}
				fmt.Fprintf(out, "%sif %s then do\n", cur, strings.Join(cs, " || "))
				in := t.save()
				t.block(cc.Body, cur+"  ", "", inLoop, out)
				t.vars = in
				fmt.Fprintf(out, "%selse do\n", cur)
				cur += "  "
			}
			t.block(def.Body, cur, "", inLoop, out)
			return
		case *ast.ForStmt:
			t.forLoop(x, ind, out)
		case *ast.RangeStmt:
			t.rangeLoop(x, ind, out)
		case *ast.ReturnStmt:
			if inLoop {
				xfail("return inside a loop")
			}
			if i != len(ss)-1 {
				xfail("statements after return")
			}
			var vals []string
			if len(x.Results) == 0 {
				for _, n := range t.fi.rnames {
					vals = append(vals, ln(n))
				}
			} else {
				if len(x.Results) != len(t.fi.results) {
					xfail("return arity")
				}
				t.pre, t.hoistOK = nil, true
				for k, r := range x.Results {
					vals = append(vals, t.expr(r, t.fi.results[k]))
				}
				t.hoistOK = false
				if len(t.pre) > 0 && len(x.Results) != 1 {
					xfail("receiver-changing call inside a multi-value return")
				}
				for _, p := range t.pre {
					fmt.Fprintf(out, "%s%s\n", ind, p)
				}
			}
			fmt.Fprintf(out, "%s%s\n", ind, t.retTuple(vals))
			return
		default:
			xfail("statement %T", s)
		}
	}
	if tail == "" {
		xfail("control reaches the end of a block that must return")
	}
	fmt.Fprintf(out, "%s%s\n", ind, tail)
}

func (t *tr) assign(x *ast.AssignStmt, ind string, out *strings.Builder) {
	// compound assignment on a local: x += e
	if x.Tok == token.ADD_ASSIGN {
		id, ok := x.Lhs[0].(*ast.Ident)
		if !ok {
			xfail("+= target")
		}
		ty := t.vars[id.Name]
		fmt.Fprintf(out, "%slet %s := (%s + %s)\n", ind, ln(id.Name), ln(id.Name), t.expr(x.Rhs[0], ty))
		return
	}
	if x.Tok != token.DEFINE && x.Tok != token.ASSIGN {
		xfail("assignment operator %s", x.Tok)
	}
	if len(x.Lhs) == 2 && len(x.Rhs) == 1 {
		a, b := x.Lhs[0].(*ast.Ident), x.Lhs[1].(*ast.Ident)
		switch r := x.Rhs[0].(type) {
		case *ast.IndexExpr: // v, ok := m[k]
			bt := t.typeOf(r.X)
			me := mapElem(bt)
			if me == "" {
				xfail("comma-ok on a non-map")
			}
			fmt.Fprintf(out, "%slet (%s, %s) := Go.mapGetOk %s %s %s\n", ind, ln(a.Name), ln(b.Name), t.expr(r.X, bt), t.expr(r.Index, "int64"), zeroOf(me))
			if a.Name != "_" {
				t.vars[a.Name] = me
			}
			if b.Name != "_" {
				t.vars[b.Name] = "bool"
			}
			return
		case *ast.CallExpr:
			sel, ok := r.Fun.(*ast.SelectorExpr)
			if !ok {
				xfail("two-value call")
			}
			rn := ln(t.fi.recv)
			nn := "(Go.len " + rn + ".nodeMap).toNat"
			switch {
			case typeName(sel) == "path.AStar":
				if len(r.Args) != 4 || !t.isRecv(r.Args[2]) || b.Name != "_" {
					xfail("AStar call form")
				}
				if h, ok := r.Args[3].(*ast.SelectorExpr); !ok || !t.isRecv(h.X) || h.Sel.Name != "costHeuristic" {
					xfail("AStar heuristic is not net.costHeuristic")
				}
				fmt.Fprintf(out, "%slet %s ← Go.aStar C.Q (fun u => network_From C %s u) (fun x y => network_Weight C %s x y) (fun x y => network_costHeuristic C %s x y) (fun i => Go.mapGetD %s.nodeMap i none) (%s + 2) %s %s\n",
					ind, ln(a.Name), rn, rn, rn, rn, nn, t.expr(r.Args[0], "*node"), t.expr(r.Args[1], "*node"))
				t.vars[a.Name] = "path.Shortest"
				return
			case sel.Sel.Name == "To" && t.typeOf(sel.X) == "path.Shortest":
				if b.Name != "_" {
					xfail("To call form")
				}
				fmt.Fprintf(out, "%slet %s ← Go.shortestTo %s %s (%s + 3)\n", ind, ln(a.Name), t.expr(sel.X, ""), t.expr(r.Args[0], "int64"), nn)
				t.vars[a.Name] = "[]gonum.Node"
				return
			}
			xfail("two-value call of %s", typeName(sel))
		}
		xfail("two-value assignment")
	}
	if len(x.Lhs) != 1 || len(x.Rhs) != 1 {
		xfail("parallel assignment")
	}
	l := x.Lhs[0]
	if t.baseIsRecvField(l) {
		if x.Tok != token.ASSIGN {
			xfail("define of a field")
		}
		t.assignRecv(l, func(w string) string { return t.expr(x.Rhs[0], w) }, ind, out)
		return
	}
	switch lv := l.(type) {
	case *ast.Ident:
		// call of a receiver-changing method with a result
		if c, ok := x.Rhs[0].(*ast.CallExpr); ok {
			if sel, ok := c.Fun.(*ast.SelectorExpr); ok && t.isRecv(sel.X) {
				if fi, ok := fns[sel.Sel.Name]; ok && fi.mutates {
					if len(fi.results) != 1 {
						xfail("result count of %s", fi.name)
					}
					fmt.Fprintf(out, "%slet (%s, %s) ← %s C %s%s\n", ind, ln(lv.Name), ln(t.fi.recv), fi.lean, ln(t.fi.recv), t.args(fi, c.Args))
					t.vars[lv.Name] = fi.results[0]
					return
				}
			}
		}
		want := ""
		if x.Tok == token.ASSIGN {
			w, ok := t.vars[lv.Name]
			if !ok {
				xfail("assignment to unknown variable %s", lv.Name)
			}
			want = w
		}
		ty := t.typeOf(x.Rhs[0])
		if ty == "" {
			ty = want
		}
		if ty == "" {
			if _, ok := x.Rhs[0].(*ast.BasicLit); ok {
				ty = "int"
			}
		}
		if ty == "" {
			xfail("type of %s unknown", lv.Name)
		}
		lt, ok := leanType[ty]
		if !ok {
			xfail("type %s of %s", ty, lv.Name)
		}
		fmt.Fprintf(out, "%slet %s : %s := %s\n", ind, ln(lv.Name), lt, t.expr(x.Rhs[0], ty))
		t.vars[lv.Name] = ty
	case *ast.IndexExpr: // a[i] = v on a local slice
		id, ok := lv.X.(*ast.Ident)
		if !ok {
			xfail("index assignment target")
		}
		bt := t.vars[id.Name]
		et := map[string]string{"[]graph.Node": "graph.Node"}[bt]
		if et == "" {
			xfail("index assignment into %s", bt)
		}
		fmt.Fprintf(out, "%slet %s ← Go.setIdx %s %s %s\n", ind, ln(id.Name), ln(id.Name), t.expr(lv.Index, "int"), t.expr(x.Rhs[0], et))
	default:
		xfail("assignment target %T", l)
	}
}

func usesIdent(n ast.Node, name string) bool {
	found := false
	ast.Inspect(n, func(m ast.Node) bool {
		if id, ok := m.(*ast.Ident); ok && id.Name == name {
			found = true
		}
		return true
	})
	return found
}

func (t *tr) forLoop(x *ast.ForStmt, ind string, out *strings.Builder) {
	init, ok := x.Init.(*ast.AssignStmt)
	if !ok || init.Tok != token.DEFINE || len(init.Lhs) != 1 {
		xfail("for init")
	}
	iv := init.Lhs[0].(*ast.Ident).Name
	if b, ok := init.Rhs[0].(*ast.BasicLit); !ok || b.Value != "0" {
		xfail("for loop does not start at 0")
	}
	cond, ok := x.Cond.(*ast.BinaryExpr)
	if !ok || cond.Op != token.LSS {
		xfail("for condition")
	}
	if id, ok := cond.X.(*ast.Ident); !ok || id.Name != iv {
		xfail("for condition variable")
	}
	if post, ok := x.Post.(*ast.IncDecStmt); !ok || post.Tok != token.INC || post.X.(*ast.Ident).Name != iv {
		xfail("for post statement")
	}
	st := t.assigned(x.Body.List)
	for _, v := range st {
		if v == iv || usesIdent(cond.Y, v) {
			xfail("loop body assigns %s, which the loop condition depends on", v)
		}
	}
	bound := t.expr(cond.Y, "int")
	saved := t.save()
	t.vars[iv] = "int"
	fmt.Fprintf(out, "%slet %s ← Go.forUpTo %s %s (fun %s %s => do\n", ind, tuple(st), bound, tuple(st), tuple(st), ln(iv))
	t.block(x.Body.List, ind+"    ", "pure "+tuple(st), true, out)
	fmt.Fprintf(out, "%s  )\n", ind)
	t.vars = saved
}

func (t *tr) rangeLoop(x *ast.RangeStmt, ind string, out *strings.Builder) {
	if x.Tok != token.DEFINE {
		xfail("range without :=")
	}
	bt := t.typeOf(x.X)
	me := mapElem(bt)
	if me == "" {
		xfail("range over a value of type %q (only maps)", bt)
	}
	k, v := "_", "_"
	if id, ok := x.Key.(*ast.Ident); ok {
		k = id.Name
	}
	if x.Value != nil {
		v = x.Value.(*ast.Ident).Name
	}
	st := t.assigned(x.Body.List)
	saved := t.save()
	if k != "_" {
		t.vars[k] = "int64"
	}
	if v != "_" {
		t.vars[v] = me
	}
	fmt.Fprintf(out, "%slet %s ← Go.forMap C.mo %s %s (fun %s %s %s => do\n", ind, tuple(st), t.expr(x.X, bt), tuple(st), tuple(st), ln(k), ln(v))
	t.block(x.Body.List, ind+"    ", "pure "+tuple(st), true, out)
	fmt.Fprintf(out, "%s  )\n", ind)
	t.vars = saved
}

// ---------------------------------------------------------------- driver

func resultLean(fi *fnInfo) string {
	var rs []string
	for _, r := range fi.results {
		lt, ok := leanType[r]
		if !ok {
			xfail("result type %s", r)
		}
		rs = append(rs, lt)
	}
	if fi.mutates {
		rs = append(rs, "Network α")
	}
	switch len(rs) {
	case 0:
		return "Unit"
	case 1:
		return rs[0]
	}
	return strings.Join(rs, " × ")
}

func translate(fi *fnInfo) string {
	t := &tr{fi: fi, vars: map[string]string{}}
	var params []string
	if fi.recv != "" {
		params = append(params, "("+ln(fi.recv)+" : Network α)")
	}
	for i, n := range fi.params {
		lt, ok := leanType[fi.ptypes[i]]
		if !ok {
			xfail("parameter type %s", fi.ptypes[i])
		}
		t.vars[n] = fi.ptypes[i]
		params = append(params, "("+ln(n)+" : "+lt+")")
	}
	var body strings.Builder
	for i, n := range fi.rnames {
		t.vars[n] = fi.results[i]
		fmt.Fprintf(&body, "  let %s : %s := %s\n", ln(n), leanType[fi.results[i]], zeroOf(fi.results[i]))
	}
	tail := ""
	if len(fi.results) == 0 || len(fi.rnames) > 0 {
		var vals []string
		for _, n := range fi.rnames {
			vals = append(vals, ln(n))
		}
		tail = t.retTuple(vals)
	}
	t.block(fi.fd.Body.List, "  ", tail, false, &body)
	rc := "func " + fi.name
	if fi.recv != "" {
		rc = "method " + fi.name
	}
	return fmt.Sprintf("/-- route.go: %s -/\ndef %s (C : Ctx α) %s : M (%s) := do\n%s", rc, fi.lean, strings.Join(params, " "), resultLean(fi), body.String())
}

const genHeader = `import GeomV.C19.GenLib
/-! GENERATED by ` + "`harness/cmd/c19/extract`" + ` from route/route.go of the tree under test.  Do not edit; regenerated by
every ` + "`bin/check C19`" + ` run (checks/C19.py pregen).  Tie lemmas: Ties.lean. -/
set_option linter.unusedVariables false
namespace GeomV.C19.Gen
open GeomV GeomV.C19 GeomV.C19.Go

variable {α : Type} [Zero α] [One α] [Add α] [Mul α] [Div α] [LT α] [DecidableLT α] [DecidableEq α]

/-- what the regenerated functions are parameterised by: the geometric primitives (R-tree nearest neighbour,
op.PointEquals / Length / Distance), math.Inf(1), the order of map iteration, gonum's priority queue -/
structure Ctx (α : Type) where
  geo : Geo α
  inf : α
  mo : MapOrder
  Q : Queue α

`

func main() {
	repo := "/repo"
	for i, a := range os.Args {
		if a == "--repo" && i+1 < len(os.Args) {
			repo = os.Args[i+1]
		}
	}
	os.Exit(extract(repo))
}

func extract(repo string) int {
	fset := token.NewFileSet()
	f, err := parser.ParseFile(fset, filepath.Join(repo, "route", "route.go"), nil, 0)
	if err != nil {
		fmt.Fprintf(os.Stderr, "cannot parse route.go: %v\n", err)
		return 2
	}
	var sb strings.Builder
	sb.WriteString(genHeader)
	rc := 0
	report := func(what string, e xerr) {
		fmt.Fprintf(os.Stderr, "route.go %s is outside the translatable subset: %s\n", what, e.msg)
		rc = 3
	}
	// struct declarations and the constant block
	for _, d := range f.Decls {
		gd, ok := d.(*ast.GenDecl)
		if !ok {
			continue
		}
		for _, sp := range gd.Specs {
			switch s := sp.(type) {
			case *ast.TypeSpec:
				if st, ok := s.Type.(*ast.StructType); ok {
					if want, ok := declared[s.Name.Name]; ok {
						if got := structSig(st); got != want {
							report("type "+s.Name.Name, xerr{"field list changed: " + got})
						}
						delete(declared, s.Name.Name)
					}
				}
			case *ast.ValueSpec:
				if gd.Tok == token.CONST && len(s.Names) == 1 && (s.Names[0].Name == "Distance" || s.Names[0].Name == "Time") {
					// position in the iota block
					for k, sp2 := range gd.Specs {
						if sp2 == sp {
							if k > 1 {
								report("const "+s.Names[0].Name, xerr{"iota value above 1"})
							}
							consts[s.Names[0].Name] = fmt.Sprintf("(%d : α)", k)
						}
					}
					if k0 := gd.Specs[0].(*ast.ValueSpec); len(k0.Values) != 1 || typeName(k0.Type) != "MinimizeOption" {
						report("const block", xerr{"not `X MinimizeOption = iota`"})
					} else if id, ok := k0.Values[0].(*ast.Ident); !ok || id.Name != "iota" {
						report("const block", xerr{"not iota"})
					}
				}
			}
		}
	}
	for n := range declared {
		report("type "+n, xerr{"declaration not found"})
	}
	if len(consts) != 2 {
		report("constants Distance/Time", xerr{"not found"})
	}
	// function table
	for _, d := range f.Decls {
		fd, ok := d.(*ast.FuncDecl)
		if !ok {
			continue
		}
		fi := &fnInfo{name: fd.Name.Name, fd: fd, lean: "network_" + fd.Name.Name}
		if fd.Recv != nil {
			r := fd.Recv.List[0]
			rt := typeName(r.Type)
			if rt != "Network" && rt != "*Network" {
				continue
			}
			if len(r.Names) == 1 {
				fi.recv = r.Names[0].Name
			}
		} else if fd.Name.Name != "NewNetwork" {
			continue
		}
		for _, p := range fd.Type.Params.List {
			for _, n := range p.Names {
				fi.params = append(fi.params, n.Name)
				fi.ptypes = append(fi.ptypes, typeName(p.Type))
			}
		}
		if fd.Type.Results != nil {
			for _, r := range fd.Type.Results.List {
				k := len(r.Names)
				if k == 0 {
					k = 1
				}
				for j := 0; j < k; j++ {
					fi.results = append(fi.results, typeName(r.Type))
					if len(r.Names) > 0 {
						fi.rnames = append(fi.rnames, r.Names[j].Name)
					}
				}
			}
		}
		fns[fi.name] = fi
		if len(fi.results) == 1 && fi.results[0] == "int" {
			allID := true
			ast.Inspect(fd.Body, func(n ast.Node) bool {
				if r, ok := n.(*ast.ReturnStmt); ok && len(r.Results) == 1 {
					sel, ok := r.Results[0].(*ast.SelectorExpr)
					if !ok || structs["Network"][sel.Sel.Name].typ != "id" {
						allID = false
					}
				}
				return true
			})
			if allID {
				fi.results[0] = "id"
			}
		}
	}
	// which methods change the receiver (fixpoint over calls)
	for changed := true; changed; {
		changed = false
		for _, fi := range fns {
			if fi.mutates || fi.recv == "" {
				continue
			}
			t := &tr{fi: fi}
			if t.mutatesRecv(fi.fd.Body.List) {
				fi.mutates = true
				changed = true
			}
		}
	}
	for _, n := range order {
		fi, ok := fns[n]
		if !ok {
			report("func "+n, xerr{"not found"})
			fmt.Fprintf(&sb, "/-- route.go %s: not found -/\ndef network_%s : M Unit := untranslatable\n\n", n, n)
			continue
		}
		if fi.mutates {
			if rt := typeName(fi.fd.Recv.List[0].Type); rt != "*Network" {
				report("func "+n, xerr{"changes a receiver passed by value"})
			}
		}
		func() {
			defer func() {
				if r := recover(); r != nil {
					e, ok := r.(xerr)
					if !ok {
						panic(r)
					}
					report("func "+n, e)
					fmt.Fprintf(&sb, "/-- route.go %s: outside the translatable subset (%s) -/\ndef network_%s : M Unit := untranslatable\n\n", n, e.msg, n)
				}
			}()
			sb.WriteString(translate(fi))
			sb.WriteString("\n")
		}()
	}
	sb.WriteString("end GeomV.C19.Gen\n")
	fmt.Print(sb.String())
	return rc
}
