// Frame tie for C19 ("This function does not change the Network, so multiple function calls can be run
// concurrently"): go/ast analysis, on every run, of the source of the tree under test.
//
//	frame --repo DIR      prints the module GeomV.C19.GenFrame
//
// For the QUERY PATH of package route (root ShortestRoute) and of package index/rtree (root NearestNeighbor,
// the one R-tree call on the path) it lists
//
//	queryPath   the functions analysed: the root, every function/method of the package whose NAME is called or
//	            taken as a method value inside an analysed function (any receiver: conservative), every method of a
//	            package type of which an analysed function builds a composite literal, and - as soon as an analysed
//	            function hands its receiver to a function outside the package (path.AStar(.., net, ..)) - every
//	            method in the method set of that receiver type and every method of the other struct types of the
//	            package (gonum calls From/Weight/Node/... and node.ID, edge.From/To through interfaces)
//	writes      per analysed function, every statement that can write memory the call does not own:
//	            assignment/inc/dec/op-assignment to a variable the function does not declare (package level or
//	            captured), store through a pointer (*p = ..; p.f = .. unless p is a by-value receiver/parameter/
//	            local struct), store into a map or slice element unless the map/slice is a local that only ever
//	            holds make(..)/a literal/nil/append of itself, append to / copy into / delete from anything else,
//	            taking the address of anything but a composite literal or a local, go statements, channel sends
//	pkgVars     the package-level variables of the package (any file except tests)
//	extCalls    the functions outside the package that the analysed functions call (as written in the source)
//
// lean/GeomV/C19/Frame.lean compares these lists with the model's by `decide` (theorem tie_Frame).  NOT seen:
// state kept behind method calls on objects outside the two packages (listed in extCalls, so a new one breaks the
// tie), reflection/unsafe (package imports are listed), cgo.
package main

import (
	"bytes"
	"fmt"
	"go/ast"
	"go/parser"
	"go/printer"
	"go/token"
	"os"
	"path/filepath"
	"sort"
	"strings"
)

type fn struct {
	key      string // "Network.From", "*Network.costHeuristic", "sortEntries"
	name     string
	recvType string // "" for plain functions
	ptrRecv  bool
	decl     *ast.FuncDecl
}

type pkg struct {
	label    string
	fset     *token.FileSet
	fns      []*fn
	byName   map[string][]*fn
	types    map[string]bool // struct/named types declared in the package
	vars     []string
	varSet   map[string]bool
	imports  map[string]bool
	path     map[string]bool
	writes   map[string][]string
	ext      map[string]bool
	escapes  bool
	lits     []string // composite literals of package types built on the path ("fresh x" = a local that only holds make/literal/nil)
	problems []string
}

func load(dir, label string) *pkg {
	p := &pkg{label: label, fset: token.NewFileSet(), byName: map[string][]*fn{}, types: map[string]bool{}, varSet: map[string]bool{},
		imports: map[string]bool{}, path: map[string]bool{}, writes: map[string][]string{}, ext: map[string]bool{}}
	files, _ := filepath.Glob(filepath.Join(dir, "*.go"))
	sort.Strings(files)
	for _, f := range files {
		if strings.HasSuffix(f, "_test.go") {
			continue
		}
		af, err := parser.ParseFile(p.fset, f, nil, 0)
		if err != nil {
			p.problems = append(p.problems, "parse "+filepath.Base(f))
			continue
		}
		for _, im := range af.Imports {
			p.imports[strings.Trim(im.Path.Value, `"`)] = true
		}
		for _, d := range af.Decls {
			switch x := d.(type) {
			case *ast.GenDecl:
				for _, sp := range x.Specs {
					switch s := sp.(type) {
					case *ast.TypeSpec:
						p.types[s.Name.Name] = true
					case *ast.ValueSpec:
						if x.Tok == token.VAR {
							for _, n := range s.Names {
								if n.Name != "_" {
									p.vars = append(p.vars, n.Name)
									p.varSet[n.Name] = true
								}
							}
						}
					}
				}
			case *ast.FuncDecl:
				if x.Body == nil {
					continue
				}
				f := &fn{name: x.Name.Name, decl: x}
				if x.Recv != nil && len(x.Recv.List) == 1 {
					t := x.Recv.List[0].Type
					if st, ok := t.(*ast.StarExpr); ok {
						f.ptrRecv = true
						t = st.X
					}
					if id, ok := t.(*ast.Ident); ok {
						f.recvType = id.Name
					}
				}
				f.key = f.name
				if f.recvType != "" {
					f.key = f.recvType + "." + f.name
					if f.ptrRecv {
						f.key = "*" + f.key
					}
				}
				p.fns = append(p.fns, f)
				p.byName[f.name] = append(p.byName[f.name], f)
			}
		}
	}
	sort.Strings(p.vars)
	return p
}

func (p *pkg) src(n ast.Node) string {
	var b bytes.Buffer
	printer.Fprint(&b, p.fset, n)
	s := strings.Join(strings.Fields(b.String()), " ")
	if len(s) > 60 {
		s = s[:60]
	}
	return s
}

// collapse index expressions: nodes[i].ID -> nodes[].ID
func (p *pkg) callee(e ast.Expr) string {
	switch x := e.(type) {
	case *ast.Ident:
		return x.Name
	case *ast.SelectorExpr:
		return p.callee(x.X) + "." + x.Sel.Name
	case *ast.IndexExpr:
		return p.callee(x.X) + "[]"
	case *ast.CallExpr:
		return p.callee(x.Fun) + "()"
	case *ast.ParenExpr:
		return p.callee(x.X)
	case *ast.TypeAssertExpr:
		return p.callee(x.X) + ".(T)"
	case *ast.StarExpr:
		return "*" + p.callee(x.X)
	}
	return "?"
}

var builtins = map[string]bool{"len": true, "cap": true, "make": true, "new": true, "panic": true, "append": true, "copy": true, "delete": true,
	"int": true, "int64": true, "int32": true, "uint": true, "uint64": true, "float64": true, "float32": true, "string": true, "bool": true,
	"min": true, "max": true, "recover": true, "print": true, "println": true, "byte": true, "rune": true, "uint8": true, "uint32": true}

type local struct {
	valueStruct bool // by-value struct (receiver/param of a named non-pointer type, var x T, x := T{..})
	fresh       bool // slice/map that only ever holds make/literal/nil/append(itself)
}

func isValueType(t ast.Expr) bool {
	switch x := t.(type) {
	case *ast.Ident:
		return true
	case *ast.SelectorExpr:
		_ = x
		return true // pkg.Type: a named type; interfaces cannot be stored through without an assertion
	}
	return false
}

func (p *pkg) analyse(f *fn) {
	locals := map[string]*local{}
	add := func(names []*ast.Ident, t ast.Expr) {
		for _, n := range names {
			locals[n.Name] = &local{valueStruct: t != nil && isValueType(t), fresh: false}
		}
	}
	d := f.decl
	recvName := ""
	if d.Recv != nil {
		add(d.Recv.List[0].Names, d.Recv.List[0].Type)
		if len(d.Recv.List[0].Names) == 1 {
			recvName = d.Recv.List[0].Names[0].Name
		}
	}
	for _, q := range d.Type.Params.List {
		add(q.Names, q.Type)
	}
	if d.Type.Results != nil {
		for _, q := range d.Type.Results.List {
			add(q.Names, q.Type)
			for _, n := range q.Names { // named results start as zero values
				locals[n.Name].fresh = true
			}
		}
	}
	freshRHS := func(name string, e ast.Expr) bool {
		switch x := e.(type) {
		case *ast.CompositeLit:
			return true
		case *ast.Ident:
			return x.Name == "nil"
		case *ast.CallExpr:
			if id, ok := x.Fun.(*ast.Ident); ok {
				if id.Name == "make" {
					return true
				}
				if id.Name == "append" && len(x.Args) > 0 {
					if a, ok := x.Args[0].(*ast.Ident); ok && a.Name == name {
						return true
					}
				}
			}
		}
		return false
	}
	// pass 1: declarations (function literals included: their locals are the call's own memory too)
	ast.Inspect(d.Body, func(n ast.Node) bool {
		switch x := n.(type) {
		case *ast.FuncLit:
			for _, q := range x.Type.Params.List {
				add(q.Names, q.Type)
			}
			if x.Type.Results != nil {
				for _, q := range x.Type.Results.List {
					add(q.Names, q.Type)
				}
			}
		case *ast.AssignStmt:
			if x.Tok == token.DEFINE {
				for i, l := range x.Lhs {
					id, ok := l.(*ast.Ident)
					if !ok || id.Name == "_" {
						continue
					}
					if _, seen := locals[id.Name]; seen {
						continue
					}
					lc := &local{}
					if len(x.Rhs) == len(x.Lhs) {
						if cl, ok := x.Rhs[i].(*ast.CompositeLit); ok {
							_, isArr := cl.Type.(*ast.ArrayType)
							_, isMap := cl.Type.(*ast.MapType)
							lc.valueStruct = !isArr && !isMap
						}
						lc.fresh = freshRHS(id.Name, x.Rhs[i])
					}
					locals[id.Name] = lc
				}
			}
		case *ast.DeclStmt:
			if gd, ok := x.Decl.(*ast.GenDecl); ok && gd.Tok == token.VAR {
				for _, sp := range gd.Specs {
					vs := sp.(*ast.ValueSpec)
					for i, n := range vs.Names {
						lc := &local{valueStruct: vs.Type != nil && isValueType(vs.Type), fresh: len(vs.Values) == 0}
						if len(vs.Values) == len(vs.Names) {
							lc.fresh = freshRHS(n.Name, vs.Values[i])
						}
						locals[n.Name] = lc
					}
				}
			}
		case *ast.RangeStmt:
			if x.Tok == token.DEFINE {
				for _, e := range []ast.Expr{x.Key, x.Value} {
					if id, ok := e.(*ast.Ident); ok && id.Name != "_" {
						if _, seen := locals[id.Name]; !seen {
							locals[id.Name] = &local{}
						}
					}
				}
			}
		}
		return true
	})
	// pass 2: a local stops being fresh when it is ever assigned something else
	ast.Inspect(d.Body, func(n ast.Node) bool {
		if x, ok := n.(*ast.AssignStmt); ok && x.Tok != token.DEFINE {
			for i, l := range x.Lhs {
				if id, ok := l.(*ast.Ident); ok {
					if lc := locals[id.Name]; lc != nil && lc.fresh {
						if x.Tok != token.ASSIGN || len(x.Rhs) != len(x.Lhs) || !freshRHS(id.Name, x.Rhs[i]) {
							lc.fresh = false
						}
					}
				}
			}
		}
		return true
	})
	var w []string
	note := func(s string) { w = append(w, s) }
	var store func(l ast.Expr, what string)
	store = func(l ast.Expr, what string) {
		switch x := l.(type) {
		case *ast.Ident:
			if x.Name == "_" {
				return
			}
			if locals[x.Name] == nil {
				note(what + " " + x.Name)
			}
		case *ast.SelectorExpr:
			if id, ok := x.X.(*ast.Ident); ok && locals[id.Name] != nil && locals[id.Name].valueStruct {
				return // field of the call's own copy
			}
			note("store " + p.callee(l))
		case *ast.IndexExpr:
			if id, ok := x.X.(*ast.Ident); ok && locals[id.Name] != nil && locals[id.Name].fresh {
				return
			}
			note("store " + p.callee(l))
		case *ast.ParenExpr:
			store(x.X, what)
		default:
			note("store " + p.callee(l))
		}
	}
	ref := func(name string) {
		for _, g := range p.byName[name] {
			p.path[g.key] = true
		}
	}
	ast.Inspect(d.Body, func(n ast.Node) bool {
		switch x := n.(type) {
		case *ast.AssignStmt:
			if x.Tok != token.DEFINE {
				for _, l := range x.Lhs {
					store(l, "assign")
				}
			} else {
				for _, l := range x.Lhs {
					if _, ok := l.(*ast.Ident); !ok {
						store(l, "assign")
					}
				}
			}
		case *ast.IncDecStmt:
			store(x.X, "assign")
		case *ast.RangeStmt:
			if x.Tok == token.ASSIGN {
				for _, e := range []ast.Expr{x.Key, x.Value} {
					if e != nil {
						store(e, "assign")
					}
				}
			}
		case *ast.GoStmt:
			note("go")
		case *ast.SendStmt:
			note("send " + p.callee(x.Chan))
		case *ast.UnaryExpr:
			if x.Op == token.AND {
				switch o := x.X.(type) {
				case *ast.CompositeLit:
				case *ast.Ident:
					if locals[o.Name] == nil {
						note("addr " + o.Name)
					}
				default:
					note("addr " + p.callee(x.X))
				}
			}
		case *ast.CompositeLit:
			if id, ok := x.Type.(*ast.Ident); ok && p.types[id.Name] {
				var as []string
				for _, el := range x.Elts {
					v := el
					pre := ""
					if kv, ok := el.(*ast.KeyValueExpr); ok {
						v = kv.Value
						pre = p.callee(kv.Key) + ": "
					}
					if a, ok := v.(*ast.Ident); ok && locals[a.Name] != nil && locals[a.Name].fresh {
						as = append(as, pre+"fresh "+a.Name)
					} else {
						as = append(as, pre+p.src(v))
					}
				}
				p.lits = append(p.lits, f.key+": "+id.Name+"{"+strings.Join(as, ", ")+"}")
				for _, g := range p.fns {
					if g.recvType == id.Name {
						p.path[g.key] = true
					}
				}
			}
		case *ast.SelectorExpr:
			// method value or call by name inside the package
			if _, ok := p.byName[x.Sel.Name]; ok {
				if id, isId := x.X.(*ast.Ident); !(isId && p.imports[importOf(p, id.Name)]) {
					ref(x.Sel.Name)
				}
			}
		case *ast.CallExpr:
			switch fun := x.Fun.(type) {
			case *ast.Ident:
				if _, ok := p.byName[fun.Name]; ok { // also when a local shadows the name (conservative)
					ref(fun.Name)
				} else if builtins[fun.Name] {
					switch fun.Name {
					case "copy", "delete":
						if len(x.Args) > 0 {
							if id, ok := x.Args[0].(*ast.Ident); !ok || locals[id.Name] == nil || !locals[id.Name].fresh {
								note(fun.Name + " " + p.callee(x.Args[0]))
							}
						}
					case "append":
						if len(x.Args) > 0 {
							if id, ok := x.Args[0].(*ast.Ident); !ok || locals[id.Name] == nil || !locals[id.Name].fresh {
								if _, lit := x.Args[0].(*ast.CompositeLit); !lit {
									note("append " + p.callee(x.Args[0]))
								}
							}
						}
					}
				} else if locals[fun.Name] == nil && !p.types[fun.Name] {
					p.ext[fun.Name] = true
				}
			case *ast.SelectorExpr:
				if _, ok := p.byName[fun.Sel.Name]; !ok || isImportSel(p, fun) {
					p.ext[p.callee(fun)] = true
					// the receiver handed to foreign code: its method set is callable from there
					for _, a := range x.Args {
						if id, ok := a.(*ast.Ident); ok && recvName != "" && id.Name == recvName {
							p.escapes = true
							for _, g := range p.fns {
								if g.recvType == f.recvType && (!g.ptrRecv || f.ptrRecv) {
									p.path[g.key] = true
								}
								if g.recvType != "" && g.recvType != f.recvType {
									p.path[g.key] = true
								}
							}
						}
					}
				}
			}
		}
		return true
	})
	if len(w) > 0 {
		p.writes[f.key] = w
	}
}

func importOf(p *pkg, name string) string {
	for im := range p.imports {
		if im == name || strings.HasSuffix(im, "/"+name) {
			return im
		}
	}
	return "\x00"
}

func isImportSel(p *pkg, s *ast.SelectorExpr) bool {
	id, ok := s.X.(*ast.Ident)
	return ok && p.imports[importOf(p, id.Name)]
}

func (p *pkg) run(roots ...string) {
	for _, r := range roots {
		fs := p.byName[r]
		if len(fs) == 0 {
			p.problems = append(p.problems, "root "+r+" not found")
		}
		for _, f := range fs {
			p.path[f.key] = true
		}
	}
	done := map[string]bool{}
	for changed := true; changed; {
		changed = false
		for _, f := range p.fns {
			if p.path[f.key] && !done[f.key] {
				done[f.key] = true
				changed = true
				p.analyse(f)
			}
		}
	}
}

func q(s string) string { return `"` + strings.ReplaceAll(strings.ReplaceAll(s, `\`, `\\`), `"`, `\"`) + `"` }

func list(ss []string) string {
	var qs []string
	for _, s := range ss {
		qs = append(qs, q(s))
	}
	return "[" + strings.Join(qs, ", ") + "]"
}

func keys(m map[string]bool) []string {
	var ks []string
	for k, v := range m {
		if v {
			ks = append(ks, k)
		}
	}
	sort.Strings(ks)
	return ks
}

func (p *pkg) emit(b *strings.Builder) {
	fmt.Fprintf(b, "/-- package %s: the functions analysed (query path) -/\ndef %s_queryPath : List String :=\n  %s\n\n", p.label, p.label, list(keys(p.path)))
	var ws []string
	var wk []string
	for k := range p.writes {
		wk = append(wk, k)
	}
	sort.Strings(wk)
	for _, k := range wk {
		ws = append(ws, "("+q(k)+", "+list(p.writes[k])+")")
	}
	fmt.Fprintf(b, "/-- package %s: writes to memory the call does not own, per analysed function -/\ndef %s_writes : List (String × List String) :=\n  [%s]\n\n", p.label, p.label, strings.Join(ws, ",\n   "))
	fmt.Fprintf(b, "/-- package %s: package-level variables -/\ndef %s_pkgVars : List String :=\n  %s\n\n", p.label, p.label, list(p.vars))
	fmt.Fprintf(b, "/-- package %s: functions outside the package called on the query path -/\ndef %s_extCalls : List String :=\n  %s\n\n", p.label, p.label, list(keys(p.ext)))
	sort.Strings(p.lits)
	fmt.Fprintf(b, "/-- package %s: composite literals of package types built on the query path -/\ndef %s_literals : List String :=\n  %s\n\n", p.label, p.label, list(p.lits))
	var risky []string
	for _, im := range []string{"unsafe", "reflect", "sync", "sync/atomic", "C"} {
		if p.imports[im] {
			risky = append(risky, im)
		}
	}
	fmt.Fprintf(b, "/-- package %s: imports among unsafe/reflect/sync/sync/atomic/C -/\ndef %s_riskyImports : List String :=\n  %s\n\n", p.label, p.label, list(risky))
	fmt.Fprintf(b, "/-- package %s: problems of the extraction itself -/\ndef %s_problems : List String :=\n  %s\n\n", p.label, p.label, list(p.problems))
}

func main() {
	repo := "/repo"
	for i, a := range os.Args {
		if a == "--repo" && i+1 < len(os.Args) {
			repo = os.Args[i+1]
		}
	}
	var b strings.Builder
	b.WriteString("/-! GENERATED by `harness/cmd/c19/frame` from route/*.go and index/rtree/*.go of the tree under test.  Do not edit;\nregenerated by every `bin/check C19` run (checks/C19.py pregen).  Tie: Frame.lean. -/\nnamespace GeomV.C19.GenFrame\n\n")
	r := load(filepath.Join(repo, "route"), "route")
	r.run("ShortestRoute")
	r.emit(&b)
	t := load(filepath.Join(repo, "index", "rtree"), "rtree")
	t.run("NearestNeighbor")
	t.emit(&b)
	b.WriteString("end GeomV.C19.GenFrame\n")
	fmt.Print(b.String())
}
