package main

// Tie for the Lean model of gonum's priority queue (lean/GeomV/C19/Model.lean: heapUp, heapDown, heapPush,
// heapPop, heapFix, heapUpdate).  aStarQueue below is a VERBATIM copy of the unexported type in
// gonum.org/v1/gonum@v0.9.3/graph/path/a_star.go (gonum is pinned by its go.sum hash, and checks/C19.py
// compares this copy with the module cache's source text); it is driven by the REAL container/heap of
// the Go toolchain.  Random histories of heap.Push / open.update / heap.Pop are run and the slice layout
// after every operation is printed; the Lean judge replays the same history on the model and compares the
// layouts slot by slot.

import (
	"container/heap"
	"fmt"
	"strconv"
	"strings"

	"gonum.org/v1/gonum/graph"

	"verif/harness/vproto"
)

type hnode int64

func (n hnode) ID() int64 { return int64(n) }

// BEGIN verbatim copy (gonum v0.9.3 graph/path/a_star.go)

// aStarNode adds A* accounting to a graph.Node.
type aStarNode struct {
	node   graph.Node
	gscore float64
	fscore float64
}

// aStarQueue is an A* priority queue.
type aStarQueue struct {
	indexOf map[int64]int
	nodes   []aStarNode
}

func (q *aStarQueue) Less(i, j int) bool {
	return q.nodes[i].fscore < q.nodes[j].fscore
}

func (q *aStarQueue) Swap(i, j int) {
	q.indexOf[q.nodes[i].node.ID()] = j
	q.indexOf[q.nodes[j].node.ID()] = i
	q.nodes[i], q.nodes[j] = q.nodes[j], q.nodes[i]
}

func (q *aStarQueue) Len() int {
	return len(q.nodes)
}

func (q *aStarQueue) Push(x interface{}) {
	n := x.(aStarNode)
	q.indexOf[n.node.ID()] = len(q.nodes)
	q.nodes = append(q.nodes, n)
}

func (q *aStarQueue) Pop() interface{} {
	n := q.nodes[len(q.nodes)-1]
	q.nodes = q.nodes[:len(q.nodes)-1]
	delete(q.indexOf, n.node.ID())
	return n
}

func (q *aStarQueue) update(id int64, g, f float64) {
	i, ok := q.indexOf[id]
	if !ok {
		return
	}
	q.nodes[i].gscore = g
	q.nodes[i].fscore = f
	heap.Fix(q, i)
}

func (q *aStarQueue) node(id int64) (aStarNode, bool) {
	loc, ok := q.indexOf[id]
	if ok {
		return q.nodes[loc], true
	}
	return aStarNode{}, false
}

// END verbatim copy

func (q *aStarQueue) layout() string {
	var b strings.Builder
	fmt.Fprintf(&b, "%d", len(q.nodes))
	for i, n := range q.nodes {
		// indexOf must agree with the slot (what the model's search-by-node relies on)
		if q.indexOf[n.node.ID()] != i {
			return "indexOf-inconsistent"
		}
		fmt.Fprintf(&b, " %d %s %s", n.node.ID(), vproto.F2H(n.gscore), vproto.F2H(n.fscore))
	}
	if len(q.indexOf) != len(q.nodes) {
		return "indexOf-inconsistent"
	}
	return b.String()
}

// genHeap: a history of P(ush) id g f | U(pdate) id g f | O (pop).  Pushes use ids not in the queue (AStar never
// pushes a queued node), updates use queued ids and move the score either way (heap.Fix must cope with both,
// although AStar only ever lowers a score); scores come from a small set so that ties are frequent.
func genHeap(r *vproto.Rng, nops, spread int) string {
	q := &aStarQueue{indexOf: make(map[int64]int)}
	var ops []string
	next := int64(1)
	score := func() float64 {
		if r.Chance(0.2) {
			return float64(r.Range(0, spread)) + 0.5
		}
		return float64(r.Range(0, spread))
	}
	for len(ops) < nops {
		k := r.Intn(10)
		switch {
		case k < 5 || q.Len() == 0:
			id := next
			next++
			if r.Chance(0.2) && id > 2 { // re-push an id that was popped earlier
				c := int64(r.Range(1, int(id)-1))
				if _, in := q.indexOf[c]; !in {
					id = c
					next--
				}
			}
			g, f := score(), score()
			heap.Push(q, aStarNode{node: hnode(id), gscore: g, fscore: f})
			ops = append(ops, fmt.Sprintf("P %d %s %s", id, vproto.F2H(g), vproto.F2H(f)))
		case k < 8:
			id := q.nodes[r.Intn(q.Len())].node.ID()
			g, f := score(), score()
			if r.Chance(0.6) { // the A* case: strictly lower
				if n, _ := q.node(id); n.fscore > 0 {
					f = float64(r.Intn(int(n.fscore) + 1))
					if f >= n.fscore {
						f = n.fscore - 0.5
					}
				}
			}
			q.update(id, g, f)
			ops = append(ops, fmt.Sprintf("U %d %s %s", id, vproto.F2H(g), vproto.F2H(f)))
		default:
			heap.Pop(q)
			ops = append(ops, "O")
		}
	}
	return fmt.Sprintf("heapq %d %s", len(ops), strings.Join(ops, " "))
}

func implHeap(line string) string {
	t := strings.Fields(line)
	q := &aStarQueue{indexOf: make(map[int64]int)}
	var b strings.Builder
	n, _ := strconv.Atoi(t[1])
	i := 2
	for k := 0; k < n; k++ {
		switch t[i] {
		case "P", "U":
			id, _ := strconv.ParseInt(t[i+1], 10, 64)
			g, _ := vproto.H2F(t[i+2])
			f, _ := vproto.H2F(t[i+3])
			if t[i] == "P" {
				heap.Push(q, aStarNode{node: hnode(id), gscore: g, fscore: f})
			} else {
				q.update(id, g, f)
			}
			i += 4
			b.WriteString(" = -1")
		default:
			m := heap.Pop(q).(aStarNode)
			i++
			fmt.Fprintf(&b, " = %d", m.node.ID())
		}
		b.WriteString(" " + q.layout())
	}
	return "H" + b.String()
}
