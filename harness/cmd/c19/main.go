// Harness for C19 (route.ShortestRoute returns a minimum-cost chain of links). Subcommands:
//
//	gen --seed S --tier T   write case lines (inputs only)
//	impl                    read case lines, run the real code, append " => result"
//
// A case is a HISTORY of operations on ONE route.Network value (AddLink and ShortestRoute calls
// interleaved; the same query may be asked again after further links were added):
//
//	net <family> <X|F> <D|T> <nops> { L <speed> <npts> <x y>... | Q <fx fy tx ty> }
//
// X = "exact" data: integer coordinates, axis-aligned link segments, power-of-two speeds, so every
// float sum/quotient the implementation forms is exact and the judge compares exactly;
// F = arbitrary doubles (judge compares with relative tolerance 1e-9).
//
// Result:
//
//	w <0|1> | G <nnodes> {<id> <x> <y>} <narcs> {<u> <v> <eu> <ev> <link> <weight|->} | R {ok <k> <link>... <dist> <time> <sd> <ed> ; | panic <msg> ;}
//
// (G is the adapter after the whole history; one R entry per Q in order.)  The result ends with
//
//	| C <ncalls> <nreplaced>
//
// the cc probe: the final-moment queries were asked again <ncalls> times by concurrent goroutines on the
// same network; <nreplaced> recorded answers were replaced by a concurrent answer that differed.
//
// `w` says whether the value handed to gonum's AStar (a route.Network VALUE, see ShortestRoute)
// satisfies path.Weighted at run time; G is the adapter as gonum sees it (Nodes/From/Edge/Weight);
// a returned route element is reported as the index of the input link with identical geometry
// (-1 when there is none).
package main

import (
	"bufio"
	"fmt"
	"math"
	"os"
	"reflect"
	"sort"
	"strings"
	"sync"

	"github.com/ctessum/geom"
	"github.com/ctessum/geom/route"
	"gonum.org/v1/gonum/graph"
	"gonum.org/v1/gonum/graph/path"

	"verif/harness/vproto"
)

type link struct {
	pts   []geom.Point
	speed float64
}

// after = number of links added before the query is asked (-1: after all of them)
type query struct {
	from, to geom.Point
	after    int
}

type netCase struct {
	flat  []geom.Point // impl side: the buffer whose windows were passed to AddLink
	fam   string
	exact bool
	opt   string // D | T
	links []link
	qs    []query
}

// ops returns the history: query k is asked when `after` links have been added.
func (c *netCase) ops() []string {
	var out []string
	emitQ := func(n int) {
		for _, q := range c.qs {
			a := q.after
			if a < 0 || a > len(c.links) {
				a = len(c.links)
			}
			if a == 0 {
				a = 1 // ShortestRoute on a network without nodes panics (no nearest node)
			}
			if a == n {
				out = append(out, fmt.Sprintf("Q %s %s %s %s", vproto.F2H(q.from.X), vproto.F2H(q.from.Y), vproto.F2H(q.to.X), vproto.F2H(q.to.Y)))
			}
		}
	}
	for i, l := range c.links {
		if i > 0 {
			emitQ(i)
		}
		var b strings.Builder
		fmt.Fprintf(&b, "L %s %d", vproto.F2H(l.speed), len(l.pts))
		for _, p := range l.pts {
			fmt.Fprintf(&b, " %s %s", vproto.F2H(p.X), vproto.F2H(p.Y))
		}
		out = append(out, b.String())
	}
	emitQ(len(c.links))
	return out
}

func (c *netCase) String() string {
	x := "F"
	if c.exact {
		x = "X"
	}
	o := c.ops()
	return fmt.Sprintf("net %s %s %s %d %s", c.fam, x, c.opt, len(o), strings.Join(o, " "))
}

// addHistory asks some of the final queries a first time earlier in the history (and the long-lived
// Network must answer each time for the network as it is at that moment).
func (c *netCase) addHistory(r *vproto.Rng, p float64) {
	n := len(c.links)
	if n < 2 {
		return
	}
	base := append([]query(nil), c.qs...)
	for _, q := range base {
		if q.after >= 0 || !r.Chance(p) {
			continue
		}
		c.qs = append(c.qs, query{q.from, q.to, r.Range(1, n-1)})
		if r.Chance(0.3) {
			c.qs = append(c.qs, query{q.from, q.to, r.Range(1, n-1)})
		}
	}
}

type op struct {
	isLink bool
	l      link
	q      query
}

func parseCase(line string) (*netCase, []op) {
	p := vproto.NewParser(line)
	if p.Next() != "net" {
		panic("bad line")
	}
	c := &netCase{fam: p.Next()}
	c.exact = p.Next() == "X"
	c.opt = p.Next()
	n := p.Int()
	var ops []op
	for i := 0; i < n; i++ {
		switch p.Next() {
		case "L":
			sp := p.F()
			l := link{pts: p.Pts(), speed: sp}
			c.links = append(c.links, l)
			ops = append(ops, op{isLink: true, l: l})
		case "Q":
			a := p.Pt()
			b := p.Pt()
			ops = append(ops, op{q: query{a, b, -1}})
		default:
			panic("bad op")
		}
	}
	// The library gets every link as a window of ONE flat buffer with spare capacity behind it
	// (an append or an in-place edit by the callee would clobber the next link); c.links keeps
	// pristine copies for comparisons.
	total := 0
	for _, l := range c.links {
		total += len(l.pts)
	}
	buf := make([]geom.Point, 0, total+8)
	for i := range ops {
		if ops[i].isLink {
			off := len(buf)
			buf = append(buf, ops[i].l.pts...)
			ops[i].l.pts = buf[off:len(buf)]
		}
	}
	c.flat = buf
	return c, ops
}

// inputIntact reports whether the flat buffer handed to AddLink still holds the original bits.
func (c *netCase) inputIntact() bool {
	i := 0
	for _, l := range c.links {
		if !samePts(l.pts, c.flat[i:i+len(l.pts)]) {
			return false
		}
		i += len(l.pts)
	}
	return true
}

// ---------------------------------------------------------------- generator

func pt(x, y float64) geom.Point { return geom.Point{X: x, Y: y} }

// manhattan returns an axis-aligned polyline from a to b; with detour k != 0 it first leaves a
// perpendicular by k so that its length exceeds the chord (|k| + |dx| + |dy - k|).
func manhattan(a, b geom.Point, k float64) []geom.Point {
	ps := []geom.Point{a}
	add := func(p geom.Point) {
		if ps[len(ps)-1] != p {
			ps = append(ps, p)
		}
	}
	if k != 0 {
		add(pt(a.X, a.Y+k))
		add(pt(b.X, a.Y+k))
	} else {
		add(pt(b.X, a.Y))
	}
	add(b)
	if len(ps) == 1 { // a == b never happens for distinct nodes; keep a valid 2-point line anyway
		ps = append(ps, b)
	}
	return ps
}

func pow2(r *vproto.Rng) float64 { return math.Ldexp(1, r.Range(-3, 7)) }

// speeds over three orders of magnitude, not dyadic
func anySpeed(r *vproto.Rng) float64 { return math.Pow(10, r.Float()*3-1) }

type builder struct {
	r     *vproto.Rng
	c     *netCase
	nodes []geom.Point
	used  map[[2]int]bool
	scale float64 // every speed of the network is multiplied by this power of two (networks that are slow or fast as a whole)
}

func newBuilder(r *vproto.Rng, fam string, exact bool) *builder {
	opt := "D"
	if r.Bool() {
		opt = "T"
	}
	return &builder{r: r, c: &netCase{fam: fam, exact: exact, opt: opt}, used: map[[2]int]bool{}, scale: math.Ldexp(1, r.Range(-9, 3))}
}

func (b *builder) node(p geom.Point) int { b.nodes = append(b.nodes, p); return len(b.nodes) - 1 }

// join adds a link between nodes i and j unless it would be a self-loop or a parallel link.
func (b *builder) join(i, j int, pts []geom.Point, speed float64) bool {
	if i == j {
		return false
	}
	k := [2]int{i, j}
	if i > j {
		k = [2]int{j, i}
	}
	if b.used[k] {
		return false
	}
	b.used[k] = true
	if b.r.Bool() { // AddLink direction must not matter
		q := make([]geom.Point, len(pts))
		for x := range pts {
			q[len(pts)-1-x] = pts[x]
		}
		pts = q
	}
	b.c.links = append(b.c.links, link{pts: pts, speed: speed * b.scale})
	return true
}

func (b *builder) joinExact(i, j int, detour float64, speed float64) bool {
	return b.join(i, j, manhattan(b.nodes[i], b.nodes[j], detour), speed)
}

// queries: points near nodes with an asymmetric offset smaller than half the node spacing (unique nearest node)
func (b *builder) queries(n int, spacing float64) {
	r := b.r
	if len(b.nodes) == 0 {
		return
	}
	// only positions that are network nodes (a grid position whose links were all deleted is not a
	// node, and a query exactly there would be equidistant from its neighbours)
	var linked []geom.Point
	for k := range b.used {
		linked = append(linked, b.nodes[k[0]], b.nodes[k[1]])
	}
	sort.Slice(linked, func(i, j int) bool {
		if linked[i].X != linked[j].X {
			return linked[i].X < linked[j].X
		}
		return linked[i].Y < linked[j].Y
	})
	if len(linked) == 0 {
		return
	}
	near := func() geom.Point {
		p := linked[r.Intn(len(linked))]
		switch r.Intn(4) {
		case 0:
			return p
		default:
			sx, sy := float64(1-2*r.Intn(2)), float64(1-2*r.Intn(2))
			return pt(p.X+sx*spacing/4, p.Y+sy*spacing/8)
		}
	}
	for i := 0; i < n; i++ {
		b.c.qs = append(b.c.qs, query{near(), near(), -1})
	}
}

func (b *builder) shuffleLinks() {
	l := b.c.links
	for i := len(l) - 1; i > 0; i-- {
		j := b.r.Intn(i + 1)
		l[i], l[j] = l[j], l[i]
	}
}

// grid with random deletions, some detoured links, a few long-range chords
func genGrid(r *vproto.Rng, fam string, comps int) *netCase {
	b := newBuilder(r, fam, true)
	sp := float64(4 * r.Range(1, 4))
	ox := 0.0
	for c := 0; c < comps; c++ {
		w, h := r.Range(2, 8), r.Range(2, 7)
		if w*h > 60/comps {
			h = 60 / comps / w
			if h < 1 {
				h = 1
			}
		}
		oy := float64(r.Range(-3, 3)) * sp
		base := len(b.nodes)
		for y := 0; y < h; y++ {
			for x := 0; x < w; x++ {
				b.node(pt(ox+float64(x)*sp, oy+float64(y)*sp))
			}
		}
		del := r.Float() * 0.5
		spd := func() float64 {
			if b.c.opt == "T" {
				return pow2(r)
			}
			return 1
		}
		for y := 0; y < h; y++ {
			for x := 0; x < w; x++ {
				i := base + y*w + x
				for _, d := range [][2]int{{1, 0}, {0, 1}} {
					xx, yy := x+d[0], y+d[1]
					if xx >= w || yy >= h || r.Chance(del) {
						continue
					}
					det := 0.0
					if r.Chance(0.25) {
						det = float64(r.Range(1, 9)) * float64(1-2*r.Intn(2))
					}
					b.joinExact(i, base+yy*w+xx, det, spd())
				}
			}
		}
		for k := r.Intn(4); k > 0; k-- { // long chords (Manhattan shaped), sometimes fast
			i, j := base+r.Intn(w*h), base+r.Intn(w*h)
			b.joinExact(i, j, float64(r.Intn(3)), spd())
		}
		ox += float64(w+2) * sp * 2
	}
	b.shuffleLinks()
	b.queries(6, sp)
	return b.c
}

// chain of diamonds: between consecutive hubs there is a ONE-link route that is long (detour) or
// slow, and a k-link route that is short/fast: the fewest-links route is the most expensive one.
func genDiamond(r *vproto.Rng) *netCase {
	b := newBuilder(r, "diamond", true)
	nd := r.Range(1, 5)
	x := 0.0
	hub := b.node(pt(0, 0))
	first := hub
	for d := 0; d < nd; d++ {
		k := r.Range(2, 6)
		step := float64(4 * r.Range(1, 3))
		prev := hub
		for i := 1; i < k; i++ {
			n := b.node(pt(x+float64(i)*step, 8))
			b.joinExact(prev, n, 0, 4)
			prev = n
		}
		next := b.node(pt(x+float64(k)*step, 0))
		b.joinExact(prev, next, 0, 4)
		// the direct link: long for Distance, slow for Time
		det := -float64(8 * r.Range(4, 12))
		b.joinExact(hub, next, det, 0.5)
		hub = next
		x += float64(k) * step
	}
	b.shuffleLinks()
	b.c.qs = append(b.c.qs, query{b.nodes[first], b.nodes[hub], -1}, query{b.nodes[hub], b.nodes[first], -1})
	b.queries(4, 4)
	return b.c
}

// fast-long versus slow-short alternatives; a very slow spur elsewhere drags the minimum speed down
// so that a heuristic dividing by the slowest speed overestimates wildly.
func genFastSlow(r *vproto.Rng) *netCase {
	b := newBuilder(r, "fastslow", true)
	b.c.opt = "T"
	n := r.Range(2, 7)
	step := float64(8 * r.Range(1, 4))
	s := b.node(pt(0, 0))
	prev := s
	for i := 1; i <= n; i++ { // motorway: n fast links along y = 0
		v := b.node(pt(float64(i)*step, 0))
		b.joinExact(prev, v, 0, 64)
		prev = v
	}
	t := prev
	// one slow direct link s..t (shorter or equal in distance, far slower)
	b.joinExact(s, t, float64(r.Range(1, 3)), math.Ldexp(1, r.Range(-2, 2)))
	// slow spur
	sp := b.node(pt(0, -step))
	b.joinExact(s, sp, 0, math.Ldexp(1, -r.Range(3, 6)))
	// optional second alternative through a side node
	if r.Bool() {
		m := b.node(pt(float64(n)*step/2, -step))
		b.joinExact(s, m, 0, 8)
		b.joinExact(m, t, 0, 8)
	}
	b.shuffleLinks()
	b.c.qs = append(b.c.qs, query{b.nodes[s], b.nodes[t], -1}, query{b.nodes[t], b.nodes[s], -1})
	b.queries(3, step)
	return b.c
}

// random points joined to near neighbours, arbitrary doubles, straight or bent links
func genFloat(r *vproto.Rng, near bool) *netCase {
	fam := "float"
	if near {
		fam = "near"
	}
	b := newBuilder(r, fam, false)
	n := r.Range(5, 40)
	scale := math.Pow(10, float64(r.Range(-2, 5)))
	for len(b.nodes) < n {
		p := pt((r.Float()*2-0.3)*scale, (r.Float()*2-0.7)*scale)
		ok := true
		for _, q := range b.nodes {
			if math.Hypot(p.X-q.X, p.Y-q.Y) < scale*0.05 {
				ok = false
			}
		}
		if ok {
			b.node(p)
		}
	}
	spd := func() float64 {
		if b.c.opt == "T" {
			return anySpeed(r)
		}
		return 1 + r.Float()
	}
	// end points are perturbed relative to the node position: far inside (factor 1e-12) or, in the
	// `near` family, on either side of the 1e-9 identification threshold (0.25e-9 inside, 8e-9 outside is
	// avoided because it would create a new node = different topology; only "inside" perturbations
	// are used for link ends, "outside" ones become separate dangling nodes on purpose).
	wiggle := func(p geom.Point) geom.Point {
		if !near || r.Chance(0.4) {
			return p
		}
		f := 1 + 2.5e-10*(r.Float()*2-1)
		g := 1 + 2.5e-10*(r.Float()*2-1)
		return pt(p.X*f, p.Y*g)
	}
	for i := range b.nodes {
		// join to the 2-3 nearest later nodes
		type cand struct {
			j int
			d float64
		}
		var cs []cand
		for j := range b.nodes {
			if j != i {
				cs = append(cs, cand{j, math.Hypot(b.nodes[i].X-b.nodes[j].X, b.nodes[i].Y-b.nodes[j].Y)})
			}
		}
		sort.Slice(cs, func(a, c int) bool { return cs[a].d < cs[c].d })
		for _, c := range cs[:r.Range(1, 3)] {
			a, z := wiggle(b.nodes[i]), wiggle(b.nodes[c.j])
			pts := []geom.Point{a}
			for k := r.Intn(3); k > 0; k-- { // interior vertices off the chord
				t := r.Float()
				pts = append(pts, pt(a.X+(z.X-a.X)*t+(r.Float()-0.5)*c.d*0.3, a.Y+(z.Y-a.Y)*t+(r.Float()-0.5)*c.d*0.3))
			}
			pts = append(pts, z)
			b.join(i, c.j, pts, spd())
		}
	}
	if near { // dangling links whose far end is just OUTSIDE the threshold of an existing node
		for k := r.Intn(3); k > 0; k-- {
			p := b.nodes[r.Intn(len(b.nodes))]
			q := pt(p.X*(1+8e-9), p.Y*(1-8e-9))
			far := pt(p.X+scale*3, p.Y+scale*3+float64(k)*scale)
			b.c.links = append(b.c.links, link{pts: []geom.Point{q, far}, speed: spd() * b.scale})
		}
	}
	b.shuffleLinks()
	for i := 0; i < 6; i++ {
		a := b.nodes[r.Intn(len(b.nodes))]
		z := b.nodes[r.Intn(len(b.nodes))]
		b.c.qs = append(b.c.qs, query{pt(a.X+(r.Float()-0.5)*scale*0.04, a.Y+(r.Float()-0.5)*scale*0.04),
			pt(z.X+(r.Float()-0.5)*scale*0.04, z.Y+(r.Float()-0.5)*scale*0.04), -1})
	}
	return b.c
}

// a history on one network: two separate chains, a query across (empty route), then a joining link
// and the SAME query, then a shortcut and the same query, then a faster link (Time) and the same
// query — every answer must be right for the network as it is at that moment.
func genHistory(r *vproto.Rng) *netCase {
	b := newBuilder(r, "history", true)
	k, m := r.Range(1, 5), r.Range(1, 5)
	sp := float64(8 * r.Range(1, 3))
	var as, bs []int
	for i := 0; i <= k; i++ {
		as = append(as, b.node(pt(float64(i)*sp, 0)))
	}
	for j := 0; j <= m; j++ {
		bs = append(bs, b.node(pt(float64(k)*sp-float64(j)*sp, 8*sp)))
	}
	spd := func() float64 {
		if b.c.opt == "T" {
			return pow2(r)
		}
		return 1
	}
	for i := 0; i < k; i++ {
		b.joinExact(as[i], as[i+1], float64(r.Intn(3)), spd())
	}
	for j := 0; j < m; j++ {
		b.joinExact(bs[j], bs[j+1], float64(r.Intn(3)), spd())
	}
	a0, ak, b0, bm := b.nodes[as[0]], b.nodes[as[k]], b.nodes[bs[0]], b.nodes[bs[m]]
	_ = ak
	_ = b0
	ask := func() {
		n := len(b.c.links)
		b.c.qs = append(b.c.qs, query{a0, bm, n}, query{pt(bm.X+1, bm.Y+0.5), pt(a0.X-1, a0.Y-0.5), n})
		if r.Bool() {
			b.c.qs = append(b.c.qs, query{b.nodes[as[r.Intn(k+1)]], b.nodes[bs[r.Intn(m+1)]], n})
		}
	}
	ask()
	b.joinExact(as[k], bs[0], 0, spd()) // joins the components
	ask()
	if r.Chance(0.7) {
		ask() // repeated without any change in between
	}
	b.joinExact(as[0], bs[m], 0, spd()) // shortcut between the queried nodes
	ask()
	if k >= 1 && m >= 1 {
		b.joinExact(as[r.Intn(k+1)], bs[r.Intn(m+1)], float64(r.Intn(2)), 16*spd()) // a faster link
		ask()
	}
	return b.c
}

// transform maps every coordinate of the case p -> (p + (ox, oy)) * f (f a power of two, offsets integers:
// exact on the integer data of the X families as long as the magnitudes stay below 2^52).
func (c *netCase) transform(ox, oy, f float64) {
	t := func(p geom.Point) geom.Point { return pt((p.X+ox)*f, (p.Y+oy)*f) }
	for i := range c.links {
		q := make([]geom.Point, len(c.links[i].pts))
		for j, p := range c.links[i].pts {
			q[j] = t(p)
		}
		c.links[i].pts = q
	}
	for i := range c.qs {
		c.qs[i].from, c.qs[i].to = t(c.qs[i].from), t(c.qs[i].to)
	}
}

// rescale: the same shapes at coordinate scales 2^-30 .. 2^+30 (absolute thresholds in the code would show)
func (c *netCase) rescale(r *vproto.Rng) {
	c.transform(0, 0, math.Ldexp(1, r.Range(-30, 30)))
	c.fam += "@s"
}

// coordinate-OFFSET family: a grid translated by a large false origin O (2^30, 1e9, 2^40, either sign,
// possibly different per axis), node spacing d = ceil(2.5e-9*|O|) >= 3 so that neighbouring nodes stay
// distinct under op.PointEquals (relative difference >= 1.25e-9 per axis), and pairs of query points
// LESS than 1e-9 relative apart (so op.PointEquals calls them equal) that straddle the bisector between
// two nodes and therefore snap to DIFFERENT nodes; then everything scaled by 2^k.
func genOffset(r *vproto.Rng) *netCase {
	b := newBuilder(r, "offset", true)
	offs := []float64{math.Ldexp(1, 30), 1e9, math.Ldexp(1, 40), 3e9, math.Ldexp(1, 35)}
	O := offs[r.Intn(len(offs))]
	m := O * 1e-9
	d := math.Ceil(2.5 * m)
	if d < 3 {
		d = 3
	}
	if r.Bool() {
		d += math.Floor(m * r.Float()) // up to 3.5e-9 relative
	}
	e := math.Floor(0.3 * m)
	a, z := math.Floor(d/2)-e, math.Ceil(d/2)+e // a < d/2 < z, z - a < 2e-9*O
	if z == a {                                 // even d, e = 0
		a, z = a-1, z+1
	}
	ox, oy := O, O
	switch r.Intn(4) {
	case 0:
		ox = -O
	case 1:
		oy = -O
	case 2:
		oy = O * 2
	}
	w, h := r.Range(2, 6), r.Range(2, 5)
	id := func(x, y int) int { return y*w + x }
	for y := 0; y < h; y++ {
		for x := 0; x < w; x++ {
			b.node(pt(float64(x)*d, float64(y)*d))
		}
	}
	spd := func() float64 {
		if b.c.opt == "T" {
			return pow2(r)
		}
		return 1
	}
	for y := 0; y < h; y++ {
		for x := 0; x < w; x++ {
			if x+1 < w && (y == 0 || !r.Chance(0.3)) { // row 0 complete: the network is connected along it
				b.joinExact(id(x, y), id(x+1, y), 0, spd())
			}
			if y+1 < h && (x == 0 || !r.Chance(0.3)) {
				b.joinExact(id(x, y), id(x, y+1), 0, spd())
			}
		}
	}
	b.shuffleLinks()
	for k := 0; k < 5; k++ {
		x, y := r.Intn(w-1), r.Intn(h)
		p := b.nodes[id(x, y)]
		switch r.Intn(3) {
		case 0: // straddle the bisector between (x,y) and (x+1,y)
			b.c.qs = append(b.c.qs, query{pt(p.X+a, p.Y), pt(p.X+z, p.Y), -1})
		case 1: // the same, reversed, a little off the row
			b.c.qs = append(b.c.qs, query{pt(p.X+z, p.Y+math.Floor(a/2)), pt(p.X+a, p.Y+math.Floor(a/2)), -1})
		default: // diagonal neighbour
			if y+1 < h {
				b.c.qs = append(b.c.qs, query{pt(p.X+a, p.Y+a), pt(p.X+z, p.Y+z), -1})
			} else {
				b.c.qs = append(b.c.qs, query{pt(p.X+a, p.Y), pt(p.X+z, p.Y), -1})
			}
		}
	}
	b.queries(2, d)
	b.c.transform(ox, oy, 1)
	if r.Bool() {
		b.c.transform(0, 0, math.Ldexp(1, r.Range(-20, 10)))
	}
	return b.c
}

func ulps(x float64, k int) float64 {
	dir := math.Inf(1)
	if k < 0 {
		dir, k = math.Inf(-1), -k
	}
	for i := 0; i < k; i++ {
		x = math.Nextafter(x, dir)
	}
	return x
}

// near-coincident link ends at large coordinate magnitudes: every link end is the junction position
// EXACTLY, or off by 1-4 ulps, or off by up to 4.5e-10 relative (mutually inside op.PointEquals'
// 1e-9, so adjoining links must share the node); stub links start 2e-9 relative away from a junction
// (outside the tolerance: must stay a separate node).  Junctions are 1000 units apart.
func genJunction(r *vproto.Rng) *netCase {
	b := newBuilder(r, "junction", false)
	type mag struct{ x, y float64 }
	mags := []mag{{1e3, 1e3}, {1e7, 1e7}, {-10380000, 5610000}, {math.Ldexp(1, 30), math.Ldexp(1, 30)}, {1e9, -1e9}, {-3e8, 7e8}}
	m := mags[r.Intn(len(mags))]
	const S = 1000.0
	w, h := r.Range(2, 4), r.Range(2, 4)
	for y := 0; y < h; y++ {
		for x := 0; x < w; x++ {
			b.node(pt(m.x+float64(x)*S, m.y+float64(y)*S))
		}
	}
	end := func(i int) geom.Point {
		p := b.nodes[i]
		switch r.Intn(4) {
		case 0:
			return p
		case 1:
			return pt(ulps(p.X, r.Range(-4, 4)), p.Y)
		case 2:
			return pt(ulps(p.X, r.Range(-4, 4)), ulps(p.Y, r.Range(-4, 4)))
		default:
			return pt(p.X*(1+4.5e-10*(2*r.Float()-1)), p.Y*(1+4.5e-10*(2*r.Float()-1)))
		}
	}
	spd := func() float64 {
		if b.c.opt == "T" {
			return anySpeed(r)
		}
		return 10
	}
	line := func(i, j int, bend float64) []geom.Point {
		a, z := end(i), end(j)
		if bend == 0 {
			return []geom.Point{a, z}
		}
		return []geom.Point{a, pt(a.X-bend, a.Y), pt(a.X-bend, z.Y+bend/2), z}
	}
	for y := 0; y < h; y++ {
		for x := 0; x < w; x++ {
			i := y*w + x
			if x+1 < w && !r.Chance(0.2) {
				b.join(i, i+1, line(i, i+1, 0), spd())
			}
			if y+1 < h && !r.Chance(0.2) {
				b.join(i, i+w, line(i, i+w, 0), spd())
			}
		}
	}
	for k := r.Range(1, 3); k > 0; k-- { // long ways round (the detour a split junction would force)
		i, j := r.Intn(w*h), r.Intn(w*h)
		b.join(i, j, line(i, j, S*float64(r.Range(1, 3))), spd())
	}
	for k := r.Intn(3); k > 0; k-- { // stubs starting just OUTSIDE the tolerance of a junction
		p := b.nodes[r.Intn(len(b.nodes))]
		q := pt(p.X*(1+4e-9), p.Y)
		b.c.links = append(b.c.links, link{pts: []geom.Point{q, pt(p.X+S/2+float64(k), p.Y+S/3)}, speed: spd()})
	}
	b.shuffleLinks()
	b.queries(6, S/50) // offsets (5, 2.5) around junctions
	return b.c
}

type bigNet struct {
	b   *builder
	idx map[geom.Point]int
	u   float64
}

func newBig(r *vproto.Rng, fam string) *bigNet {
	u := 1.0
	if r.Bool() {
		u = 1.0 / 128 // the same shapes, every distance far below 1
	}
	return &bigNet{b: newBuilder(r, fam, true), idx: map[geom.Point]int{}, u: u}
}

func (g *bigNet) at(x, y int) int {
	p := pt(float64(x)*g.u, float64(y)*g.u)
	if i, ok := g.idx[p]; ok {
		return i
	}
	i := g.b.node(p)
	g.idx[p] = i
	return i
}

// far query points: tens to thousands of units away from every node, in the empty space between
// roads/towns and outside the network; a quarter/eighth-unit offset keeps them off bisectors
func (g *bigNet) farQueries(n int) {
	b, r := g.b, g.b.r
	minx, miny, maxx, maxy := math.Inf(1), math.Inf(1), math.Inf(-1), math.Inf(-1)
	for _, p := range b.nodes {
		minx, maxx = math.Min(minx, p.X), math.Max(maxx, p.X)
		miny, maxy = math.Min(miny, p.Y), math.Max(maxy, p.Y)
	}
	w, h := maxx-minx+64*g.u, maxy-miny+64*g.u
	far := func() geom.Point {
		x := minx - w/2 + math.Floor(r.Float()*2*w/g.u)*g.u + g.u/4
		y := miny - h/2 + math.Floor(r.Float()*2*h/g.u)*g.u + g.u/8
		return pt(x, y)
	}
	for i := 0; i < n; i++ {
		b.c.qs = append(b.c.qs, query{far(), far(), -1})
	}
	// the same far points again earlier in the history (smaller index, other nearest nodes)
	nl := len(b.c.links)
	q := b.c.qs[len(b.c.qs)-1]
	b.c.qs = append(b.c.qs, query{q.from, q.to, r.Range(nl/2, nl-1)})
}

// long roads: horizontal and vertical chains of nodes every 16 units crossing at shared nodes
// (60-400 nodes: the node index has several leaves; L-shaped and hollow groups of nodes)
func genRoads(r *vproto.Rng) *netCase {
	g := newBig(r, "roads")
	b := g.b
	target := r.Range(60, 400)
	for road := 0; len(b.nodes) < target && road < 40; road++ {
		horiz := road%2 == 0
		fixed := 64 * r.Range(-8, 8)
		start := 16 * r.Range(-30, 10)
		n := r.Range(8, 50)
		speed := 1.0
		if b.c.opt == "T" {
			speed = pow2(r)
		}
		prev := -1
		for i := 0; i < n && len(b.nodes) < target+10; i++ {
			var cur int
			if horiz {
				cur = g.at(start+16*i, fixed)
			} else {
				cur = g.at(fixed, start+16*i)
			}
			if prev >= 0 {
				b.joinExact(prev, cur, 0, speed)
			}
			prev = cur
		}
	}
	if r.Bool() {
		b.shuffleLinks()
	}
	g.farQueries(4)
	b.queries(2, 16*g.u)
	return b.c
}

// cc: a mid-size grid (100-300 nodes, ~15 % of the links deleted, some detoured) with 12-20 final-moment
// queries between random nodes: the concurrent phase of the impl side (16 goroutines x 4 rounds for this
// family) has long overlapping A* runs on one network value
func genCC(r *vproto.Rng) *netCase {
	g := newBig(r, "cc")
	b := g.b
	w, h := r.Range(10, 17), r.Range(10, 17)
	for y := 0; y < h; y++ {
		for x := 0; x < w; x++ {
			g.at(16*x, 16*y)
		}
	}
	spd := func() float64 {
		if b.c.opt == "T" {
			return pow2(r)
		}
		return 1
	}
	for y := 0; y < h; y++ {
		for x := 0; x < w; x++ {
			if x+1 < w && !r.Chance(0.15) {
				d := 0.0
				if r.Chance(0.1) {
					d = 16 * g.u * float64(r.Range(1, 3))
				}
				b.joinExact(g.at(16*x, 16*y), g.at(16*(x+1), 16*y), d, spd())
			}
			if y+1 < h && !r.Chance(0.15) {
				b.joinExact(g.at(16*x, 16*y), g.at(16*x, 16*(y+1)), 0, spd())
			}
		}
	}
	b.shuffleLinks()
	b.queries(r.Range(12, 20), 16*g.u)
	return b.c
}

// clustered towns (small dense grids) far apart, joined by single long links
func genTowns(r *vproto.Rng) *netCase {
	g := newBig(r, "towns")
	b := g.b
	nt := r.Range(4, 14)
	var gates []int
	for t := 0; t < nt && len(b.nodes) < 380; t++ {
		cx, cy := 512*r.Range(-6, 6)+4*r.Range(-20, 20), 512*r.Range(-6, 6)+4*r.Range(-20, 20)
		w, h := r.Range(2, 6), r.Range(2, 6)
		speed := func() float64 {
			if b.c.opt == "T" {
				return pow2(r)
			}
			return 1
		}
		for y := 0; y < h; y++ {
			for x := 0; x < w; x++ {
				i := g.at(cx+4*x, cy+4*y)
				if x+1 < w && !r.Chance(0.15) {
					b.joinExact(i, g.at(cx+4*x+4, cy+4*y), 0, speed())
				}
				if y+1 < h && !r.Chance(0.15) {
					b.joinExact(i, g.at(cx+4*x, cy+4*y+4), 0, speed())
				}
			}
		}
		gates = append(gates, g.at(cx, cy))
	}
	for t := 1; t < len(gates); t++ {
		if r.Chance(0.85) { // some towns stay unconnected
			sp := 1.0
			if b.c.opt == "T" {
				sp = 8 * pow2(r)
			}
			b.joinExact(gates[r.Intn(t)], gates[t], 0, sp)
		}
	}
	if r.Bool() {
		b.shuffleLinks()
	}
	g.farQueries(4)
	b.queries(2, 4*g.u)
	return b.c
}

// star: nodes of HIGH DEGREE (mutation N32: `From` lists at most 6 neighbours).  Variant 0: a hub with 7-40 spokes
// to distinct lattice positions, further branches (1-3 nodes) behind the spokes (more often behind the late ones), a few
// expensive cross links between spoke ends (so that a missing spoke shows as a non-minimal route as well as an empty one);
// queries hub -> EVERY spoke end, hub -> every branch leaf, spoke -> spoke.  Variant 1: a grid whose links are all
// detoured (longer than the node spacing) with 1-2 junctions joined to 7-24 other grid nodes by straight Manhattan
// chords (strictly cheaper than any grid path); queries junction -> every chord end and chord end -> chord end.
func genStar(r *vproto.Rng) *netCase {
	b := newBuilder(r, "star", true)
	sp := float64(4 * r.Range(1, 4))
	spd := func() float64 {
		if b.c.opt == "T" || r.Chance(0.3) {
			return pow2(r)
		}
		return 1
	}
	if r.Chance(0.6) {
		k := r.Range(7, 40)
		if r.Chance(0.5) {
			k = r.Range(7, 12)
		}
		m := 3
		for (2*m+1)*(2*m+1) < 4*k+8 {
			m++
		}
		usedCell := map[[2]int]bool{{0, 0}: true}
		cell := func() geom.Point {
			for {
				x, y := r.Range(-m, m), r.Range(-m, m)
				if !usedCell[[2]int{x, y}] {
					usedCell[[2]int{x, y}] = true
					return pt(float64(x)*sp, float64(y)*sp)
				}
			}
		}
		hub := b.node(pt(0, 0))
		var ends, leaves []int
		for i := 0; i < k; i++ {
			e := b.node(cell())
			det := 0.0
			if r.Chance(0.3) {
				det = float64(r.Range(1, 5)) * float64(1-2*r.Intn(2))
			}
			b.joinExact(hub, e, det, spd())
			ends = append(ends, e)
			p := 0.15
			if i >= 6 {
				p = 0.5
			}
			if r.Chance(p) && len(b.nodes) < 3*k {
				prev := e
				for d := r.Range(1, 3); d > 0; d-- {
					n := b.node(cell())
					b.joinExact(prev, n, 0, spd())
					prev = n
				}
				leaves = append(leaves, prev)
			}
		}
		for x := r.Intn(4); x > 0; x-- { // expensive cross links between spoke ends
			i, j := ends[r.Intn(k)], ends[r.Intn(k)]
			b.joinExact(i, j, float64(8*r.Range(4, 9)), 1.0/8)
		}
		b.shuffleLinks()
		H := b.nodes[hub]
		for _, e := range ends {
			if r.Bool() {
				b.c.qs = append(b.c.qs, query{H, b.nodes[e], -1})
			} else {
				b.c.qs = append(b.c.qs, query{pt(H.X+sp/4, H.Y-sp/8), pt(b.nodes[e].X-sp/8, b.nodes[e].Y+sp/4), -1})
			}
		}
		for _, l := range leaves {
			b.c.qs = append(b.c.qs, query{H, b.nodes[l], -1})
		}
		for x := 0; x < 6; x++ {
			all := append(append([]int(nil), ends...), leaves...)
			b.c.qs = append(b.c.qs, query{b.nodes[all[r.Intn(len(all))]], b.nodes[all[r.Intn(len(all))]], -1})
		}
		return b.c
	}
	w, h := r.Range(4, 8), r.Range(4, 7)
	for y := 0; y < h; y++ {
		for x := 0; x < w; x++ {
			b.node(pt(float64(x)*sp, float64(y)*sp))
		}
	}
	for y := 0; y < h; y++ {
		for x := 0; x < w; x++ {
			for _, d := range [][2]int{{1, 0}, {0, 1}} {
				xx, yy := x+d[0], y+d[1]
				if xx >= w || yy >= h || r.Chance(0.1) {
					continue
				}
				b.joinExact(y*w+x, yy*w+xx, float64(r.Range(1, 3))*float64(1-2*r.Intn(2)), 1)
			}
		}
	}
	for jn := r.Range(1, 2); jn > 0; jn-- {
		j := r.Intn(w * h)
		var tg []int
		for k := r.Range(7, 24); k > 0; k-- {
			t := r.Intn(w * h)
			sp2 := 1.0
			if b.c.opt == "T" {
				sp2 = math.Ldexp(1, r.Range(0, 3)) // never slower than the grid links
			}
			if b.joinExact(j, t, 0, sp2) {
				tg = append(tg, t)
			}
		}
		for _, t := range tg {
			b.c.qs = append(b.c.qs, query{b.nodes[j], b.nodes[t], -1})
		}
		for x := 0; x < 4 && len(tg) > 1; x++ {
			b.c.qs = append(b.c.qs, query{b.nodes[tg[r.Intn(len(tg))]], b.nodes[tg[r.Intn(len(tg))]], -1})
		}
	}
	b.shuffleLinks()
	return b.c
}

// chain: LONG routes (mutation N33: a total that skips the links beyond the 16th).  A serpentine path of 17-80 links with a
// power-of-two speed per link under both options (the time total is reported under Distance too), rungs between the rows
// that are mostly expensive (the long way round stays optimal) and sometimes cheap; queries end to end, both ways, and
// between nodes at least 17 links apart along the path.
func genChain(r *vproto.Rng) *netCase {
	b := newBuilder(r, "chain", true)
	n := r.Range(17, 80)
	W := r.Range(4, 12)
	if r.Chance(0.25) {
		W = n + 1 // one straight line
	}
	sp := float64(4 * r.Range(1, 3))
	at := func(i int) (int, int) {
		row, col := i/W, i%W
		if row%2 == 1 {
			col = W - 1 - col
		}
		return col, row
	}
	for i := 0; i <= n; i++ {
		x, y := at(i)
		b.node(pt(float64(x)*sp, float64(y)*sp))
	}
	for i := 0; i < n; i++ {
		det := 0.0
		if r.Chance(0.15) {
			det = float64(r.Range(1, 3))
		}
		b.joinExact(i, i+1, det, pow2(r))
	}
	for i := 0; i+W <= n; i++ { // rungs: node i and the node above it in the next row
		x, y := at(i)
		for j := i + 1; j <= n && j < i+2*W; j++ {
			xx, yy := at(j)
			if xx == x && yy == y+1 && j > i+1 && r.Chance(0.2) {
				if r.Chance(0.8) {
					b.joinExact(i, j, float64(8*r.Range(20, 40)), 1.0/64)
				} else {
					b.joinExact(i, j, 0, pow2(r))
				}
			}
		}
	}
	if r.Bool() {
		b.shuffleLinks()
	}
	b.c.qs = append(b.c.qs, query{b.nodes[0], b.nodes[n], -1}, query{pt(b.nodes[n].X+sp/4, b.nodes[n].Y+sp/8), pt(b.nodes[0].X-sp/8, b.nodes[0].Y-sp/4), -1})
	for x := 0; x < 4; x++ {
		i := r.Intn(n - 16)
		j := i + 17 + r.Intn(n-16-i)
		if j > n {
			j = n
		}
		if r.Bool() {
			i, j = j, i
		}
		b.c.qs = append(b.c.qs, query{b.nodes[i], b.nodes[j], -1})
	}
	return b.c
}

// wrap: node ids that agree modulo 256 on the two ends of one link (mutation N42: an id compared through a narrower
// integer).  Ids are handed out in the order in which AddLink first sees an end point, so the links are NOT shuffled: a
// serpentine chain of exactly 256 nodes added in order (ids 1..256), then for t = 1..k a new node X_t (id 256+t) joined to
// chain node t (id t) by a LONG link and to chain node t+2 by a short one: the way t -> t+1 -> t+2 -> X_t (4 units of spacing) is far
// cheaper than the long link t -> X_t - unless that link is taken to cost nothing.
func genWrap(r *vproto.Rng) *netCase {
	b := newBuilder(r, "wrap", true)
	sp := float64(4 * r.Range(1, 3))
	W := 16 * r.Range(1, 4)
	pos := func(i int) geom.Point {
		row, col := i/W, i%W
		if row%2 == 1 {
			col = W - 1 - col
		}
		return pt(float64(col)*sp, float64(row)*sp)
	}
	add := func(a, c geom.Point, det, speed float64, flip bool) {
		ps := manhattan(a, c, det)
		if flip {
			for i, j := 0, len(ps)-1; i < j; i, j = i+1, j-1 {
				ps[i], ps[j] = ps[j], ps[i]
			}
		}
		b.c.links = append(b.c.links, link{pts: ps, speed: speed * b.scale})
	}
	spd := func() float64 {
		if b.c.opt == "T" {
			return pow2(r)
		}
		return 1
	}
	for i := 0; i+1 < 256; i++ {
		add(pos(i), pos(i+1), 0, spd(), i > 0 && r.Bool())
	}
	k := r.Range(1, 6)
	for t := 1; t <= k; t++ {
		i := t - 1 // chain node with id t
		X := pt(sp*float64(i+1), -sp) // two units of spacing from chain node t+2, like chain node t+1
		add(pos(i), X, float64(8*r.Range(6, 12))*sp/4, 1.0/4, r.Bool()) // long and slow; X gets id 256+t
		add(X, pos(i+2), 0, spd(), r.Bool())
		b.c.qs = append(b.c.qs, query{pos(i), pos(i + 2), -1}, query{pos(i + 2), pos(i), -1}, query{pos(i), X, -1})
	}
	b.c.qs = append(b.c.qs, query{pos(0), pos(255), -1})
	return b.c
}

// genGapNet: link end vertices that are only NEAR their node (inside op.PointEquals' relative tolerance, integers at
// magnitudes ~1e9 so that every float operation on lengths and totals is exact): S--M, M'--T with M' = M + g2 towards T,
// and a direct link S'--T with S' = S + g3, g3 < g2: the chain over M costs 2L - g2, the direct link 2L - g3.  An
// unscaled straight-line heuristic overestimates at M by g2 and A* returns the direct link (the former finding
// "identification gaps"); which vertex defines the node depends on the (shuffled) order of the AddLink calls.  Both
// options, either axis, either sign, optional spurs.
func genGapNet(r *vproto.Rng) *netCase {
	opt := "D"
	if r.Bool() {
		opt = "T"
	}
	c := &netCase{fam: "gapnet", exact: true, opt: opt}
	O := []float64{1e9, 1 << 30, 3e9}[r.Intn(3)]
	L := O
	if r.Bool() {
		L = O / 2
	}
	g2 := float64(r.Range(2, int(math.Max(2, math.Floor(1.2e-9*(O+L))))))
	g3 := float64(r.Range(0, int(math.Min(g2-1, math.Floor(1.2e-9*O)))))
	sp := math.Ldexp(1, r.Range(-4, 4))
	S, M, T := pt(O, O), pt(O+L, O), pt(O+2*L, O)
	c.links = []link{
		{[]geom.Point{S, M}, sp},
		{[]geom.Point{pt(M.X+g2, M.Y), T}, sp},
		{[]geom.Point{pt(S.X+g3, S.Y), T}, sp},
	}
	if r.Bool() { // spur at M, exact vertex
		c.links = append(c.links, link{[]geom.Point{M, pt(M.X, M.Y-L)}, sp})
	}
	if r.Bool() { // a second chain on the other side with a gap at its middle node as well
		M2 := pt(O+L, O+L)
		c.links = append(c.links, link{[]geom.Point{S, pt(S.X, S.Y+L), M2}, sp},
			link{[]geom.Point{pt(M2.X+g2, M2.Y), pt(T.X, T.Y+L), T}, sp})
	}
	if opt == "D" { // speeds are irrelevant to the optimum: a faster link may follow the link with the gap (mutation N15)
		for i := range c.links {
			c.links[i].speed = math.Ldexp(1, r.Range(-4, 4))
		}
	}
	for i := range c.links { // random orientation
		if r.Bool() {
			p := c.links[i].pts
			for a, b := 0, len(p)-1; a < b; a, b = a+1, b-1 {
				p[a], p[b] = p[b], p[a]
			}
		}
	}
	for i := len(c.links) - 1; i > 0; i-- {
		j := r.Intn(i + 1)
		c.links[i], c.links[j] = c.links[j], c.links[i]
	}
	c.qs = []query{{S, T, -1}, {T, S, -1}, {M, T, -1}, {S, M, -1}}
	swap, neg := r.Bool(), r.Bool()
	tr := func(p geom.Point) geom.Point {
		if swap {
			p.X, p.Y = p.Y, p.X
		}
		if neg {
			p.X, p.Y = -p.X, -p.Y
		}
		return p
	}
	for i := range c.links {
		for k := range c.links[i].pts {
			c.links[i].pts[k] = tr(c.links[i].pts[k])
		}
	}
	for i := range c.qs {
		c.qs[i].from, c.qs[i].to = tr(c.qs[i].from), tr(c.qs[i].to)
	}
	return c
}

func corpus() []*netCase {
	mk := func(fam, opt string, exact bool, links []link, qs ...query) *netCase {
		return &netCase{fam: fam, exact: exact, opt: opt, links: links, qs: qs}
	}
	l1 := []geom.Point{pt(0, 0), pt(0, 1), pt(1, 1), pt(8, 1), pt(8, 4)}
	l2 := []geom.Point{pt(8, 4), pt(8, -6)}
	l3 := []geom.Point{pt(7.999999999999998, 4), pt(8, -6)}
	q := query{pt(0, -1), pt(6, -6), -1}
	// DESIGN 1.1: 6 links, one long direct link against four short ones
	six := []link{
		{manhattan(pt(0, 0), pt(20, 0), -45), 1}, // direct, length 45+20+45 = 110
		{manhattan(pt(0, 0), pt(5, 0), 0), 1},
		{manhattan(pt(5, 0), pt(10, 0), 0), 1},
		{manhattan(pt(10, 0), pt(15, 0), 0), 1},
		{manhattan(pt(15, 0), pt(20, 0), 0), 1},
		{manhattan(pt(20, 0), pt(20, 7), 0), 1},
	}
	fast := []link{
		{manhattan(pt(0, 0), pt(16, 0), 0), 1},  // slow direct: time 16
		{manhattan(pt(0, 0), pt(8, 8), 0), 16},  // fast detour: 16/16 + 16/16 = 2
		{manhattan(pt(8, 8), pt(16, 0), 0), 16}, //
		{manhattan(pt(0, 0), pt(0, -8), 0), 0.125},
	}
	return []*netCase{
		mk("example", "T", true, []link{{l1, 6}, {l2, 2}}, q),
		mk("example", "D", true, []link{{l1, 6}, {l2, 2}}, q, query{q.to, q.from, -1}),
		mk("floatingpoint", "T", false, []link{{l1, 6}, {l3, 2}}, q),
		mk("single", "D", true, []link{{l2, 1}}, query{pt(8, 5), pt(8, -7), -1}, query{pt(8, 5), pt(8, 3), -1}),
		mk("design-six", "D", true, six, query{pt(0, 0), pt(20, 0), -1}, query{pt(20, 0), pt(0, 0), -1}, query{pt(0, 1), pt(20, 8), -1}),
		mk("design-six", "T", true, six, query{pt(0, 0), pt(20, 0), -1}),
		mk("fastslow", "T", true, fast, query{pt(0, 0), pt(16, 0), -1}, query{pt(16, 0), pt(0, 0), -1}, query{pt(0, -8), pt(16, 0), -1}),
		mk("fastslow", "D", true, fast, query{pt(0, 0), pt(16, 0), -1}),
		// identification gaps: M'-T starts 2 units nearer T than node M (5e-10 relative: same node), the direct
		// link S''-T starts 1 unit off S; heuristic h(M) = |MT| = 1e9 > w(M,T) = 1e9-2, so A* pops T first:
		// returns 2e9-1, the chain over M costs 2e9-2 (known finding, see findings/C19.json)
		mk("gap", "D", true, []link{
			{[]geom.Point{pt(1e9, 1e9), pt(2e9, 1e9)}, 1},
			{[]geom.Point{pt(2e9+2, 1e9), pt(3e9, 1e9)}, 1},
			{[]geom.Point{pt(1e9+1, 1e9), pt(3e9, 1e9)}, 1}},
			query{pt(1e9, 1e9), pt(3e9, 1e9), -1}),
		// the same under the Time option (mutation N10: only the Distance heuristic scaled)
		mk("gap", "T", true, []link{
			{[]geom.Point{pt(1e9, 1e9), pt(2e9, 1e9)}, 2},
			{[]geom.Point{pt(2e9+2, 1e9), pt(3e9, 1e9)}, 2},
			{[]geom.Point{pt(1e9+1, 1e9), pt(3e9, 1e9)}, 2}},
			query{pt(1e9, 1e9), pt(3e9, 1e9), -1}),
		// the link with the smaller gap first (mutation N1: only the first gap lowers the scale), asked before and after
		mk("gap", "D", true, []link{
			{[]geom.Point{pt(1e9, 1e9), pt(2e9, 1e9)}, 1},
			{[]geom.Point{pt(1e9+1, 1e9), pt(3e9, 1e9)}, 1},
			{[]geom.Point{pt(2e9+2, 1e9), pt(3e9, 1e9)}, 1}},
			query{pt(1e9, 1e9), pt(3e9, 1e9), 2}, query{pt(1e9, 1e9), pt(3e9, 1e9), -1}),
		// Web-Mercator magnitudes, the second short link starts 2 ulps off the junction B
		mk("junction", "D", false, []link{
			{[]geom.Point{pt(-10380000, 5610000), pt(-10379000, 5610000)}, 10},
			{[]geom.Point{pt(ulps(-10379000, 2), 5610000), pt(-10379000, 5611000)}, 10},
			{[]geom.Point{pt(-10380000, 5610000), pt(-10381000, 5610000), pt(-10381000, 5611000), pt(-10379000, 5611000)}, 10}},
			query{pt(-10380003, 5609996), pt(-10378997, 5611004), -1}, query{pt(-10378997, 5611004), pt(-10380003, 5609996), -1}),
		// history: A-B and D-C separate, ask A->C (empty), add B-C, ask again, add A-C, ask again
		mk("history", "D", true, []link{{manhattan(pt(0, 0), pt(10, 0), 0), 1}, {manhattan(pt(0, 10), pt(10, 10), 0), 1},
			{manhattan(pt(10, 0), pt(10, 10), 0), 1}, {manhattan(pt(0, 0), pt(0, 10), 0), 1}},
			query{pt(0, 0), pt(10, 10), 2}, query{pt(0, 0), pt(10, 10), 3}, query{pt(10, 10), pt(0, 0), 3}, query{pt(0, 0), pt(0, 10), 3},
			query{pt(0, 0), pt(0, 10), 4}, query{pt(0, 0), pt(10, 10), 4}),
		mk("components", "D", true, []link{{manhattan(pt(0, 0), pt(4, 0), 0), 1}, {manhattan(pt(100, 0), pt(104, 0), 0), 1}},
			query{pt(0, 0), pt(104, 0), -1}, query{pt(100, 0), pt(104, 0), -1}, query{pt(104, 1), pt(3, 1), -1}),
	}
}

func gen(seed uint64, tier string) {
	out := bufio.NewWriter(os.Stdout)
	defer out.Flush()
	r := vproto.NewRng(seed)
	n, big := 90, 20
	if tier == "thorough" {
		n, big = 1200, 150
	}
	for _, c := range corpus() {
		fmt.Fprintln(out, c)
	}
	emit := func(c *netCase, p float64) {
		c.addHistory(r, p)
		if c.exact && r.Chance(0.3) {
			c.rescale(r)
		}
		fmt.Fprintln(out, c)
	}
	for i := 0; i < n; i++ {
		emit(genGrid(r, "grid", 1), 0.5)
		emit(genDiamond(r), 0.5)
		emit(genFastSlow(r), 0.5)
		emit(genFloat(r, false), 0.3)
		emit(genHistory(r), 0)
		fmt.Fprintln(out, genOffset(r))
		emit(genJunction(r), 0.3)
		fmt.Fprintln(out, genGapNet(r)) // no earlier-moment queries: with a node missing, a query point at ~1e9 can be float-tied between far nodes
		if i%2 == 0 {
			emit(genGrid(r, "components", r.Range(2, 3)), 0.6)
			emit(genFloat(r, true), 0.3)
		}
	}
	for i := 0; i < big; i++ {
		fmt.Fprintln(out, genRoads(r))
		fmt.Fprintln(out, genTowns(r))
		if i%6 == 0 {
			fmt.Fprintln(out, genCC(r))
		}
	}
	// wave 3 families on their own random stream (the cases of the older families stay what they were)
	r2 := vproto.NewRng(seed*0x9e3779b97f4a7c15 + 19)
	n3 := n
	if tier == "thorough" {
		n3 = n / 2 // phase 4: 600 star + 300 chain + 100 wrap keep the thorough tier under ~20 min (quick tier unchanged)
	}
	for i := 0; i < n3; i++ {
		c := genStar(r2)
		c.addHistory(r2, 0.15)
		if r2.Chance(0.3) {
			c.rescale(r2)
		}
		fmt.Fprintln(out, c)
		if i%2 == 0 {
			c = genChain(r2)
			c.addHistory(r2, 0.3)
			if r2.Chance(0.3) {
				c.rescale(r2)
			}
			fmt.Fprintln(out, c)
		}
		if i%6 == 0 {
			fmt.Fprintln(out, genWrap(r2))
		}
	}
	// the priority queue on its own (tie of the Lean heap model to container/heap + gonum's aStarQueue)
	for i := 0; i < n/2; i++ {
		fmt.Fprintln(out, genHeap(r, r.Range(1, 12), 3))
		fmt.Fprintln(out, genHeap(r, r.Range(20, 80), r.Range(2, 9)))
		if i%8 == 0 {
			fmt.Fprintln(out, genHeap(r, r.Range(150, 400), 40))
		}
	}
}

// ---------------------------------------------------------------- implementation side

func samePts(a, b []geom.Point) bool {
	if len(a) != len(b) {
		return false
	}
	for i := range a {
		if math.Float64bits(a[i].X) != math.Float64bits(b[i].X) || math.Float64bits(a[i].Y) != math.Float64bits(b[i].Y) {
			return false
		}
	}
	return true
}

func linkIndex(c *netCase, ls geom.LineString) int {
	for i, l := range c.links {
		if samePts(l.pts, ls) {
			return i
		}
	}
	return -1
}

// field reads the exported embedded field `name` of the unexported struct behind v (node.Point, edge.LineString).
func field(v interface{}, name string) interface{} {
	rv := reflect.ValueOf(v)
	for rv.Kind() == reflect.Ptr || rv.Kind() == reflect.Interface {
		rv = rv.Elem()
	}
	return rv.FieldByName(name).Interface()
}

func dumpGraph(c *netCase, net *route.Network, b *strings.Builder) {
	var g interface{} = *net // the VALUE, as ShortestRoute passes it to AStar
	wg, weighted := g.(path.Weighted)
	if weighted {
		b.WriteString("w 1 | G")
	} else {
		b.WriteString("w 0 | G")
	}
	var ns []graph.Node
	it := net.Nodes()
	for it.Next() {
		ns = append(ns, it.Node())
	}
	sort.Slice(ns, func(i, j int) bool { return ns[i].ID() < ns[j].ID() })
	fmt.Fprintf(b, " %d", len(ns))
	for _, n := range ns {
		p := field(n, "Point").(geom.Point)
		fmt.Fprintf(b, " %d %s %s", n.ID(), vproto.F2H(p.X), vproto.F2H(p.Y))
	}
	var arcs []string
	for _, n := range ns {
		var to []int64
		f := net.From(n.ID())
		for f != nil && f.Next() {
			to = append(to, f.Node().ID())
		}
		sort.Slice(to, func(i, j int) bool { return to[i] < to[j] })
		for _, v := range to {
			e := net.Edge(n.ID(), v)
			w := "-"
			if weighted {
				x, ok := wg.Weight(n.ID(), v)
				w = vproto.F2H(x)
				if !ok {
					w = "!" + w
				}
			}
			if e == nil || reflect.ValueOf(e).IsNil() {
				arcs = append(arcs, fmt.Sprintf("%d %d 0 0 -2 %s", n.ID(), v, w))
				continue
			}
			arcs = append(arcs, fmt.Sprintf("%d %d %d %d %d %s", n.ID(), v, e.From().ID(), e.To().ID(),
				linkIndex(c, field(e, "LineString").(geom.LineString)), w))
		}
	}
	fmt.Fprintf(b, " %d", len(arcs))
	for _, a := range arcs {
		b.WriteString(" " + a)
	}
}

func implLine(line string) string {
	if strings.HasPrefix(line, "heapq ") {
		var res string
		if p := vproto.Safe(func() { res = implHeap(line) }); p != "" {
			return "panic " + p
		}
		return res
	}
	var b strings.Builder
	var c *netCase
	var net *route.Network
	var res []string
	var kept []geom.MultiLineString // every returned route, re-verified after the whole history
	var keptAt []int
	var ccRuns, ccDiffs int
	pan := vproto.Safe(func() {
		var ops []op
		c, ops = parseCase(line)
		opt := route.Distance
		if c.opt == "T" {
			opt = route.Time
		}
		net = route.NewNetwork(opt) // ONE network value for the whole history
		for _, o := range ops {
			if o.isLink {
				net.AddLink(geom.LineString(o.l.pts), o.l.speed)
				continue
			}
			var rt geom.MultiLineString
			var d, t, sd, ed float64
			qp := vproto.Safe(func() { rt, d, t, sd, ed = net.ShortestRoute(o.q.from, o.q.to) })
			if qp != "" {
				res = append(res, fmt.Sprintf(" panic %s ;", qp))
				continue
			}
			var rb strings.Builder
			fmt.Fprintf(&rb, " ok %d", len(rt))
			for _, ls := range rt {
				fmt.Fprintf(&rb, " %d", linkIndex(c, ls))
			}
			fmt.Fprintf(&rb, " %s %s %s %s ;", vproto.F2H(d), vproto.F2H(t), vproto.F2H(sd), vproto.F2H(ed))
			res = append(res, rb.String())
			kept = append(kept, rt)
			keptAt = append(keptAt, len(res)-1)
		}
		// cc probe: "This function does not change the Network, so multiple function calls can be run
		// concurrently".  The queries asked at the final moment (after the last AddLink) are asked again by
		// several goroutines at once on the SAME network value.  Map iteration order is random, so an equally
		// cheap alternative route is legitimate: a concurrent answer that differs from the sequential one (or
		// panics) REPLACES it and is judged by the Spec like any other answer.
		lastLink := -1
		for i, o := range ops {
			if o.isLink {
				lastLink = i
			}
		}
		var finalQ []query
		var finalRes []int // index into res
		qi := 0
		for i, o := range ops {
			if o.isLink {
				continue
			}
			if i > lastLink {
				finalQ = append(finalQ, o.q)
				finalRes = append(finalRes, qi)
			}
			qi++
		}
		if len(finalQ) > 0 {
			ccRuns, ccDiffs = concurrentQueries(c, net, finalQ, finalRes, res, &kept, &keptAt)
		}
		// late check: results must not alias state that later calls change, inputs must be untouched
		intact := c.inputIntact()
		for k, rt := range kept {
			var rb strings.Builder
			fmt.Fprintf(&rb, " ok %d", len(rt))
			for _, ls := range rt {
				fmt.Fprintf(&rb, " %d", linkIndex(c, ls))
			}
			if !intact || !strings.HasPrefix(res[keptAt[k]], rb.String()+" ") {
				res[keptAt[k]] = " ok 1 -3 0000000000000000 0000000000000000 0000000000000000 0000000000000000 ;"
			}
		}
		dumpGraph(c, net, &b)
	})
	if pan != "" {
		return "buildpanic " + pan
	}
	b.WriteString(" | R")
	for _, r := range res {
		b.WriteString(r)
	}
	fmt.Fprintf(&b, " | C %d %d", ccRuns, ccDiffs)
	return b.String()
}

// formatAnswer renders one ShortestRoute answer as it appears in the R section.
func formatAnswer(c *netCase, rt geom.MultiLineString, d, t, sd, ed float64) string {
	var rb strings.Builder
	fmt.Fprintf(&rb, " ok %d", len(rt))
	for _, ls := range rt {
		fmt.Fprintf(&rb, " %d", linkIndex(c, ls))
	}
	fmt.Fprintf(&rb, " %s %s %s %s ;", vproto.F2H(d), vproto.F2H(t), vproto.F2H(sd), vproto.F2H(ed))
	return rb.String()
}

// concurrentQueries asks the final-moment queries from G goroutines at once (start barrier, each goroutine
// in its own rotated order, R rounds).  Returns the number of concurrent calls and the number of queries
// whose recorded answer was replaced by a differing concurrent one.
func concurrentQueries(c *netCase, net *route.Network, qs []query, resIdx []int, res []string,
	kept *[]geom.MultiLineString, keptAt *[]int) (runs, diffs int) {
	G, R := 8, 3
	switch c.fam {
	case "roads", "towns":
		R = 1
	case "cc":
		G, R = 16, 4
	}
	type dev struct {
		q   int
		txt string
		rt  geom.MultiLineString
		pan bool
	}
	var mu sync.Mutex
	var devs []dev
	var wg sync.WaitGroup
	start := make(chan struct{})
	for g := 0; g < G; g++ {
		wg.Add(1)
		go func(g int) {
			defer wg.Done()
			<-start
			for round := 0; round < R; round++ {
				for k := range qs {
					j := (k + g*7 + round) % len(qs)
					var rt geom.MultiLineString
					var d, t, sd, ed float64
					qp := vproto.Safe(func() { rt, d, t, sd, ed = net.ShortestRoute(qs[j].from, qs[j].to) })
					var txt string
					if qp != "" {
						txt = fmt.Sprintf(" panic %s ;", qp)
					} else {
						txt = formatAnswer(c, rt, d, t, sd, ed)
					}
					if txt != res[resIdx[j]] {
						mu.Lock()
						devs = append(devs, dev{j, txt, rt, qp != ""})
						mu.Unlock()
					}
				}
			}
		}(g)
	}
	close(start)
	wg.Wait()
	runs = G * R * len(qs)
	seen := map[int]bool{}
	for _, d := range devs {
		if seen[d.q] {
			continue
		}
		seen[d.q] = true
		diffs++
		ri := resIdx[d.q]
		res[ri] = d.txt
		// the late re-verification must look at the replaced route
		found := false
		for k := range *keptAt {
			if (*keptAt)[k] == ri {
				found = true
				if d.pan {
					*kept = append((*kept)[:k], (*kept)[k+1:]...)
					*keptAt = append((*keptAt)[:k], (*keptAt)[k+1:]...)
				} else {
					(*kept)[k] = d.rt
				}
				break
			}
		}
		if !found && !d.pan {
			*kept = append(*kept, d.rt)
			*keptAt = append(*keptAt, ri)
		}
	}
	return
}

func impl() {
	vproto.Lines(func(line string, out *bufio.Writer) {
		fmt.Fprintf(out, "%s => %s\n", line, implLine(line))
		out.Flush()
	})
}

func main() {
	if len(os.Args) < 2 {
		fmt.Fprintln(os.Stderr, "usage: c19 gen|impl")
		os.Exit(2)
	}
	switch os.Args[1] {
	case "gen":
		seed, tier := vproto.SeedTier(os.Args[2:])
		gen(seed, tier)
	case "impl":
		impl()
	}
}
