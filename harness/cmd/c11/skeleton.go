package main

// Control-skeleton tie: `c11 skeleton --repo DIR` prints, for every structural function of
// index/rtree/rtree.go that the Lean model transcribes by hand, a canonical text of its control
// structure: conditions (with if-init), loop kinds and headers, calls, returns, break/continue,
// and every assignment that mentions tree.height / size / root / a parent / level / leaf /
// entries field, a `math.` constant (the MaxFloat64 sentinels) or contains a call; plus the field lists of Rtree, node and entry.  The check
// compares it with the committed harness/cmd/c11/skeleton.expected: a `for` turned into `if`, a
// dropped `height--`, a moved `size--`, an added early `break`, a new struct field (a cache) are
// reported as a broken tie naming the function, even when the behavioural difference needs a rare
// history.

import (
	"bytes"
	"fmt"
	"go/ast"
	"go/parser"
	"go/printer"
	"go/token"
	"os"
	"path/filepath"
	"strings"
)

var skelFuncs = []string{"NewTree", "Size", "Depth", "Insert", "insert", "chooseNode", "adjustTree", "getEntry",
	"computeBoundingBox", "split", "assign", "assignGroup", "pickSeeds", "pickNext", "Delete", "findLeaf", "condenseTree",
	"SearchIntersect", "searchIntersect", "NearestNeighbor", "sortEntries", "pruneEntries", "nearestNeighbor",
	"NearestNeighbors", "insertNearest", "nearestNeighbors", "Len", "Swap", "Less"}

var skelFields = map[string]bool{"height": true, "size": true, "root": true, "parent": true, "level": true, "leaf": true,
	"entries": true, "MinChildren": true, "MaxChildren": true, "child": true, "obj": true, "bb": true}

func src(fset *token.FileSet, n ast.Node) string {
	var b bytes.Buffer
	printer.Fprint(&b, fset, n)
	return strings.Join(strings.Fields(b.String()), " ")
}

func mentions(n ast.Node) bool {
	found := false
	ast.Inspect(n, func(x ast.Node) bool {
		switch t := x.(type) {
		case *ast.SelectorExpr:
			if skelFields[t.Sel.Name] {
				found = true
			}
			if id, ok := t.X.(*ast.Ident); ok && id.Name == "math" { // constants such as math.MaxFloat64
				found = true
			}
		case *ast.CallExpr:
			found = true
		case *ast.FuncLit:
			found = true
		}
		return !found
	})
	return found
}

func skelStmts(fset *token.FileSet, ss []ast.Stmt, ind string, out *strings.Builder) {
	for _, s := range ss {
		switch t := s.(type) {
		case *ast.IfStmt:
			h := src(fset, t.Cond)
			if t.Init != nil {
				h = src(fset, t.Init) + "; " + h
			}
			fmt.Fprintf(out, "%sif %s\n", ind, h)
			skelStmts(fset, t.Body.List, ind+"  ", out)
			for el := t.Else; el != nil; {
				switch e := el.(type) {
				case *ast.BlockStmt:
					fmt.Fprintf(out, "%selse\n", ind)
					skelStmts(fset, e.List, ind+"  ", out)
					el = nil
				case *ast.IfStmt:
					h := src(fset, e.Cond)
					if e.Init != nil {
						h = src(fset, e.Init) + "; " + h
					}
					fmt.Fprintf(out, "%selse if %s\n", ind, h)
					skelStmts(fset, e.Body.List, ind+"  ", out)
					el = e.Else
				default:
					el = nil
				}
			}
		case *ast.ForStmt:
			h := ""
			if t.Init != nil {
				h += src(fset, t.Init)
			}
			h += ";"
			if t.Cond != nil {
				h += " " + src(fset, t.Cond)
			}
			h += ";"
			if t.Post != nil {
				h += " " + src(fset, t.Post)
			}
			fmt.Fprintf(out, "%sfor %s\n", ind, h)
			skelStmts(fset, t.Body.List, ind+"  ", out)
		case *ast.RangeStmt:
			k, v := "_", "_"
			if t.Key != nil {
				k = src(fset, t.Key)
			}
			if t.Value != nil {
				v = src(fset, t.Value)
			}
			fmt.Fprintf(out, "%srange %s, %s over %s\n", ind, k, v, src(fset, t.X))
			skelStmts(fset, t.Body.List, ind+"  ", out)
		case *ast.BlockStmt:
			skelStmts(fset, t.List, ind, out)
		case *ast.SwitchStmt, *ast.TypeSwitchStmt, *ast.SelectStmt, *ast.GoStmt, *ast.DeferStmt, *ast.LabeledStmt:
			fmt.Fprintf(out, "%sstmt %s\n", ind, src(fset, t))
		case *ast.ReturnStmt:
			fmt.Fprintf(out, "%s%s\n", ind, src(fset, t))
		case *ast.BranchStmt:
			fmt.Fprintf(out, "%s%s\n", ind, src(fset, t))
		case *ast.ExprStmt:
			fmt.Fprintf(out, "%scall %s\n", ind, src(fset, t))
		case *ast.IncDecStmt:
			if mentions(t) {
				fmt.Fprintf(out, "%sassign %s\n", ind, src(fset, t))
			}
		case *ast.AssignStmt:
			if mentions(t) {
				fmt.Fprintf(out, "%sassign %s\n", ind, src(fset, t))
			}
		case *ast.DeclStmt:
			if mentions(t) {
				fmt.Fprintf(out, "%sdecl %s\n", ind, src(fset, t))
			}
		}
	}
}

func skeleton(repo string) (string, error) {
	fset := token.NewFileSet()
	f, err := parser.ParseFile(fset, filepath.Join(repo, "index", "rtree", "rtree.go"), nil, 0)
	if err != nil {
		return "", err
	}
	var out strings.Builder
	for _, d := range f.Decls {
		gd, ok := d.(*ast.GenDecl)
		if !ok || gd.Tok != token.TYPE {
			continue
		}
		for _, sp := range gd.Specs {
			ts := sp.(*ast.TypeSpec)
			if st, ok := ts.Type.(*ast.StructType); ok {
				fmt.Fprintf(&out, "== type %s\n", ts.Name.Name)
				for _, fl := range st.Fields.List {
					var ns []string
					for _, n := range fl.Names {
						ns = append(ns, n.Name)
					}
					fmt.Fprintf(&out, "  field %s %s\n", strings.Join(ns, ","), src(fset, fl.Type))
				}
			}
		}
	}
	want := map[string]bool{}
	for _, n := range skelFuncs {
		want[n] = true
	}
	seen := map[string]bool{}
	for _, d := range f.Decls {
		fd, ok := d.(*ast.FuncDecl)
		if !ok || !want[fd.Name.Name] {
			continue
		}
		recv := ""
		if fd.Recv != nil {
			recv = "(" + src(fset, fd.Recv.List[0].Type) + ")."
		}
		seen[fd.Name.Name] = true
		fmt.Fprintf(&out, "== func %s%s %s\n", recv, fd.Name.Name, src(fset, fd.Type))
		skelStmts(fset, fd.Body.List, "  ", &out)
	}
	for _, n := range skelFuncs {
		if !seen[n] {
			fmt.Fprintf(&out, "== func %s MISSING\n", n)
		}
	}
	// any other function of the file (a new helper that the model does not know) is listed by name
	for _, d := range f.Decls {
		if fd, ok := d.(*ast.FuncDecl); ok && !want[fd.Name.Name] && fd.Name.Name != "String" && fd.Name.Name != "Error" {
			fmt.Fprintf(&out, "== other func %s\n", fd.Name.Name)
		}
	}
	return out.String(), nil
}

func skeletonMain(args []string) {
	repo := "/repo"
	for i := 0; i+1 < len(args); i++ {
		if args[i] == "--repo" {
			repo = args[i+1]
		}
	}
	s, err := skeleton(repo)
	if err != nil {
		fmt.Fprintln(os.Stderr, "skeleton:", err)
		os.Exit(3)
	}
	fmt.Print(s)
}
