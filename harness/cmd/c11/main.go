// Harness for C11 (R-tree search = brute-force scan after any insert/delete history).
//
//	gen --seed S --tier T   one history per line
//	impl                    runs every history on the real index/rtree; after EVERY operation
//	                        appends "| ok <delres> <Size> <Depth> T <tree dump via the verif hook>
//	                        A <answers to the query batch>" (or "| panic <msg>" and stops)
package main

import (
	"bufio"
	"fmt"
	"os"
	"strings"

	"github.com/ctessum/geom"
	"github.com/ctessum/geom/index/rtree"

	"verif/harness/cmd/c11/rtwire"
	"verif/harness/vproto"
)

func runHist(line string, out *bufio.Writer) {
	var b strings.Builder
	b.WriteString(line)
	b.WriteString(" =>")
	var h *rtwire.Hist
	if msg := vproto.Safe(func() { h = rtwire.Parse(line) }); msg != "" {
		fmt.Fprintf(out, "%s => badline %s\n", line, msg)
		return
	}
	objs, ids := h.Objects()
	// a second tree, built BEFORE the tree of the history and never touched again: operations on one tree must not
	// change another (package-level state, shared storage); re-dumped and compared when the history is over
	var shadow *rtree.Rtree
	shadowDump := ""
	dumpOf := func(t *rtree.Rtree) string {
		var s strings.Builder
		root, _, _ := t.VerifWalk(70)
		fmt.Fprintf(&s, "%d %d", t.Size(), t.Depth())
		rtwire.Dump(&s, root, ids)
		return s.String()
	}
	vproto.Safe(func() {
		shadow = rtree.NewTree(h.Min, h.Max)
		for i := 0; i < len(objs) && i < 3; i++ {
			shadow.Insert(objs[i])
		}
		shadowDump = dumpOf(shadow)
	})
	tree := rtree.NewTree(h.Min, h.Max)
	lastStep := -1
	qb := make([]*geom.Bounds, len(h.Queries))
	for i, q := range h.Queries {
		qb[i] = q.Bounds()
	}
	for _, op := range h.Ops {
		if op.Qry {
			continue
		}
		delres := "-"
		msg := vproto.Safe(func() {
			if op.Del {
				if tree.Delete(objs[op.ID]) {
					delres = "t"
				} else {
					delres = "f"
				}
			} else {
				tree.Insert(objs[op.ID])
			}
		})
		if msg != "" {
			b.WriteString(" | panic " + msg)
			break
		}
		if op.Silent {
			continue
		}
		msg = vproto.Safe(func() {
			var s strings.Builder
			root, _, _ := tree.VerifWalk(70)
			fmt.Fprintf(&s, " | ok %s %d %d T", delres, tree.Size(), tree.Depth())
			rtwire.Dump(&s, root, ids)
			s.WriteString(" A")
			// the whole batch is asked first and rendered afterwards (a result must survive later
			// calls: no shared result buffer); the query boxes are the same *geom.Bounds objects in
			// every step (a call must not leave state in them); after rendering the returned slices
			// are overwritten (they belong to the caller: the tree must not keep or hand out again
			// anything that aliases them)
			res := make([][]geom.Geom, len(qb))
			for i, q := range qb {
				res[i] = tree.SearchIntersect(q)
			}
			for i := range res {
				rtwire.IDs(&s, res[i], ids)
			}
			for i := range res {
				for j := range res[i] {
					res[i][j] = nil
				}
			}
			lastStep = b.Len()
			b.WriteString(s.String())
		})
		if msg != "" {
			b.WriteString(" | panic in-search-or-walk:" + msg)
			break
		}
	}
	res := b.String()
	if shadow != nil && lastStep >= 0 {
		now := ""
		if msg := vproto.Safe(func() { now = dumpOf(shadow) }); msg != "" || now != shadowDump {
			// reported in place of the last step (the judge reads one step per reported operation)
			res = res[:lastStep] + " | panic another-tree-built-before-this-history-(3-inserts,-never-touched-again)-was-changed-by-the-operations-of-this-history"
		}
	}
	out.WriteString(res)
	out.WriteString("\n")
	out.Flush()
}

func main() {
	if len(os.Args) < 2 {
		fmt.Fprintln(os.Stderr, "usage: c11 gen --seed S --tier T | impl")
		os.Exit(2)
	}
	switch os.Args[1] {
	case "gen":
		seed, tier := vproto.SeedTier(os.Args[2:])
		w := bufio.NewWriter(os.Stdout)
		defer w.Flush()
		for _, h := range rtwire.Gen(seed, tier) {
			fmt.Fprintln(w, h.String())
		}
	case "impl":
		vproto.Lines(runHist)
	case "extract":
		extractMain(os.Args[2:])
	case "skeleton":
		skeletonMain(os.Args[2:])
	default:
		os.Exit(2)
	}
}
