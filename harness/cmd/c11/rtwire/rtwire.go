// Package rtwire is shared by the C11 and C12 harnesses: the object pools (pointer objects,
// geom.Point values, *geom.Bounds), the history line format, the whole-tree dump through the
// `verif` hook of index/rtree, and the history generators.
//
//	H <class> <min> <max> <kind> P <n> <box>*n O <m> (I<id>|D<id>)*m Q <nq> <box>*nq [K ...]
//	number := decimal integer | 'x' + 16 hex digits (IEEE-754 pattern) when not an integer
package rtwire

import (
	"fmt"
	"math"
	"strconv"
	"strings"

	"github.com/ctessum/geom"
	"github.com/ctessum/geom/index/rtree"
	"github.com/ctessum/geom/proj"

	"verif/harness/vproto"
)

// Num renders a float exactly: integers in decimal, anything else as its bit pattern.
func Num(f float64) string {
	if f == math.Trunc(f) && math.Abs(f) < 1<<53 {
		return strconv.FormatInt(int64(f), 10)
	}
	return "x" + vproto.F2H(f)
}

func ParseNum(s string) float64 {
	if strings.HasPrefix(s, "x") {
		f, err := vproto.H2F(s[1:])
		if err != nil {
			panic(err)
		}
		return f
	}
	n, err := strconv.ParseInt(s, 10, 64)
	if err != nil {
		panic(err)
	}
	return float64(n)
}

type Box struct{ MinX, MinY, MaxX, MaxY float64 }

func (b Box) String() string {
	return Num(b.MinX) + " " + Num(b.MinY) + " " + Num(b.MaxX) + " " + Num(b.MaxY)
}
func (b Box) Bounds() *geom.Bounds {
	return &geom.Bounds{Min: geom.Point{X: b.MinX, Y: b.MinY}, Max: geom.Point{X: b.MaxX, Y: b.MaxY}}
}
func BoundsStr(b *geom.Bounds) string {
	return Num(b.Min.X) + " " + Num(b.Min.Y) + " " + Num(b.Max.X) + " " + Num(b.Max.Y)
}

// PObj is the pointer-object kind: compared by pointer identity.
type PObj struct {
	B  *geom.Bounds
	ID int
}

func (p *PObj) Bounds() *geom.Bounds                            { return p.B }
func (p *PObj) Similar(g geom.Geom, tol float64) bool           { return p.B.Similar(g, tol) }
func (p *PObj) Len() int                                        { return p.B.Len() }
func (p *PObj) Points() func() geom.Point                       { return p.B.Points() }
func (p *PObj) Transform(t proj.Transformer) (geom.Geom, error) { return p.B.Transform(t) }

// Op is an Insert (default), a Delete (Del) or, in C12 lines, the query KQs[ID] (Qry).
type Op struct {
	Del bool
	ID  int
	Qry bool
	// Silent (C11 only; wire: lower-case i<id> / d<id>): the operation is performed but no step
	// (dump, Size, Depth, answers) is reported for it - used to reach thousands of stored objects.
	Silent bool
}

type KQ struct {
	X, Y float64
	K    int
}

type Hist struct {
	Class    string
	Min, Max int
	Kind     string // ptr | pt | bnd
	Pool     []Box
	Ops      []Op
	Queries  []Box
	KQs      []KQ
	Scale    float64 // generator only (not on the wire): the coordinate unit of the pool
}

func (h *Hist) String() string {
	var b strings.Builder
	fmt.Fprintf(&b, "H %s %d %d %s P %d", h.Class, h.Min, h.Max, h.Kind, len(h.Pool))
	for _, x := range h.Pool {
		b.WriteString(" " + x.String())
	}
	fmt.Fprintf(&b, " O %d", len(h.Ops))
	for _, o := range h.Ops {
		if o.Qry {
			fmt.Fprintf(&b, " Q%d", o.ID)
		} else if o.Del && o.Silent {
			fmt.Fprintf(&b, " d%d", o.ID)
		} else if o.Silent {
			fmt.Fprintf(&b, " i%d", o.ID)
		} else if o.Del {
			fmt.Fprintf(&b, " D%d", o.ID)
		} else {
			fmt.Fprintf(&b, " I%d", o.ID)
		}
	}
	fmt.Fprintf(&b, " Q %d", len(h.Queries))
	for _, q := range h.Queries {
		b.WriteString(" " + q.String())
	}
	if h.KQs != nil {
		fmt.Fprintf(&b, " K %d", len(h.KQs))
		for _, q := range h.KQs {
			fmt.Fprintf(&b, " %s %s %d", Num(q.X), Num(q.Y), q.K)
		}
	}
	return b.String()
}

func pbox(p *vproto.Parser) Box {
	return Box{ParseNum(p.Next()), ParseNum(p.Next()), ParseNum(p.Next()), ParseNum(p.Next())}
}

func Parse(line string) *Hist {
	p := vproto.NewParser(line)
	h := &Hist{}
	if p.Next() != "H" {
		panic("not a history line")
	}
	h.Class = p.Next()
	h.Min, h.Max = p.Int(), p.Int()
	h.Kind = p.Next()
	if p.Next() != "P" {
		panic("P expected")
	}
	n := p.Int()
	for i := 0; i < n; i++ {
		h.Pool = append(h.Pool, pbox(p))
	}
	if p.Next() != "O" {
		panic("O expected")
	}
	m := p.Int()
	for i := 0; i < m; i++ {
		s := p.Next()
		id, err := strconv.Atoi(s[1:])
		if err != nil {
			panic(err)
		}
		h.Ops = append(h.Ops, Op{Del: s[0] == 'D' || s[0] == 'd', ID: id, Qry: s[0] == 'Q', Silent: s[0] == 'i' || s[0] == 'd'})
	}
	if p.Next() != "Q" {
		panic("Q expected")
	}
	nq := p.Int()
	for i := 0; i < nq; i++ {
		h.Queries = append(h.Queries, pbox(p))
	}
	if !p.Done() && p.Next() == "K" {
		nk := p.Int()
		h.KQs = []KQ{}
		for i := 0; i < nk; i++ {
			x, y := ParseNum(p.Next()), ParseNum(p.Next())
			h.KQs = append(h.KQs, KQ{x, y, p.Int()})
		}
	}
	return h
}

// Objects builds the Go objects of the pool and the reverse map object -> pool index.
func (h *Hist) Objects() ([]geom.Geom, map[geom.Geom]int) {
	objs := make([]geom.Geom, len(h.Pool))
	ids := map[geom.Geom]int{}
	for i, b := range h.Pool {
		k := h.Kind
		if k == "mix" { // all three dynamic types in one tree (== between different types is false)
			k = []string{"ptr", "bnd", "pt"}[i%3]
		}
		switch k {
		case "pt":
			objs[i] = geom.Point{X: b.MinX, Y: b.MinY}
		case "bnd":
			objs[i] = b.Bounds()
		default:
			objs[i] = &PObj{B: b.Bounds(), ID: i}
		}
		ids[objs[i]] = i
	}
	return objs, ids
}

func b01(b bool) string {
	if b {
		return "1"
	}
	return "0"
}

// Dump renders the snapshot of the hook.
func Dump(b *strings.Builder, n *rtree.VerifNode, ids map[geom.Geom]int) {
	if n == nil {
		b.WriteString(" NILNODE")
		return
	}
	if n.Truncated {
		b.WriteString(" TRUNC")
		return
	}
	fmt.Fprintf(b, " N %d %s %s %d", n.Level, b01(n.Leaf), b01(n.ParentOK), len(n.Entries))
	for _, e := range n.Entries {
		bb := "nb"
		if e.HasBB {
			bb = BoundsStr(&e.BB)
		}
		switch {
		case e.Child != nil && e.Obj == nil:
			b.WriteString(" c " + bb)
			Dump(b, e.Child, ids)
		case e.Child == nil && e.Obj != nil:
			if id, ok := ids[e.Obj]; ok {
				fmt.Fprintf(b, " o %d %s", id, bb)
			} else {
				b.WriteString(" oforeign " + bb)
			}
		case e.Child == nil:
			b.WriteString(" z " + bb)
		default:
			b.WriteString(" both " + bb)
		}
	}
}

func IDs(b *strings.Builder, res []geom.Geom, ids map[geom.Geom]int) {
	fmt.Fprintf(b, " %d", len(res))
	for _, g := range res {
		if g == nil {
			b.WriteString(" nil")
		} else if id, ok := ids[g]; ok {
			fmt.Fprintf(b, " %d", id)
		} else {
			b.WriteString(" foreign")
		}
	}
}
