package rtwire

import (
	"fmt"
	"math"

	"verif/harness/vproto"
)

var Params = [][2]int{{2, 4}, {2, 5}, {3, 6}, {3, 7}, {4, 8}, {25, 50}, {2, 3}}
var Kinds = []string{"ptr", "pt", "bnd"}

// WideParams (C11 only): fan-outs above 64 and 128, so that single nodes hold 65..130 entries
// (index- or count-dependent behaviour at 64/128 inside one node is exercised).
var WideParams = [][2]int{{2, 70}, {33, 66}, {40, 130}, {64, 129}}

// builder of one history; `present` is the multiset of stored ids as a list
type hb struct {
	r       *vproto.Rng
	h       *Hist
	present []int
	maxOps  int
	lattice bool
}

func (b *hb) full() bool { return len(b.h.Ops) >= b.maxOps }
func (b *hb) ins(id int) {
	if b.full() {
		return
	}
	b.h.Ops = append(b.h.Ops, Op{ID: id})
	b.present = append(b.present, id)
}
func (b *hb) del(id int) {
	if b.full() {
		return
	}
	b.h.Ops = append(b.h.Ops, Op{Del: true, ID: id})
	for i, p := range b.present {
		if p == id {
			b.present = append(b.present[:i], b.present[i+1:]...)
			break
		}
	}
}
func (b *hb) has(id int) bool {
	for _, p := range b.present {
		if p == id {
			return true
		}
	}
	return false
}
func (b *hb) fresh() int { // an id that is not stored (falls back to any id)
	n := len(b.h.Pool)
	s := b.r.Intn(n)
	for i := 0; i < n; i++ {
		if !b.has((s + i) % n) {
			return (s + i) % n
		}
	}
	return s
}

// pool layouts
// Scales: dyadic coordinate units (exact in float64 and Rat). Sub-unit scales make all
// distances < 1 (where d^2 < d), scales > 1 make areas large.
var Scales = []float64{1, 1, 1, 0.5, 1.0 / 8, 1.0 / 64, 1.0 / 1024, 16}

// BigScales: units beyond the float32 range (2^128) but with squares far inside float64
// (coordinates stay below 2^500, squared distances below 2^1001); exact in float64 and Rat.
var BigScales = []float64{0x1p100, 0x1p127, 0x1p128, 0x1p130, 0x1p200, 0x1p400}

func makePool(r *vproto.Rng, kind string, n int, layout int, sc float64) []Box {
	pool := make([]Box, 0, n)
	seen := map[[2]float64]bool{}
	cx := []float64{15, 80, 50}
	cy := []float64{20, 30, 85}
	for len(pool) < n {
		var x, y float64
		switch layout {
		case 0: // uniform
			x, y = float64(r.Range(0, 100)), float64(r.Range(0, 100))
		case 1: // three clusters
			c := r.Intn(3)
			x, y = cx[c]+float64(r.Range(-8, 8)), cy[c]+float64(r.Range(-8, 8))
		case 2: // diagonal line
			x = float64(len(pool) * 3)
			y = x + float64(r.Range(0, 2))
		case 3: // small grid with many coincidences
			x, y = float64(r.Range(0, 3)*10), float64(r.Range(0, 3)*10)
		case 5: // jittered lattice (with sc = 1/1024: inside the unit square)
			x, y = float64(r.Range(0, 8)*128+r.Range(-24, 24)), float64(r.Range(0, 8)*128+r.Range(-24, 24))
		default: // two far groups
			if r.Bool() {
				x, y = float64(r.Range(0, 10)), float64(r.Range(0, 10))
			} else {
				x, y = float64(r.Range(900, 910)), float64(r.Range(900, 910))
			}
		}
		x, y = x*sc, y*sc
		var bx Box
		if kind == "pt" {
			if seen[[2]float64{x, y}] { // equal Points are the same object: keep ids distinct
				x += float64(len(pool)) * 101 * sc
				if seen[[2]float64{x, y}] {
					continue
				}
			}
			seen[[2]float64{x, y}] = true
			bx = Box{x, y, x, y}
		} else {
			wmax := 12
			if layout == 5 {
				wmax = 90
			}
			w, hgt := float64(r.Range(0, wmax))*sc, float64(r.Range(0, wmax))*sc
			switch r.Intn(8) {
			case 0:
				w = 0
			case 1:
				hgt = 0
			case 2:
				w, hgt = 0, 0
			}
			bx = Box{x, y, x + w, y + hgt}
			if len(pool) > 0 && r.Chance(0.12) { // coincident box, different object
				bx = pool[r.Intn(len(pool))]
			}
		}
		pool = append(pool, bx)
	}
	return pool
}

func (b *hb) grow(k int) {
	for i := 0; i < k; i++ {
		if b.r.Chance(0.06) && len(b.present) > 0 {
			b.ins(b.present[b.r.Intn(len(b.present))]) // duplicate of a stored object
		} else {
			b.ins(b.fresh())
		}
	}
}
func (b *hb) drain(order int, keep int) {
	for len(b.present) > keep && !b.full() {
		var id int
		switch order {
		case 0:
			id = b.present[0]
		case 1:
			id = b.present[len(b.present)-1]
		default:
			id = b.present[b.r.Intn(len(b.present))]
		}
		b.del(id)
	}
}
func (b *hb) churn(k int, pIns float64) {
	for i := 0; i < k; i++ {
		switch {
		case b.r.Chance(0.08):
			b.del(b.fresh()) // absent object
		case len(b.present) == 0 || b.r.Chance(pIns):
			b.grow(1)
		default:
			b.del(b.present[b.r.Intn(len(b.present))])
		}
	}
}
func (b *hb) boundary(k int) {
	for i := 0; i < k; i++ {
		id := b.fresh()
		b.ins(id)
		switch b.r.Intn(3) {
		case 0:
			b.del(id)
		case 1:
			if len(b.present) > 0 {
				b.del(b.present[0])
			}
		default:
			if len(b.present) > 0 {
				b.del(b.present[b.r.Intn(len(b.present))])
			}
		}
	}
}

// delete every stored object whose box lies inside the region (a spatially close group is a subtree)
func (b *hb) regionDelete(q Box) {
	var ids []int
	for _, id := range b.present {
		x := b.h.Pool[id]
		if x.MinX >= q.MinX && x.MaxX <= q.MaxX && x.MinY >= q.MinY && x.MaxY <= q.MaxY {
			ids = append(ids, id)
		}
	}
	for _, id := range ids {
		b.del(id)
	}
}

func (b *hb) queries(n int) {
	r := b.r
	pool := b.h.Pool
	sc := b.h.Scale
	ext := 100.0
	if b.lattice {
		ext = 1100
	}
	w := 1e6
	if sc > 1 {
		w *= sc
	}
	qs := []Box{{-w, -w, w, w}}
	for len(qs) < n {
		o := pool[r.Intn(len(pool))]
		switch r.Intn(9) {
		case 0: // point query at a corner of an object
			qs = append(qs, Box{o.MaxX, o.MaxY, o.MaxX, o.MaxY})
		case 1: // touching at the corner from outside
			qs = append(qs, Box{o.MaxX, o.MaxY, o.MaxX + 5*sc, o.MaxY + 5*sc})
		case 2: // touching along the left edge
			qs = append(qs, Box{o.MinX - 4*sc, o.MinY - sc, o.MinX, o.MaxY + sc})
		case 3: // just missing (one unit off)
			qs = append(qs, Box{o.MaxX + sc, o.MinY, o.MaxX + 3*sc, o.MaxY})
		case 4: // horizontal line
			qs = append(qs, Box{o.MinX - 20*sc, o.MinY, o.MaxX + 20*sc, o.MinY})
		case 5: // disjoint from everything
			qs = append(qs, Box{-500 * sc, -500 * sc, -400 * sc, -400 * sc})
		case 6: // the object's own box
			qs = append(qs, o)
		default:
			x, y := float64(r.Range(-5, int(ext)))*sc, float64(r.Range(-5, int(ext)))*sc
			qs = append(qs, Box{x, y, x + float64(r.Range(0, int(ext*2/5)))*sc, y + float64(r.Range(0, int(ext*2/5)))*sc})
		}
	}
	b.h.Queries = qs
}

// GenHist builds one history. phase selects the shape; size scales the number of operations.
func GenHist(r *vproto.Rng, phase int, par [2]int, kind string, size int, nq int) *Hist {
	return genHistScale(r, phase, par, kind, size, nq, 0)
}

// ExtremeScales: coordinate units at which the heuristics' areas (products of two side lengths)
// overflow to +Inf (and their differences to NaN) or underflow to 0, while every coordinate, every
// comparison of coordinates and hence every envelope stays exact.  2^511/2^512: areas around
// MaxFloat64 (some finite, some +Inf in one tree).
var ExtremeScales = []float64{0x1p600, 0x1p700, 0x1p900, 0x1p511, 0x1p512, 0x1p506, 0x1p-600, 0x1p-1000, 0x1p-530}

// GenExtreme: a GenHist history at an extreme coordinate unit; with `mixed` a random half of the pool
// is rescaled by 2^-600 (finite and overflowing areas in the same node: Inf-Inf = NaN in chooseNode,
// pickSeeds, pickNext, assignGroup).  The float heuristics then differ from the exact-Rat model, so
// the class carries "specOnly": judged by the Spec alone (C11_anyArith_inRange: the invariants hold
// for ANY evaluation of the heuristic arithmetic).
func GenExtreme(r *vproto.Rng, phase int, par [2]int, kind string, size int) *Hist {
	sc := ExtremeScales[r.Intn(len(ExtremeScales))]
	mixed := r.Chance(0.35)
	h := genHistScale(r, phase, par, kind, size, 5, sc)
	if mixed {
		f := 0x1p-600
		if sc < 1 {
			f = 0x1p600
		}
		for i := range h.Pool {
			if r.Bool() {
				b := h.Pool[i]
				h.Pool[i] = Box{b.MinX * f, b.MinY * f, b.MaxX * f, b.MaxY * f}
			}
		}
		for i := 1; i < len(h.Queries); i += 2 {
			b := h.Queries[i]
			h.Queries[i] = Box{b.MinX * f, b.MinY * f, b.MaxX * f, b.MaxY * f}
		}
	}
	tag := "ovf"
	if sc < 1 {
		tag = "unf"
	}
	if mixed {
		tag += "mix"
	}
	h.Class = "extreme-specOnly-" + tag + "-" + h.Class
	return h
}

// GenMixed: a GenHist history whose pool holds pointer objects, *geom.Bounds and geom.Point values
// side by side (kind "mix": object i has kind i%3; the Point objects get the degenerate box at the
// lower-left corner of their pool box, kept pairwise distinct because equal Points are one object).
func GenMixed(r *vproto.Rng, phase int, par [2]int, size int) *Hist {
	h := GenHist(r, phase, par, "ptr", size, 5)
	h.Kind = "mix"
	seen := map[[2]float64]bool{}
	for i := range h.Pool {
		if i%3 != 2 {
			continue
		}
		x, y := h.Pool[i].MinX, h.Pool[i].MinY
		for k := 1; seen[[2]float64{x, y}]; k++ {
			x = h.Pool[i].MinX + float64(k*(i+1))*101*h.Scale
		}
		seen[[2]float64{x, y}] = true
		h.Pool[i] = Box{x, y, x, y}
	}
	h.Class = "mix-" + h.Class
	return h
}

// GenLarge: `n` silent inserts (no step reported), then reported operations on the big tree: inserts,
// deletes of stored objects (root-to-leaf condense on a deep tree), deletes of absent objects, a
// duplicate; whole-plane and window queries return more than 1024 / 2048 objects.
func GenLarge(r *vproto.Rng, par [2]int, kind string, n int) *Hist {
	h := &Hist{Min: par[0], Max: par[1], Kind: kind, Scale: 1}
	seen := map[[2]float64]bool{}
	for len(h.Pool) < n+8 {
		x, y := float64(r.Range(0, 4000)), float64(r.Range(0, 4000))
		if seen[[2]float64{x, y}] {
			continue
		}
		seen[[2]float64{x, y}] = true
		bx := Box{x, y, x, y}
		if kind != "pt" {
			bx = Box{x, y, x + float64(r.Range(0, 30)), y + float64(r.Range(0, 30))}
		}
		h.Pool = append(h.Pool, bx)
	}
	for i := 0; i < n; i++ {
		h.Ops = append(h.Ops, Op{ID: i, Silent: true})
	}
	// a block of silent deletes in the middle (condense / re-insert on the big tree)
	for i := 0; i < n/8; i++ {
		h.Ops = append(h.Ops, Op{Del: true, ID: r.Intn(n), Silent: true})
	}
	h.Ops = append(h.Ops, Op{ID: n}, Op{ID: n + 1}, Op{Del: true, ID: n + 5}, Op{Del: true, ID: n}, Op{ID: 3},
		Op{Del: true, ID: r.Intn(n)}, Op{Del: true, ID: n + 1}, Op{ID: n + 2})
	h.Queries = []Box{{-1e6, -1e6, 1e6, 1e6}, {0, 0, 2000, 4100}, {1000, 1000, 1100, 1100}, {4031, 4031, 5000, 5000}, {-5, -5, -1, -1}}
	h.Class = fmt.Sprintf("large%d-%s-m%dM%d", n, kind, par[0], par[1])
	return h
}

// GenFan: an INTERNAL node with more than 128 children out of a few hundred objects.  The points
// p_i = (2^-i, 2^-i) are inserted in the order i = 0, 1, 2, ...: at every leaf split pickSeeds takes the two extreme
// points, everything else needs far less enlargement on the side of the cluster near 0, so the split is as unbalanced
// as MinChildren allows, the big group keeps receiving the new points and the root gains a new MinChildren-entry leaf
// every MinChildren insertions.  `silent` inserts build the tree, then reported operations (each with the full dump
// and the query batch) push the root across 128 / 129 / 130 children and through its split (height 3), delete stored
// objects below root entries with index >= 128 (leaf underflow: the root's entry list is filtered and the orphan
// re-inserted), delete absent objects and insert again.  Differences such as 2^-1 - 2^-130 are not exact in float64,
// so the class carries "specOnly" (judged by the Spec alone).
func GenFan(par [2]int, kind string, silent int, reported int) *Hist {
	h := &Hist{Min: par[0], Max: par[1], Kind: kind, Scale: 1}
	n := silent + reported + 4
	for i := 0; i < n; i++ {
		c := math.Ldexp(1, -i)
		h.Pool = append(h.Pool, Box{c, c, c, c})
	}
	for i := 0; i < silent; i++ {
		h.Ops = append(h.Ops, Op{ID: i, Silent: true})
	}
	for i := silent; i < silent+reported; i++ {
		h.Ops = append(h.Ops, Op{ID: i})
		switch (i - silent) % 5 {
		case 1: // a stored object in a leaf below a root entry with index around 128 (leaf k holds the ids Min*(k-1)...)
			h.Ops = append(h.Ops, Op{Del: true, ID: par[0]*127 + (i-silent)/5})
		case 4: // ... and one a little further to the right, and one from the big cluster
			h.Ops = append(h.Ops, Op{Del: true, ID: par[0]*129 + (i-silent)/5}, Op{Del: true, ID: i - 7})
		case 2: // an absent object
			h.Ops = append(h.Ops, Op{Del: true, ID: n - 1})
		case 3: // an early object (root entry with a small index), re-inserted
			h.Ops = append(h.Ops, Op{Del: true, ID: (i - silent) * 3}, Op{ID: (i - silent) * 3})
		}
	}
	lo := math.Ldexp(1, -(silent - 4))
	h.Queries = []Box{{-1, -1, 2, 2}, {lo, lo, lo, lo}, {0, 0, math.Ldexp(1, -(silent - 30)), 1}, {-5, -5, -1, -1},
		{math.Ldexp(1, -3), math.Ldexp(1, -3), math.Ldexp(1, -3), math.Ldexp(1, -3)}, {0, 0, 0, 0}}
	h.Class = fmt.Sprintf("fan%d-specOnly-%s-m%dM%d", silent, kind, par[0], par[1])
	return h
}

// CorpusExtreme: fixed overflow histories (C11 only; not part of Corpus(), which C12 shares).
func CorpusExtreme() []*Hist {
	var hs []*Hist
	s := 0x1p600
	w := 0x1p700
	for _, par := range [][2]int{{2, 4}, {2, 3}, {3, 6}} {
		for _, kind := range []string{"pt", "ptr", "bnd"} {
			// points on the diagonal at unit 2^600: the sixth Insert is the first chooseNode on a
			// non-leaf root; every enlargement is +Inf or NaN (failing input of fix a6a6e32)
			var pool []Box
			var ops []Op
			n := 3*par[1] + 2
			for i := 0; i < n; i++ {
				x := float64(i) * s
				bx := Box{x, x, x, x}
				if kind != "pt" && i%3 == 1 {
					bx = Box{x, x, x + s, x + 2*s}
				}
				pool = append(pool, bx)
				ops = append(ops, Op{ID: i})
			}
			for i := 0; i < n; i += 2 {
				ops = append(ops, Op{Del: true, ID: i})
			}
			for i := 0; i < n; i += 4 {
				ops = append(ops, Op{ID: i})
			}
			hs = append(hs, &Hist{Class: "corpus-extreme-specOnly-overflow", Min: par[0], Max: par[1], Kind: kind, Pool: pool, Ops: ops,
				Queries: []Box{{-w, -w, w, w}, {s, s, s, s}, {2 * s, 0, 2 * s, w}, {-s, -s, -1, -1}, {0, 0, 0, 0}}})
		}
	}
	return hs
}

func genHistScale(r *vproto.Rng, phase int, par [2]int, kind string, size int, nq int, scOverride float64) *Hist {
	h := &Hist{Min: par[0], Max: par[1], Kind: kind}
	layout := r.Intn(6)
	sc := Scales[r.Intn(len(Scales))]
	if r.Chance(0.22) {
		sc = BigScales[r.Intn(len(BigScales))]
	}
	if layout == 5 {
		sc = 1.0 / 1024
	}
	if scOverride != 0 {
		sc = scOverride
	}
	h.Scale = sc
	big := par[1] >= 50
	n := size
	if big {
		n = size * 3
		if n < 70 {
			n = 70
		}
	}
	h.Pool = makePool(r, kind, n+4, layout, sc)
	b := &hb{r: r, h: h, maxOps: 6 * n, lattice: layout == 5}
	names := []string{"drain", "boundary", "region", "churn", "dups", "absent"}
	switch phase {
	case 0: // grow -> drain to empty -> refill
		b.grow(n)
		b.drain(r.Intn(3), 0)
		b.del(b.fresh())
		b.grow(n/2 + 1)
		if r.Bool() {
			b.drain(r.Intn(3), 0)
			b.grow(3)
		}
	case 1: // alternate insert/delete at the capacity boundary
		k := par[1] * (1 + r.Intn(3))
		if r.Bool() {
			k = par[1]*par[1] + r.Intn(2)
			if big {
				k = par[1] + r.Intn(2)
			}
		}
		if k > n {
			k = n
		}
		b.grow(k)
		b.boundary(n/2 + 2)
		b.drain(2, par[0])
		b.boundary(4)
	case 2: // delete everything under one internal node
		b.grow(n)
		var q Box
		switch layout {
		case 1:
			q = Box{0, 0, 40, 60}
		case 4:
			q = Box{800, 800, 1000, 1000}
		case 5:
			x, y := float64(r.Range(0, 500)), float64(r.Range(0, 500))
			q = Box{x, y, x + 600, y + 600}
		default:
			x, y := float64(r.Range(0, 50)), float64(r.Range(0, 50))
			q = Box{x, y, x + 50, y + 50}
		}
		q = Box{q.MinX * sc, q.MinY * sc, q.MaxX * sc, q.MaxY * sc}
		b.regionDelete(q)
		b.grow(n / 3)
		all := 1e6
		if sc > 1 {
			all *= sc
		}
		b.regionDelete(Box{-all, -all, all, all})
		b.grow(2)
	case 3: // random mix
		b.churn(3*n, 0.55+0.3*r.Float())
		b.churn(2*n, 0.3)
	case 4: // duplicates of few objects
		for i := 0; i < 2*n && !b.full(); i++ {
			id := r.Intn(3)
			if r.Chance(0.6) {
				b.ins(id)
			} else {
				b.del(id)
			}
		}
		b.drain(2, 0)
	default: // deletes of absent objects in every state
		b.del(0)
		b.grow(n / 2)
		for i := 0; i < 6; i++ {
			b.del(b.fresh())
		}
		b.drain(2, len(b.present)/2)
		for i := 0; i < 4; i++ {
			b.del(b.fresh())
		}
		b.drain(0, 0)
		b.del(0)
	}
	b.queries(nq)
	h.Class = fmt.Sprintf("%s-%s-m%dM%d", names[phase%len(names)], kind, par[0], par[1])
	return h
}

// GenNonDyadic: boxes and queries on the k/10, k/7 or k/3 grid as float64 values (NOT exactly
// representable: the Lean side uses the exact dyadic value of every float, so "touching" means
// bit-equal coordinates, which is guaranteed here by computing every coordinate as float64(k)/d from
// its integer k).  The heuristics' areas are inexact in float64, so the tree may differ from the
// exact-Rat model by tie-breaking: the class name carries "specOnly" and the judge evaluates only the
// Spec (search = brute force on exact values, WF incl. exact envelopes on the dumped boxes, Size,
// Depth, Delete results) for this family.
func GenNonDyadic(r *vproto.Rng, par [2]int, kind string, size int) *Hist {
	d := []float64{10, 7, 3, 10}[r.Intn(4)]
	v := func(k int) float64 { return float64(k) / d }
	h := &Hist{Min: par[0], Max: par[1], Kind: kind, Scale: 1 / d}
	span := 12 + r.Intn(20)
	seen := map[[2]int]bool{}
	type ib struct{ x, y, w, hh int }
	var ibs []ib
	for len(h.Pool) < size+4 {
		x, y := r.Range(0, span), r.Range(0, span)
		w, hh := r.Range(0, 4), r.Range(0, 4)
		if kind == "pt" {
			if seen[[2]int{x, y}] {
				continue
			}
			seen[[2]int{x, y}] = true
			w, hh = 0, 0
		}
		if len(ibs) > 0 && r.Chance(0.35) { // touch an earlier box along an edge or at a corner
			o := ibs[r.Intn(len(ibs))]
			switch r.Intn(4) {
			case 0:
				x, y = o.x+o.w, o.y
			case 1:
				x, y = o.x+o.w, o.y+o.hh
			case 2:
				x, y = o.x, o.y+o.hh
			default:
				x, y = o.x-w, o.y
			}
			if kind == "pt" && seen[[2]int{x, y}] {
				continue
			}
			seen[[2]int{x, y}] = true
		}
		ibs = append(ibs, ib{x, y, w, hh})
		h.Pool = append(h.Pool, Box{v(x), v(y), v(x + w), v(y + hh)})
	}
	b := &hb{r: r, h: h, maxOps: 5 * size}
	b.grow(size)
	b.churn(size, 0.4)
	b.grow(size / 3)
	qs := []Box{{-1e6, -1e6, 1e6, 1e6}}
	for len(qs) < 9 {
		o := ibs[r.Intn(len(ibs))]
		switch r.Intn(7) {
		case 0: // grid cell
			x, y := r.Range(-1, span+4), r.Range(-1, span+4)
			qs = append(qs, Box{v(x), v(y), v(x + 1), v(y + 1)})
		case 1: // point on a corner
			qs = append(qs, Box{v(o.x + o.w), v(o.y + o.hh), v(o.x + o.w), v(o.y + o.hh)})
		case 2: // segment on the right border
			qs = append(qs, Box{v(o.x + o.w), v(o.y), v(o.x + o.w), v(o.y + o.hh)})
		case 3: // box touching the left edge from outside
			qs = append(qs, Box{v(o.x - 2), v(o.y - 1), v(o.x), v(o.y + o.hh + 1)})
		case 4: // box touching the top-right corner from outside
			qs = append(qs, Box{v(o.x + o.w), v(o.y + o.hh), v(o.x + o.w + 3), v(o.y + o.hh + 2)})
		case 5: // segment on the bottom border, extended
			qs = append(qs, Box{v(o.x - 1), v(o.y), v(o.x + o.w + 1), v(o.y)})
		default: // one grid step off: must NOT be reported
			qs = append(qs, Box{v(o.x + o.w + 1), v(o.y), v(o.x + o.w + 2), v(o.y + o.hh)})
		}
	}
	h.Queries = qs
	h.Class = fmt.Sprintf("nondyadic-specOnly-%s-m%dM%d", kind, par[0], par[1])
	return h
}

// Corpus returns the fixed hand-picked histories.
func Corpus() []*Hist {
	line := func(n int) []Box {
		p := make([]Box, n)
		for i := range p {
			p[i] = Box{float64(10 * i), 0, float64(10*i + 4), 4}
		}
		return p
	}
	seq := func(ops ...int) []Op { // >=0 insert id, <0 delete -(id+1)
		var o []Op
		for _, x := range ops {
			if x >= 0 {
				o = append(o, Op{ID: x})
			} else {
				o = append(o, Op{Del: true, ID: -x - 1})
			}
		}
		return o
	}
	q := []Box{{-1e6, -1e6, 1e6, 1e6}, {0, 0, 0, 0}, {4, 4, 10, 10}, {5, 5, 9, 9}}
	var hs []*Hist
	// root split, then collapse, drain to empty, refill
	hs = append(hs, &Hist{Class: "corpus-collapse", Min: 2, Max: 4, Kind: "ptr", Pool: line(8),
		Ops: seq(0, 1, 2, 3, 4, -1, -2, -3, -4, -5, 5, 6, 7, 0, 1, 2), Queries: q})
	// three levels, FIFO drain
	var grow, drain []int
	for i := 0; i < 24; i++ {
		grow = append(grow, i)
		drain = append(drain, -i-1)
	}
	hs = append(hs, &Hist{Class: "corpus-drain3", Min: 2, Max: 4, Kind: "bnd", Pool: line(26),
		Ops: seq(append(append(grow, drain...), 24, 25, 0, 1, 2, 3)...), Queries: q})
	// duplicates and absent
	hs = append(hs, &Hist{Class: "corpus-dups", Min: 2, Max: 4, Kind: "ptr", Pool: line(3),
		Ops: seq(-1, 0, 0, 0, 0, 0, 0, -2, -1, -1, -1, -1, -1, -1, -1, 1), Queries: q})
	// points
	hs = append(hs, &Hist{Class: "corpus-points", Min: 2, Max: 5, Kind: "pt",
		Pool: []Box{{0, 0, 0, 0}, {1, 1, 1, 1}, {2, 2, 2, 2}, {3, 3, 3, 3}, {4, 4, 4, 4}, {5, 5, 5, 5}, {6, 6, 6, 6}},
		Ops:  seq(0, 1, 2, 3, 4, 5, 6, -4, -5, -6, -7, -1, -2, -3, 0), Queries: q})
	// three levels thinned to a root whose children are chains of single-entry nodes, drained,
	// refilled: one Delete has to take two levels off (14 fixed points, fixed deletion order)
	ins := [][2]float64{{22, 21}, {21, 15}, {14, 19}, {23, 11}, {22, 18}, {4, 29}, {18, 15}, {12, 4}, {28, 21}, {5, 24},
		{3, 12}, {15, 17}, {4, 26}, {22, 7}}
	del := [][2]float64{{22, 18}, {21, 15}, {22, 21}, {4, 29}, {3, 12}, {14, 19}, {5, 24}, {12, 4}, {28, 21}, {22, 7},
		{15, 17}, {18, 15}, {23, 11}, {4, 26}}
	for _, par := range [][2]int{{2, 4}, {2, 3}, {2, 5}} {
		for _, kind := range []string{"pt", "ptr"} {
			var pool []Box
			var ops []int
			for i, p := range ins {
				pool = append(pool, Box{p[0], p[1], p[0], p[1]})
				ops = append(ops, i)
			}
			for _, d := range del {
				for i, p := range ins {
					if p == d {
						ops = append(ops, -i-1)
					}
				}
			}
			ops = append(ops, 0, 1, 2, 3, 4, 5)
			hs = append(hs, &Hist{Class: "corpus-chain-drain-refill", Min: par[0], Max: par[1], Kind: kind, Pool: pool,
				Ops: seq(ops...), Queries: []Box{{-1e6, -1e6, 1e6, 1e6}, {10, 10, 22, 18}, {4, 26, 4, 26}}})
		}
	}
	// touching boxes at non-dyadic coordinates: [0,0.1] and [0.1,0.2]; point, segment and cell queries on the shared edge
	{
		v := func(k int) float64 { return float64(k) / 10 }
		var pool []Box
		var ops []int
		for k := 0; k < 12; k++ {
			pool = append(pool, Box{v(k), v(k % 3), v(k + 1), v(k%3 + 1)})
			ops = append(ops, k)
		}
		var qs []Box
		for k := 0; k <= 12; k++ {
			qs = append(qs, Box{v(k), v(0), v(k), v(3)})
		}
		qs = append(qs, Box{v(1), v(1), v(1), v(1)}, Box{v(3), v(0), v(4), v(1)}, Box{v(12), v(0), v(13), v(3)})
		for _, par := range [][2]int{{2, 4}, {3, 6}} {
			hs = append(hs, &Hist{Class: "corpus-nondyadic-specOnly-touching", Min: par[0], Max: par[1], Kind: "bnd", Pool: pool,
				Ops: seq(append(ops, -1, -6, 0, 5)...), Queries: qs})
		}
	}
	return hs
}

// Gen returns the histories of one run.
func Gen(seed uint64, tier string) []*Hist {
	r := vproto.NewRng(seed)
	hs := Corpus()
	n := 300
	if tier == "thorough" {
		n = 2500
	}
	for i := 0; i < n; i++ {
		par := Params[i%len(Params)]
		kind := Kinds[(i/len(Params))%len(Kinds)]
		phase := (i / 3) % 6
		size := 8 + r.Intn(40)
		if i%9 == 8 { // non-dyadic coordinates, judged by the Spec only
			hs = append(hs, GenNonDyadic(r, par, kind, 10+r.Intn(30)))
			continue
		}
		if par[1] <= 4 && i%4 == 0 { // height >= 3 with small branching, complete drain and refill
			phase = 0
			size = 12 + r.Intn(30)
		}
		if par[1] <= 5 && r.Chance(0.2) {
			size = 60 + r.Intn(40)
		}
		hs = append(hs, GenHist(r, phase, par, kind, size, 5))
	}
	// extreme coordinate units (own random stream: the histories above are unchanged)
	hs = append(hs, CorpusExtreme()...)
	rx := vproto.NewRng(seed*7919 + 11)
	nx := 20
	if tier == "thorough" {
		nx = 200
	}
	for i := 0; i < nx; i++ {
		par := Params[(i+i/len(Params))%len(Params)]
		if par[1] >= 50 && i%2 == 0 {
			par = Params[0]
		}
		hs = append(hs, GenExtreme(rx, i%6, par, Kinds[i%len(Kinds)], 8+rx.Intn(40)))
	}
	// all three object kinds in one tree
	nm := 9
	if tier == "thorough" {
		nm = 90
	}
	for i := 0; i < nm; i++ {
		hs = append(hs, GenMixed(rx, i%6, Params[(i*5+i/7)%len(Params)], 8+rx.Intn(40)))
	}
	// thousands of objects (silent inserts, then reported operations)
	hs = append(hs, GenLarge(rx, [2]int{2, 4}, "ptr", 1100), GenLarge(rx, [2]int{3, 7}, "pt", 2600),
		GenLarge(rx, [2]int{64, 129}, "bnd", 7000)) // the last: a root with more than 64 children
	if tier == "thorough" {
		hs = append(hs, GenLarge(rx, [2]int{2, 3}, "bnd", 2100), GenLarge(rx, [2]int{25, 50}, "ptr", 2600),
			GenLarge(rx, [2]int{4, 8}, "pt", 4200), GenLarge(rx, [2]int{64, 129}, "ptr", 9000))
	}
	// wide nodes
	nw := 6
	if tier == "thorough" {
		nw = 30
	}
	for i := 0; i < nw; i++ {
		h := GenHist(rx, []int{0, 3, 2, 1, 5}[i%5], WideParams[i%len(WideParams)], Kinds[i%len(Kinds)], 30+rx.Intn(25), 5)
		h.Class = "wide-" + h.Class
		hs = append(hs, h)
	}
	// internal nodes with more than 128 children (a few hundred objects each)
	hs = append(hs, GenFan([2]int{2, 130}, "pt", 378, 16), GenFan([2]int{1, 129}, "ptr", 250, 14), GenFan([2]int{2, 200}, "bnd", 452, 12))
	if tier == "thorough" {
		hs = append(hs, GenFan([2]int{3, 140}, "bnd", 520, 40), GenFan([2]int{2, 130}, "ptr", 370, 60), GenFan([2]int{1, 300}, "pt", 425, 40))
	}
	return hs
}
