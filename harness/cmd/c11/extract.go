package main

// T1 tie for C11/C12: `c11 extract --repo DIR` regenerates the Lean module GeomV.C11.Gen from the
// CURRENT index/rtree/geom.go and the pure helpers of index/rtree/rtree.go; the modules
// lean/GeomV/C11/Ties/*.lean and lean/GeomV/C12/Ties/*.lean prove `Gen.f = Model.f`, so a source
// change to one of these functions either still denotes the model's function or breaks a named
// obligation.  `c11 skeleton --repo DIR` prints the control skeleton of the structural functions
// (see skeleton.go).
//
// Translation table (Go -> Lean, all numbers exact `Rat`):
//   float64                      Rat            (`0.0`, `-1.0`, `2` are rational literals)
//   math.MaxFloat64              the parameter `big : Rat` of the generated function
//   math.Abs(x)                  ratAbs x
//   float64(x), x a number       x  (explicit conversion: the identity on values; it only forbids FMA fusion)
//   geom.Point p: p.X p.Y        structure GPt {X Y : Rat}
//   *geom.Bounds r: r.Min.X ...  Box: r.minX r.minY r.maxX r.maxY;  `var r geom.Bounds` = Box.zero
//   &r, *r                       r  (value semantics; a pointer parameter that is assigned through
//                                   becomes the RESULT of a function without results)
//   entry e: e.bb                Box;  []entry and *node (n.entries): List Box; len(x): (x.length : Int)
//   n.computeBoundingBox()       computeBoundingBox n
//   func() float64 { if c { return a }; return b }   let-bound expression, call f() = f
//   x := e, x = e, x += e        let x := ...   (shadowing)
//   r.Min.X = e                  let r := { r with minX := e }
//   if [init;] c {..} else {..}  if-then-else with the rest of the block copied into both branches
//   for i, e := range xs {..}    fold over xs.zipIdx threading the variables assigned in the body
//                                (xs may be `ys[i+1:]`); no break/continue/return inside
//   assign(e, left); return      `true`  (assignGroup decides left);  assign(e, right) = `false`
//   chooseNode                   the leading leaf/level test is left to the control skeleton; the result is the
//                                BOX of the entry recursed into: `return tree.chooseNode(chosen.child, e, level)` = chosen
// Anything else is outside the subset: the function is left out of Gen.lean and the tie that
// mentions it fails by name.

import (
	"fmt"
	"go/ast"
	"go/parser"
	"go/token"
	"math/big"
	"os"
	"path/filepath"
	"sort"
	"strings"
)

type xerr struct{ msg string }

func xfail(f string, a ...interface{}) { panic(xerr{fmt.Sprintf(f, a...)}) }

type kind string

const (
	kRat   kind = "rat"
	kProp  kind = "prop"
	kBool  kind = "bool"
	kBox   kind = "box"
	kPt    kind = "pt"
	kInt   kind = "int"
	kNat   kind = "nat"
	kBoxes kind = "boxes"
	kThunk kind = "thunk"
)

type tenv struct {
	kinds map[string]kind
}

func (e *tenv) clone() *tenv {
	n := &tenv{kinds: map[string]kind{}}
	for k, v := range e.kinds {
		n.kinds[k] = v
	}
	return n
}

var leanReserved = map[string]bool{"end": true, "from": true, "at": true, "open": true, "in": true, "do": true, "then": true,
	"fun": true, "let": true, "have": true, "show": true, "at_": true, "by": true, "with": true, "where": true, "next": true}

func lname(s string) string {
	if leanReserved[s] {
		return s + "_"
	}
	return s
}

// functions of the package that the generator knows how to call: name -> (result kind, void-mutates-first-arg)
type fsig struct {
	res     kind
	mutates bool
}

var known = map[string]fsig{}

func typeKind(t ast.Expr) kind {
	switch x := t.(type) {
	case *ast.Ident:
		switch x.Name {
		case "float64":
			return kRat
		case "bool":
			return kBool
		case "int":
			return kInt
		case "entry":
			return kBox
		}
	case *ast.StarExpr:
		if s, ok := x.X.(*ast.SelectorExpr); ok && s.Sel.Name == "Bounds" {
			return kBox
		}
		if id, ok := x.X.(*ast.Ident); ok && id.Name == "node" {
			return kBoxes
		}
	case *ast.SelectorExpr:
		switch x.Sel.Name {
		case "Point":
			return kPt
		case "Bounds":
			return kBox
		}
	case *ast.ArrayType:
		if id, ok := x.Elt.(*ast.Ident); ok && id.Name == "entry" && x.Len == nil {
			return kBoxes
		}
	}
	xfail("type outside the subset")
	return ""
}

func ratLit(v string) string {
	r, ok := new(big.Rat).SetString(v)
	if !ok {
		xfail("numeric literal %s", v)
	}
	if r.IsInt() {
		return "(" + r.Num().String() + " : Rat)"
	}
	return "(" + r.Num().String() + " / " + r.Denom().String() + " : Rat)"
}

func asB(s string, k kind) string {
	switch k {
	case kBool:
		return s
	case kProp:
		return "decide (" + s + ")"
	}
	xfail("expected a condition, got %q", s)
	return ""
}

var boxField = map[string]string{"Min.X": "minX", "Min.Y": "minY", "Max.X": "maxX", "Max.Y": "maxY"}

// selector chain as a dotted path: base identifier and field names
func selPath(x ast.Expr) (string, []string, bool) {
	switch t := x.(type) {
	case *ast.Ident:
		return t.Name, nil, true
	case *ast.SelectorExpr:
		b, p, ok := selPath(t.X)
		return b, append(p, t.Sel.Name), ok
	case *ast.ParenExpr:
		return selPath(t.X)
	case *ast.StarExpr:
		return selPath(t.X)
	case *ast.UnaryExpr:
		if t.Op == token.AND {
			return selPath(t.X)
		}
	}
	return "", nil, false
}

func (e *tenv) expr(x ast.Expr) (string, kind) {
	switch t := x.(type) {
	case *ast.ParenExpr:
		s, k := e.expr(t.X)
		return "(" + s + ")", k
	case *ast.BasicLit:
		if t.Kind == token.INT || t.Kind == token.FLOAT {
			return ratLit(t.Value), kRat
		}
		xfail("literal %s", t.Value)
	case *ast.Ident:
		switch t.Name {
		case "true", "false":
			return t.Name, kBool
		}
		k, ok := e.kinds[t.Name]
		if !ok {
			xfail("unknown identifier %s", t.Name)
		}
		return lname(t.Name), k
	case *ast.StarExpr:
		return e.expr(t.X)
	case *ast.UnaryExpr:
		switch t.Op {
		case token.AND:
			return e.expr(t.X)
		case token.SUB:
			s, k := e.expr(t.X)
			if k != kRat {
				xfail("negation of a non-number")
			}
			return "(-" + s + ")", kRat
		case token.NOT:
			s, k := e.expr(t.X)
			return "(!" + asB(s, k) + ")", kBool
		}
		xfail("unary operator %s", t.Op)
	case *ast.SelectorExpr:
		base, path, ok := selPath(t)
		if !ok {
			xfail("selector outside the subset")
		}
		if base == "math" && len(path) == 1 && path[0] == "MaxFloat64" {
			return "big", kRat
		}
		k, okk := e.kinds[base]
		if !okk {
			xfail("unknown identifier %s", base)
		}
		p := strings.Join(path, ".")
		switch k {
		case kPt:
			if p == "X" || p == "Y" {
				return lname(base) + "." + p, kRat
			}
		case kBox:
			if f, ok := boxField[p]; ok {
				return lname(base) + "." + f, kRat
			}
			if p == "bb" { // entry.bb
				return lname(base), kBox
			}
			if strings.HasPrefix(p, "bb.") {
				if f, ok := boxField[p[3:]]; ok {
					return lname(base) + "." + f, kRat
				}
			}
		case kBoxes:
			if p == "entries" {
				return lname(base), kBoxes
			}
		}
		xfail("field %s.%s outside the subset", base, p)
	case *ast.SliceExpr:
		s, k := e.expr(t.X)
		if k != kBoxes || t.High != nil || t.Max != nil || t.Low == nil {
			xfail("slice expression outside the subset")
		}
		lo, kl := e.expr(t.Low)
		if kl != kNat {
			xfail("slice bound is not a loop index expression")
		}
		return "(" + s + ".drop (" + lo + "))", kBoxes
	case *ast.CallExpr:
		switch f := t.Fun.(type) {
		case *ast.Ident:
			if k, ok := e.kinds[f.Name]; ok && k == kThunk && len(t.Args) == 0 {
				return lname(f.Name), kRat
			}
			if f.Name == "len" && len(t.Args) == 1 {
				s, k := e.expr(t.Args[0])
				if k != kBoxes {
					xfail("len of a non-list")
				}
				return "(" + s + ".length : Int)", kInt
			}
			// explicit conversion float64(x) of a float64 expression: the identity on values (it only forbids fusing
			// x into an FMA, Go spec "Floating-point operators"); the exact model has no rounding, so the argument is
			// returned unchanged.  Anything but a number inside is outside the subset.
			if _, shadowed := e.kinds["float64"]; f.Name == "float64" && len(t.Args) == 1 && !shadowed {
				s, k := e.expr(t.Args[0])
				if k != kRat {
					xfail("float64(...) of a non-number")
				}
				return s, kRat
			}
			sig, ok := known[f.Name]
			if !ok || sig.mutates {
				xfail("call of %s outside the subset", f.Name)
			}
			var as []string
			for _, a := range t.Args {
				s, _ := e.expr(a)
				as = append(as, "("+s+")")
			}
			return "(" + f.Name + " big " + strings.Join(as, " ") + ")", sig.res
		case *ast.SelectorExpr:
			if id, ok := f.X.(*ast.Ident); ok && id.Name == "math" && f.Sel.Name == "Abs" && len(t.Args) == 1 {
				s, k := e.expr(t.Args[0])
				if k != kRat {
					xfail("math.Abs of a non-number")
				}
				return "(ratAbs (" + s + "))", kRat
			}
			if f.Sel.Name == "chooseNode" && len(t.Args) == 3 { // the recursion of chooseNode: the chosen entry
				if base, path, ok := selPath(t.Args[0]); ok && len(path) == 1 && path[0] == "child" && e.kinds[base] == kBox {
					return lname(base), kBox
				}
				xfail("chooseNode recursion on something else than <entry>.child")
			}
			if f.Sel.Name == "computeBoundingBox" && len(t.Args) == 0 {
				s, k := e.expr(f.X)
				if k != kBoxes {
					xfail("computeBoundingBox of a non-node")
				}
				if _, ok := known["computeBoundingBox"]; !ok {
					xfail("computeBoundingBox is not translated")
				}
				return "(computeBoundingBox big " + s + ")", kBox
			}
		}
		xfail("call outside the subset")
	case *ast.BinaryExpr:
		l, kl := e.expr(t.X)
		r, kr := e.expr(t.Y)
		num := func(k kind) bool { return k == kRat || k == kInt || k == kNat }
		switch t.Op {
		case token.ADD, token.SUB, token.MUL, token.QUO:
			if !num(kl) || !num(kr) {
				xfail("arithmetic on non-numbers")
			}
			if t.Op == token.QUO && kl != kRat {
				xfail("integer division")
			}
			if t.Op == token.SUB && kl == kNat {
				xfail("subtraction of loop indices")
			}
			k := kl
			if kl != kr { // a literal adapts to the other side
				if _, isLit := t.Y.(*ast.BasicLit); isLit {
					r = t.Y.(*ast.BasicLit).Value
				} else if _, isLit := t.X.(*ast.BasicLit); isLit {
					l = t.X.(*ast.BasicLit).Value
					k = kr
				} else {
					xfail("mixed arithmetic %s %s", kl, kr)
				}
			}
			return "(" + l + " " + t.Op.String() + " " + r + ")", k
		case token.LSS, token.GTR, token.LEQ, token.GEQ, token.EQL, token.NEQ:
			if !num(kl) || !num(kr) {
				xfail("comparison of non-numbers")
			}
			if kl != kr {
				if b, isLit := t.Y.(*ast.BasicLit); isLit {
					r = b.Value
				} else if b, isLit := t.X.(*ast.BasicLit); isLit {
					l = b.Value
				} else {
					xfail("mixed comparison %s %s", kl, kr)
				}
			}
			op := map[token.Token]string{token.LSS: "<", token.GTR: ">", token.LEQ: "≤", token.GEQ: "≥", token.EQL: "=", token.NEQ: "≠"}[t.Op]
			return l + " " + op + " " + r, kProp
		case token.LAND:
			return "(" + asB(l, kl) + " && " + asB(r, kr) + ")", kBool
		case token.LOR:
			return "(" + asB(l, kl) + " || " + asB(r, kr) + ")", kBool
		}
		xfail("operator %s", t.Op)
	}
	xfail("expression %T outside the subset", x)
	return "", ""
}

func (e *tenv) cond(x ast.Expr) string {
	s, k := e.expr(x)
	if k != kProp && k != kBool {
		xfail("condition is not boolean")
	}
	return s
}

// what a block evaluates to when control reaches its end / a bare `return`
type fin func(e *tenv) string

// variables assigned (not declared) in a statement list that exist in the enclosing environment
func assigned(ss []ast.Stmt, outer *tenv, acc map[string]bool) {
	for _, s := range ss {
		switch t := s.(type) {
		case *ast.AssignStmt:
			if t.Tok != token.DEFINE {
				for _, l := range t.Lhs {
					if b, _, ok := selPath(l); ok {
						if _, ok := outer.kinds[b]; ok {
							acc[b] = true
						}
					}
				}
			}
		case *ast.ExprStmt:
			if c, ok := t.X.(*ast.CallExpr); ok {
				if id, ok := c.Fun.(*ast.Ident); ok && known[id.Name].mutates && len(c.Args) > 0 {
					if b, _, ok := selPath(c.Args[0]); ok {
						if _, ok := outer.kinds[b]; ok {
							acc[b] = true
						}
					}
				}
			}
		case *ast.IfStmt:
			assigned(t.Body.List, outer, acc)
			switch el := t.Else.(type) {
			case *ast.BlockStmt:
				assigned(el.List, outer, acc)
			case *ast.IfStmt:
				assigned([]ast.Stmt{el}, outer, acc)
			}
		case *ast.RangeStmt:
			assigned(t.Body.List, outer, acc)
		case *ast.BlockStmt:
			assigned(t.List, outer, acc)
		}
	}
}

func (e *tenv) stmts(ss []ast.Stmt, ind string, atEnd fin, inLoop bool) string {
	if len(ss) == 0 {
		return ind + atEnd(e)
	}
	rest := ss[1:]
	let := func(name string, k kind, v string) string {
		e2 := e.clone()
		e2.kinds[name] = k
		return ind + "let " + lname(name) + " := " + v + "\n" + e2.stmts(rest, ind, atEnd, inLoop)
	}
	switch t := ss[0].(type) {
	case *ast.ReturnStmt:
		if inLoop {
			xfail("return inside a loop")
		}
		switch len(t.Results) {
		case 0:
			return ind + atEnd(e)
		case 1:
			s, k := e.expr(t.Results[0])
			if k == kProp {
				s = "decide (" + s + ")"
			}
			return ind + s
		case 2:
			a, _ := e.expr(t.Results[0])
			b, _ := e.expr(t.Results[1])
			return ind + "(" + a + ", " + b + ")"
		}
		xfail("return arity")
	case *ast.BranchStmt:
		xfail("%s outside the subset", t.Tok)
	case *ast.DeclStmt:
		gd, ok := t.Decl.(*ast.GenDecl)
		if !ok || gd.Tok != token.VAR || len(gd.Specs) != 1 {
			xfail("declaration outside the subset")
		}
		vs := gd.Specs[0].(*ast.ValueSpec)
		if len(vs.Names) != 1 || len(vs.Values) != 0 || typeKind(vs.Type) != kBox {
			xfail("var declaration outside the subset")
		}
		return let(vs.Names[0].Name, kBox, "Box.zero")
	case *ast.ExprStmt:
		c, ok := t.X.(*ast.CallExpr)
		if !ok {
			xfail("expression statement")
		}
		id, ok := c.Fun.(*ast.Ident)
		if !ok {
			xfail("call statement outside the subset")
		}
		if id.Name == "assign" && len(c.Args) == 2 { // assignGroup's decision
			g, _, _ := selPath(c.Args[1])
			if len(rest) > 0 {
				if _, isRet := rest[0].(*ast.ReturnStmt); !isRet {
					xfail("assign not followed by return")
				}
			}
			switch g {
			case "left":
				return ind + "true"
			case "right":
				return ind + "false"
			}
			xfail("assign to %s", g)
		}
		sig, ok := known[id.Name]
		if !ok || !sig.mutates || len(c.Args) == 0 {
			xfail("call statement %s outside the subset", id.Name)
		}
		tgt, path, ok := selPath(c.Args[0])
		if !ok || len(path) != 0 {
			xfail("first argument of %s", id.Name)
		}
		var as []string
		for _, a := range c.Args {
			s, _ := e.expr(a)
			as = append(as, "("+s+")")
		}
		return let(tgt, kBox, id.Name+" big "+strings.Join(as, " "))
	case *ast.AssignStmt:
		intLit := func(x ast.Expr) (string, kind, bool) {
			if b, ok := x.(*ast.BasicLit); ok && b.Kind == token.INT {
				return b.Value, kNat, true
			}
			return "", "", false
		}
		if len(t.Lhs) == 2 && len(t.Rhs) == 2 && (t.Tok == token.ASSIGN || t.Tok == token.DEFINE) {
			a, ka := e.expr(t.Rhs[0])
			b, kb := e.expr(t.Rhs[1])
			if v, k, ok := intLit(t.Rhs[0]); ok {
				a, ka = "("+v+" : Nat)", k
			}
			if v, k, ok := intLit(t.Rhs[1]); ok {
				b, kb = "("+v+" : Nat)", k
			}
			n0, n1 := t.Lhs[0].(*ast.Ident).Name, t.Lhs[1].(*ast.Ident).Name
			e2 := e.clone()
			e2.kinds[n0], e2.kinds[n1] = ka, kb
			return ind + "let (" + lname(n0) + ", " + lname(n1) + ") := (" + a + ", " + b + ")\n" + e2.stmts(rest, ind, atEnd, inLoop)
		}
		if len(t.Lhs) != 1 || len(t.Rhs) != 1 {
			xfail("assignment arity")
		}
		// closure: name := func() float64 { ... }
		if fl, ok := t.Rhs[0].(*ast.FuncLit); ok && t.Tok == token.DEFINE {
			if len(fl.Type.Params.List) != 0 || fl.Type.Results == nil || len(fl.Type.Results.List) != 1 || typeKind(fl.Type.Results.List[0].Type) != kRat {
				xfail("function literal outside the subset")
			}
			body := e.clone().stmts(fl.Body.List, ind+"    ", func(*tenv) string { xfail("closure without return"); return "" }, false)
			return let(t.Lhs[0].(*ast.Ident).Name, kThunk, "(\n"+body+")")
		}
		base, path, ok := selPath(t.Lhs[0])
		if !ok {
			xfail("assignment target outside the subset")
		}
		v, kv := e.expr(t.Rhs[0])
		if kv == kProp {
			v, kv = "decide ("+v+")", kBool
		}
		if len(path) == 0 {
			switch t.Tok {
			case token.DEFINE, token.ASSIGN:
				if t.Tok == token.ASSIGN {
					if old, ok := e.kinds[base]; ok && old == kRat && kv != kRat {
						if b, isLit := t.Rhs[0].(*ast.BasicLit); isLit {
							v, kv = ratLit(b.Value), kRat
						}
					}
				}
				return let(base, kv, v)
			case token.ADD_ASSIGN:
				if e.kinds[base] != kRat || kv != kRat {
					xfail("+= on non-numbers")
				}
				return let(base, kRat, lname(base)+" + "+v)
			}
			xfail("assignment operator %s", t.Tok)
		}
		if e.kinds[base] == kBox && t.Tok == token.ASSIGN {
			if f, ok := boxField[strings.Join(path, ".")]; ok && kv == kRat {
				return let(base, kBox, "{ "+lname(base)+" with "+f+" := "+v+" }")
			}
		}
		xfail("assignment to %s.%s", base, strings.Join(path, "."))
	case *ast.IfStmt:
		e1 := e
		pre := ""
		if t.Init != nil {
			as, ok := t.Init.(*ast.AssignStmt)
			if !ok || as.Tok != token.DEFINE || len(as.Lhs) != 1 {
				xfail("if-init outside the subset")
			}
			v, kv := e.expr(as.Rhs[0])
			n := as.Lhs[0].(*ast.Ident).Name
			e1 = e.clone()
			e1.kinds[n] = kv
			pre = ind + "let " + lname(n) + " := " + v + "\n"
		}
		c := e1.cond(t.Cond)
		thenS := e1.clone().stmts(append(append([]ast.Stmt{}, t.Body.List...), rest...), ind+"  ", atEnd, inLoop)
		var elseS string
		switch el := t.Else.(type) {
		case nil:
			elseS = e1.clone().stmts(rest, ind+"  ", atEnd, inLoop)
		case *ast.BlockStmt:
			elseS = e1.clone().stmts(append(append([]ast.Stmt{}, el.List...), rest...), ind+"  ", atEnd, inLoop)
		case *ast.IfStmt:
			elseS = e1.clone().stmts(append([]ast.Stmt{el}, rest...), ind+"  ", atEnd, inLoop)
		}
		return pre + ind + "if " + c + " then\n" + thenS + "\n" + ind + "else\n" + elseS
	case *ast.RangeStmt:
		if t.Tok != token.DEFINE {
			xfail("range without :=")
		}
		xs, kx := e.expr(t.X)
		if kx != kBoxes {
			xfail("range over a non-list")
		}
		acc := map[string]bool{}
		assigned(t.Body.List, e, acc)
		var vars []string
		for v := range acc {
			vars = append(vars, v)
		}
		sort.Strings(vars)
		if len(vars) == 0 {
			xfail("loop without effect")
		}
		tuple := func() string {
			var ns []string
			for _, v := range vars {
				ns = append(ns, lname(v))
			}
			if len(ns) == 1 {
				return ns[0]
			}
			return "(" + strings.Join(ns, ", ") + ")"
		}()
		eb := e.clone()
		iv, ev := "_i", "_e"
		if id, ok := t.Key.(*ast.Ident); ok && id.Name != "_" {
			iv = lname(id.Name)
			eb.kinds[id.Name] = kNat
		}
		if t.Value != nil {
			if id, ok := t.Value.(*ast.Ident); ok && id.Name != "_" {
				ev = lname(id.Name)
				eb.kinds[id.Name] = kBox
			}
		}
		body := eb.stmts(t.Body.List, ind+"    ", func(*tenv) string { return tuple }, true)
		out := ind + "let " + tuple + " := (" + xs + ").zipIdx.foldl (fun " + tuple + " (" + ev + ", " + iv + ") =>\n" + body + ") " + tuple + "\n"
		return out + e.clone().stmts(rest, ind, atEnd, inLoop)
	}
	xfail("statement %T outside the subset", ss[0])
	return ""
}

type fspec struct {
	file, name string
	decide     bool // assignGroup: result is the group decision
	// chooseNode: the leading `if n.leaf || n.level == level { return n }` is left to the control
	// skeleton (skip = 1 statement) and the result is the BOX of the entry the function recurses into
	// (`return tree.chooseNode(chosen.child, e, level)` = `chosen`)
	skip   int
	resBox bool
}

func trFunc(fd *ast.FuncDecl, sp fspec) string {
	e := &tenv{kinds: map[string]kind{}}
	var params []string
	lt := map[kind]string{kRat: "Rat", kBool: "Bool", kBox: "Box", kPt: "GPt", kInt: "Int", kBoxes: "List Box", kNat: "Nat"}
	first := ""
	if fd.Recv != nil && !sp.resBox { // method on *node: the receiver is the list of entry boxes
		r := fd.Recv.List[0]
		e.kinds[r.Names[0].Name] = kBoxes
		params = append(params, "("+lname(r.Names[0].Name)+" : List Box)")
	}
	for _, f := range fd.Type.Params.List {
		k := typeKind(f.Type)
		for _, n := range f.Names {
			e.kinds[n.Name] = k
			params = append(params, "("+lname(n.Name)+" : "+lt[k]+")")
			if first == "" {
				first = n.Name
			}
		}
	}
	var atEnd fin
	res := ""
	switch {
	case sp.resBox:
		res = "Box"
		atEnd = func(*tenv) string { xfail("chooseNode falls off its end"); return "" }
	case sp.decide:
		res = "Bool"
		atEnd = func(*tenv) string { xfail("assignGroup falls off its end"); return "" }
	case fd.Type.Results == nil:
		res = "Box"
		if e.kinds[first] != kBox {
			xfail("function without result whose first parameter is not a box")
		}
		atEnd = func(*tenv) string { return lname(first) }
	default:
		rs := fd.Type.Results.List
		var names []string
		var ts []string
		for _, r := range rs {
			k := typeKind(r.Type)
			n := 1
			if len(r.Names) > 0 {
				n = len(r.Names)
			}
			for i := 0; i < n; i++ {
				tk := k
				if k == kInt {
					tk = kNat // indices
				}
				ts = append(ts, lt[tk])
				if len(r.Names) > 0 {
					names = append(names, r.Names[i].Name)
					e.kinds[r.Names[i].Name] = tk
				}
			}
		}
		res = strings.Join(ts, " × ")
		if len(names) > 0 { // named results start at their zero value
			atEnd = func(*tenv) string {
				var ns []string
				for _, n := range names {
					ns = append(ns, lname(n))
				}
				if len(ns) == 1 {
					return ns[0]
				}
				return "(" + strings.Join(ns, ", ") + ")"
			}
		} else {
			atEnd = func(*tenv) string { xfail("control reaches the end of the function without a return"); return "" }
		}
	}
	pre := ""
	if fd.Type.Results != nil && !sp.resBox {
		for _, r := range fd.Type.Results.List {
			for _, n := range r.Names {
				pre += "  let " + lname(n.Name) + " : Nat := 0\n"
			}
		}
	}
	if sp.skip > len(fd.Body.List) {
		xfail("body shorter than the skipped prefix")
	}
	body := e.stmts(fd.Body.List[sp.skip:], "  ", atEnd, false)
	return fmt.Sprintf("def %s (big : Rat) %s : %s :=\n%s%s\n", fd.Name.Name, strings.Join(params, " "), res, pre, body)
}

var wanted = []fspec{
	{"geom.go", "size", false, 0, false}, {"geom.go", "margin", false, 0, false}, {"geom.go", "containsPoint", false, 0, false},
	{"geom.go", "containsRect", false, 0, false}, {"geom.go", "intersect", false, 0, false}, {"geom.go", "enlarge", false, 0, false},
	{"geom.go", "initBoundingBox", false, 0, false}, {"geom.go", "boundingBox", false, 0, false},
	{"geom.go", "minDist", false, 0, false}, {"geom.go", "minMaxDist", false, 0, false},
	{"rtree.go", "computeBoundingBox", false, 0, false}, {"rtree.go", "assignGroup", true, 0, false},
	{"rtree.go", "pickNext", false, 0, false}, {"rtree.go", "pickSeeds", false, 0, false},
	{file: "rtree.go", name: "chooseNode", skip: 1, resBox: true},
}

func extract(repo string) (out string, failed []string) {
	var b strings.Builder
	b.WriteString("import GeomV.C11.Model\n/-! GENERATED by `harness/cmd/c11 extract` from index/rtree/geom.go and index/rtree/rtree.go of the\ntree under test.  Do not edit; regenerated by every `bin/check C11` / `bin/check C12` run (pregen).\nTranslation table: header of harness/cmd/c11/extract.go. -/\nset_option linter.unusedVariables false\nnamespace GeomV.C11.Gen\nopen GeomV.C11\n\nstructure GPt where\n  X : Rat\n  Y : Rat\n\n")
	fset := token.NewFileSet()
	files := map[string]*ast.File{}
	known = map[string]fsig{}
	for _, sp := range wanted {
		f := files[sp.file]
		if f == nil {
			var err error
			f, err = parser.ParseFile(fset, filepath.Join(repo, "index", "rtree", sp.file), nil, 0)
			if err != nil {
				failed = append(failed, sp.name+": "+err.Error())
				continue
			}
			files[sp.file] = f
		}
		var fd *ast.FuncDecl
		for _, d := range f.Decls {
			if x, ok := d.(*ast.FuncDecl); ok && x.Name.Name == sp.name {
				fd = x
			}
		}
		if fd == nil {
			failed = append(failed, sp.name+": not found in "+sp.file)
			b.WriteString("-- " + sp.name + ": NOT FOUND in " + sp.file + "\n\n")
			continue
		}
		func() {
			defer func() {
				if r := recover(); r != nil {
					msg := fmt.Sprint(r)
					if xe, ok := r.(xerr); ok {
						msg = xe.msg
					}
					failed = append(failed, sp.name+": "+msg)
					b.WriteString("-- " + sp.name + ": OUTSIDE THE TRANSLATABLE SUBSET: " + msg + "\n\n")
				}
			}()
			s := trFunc(fd, sp)
			b.WriteString(s + "\n")
			sig := fsig{}
			switch {
			case sp.decide:
				sig.res = kBool
			case fd.Type.Results == nil:
				sig.res, sig.mutates = kBox, true
			default:
				sig.res = typeKind(fd.Type.Results.List[0].Type)
			}
			known[sp.name] = sig
		}()
	}
	b.WriteString("end GeomV.C11.Gen\n")
	return b.String(), failed
}

func extractMain(args []string) {
	repo := "/repo"
	for i := 0; i+1 < len(args); i++ {
		if args[i] == "--repo" {
			repo = args[i+1]
		}
	}
	s, failed := extract(repo)
	fmt.Print(s)
	if len(failed) > 0 {
		fmt.Fprintln(os.Stderr, "extract: "+strings.Join(failed, " | "))
		os.Exit(3)
	}
}
