package main

// Further generator families for C14:
//
//   - cycleCases: multi-line strings whose members form a closed CYCLE through shared end points
//     (3..6 junctions; no two members with the same pair of end points), the whole cycle inside P, plain
//     or with a hole of P inside the block, optionally with an extra member that leaves P from a junction
//     or a chord that subdivides the block, or a free-standing member;
//   - manyMembers: multi-line strings of 63..1025 members, every one with a part inside P of a different
//     length;
//   - emptyMemberCases: multi-polygons with empty member polygons / polygons with empty rings before,
//     between and after the real ones.

import (
	"math"

	"github.com/ctessum/geom"

	"verif/harness/cmd/c01/shapes"
	"verif/harness/vproto"
)

func even(v float64) int64 {
	k := int64(math.Round(v / 2))
	return 2 * k
}

func simpleSelf(p []ipt) bool {
	for i := 1; i < len(p); i++ {
		if !canAppend(p[:i], p[i]) {
			return false
		}
	}
	return len(p) >= 2
}

// cycleNetwork returns the members of a cycle through k junctions around (cx, cy) (doubled coordinates,
// all even), each member a 2- or 3-vertex path, in random directions; nil when the attempt is not simple.
func cycleNetwork(r *vproto.Rng, k int, cx, cy int64) ([][]ipt, []ipt) {
	js := make([]ipt, k)
	for i := range js {
		th := 2 * math.Pi * (float64(i) + 0.4*r.Float() - 0.2) / float64(k)
		rad := float64(r.Range(8, 16))
		js[i] = ipt{X: cx + even(rad*math.Cos(th)), Y: cy + even(rad*math.Sin(th))}
	}
	var ms [][]ipt
	for i := range js {
		a, b := js[i], js[(i+1)%k]
		if a == b {
			return nil, nil
		}
		m := []ipt{a, b}
		if r.Intn(3) == 0 { // a bend pushed away from the centre
			mx, my := float64(a.X+b.X)/2, float64(a.Y+b.Y)/2
			dx, dy := mx-float64(cx), my-float64(cy)
			n := math.Hypot(dx, dy)
			if n > 0 {
				d := float64(r.Range(2, 5))
				m = []ipt{a, {X: even(mx + d*dx/n), Y: even(my + d*dy/n)}, b}
			}
		}
		if r.Bool() {
			for x, y := 0, len(m)-1; x < y; x, y = x+1, y-1 {
				m[x], m[y] = m[y], m[x]
			}
		}
		if !simpleSelf(m) {
			return nil, nil
		}
		ms = append(ms, m)
	}
	for i := range ms {
		for j := i + 1; j < len(ms); j++ {
			if !networkOK(ms[i], ms[j]) {
				return nil, nil
			}
		}
	}
	return ms, js
}

func netOKAll(ms [][]ipt, p []ipt) bool {
	for _, m := range ms {
		if !networkOK(m, p) {
			return false
		}
	}
	return true
}

// cycleCases emits n cases.
func cycleCases(r *vproto.Rng, n int, emit func(l geom.Geom, p geom.Geom)) {
	for c := 0; c < n; c++ {
		var ms [][]ipt
		var js []ipt
		k := 3 + c%4
		cx, cy := 2*int64(r.Range(-6, 6)), 2*int64(r.Range(-6, 6))
		for try := 0; try < 50 && ms == nil; try++ {
			ms, js = cycleNetwork(r, k, cx, cy)
		}
		if ms == nil {
			continue
		}
		mn, mx := ms[0][0], ms[0][0]
		for _, m := range ms {
			for _, q := range m {
				mn = ipt{X: min64(mn.X, q.X), Y: min64(mn.Y, q.Y)}
				mx = ipt{X: max64(mx.X, q.X), Y: max64(mx.Y, q.Y)}
			}
		}
		x0, y0 := mn.X-1-2*int64(r.Range(1, 3)), mn.Y-1-2*int64(r.Range(1, 3))
		x1, y1 := mx.X+1+2*int64(r.Range(1, 3)), mx.Y+1+2*int64(r.Range(1, 3))
		outer := shapes.RectRing(x0, y0, x1, y1)
		var P shapes.Shape
		switch c % 4 {
		case 0:
			P = shapes.Shape{Kind: "PG", Polys: []shapes.Poly{{outer}}}
		case 1: // a hole of P inside the block
			P = shapes.Shape{Kind: "PG", Polys: []shapes.Poly{{outer, shapes.RectRing(cx-1, cy-1, cx+1, cy+1)}}}
		case 2:
			P = shapes.Shape{Kind: "B", Box: [2]shapes.Pt{{X: x0, Y: y0}, {X: x1, Y: y1}}}
		default:
			P = shapes.Shape{Kind: "MPG", Polys: []shapes.Poly{{outer}, {shapes.Ring{{X: x1 + 4, Y: y0}, {X: x1 + 8, Y: y0}, {X: x1 + 6, Y: y1}}}}}
		}
		rs := P.Rings()
		inside := true
		for _, m := range ms {
			if !gpPath(m, rs) {
				inside = false
			}
			for i := 0; i+1 < len(m); i++ {
				if segMeetsRings(m[i], m[i+1], rs) {
					inside = false
				}
			}
		}
		if !inside {
			continue
		}
		// extras
		switch (c / 4) % 4 {
		case 1: // a street that leaves P from a junction
			for try := 0; try < 30; try++ {
				j := js[r.Intn(len(js))]
				var q ipt
				switch r.Intn(4) {
				case 0:
					q = ipt{X: x1 + 1 + 2*int64(r.Range(1, 2)), Y: ev(r, y0, y1)}
				case 1:
					q = ipt{X: x0 - 1 - 2*int64(r.Range(1, 2)), Y: ev(r, y0, y1)}
				case 2:
					q = ipt{X: ev(r, x0, x1), Y: y1 + 1 + 2*int64(r.Range(1, 2))}
				default:
					q = ipt{X: ev(r, x0, x1), Y: y0 - 1 - 2*int64(r.Range(1, 2))}
				}
				p := []ipt{j, q}
				if r.Bool() {
					p = []ipt{q, j}
				}
				if netOKAll(ms, p) && gpPath(p, rs) {
					ms = append(ms, p)
					break
				}
			}
		case 2: // a chord between two non-adjacent junctions (k >= 4): two blocks sharing a side
			if len(js) >= 4 {
				p := []ipt{js[0], js[2]}
				if netOKAll(ms, p) && gpPath(p, rs) && !segMeetsRings(p[0], p[1], rs) {
					ms = append(ms, p)
				}
			}
		case 3: // a free-standing member elsewhere in P or across its boundary
			for try := 0; try < 30; try++ {
				p := []ipt{{X: ev(r, x0-4, x1+4), Y: ev(r, y0-4, y1+4)}, {X: ev(r, x0-4, x1+4), Y: ev(r, y0-4, y1+4)}}
				if p[0] == p[1] || !gpPath(p, rs) {
					continue
				}
				clash := false
				for _, m := range ms {
					if pathsMeet(m, p) {
						clash = true
					}
				}
				if !clash {
					ms = append(ms, p)
					break
				}
			}
		}
		// member order matters to order-dependent code
		for i := len(ms) - 1; i > 0; i-- {
			j := r.Intn(i + 1)
			ms[i], ms[j] = ms[j], ms[i]
		}
		ml := geom.MultiLineString{}
		for _, m := range ms {
			ml = append(ml, toLS(m))
		}
		f := scaleFor(r)
		emit(shapes.ScaleGeom(ml, f), shapes.ScaleGeom(P.ToGeom(2, r.Intn(5) != 0), f))
	}
}

func min64(a, b int64) int64 {
	if a < b {
		return a
	}
	return b
}

func max64(a, b int64) int64 {
	if a > b {
		return a
	}
	return b
}

// cycleCorpus: hand-picked blocks (the triangle of the C14-e1 demo among them).
func cycleCorpus(emit func(l geom.Geom, p geom.Geom)) {
	sq := geom.Polygon{{{X: 0.5, Y: 0.5}, {X: 12.5, Y: 0.5}, {X: 12.5, Y: 12.5}, {X: 0.5, Y: 12.5}, {X: 0.5, Y: 0.5}}}
	holed := geom.Polygon{sq[0], {{X: 5.5, Y: 3.5}, {X: 6.5, Y: 3.5}, {X: 6.5, Y: 4.5}, {X: 5.5, Y: 4.5}}}
	box := &geom.Bounds{Min: geom.Point{X: 0.5, Y: 0.5}, Max: geom.Point{X: 12.5, Y: 12.5}}
	multi := geom.MultiPolygon{sq, {{{X: 14.5, Y: 0.5}, {X: 16.5, Y: 0.5}, {X: 15.5, Y: 3.5}}}}
	small := geom.Polygon{{{X: 0.5, Y: 0.5}, {X: 7.5, Y: 0.5}, {X: 7.5, Y: 12.5}, {X: 0.5, Y: 12.5}}} // the block crosses its boundary
	a, b, c, d := geom.Point{X: 2, Y: 2}, geom.Point{X: 10, Y: 3}, geom.Point{X: 8, Y: 8}, geom.Point{X: 3, Y: 9}
	tri := geom.MultiLineString{{a, b}, {b, c}, {c, a}}
	triRev := geom.MultiLineString{{b, a}, {b, c}, {a, c}}
	triBent := geom.MultiLineString{{a, {X: 6, Y: 1}, b}, {c, b}, {c, {X: 4, Y: 6}, a}}
	quad := geom.MultiLineString{{a, b}, {b, c}, {c, d}, {d, a}}
	quadChord := geom.MultiLineString{{a, b}, {c, b}, {c, d}, {a, d}, {a, c}}
	street := geom.LineString{c, {X: 14, Y: 9}}
	for _, p := range []geom.Geom{sq, holed, box, multi, small} {
		for _, ml := range []geom.MultiLineString{tri, triRev, triBent, quad, quadChord,
			append(append(geom.MultiLineString{}, tri...), street), append(geom.MultiLineString{street}, quad...)} {
			emit(ml, p)
		}
	}
}

// manyMembers: one short member per column, every one with an inside part of a different length.
func manyMembers(r *vproto.Rng, tier string, emit func(l geom.Geom, p geom.Geom)) {
	counts := []int{63, 64, 65, 66, 127, 128, 129, 130, 257}
	if tier == "thorough" {
		counts = append(counts, 200, 513, 1025, 2049)
	}
	for ci, n := range counts {
		ml := make(geom.MultiLineString, n)
		top := 2*float64(n) + 20.5
		for i := range ml {
			x := float64(i + 1)
			h := float64(i + 2) // distinct heights: dropping or exchanging a member changes the total length
			switch r.Intn(4) {
			case 0: // inside
				ml[i] = geom.LineString{{X: x, Y: 1}, {X: x, Y: h}}
			case 1: // enters from below
				ml[i] = geom.LineString{{X: x, Y: -1}, {X: x, Y: h}}
			case 2: // leaves through the top, reversed
				ml[i] = geom.LineString{{X: x, Y: top + 2}, {X: x, Y: top - h}}
			default: // three vertices
				ml[i] = geom.LineString{{X: x, Y: -2}, {X: x + 0.25, Y: 1}, {X: x, Y: h}}
			}
		}
		for i := len(ml) - 1; i > 0; i-- { // shuffled: the member at a threshold index is not a special one
			j := r.Intn(i + 1)
			ml[i], ml[j] = ml[j], ml[i]
		}
		rect := geom.Path{{X: 0.5, Y: 0.5}, {X: float64(n) + 0.5, Y: 0.5}, {X: float64(n) + 0.5, Y: top}, {X: 0.5, Y: top}, {X: 0.5, Y: 0.5}}
		switch ci % 3 {
		case 0:
			emit(ml, geom.Polygon{rect})
		case 1:
			emit(ml, &geom.Bounds{Min: geom.Point{X: 0.5, Y: 0.5}, Max: geom.Point{X: float64(n) + 0.5, Y: top}})
		default:
			emit(ml, geom.MultiPolygon{{rect}, {{{X: -8.5, Y: 0.5}, {X: -4.5, Y: 0.5}, {X: -6.5, Y: 3.5}}}})
		}
	}
}

// emptyMemberCases: empty polygons among the members of a multi-polygon and empty rings among the rings
// of a polygon contribute nothing to P; they come first, in the middle and last.
func emptyMemberCases(r *vproto.Rng, n int, emit func(l geom.Geom, p geom.Geom)) {
	for c := 0; c < n; c++ {
		P := placedShape(r, "MPG", 0)
		style := styleCycle[r.Intn(len(styleCycle))]
		if style == 7 {
			style = 1
		}
		l := makeLine(r, P, style, c%2 == 1)
		mp, ok := P.ToGeom(2, r.Bool()).(geom.MultiPolygon)
		if !ok || len(mp) == 0 {
			continue
		}
		var out geom.MultiPolygon
		pos := c % 3
		for i, pg := range mp {
			if (pos == 0 && i == 0) || (pos == 1 && i == (len(mp)+1)/2) {
				out = append(out, geom.Polygon{})
				if c%5 == 0 {
					out = append(out, nil)
				}
			}
			out = append(out, pg)
		}
		if pos == 2 || len(out) == len(mp) {
			out = append(out, geom.Polygon{})
		}
		f := scaleFor(r)
		emit(shapes.ScaleGeom(l, f), shapes.ScaleGeom(out, f))
	}
}

// affine maps every coordinate x to x*s+ox (y*s+oy): with a non-dyadic s and an offset the coordinates use
// all 53 bits of the mantissa (the grid cases are exactly representable in far fewer).
func affine(g geom.Geom, s, ox, oy float64) geom.Geom {
	pt := func(p geom.Point) geom.Point { return geom.Point{X: p.X*s + ox, Y: p.Y*s + oy} }
	path := func(ps []geom.Point) []geom.Point {
		if ps == nil {
			return nil
		}
		o := make([]geom.Point, len(ps))
		for i, p := range ps {
			o[i] = pt(p)
		}
		return o
	}
	poly := func(pg geom.Polygon) geom.Polygon {
		o := make(geom.Polygon, len(pg))
		for i, r := range pg {
			o[i] = path(r)
		}
		return o
	}
	switch x := g.(type) {
	case geom.LineString:
		return geom.LineString(path(x))
	case geom.MultiLineString:
		o := make(geom.MultiLineString, len(x))
		for i, l := range x {
			o[i] = geom.LineString(path(l))
		}
		return o
	case geom.Polygon:
		return poly(x)
	case geom.MultiPolygon:
		o := make(geom.MultiPolygon, len(x))
		for i, pg := range x {
			o[i] = poly(pg)
		}
		return o
	case *geom.Bounds:
		a, b := pt(x.Min), pt(x.Max)
		return &geom.Bounds{Min: a, Max: b}
	}
	panic("affine: unexpected geometry type")
}

// affineCases: the ordinary families under a non-dyadic scale and an offset.
func affineCases(r *vproto.Rng, n int, emit func(l geom.Geom, p geom.Geom)) {
	scales := []float64{0.1, 1.0 / 3, 0.7, 1.1e-3, 37.3}
	offs := []float64{0, 1000.37, -512.9}
	for i := 0; i < n; i++ {
		kind := kinds[i%3]
		style := styleCycle[r.Intn(len(styleCycle))]
		P := placedShape(r, kind, style)
		l := makeLine(r, P, style, i%2 == 1)
		s := scales[r.Intn(len(scales))]
		ox, oy := offs[r.Intn(len(offs))]*s, offs[r.Intn(len(offs))]*s
		emit(affine(l, s, ox, oy), affine(P.ToGeom(2, r.Bool()), s, ox, oy))
	}
}

// quadCases: polygons of three or four vertices that are NOT rectangles (diamond, dart, trapezoid,
// triangle) as PG / one-member MPG, open and closed spelling; lines whose vertices all lie strictly
// within the polygon's bounding box (so inside, outside and crossing parts all occur inside the box).
func quadCases(r *vproto.Rng, n int, emit func(l geom.Geom, p geom.Geom)) {
	for c := 0; c < n; c++ {
		cx, cy := 2*int64(r.Range(-5, 5))+1, 2*int64(r.Range(-5, 5))+1
		a, b := 2*int64(r.Range(3, 8)), 2*int64(r.Range(3, 8))
		var ring shapes.Ring
		switch c % 4 {
		case 0: // diamond
			ring = shapes.Ring{{X: cx - a, Y: cy}, {X: cx, Y: cy - b}, {X: cx + a, Y: cy}, {X: cx, Y: cy + b}}
		case 1: // dart (concave)
			ring = shapes.Ring{{X: cx - a, Y: cy - b}, {X: cx, Y: cy - b + 2*int64(r.Range(1, 2))}, {X: cx + a, Y: cy - b}, {X: cx, Y: cy + b}}
		case 2: // trapezoid
			ring = shapes.Ring{{X: cx - a, Y: cy - b}, {X: cx + a, Y: cy - b}, {X: cx + a - 2*int64(r.Range(1, 2)), Y: cy + b}, {X: cx - a + 2*int64(r.Range(1, 2)), Y: cy + b}}
		default: // triangle
			ring = shapes.Ring{{X: cx - a, Y: cy - b}, {X: cx + a, Y: cy - b + 2*int64(r.Range(0, 2))}, {X: cx - a + 2*int64(r.Range(0, 3)), Y: cy + b}}
		}
		kind := "PG"
		if c%8 >= 4 {
			kind = "MPG"
		}
		P := shapes.Shape{Kind: kind, Polys: []shapes.Poly{{ring}}}
		rs := P.Rings()
		mn, mx, _ := P.BBox()
		var path []ipt
		nv := r.Range(2, 5)
		for try := 0; try < 200 && len(path) < nv; try++ {
			q := ipt{X: ev(r, mn.X+1, mx.X-1), Y: ev(r, mn.Y+1, mx.Y-1)}
			if q.X <= mn.X || q.X >= mx.X || q.Y <= mn.Y || q.Y >= mx.Y || !canAppend(path, q) {
				continue
			}
			cand := append(append([]ipt{}, path...), q)
			if !gpPath(cand, rs) {
				continue
			}
			path = cand
		}
		if len(path) < 2 {
			continue
		}
		var l geom.Geom = toLS(path)
		if c%3 == 2 {
			l = geom.MultiLineString{toLS(path)}
		}
		f := scaleFor(r)
		emit(shapes.ScaleGeom(l, f), shapes.ScaleGeom(P.ToGeom(2, r.Bool()), f))
	}
}

// knownCorpus: the figure of the known finding (polyclip-go's parallel test is not scale-invariant: at 2^-30 the
// vertex (9,0) of the second member is lost) at the scales 2^-28 (clipped correctly) and 2^-30 (known finding).
func knownCorpus(emit func(l geom.Geom, p geom.Geom)) {
	ml := geom.MultiLineString{{{X: 3, Y: 0}, {X: 14, Y: 1}}, {{X: 17, Y: 10}, {X: 1, Y: -1}, {X: 9, Y: 0}, {X: 2, Y: -2}}}
	pg := geom.MultiPolygon{{
		{{X: 12.5, Y: 7.5}, {X: 6.5, Y: 8.5}, {X: 4.5, Y: 5.5}, {X: 3.5, Y: 4.5}, {X: 9.5, Y: -0.5}, {X: 11.5, Y: 0.5}, {X: 13.5, Y: 1.5}, {X: 14.5, Y: 1.5}},
		{{X: 9.5, Y: 4.5}, {X: 10.5, Y: 4.5}, {X: 10.5, Y: 6.5}}}}
	for _, k := range []int{0, -28, -30, -40} {
		f := math.Ldexp(1, k)
		emit(shapes.ScaleGeom(ml, f), shapes.ScaleGeom(pg, f))
		emit(shapes.ScaleGeom(ml[1], f), shapes.ScaleGeom(pg, f))
	}
}
