package main

// `cc` lines: concurrent callers of the pure functions LineString.Clip / MultiLineString.Clip.
//
// The reference answer is computed alone. Then ccVictims goroutines repeat the same call ccRounds times,
// each on its own deep copy of the operands (parsed afresh from the line), while ccNoise goroutines run
// Clip on unrelated, larger inputs far away (long zig-zags over a holed rectangle, multi-line strings of
// many members against a multi-polygon) so that calls overlap. The first answer that is not bit for bit
// the reference answer (or a panic, or a modified operand) is returned for the judge; otherwise the
// reference answer. Package-level scratch state, unsynchronised pools and the like are invisible to any
// sequential harness and show up here.

import (
	"fmt"
	"runtime"
	"sync"
	"sync/atomic"

	"github.com/ctessum/geom"

	"verif/harness/cmd/c01/shapes"
	"verif/harness/vproto"
)

const (
	ccVictims = 6
	ccNoise   = 6
	ccRounds  = 30
)

func parseCase(line string) (geom.Linear, geom.Polygonal) {
	p := vproto.NewParser(line)
	p.Next()
	l, _ := p.Geom().(geom.Linear)
	if p.Next() != "|" {
		panic("harness: expected |")
	}
	pg, _ := p.Geom().(geom.Polygonal)
	return l, shapes.Flat(pg)
}

type noiseCase struct {
	l geom.Linear
	p geom.Polygonal
}

func noiseInputs(i int) []noiseCase {
	x0, y0 := 1e6+1000*float64(i), 1e6
	n := 160
	zig := make(geom.LineString, n)
	for k := range zig {
		y := y0 + 1
		if k%2 == 1 {
			y = y0 + 9
		}
		zig[k] = geom.Point{X: x0 + float64(k+1), Y: y}
	}
	rect := func(ax, ay, bx, by float64) geom.Path {
		return geom.Path{{X: ax, Y: ay}, {X: bx, Y: ay}, {X: bx, Y: by}, {X: ax, Y: by}, {X: ax, Y: ay}}
	}
	holed := geom.Polygon{rect(x0+0.5, y0+0.5, x0+float64(n)+0.5, y0+10.5), rect(x0+0.75, y0+4.5, x0+float64(n)+0.25, y0+5.5)}
	ml := make(geom.MultiLineString, 40)
	for k := range ml {
		ml[k] = geom.LineString{{X: x0 + float64(k+1), Y: y0 - 1}, {X: x0 + float64(k+1) + 0.25, Y: y0 + 3}, {X: x0 + float64(k+1), Y: y0 + 12}}
	}
	mp := geom.MultiPolygon{holed, {rect(x0+0.5, y0+10.75, x0+float64(n)+0.5, y0+11.25)}}
	box := &geom.Bounds{Min: geom.Point{X: x0 + 0.5, Y: y0 + 0.5}, Max: geom.Point{X: x0 + float64(n) + 0.5, Y: y0 + 7.5}}
	return []noiseCase{{zig, holed}, {ml, mp}, {zig, box}, {ml, holed}}
}

func concurrentClip(line string) string {
	if runtime.GOMAXPROCS(0) < 4 {
		runtime.GOMAXPROCS(4)
	}
	l0, p0 := parseCase(line)
	r0, same := clipOnce(l0, p0)
	if !same {
		return "mutated"
	}
	ref := "ok " + vproto.GeomToks(r0)
	var stop int32
	var mu sync.Mutex
	bad := ""
	report := func(s string) {
		mu.Lock()
		if bad == "" {
			bad = s
		}
		mu.Unlock()
		atomic.StoreInt32(&stop, 1)
	}
	var noise, victims sync.WaitGroup
	for i := 0; i < ccNoise; i++ {
		noise.Add(1)
		go func(i int) {
			defer noise.Done()
			defer func() {
				if e := recover(); e != nil {
					report(fmt.Sprintf("panic in a concurrent call on unrelated operands: %v", e))
				}
			}()
			cs := noiseInputs(i)
			for k := 0; atomic.LoadInt32(&stop) == 0; k++ {
				c := cs[(k+i)%len(cs)]
				c.l.Clip(c.p)
			}
		}(i)
	}
	for i := 0; i < ccVictims; i++ {
		victims.Add(1)
		go func() {
			defer victims.Done()
			defer func() {
				if e := recover(); e != nil {
					report(fmt.Sprintf("panic %v", e))
				}
			}()
			vl, vp := parseCase(line)
			for k := 0; k < ccRounds && atomic.LoadInt32(&stop) == 0; k++ {
				r, same := clipOnce(vl, vp)
				if !same {
					report("mutated")
					return
				}
				if got := "ok " + vproto.GeomToks(r); got != ref {
					report(got)
					return
				}
			}
		}()
	}
	victims.Wait()
	atomic.StoreInt32(&stop, 1)
	noise.Wait()
	if bad != "" {
		return bad
	}
	return ref
}
