package main

// T1 tie for C14: regenerate Lean definitions of the glue around the clipper's CLIPLINE mode from the
// Go source of the tree under test.
//
//	c14 extract --repo DIR      prints the module GeomV.C14.Gen
//
// Functions: linestring.go (LineString).Clip, multilinestring.go (MultiLineString).Clip, polygon.go
// (Polygon).op, clipperOp, (Polygon).toPolyClip, polyClipToPolygon, (Polygon).Polygons, multipolygon.go
// (MultiPolygon).Polygons, bounds.go (*Bounds).Polygons.  lean/GeomV/C14/Ties.lean proves that each
// regenerated function returns, without fault, the value of the model's function.  A function that
// leaves the subset below is NOT skipped: the extractor exits 3 and names it on stderr.
//
// Translation (every function is rendered in the monad Go.M = Except Fault; GenLib.lean):
//
//	x := e, x = e, var x T            ↦ let x := e                (zero value of T for var)
//	a[i] = e ; a[i][j] = e            ↦ let a ← Go.setIdx a i e ; let a ← Go.setIdx2 a i j e   (faulting)
//	for i, x := range xs { S }        ↦ let st ← Go.forRange xs st (fun st i x => do S; pure st), st = the
//	                                    variables assigned in S that are declared outside S
//	if c { …return e }; R             ↦ if c then … else R
//	return e                          ↦ pure e
//	len(x)  a[i]  a[lo:hi]            ↦ Go.len x, (← Go.idx a i), (← Go.slice a lo hi)   (faulting)
//	make(T, n)  make(T, n, c)         ↦ (← Go.make n zero) (← Go.make3 n c zero)        (faulting for n < 0)
//	append(a, b...)  append(a, b)     ↦ a ++ b, a ++ [b]
//	T(x) for slice/point types        ↦ x           T{a, b} ↦ [a, b]      Point{a, b} ↦ (⟨a, b⟩ : P)
//	+ - == != < <= > >= && || !       ↦ the same on Int / decide
//	f(args), x.m(args) (listed below) ↦ (← f' …)    p2.Polygons() on a Polygonal ↦ dispatch on the dynamic type
//	pp.Construct(op, pp2)             ↦ C01.construct core op pp pp2   (polyclip-go, pinned by hash)
//	x.BoundingBox(), a.Overlaps(b)    ↦ bbox x, overlaps a b           (polyclip-go, pinned by hash)
//	polyclip.CLIPLINE/XOR/UNION/…     ↦ COp.clipline, COp.bool Op.xor, …
//	float64 (finite)                  ↦ Rat: + - * / exact; constants by their float64 value; an untyped integer
//	                                    constant where a float64 is expected is that rational
//	math.Max  math.Abs  math.Ldexp    ↦ Go.fmax, Go.fabs, Go.ldexp;  `_, e := math.Frexp(m)` ↦ let e := Go.frexpExp m
//	q (Polygon/MultiPolygon) passed as a Polygonal ↦ Operand.poly q / Operand.multi q

import (
	"fmt"
	"go/ast"
	"go/parser"
	"go/token"
	"math"
	"math/big"
	"os"
	"path/filepath"
	"strconv"
	"strings"
)

type xerr struct{ msg string }

func xfail(f string, a ...interface{}) { panic(xerr{fmt.Sprintf(f, a...)}) }

// Go type name -> Lean type
var leanType = map[string]string{
	"Point": "P", "polyclip.Point": "P",
	"LineString": "List P", "Path": "List P", "[]Point": "List P", "polyclip.Contour": "List P", "MultiPoint": "List P",
	"MultiLineString": "List (List P)", "Polygon": "List (List P)", "[]Path": "List (List P)", "polyclip.Polygon": "List (List P)",
	"Linear":       "List (List P)", // the dynamic type returned by both Clip methods is MultiLineString
	"MultiPolygon": "List (List (List P))", "[]Polygon": "List (List (List P))",
	"Polygonal": "Operand", "polyclip.Op": "COp", "*Bounds": "Go.Box", "int": "Int", "bool": "Bool",
	"float64": "Rat", // finite values only: the model works on the exact rational value of every float
}

// element type of slice types
var elemType = map[string]string{
	"LineString": "Point", "Path": "Point", "[]Point": "Point", "polyclip.Contour": "polyclip.Point", "MultiPoint": "Point",
	"MultiLineString": "LineString", "Polygon": "Path", "[]Path": "Path", "polyclip.Polygon": "polyclip.Contour",
	"MultiPolygon": "Polygon", "[]Polygon": "Polygon",
}

func zeroOf(t string) string {
	lt, ok := leanType[t]
	if !ok {
		xfail("zero value of type %s", t)
	}
	switch lt {
	case "P":
		return "(⟨0, 0⟩ : P)"
	case "Int":
		return "(0 : Int)"
	case "Rat":
		return "(0 : Rat)"
	case "Bool":
		return "false"
	}
	if strings.HasPrefix(lt, "List") {
		return "([] : " + lt + ")"
	}
	xfail("zero value of type %s", t)
	return ""
}

func typeName(x ast.Expr) string {
	switch t := x.(type) {
	case *ast.Ident:
		return t.Name
	case *ast.StarExpr:
		return "*" + typeName(t.X)
	case *ast.ArrayType:
		if t.Len == nil {
			return "[]" + typeName(t.Elt)
		}
	case *ast.SelectorExpr:
		if id, ok := t.X.(*ast.Ident); ok {
			return id.Name + "." + t.Sel.Name
		}
	}
	return "?"
}

// functions and methods of package geom that are translated: Go name (methods: Recv.name) -> Lean name
type fnInfo struct {
	file, recv, name, lean string
	core                   bool // takes the sweep `core` (reaches Construct)
}

var fns = []fnInfo{
	{"polygon.go", "Polygon", "toPolyClip", "polygon_toPolyClip", false},
	{"polygon.go", "", "polyClipToPolygon", "polyClipToPolygon", false},
	{"polygon.go", "", "clipperOp", "clipperOp", false},
	{"polygon.go", "Polygon", "Polygons", "polygon_Polygons", false},
	{"multipolygon.go", "MultiPolygon", "Polygons", "multiPolygon_Polygons", false},
	{"bounds.go", "*Bounds", "Polygons", "bounds_Polygons", false},
	{"polygon.go", "Polygon", "op", "polygon_op", true},
	{"linestring.go", "", "maxAbs", "maxAbs", false},
	{"linestring.go", "", "scalePath", "scalePath", false},
	{"linestring.go", "", "clipLine", "clipLine", true},
	{"linestring.go", "LineString", "Clip", "lineString_Clip", true},
	{"multilinestring.go", "MultiLineString", "Clip", "multiLineString_Clip", true},
}

var consts = map[string]string{
	"polyclip.CLIPLINE": "COp.clipline", "polyclip.XOR": "(COp.bool Op.xor)", "polyclip.UNION": "(COp.bool Op.union)",
	"polyclip.INTERSECTION": "(COp.bool Op.inter)", "polyclip.DIFFERENCE": "(COp.bool Op.diff)",
}

// declarations of the listed functions (Lean name -> declaration), for parameter and result types
var declOf = map[string]*ast.FuncDecl{}

func paramTypes(fd *ast.FuncDecl) []string {
	var out []string
	for _, p := range fd.Type.Params.List {
		for range p.Names {
			out = append(out, typeName(p.Type))
		}
	}
	return out
}

func resultType(fd *ast.FuncDecl) string {
	if fd == nil || fd.Type.Results == nil || len(fd.Type.Results.List) != 1 {
		return ""
	}
	return typeName(fd.Type.Results.List[0].Type)
}

// a float64 constant as an exact rational (the value the Go compiler gives it as a float64)
func ratLit(v string) string {
	f, err := strconv.ParseFloat(v, 64)
	if err != nil || math.IsInf(f, 0) || math.IsNaN(f) {
		xfail("float literal %s", v)
	}
	r := new(big.Rat)
	r.SetFloat64(f)
	if r.IsInt() {
		return "(" + r.Num().String() + " : Rat)"
	}
	return "((" + r.Num().String() + " : Rat) / (" + r.Denom().String() + " : Rat))"
}

// exprAs translates e where a value of Go type `want` is expected: an untyped integer constant becomes a
// float64 constant, a Polygon / MultiPolygon becomes the Polygonal interface value holding it
func (t *tr) exprAs(e ast.Expr, want string) string {
	if want == "float64" {
		if b, ok := e.(*ast.BasicLit); ok && (b.Kind == token.INT || b.Kind == token.FLOAT) {
			return ratLit(b.Value)
		}
	}
	if want == "Polygonal" {
		switch t.typeOf(e) {
		case "MultiPolygon":
			return "(Operand.multi " + t.expr(e) + ")"
		case "Polygon":
			return "(Operand.poly " + t.expr(e) + ")"
		case "Polygonal":
		default:
			xfail("argument of type %q where a Polygonal is expected", t.typeOf(e))
		}
	}
	return t.expr(e)
}

func (t *tr) argsFor(lean string, as []ast.Expr) string {
	fd := declOf[lean]
	if fd == nil {
		return t.args(as)
	}
	pts := paramTypes(fd)
	if len(pts) != len(as) {
		xfail("%d arguments for %s", len(as), lean)
	}
	var s []string
	for i, a := range as {
		s = append(s, t.exprAs(a, pts[i]))
	}
	return strings.Join(s, " ")
}

// translation of one function
type tr struct {
	vars map[string]string // Go variable -> Go type name ("" when unknown)
	decl []map[string]bool // scopes: variables declared in the block being translated
	core bool
}

func (t *tr) typeOf(e ast.Expr) string {
	switch x := e.(type) {
	case *ast.Ident:
		return t.vars[x.Name]
	case *ast.CallExpr:
		if tn := typeName(x.Fun); leanType[tn] != "" && len(x.Args) == 1 {
			return tn
		}
		if id, ok := x.Fun.(*ast.Ident); ok && id.Name == "make" {
			return typeName(x.Args[0])
		}
		if sel, ok := x.Fun.(*ast.SelectorExpr); ok {
			if typeName(sel) == "math.Max" || typeName(sel) == "math.Abs" || typeName(sel) == "math.Ldexp" {
				return "float64"
			}
			switch sel.Sel.Name {
			case "toPolyClip":
				return "polyclip.Polygon"
			case "Polygons":
				return "[]Polygon"
			}
			rt := t.typeOf(sel.X)
			for _, fi := range fns {
				if fi.recv != "" && fi.recv == rt && fi.name == sel.Sel.Name {
					return resultType(declOf[fi.lean])
				}
			}
		}
		if id, ok := x.Fun.(*ast.Ident); ok {
			for _, fi := range fns {
				if fi.recv == "" && fi.name == id.Name {
					return resultType(declOf[fi.lean])
				}
			}
		}
	case *ast.ParenExpr:
		return t.typeOf(x.X)
	case *ast.BasicLit:
		if x.Kind == token.FLOAT {
			return "float64"
		}
	case *ast.UnaryExpr:
		if x.Op == token.SUB {
			return t.typeOf(x.X)
		}
	case *ast.BinaryExpr:
		switch x.Op {
		case token.ADD, token.SUB, token.MUL, token.QUO:
			if a := t.typeOf(x.X); a != "" {
				return a
			}
			return t.typeOf(x.Y)
		}
	case *ast.SelectorExpr:
		if (x.Sel.Name == "X" || x.Sel.Name == "Y") && (t.typeOf(x.X) == "Point" || t.typeOf(x.X) == "polyclip.Point") {
			return "float64"
		}
	case *ast.CompositeLit:
		return typeName(x.Type)
	case *ast.IndexExpr:
		return elemType[t.typeOf(x.X)]
	case *ast.SliceExpr:
		return t.typeOf(x.X)
	}
	return ""
}

func (t *tr) expr(e ast.Expr) string {
	switch x := e.(type) {
	case *ast.ParenExpr:
		return t.expr(x.X)
	case *ast.Ident:
		switch x.Name {
		case "true", "false":
			return x.Name
		case "nil":
			xfail("nil")
		}
		if _, ok := t.vars[x.Name]; !ok {
			xfail("unknown identifier %s", x.Name)
		}
		return x.Name
	case *ast.BasicLit:
		if x.Kind == token.INT {
			return "(" + x.Value + " : Int)"
		}
		if x.Kind == token.FLOAT {
			return ratLit(x.Value)
		}
		xfail("literal %s", x.Value)
	case *ast.UnaryExpr:
		switch x.Op {
		case token.NOT:
			return "(!" + t.expr(x.X) + ")"
		case token.SUB:
			return "(-" + t.expr(x.X) + ")"
		}
		xfail("unary operator %s", x.Op)
	case *ast.BinaryExpr:
		want := ""
		if t.typeOf(x.X) == "float64" || t.typeOf(x.Y) == "float64" {
			want = "float64"
		}
		a, b := t.exprAs(x.X, want), t.exprAs(x.Y, want)
		switch x.Op {
		case token.ADD, token.SUB, token.MUL:
			return "(" + a + " " + x.Op.String() + " " + b + ")"
		case token.QUO:
			if want != "float64" {
				xfail("integer division")
			}
			return "(" + a + " / " + b + ")"
		case token.EQL:
			return "(decide (" + a + " = " + b + "))"
		case token.NEQ:
			return "(decide (" + a + " ≠ " + b + "))"
		case token.LSS, token.GTR:
			return "(decide (" + a + " " + x.Op.String() + " " + b + "))"
		case token.LEQ:
			return "(decide (" + a + " ≤ " + b + "))"
		case token.GEQ:
			return "(decide (" + a + " ≥ " + b + "))"
		case token.LAND, token.LOR:
			if strings.Contains(b, "←") {
				xfail("faulting operand on the right of %s (short-circuit evaluation)", x.Op)
			}
			return "(" + a + " " + x.Op.String() + " " + b + ")"
		}
		xfail("binary operator %s", x.Op)
	case *ast.SelectorExpr:
		tn := typeName(x)
		if c, ok := consts[tn]; ok {
			return c
		}
		switch x.Sel.Name {
		case "Min", "Max":
			return t.expr(x.X) + "." + x.Sel.Name
		case "X":
			return t.expr(x.X) + ".x"
		case "Y":
			return t.expr(x.X) + ".y"
		}
		xfail("selector %s", tn)
	case *ast.IndexExpr:
		return "(← Go.idx " + t.expr(x.X) + " " + t.expr(x.Index) + ")"
	case *ast.SliceExpr:
		if x.Slice3 {
			xfail("3-index slice")
		}
		a := t.expr(x.X)
		lo, hi := "(0 : Int)", "(Go.len "+a+")"
		if x.Low != nil {
			lo = t.expr(x.Low)
		}
		if x.High != nil {
			hi = t.expr(x.High)
		}
		return "(← Go.slice " + a + " " + lo + " " + hi + ")"
	case *ast.CompositeLit:
		return t.composite(x, typeName(x.Type))
	case *ast.CallExpr:
		return t.call(x)
	}
	xfail("expression %T", e)
	return ""
}

func (t *tr) composite(x *ast.CompositeLit, tn string) string {
	if tn == "Point" || tn == "polyclip.Point" {
		var xs, ys string
		for i, el := range x.Elts {
			if kv, ok := el.(*ast.KeyValueExpr); ok {
				switch kv.Key.(*ast.Ident).Name {
				case "X":
					xs = t.expr(kv.Value)
				case "Y":
					ys = t.expr(kv.Value)
				}
			} else if i == 0 {
				xs = t.expr(el)
			} else {
				ys = t.expr(el)
			}
		}
		if xs == "" || ys == "" {
			xfail("Point literal with a field left out")
		}
		return "(⟨" + xs + ", " + ys + "⟩ : P)"
	}
	et, ok := elemType[tn]
	if !ok {
		xfail("composite literal of type %s", tn)
	}
	var parts []string
	for _, el := range x.Elts {
		if cl, ok := el.(*ast.CompositeLit); ok && cl.Type == nil {
			parts = append(parts, t.composite(cl, et))
		} else if _, ok := el.(*ast.KeyValueExpr); ok {
			xfail("keyed slice literal")
		} else {
			parts = append(parts, t.expr(el))
		}
	}
	return "([" + strings.Join(parts, ", ") + "] : " + leanType[tn] + ")"
}

func (t *tr) args(as []ast.Expr) string {
	var s []string
	for _, a := range as {
		s = append(s, t.expr(a))
	}
	return strings.Join(s, " ")
}

func (t *tr) call(x *ast.CallExpr) string {
	if x.Ellipsis != token.NoPos {
		if id, ok := x.Fun.(*ast.Ident); !ok || id.Name != "append" {
			xfail("variadic call")
		}
	}
	// conversions
	if tn := typeName(x.Fun); leanType[tn] != "" && len(x.Args) == 1 {
		if _, shadow := t.vars[tn]; !shadow {
			return t.expr(x.Args[0])
		}
	}
	switch f := x.Fun.(type) {
	case *ast.Ident:
		switch f.Name {
		case "len":
			return "(Go.len " + t.expr(x.Args[0]) + ")"
		case "make":
			tn := typeName(x.Args[0])
			et, ok := elemType[tn]
			if !ok {
				xfail("make of type %s", tn)
			}
			switch len(x.Args) {
			case 2:
				return "(← Go.make " + t.expr(x.Args[1]) + " " + zeroOf(et) + ")"
			case 3:
				return "(← Go.make3 " + t.expr(x.Args[1]) + " " + t.expr(x.Args[2]) + " " + zeroOf(et) + ")"
			}
			xfail("make with %d arguments", len(x.Args))
		case "append":
			a := t.expr(x.Args[0])
			if x.Ellipsis != token.NoPos {
				if len(x.Args) != 2 {
					xfail("append with ... and %d arguments", len(x.Args))
				}
				return "(" + a + " ++ " + t.expr(x.Args[1]) + ")"
			}
			var parts []string
			for _, b := range x.Args[1:] {
				parts = append(parts, t.expr(b))
			}
			return "(" + a + " ++ [" + strings.Join(parts, ", ") + "])"
		}
		for _, fi := range fns {
			if fi.recv == "" && fi.name == f.Name {
				c := ""
				if fi.core {
					c = "core "
				}
				return "(← " + fi.lean + " " + c + t.argsFor(fi.lean, x.Args) + ")"
			}
		}
		xfail("call of %s", f.Name)
	case *ast.SelectorExpr:
		switch typeName(f) {
		case "math.Max":
			return "(Go.fmax " + t.exprAs(x.Args[0], "float64") + " " + t.exprAs(x.Args[1], "float64") + ")"
		case "math.Abs":
			return "(Go.fabs " + t.exprAs(x.Args[0], "float64") + ")"
		case "math.Ldexp":
			return "(Go.ldexp " + t.exprAs(x.Args[0], "float64") + " " + t.expr(x.Args[1]) + ")"
		}
		recv := t.expr(f.X)
		rt := t.typeOf(f.X)
		switch f.Sel.Name {
		case "Construct":
			if rt != "polyclip.Polygon" || len(x.Args) != 2 {
				xfail("Construct on %s", rt)
			}
			t.core = true
			return "(construct core " + t.expr(x.Args[0]) + " " + recv + " " + t.expr(x.Args[1]) + ")"
		case "BoundingBox":
			if rt != "polyclip.Polygon" || len(x.Args) != 0 {
				xfail("BoundingBox on %s", rt)
			}
			return "(bbox " + recv + ")"
		case "Overlaps":
			if c, ok := f.X.(*ast.CallExpr); !ok || len(x.Args) != 1 {
				xfail("Overlaps")
			} else if s, ok := c.Fun.(*ast.SelectorExpr); !ok || s.Sel.Name != "BoundingBox" {
				xfail("Overlaps on something that is not a polyclip bounding box")
			}
			return "(overlaps " + recv + " " + t.expr(x.Args[0]) + ")"
		case "Polygons":
			if rt == "Polygonal" && len(x.Args) == 0 {
				return "(← polygonal_Polygons " + recv + ")"
			}
		}
		for _, fi := range fns {
			if fi.recv != "" && fi.recv == rt && fi.name == f.Sel.Name {
				c := ""
				if fi.core {
					c = "core "
				}
				return "(← " + fi.lean + " " + c + recv + " " + t.argsFor(fi.lean, x.Args) + ")"
			}
		}
		xfail("method %s on receiver of type %q", f.Sel.Name, rt)
	}
	xfail("call")
	return ""
}

// variables assigned in the statements (by =, index assignment) that are not declared inside them
func assigned(stmts []ast.Stmt) []string {
	declared := map[string]bool{}
	var out []string
	seen := map[string]bool{}
	var walk func(ss []ast.Stmt)
	base := func(e ast.Expr) string {
		for {
			switch x := e.(type) {
			case *ast.IndexExpr:
				e = x.X
			case *ast.Ident:
				return x.Name
			default:
				xfail("assignment target %T", e)
			}
		}
	}
	walk = func(ss []ast.Stmt) {
		for _, s := range ss {
			switch x := s.(type) {
			case *ast.AssignStmt:
				for _, l := range x.Lhs {
					n := base(l)
					if x.Tok == token.DEFINE {
						declared[n] = true
					} else if !declared[n] && !seen[n] && n != "_" {
						seen[n] = true
						out = append(out, n)
					}
				}
			case *ast.DeclStmt:
				for _, sp := range x.Decl.(*ast.GenDecl).Specs {
					for _, n := range sp.(*ast.ValueSpec).Names {
						declared[n.Name] = true
					}
				}
			case *ast.RangeStmt:
				if x.Tok == token.DEFINE {
					for _, kv := range []ast.Expr{x.Key, x.Value} {
						if id, ok := kv.(*ast.Ident); ok {
							declared[id.Name] = true
						}
					}
				}
				walk(x.Body.List)
			case *ast.IfStmt:
				walk(x.Body.List)
				if x.Else != nil {
					xfail("else")
				}
			case *ast.ReturnStmt:
			default:
				xfail("statement %T", s)
			}
		}
	}
	walk(stmts)
	return out
}

func tuple(vs []string) string {
	switch len(vs) {
	case 0:
		return "()"
	case 1:
		return vs[0]
	}
	return "(" + strings.Join(vs, ", ") + ")"
}

// block translates statements; `tail` is what ends the block when no return does ("" = must return)
func (t *tr) block(ss []ast.Stmt, ind string, tail string, out *strings.Builder) {
	for i, s := range ss {
		switch x := s.(type) {
		case *ast.AssignStmt:
			if len(x.Lhs) == 2 && len(x.Rhs) == 1 && x.Tok == token.DEFINE {
				// `_, e := math.Frexp(m)`
				c, ok := x.Rhs[0].(*ast.CallExpr)
				l0, ok0 := x.Lhs[0].(*ast.Ident)
				l1, ok1 := x.Lhs[1].(*ast.Ident)
				if ok && ok0 && ok1 && l0.Name == "_" && typeName(c.Fun) == "math.Frexp" && len(c.Args) == 1 {
					t.vars[l1.Name] = "int"
					fmt.Fprintf(out, "%slet %s := Go.frexpExp %s\n", ind, l1.Name, t.exprAs(c.Args[0], "float64"))
					continue
				}
			}
			if len(x.Lhs) != 1 || len(x.Rhs) != 1 {
				xfail("parallel assignment")
			}
			if x.Tok != token.DEFINE && x.Tok != token.ASSIGN {
				xfail("assignment operator %s", x.Tok)
			}
			rhs := t.expr(x.Rhs[0])
			switch l := x.Lhs[0].(type) {
			case *ast.Ident:
				if x.Tok == token.DEFINE {
					t.vars[l.Name] = t.typeOf(x.Rhs[0])
				} else if _, ok := t.vars[l.Name]; !ok {
					xfail("assignment to unknown variable %s", l.Name)
				}
				fmt.Fprintf(out, "%slet %s := %s\n", ind, l.Name, rhs)
			case *ast.IndexExpr:
				if inner, ok := l.X.(*ast.IndexExpr); ok {
					a, ok := inner.X.(*ast.Ident)
					if !ok {
						xfail("index assignment deeper than two levels")
					}
					fmt.Fprintf(out, "%slet %s ← Go.setIdx2 %s %s %s %s\n", ind, a.Name, t.expr(a), t.expr(inner.Index), t.expr(l.Index), rhs)
				} else if a, ok := l.X.(*ast.Ident); ok {
					fmt.Fprintf(out, "%slet %s ← Go.setIdx %s %s %s\n", ind, a.Name, t.expr(a), t.expr(l.Index), rhs)
				} else {
					xfail("index assignment target")
				}
			default:
				xfail("assignment target %T", l)
			}
		case *ast.DeclStmt:
			gd := x.Decl.(*ast.GenDecl)
			if gd.Tok != token.VAR {
				xfail("declaration %s", gd.Tok)
			}
			for _, sp := range gd.Specs {
				vs := sp.(*ast.ValueSpec)
				if len(vs.Values) != 0 || vs.Type == nil {
					xfail("var with initialiser")
				}
				tn := typeName(vs.Type)
				for _, n := range vs.Names {
					t.vars[n.Name] = tn
					fmt.Fprintf(out, "%slet %s := %s\n", ind, n.Name, zeroOf(tn))
				}
			}
		case *ast.RangeStmt:
			if x.Tok != token.DEFINE {
				xfail("range without :=")
			}
			xs := t.expr(x.X)
			st := assigned(x.Body.List)
			for _, v := range st {
				if _, ok := t.vars[v]; !ok {
					xfail("loop assigns unknown variable %s", v)
				}
			}
			et := elemType[t.typeOf(x.X)]
			k, v := "_", "_"
			if id, ok := x.Key.(*ast.Ident); ok && x.Key != nil {
				k = id.Name
			}
			if x.Value != nil {
				if id, ok := x.Value.(*ast.Ident); ok {
					v = id.Name
				}
			}
			saved := map[string]string{}
			for n, ty := range t.vars {
				saved[n] = ty
			}
			if k != "_" {
				t.vars[k] = "int"
			}
			if v != "_" {
				t.vars[v] = et
			}
			fmt.Fprintf(out, "%slet %s ← Go.forRange %s %s (fun %s %s %s => do\n", ind, tuple(st), xs, tuple(st), tuple(st), k, v)
			t.block(x.Body.List, ind+"  ", "pure "+tuple(st), out)
			fmt.Fprintf(out, "%s  )\n", ind)
			t.vars = saved
		case *ast.IfStmt:
			if x.Init != nil || x.Else != nil {
				xfail("if with init or else")
			}
			n := len(x.Body.List)
			if n == 0 {
				xfail("empty if body")
			}
			if _, ok := x.Body.List[n-1].(*ast.ReturnStmt); !ok {
				xfail("if body that does not end in return")
			}
			if strings.HasPrefix(tail, "pure ") {
				xfail("return inside a loop")
			}
			fmt.Fprintf(out, "%sif %s then do\n", ind, t.expr(x.Cond))
			saved := map[string]string{}
			for n, ty := range t.vars {
				saved[n] = ty
			}
			t.block(x.Body.List, ind+"  ", "", out)
			t.vars = saved
			fmt.Fprintf(out, "%selse do\n", ind)
			t.block(ss[i+1:], ind+"  ", tail, out)
			return
		case *ast.ReturnStmt:
			if strings.HasPrefix(tail, "pure ") {
				xfail("return inside a loop")
			}
			if len(x.Results) != 1 {
				xfail("return with %d results", len(x.Results))
			}
			if i != len(ss)-1 {
				xfail("statements after return")
			}
			fmt.Fprintf(out, "%spure %s\n", ind, t.expr(x.Results[0]))
			return
		default:
			xfail("statement %T", s)
		}
	}
	if tail == "" {
		xfail("function body does not end in return")
	}
	fmt.Fprintf(out, "%s%s\n", ind, tail)
}

func findFunc(f *ast.File, recv, name string) *ast.FuncDecl {
	for _, d := range f.Decls {
		fd, ok := d.(*ast.FuncDecl)
		if !ok || fd.Name.Name != name {
			continue
		}
		r := ""
		if fd.Recv != nil && len(fd.Recv.List) == 1 {
			r = typeName(fd.Recv.List[0].Type)
		}
		if r == recv {
			return fd
		}
	}
	return nil
}

func translate(fi fnInfo, fd *ast.FuncDecl) (text string) {
	t := &tr{vars: map[string]string{}}
	var params []string
	add := func(n, tn string) {
		lt, ok := leanType[tn]
		if !ok {
			xfail("parameter type %s", tn)
		}
		t.vars[n] = tn
		params = append(params, "("+n+" : "+lt+")")
	}
	if fd.Recv != nil {
		r := fd.Recv.List[0]
		if len(r.Names) != 1 {
			xfail("unnamed receiver")
		}
		add(r.Names[0].Name, typeName(r.Type))
	}
	for _, p := range fd.Type.Params.List {
		for _, n := range p.Names {
			add(n.Name, typeName(p.Type))
		}
	}
	if fd.Type.Results == nil || len(fd.Type.Results.List) != 1 {
		xfail("result list")
	}
	rt, ok := leanType[typeName(fd.Type.Results.List[0].Type)]
	if !ok {
		xfail("result type %s", typeName(fd.Type.Results.List[0].Type))
	}
	var body strings.Builder
	t.block(fd.Body.List, "  ", "", &body)
	if t.core && !fi.core {
		xfail("reaches the clipper but is not listed as taking the sweep")
	}
	c := ""
	if fi.core {
		c = "(core : ClipCore) "
	}
	rn := fi.name
	if fi.recv != "" {
		rn = "(" + fi.recv + ")." + fi.name
	}
	return fmt.Sprintf("/-- %s: %s -/\ndef %s %s%s : Go.M (%s) := do\n%s", fi.file, rn, fi.lean, c, strings.Join(params, " "), rt, body.String())
}

const genHeader = `import GeomV.C14.GenLib
/-! GENERATED by ` + "`harness/cmd/c14 extract`" + ` from linestring.go, multilinestring.go, polygon.go, multipolygon.go,
bounds.go of the tree under test.  Do not edit; regenerated by every ` + "`bin/check C14`" + ` run (checks/C14.py pregen).
Tie lemmas: Ties.lean. -/
set_option linter.unusedVariables false
namespace GeomV.C14.Gen
open GeomV GeomV.C01 GeomV.C14

`

// the dynamic dispatch of the interface method Polygonal.Polygons over the three polygonal types
const dispatch = `/-- interface call ` + "`p.Polygons()`" + ` on a Polygonal: dispatch on the dynamic type -/
def polygonal_Polygons : Operand → Go.M (List (List (List P)))
  | .poly rs => polygon_Polygons rs
  | .multi ps => multiPolygon_Polygons ps
  | .box mn mx => bounds_Polygons ⟨mn, mx⟩

`

func extract(repo string) int {
	fset := token.NewFileSet()
	files := map[string]*ast.File{}
	var sb strings.Builder
	sb.WriteString(genHeader)
	rc := 0
	for _, fi := range fns {
		if _, ok := files[fi.file]; !ok {
			f, err := parser.ParseFile(fset, filepath.Join(repo, fi.file), nil, 0)
			if err != nil {
				fmt.Fprintf(os.Stderr, "cannot parse %s: %v\n", fi.file, err)
				return 2
			}
			files[fi.file] = f
		}
		declOf[fi.lean] = findFunc(files[fi.file], fi.recv, fi.name)
	}
	for _, fi := range fns {
		f, ok := files[fi.file]
		if !ok {
			var err error
			f, err = parser.ParseFile(fset, filepath.Join(repo, fi.file), nil, 0)
			if err != nil {
				fmt.Fprintf(os.Stderr, "cannot parse %s: %v\n", fi.file, err)
				return 2
			}
			files[fi.file] = f
		}
		func() {
			defer func() {
				if r := recover(); r != nil {
					e, ok := r.(xerr)
					if !ok {
						panic(r)
					}
					fmt.Fprintf(os.Stderr, "%s %s.%s is outside the translatable subset: %s\n", fi.file, fi.recv, fi.name, e.msg)
					fmt.Fprintf(&sb, "/-- %s %s.%s: outside the translatable subset (%s) -/\ndef %s : Go.M Unit := untranslatable\n\n", fi.file, fi.recv, fi.name, e.msg, fi.lean)
					rc = 3
				}
			}()
			fd := findFunc(f, fi.recv, fi.name)
			if fd == nil {
				xfail("not found")
			}
			sb.WriteString(translate(fi, fd))
			sb.WriteString("\n")
		}()
		if fi.lean == "bounds_Polygons" {
			sb.WriteString(dispatch)
		}
	}
	sb.WriteString("end GeomV.C14.Gen\n")
	fmt.Print(sb.String())
	return rc
}
