// Harness for C14 (Clip returns exactly the parts of a line inside the polygon). Subcommands:
//
//	gen --seed S --tier T   write case lines:  clip <LS|MLS geom> | <PG|MPG|B geom>
//	impl                    read case lines, run the real code, append " => ok <MLS geom>" / " => panic <msg>"
//
// Geometry is generated in doubled integer coordinates: polygon vertices odd, line vertices even,
// then halved — polygons sit at half-integer offsets, so no line vertex coincides with a polygon
// vertex; the remaining incidences (a vertex on a slanted edge) are rejected by exact int64 tests.
package main

import (
	"bufio"
	"fmt"
	"os"

	"github.com/ctessum/geom"

	"verif/harness/cmd/c01/shapes"
	"verif/harness/vproto"
)

type ipt = shapes.Pt

func ev(r *vproto.Rng, lo, hi int64) int64 { // random even value in [lo, hi]
	if hi < lo {
		hi = lo
	}
	v := int64(r.Range(int(lo), int(hi)))
	if v%2 != 0 {
		v++
	}
	return v
}

func segMeetsRings(a, b ipt, rs []shapes.Ring) bool {
	for _, rg := range rs {
		for i := range rg {
			c, d := rg.Edge(i)
			if shapes.Meet(a, b, c, d) {
				return true
			}
		}
	}
	return false
}

func segTouchesRings(a, b ipt, rs []shapes.Ring) bool {
	for _, rg := range rs {
		for i := range rg {
			c, d := rg.Edge(i)
			if shapes.Touch(a, b, c, d) {
				return true
			}
		}
	}
	return false
}

// canAppend: the segment last→q keeps the path simple.
func canAppend(path []ipt, q ipt) bool {
	n := len(path)
	if n == 0 {
		return true
	}
	a := path[n-1]
	if a == q {
		return false
	}
	for i := 0; i+1 < n; i++ {
		c, d := path[i], path[i+1]
		if i+1 == n-1 {
			// adjacent: share vertex d == a only
			if shapes.OnSeg(a, q, c) || shapes.OnSeg(c, d, q) {
				return false
			}
		} else if shapes.Meet(a, q, c, d) {
			return false
		}
	}
	return true
}

func pathsMeet(p, q []ipt) bool {
	for i := 0; i+1 < len(p); i++ {
		for j := 0; j+1 < len(q); j++ {
			if shapes.Meet(p[i], p[i+1], q[j], q[j+1]) {
				return true
			}
		}
	}
	return false
}

func gpPath(p []ipt, rs []shapes.Ring) bool {
	for i := 0; i+1 < len(p); i++ {
		if segTouchesRings(p[i], p[i+1], rs) {
			return false
		}
	}
	return true
}

// genPath produces one simple path of the requested style relative to polygon rings rs with box mn..mx.
func genPath(r *vproto.Rng, style int, rs []shapes.Ring, mn, mx ipt) []ipt {
	var path []ipt
	add := func(q ipt) bool {
		if canAppend(path, q) {
			path = append(path, q)
			return true
		}
		return false
	}
	switch style {
	case 0: // random walk over the box grown by a margin
		n := r.Range(2, 7)
		for try := 0; try < 60 && len(path) < n; try++ {
			add(ipt{X: ev(r, mn.X-6, mx.X+6), Y: ev(r, mn.Y-6, mx.Y+6)})
		}
	case 1: // zigzag: many crossings
		x := mn.X - int64(2*r.Range(1, 3))
		up := r.Bool()
		for x < mx.X+6 && len(path) < 14 {
			var y int64
			switch r.Intn(4) {
			case 0:
				y = ev(r, mn.Y, mx.Y)
			default:
				if up {
					y = mx.Y + int64(2*r.Range(1, 3))
				} else {
					y = mn.Y - int64(2*r.Range(1, 3))
				}
				up = !up
			}
			add(ipt{X: x - x%2, Y: y - y%2})
			x += int64(2 * r.Range(1, 4))
		}
	case 2, 3: // entirely inside (2) / entirely outside within the box (3): no segment meets the boundary
		want := 1
		if style == 3 {
			want = 0
		}
		n := r.Range(2, 9)
		for try := 0; try < 300 && len(path) < n; try++ {
			q := ipt{X: ev(r, mn.X-2*int64(1-want), mx.X+2*int64(1-want)), Y: ev(r, mn.Y-2*int64(1-want), mx.Y+2*int64(1-want))}
			if shapes.InRings(rs, q) != want {
				continue
			}
			if len(path) > 0 && segMeetsRings(path[len(path)-1], q, rs) {
				continue
			}
			add(q)
		}
	case 4: // far away: boxes disjoint
		w := mx.X - mn.X + 8
		n := r.Range(2, 5)
		sx, sy := int64(1), int64(0)
		if r.Bool() {
			sx, sy = 0, 1
		}
		if r.Bool() {
			sx, sy = -sx, -sy
		}
		h := mx.Y - mn.Y + 8
		for try := 0; try < 60 && len(path) < n; try++ {
			q := ipt{X: ev(r, mn.X, mx.X), Y: ev(r, mn.Y, mx.Y)}
			q.X += sx * (w + w%2)
			q.Y += sy * (h + h%2)
			add(q)
		}
	case 6: // starts inside, leaves, comes back: first and last vertex inside, a middle vertex outside
		pick := func(want int) (ipt, bool) {
			for try := 0; try < 80; try++ {
				q := ipt{X: ev(r, mn.X-4, mx.X+4), Y: ev(r, mn.Y-4, mx.Y+4)}
				if shapes.InRings(rs, q) == want {
					return q, true
				}
			}
			return ipt{}, false
		}
		for _, want := range []int{1, 0, 1, 0, 1}[:3+2*r.Intn(2)] {
			if q, ok := pick(want); ok {
				add(q)
			}
		}
	case 7: // ALL vertices strictly inside P, yet some segment leaves P (over a hole, a notch, a gap between members)
		n := 2
		if r.Bool() {
			n = r.Range(3, 6)
		}
		crossed := false
		for try := 0; try < 400 && len(path) < n; try++ {
			q := ipt{X: ev(r, mn.X, mx.X), Y: ev(r, mn.Y, mx.Y)}
			if shapes.InRings(rs, q) != 1 {
				continue
			}
			m := len(path) > 0 && segMeetsRings(path[len(path)-1], q, rs)
			if len(path) == n-1 && !crossed && !m {
				continue // the last segment must do the crossing
			}
			if add(q) && m {
				crossed = true
			}
		}
		if !crossed {
			return nil
		}
	default: // straight through the middle, 2-3 vertices, starts and ends outside
		cy := ev(r, mn.Y, mx.Y)
		add(ipt{X: mn.X - 3 - (mn.X-3)%2 - 2, Y: cy})
		if r.Bool() {
			add(ipt{X: ev(r, mn.X, mx.X), Y: ev(r, mn.Y, mx.Y)})
		}
		add(ipt{X: mx.X + 3 - (mx.X+3)%2 + 2, Y: ev(r, mn.Y, mx.Y)})
	}
	return path
}

// notchyShape: a region that two inside points can see each other across: a polygon with holes, a
// comb / U shape, or a multi-polygon of several members.
func notchyShape(r *vproto.Rng, kind string) shapes.Shape {
	if kind == "MPG" {
		for try := 0; try < 20; try++ {
			s := shapes.GenShape(r, "MPG", true)
			if len(s.Polys) >= 2 {
				return s
			}
		}
	}
	var pg shapes.Poly
	switch r.Intn(3) {
	case 0: // comb: tall and short columns alternate
		cols := 2*r.Range(1, 3) + 1
		ring := shapes.Ring{{X: 0, Y: 0}}
		x := int64(0)
		var top []shapes.Pt
		for c := 0; c < cols; c++ {
			w := int64(r.Range(1, 3))
			h := int64(r.Range(5, 8))
			if c%2 == 1 {
				h = int64(r.Range(1, 2))
			}
			top = append(top, shapes.Pt{X: x, Y: h}, shapes.Pt{X: x + w, Y: h})
			x += w
		}
		ring = append(ring, shapes.Pt{X: x, Y: 0})
		for i := len(top) - 1; i >= 0; i-- {
			ring = append(ring, top[i])
		}
		pg = shapes.Poly{ring}
	default: // holes
		for try := 0; try < 20; try++ {
			var sh shapes.Ring
			if r.Bool() {
				sh = shapes.RectRing(0, 0, int64(r.Range(6, 14)), int64(r.Range(6, 14)))
			} else {
				sh = shapes.Star(r, r.Range(4, 9), float64(r.Range(7, 12)))
			}
			pg = shapes.AddHoles(r, sh, r.Range(1, 2))
			if len(pg) > 1 {
				break
			}
		}
	}
	if kind == "MPG" {
		return shapes.Shape{Kind: "MPG", Polys: []shapes.Poly{pg}}
	}
	return shapes.Shape{Kind: "PG", Polys: []shapes.Poly{pg}} // a box has neither holes nor notches
}

func toLS(p []ipt) geom.LineString {
	l := make(geom.LineString, len(p))
	for i, q := range p {
		l[i] = geom.Point{X: float64(q.X) / 2, Y: float64(q.Y) / 2}
	}
	return l
}

var kinds = []string{"PG", "MPG", "B"}
var styleCycle = []int{0, 1, 2, 3, 4, 5, 6, 7, 1, 1, 5, 2, 0, 6, 7}

func gen(seed uint64, tier string) {
	out := bufio.NewWriter(os.Stdout)
	defer out.Flush()
	r := vproto.NewRng(seed)
	n := 3000
	if tier == "thorough" {
		n = 120000
	}
	emit := func(l geom.Geom, p geom.Geom) {
		fmt.Fprintf(out, "clip %s | %s\n", vproto.GeomToks(l), vproto.GeomToks(p))
	}
	// fixed corpus
	sq := geom.Polygon{{{X: 1, Y: 0}, {X: 4, Y: 0}, {X: 4, Y: 3}, {X: 1, Y: 3}}, {{X: 2, Y: 0.5}, {X: 3, Y: 0.5}, {X: 3, Y: 2.5}, {X: 2, Y: 2.5}}}
	tc := geom.LineString{{X: 0, Y: 1}, {X: 1.25, Y: 1}, {X: 1.5, Y: 1.1}, {X: 1.75, Y: 1}, {X: 5, Y: 1}, {X: 5, Y: 2}, {X: 0, Y: 2}}
	emit(tc, sq) // TestClip
	emit(geom.MultiLineString{tc}, sq)
	unit := geom.Polygon{{{X: 0.5, Y: 0.5}, {X: 4.5, Y: 0.5}, {X: 4.5, Y: 4.5}, {X: 0.5, Y: 4.5}, {X: 0.5, Y: 0.5}}}
	for _, l := range []geom.Geom{
		geom.LineString{{X: 0, Y: 2}, {X: 6, Y: 2}},                // through
		geom.LineString{{X: 0, Y: 2}, {X: 2, Y: 2}},                // crossing once
		geom.LineString{{X: 1, Y: 1}, {X: 3, Y: 2}},                // inside, 2 vertices
		geom.LineString{{X: 1, Y: 1}, {X: 3, Y: 2}, {X: 2, Y: 4}},  // inside, 3 vertices
		geom.LineString{{X: 10, Y: 10}, {X: 12, Y: 11}},            // box-disjoint
		geom.LineString{{X: 0, Y: 6}, {X: 6, Y: 5}},                // box-overlapping, outside
		geom.LineString{},                                          // degenerate receivers
		geom.LineString{{X: 1, Y: 1}},
		geom.MultiLineString{},
		geom.MultiLineString{{}, {{X: 0, Y: 2}, {X: 6, Y: 2}}},
		geom.MultiLineString{{{X: 0, Y: 1}, {X: 6, Y: 1}}, {{X: 0, Y: 3}, {X: 6, Y: 3}}, {{X: 1, Y: 2}, {X: 3, Y: 2}}},
	} {
		emit(l, unit)
		emit(l, &geom.Bounds{Min: geom.Point{X: 0.5, Y: 0.5}, Max: geom.Point{X: 4.5, Y: 4.5}})
		emit(l, geom.MultiPolygon{unit, {{{X: 5.5, Y: 0.5}, {X: 7.5, Y: 0.5}, {X: 6.5, Y: 3.5}}}})
		emit(l, geom.Polygon{})
	}
	// all vertices inside, a segment over a hole / a notch / the gap between members (2-vertex and longer)
	ushape := geom.Polygon{{{X: 0.5, Y: 0.5}, {X: 6.5, Y: 0.5}, {X: 6.5, Y: 5.5}, {X: 4.5, Y: 5.5}, {X: 4.5, Y: 2.5}, {X: 2.5, Y: 2.5}, {X: 2.5, Y: 5.5}, {X: 0.5, Y: 5.5}}}
	twins := geom.MultiPolygon{{{{X: 0.5, Y: 0.5}, {X: 2.5, Y: 0.5}, {X: 2.5, Y: 2.5}, {X: 0.5, Y: 2.5}}}, {{{X: 3.5, Y: 0.5}, {X: 5.5, Y: 0.5}, {X: 5.5, Y: 2.5}, {X: 3.5, Y: 2.5}}}}
	for _, c := range []struct {
		l geom.LineString
		p geom.Geom
	}{
		{geom.LineString{{X: 1.5, Y: 1}, {X: 3.5, Y: 2}}, sq},
		{geom.LineString{{X: 1.5, Y: 1}, {X: 3.5, Y: 1.5}, {X: 1.5, Y: 2.75}}, sq},
		{geom.LineString{{X: 1, Y: 4}, {X: 6, Y: 5}}, ushape},
		{geom.LineString{{X: 1, Y: 1}, {X: 1, Y: 4}, {X: 6, Y: 5}, {X: 6, Y: 1}}, ushape},
		{geom.LineString{{X: 1, Y: 1}, {X: 5, Y: 2}}, twins},
		{geom.LineString{{X: 1, Y: 2}, {X: 2, Y: 1}, {X: 4, Y: 2}, {X: 5, Y: 1}}, twins},
	} {
		emit(c.l, c.p)
		emit(geom.MultiLineString{c.l}, c.p)
	}
	for i := 0; i < n; i++ {
		kind := kinds[i%3]
		style0 := styleCycle[(i/3)%len(styleCycle)]
		var P0 shapes.Shape
		if style0 == 7 {
			P0 = notchyShape(r, kind)
		} else {
			P0 = shapes.GenShape(r, kind, true)
		}
		P := P0.Scale(2, 1, 1)
		dx, dy := 2*int64(r.Range(-4, 4)), 2*int64(r.Range(-4, 4))
		P = P.Translate(dx, dy)
		rs := P.Rings()
		mn, mx, _ := P.BBox()
		style := styleCycle[(i/3)%len(styleCycle)]
		members := 1
		multi := (i/45)%2 == 1
		if multi {
			members = r.Range(1, 4)
		}
		var paths [][]ipt
		for m := 0; m < members; m++ {
			st := style
			if m > 0 {
				st = r.Intn(8)
			}
			for try := 0; try < 12; try++ {
				p := genPath(r, st, rs, mn, mx)
				if len(p) < 2 || !gpPath(p, rs) {
					continue
				}
				clash := false
				for _, q := range paths {
					if pathsMeet(p, q) {
						clash = true
					}
				}
				if !clash {
					paths = append(paths, p)
					break
				}
			}
		}
		if len(paths) == 0 {
			paths = [][]ipt{{{X: mn.X - 4 - (mn.X-4)%2 - 2, Y: mn.Y - mn.Y%2}, {X: mx.X + 4 - (mx.X+4)%2 + 2, Y: mn.Y - mn.Y%2 + 2}}}
			if !gpPath(paths[0], rs) {
				paths[0][1].Y += 2
			}
		}
		pg := P.ToGeom(2, r.Intn(5) != 0)
		if multi {
			ml := geom.MultiLineString{}
			for _, p := range paths {
				ml = append(ml, toLS(p))
			}
			emit(ml, pg)
		} else {
			emit(toLS(paths[0]), pg)
		}
	}
}

func impl() {
	vproto.Lines(func(line string, out *bufio.Writer) {
		defer out.Flush()
		var res string
		msg := vproto.Safe(func() {
			p := vproto.NewParser(line)
			if p.Next() != "clip" {
				panic("harness: expected clip")
			}
			l, _ := p.Geom().(geom.Linear)
			if p.Next() != "|" {
				panic("harness: expected |")
			}
			pg, _ := p.Geom().(geom.Polygonal)
			res = "ok " + vproto.GeomToks(l.Clip(pg))
		})
		if msg != "" {
			res = "panic " + msg
		}
		fmt.Fprintf(out, "%s => %s\n", line, res)
	})
}

func main() {
	if len(os.Args) < 2 {
		fmt.Fprintln(os.Stderr, "usage: c14 gen --seed S --tier T | impl")
		os.Exit(2)
	}
	switch os.Args[1] {
	case "gen":
		seed, tier := vproto.SeedTier(os.Args[2:])
		gen(seed, tier)
	case "impl":
		impl()
	default:
		os.Exit(2)
	}
}
