// Harness for C14 (Clip returns exactly the parts of a line inside the polygon). Subcommands:
//
//	gen --seed S --tier T   write case lines:  clip <LS|MLS geom> | <PG|MPG|B geom>
//	impl                    read case lines, run the real code, append " => ok <MLS geom>" / " => panic <msg>"
//
// Geometry is generated in doubled integer coordinates: polygon vertices odd, line vertices even,
// then halved — polygons sit at half-integer offsets, so no line vertex coincides with a polygon
// vertex; the remaining incidences (a vertex on a slanted edge) are rejected by exact int64 tests.
package main

import (
	"bufio"
	"fmt"
	"math"
	"os"
	"strings"

	"github.com/ctessum/geom"

	"verif/harness/cmd/c01/shapes"
	"verif/harness/vproto"
)

type ipt = shapes.Pt

func ev(r *vproto.Rng, lo, hi int64) int64 { // random even value in [lo, hi]
	if hi < lo {
		hi = lo
	}
	v := int64(r.Range(int(lo), int(hi)))
	if v%2 != 0 {
		v++
	}
	return v
}

func segMeetsRings(a, b ipt, rs []shapes.Ring) bool {
	for _, rg := range rs {
		for i := range rg {
			c, d := rg.Edge(i)
			if shapes.Meet(a, b, c, d) {
				return true
			}
		}
	}
	return false
}

func segTouchesRings(a, b ipt, rs []shapes.Ring) bool {
	for _, rg := range rs {
		for i := range rg {
			c, d := rg.Edge(i)
			if shapes.Touch(a, b, c, d) {
				return true
			}
		}
	}
	return false
}

// canAppend: the segment last→q keeps the path simple.
func canAppend(path []ipt, q ipt) bool {
	n := len(path)
	if n == 0 {
		return true
	}
	a := path[n-1]
	if a == q {
		return false
	}
	for i := 0; i+1 < n; i++ {
		c, d := path[i], path[i+1]
		if i+1 == n-1 {
			// adjacent: share vertex d == a only
			if shapes.OnSeg(a, q, c) || shapes.OnSeg(c, d, q) {
				return false
			}
		} else if shapes.Meet(a, q, c, d) {
			return false
		}
	}
	return true
}

func pathsMeet(p, q []ipt) bool {
	for i := 0; i+1 < len(p); i++ {
		for j := 0; j+1 < len(q); j++ {
			if shapes.Meet(p[i], p[i+1], q[j], q[j+1]) {
				return true
			}
		}
	}
	return false
}

func gpPath(p []ipt, rs []shapes.Ring) bool {
	for i := 0; i+1 < len(p); i++ {
		if segTouchesRings(p[i], p[i+1], rs) {
			return false
		}
	}
	return true
}

// genPath produces one simple path of the requested style relative to polygon rings rs with box mn..mx.
func genPath(r *vproto.Rng, style int, rs []shapes.Ring, mn, mx ipt) []ipt {
	var path []ipt
	add := func(q ipt) bool {
		if canAppend(path, q) {
			path = append(path, q)
			return true
		}
		return false
	}
	switch style {
	case 0: // random walk over the box grown by a margin
		n := r.Range(2, 7)
		for try := 0; try < 60 && len(path) < n; try++ {
			add(ipt{X: ev(r, mn.X-6, mx.X+6), Y: ev(r, mn.Y-6, mx.Y+6)})
		}
	case 1: // zigzag: many crossings
		x := mn.X - int64(2*r.Range(1, 3))
		up := r.Bool()
		for x < mx.X+6 && len(path) < 14 {
			var y int64
			switch r.Intn(4) {
			case 0:
				y = ev(r, mn.Y, mx.Y)
			default:
				if up {
					y = mx.Y + int64(2*r.Range(1, 3))
				} else {
					y = mn.Y - int64(2*r.Range(1, 3))
				}
				up = !up
			}
			add(ipt{X: x - x%2, Y: y - y%2})
			x += int64(2 * r.Range(1, 4))
		}
	case 2, 3: // entirely inside (2) / entirely outside within the box (3): no segment meets the boundary
		want := 1
		if style == 3 {
			want = 0
		}
		n := r.Range(2, 9)
		for try := 0; try < 300 && len(path) < n; try++ {
			q := ipt{X: ev(r, mn.X-2*int64(1-want), mx.X+2*int64(1-want)), Y: ev(r, mn.Y-2*int64(1-want), mx.Y+2*int64(1-want))}
			if shapes.InRings(rs, q) != want {
				continue
			}
			if len(path) > 0 && segMeetsRings(path[len(path)-1], q, rs) {
				continue
			}
			add(q)
		}
	case 4: // far away: boxes disjoint
		w := mx.X - mn.X + 8
		n := r.Range(2, 5)
		sx, sy := int64(1), int64(0)
		if r.Bool() {
			sx, sy = 0, 1
		}
		if r.Bool() {
			sx, sy = -sx, -sy
		}
		h := mx.Y - mn.Y + 8
		for try := 0; try < 60 && len(path) < n; try++ {
			q := ipt{X: ev(r, mn.X, mx.X), Y: ev(r, mn.Y, mx.Y)}
			q.X += sx * (w + w%2)
			q.Y += sy * (h + h%2)
			add(q)
		}
	case 6: // starts inside, leaves, comes back: first and last vertex inside, a middle vertex outside
		pick := func(want int) (ipt, bool) {
			for try := 0; try < 80; try++ {
				q := ipt{X: ev(r, mn.X-4, mx.X+4), Y: ev(r, mn.Y-4, mx.Y+4)}
				if shapes.InRings(rs, q) == want {
					return q, true
				}
			}
			return ipt{}, false
		}
		for _, want := range []int{1, 0, 1, 0, 1}[:3+2*r.Intn(2)] {
			if q, ok := pick(want); ok {
				add(q)
			}
		}
	case 7: // ALL vertices strictly inside P, yet some segment leaves P (over a hole, a notch, a gap between members)
		n := 2
		if r.Bool() {
			n = r.Range(3, 6)
		}
		crossed := false
		for try := 0; try < 400 && len(path) < n; try++ {
			q := ipt{X: ev(r, mn.X, mx.X), Y: ev(r, mn.Y, mx.Y)}
			if shapes.InRings(rs, q) != 1 {
				continue
			}
			m := len(path) > 0 && segMeetsRings(path[len(path)-1], q, rs)
			if len(path) == n-1 && !crossed && !m {
				continue // the last segment must do the crossing
			}
			if add(q) && m {
				crossed = true
			}
		}
		if !crossed {
			return nil
		}
	default: // straight through the middle, 2-3 vertices, starts and ends outside
		cy := ev(r, mn.Y, mx.Y)
		add(ipt{X: mn.X - 3 - (mn.X-3)%2 - 2, Y: cy})
		if r.Bool() {
			add(ipt{X: ev(r, mn.X, mx.X), Y: ev(r, mn.Y, mx.Y)})
		}
		add(ipt{X: mx.X + 3 - (mx.X+3)%2 + 2, Y: ev(r, mn.Y, mx.Y)})
	}
	return path
}

// notchyShape: a region that two inside points can see each other across: a polygon with holes, a
// comb / U shape, or a multi-polygon of several members.
func notchyShape(r *vproto.Rng, kind string) shapes.Shape {
	if kind == "MPG" {
		for try := 0; try < 20; try++ {
			s := shapes.GenShape(r, "MPG", true)
			if len(s.Polys) >= 2 {
				return s
			}
		}
	}
	var pg shapes.Poly
	switch r.Intn(3) {
	case 0: // comb: tall and short columns alternate
		cols := 2*r.Range(1, 3) + 1
		ring := shapes.Ring{{X: 0, Y: 0}}
		x := int64(0)
		var top []shapes.Pt
		for c := 0; c < cols; c++ {
			w := int64(r.Range(1, 3))
			h := int64(r.Range(5, 8))
			if c%2 == 1 {
				h = int64(r.Range(1, 2))
			}
			top = append(top, shapes.Pt{X: x, Y: h}, shapes.Pt{X: x + w, Y: h})
			x += w
		}
		ring = append(ring, shapes.Pt{X: x, Y: 0})
		for i := len(top) - 1; i >= 0; i-- {
			ring = append(ring, top[i])
		}
		pg = shapes.Poly{ring}
	default: // holes
		for try := 0; try < 20; try++ {
			var sh shapes.Ring
			if r.Bool() {
				sh = shapes.RectRing(0, 0, int64(r.Range(6, 14)), int64(r.Range(6, 14)))
			} else {
				sh = shapes.Star(r, r.Range(4, 9), float64(r.Range(7, 12)))
			}
			pg = shapes.AddHoles(r, sh, r.Range(1, 2))
			if len(pg) > 1 {
				break
			}
		}
	}
	if kind == "MPG" {
		return shapes.Shape{Kind: "MPG", Polys: []shapes.Poly{pg}}
	}
	return shapes.Shape{Kind: "PG", Polys: []shapes.Poly{pg}} // a box has neither holes nor notches
}

func toLS(p []ipt) geom.LineString {
	l := make(geom.LineString, len(p))
	for i, q := range p {
		l[i] = geom.Point{X: float64(q.X) / 2, Y: float64(q.Y) / 2}
	}
	return l
}

var kinds = []string{"PG", "MPG", "B"}
var styleCycle = []int{0, 1, 2, 3, 4, 5, 6, 7, 1, 1, 5, 2, 0, 6, 7}

func gen(seed uint64, tier string) {
	out := bufio.NewWriter(os.Stdout)
	defer out.Flush()
	r := vproto.NewRng(seed)
	n := 3000
	if tier == "thorough" {
		n = 120000
	}
	emit := func(l geom.Geom, p geom.Geom) {
		fmt.Fprintf(out, "clip %s | %s\n", vproto.GeomToks(l), vproto.GeomToks(p))
	}
	// fixed corpus
	sq := geom.Polygon{{{X: 1, Y: 0}, {X: 4, Y: 0}, {X: 4, Y: 3}, {X: 1, Y: 3}}, {{X: 2, Y: 0.5}, {X: 3, Y: 0.5}, {X: 3, Y: 2.5}, {X: 2, Y: 2.5}}}
	tc := geom.LineString{{X: 0, Y: 1}, {X: 1.25, Y: 1}, {X: 1.5, Y: 1.1}, {X: 1.75, Y: 1}, {X: 5, Y: 1}, {X: 5, Y: 2}, {X: 0, Y: 2}}
	emit(tc, sq) // TestClip
	emit(geom.MultiLineString{tc}, sq)
	unit := geom.Polygon{{{X: 0.5, Y: 0.5}, {X: 4.5, Y: 0.5}, {X: 4.5, Y: 4.5}, {X: 0.5, Y: 4.5}, {X: 0.5, Y: 0.5}}}
	for _, l := range []geom.Geom{
		geom.LineString{{X: 0, Y: 2}, {X: 6, Y: 2}},                // through
		geom.LineString{{X: 0, Y: 2}, {X: 2, Y: 2}},                // crossing once
		geom.LineString{{X: 1, Y: 1}, {X: 3, Y: 2}},                // inside, 2 vertices
		geom.LineString{{X: 1, Y: 1}, {X: 3, Y: 2}, {X: 2, Y: 4}},  // inside, 3 vertices
		geom.LineString{{X: 10, Y: 10}, {X: 12, Y: 11}},            // box-disjoint
		geom.LineString{{X: 0, Y: 6}, {X: 6, Y: 5}},                // box-overlapping, outside
		geom.LineString{},                                          // degenerate receivers
		geom.LineString{{X: 1, Y: 1}},
		geom.MultiLineString{},
		geom.MultiLineString{{}, {{X: 0, Y: 2}, {X: 6, Y: 2}}},
		geom.MultiLineString{{{X: 0, Y: 1}, {X: 6, Y: 1}}, {{X: 0, Y: 3}, {X: 6, Y: 3}}, {{X: 1, Y: 2}, {X: 3, Y: 2}}},
	} {
		emit(l, unit)
		emit(l, &geom.Bounds{Min: geom.Point{X: 0.5, Y: 0.5}, Max: geom.Point{X: 4.5, Y: 4.5}})
		emit(l, geom.MultiPolygon{unit, {{{X: 5.5, Y: 0.5}, {X: 7.5, Y: 0.5}, {X: 6.5, Y: 3.5}}}})
		emit(l, geom.Polygon{})
	}
	// all vertices inside, a segment over a hole / a notch / the gap between members (2-vertex and longer)
	ushape := geom.Polygon{{{X: 0.5, Y: 0.5}, {X: 6.5, Y: 0.5}, {X: 6.5, Y: 5.5}, {X: 4.5, Y: 5.5}, {X: 4.5, Y: 2.5}, {X: 2.5, Y: 2.5}, {X: 2.5, Y: 5.5}, {X: 0.5, Y: 5.5}}}
	twins := geom.MultiPolygon{{{{X: 0.5, Y: 0.5}, {X: 2.5, Y: 0.5}, {X: 2.5, Y: 2.5}, {X: 0.5, Y: 2.5}}}, {{{X: 3.5, Y: 0.5}, {X: 5.5, Y: 0.5}, {X: 5.5, Y: 2.5}, {X: 3.5, Y: 2.5}}}}
	for _, c := range []struct {
		l geom.LineString
		p geom.Geom
	}{
		{geom.LineString{{X: 1.5, Y: 1}, {X: 3.5, Y: 2}}, sq},
		{geom.LineString{{X: 1.5, Y: 1}, {X: 3.5, Y: 1.5}, {X: 1.5, Y: 2.75}}, sq},
		{geom.LineString{{X: 1, Y: 4}, {X: 6, Y: 5}}, ushape},
		{geom.LineString{{X: 1, Y: 1}, {X: 1, Y: 4}, {X: 6, Y: 5}, {X: 6, Y: 1}}, ushape},
		{geom.LineString{{X: 1, Y: 1}, {X: 5, Y: 2}}, twins},
		{geom.LineString{{X: 1, Y: 2}, {X: 2, Y: 1}, {X: 4, Y: 2}, {X: 5, Y: 1}}, twins},
	} {
		emit(c.l, c.p)
		emit(geom.MultiLineString{c.l}, c.p)
	}
	// networks: members that meet at end points (two routes between the same junctions, branches)
	big := geom.Polygon{{{X: 0.5, Y: 0.5}, {X: 10.5, Y: 0.5}, {X: 10.5, Y: 10.5}, {X: 0.5, Y: 10.5}, {X: 0.5, Y: 0.5}}}
	band := geom.Polygon{{{X: 0.5, Y: 3.5}, {X: 10.5, Y: 3.5}, {X: 10.5, Y: 6.5}, {X: 0.5, Y: 6.5}, {X: 0.5, Y: 3.5}}}
	low := geom.Polygon{{{X: 3.5, Y: 0.5}, {X: 6.5, Y: 0.5}, {X: 6.5, Y: 3.5}, {X: 3.5, Y: 3.5}, {X: 3.5, Y: 0.5}}} // only the lower route enters
	ra := geom.LineString{{X: 2, Y: 5}, {X: 5, Y: 8}, {X: 8, Y: 5}}
	rb := geom.LineString{{X: 2, Y: 5}, {X: 5, Y: 2}, {X: 8, Y: 5}}
	rbr := geom.LineString{{X: 8, Y: 5}, {X: 5, Y: 2}, {X: 2, Y: 5}}
	rc := geom.LineString{{X: 2, Y: 5}, {X: 5, Y: 2}, {X: 6, Y: 3}, {X: 8, Y: 5}}
	rd := geom.LineString{{X: 8, Y: 5}, {X: 9, Y: 9}}
	for _, pg := range []geom.Geom{big, band, low, &geom.Bounds{Min: geom.Point{X: 0.5, Y: 0.5}, Max: geom.Point{X: 10.5, Y: 10.5}}} {
		for _, ml := range []geom.MultiLineString{{ra, rb}, {rb, ra}, {ra, rbr}, {ra, rc}, {rc, ra}, {ra, rd}, {ra, rb, rd}} {
			emit(ml, pg)
		}
	}
	// dyadic scale families of the TestClip figure (absolute thresholds) and corner nicks
	for _, k := range []int{-10, -20, -24, -30, 20} {
		f := math.Ldexp(1, k)
		emit(shapes.ScaleGeom(tc, f), shapes.ScaleGeom(sq, f))
		emit(shapes.ScaleGeom(geom.MultiLineString{tc}, f), shapes.ScaleGeom(sq, f))
	}
	nicks(r, emit)
	longLines(r, emit)
	for i := 0; i < n; i++ {
		kind := kinds[i%3]
		style := styleCycle[(i/3)%len(styleCycle)]
		multi := (i/45)%2 == 1
		P := placedShape(r, kind, style)
		l := makeLine(r, P, style, multi)
		f := scaleFor(r)
		emit(shapes.ScaleGeom(l, f), shapes.ScaleGeom(P.ToGeom(2, r.Intn(5) != 0), f))
	}
	// histories: the SAME polygon object, its coordinates overwritten in place between calls
	nh := n / 40
	for h := 0; h < nh; h++ {
		kind := kinds[h%3]
		P0 := shapes.GenShape(r, kind, true)
		if h%2 == 0 && kind != "B" {
			P0 = notchyShape(r, kind)
		}
		closed := r.Intn(5) != 0
		steps := r.Range(2, 4)
		var sb strings.Builder
		sb.WriteString("hclip")
		for k := 0; k < steps; k++ {
			// slide and dilate: every version has the same ring and vertex counts
			P := P0.Scale(2*int64(r.Range(1, 3)), 1+2*int64(r.Range(-6, 6)), 1+2*int64(r.Range(-6, 6)))
			style := styleCycle[r.Intn(len(styleCycle))]
			if style == 7 && (kind == "B" || h%2 != 0) {
				style = 0
			}
			l := makeLine(r, P, style, (h/3)%2 == 1)
			if k > 0 {
				sb.WriteString(" ;;")
			}
			// every third history changes the coordinate scale between its calls (the same object is tiny in one call and
			// of ordinary size in the next): nothing derived from an operand may be remembered across calls
			f := 1.0
			if h%3 == 2 {
				f = math.Ldexp(1, []int{0, -30, -40, -60, 0, -400}[r.Intn(6)])
			}
			fmt.Fprintf(&sb, " %s | %s", vproto.GeomToks(shapes.ScaleGeom(l, f)), vproto.GeomToks(shapes.ScaleGeom(P.ToGeom(2, closed), f)))
		}
		fmt.Fprintln(out, sb.String())
	}
	// concurrent callers (conc.go)
	ncc := n / 30
	if ncc > 1500 {
		ncc = 1500
	}
	for i := 0; i < ncc; i++ {
		kind := kinds[i%3]
		style := styleCycle[r.Intn(len(styleCycle))]
		P := placedShape(r, kind, style)
		l := makeLine(r, P, style, i%2 == 1)
		f := scaleFor(r)
		fmt.Fprintf(out, "cc %s | %s\n", vproto.GeomToks(shapes.ScaleGeom(l, f)), vproto.GeomToks(shapes.ScaleGeom(P.ToGeom(2, r.Intn(5) != 0), f)))
	}
	// closed cycles of member lines through shared junctions, very many members, empty member polygons
	cycleCorpus(emit)
	cycleCases(r, n/20, emit)
	manyMembers(r, tier, emit)
	emptyMemberCases(r, n/60, emit)
	affineCases(r, n/25, emit)
	quadCases(r, n/25, emit)
	knownCorpus(emit)
	// phase 4 (quadrants.go): one-quadrant placements at tiny scales; lines inside the bounding box of a slanted hole / on an island
	quadrantCorpus(emit)
	capN := func(k, mx int) int {
		if k > mx {
			return mx
		}
		return k
	}
	quadrantCases(r, capN(n/15, 3500), emit)
	holeBoxCases(r, capN(n/25, 2500), emit)
	farMemberCases(r, capN(n/40, 1500), emit)
}

// scaleFor picks the coordinate scale of a case: mostly 1, otherwise a power of two.
func scaleFor(r *vproto.Rng) float64 {
	switch r.Intn(10) {
	case 0:
		return math.Ldexp(1, -20)
	case 1:
		return math.Ldexp(1, -24)
	case 2:
		// far below the size at which the clipper's absolute tolerances bite (clipLine scales these up)
		return math.Ldexp(1, []int{-30, -30, -40, -60, -400}[r.Intn(5)])
	case 3:
		return math.Ldexp(1, 20)
	}
	return 1
}

// placedShape generates the polygonal operand (doubled coordinates, odd).
func placedShape(r *vproto.Rng, kind string, style int) shapes.Shape {
	var P0 shapes.Shape
	if style == 7 {
		P0 = notchyShape(r, kind)
	} else {
		P0 = shapes.GenShape(r, kind, true)
	}
	return P0.Scale(2, 1, 1).Translate(2*int64(r.Range(-4, 4)), 2*int64(r.Range(-4, 4)))
}

// makeLine generates a simple line / multi-line string in general position w.r.t. P.
func makeLine(r *vproto.Rng, P shapes.Shape, style int, multi bool) geom.Geom {
	rs := P.Rings()
	mn, mx, _ := P.BBox()
	members := 1
	if multi {
		members = r.Range(1, 4)
		if r.Intn(2) == 0 {
			if net := networkLines(r, P, style); net != nil {
				ml := geom.MultiLineString{}
				for _, p := range net {
					ml = append(ml, toLS(p))
				}
				return ml
			}
		}
	}
	var paths [][]ipt
	for m := 0; m < members; m++ {
		st := style
		if m > 0 {
			st = r.Intn(8)
		}
		for try := 0; try < 12; try++ {
			p := genPath(r, st, rs, mn, mx)
			if len(p) < 2 || !gpPath(p, rs) {
				continue
			}
			clash := false
			for _, q := range paths {
				if pathsMeet(p, q) {
					clash = true
				}
			}
			if !clash {
				paths = append(paths, p)
				break
			}
		}
	}
	if len(paths) == 0 {
		paths = [][]ipt{{{X: mn.X - 4 - (mn.X-4)%2 - 2, Y: mn.Y - mn.Y%2}, {X: mx.X + 4 - (mx.X+4)%2 + 2, Y: mn.Y - mn.Y%2 + 2}}}
		if !gpPath(paths[0], rs) {
			paths[0][1].Y += 2
		}
	}
	if multi {
		ml := geom.MultiLineString{}
		for _, p := range paths {
			ml = append(ml, toLS(p))
		}
		return ml
	}
	return toLS(paths[0])
}

// contactOK: segments e of path p1 and f of path p2 are disjoint or meet exactly in a common end
// point of both paths.
func contactOK(a, b, c, d ipt, ends1, ends2 [2]ipt) bool {
	if !shapes.Meet(a, b, c, d) {
		return true
	}
	isEnd := func(v ipt, e [2]ipt) bool { return v == e[0] || v == e[1] }
	for _, ev := range [][2]ipt{{a, b}, {b, a}} {
		for _, fv := range [][2]ipt{{c, d}, {d, c}} {
			v, x, w, y := ev[0], ev[1], fv[0], fv[1]
			if v == w && isEnd(v, ends1) && isEnd(v, ends2) && !shapes.OnSeg(c, d, x) && !shapes.OnSeg(a, b, y) {
				return true
			}
		}
	}
	return false
}

func networkOK(p1, p2 []ipt) bool {
	e1 := [2]ipt{p1[0], p1[len(p1)-1]}
	e2 := [2]ipt{p2[0], p2[len(p2)-1]}
	for i := 0; i+1 < len(p1); i++ {
		for j := 0; j+1 < len(p2); j++ {
			if !contactOK(p1[i], p1[i+1], p2[j], p2[j+1], e1, e2) {
				return false
			}
		}
	}
	return true
}

// networkLines: a multi-line string whose members meet at end points only: two routes between the
// same two junctions (same or different vertex counts, same or opposite direction), or a branch
// that starts at an end of the first member; optionally a third member branching off.
func networkLines(r *vproto.Rng, P shapes.Shape, style int) [][]ipt {
	rs := P.Rings()
	mn, mx, _ := P.BBox()
	for try := 0; try < 30; try++ {
		p1 := genPath(r, style, rs, mn, mx)
		if len(p1) < 3 || len(p1) > 8 || !gpPath(p1, rs) {
			continue
		}
		variant := r.Intn(4)
		second := func(from, to ipt, k int, free bool) []ipt {
			for t2 := 0; t2 < 40; t2++ {
				p2 := []ipt{from}
				ok := true
				for len(p2) < k+1 && ok {
					placed := false
					for t3 := 0; t3 < 30 && !placed; t3++ {
						q := ipt{X: ev(r, mn.X-6, mx.X+6), Y: ev(r, mn.Y-6, mx.Y+6)}
						cand := append(append([]ipt{}, p2...), q)
						if canAppend(p2, q) && q != to && networkOK(p1, cand) && gpPath(cand, rs) {
							p2 = cand
							placed = true
						}
					}
					ok = placed
				}
				if !ok {
					continue
				}
				if free {
					return p2
				}
				cand := append(append([]ipt{}, p2...), to)
				if canAppend(p2, to) && networkOK(p1, cand) && gpPath(cand, rs) {
					return cand
				}
			}
			return nil
		}
		a, b := p1[0], p1[len(p1)-1]
		var p2 []ipt
		switch variant {
		case 0: // two routes, same vertex count
			p2 = second(a, b, len(p1)-2, false)
		case 1: // two routes, different vertex counts
			p2 = second(a, b, len(p1)-2+r.Range(1, 2), false)
		case 2: // the second route runs the other way
			p2 = second(b, a, len(p1)-2, false)
		default: // a branch from one end
			from := a
			if r.Bool() {
				from = b
			}
			p2 = second(from, ipt{X: 1 << 40, Y: 1 << 40}, r.Range(1, 3), true)
		}
		if p2 == nil || len(p2) < 2 {
			continue
		}
		paths := [][]ipt{p1, p2}
		if r.Intn(3) == 0 { // a third member branching off the far end of the second
			from := p2[len(p2)-1]
			save := p1
			_ = save
			for t4 := 0; t4 < 20; t4++ {
				q := ipt{X: ev(r, mn.X-6, mx.X+6), Y: ev(r, mn.Y-6, mx.Y+6)}
				p3 := []ipt{from, q}
				if q != from && networkOK(p1, p3) && networkOK(p2, p3) && gpPath(p3, rs) {
					paths = append(paths, p3)
					break
				}
			}
		}
		if r.Bool() { // which member comes first matters to order-dependent code
			paths[0], paths[1] = paths[1], paths[0]
		}
		return paths
	}
	return nil
}

// nicks: at ordinary scale, a diagonal that only cuts d off a corner of a rectangle (chord d*sqrt 2,
// d = 2^-21 .. 2^-25), for each corner, as LS and MLS, against PG / B / MPG.
func nicks(r *vproto.Rng, emit func(l geom.Geom, p geom.Geom)) {
	for c := 0; c < 8; c++ {
		x0, y0 := float64(r.Range(-5, 5))+0.5, float64(r.Range(-5, 5))+0.5
		x1, y1 := x0+float64(r.Range(2, 6)), y0+float64(r.Range(2, 6))
		d := math.Ldexp(1, -r.Range(21, 25))
		var a, b geom.Point
		switch c % 4 {
		case 0: // corner (x1, y0): enters through the bottom edge at x1-d, leaves through the right edge at y0+d
			a, b = geom.Point{X: x1 - d - 1, Y: y0 - 1}, geom.Point{X: x1 - d + 1, Y: y0 + 1}
		case 1: // corner (x0, y0)
			a, b = geom.Point{X: x0 + d + 1, Y: y0 - 1}, geom.Point{X: x0 + d - 1, Y: y0 + 1}
		case 2: // corner (x1, y1)
			a, b = geom.Point{X: x1 - d - 1, Y: y1 + 1}, geom.Point{X: x1 - d + 1, Y: y1 - 1}
		default: // corner (x0, y1)
			a, b = geom.Point{X: x0 + d + 1, Y: y1 + 1}, geom.Point{X: x0 + d - 1, Y: y1 - 1}
		}
		rect := geom.Polygon{{{X: x0, Y: y0}, {X: x1, Y: y0}, {X: x1, Y: y1}, {X: x0, Y: y1}, {X: x0, Y: y0}}}
		var p geom.Geom
		switch c % 3 {
		case 0:
			p = rect
		case 1:
			p = &geom.Bounds{Min: geom.Point{X: x0, Y: y0}, Max: geom.Point{X: x1, Y: y1}}
		default:
			p = geom.MultiPolygon{rect, {{{X: x1 + 2, Y: y0}, {X: x1 + 4, Y: y0}, {X: x1 + 3, Y: y1}}}}
		}
		if c < 4 {
			emit(geom.LineString{a, b}, p)
		} else {
			emit(geom.MultiLineString{{a, b}}, p)
		}
	}
}

// longLines: line strings around the vertex counts 1024 / 1025 / 2048 / 2049 (and 1500, 3000), as
// LS and as the one-member MLS: zig-zags inside a rectangle, a zig-zag over a long hole, and lines
// whose ONLY inside part is the segment 1023->1024 (2047->2048).
func longLines(r *vproto.Rng, emit func(l geom.Geom, p geom.Geom)) {
	rect := func(x0, y0, x1, y1 float64) geom.Path {
		return geom.Path{{X: x0, Y: y0}, {X: x1, Y: y0}, {X: x1, Y: y1}, {X: x0, Y: y1}, {X: x0, Y: y0}}
	}
	both := func(l geom.LineString, p geom.Geom) {
		emit(l, p)
		emit(geom.MultiLineString{l}, p)
	}
	for _, n := range []int{1024, 1025, 1500, 2049, 3000} {
		l := make(geom.LineString, n)
		lo, hi := float64(r.Range(1, 3)), float64(r.Range(7, 9))
		for i := range l {
			y := lo
			if i%2 == 1 {
				y = hi
			}
			l[i] = geom.Point{X: float64(i + 1), Y: y}
		}
		both(l, geom.Polygon{rect(0.5, 0.5, float64(n)+0.5, 10.5)})
		if n <= 1500 {
			// every segment passes over the hole: 2 pieces per segment
			emit(l, geom.Polygon{rect(0.5, 0.5, float64(n)+0.5, 10.5), rect(0.75, 4.5, float64(n)+0.25, 5.5)})
		}
	}
	for _, cut := range []int{1024, 2048} {
		// cut vertices bunched up left of P, then one segment across P
		l := make(geom.LineString, cut+1+r.Range(0, 3))
		for i := range l {
			l[i] = geom.Point{X: float64(i) / 4, Y: -3}
		}
		x0 := float64(cut)/4 + 2.5
		for i := cut; i < len(l); i++ {
			l[i] = geom.Point{X: x0 + 8 + float64(i-cut), Y: 6 + float64(i-cut)}
		}
		both(l, geom.Polygon{rect(x0, -4.5, x0+5, 8.5)})
		both(l, &geom.Bounds{Min: geom.Point{X: x0, Y: -4.5}, Max: geom.Point{X: x0 + 5, Y: 8.5}})
	}
}

// one call: the polygon is rebuilt over ONE flat backing array; the operands are compared with a
// snapshot after the call.
func clipOnce(l geom.Linear, pg geom.Polygonal) (geom.Linear, bool) {
	before := vproto.GeomToks(l) + "|" + vproto.GeomToks(pg)
	res := l.Clip(pg)
	return res, before == vproto.GeomToks(l)+"|"+vproto.GeomToks(pg)
}

// scribble overwrites every coordinate of g in place.
func scribble(g geom.Geom) {
	nan := math.NaN()
	path := func(r []geom.Point) {
		for i := range r {
			r[i] = geom.Point{X: nan, Y: nan}
		}
	}
	switch x := g.(type) {
	case geom.LineString:
		path(x)
	case geom.MultiLineString:
		for _, l := range x {
			path(l)
		}
	case geom.Polygon:
		for _, r := range x {
			path(r)
		}
	case geom.MultiPolygon:
		for _, pg := range x {
			for _, r := range pg {
				path(r)
			}
		}
	case *geom.Bounds:
		x.Min, x.Max = geom.Point{X: nan, Y: nan}, geom.Point{X: nan, Y: nan}
	}
}

// probeAlias observes what the translation of the glue does not model (slices are values there, capacity =
// length): (1) appending to a returned piece must not change any returned piece (two pieces cut from one
// backing array, the first with spare capacity reaching into the second); (2) overwriting the operands after
// the call must not change the result (a piece that is a sub-slice of the receiver or of a ring of the argument).
// The operands are private to the case.  "" = nothing observed.
func probeAlias(l geom.Linear, pg geom.Polygonal, res geom.Linear) string {
	before := vproto.GeomToks(res)
	if ml, ok := res.(geom.MultiLineString); ok {
		for _, piece := range ml {
			// two points: the first lands on the closing vertex that Clip cut off, the second beyond the ring
			_ = append(piece, geom.Point{X: math.NaN(), Y: math.NaN()}, geom.Point{X: math.NaN(), Y: math.NaN()})
		}
		if vproto.GeomToks(res) != before {
			return "appending-to-a-returned-piece-changed-a-returned-piece"
		}
	}
	scribble(l)
	scribble(pg)
	if vproto.GeomToks(res) != before {
		return "overwriting-an-operand-after-the-call-changed-the-result"
	}
	return ""
}

func impl() {
	vproto.Lines(func(line string, out *bufio.Writer) {
		defer out.Flush()
		var res string
		msg := vproto.Safe(func() {
			p := vproto.NewParser(line)
			switch kind := p.Next(); kind {
			case "clip":
				l, _ := p.Geom().(geom.Linear)
				if p.Next() != "|" {
					panic("harness: expected |")
				}
				pg, _ := p.Geom().(geom.Polygonal)
				flat := shapes.Flat(pg)
				r, same := clipOnce(l, flat)
				if !same {
					res = "mutated"
					return
				}
				res = "ok " + vproto.GeomToks(r)
				if why := probeAlias(l, flat, r); why != "" {
					res = "aliased " + why
				}
			case "cc":
				res = concurrentClip(line)
			case "hclip":
				// the polygon object of the first call is kept and overwritten in place for the
				// following calls; all results are serialised only after the last call
				var held geom.Polygonal
				var results []geom.Linear
				var ok []bool
				for {
					l, _ := p.Geom().(geom.Linear)
					if p.Next() != "|" {
						panic("harness: expected |")
					}
					pg, _ := p.Geom().(geom.Polygonal)
					if held == nil {
						held = shapes.Flat(pg)
					} else {
						held = shapes.CopyInto(held, pg)
					}
					r, same := clipOnce(l, held)
					results = append(results, r)
					ok = append(ok, same)
					if p.Done() {
						break
					}
					if p.Next() != ";;" {
						panic("harness: expected ;;")
					}
				}
				var sb strings.Builder
				for i, r := range results {
					if i > 0 {
						sb.WriteString(" ;; ")
					}
					if !ok[i] {
						sb.WriteString("mutated")
					} else {
						sb.WriteString("ok " + vproto.GeomToks(r))
					}
				}
				res = sb.String()
			default:
				panic("harness: unknown case kind " + kind)
			}
		})
		if msg != "" {
			res = "panic " + msg
		}
		fmt.Fprintf(out, "%s => %s\n", line, res)
	})
}

func main() {
	if len(os.Args) < 2 {
		fmt.Fprintln(os.Stderr, "usage: c14 gen --seed S --tier T | impl")
		os.Exit(2)
	}
	switch os.Args[1] {
	case "gen":
		seed, tier := vproto.SeedTier(os.Args[2:])
		gen(seed, tier)
	case "impl":
		impl()
	case "extract":
		repo := "/repo"
		for i, a := range os.Args {
			if a == "--repo" && i+1 < len(os.Args) {
				repo = os.Args[i+1]
			}
		}
		os.Exit(extract(repo))
	default:
		os.Exit(2)
	}
}
