// Phase 4 generator families for C14.
//
//	quadrantCases  the ordinary families placed in ONE quadrant of the plane (all coordinates <= 0, only x <= 0,
//	               only y <= 0, all >= 0; the extreme coordinate exactly 0 or not) and then scaled by a power of two,
//	               mostly far below the size at which clipLine has to scale the operands up: whatever quantity the
//	               code derives its scale factor from must not depend on the sign of the coordinates.
//	farMemberCases a tiny figure plus one member line of ordinary size far away from the polygon
//	holeBoxCases   polygons whose hole is NOT an axis-parallel rectangle (diamond, triangle, L) with lines that stay
//	               inside the hole's bounding box (partly in the solid corners between the hole and its box), and
//	               multi-polygons with an island inside a hole, the line on / across the island.
package main

import (
	"math"

	"github.com/ctessum/geom"

	"verif/harness/cmd/c01/shapes"
	"verif/harness/vproto"
)

// extentOf2 returns the coordinate ranges of two geometries.
func extentOf2(a, b geom.Geom) (mnx, mny, mxx, mxy float64, ok bool) {
	mnx, mny, mxx, mxy = math.Inf(1), math.Inf(1), math.Inf(-1), math.Inf(-1)
	add := func(ps []geom.Point) {
		for _, p := range ps {
			ok = true
			mnx, mny = math.Min(mnx, p.X), math.Min(mny, p.Y)
			mxx, mxy = math.Max(mxx, p.X), math.Max(mxy, p.Y)
		}
	}
	var walk func(g geom.Geom)
	walk = func(g geom.Geom) {
		switch x := g.(type) {
		case geom.LineString:
			add(x)
		case geom.MultiLineString:
			for _, l := range x {
				add(l)
			}
		case geom.Polygon:
			for _, r := range x {
				add(r)
			}
		case geom.MultiPolygon:
			for _, pg := range x {
				walk(pg)
			}
		case *geom.Bounds:
			add([]geom.Point{x.Min, x.Max})
		}
	}
	walk(a)
	walk(b)
	return
}

var tinyExps = []int{-30, -40, -40, -45, -60, -60, -400, -24, -900, -1010, -1018}

// quadrantCases: see the file comment. Translations are by integers / half-integers of small size (exact on the
// half-integer grid), the scale is a power of two (exact).
func quadrantCases(r *vproto.Rng, n int, emit func(l geom.Geom, p geom.Geom)) {
	for i := 0; i < n; i++ {
		kind := kinds[i%3]
		style := styleCycle[r.Intn(len(styleCycle))]
		P := placedShape(r, kind, style)
		var l geom.Geom = makeLine(r, P, style, (i/3)%2 == 1)
		var p geom.Geom = P.ToGeom(2, r.Intn(4) != 0)
		mnx, mny, mxx, mxy, ok := extentOf2(l, p)
		if !ok {
			continue
		}
		gap := float64(r.Intn(3)) // 0: the extreme coordinate is exactly 0
		var ox, oy float64
		switch i % 4 {
		case 0: // third quadrant: no coordinate is positive
			ox, oy = -mxx-gap, -mxy-gap
		case 1: // x <= 0 <= y
			ox, oy = -mxx-gap, -mny+gap
		case 2: // y <= 0 <= x
			ox, oy = -mnx+gap, -mxy-gap
		default: // first quadrant
			ox, oy = -mnx+gap, -mny+gap
		}
		f := math.Ldexp(1, tinyExps[r.Intn(len(tinyExps))])
		emit(shapes.ScaleGeom(affine(l, 1, ox, oy), f), shapes.ScaleGeom(affine(p, 1, ox, oy), f))
	}
}

// quadrantCorpus: the TestClip figure and the figure of the small-scale finding, moved into the third quadrant
// (largest coordinate 0 and -1) at the scales 1, 2^-30, 2^-40, 2^-60, 2^-400.
func quadrantCorpus(emit func(l geom.Geom, p geom.Geom)) {
	sq := geom.Polygon{{{X: 1, Y: 0}, {X: 4, Y: 0}, {X: 4, Y: 3}, {X: 1, Y: 3}}, {{X: 2, Y: 0.5}, {X: 3, Y: 0.5}, {X: 3, Y: 2.5}, {X: 2, Y: 2.5}}}
	tc := geom.LineString{{X: 0, Y: 1}, {X: 1.25, Y: 1}, {X: 1.5, Y: 1.1}, {X: 1.75, Y: 1}, {X: 5, Y: 1}, {X: 5, Y: 2}, {X: 0, Y: 2}}
	ml := geom.MultiLineString{{{X: 3, Y: 0}, {X: 14, Y: 1}}, {{X: 17, Y: 10}, {X: 1, Y: -1}, {X: 9, Y: 0}, {X: 2, Y: -2}}}
	pg := geom.MultiPolygon{{
		{{X: 12.5, Y: 7.5}, {X: 6.5, Y: 8.5}, {X: 4.5, Y: 5.5}, {X: 3.5, Y: 4.5}, {X: 9.5, Y: -0.5}, {X: 11.5, Y: 0.5}, {X: 13.5, Y: 1.5}, {X: 14.5, Y: 1.5}},
		{{X: 9.5, Y: 4.5}, {X: 10.5, Y: 4.5}, {X: 10.5, Y: 6.5}}}}
	// 2^-1003 … 2^-1024: the largest coordinate is below 2^-1000 but still a normal number (the guard of clipLine was
	// 2^-1000 before fix; at 2^-1024 some coordinates are subnormal)
	for _, k := range []int{0, -30, -40, -60, -400, -1003, -1010, -1018, -1024} {
		f := math.Ldexp(1, k)
		for _, g := range []float64{0, 1} {
			if g == 0 {
				emit(shapes.ScaleGeom(tc, f), shapes.ScaleGeom(sq, f))
				emit(shapes.ScaleGeom(ml, f), shapes.ScaleGeom(pg, f))
			}
			emit(shapes.ScaleGeom(affine(tc, 1, -5-g, -3-g), f), shapes.ScaleGeom(affine(sq, 1, -5-g, -3-g), f))
			emit(shapes.ScaleGeom(affine(ml, 1, -17-g, -10-g), f), shapes.ScaleGeom(affine(pg, 1, -17-g, -10-g), f))
			emit(shapes.ScaleGeom(affine(ml[1], 1, -17-g, 2+g), f), shapes.ScaleGeom(affine(pg, 1, -17-g, 2+g), f))
		}
	}
}

// farMemberCases: a tiny figure (scale 2^-30 .. 2^-400) whose multi-line string has one more member of ORDINARY size far
// away from the polygon (first, last or in the middle): the members of one multi-line string may differ in magnitude by
// hundreds of binary orders, and whatever is decided per call must be decided per member.
func farMemberCases(r *vproto.Rng, n int, emit func(l geom.Geom, p geom.Geom)) {
	for i := 0; i < n; i++ {
		kind := kinds[i%3]
		style := []int{0, 1, 1, 5, 5, 2}[r.Intn(6)]
		P := placedShape(r, kind, style)
		l := makeLine(r, P, style, i%2 == 1)
		f := math.Ldexp(1, []int{-30, -40, -60, -400}[r.Intn(4)])
		var ml geom.MultiLineString
		switch x := shapes.ScaleGeom(l, f).(type) {
		case geom.LineString:
			ml = geom.MultiLineString{x}
		case geom.MultiLineString:
			ml = x
		}
		bx, by := float64(r.Range(600, 1400)), float64(r.Range(-1400, 1400))
		if r.Intn(4) == 0 {
			bx = 0.75 // just above the size below which clipLine scales
			by = 0.5 + float64(r.Intn(3))/4
		}
		far := geom.LineString{{X: bx, Y: by}, {X: bx + 1, Y: by + 2}, {X: bx + 3, Y: by + 1}}
		pos := r.Intn(len(ml) + 1)
		out := append(geom.MultiLineString{}, ml[:pos]...)
		out = append(out, far)
		out = append(out, ml[pos:]...)
		emit(out, shapes.ScaleGeom(P.ToGeom(2, r.Intn(4) != 0), f))
	}
}

// holeBoxCases: see the file comment.
func holeBoxCases(r *vproto.Rng, n int, emit func(l geom.Geom, p geom.Geom)) {
	for c := 0; c < n; c++ {
		cx, cy := 2*int64(r.Range(-5, 5))+1, 2*int64(r.Range(-5, 5))+1
		a, b := 2*int64(r.Range(3, 7)), 2*int64(r.Range(3, 7))
		m := 2 * int64(r.Range(1, 3))
		shell := shapes.RectRing(cx-a-m, cy-b-m, cx+a+m, cy+b+m)
		var polys []shapes.Poly
		// the box within which the line's vertices are drawn (strictly inside it)
		bmn, bmx := ipt{X: cx - a, Y: cy - b}, ipt{X: cx + a, Y: cy + b}
		kind := "PG"
		switch c % 5 {
		case 0: // diamond hole
			polys = []shapes.Poly{{shell, shapes.Ring{{X: cx - a, Y: cy}, {X: cx, Y: cy - b}, {X: cx + a, Y: cy}, {X: cx, Y: cy + b}}}}
		case 1: // triangular hole
			polys = []shapes.Poly{{shell, shapes.Ring{{X: cx - a, Y: cy - b}, {X: cx + a, Y: cy - b + 2*int64(r.Range(0, 2))}, {X: cx - a + 2*int64(r.Range(0, 2)), Y: cy + b}}}}
		case 2: // L-shaped hole
			polys = []shapes.Poly{{shell, shapes.Ring{{X: cx - a, Y: cy - b}, {X: cx + a, Y: cy - b}, {X: cx + a, Y: cy - b + 2}, {X: cx - a + 2, Y: cy - b + 2}, {X: cx - a + 2, Y: cy + b}, {X: cx - a, Y: cy + b}}}}
		case 3: // rectangular hole with an island in it (multi-polygon)
			kind = "MPG"
			polys = []shapes.Poly{{shell, shapes.RectRing(cx-a, cy-b, cx+a, cy+b)}, {shapes.RectRing(cx-a+2, cy-b+2, cx+a-2, cy+b-2)}}
		default: // diamond hole with a diamond island
			kind = "MPG"
			polys = []shapes.Poly{{shell, shapes.Ring{{X: cx - a, Y: cy}, {X: cx, Y: cy - b}, {X: cx + a, Y: cy}, {X: cx, Y: cy + b}}},
				{shapes.Ring{{X: cx - a + 4, Y: cy}, {X: cx, Y: cy - b + 4}, {X: cx + a - 4, Y: cy}, {X: cx, Y: cy + b - 4}}}}
		}
		if kind == "PG" && c%2 == 1 {
			kind = "MPG"
		}
		if r.Intn(3) == 0 { // a second, unrelated member / nothing: the hole is not always ring 1 of polygon 0
			kind = "MPG"
			polys = append([]shapes.Poly{{shapes.RectRing(cx+a+m+2, cy-b-m, cx+a+m+6, cy-b-m+4)}}, polys...)
		}
		P := shapes.Shape{Kind: kind, Polys: polys}
		rs := P.Rings()
		var path []ipt
		nv := r.Range(2, 4)
		for try := 0; try < 200 && len(path) < nv; try++ {
			q := ipt{X: ev(r, bmn.X+1, bmx.X-1), Y: ev(r, bmn.Y+1, bmx.Y-1)}
			if q.X <= bmn.X || q.X >= bmx.X || q.Y <= bmn.Y || q.Y >= bmx.Y || !canAppend(path, q) {
				continue
			}
			cand := append(append([]ipt{}, path...), q)
			if !gpPath(cand, rs) {
				continue
			}
			path = cand
		}
		if len(path) < 2 {
			continue
		}
		var l geom.Geom = toLS(path)
		if c%3 == 2 {
			l = geom.MultiLineString{toLS(path)}
		}
		f := scaleFor(r)
		emit(shapes.ScaleGeom(l, f), shapes.ScaleGeom(P.ToGeom(2, r.Bool()), f))
	}
}
