package main

// T1 tie, part 2: the Points() closures of the non-collection geometry types, idiom by idiom.
//
//	func (p T) Points() func() Point {
//		var i, j int                    // captured variables = the state (declaration order)
//		return func() Point { BODY }    // one call = `<t>PointsNext recv i j : Except Fault (Pt α × state)`
//	}
//
// BODY: `for COND { S }` (no init/post), `if COND { S }` (no else), `v++`, `v = <int literal>`, and a final
// `return E`.  Every slice index `a[b]` becomes a faulting lookup `let x ← idx a b` hoisted in
// evaluation order; `||`/`&&` keep their short-circuit (the right operand's lookups happen only when Go
// evaluates it); ints are Nat (the subset only ever increments or zeroes a captured variable, and
// `v - 1` is accepted only after `v++` in the same straight-line block, so no value is negative).
// A loop becomes `whileFuel (loopFuel2|3 recv) cond body state` — see Model.lean; the tie lemmas
// (Ties/Points*.lean) prove the rendered closure equal to the model's fuel-free state machine.
//
// (*Bounds).Points: `defer func() { v++ }()` as the FIRST statement of the closure — the deferred statements run
// after the operand of `return` has been evaluated (`let r := E; <deferred>; pure (r, state)`), and also when
// the closure panics (then nobody sees the state); `switch TAG { case <int literals>: …; default: … }` as the
// LAST statement, every clause ending in `return E` or `panic("…")` (↦ `Fault.explicit`), rendered as a
// `match`; `b.Min`, `Point{b.Max.X, b.Min.Y}` as in extract.go.
//
// GeometryCollection.Points (captured func value, calls on interface values): collection.go.

import (
	"fmt"
	"go/ast"
	"go/token"
	"strings"
)

type cenv struct {
	recv   string
	rk     xkind
	state  []string
	kinds  map[string]xkind
	fresh  *int
	incd   map[string]bool
	pat    string
	sty    string
	inLoop bool
	defers []ast.Stmt // body of `defer func() { … }()`
}

func (c *cenv) next(prefix string) string {
	*c.fresh++
	return fmt.Sprintf("%s%d", prefix, *c.fresh)
}

// mexpr: hoisted lookups (in evaluation order) and the pure expression
func (c *cenv) mexpr(x ast.Expr) ([]string, string, xkind) {
	switch t := x.(type) {
	case *ast.ParenExpr:
		return c.mexpr(t.X)
	case *ast.Ident:
		k, ok := c.kinds[t.Name]
		if !ok {
			xfail("unknown identifier %s", t.Name)
		}
		return nil, leanName(t.Name), k
	case *ast.BasicLit:
		if t.Kind != token.INT {
			xfail("literal %s", t.Value)
		}
		return nil, t.Value, kInt
	case *ast.IndexExpr:
		ha, a, ka := c.mexpr(t.X)
		hb, b, kb := c.mexpr(t.Index)
		if kb != kInt {
			xfail("index is not an int")
		}
		var k xkind
		switch ka {
		case kPtsss:
			k = kPtss
		case kPtss:
			k = kPts
		case kPts:
			k = kPt
		default:
			xfail("index into a non-slice")
		}
		v := c.next("x")
		h := append(append([]string{}, ha...), hb...)
		return append(h, "let "+v+" ← idx "+a+" "+b), v, k
	case *ast.SelectorExpr, *ast.CompositeLit:
		// fields of a *Bounds receiver and Point literals built from them: pure, no lookups
		if c.rk != kBox {
			xfail("field selection in the closure of a type that is not *Bounds")
		}
		e := &xenv{vars: map[string]xkind{c.recv: kBox}, gty: map[string]string{c.recv: "*Bounds"}}
		s, k := e.expr(x)
		return nil, s, k
	case *ast.CallExpr:
		if fn, ok := t.Fun.(*ast.Ident); ok && fn.Name == "len" && len(t.Args) == 1 {
			h, a, k := c.mexpr(t.Args[0])
			if k != kPts && k != kPtss && k != kPtsss {
				xfail("len of a non-slice")
			}
			return h, a + ".length", kInt
		}
		xfail("call outside the closure subset")
	case *ast.BinaryExpr:
		hl, l, kl := c.mexpr(t.X)
		hr, r, kr := c.mexpr(t.Y)
		h := append(append([]string{}, hl...), hr...)
		if kl != kInt || kr != kInt {
			xfail("operator %s on non-ints", t.Op)
		}
		switch t.Op {
		case token.SUB:
			id, ok1 := t.X.(*ast.Ident)
			lit, ok2 := t.Y.(*ast.BasicLit)
			if !ok1 || !ok2 || lit.Value != "1" || !c.incd[id.Name] {
				xfail("subtraction other than `v - 1` right after `v++` (Nat would truncate)")
			}
			return h, "(" + l + " - 1)", kInt
		case token.ADD:
			return h, "(" + l + " + " + r + ")", kInt
		case token.EQL:
			return h, "(" + l + " == " + r + ")", kBool
		case token.NEQ:
			return h, "(" + l + " != " + r + ")", kBool
		case token.GEQ:
			return h, "decide (" + l + " ≥ " + r + ")", kBool
		case token.GTR:
			return h, "decide (" + l + " > " + r + ")", kBool
		case token.LEQ:
			return h, "decide (" + l + " ≤ " + r + ")", kBool
		case token.LSS:
			return h, "decide (" + l + " < " + r + ")", kBool
		}
		xfail("operator %s", t.Op)
	}
	xfail("expression %T outside the closure subset", x)
	return nil, "", kInt
}

// condM: a monadic Bool expression (parenthesised do-block) with Go's evaluation order
func (c *cenv) condM(x ast.Expr, ind string) string {
	if p, ok := x.(*ast.ParenExpr); ok {
		return c.condM(p.X, ind)
	}
	if b, ok := x.(*ast.BinaryExpr); ok && (b.Op == token.LOR || b.Op == token.LAND) {
		v := c.next("c")
		l := c.condM(b.X, ind+"  ")
		r := c.condM(b.Y, ind+"  ")
		if b.Op == token.LOR {
			return "(do\n" + ind + "  let " + v + " ← " + l + "\n" + ind + "  if " + v + " then pure true else " + r + ")"
		}
		return "(do\n" + ind + "  let " + v + " ← " + l + "\n" + ind + "  if " + v + " then " + r + " else pure false)"
	}
	h, e, k := c.mexpr(x)
	if k != kBool {
		xfail("condition is not boolean")
	}
	out := "(do\n"
	for _, l := range h {
		out += ind + "  " + l + "\n"
	}
	return out + ind + "  pure (" + e + "))"
}

func hasReturn(ss []ast.Stmt) bool {
	found := false
	for _, s := range ss {
		ast.Inspect(s, func(n ast.Node) bool {
			switch n.(type) {
			case *ast.ReturnStmt, *ast.BranchStmt, *ast.FuncLit:
				found = true
			}
			return true
		})
	}
	return found
}

// stmtsM renders a statement list; final is the continuation at the end ("" = a return is required)
func (c *cenv) stmtsM(ss []ast.Stmt, ind string, final string) string {
	out := ""
	for idx, st := range ss {
		switch t := st.(type) {
		case *ast.IncDecStmt:
			id, ok := t.X.(*ast.Ident)
			if !ok || t.Tok != token.INC || c.kinds[id.Name] != kInt || !c.isState(id.Name) {
				xfail("only `v++` on a captured int is in the subset")
			}
			out += ind + "let " + leanName(id.Name) + " := " + leanName(id.Name) + " + 1\n"
			c.incd[id.Name] = true
		case *ast.AssignStmt:
			if t.Tok != token.ASSIGN || len(t.Lhs) != 1 {
				xfail("assignment form in a closure")
			}
			id, ok := t.Lhs[0].(*ast.Ident)
			lit, ok2 := t.Rhs[0].(*ast.BasicLit)
			if !ok || !ok2 || lit.Kind != token.INT || !c.isState(id.Name) {
				xfail("only `v = <int literal>` on a captured int is in the subset")
			}
			out += ind + "let " + leanName(id.Name) + " := " + lit.Value + "\n"
			delete(c.incd, id.Name)
		case *ast.ForStmt:
			if t.Init != nil || t.Post != nil || t.Cond == nil || hasReturn(t.Body.List) || len(c.state) == 0 {
				xfail("loop form outside the subset (only `for COND { … }` without return/break)")
			}
			var fuel string
			switch c.rk {
			case kPtss:
				fuel = "loopFuel2 " + leanName(c.recv)
			case kPtsss:
				fuel = "loopFuel3 " + leanName(c.recv)
			default:
				xfail("a loop in the closure of a type without members")
			}
			c.incd = map[string]bool{}
			cond := c.condM(t.Cond, ind+"    ")
			body := c.stmtsM(t.Body.List, ind+"    ", "pure "+c.pat)
			out += ind + "let " + c.pat + " ← whileFuel (" + fuel + ")\n" +
				ind + "  (fun (" + c.pat + " : " + c.sty + ") => " + cond + ")\n" +
				ind + "  (fun (" + c.pat + " : " + c.sty + ") => do\n" + body + ") " + c.pat + "\n"
			c.incd = map[string]bool{}
		case *ast.IfStmt:
			if t.Init != nil || t.Else != nil || hasReturn(t.Body.List) || len(c.state) == 0 {
				xfail("if form outside the subset (only `if COND { assignments }`)")
			}
			c.incd = map[string]bool{}
			v := c.next("c")
			cond := c.condM(t.Cond, ind+"  ")
			body := c.stmtsM(t.Body.List, ind+"    ", "pure "+c.pat)
			out += ind + "let " + c.pat + " ← (do\n" + ind + "  let " + v + " ← " + cond + "\n" +
				ind + "  if " + v + " then (do\n" + body + ") else pure " + c.pat + ")\n"
			c.incd = map[string]bool{}
		case *ast.ReturnStmt:
			if final != "" || idx != len(ss)-1 || len(t.Results) != 1 {
				xfail("return in the middle of the closure")
			}
			h, e, k := c.mexpr(t.Results[0])
			if k != kPt {
				xfail("the closure does not return a Point")
			}
			for _, l := range h {
				out += ind + l + "\n"
			}
			if len(c.defers) > 0 {
				// Go: the operand is evaluated, then the deferred function runs, then the caller gets the value
				sv := c.incd
				c.incd = map[string]bool{}
				d := c.stmtsM(c.defers, ind, "pure (r', "+c.pat+")")
				c.incd = sv
				return out + ind + "let r' := " + e + "\n" + d
			}
			return out + ind + "pure (" + e + ", " + c.pat + ")"
		case *ast.DeferStmt:
			// defer func() { v++ … }()
			fl, ok := t.Call.Fun.(*ast.FuncLit)
			if !ok || idx != 0 || c.inLoop || final != "" || len(t.Call.Args) != 0 || fl.Type.Params.NumFields() != 0 ||
				fl.Type.Results.NumFields() != 0 || hasReturn(fl.Body.List) || c.defers != nil || len(fl.Body.List) == 0 {
				xfail("defer form outside the subset (only `defer func() { v++ }()` as the first statement of the closure)")
			}
			for _, ds := range fl.Body.List {
				switch ds.(type) {
				case *ast.IncDecStmt, *ast.AssignStmt:
				default:
					xfail("deferred statement %T outside the subset", ds)
				}
			}
			c.defers = fl.Body.List
		case *ast.SwitchStmt:
			if t.Init != nil || t.Tag == nil || final != "" || idx != len(ss)-1 {
				xfail("switch form outside the subset (only `switch TAG {…}` as the last statement)")
			}
			h, tag, k := c.mexpr(t.Tag)
			if k != kInt || len(h) != 0 {
				xfail("switch tag is not a plain int expression")
			}
			out += ind + "match " + tag + " with\n"
			hasDefault := false
			seen := map[string]bool{}
			for ci, cl := range t.Body.List {
				cc := cl.(*ast.CaseClause)
				var pats []string
				if cc.List == nil {
					if ci != len(t.Body.List)-1 {
						xfail("default clause is not the last one")
					}
					hasDefault = true
					pats = []string{"_"}
				}
				for _, pe := range cc.List {
					lit, ok := pe.(*ast.BasicLit)
					if !ok || lit.Kind != token.INT || strings.HasPrefix(lit.Value, "0") && lit.Value != "0" || seen[lit.Value] {
						xfail("case label that is not a distinct decimal int literal")
					}
					seen[lit.Value] = true
					pats = append(pats, lit.Value)
				}
				for _, bs := range cc.Body {
					if br, ok := bs.(*ast.BranchStmt); ok {
						xfail("%s in a switch clause", br.Tok)
					}
				}
				c.incd = map[string]bool{}
				out += ind + "| " + strings.Join(pats, " | ") + " => do\n" + c.stmtsM(cc.Body, ind+"  ", "") + "\n"
			}
			if !hasDefault {
				xfail("switch without a default clause")
			}
			return strings.TrimRight(out, "\n")
		case *ast.ExprStmt:
			// panic("…") ends the clause; a deferred `v++` still runs, but the state is lost with the closure's caller
			call, ok := t.X.(*ast.CallExpr)
			fn, ok2 := func() (*ast.Ident, bool) {
				if !ok {
					return nil, false
				}
				id, ok := call.Fun.(*ast.Ident)
				return id, ok
			}()
			if !ok || !ok2 || fn.Name != "panic" || len(call.Args) != 1 || final != "" || idx != len(ss)-1 {
				xfail("expression statement other than a final panic(…)")
			}
			if lit, ok := call.Args[0].(*ast.BasicLit); !ok || lit.Kind != token.STRING {
				xfail("panic of a non-literal")
			}
			return out + ind + "Except.error Fault.explicit"
		default:
			xfail("statement %T outside the closure subset", st)
		}
	}
	if final == "" {
		xfail("the closure does not end in a return")
	}
	return out + ind + final
}

func (c *cenv) isState(n string) bool {
	for _, s := range c.state {
		if s == n {
			return true
		}
	}
	return false
}

// trPoints renders `func (recv T) Points() func() Point`
func trPoints(fd *ast.FuncDecl, stem string) string {
	if fd.Recv == nil || len(fd.Recv.List) != 1 || len(fd.Recv.List[0].Names) != 1 {
		xfail("receiver")
	}
	rt := typeName(fd.Recv.List[0].Type)
	gi, ok := gtypes[rt]
	if !ok || (gi.name == "" && rt != "*Bounds") {
		xfail("receiver type %s", rt)
	}
	fresh := 0
	c := &cenv{recv: fd.Recv.List[0].Names[0].Name, rk: gi.k, kinds: map[string]xkind{}, fresh: &fresh, incd: map[string]bool{}}
	c.kinds[c.recv] = gi.k
	body := fd.Body.List
	if len(body) == 0 {
		xfail("empty body")
	}
	for _, st := range body[:len(body)-1] {
		ds, ok := st.(*ast.DeclStmt)
		if !ok {
			xfail("statement before the closure that is not `var … int`")
		}
		gd, ok := ds.Decl.(*ast.GenDecl)
		if !ok || gd.Tok != token.VAR {
			xfail("declaration before the closure")
		}
		for _, sp := range gd.Specs {
			vs := sp.(*ast.ValueSpec)
			if len(vs.Values) != 0 || typeName(vs.Type) != "int" {
				xfail("captured variable that is not a zero-initialised int")
			}
			for _, n := range vs.Names {
				c.state = append(c.state, n.Name)
				c.kinds[n.Name] = kInt
			}
		}
	}
	ret, ok := body[len(body)-1].(*ast.ReturnStmt)
	if !ok || len(ret.Results) != 1 {
		xfail("Points() does not end in `return func() Point {…}`")
	}
	fl, ok := ret.Results[0].(*ast.FuncLit)
	if !ok || fl.Type.Params.NumFields() != 0 || fl.Type.Results.NumFields() != 1 || typeName(fl.Type.Results.List[0].Type) != "Point" {
		xfail("Points() does not return a `func() Point` literal")
	}
	var names, tys, zeros []string
	for _, s := range c.state {
		names = append(names, leanName(s))
		tys = append(tys, "Nat")
		zeros = append(zeros, "0")
	}
	params := ""
	switch len(c.state) {
	case 0:
		c.pat, c.sty = "()", "Unit"
		zeros = []string{"()"}
	case 1:
		c.pat, c.sty = names[0], "Nat"
		params = " (" + names[0] + " : Nat)"
	default:
		c.pat, c.sty = "("+strings.Join(names, ", ")+")", strings.Join(tys, " × ")
		params = " (" + strings.Join(names, " ") + " : Nat)"
	}
	init := strings.Join(zeros, ", ")
	if len(c.state) > 1 {
		init = "(" + init + ")"
	}
	b := c.stmtsM(fl.Body.List, "  ", "")
	return fmt.Sprintf("def %sPointsInit : %s := %s\n\ndef %sPointsNext (%s : %s)%s : Except Fault (Pt α × (%s)) := do\n%s\n",
		stem, c.sty, init, stem, leanName(c.recv), gi.lean, params, c.sty, b)
}
