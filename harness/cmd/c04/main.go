// Harness for C04 (Bounds are tight envelopes; vertex enumeration is complete and ordered).
//
//	gen --seed S --tier T   write case lines (inputs only)
//	impl                    read case lines, run the real code, append " => result"
//
// Line kinds (B = "B minx miny maxx maxy", coordinates are IEEE bit patterns in hex):
//
//	geom <G>          Len(), Points() drained Len() times (two interleaved iterators), Bounds()
//	                  + history probe: the returned boxes are mutated by the caller, Bounds() is asked again
//	hist <G> | <P>... G.Bounds() is mutated by the caller (Extend by a far box, writes to Min/Max); then
//	                  Bounds() of G and every P, twice (mutating all results in between). One impl
//	                  process serves all lines, so package-level state leaks across lines, too.
//	ext  <B> <B|NIL>  b1.Copy().Extend(b2)
//	ext3 <B> <B> <B>  (a+b)+c , a+(b+c) , b+a , a+a
//	ovl  <B> <B>      a.Overlaps(b) and b.Overlaps(a)
//	self <B>          same pointer on both sides: b.Overlaps(b), b.Overlaps(b.Bounds()), b.Intersection(b), b.Within(b), c.Extend(c)
//	self3 <A> <B>     triples with a repeated pointer: joins (a+b)+b, (a+a)+b, (b+a)+itself; all-pairs Overlaps/Intersection over {a,b,a}
//	int  <B> <B>      a.Intersection(b) (box-box branch) and b.Intersection(a)
//	copy <B>          Copy(), aliasing probe
//	empty <B>         Empty()
//	new               NewBounds()
//	nbp <x> <y>       NewBoundsPoint
//	cc <line>         concurrent callers: <line> (any of the kinds above except hist/new) is answered alone (reference), then
//	                  by 8 goroutines 3-8 times each, every call on its own freshly parsed operands, while 8 other goroutines
//	                  hammer Bounds/Len/Points/Extend/Overlaps/Intersection/Copy/Empty on unrelated large geometries of their
//	                  own. The first answer that differs from the reference is reported (else the reference) and judged like
//	                  <line>, class prefix `conc-`: all these operations are pure functions of their operands. Second phase
//	                  (geom/ovl/int/empty): ONE operand set read by all 8 workers at once — nothing may write to it.
package main

import (
	"bufio"
	"fmt"
	"math"
	"os"
	"strings"
	"sync"
	"sync/atomic"
	"time"

	"github.com/ctessum/geom"

	"verif/harness/vproto"
)

// ---------------------------------------------------------------- generator

var negZero = math.Copysign(0, -1)

func coord(r *vproto.Rng) float64 {
	switch r.Intn(20) {
	case 0:
		return negZero
	case 1:
		return 0
	case 2:
		return math.Inf(1)
	case 3:
		return math.Inf(-1)
	case 4:
		return math.MaxFloat64 * float64(1-2*r.Intn(2))
	case 5:
		return math.Float64frombits(r.U64()&0x000fffffffffffff) * float64(1-2*r.Intn(2)) // subnormal
	case 6:
		return math.SmallestNonzeroFloat64 * float64(1-2*r.Intn(2))
	case 7, 8:
		return (r.Float() - 0.5) * math.Pow(10, float64(r.Range(-5, 12)))
	case 9:
		// arbitrary non-NaN pattern
		for {
			f := math.Float64frombits(r.U64())
			if !math.IsNaN(f) {
				return f
			}
		}
	default:
		return float64(r.Range(-3, 3)) // small grid: many ties
	}
}

func pt(r *vproto.Rng) geom.Point { return geom.Point{X: coord(r), Y: coord(r)} }

// member count with an explicit "empty" production
func count(r *vproto.Rng) int {
	switch r.Intn(10) {
	case 0, 1, 2:
		return 0
	case 3, 4, 5:
		return 1
	case 6, 7:
		return 2
	case 8:
		return 3
	default:
		return r.Range(0, 6)
	}
}

func pts(r *vproto.Rng) []geom.Point {
	if r.Intn(8) == 0 {
		// an explicitly closed ring / line string of 4..8 vertices (last == first, as every real polygon ring is): code that
		// treats the closing vertex specially in one method but not in another shows here (phase 4, self-mutation Q5)
		n := r.Range(3, 7)
		p := make([]geom.Point, n, n+1)
		for i := range p {
			p[i] = pt(r)
		}
		return append(p, p[0])
	}
	n := count(r)
	p := make([]geom.Point, n)
	for i := range p {
		p[i] = pt(r)
	}
	return p
}

// list of n members produced by mk, with runs of 1-4 empties spliced in at the start, middle, end
func withEmpties(r *vproto.Rng, n int, mk func(empty bool) interface{}) []interface{} {
	var out []interface{}
	run := func() {
		k := 0
		switch x := r.Intn(100); {
		case x < 35:
			k = r.Range(1, 4)
		case x < 39:
			k = r.Range(5, 12) // long runs: a bounded skip loop is not enough
		case x < 40:
			k = r.Range(13, 40)
		}
		for i := 0; i < k; i++ {
			out = append(out, mk(true))
		}
	}
	run()
	for i := 0; i < n; i++ {
		out = append(out, mk(false))
		if i+1 < n {
			run()
		}
	}
	run()
	return out
}

func paths(r *vproto.Rng) []geom.Path {
	ms := withEmpties(r, count(r), func(empty bool) interface{} {
		if empty {
			return geom.Path{}
		}
		return geom.Path(pts(r))
	})
	o := make([]geom.Path, len(ms))
	for i, m := range ms {
		o[i] = m.(geom.Path)
	}
	return o
}

func genBox(r *vproto.Rng) *geom.Bounds {
	switch r.Intn(8) {
	case 0:
		return geom.NewBounds()
	case 1: // arbitrary (possibly inverted) struct
		return &geom.Bounds{Min: pt(r), Max: pt(r)}
	default:
		a, b := pt(r), pt(r)
		return &geom.Bounds{Min: geom.Point{X: math.Min(a.X, b.X), Y: math.Min(a.Y, b.Y)},
			Max: geom.Point{X: math.Max(a.X, b.X), Y: math.Max(a.Y, b.Y)}}
	}
}

func genGeom(r *vproto.Rng, depth int, nilOK bool) geom.Geom {
	k := r.Intn(9)
	if depth <= 0 && k >= 7 {
		k = r.Intn(7)
	}
	switch k {
	case 0:
		return pt(r)
	case 1:
		return geom.MultiPoint(pts(r))
	case 2:
		return geom.LineString(pts(r))
	case 3:
		ps := paths(r)
		m := make(geom.MultiLineString, len(ps))
		for i := range ps {
			m[i] = geom.LineString(ps[i])
		}
		return m
	case 4:
		return geom.Polygon(paths(r))
	case 5:
		ms := withEmpties(r, count(r), func(empty bool) interface{} {
			if empty {
				if r.Bool() {
					return geom.Polygon{}
				}
				return geom.Polygon(make([]geom.Path, r.Range(1, 3))) // rings, all empty (nil paths)
			}
			return geom.Polygon(paths(r))
		})
		m := make(geom.MultiPolygon, len(ms))
		for i := range ms {
			m[i] = ms[i].(geom.Polygon)
		}
		return m
	case 6:
		return genBox(r)
	default:
		ms := withEmpties(r, count(r), func(empty bool) interface{} {
			if empty {
				return emptyGeom(r, depth-1)
			}
			if nilOK && r.Chance(0.02) {
				return nil
			}
			return genGeom(r, depth-1, nilOK)
		})
		m := make(geom.GeometryCollection, len(ms))
		for i := range ms {
			if ms[i] != nil {
				m[i] = ms[i].(geom.Geom)
			}
		}
		return m
	}
}

// a geometry without vertices
func emptyGeom(r *vproto.Rng, depth int) geom.Geom {
	k := r.Intn(7)
	if depth <= 0 && k == 6 {
		k = r.Intn(6)
	}
	switch k {
	case 0:
		return geom.MultiPoint{}
	case 1:
		return geom.LineString{}
	case 2:
		return make(geom.MultiLineString, r.Range(0, 3))
	case 3:
		return geom.Polygon(make([]geom.Path, r.Range(0, 3)))
	case 4:
		return geom.MultiPolygon{}
	case 5:
		m := make(geom.MultiPolygon, r.Range(1, 3))
		for i := range m {
			m[i] = geom.Polygon(make([]geom.Path, r.Range(0, 2)))
		}
		return m
	default:
		m := make(geom.GeometryCollection, r.Range(0, 3))
		for i := range m {
			m[i] = emptyGeom(r, depth-1)
		}
		return m
	}
}

func P(x, y float64) geom.Point { return geom.Point{X: x, Y: y} }

// nanify overwrites about one coordinate in five by a NaN (quiet, either sign, with a payload). NaN is outside the
// property's quantifier: such lines are judged on Len/Points as usual and on Bounds by correspondence with the
// model run with math.Min/Max/< on NaN (class suffix -nan; DIFF only).
func nanify(g geom.Geom, r *vproto.Rng) geom.Geom {
	nan := func(v float64) float64 {
		if r.Intn(5) != 0 {
			return v
		}
		return math.Float64frombits([]uint64{0x7ff8000000000000, 0xfff8000000000000, 0x7ff8000000000001, 0x7ffc0000deadbeef}[r.Intn(4)])
	}
	pts := func(ps []geom.Point) {
		for i := range ps {
			ps[i].X, ps[i].Y = nan(ps[i].X), nan(ps[i].Y)
		}
	}
	switch t := g.(type) {
	case geom.Point:
		return geom.Point{X: nan(t.X), Y: nan(t.Y)}
	case geom.MultiPoint:
		pts(t)
	case geom.LineString:
		pts(t)
	case geom.MultiLineString:
		for _, l := range t {
			pts(l)
		}
	case geom.Polygon:
		for _, l := range t {
			pts(l)
		}
	case geom.MultiPolygon:
		for _, pg := range t {
			for _, l := range pg {
				pts(l)
			}
		}
	case geom.GeometryCollection:
		for i := range t {
			if t[i] != nil {
				t[i] = nanify(t[i], r)
			}
		}
	case *geom.Bounds:
		if t != nil {
			t.Min.X, t.Min.Y, t.Max.X, t.Max.Y = nan(t.Min.X), nan(t.Min.Y), nan(t.Max.X), nan(t.Max.Y)
		}
	}
	return g
}

func corpus() []geom.Geom {
	inf := math.Inf(1)
	L := func(p ...geom.Point) geom.LineString { return geom.LineString(p) }
	R := func(p ...geom.Point) geom.Path { return geom.Path(p) }
	gs := []geom.Geom{
		P(1, 2), P(negZero, 0), P(inf, -inf),
		geom.MultiPoint{}, geom.MultiPoint{P(1, 1)}, geom.MultiPoint{P(0, negZero), P(negZero, 0)},
		geom.LineString{}, geom.LineString{P(3, 1), P(1, 3)},
		geom.MultiLineString{}, geom.MultiLineString{{}}, geom.MultiLineString{{}, {}},
		geom.MultiLineString{L(P(1, 1), P(2, 2)), {}},
		geom.MultiLineString{{}, L(P(1, 1), P(2, 2))},
		geom.MultiLineString{{}, {}, L(P(1, 1))},
		geom.MultiLineString{L(P(1, 1)), {}, {}, L(P(2, 2)), {}, {}, {}},
		geom.MultiLineString{L(P(1, 1)), {}, {}, {}, {}, L(P(2, 2))},
		geom.Polygon{}, geom.Polygon{{}}, geom.Polygon{{}, {}, R(P(1, 1))},
		geom.Polygon{R(P(0, 0), P(1, 0), P(1, 1)), {}, {}, R(P(5, 5))},
		geom.Polygon{R(P(0, 0)), {}, R(P(1, 1)), {}, {}, {}, R(P(2, 2)), {}},
		geom.MultiPolygon{}, geom.MultiPolygon{{}}, geom.MultiPolygon{{}, {{}}}, geom.MultiPolygon{{{}}, {}, {{}, {}}},
		geom.MultiPolygon{{}, {R(P(1, 1))}},
		geom.MultiPolygon{{R(P(1, 1))}, {}},
		geom.MultiPolygon{{R(P(1, 1))}, {}, {}, {R(P(2, 2))}},
		geom.MultiPolygon{{R(P(1, 1)), {}}, {{}}, {{}, {}, R(P(2, 2))}},
		geom.MultiPolygon{{{}, {}, R(P(1, 1)), {}, {}}, {}, {{}}, {}, {R(P(2, 2)), {}, R(P(3, 3))}},
		geom.MultiPolygon{{R(P(1, 1), P(2, 2))}, {R(P(3, 3))}, {{}, R(P(4, 4))}},
		geom.GeometryCollection{}, geom.GeometryCollection{geom.GeometryCollection{}},
		geom.GeometryCollection{geom.MultiPoint{}, P(1, 1)},
		geom.GeometryCollection{P(1, 1), geom.MultiPoint{}},
		geom.GeometryCollection{P(1, 1), geom.MultiPoint{}, geom.LineString{}, P(2, 2)},
		geom.GeometryCollection{geom.GeometryCollection{}, geom.GeometryCollection{geom.Polygon{{}}}, P(1, 1)},
		geom.GeometryCollection{geom.GeometryCollection{geom.GeometryCollection{geom.GeometryCollection{}, P(7, 7)}, geom.Polygon{}}, geom.MultiPolygon{{}}, L(P(1, 2), P(3, 4))},
		geom.GeometryCollection{geom.Polygon{{}, {}, R(P(1, 1))}, geom.MultiLineString{{}, {}}, geom.MultiPolygon{{}, {{}}, {R(P(2, 2))}}},
		geom.GeometryCollection{&geom.Bounds{Min: P(0, 0), Max: P(1, 2)}, P(5, 5)},
		geom.GeometryCollection{P(1, 1), P(2, 2), P(3, 3)},
		geom.GeometryCollection{geom.MultiPoint{P(1, 1), P(2, 2)}, geom.MultiPoint{P(3, 3), P(4, 4)}, geom.MultiPoint{P(5, 5)}},
		&geom.Bounds{Min: P(0, 0), Max: P(1, 1)}, &geom.Bounds{Min: P(-inf, 0), Max: P(inf, 0)},
		geom.NewBounds(), &geom.Bounds{Min: P(2, 0), Max: P(1, 1)},
		geom.GeometryCollection{nil}, geom.GeometryCollection{P(1, 1), nil},
		// nil members behind vertices / behind empty members / at depth (C04_nil_points_prefix, C04_nil_points_fault)
		geom.GeometryCollection{P(1, 2), geom.MultiPoint{}, nil, P(3, 4)},
		geom.GeometryCollection{geom.GeometryCollection{P(1, 2), nil}, P(3, 4)},
		geom.GeometryCollection{L(P(1, 2), P(3, 4), P(5, 6)), geom.GeometryCollection{}, geom.GeometryCollection{geom.MultiPoint{}, nil}, P(7, 8)},
		geom.GeometryCollection{geom.MultiPoint{}, geom.Polygon{{}}, nil},
		geom.GeometryCollection{geom.GeometryCollection{P(1, 2), P(3, 4)}, geom.GeometryCollection{geom.GeometryCollection{nil}}},
		geom.GeometryCollection{&geom.Bounds{Min: P(0, 0), Max: P(1, 2)}, geom.NewBounds(), nil},
		longRuns(0), longRuns(1), longRuns(2), longRuns(3),
	}
	// member / vertex counts around typical size thresholds, at exactly one nesting level
	for _, n := range []int{63, 64, 65, 127, 128, 129, 1023, 1024, 1025, 2048, 2049} {
		ps := make([]geom.Point, n)
		for i := range ps {
			ps[i] = P(float64((i*7919)%n), float64((i*104729)%(n+1)))
		}
		rings := make([]geom.Path, n)
		for i := range rings {
			if i%3 != 1 {
				rings[i] = geom.Path{P(float64(i), float64(n-i))}
			}
		}
		ls := make(geom.MultiLineString, n)
		pgs := make(geom.MultiPolygon, n)
		gc := make(geom.GeometryCollection, n)
		for i := range rings {
			ls[i] = geom.LineString(rings[i])
			pgs[i] = geom.Polygon{rings[i]}
			if i%5 == 0 {
				pgs[i] = geom.Polygon{}
			}
			gc[i] = geom.MultiPoint(rings[i])
		}
		gs = append(gs, geom.MultiPoint(ps), geom.LineString(ps), geom.Polygon(rings), geom.Polygon{ps}, ls, pgs, gc)
	}
	// … and the same counts (and beyond: 4096, 4097) with EVERY vertex extending the box: a fold that stops early,
	// or skips the tail / the head of a long slice, loses an extreme (self-mutation N3: extendPoints looked at the
	// first 2048 points only). Ascending and descending, extreme first and extreme last.
	for _, n := range []int{65, 1025, 2049, 4097} {
		up, down := make([]geom.Point, n), make([]geom.Point, n)
		for i := range up {
			up[i] = P(float64(i), float64(-2*i))
			down[i] = P(float64(n-i), float64(3*i))
		}
		for _, ps := range [][]geom.Point{up, down} {
			half := len(ps) / 2
			gs = append(gs, geom.MultiPoint(ps), geom.LineString(ps), geom.Polygon{ps}, geom.Polygon{{}, ps[:half], {}, ps[half:]},
				geom.MultiLineString{geom.LineString(ps[:1]), {}, geom.LineString(ps[1:])},
				geom.MultiPolygon{{ps[:half]}, {}, {{}, ps[half:]}},
				geom.GeometryCollection{geom.LineString(ps[:half]), geom.MultiPoint{}, geom.MultiPoint(ps[half:])})
		}
	}
	return gs
}

// 17 consecutive members without vertices before, between and after two vertices
func longRuns(kind int) geom.Geom {
	const n = 17
	switch kind {
	case 0:
		p := geom.Polygon{}
		for _, v := range []float64{1, 2} {
			p = append(p, make([]geom.Path, n)...)
			p = append(p, geom.Path{P(v, v)})
		}
		return append(p, make([]geom.Path, n)...)
	case 1:
		m := geom.MultiLineString{}
		for _, v := range []float64{1, 2} {
			m = append(m, make([]geom.LineString, n)...)
			m = append(m, geom.LineString{P(v, v)})
		}
		return append(m, make([]geom.LineString, n)...)
	case 2:
		m := geom.MultiPolygon{}
		for _, v := range []float64{1, 2} {
			for i := 0; i < n; i++ {
				m = append(m, geom.Polygon(make([]geom.Path, i%3)))
			}
			m = append(m, geom.Polygon{{}, {}, {P(v, v)}, {}})
		}
		return append(m, make([]geom.Polygon, n)...)
	default:
		m := geom.GeometryCollection{}
		for _, v := range []float64{1, 2} {
			for i := 0; i < n; i++ {
				m = append(m, []geom.Geom{geom.MultiPoint{}, geom.GeometryCollection{}, geom.Polygon{{}}, geom.MultiPolygon{{}, {{}}}}[i%4])
			}
			m = append(m, geom.GeometryCollection{geom.LineString{}, P(v, v)})
		}
		return append(m, geom.LineString{}, geom.GeometryCollection{geom.GeometryCollection{}})
	}
}

func boxToks(b *geom.Bounds) string { return vproto.GeomToks(b) }

// 1-D values for the box catalogue
func catVals() []float64 {
	return []float64{math.Inf(-1), -math.MaxFloat64, -1, negZero, 0, math.SmallestNonzeroFloat64, 1, 2, 3, math.MaxFloat64, math.Inf(1)}
}

func gen(seed uint64, tier string) {
	out := bufio.NewWriter(os.Stdout)
	defer out.Flush()
	r := vproto.NewRng(seed)
	nGeom, nBox, yPairs := 25000, 8000, 2
	if tier == "thorough" {
		nGeom, nBox, yPairs = 400000, 150000, 20
	}
	fmt.Fprintln(out, "new")
	for _, g := range corpus() {
		fmt.Fprintf(out, "geom %s\n", vproto.GeomToks(g))
	}
	// history lines: Bounds() of a geometry is mutated by the caller, then Bounds() of it and of other
	// geometries (always some without vertices, and some with vertex-less members) is asked
	empties := []geom.Geom{geom.LineString{}, geom.Polygon{}, geom.MultiPoint{}, geom.MultiLineString{{}}, geom.MultiLineString{},
		geom.Polygon{{}}, geom.MultiPolygon{}, geom.MultiPolygon{{}}, geom.GeometryCollection{}, geom.GeometryCollection{geom.LineString{}},
		geom.GeometryCollection{geom.Polygon{}, geom.GeometryCollection{geom.MultiPoint{}}}}
	withEmptyMember := []geom.Geom{
		geom.MultiLineString{{}, {P(10, 10), P(11, 12)}, {}},
		geom.MultiPolygon{{}, {{P(10, 10), P(11, 12)}}, {{}}},
		geom.GeometryCollection{geom.LineString{}, P(3, 4), geom.Polygon{}},
		geom.GeometryCollection{geom.GeometryCollection{geom.Polygon{}}, geom.MultiPoint{P(1, 2), P(-1, 5)}, geom.MultiPoint{}},
		geom.Polygon{{}, {P(1, 1), P(2, 3)}},
	}
	hist := func(gs ...geom.Geom) {
		var t []string
		for _, g := range gs {
			t = append(t, vproto.GeomToks(g))
		}
		fmt.Fprintf(out, "hist %s\n", strings.Join(t, " | "))
	}
	for _, e := range empties {
		hist(e, withEmptyMember[0], e, geom.LineString{P(1, 2), P(3, 4)})
		hist(geom.LineString{P(-1, -2), P(3, 4)}, e, withEmptyMember[1])
	}
	for i := 0; i < nGeom; i++ {
		g := genGeom(r, 4, true)
		fmt.Fprintf(out, "geom %s\n", vproto.GeomToks(g))
		if i%8 == 0 {
			hist(genGeom(r, 3, false), empties[r.Intn(len(empties))], withEmptyMember[r.Intn(len(withEmptyMember))], genGeom(r, 3, false))
		}
		if i%500 == 0 {
			fmt.Fprintln(out, "new")
		}
		if i%25 == 0 {
			fmt.Fprintf(out, "geom %s\n", vproto.GeomToks(nanify(genGeom(r, 3, false), r)))
		}
	}
	// concurrent callers (see runCC): large geometries of every type, random ones, and the box operations
	nCC := 6
	if tier == "thorough" {
		nCC = 40
	}
	nBig := 0
	for _, g := range corpus() {
		n := 0
		vproto.Safe(func() { n = g.Len() })
		if n >= 256 && n <= 1100 {
			// long enough for calls to overlap; every third one in quick (a cc line on 1000 vertices costs ~0.3 s of a loaded machine)
			if nBig++; tier == "thorough" || nBig%3 == 0 {
				fmt.Fprintf(out, "cc geom %s\n", vproto.GeomToks(g))
			}
		}
	}
	for k := 0; k < 4; k++ {
		fmt.Fprintf(out, "cc geom %s\n", vproto.GeomToks(longRuns(k)))
	}
	for i := 0; i < nCC*6; i++ {
		fmt.Fprintf(out, "cc geom %s\n", vproto.GeomToks(genGeom(r, 4, false)))
	}
	for i := 0; i < nCC; i++ {
		a, b, c := genBox(r), genBox(r), genBox(r)
		A, B, C := boxToks(a), boxToks(b), boxToks(c)
		fmt.Fprintf(out, "cc ovl %s %s\ncc int %s %s\ncc ext %s %s\ncc ext3 %s %s %s\n", A, B, A, B, A, B, A, B, C)
		fmt.Fprintf(out, "cc copy %s\ncc empty %s\ncc self %s\ncc self3 %s %s\n", A, B, C, C, A)
	}
	// box catalogue: every pair of 1-D intervals (lo,hi) over a small value set (includes inverted =
	// empty intervals, touching, nested, identical, degenerate) on one axis, a random interval pair on the other
	v := catVals()
	small := []float64{math.Inf(-1), negZero, 0, 1, 2, 3, math.Inf(1)}
	type iv struct{ lo, hi float64 }
	var ivs []iv
	for _, a := range small {
		for _, b := range small {
			ivs = append(ivs, iv{a, b})
		}
	}
	riv := func() iv {
		a, b := v[r.Intn(len(v))], v[r.Intn(len(v))]
		if r.Intn(5) != 0 && a > b {
			a, b = b, a
		}
		return iv{a, b}
	}
	mk := func(x, y iv) *geom.Bounds { return &geom.Bounds{Min: P(x.lo, y.lo), Max: P(x.hi, y.hi)} }
	for _, i1 := range ivs {
		for _, i2 := range ivs {
			for k := 0; k < yPairs; k++ {
				o1, o2 := riv(), riv()
				var a, b *geom.Bounds
				if r.Bool() {
					a, b = mk(i1, o1), mk(i2, o2)
				} else {
					a, b = mk(o1, i1), mk(o2, i2)
				}
				A, B := boxToks(a), boxToks(b)
				fmt.Fprintf(out, "ovl %s %s\nint %s %s\next %s %s\n", A, B, A, B, A, B)
			}
		}
	}
	// aliased forms: one pointer on both sides, for every catalogue box (empty of both kinds,
	// degenerate, ordinary, infinite) and pairs with a repeated pointer
	fmt.Fprintf(out, "self %s\n", boxToks(geom.NewBounds()))
	for _, ix := range ivs {
		for _, iy := range ivs {
			b := mk(ix, iy)
			fmt.Fprintf(out, "self %s\n", boxToks(b))
			if r.Intn(4) == 0 {
				fmt.Fprintf(out, "self3 %s %s\n", boxToks(b), boxToks(mk(riv(), riv())))
				fmt.Fprintf(out, "self3 %s %s\n", boxToks(genBox(r)), boxToks(b))
			}
		}
	}
	fmt.Fprintf(out, "self3 %s %s\nself3 %s %s\n", boxToks(geom.NewBounds()), boxToks(geom.NewBounds()),
		boxToks(geom.NewBounds()), boxToks(&geom.Bounds{Min: P(0, 0), Max: P(1, 1)}))
	fmt.Fprintf(out, "ext %s NIL\n", boxToks(&geom.Bounds{Min: P(0, 0), Max: P(1, 1)}))
	fmt.Fprintf(out, "ext %s NIL\n", boxToks(geom.NewBounds()))
	for i := 0; i < nBox; i++ {
		a, b, c := genBox(r), genBox(r), genBox(r)
		A, B, C := boxToks(a), boxToks(b), boxToks(c)
		fmt.Fprintf(out, "ovl %s %s\nint %s %s\next %s %s\next3 %s %s %s\n", A, B, A, B, A, B, A, B, C)
		fmt.Fprintf(out, "copy %s\nempty %s\nself %s\n", A, B, C)
		if i%3 == 0 {
			fmt.Fprintf(out, "self3 %s %s\n", A, B)
		}
		p := pt(r)
		fmt.Fprintf(out, "nbp %s %s\n", vproto.F2H(p.X), vproto.F2H(p.Y))
	}
	// box lines with NaN sides (phase 4; NaN is outside the quantifier, class suffix -nan): Overlaps / Intersection /
	// Empty are judged by what every reading demands on an axis WITHOUT NaN (SpecNaN.lean), every answer incl. Extend
	// is compared with the model run with math.Min/Max/< on NaN. Emitted last: the stream above is unchanged.
	nans := []uint64{0x7ff8000000000000, 0xfff8000000000000, 0x7ff8000000000001, 0x7ffc0000deadbeef}
	nanv := func() float64 { return math.Float64frombits(nans[r.Intn(len(nans))]) }
	nanSides := func(b *geom.Bounds, prob int) (*geom.Bounds, bool) {
		c := *b
		any := false
		for _, f := range []*float64{&c.Min.X, &c.Min.Y, &c.Max.X, &c.Max.Y} {
			if r.Intn(prob) == 0 {
				*f = nanv()
				any = true
			}
		}
		return &c, any
	}
	// catalogue: one axis carries every pair of intervals (separated, touching, nested, inverted, infinite) and no NaN,
	// the other axis carries the NaN (one to four of its sides)
	every := 6
	if tier == "thorough" {
		every = 1
	}
	for _, i1 := range ivs {
		for _, i2 := range ivs {
			if r.Intn(every) != 0 {
				continue
			}
			o1, o2 := riv(), riv()
			switch r.Intn(4) {
			case 0:
				o1.lo = nanv()
			case 1:
				o1.hi = nanv()
			case 2:
				o2.lo = nanv()
			default:
				o2.hi = nanv()
			}
			if r.Intn(3) == 0 {
				o1.hi = nanv()
			}
			if r.Intn(3) == 0 {
				o2.lo = nanv()
			}
			var a, b *geom.Bounds
			if r.Bool() {
				a, b = mk(i1, o1), mk(i2, o2)
			} else {
				a, b = mk(o1, i1), mk(o2, i2)
			}
			A, B := boxToks(a), boxToks(b)
			fmt.Fprintf(out, "ovl %s %s\nint %s %s\next %s %s\nempty %s\nempty %s\n", A, B, A, B, A, B, A, B)
		}
	}
	for i := 0; i < nBox/16; i++ {
		a, na := nanSides(genBox(r), 4)
		b, nb := nanSides(genBox(r), 4)
		c, _ := nanSides(genBox(r), 6)
		if !na && !nb {
			a.Max.Y = nanv()
		}
		A, B, C := boxToks(a), boxToks(b), boxToks(c)
		fmt.Fprintf(out, "ovl %s %s\nint %s %s\next %s %s\next3 %s %s %s\n", A, B, A, B, A, B, A, B, C)
		fmt.Fprintf(out, "copy %s\nempty %s\nempty %s\nself %s\nself %s\n", A, A, B, A, B)
	}
	fmt.Fprintf(out, "ext %s NIL\n", boxToks(&geom.Bounds{Min: P(nanv(), 0), Max: P(1, 1)}))
	for i := 0; i < nBox/40; i++ {
		a, _ := nanSides(genBox(r), 4)
		b, _ := nanSides(genBox(r), 4)
		a.Min.X = nanv()
		fmt.Fprintf(out, "self3 %s %s\nself3 %s %s\n", boxToks(a), boxToks(b), boxToks(b), boxToks(a))
	}
	// fcmp: the reading of float64 the whole model rests on (value order by sign-magnitude key, -0 = +0, NaN unordered;
	// math.Min/Max with their special cases), exercised against Go's own operators on every run
	special := append(catVals(), math.Float64frombits(1), -math.Float64frombits(1), 0x1p-1022, -0x1p-1022,
		math.Nextafter(1, 2), math.Nextafter(1, 0), math.Float64frombits(nans[0]), math.Float64frombits(nans[1]),
		math.Float64frombits(nans[3]), math.Float64frombits(0x7ff0000000000001) /* signalling */)
	for _, x := range special {
		for _, y := range special {
			fmt.Fprintf(out, "fcmp %s %s\n", vproto.F2H(x), vproto.F2H(y))
		}
	}
	for i := 0; i < nBox/8; i++ {
		x, y := coord(r), coord(r)
		if i%7 == 0 {
			y = math.Float64frombits(math.Float64bits(x) ^ uint64(1)<<uint(r.Intn(64))) // one bit apart
		}
		fmt.Fprintf(out, "fcmp %s %s\n", vproto.F2H(x), vproto.F2H(y))
	}
	// more than 2^16 vertices / members at ONE level, for every captured counter (i, j, k) of every Points() closure and
	// every Len()/Bounds() loop: a 16-bit index or count wraps here and nowhere else (phase 4, self-mutation Q7). All
	// coordinates distinct, the extremes in the last quarter. Emitted last: a failing small input is found first.
	for _, g := range hugeCorpus() {
		fmt.Fprintf(out, "geom %s\n", vproto.GeomToks(g))
	}
}

func hugeCorpus() []geom.Geom {
	const n = 1<<16 + 77
	ps := make([]geom.Point, n)
	for i := range ps {
		ps[i] = P(float64(i), float64(-3*i))
	}
	ps[n-5] = P(-7, 9)
	rings := make(geom.Polygon, n)       // n rings of one vertex, every 97th empty
	mls := make(geom.MultiLineString, n) // n line strings
	mpg := make(geom.MultiPolygon, n)    // n polygons
	gc := make(geom.GeometryCollection, n)
	for i := range ps {
		if i%97 == 3 {
			rings[i], mls[i], mpg[i], gc[i] = geom.Path{}, geom.LineString{}, geom.Polygon{{}}, geom.MultiPoint{}
			continue
		}
		rings[i] = ps[i : i+1]
		mls[i] = geom.LineString(ps[i : i+1])
		mpg[i] = geom.Polygon{ps[i : i+1]}
		gc[i] = ps[i]
	}
	return []geom.Geom{geom.LineString(ps), geom.Polygon{{}, ps}, rings, mls, mpg, gc}
}

// ---------------------------------------------------------------- implementation runner

func ptsStr(ps []geom.Point) string {
	var b strings.Builder
	fmt.Fprintf(&b, "%d", len(ps))
	for _, p := range ps {
		b.WriteString(" " + vproto.F2H(p.X) + " " + vproto.F2H(p.Y))
	}
	return b.String()
}

func boxRes(b *geom.Bounds) string {
	if b == nil {
		return "nil"
	}
	return "ok " + vproto.F2H(b.Min.X) + " " + vproto.F2H(b.Min.Y) + " " + vproto.F2H(b.Max.X) + " " + vproto.F2H(b.Max.Y)
}

func polyRes(p geom.Polygonal) string {
	if p == nil {
		return "nil"
	}
	if b, ok := p.(*geom.Bounds); ok {
		return boxRes(b)
	}
	return fmt.Sprintf("other(%T)", p)
}

// poison mutates a box the way a caller may: the accumulate idiom b.Extend(far-away box), then plain
// writes to Min/Max. A box returned by the library belongs to the caller; nothing the library
// returns later may depend on what the caller did to an earlier result.
func poison(b *geom.Bounds) {
	if b == nil {
		return
	}
	vproto.Safe(func() {
		b.Extend(&geom.Bounds{Min: P(-1e6, -2e6), Max: P(-5e5, -1e6)})
		b.Min = P(-123456, -123457)
		b.Max = P(123458, 123459)
	})
}

// afterProbe calls it k more times, recovering each call on its own: "p p" for a panic, else the point's bit patterns
func afterProbe(it func() geom.Point, k int) string {
	var sb strings.Builder
	fmt.Fprintf(&sb, " after %d", k)
	for c := 0; c < k; c++ {
		var q geom.Point
		if pan := vproto.Safe(func() { q = it() }); pan != "" {
			sb.WriteString(" p p")
		} else {
			sb.WriteString(" " + vproto.F2H(q.X) + " " + vproto.F2H(q.Y))
		}
	}
	return sb.String()
}

func safeBounds(g geom.Geom) string {
	var b *geom.Bounds
	if pan := vproto.Safe(func() { b = g.Bounds() }); pan != "" {
		return "panic"
	}
	return boxRes(b)
}

func runGeom(g geom.Geom) string {
	before := vproto.GeomToks(g)
	var res strings.Builder
	n := -1
	if pan := vproto.Safe(func() { n = g.Len() }); pan != "" {
		res.WriteString("len panic")
	} else {
		fmt.Fprintf(&res, "len ok %d", n)
	}
	// drain Len() times
	var got []geom.Point
	if n < 0 {
		res.WriteString(" pts nolen")
		// Len() panicked (a nil member): what does the iterator hand out before it reaches the nil member?  Drained
		// until it panics (compared with the model: C04_nil_points_prefix / C04_nil_points_fault)
		var pre []geom.Point
		var itN func() geom.Point
		vproto.Safe(func() {
			itN = g.Points()
			for i := 0; i < 1<<16; i++ {
				pre = append(pre, itN())
			}
		})
		res.WriteString(" drained " + ptsStr(pre))
		// the five calls after that first panic: the closure keeps the captured variables where the panic left them
		// (unspecified by the property; compared with the model's nextS, After.lean)
		if itN != nil && len(pre) < 1<<16 {
			res.WriteString(afterProbe(itN, 5))
		}
	} else {
		pan := vproto.Safe(func() {
			it := g.Points()
			for i := 0; i < n; i++ {
				got = append(got, it())
			}
		})
		if pan != "" {
			res.WriteString(" pts panic " + ptsStr(got))
		} else {
			res.WriteString(" pts ok " + ptsStr(got))
			// two further iterators, interleaved: each must be independent of the other and equal the first run
			indep := 1
			if pan := vproto.Safe(func() {
				a, b := g.Points(), g.Points()
				for i := 0; i < n; i++ {
					pa := a()
					if i > 0 {
						pb := b()
						if math.Float64bits(pb.X) != math.Float64bits(got[i-1].X) || math.Float64bits(pb.Y) != math.Float64bits(got[i-1].Y) {
							indep = 0
						}
					}
					if math.Float64bits(pa.X) != math.Float64bits(got[i].X) || math.Float64bits(pa.Y) != math.Float64bits(got[i].Y) {
						indep = 0
					}
				}
			}); pan != "" {
				indep = 0
			}
			fmt.Fprintf(&res, " indep %d", indep)
			// the call after the last vertex (unspecified by the property; compared with the model, C04_points_exhausted)
			var extra geom.Point
			reached := false
			if pan := vproto.Safe(func() {
				it := g.Points()
				for i := 0; i < n; i++ {
					it()
				}
				reached = true
				extra = it()
			}); pan != "" {
				if reached {
					res.WriteString(" beyond panic")
				}
			} else {
				res.WriteString(" beyond ok " + vproto.F2H(extra.X) + " " + vproto.F2H(extra.Y))
			}
			// five calls after Len() calls on a fourth fresh iterator, each recovered separately: what an iterator does
			// AFTER it has panicked (compared with the model's nextS; C04_points_after_fault: it panics again)
			var it4 func() geom.Point
			if pan := vproto.Safe(func() {
				it4 = g.Points()
				for i := 0; i < n; i++ {
					it4()
				}
			}); pan == "" {
				res.WriteString(afterProbe(it4, 5))
			}
		}
	}
	var b *geom.Bounds
	if pan := vproto.Safe(func() { b = g.Bounds() }); pan != "" {
		res.WriteString(" bnd panic")
	} else {
		res.WriteString(" bnd " + boxRes(b))
		// a second call gives the same box, and (except for *Bounds, which returns itself) a fresh one
		var b2 *geom.Bounds
		same := 1
		if pan := vproto.Safe(func() { b2 = g.Bounds() }); pan != "" || boxRes(b2) != boxRes(b) {
			same = 0
		}
		fmt.Fprintf(&res, " again %d", same)
		// history probe: the caller mutates the boxes it was given, then asks again. (A *Bounds
		// returns itself by design, so its own result is left alone.)
		if _, isBox := g.(*geom.Bounds); !isBox {
			poison(b)
			poison(b2)
		}
		res.WriteString(" hist " + safeBounds(g))
	}
	mut := 0
	if vproto.GeomToks(g) != before {
		mut = 1
	}
	fmt.Fprintf(&res, " mut %d", mut)
	// same addresses, same lengths, other contents: every vertex is transposed (x,y -> y,x) IN PLACE and
	// Len/Points/Bounds are asked again; a cache keyed by address/length would answer for the old contents
	g = swapInPlace(g)
	n2 := -1
	if pan := vproto.Safe(func() { n2 = g.Len() }); pan != "" {
		res.WriteString(" swap panic")
		return res.String()
	}
	var got2 []geom.Point
	st := "ok"
	if pan := vproto.Safe(func() {
		it := g.Points()
		for i := 0; i < n2; i++ {
			got2 = append(got2, it())
		}
	}); pan != "" {
		st = "panic"
	}
	fmt.Fprintf(&res, " swap %d %s %s bnd %s", n2, st, ptsStr(got2), safeBounds(g))
	return res.String()
}

func swapPts(ps []geom.Point) {
	for i := range ps {
		ps[i].X, ps[i].Y = ps[i].Y, ps[i].X
	}
}

// swapInPlace transposes every vertex of g without changing any slice header or pointer
// (a top-level Point is a value and is returned transposed).
func swapInPlace(g geom.Geom) geom.Geom {
	switch t := g.(type) {
	case geom.Point:
		return geom.Point{X: t.Y, Y: t.X}
	case geom.MultiPoint:
		swapPts(t)
	case geom.LineString:
		swapPts(t)
	case geom.MultiLineString:
		for _, l := range t {
			swapPts(l)
		}
	case geom.Polygon:
		for _, l := range t {
			swapPts(l)
		}
	case geom.MultiPolygon:
		for _, pg := range t {
			for _, l := range pg {
				swapPts(l)
			}
		}
	case geom.GeometryCollection:
		for i := range t {
			if t[i] != nil {
				t[i] = swapInPlace(t[i])
			}
		}
	case *geom.Bounds:
		if t != nil {
			t.Min.X, t.Min.Y = t.Min.Y, t.Min.X
			t.Max.X, t.Max.Y = t.Max.Y, t.Max.X
		}
	}
	return g
}

// rewindow lays the rings / line strings of g out as consecutive windows of ONE flat buffer with
// spare capacity (buf[0:n1:…], buf[n1:n1+n2:…], …): an append to, or a write past the end of, one
// member lands in the next one and shows up in the before/after comparison of the input. Members
// without vertices alternate between nil and an empty window in the middle of the buffer.
func rewindow(g geom.Geom, ctr *int) geom.Geom {
	win := func(rings []geom.Path) {
		total := 0
		for _, r := range rings {
			total += len(r)
		}
		buf := make([]geom.Point, total, total+8)
		off := 0
		for i, r := range rings {
			copy(buf[off:], r)
			*ctr++
			if len(r) == 0 && *ctr%2 == 0 {
				rings[i] = nil
			} else {
				rings[i] = buf[off : off+len(r)] // capacity reaches into the following members
			}
			off += len(r)
		}
	}
	switch t := g.(type) {
	case geom.Polygon:
		win(t)
	case geom.MultiLineString:
		rs := make([]geom.Path, len(t))
		for i := range t {
			rs[i] = geom.Path(t[i])
		}
		win(rs)
		for i := range t {
			t[i] = geom.LineString(rs[i])
		}
	case geom.MultiPolygon:
		var all []geom.Path
		for _, pg := range t {
			all = append(all, pg...)
		}
		win(all)
		k := 0
		for _, pg := range t {
			for j := range pg {
				pg[j] = all[k]
				k++
			}
		}
	case geom.GeometryCollection:
		for i := range t {
			if t[i] != nil {
				t[i] = rewindow(t[i], ctr)
			}
		}
	}
	return g
}

func parseBox(p *vproto.Parser) *geom.Bounds {
	g := p.Geom()
	if g == nil {
		return nil
	}
	return g.(*geom.Bounds)
}

func runLine(line string) (res string) {
	p := vproto.NewParser(line)
	kind := p.Next()
	pan := vproto.Safe(func() {
		switch kind {
		case "geom":
			res = runGeom(rewindow(p.Geom(), new(int)))
		case "hist":
			// hist G | P1 | P2 ...: take G.Bounds(), mutate it, then report Bounds() of G and of the others
			var gs []geom.Geom
			gs = append(gs, p.Geom())
			for !p.Done() && p.Peek() == "|" {
				p.Next()
				gs = append(gs, p.Geom())
			}
			var b0 *geom.Bounds
			vproto.Safe(func() { b0 = gs[0].Bounds() })
			if _, isBox := gs[0].(*geom.Bounds); !isBox {
				poison(b0)
			}
			var parts []string
			for _, g := range gs {
				parts = append(parts, safeBounds(g))
			}
			// and once more after mutating every box just returned
			for _, g := range gs {
				if _, isBox := g.(*geom.Bounds); !isBox {
					vproto.Safe(func() { poison(g.Bounds()) })
				}
			}
			for _, g := range gs {
				parts = append(parts, safeBounds(g))
			}
			res = strings.Join(parts, " ")
		case "cc":
			res = runCC(strings.TrimSpace(strings.TrimPrefix(strings.TrimSpace(line), "cc")))
		case "new":
			poison(geom.NewBounds())
			res = boxRes(geom.NewBounds())
		case "nbp":
			pt := p.Pt()
			poison(geom.NewBoundsPoint(pt))
			res = boxRes(geom.NewBoundsPoint(pt))
		case "ext":
			a, b := parseBox(p), parseBox(p)
			var bb string
			if b != nil {
				bb = boxToks(b)
			}
			c := a.Copy()
			c.Extend(b)
			res = boxRes(c)
			if b != nil && boxToks(b) != bb {
				res += " argmut"
			}
		case "ext3":
			a, b, c := parseBox(p), parseBox(p), parseBox(p)
			l := a.Copy()
			l.Extend(b)
			l.Extend(c)
			bc := b.Copy()
			bc.Extend(c)
			rr := a.Copy()
			rr.Extend(bc)
			ba := b.Copy()
			ba.Extend(a)
			aa := a.Copy()
			aa.Extend(a)
			res = boxRes(l) + " " + boxRes(rr) + " " + boxRes(ba) + " " + boxRes(aa)
		case "self":
			// the SAME pointer on both sides of every binary operation (also via b.Bounds(), which returns b)
			b := parseBox(p)
			B := boxToks(b)
			o1, o2, o3 := b.Overlaps(b), b.Overlaps(b.Bounds()), b.Bounds().Overlaps(b)
			i1 := b.Intersection(b)
			i2 := b.Intersection(b.Bounds())
			w1, w2 := b.Within(b), b.Within(b.Bounds())
			c := b.Copy()
			c.Extend(c)
			d := b.Copy()
			d.Extend(d.Bounds())
			o4 := b.Overlaps(b) // once more, after everything else
			res = fmt.Sprintf("ovl %v %v %v %v int %s %s ext %s %s within %d %d", o1, o2, o3, o4, polyRes(i1), polyRes(i2), boxRes(c), boxRes(d), w1, w2)
			if boxToks(b) != B {
				res += " argmut"
			}
		case "self3":
			// triples in which two of the three are the same pointer; all-pairs scans include the diagonal
			a, b := parseBox(p), parseBox(p)
			A, B := boxToks(a), boxToks(b)
			t1 := a.Copy()
			t1.Extend(b)
			t1.Extend(b)
			t2 := a.Copy()
			t2.Extend(t2)
			t2.Extend(b)
			t3 := b.Copy()
			t3.Extend(a)
			t3.Extend(t3)
			xs := []*geom.Bounds{a, b, a}
			var sb strings.Builder
			sb.WriteString("ovl")
			for _, x := range xs {
				for _, y := range xs {
					fmt.Fprintf(&sb, " %v", x.Overlaps(y))
				}
			}
			sb.WriteString(" int")
			for _, x := range xs {
				for _, y := range xs {
					sb.WriteString(" " + polyRes(x.Intersection(y)))
				}
			}
			// late: the join results are printed after all the other calls
			sb.WriteString(" ext " + boxRes(t1) + " " + boxRes(t2) + " " + boxRes(t3))
			res = sb.String()
			if boxToks(a) != A || boxToks(b) != B {
				res += " argmut"
			}
		case "ovl":
			a, b := parseBox(p), parseBox(p)
			res = fmt.Sprintf("%v %v", a.Overlaps(b), b.Overlaps(a))
		case "int":
			a, b := parseBox(p), parseBox(p)
			A, B := boxToks(a), boxToks(b)
			// a first result is mutated by the caller (unless it is one of the operands), then asked again
			for _, r0 := range []geom.Polygonal{a.Intersection(b), b.Intersection(a)} {
				if bb, ok := r0.(*geom.Bounds); ok && bb != a && bb != b {
					poison(bb)
				}
			}
			r1 := a.Intersection(b)
			r2 := b.Intersection(a)
			res = polyRes(r1) + " " + polyRes(r2)
			if boxToks(a) != A || boxToks(b) != B {
				res += " argmut"
			}
			if bb, ok := r1.(*geom.Bounds); ok && (bb == a || bb == b) {
				// returning one of the operands is allowed only if nothing else is wrong; reported for information
				res += " alias"
			}
		case "copy":
			a := parseBox(p)
			if c0 := a.Copy(); c0 != a {
				poison(c0)
			}
			c := a.Copy()
			res = boxRes(c)
			alias := 0
			if c == a {
				alias = 1
			} else {
				A := boxToks(a)
				c.Min.X, c.Min.Y, c.Max.X, c.Max.Y = 12345, 12346, 12347, 12348
				if boxToks(a) != A {
					alias = 1
				}
			}
			res += fmt.Sprintf(" alias %d", alias)
		case "empty":
			a := parseBox(p)
			res = fmt.Sprintf("%v", a.Empty())
		case "fcmp":
			x, y := p.F(), p.F()
			res = fmt.Sprintf("%v %v %v %s %s", x < y, x <= y, x == y, vproto.F2H(math.Min(x, y)), vproto.F2H(math.Max(x, y)))
		default:
			res = "badline"
		}
	})
	if pan != "" {
		res = "panic " + pan
	}
	return res
}

// ---------------------------------------------------------------- concurrent callers

// hammerSet builds large geometries and boxes that belong to ONE hammer goroutine (coordinates shifted by id, so
// they are unrelated to every case and to each other).
func hammerSet(id int) ([]geom.Geom, []*geom.Bounds) {
	off := float64(1000 * (id + 1))
	ring := func(n int, d float64) geom.Path {
		p := make(geom.Path, n)
		for i := range p {
			p[i] = P(off+d+float64(i%97), off-d+float64((i*7)%89))
		}
		return p
	}
	ml := make(geom.MultiLineString, 64)
	mpg := make(geom.MultiPolygon, 32)
	gc := make(geom.GeometryCollection, 0, 64)
	for i := range ml {
		ml[i] = geom.LineString(ring(64*(i%3), float64(i)))
	}
	for i := range mpg {
		mpg[i] = geom.Polygon{ring(32*(i%2), float64(i)), {}, ring(32, float64(2*i))}
	}
	for i := 0; i < 16; i++ {
		gc = append(gc, geom.MultiPoint(ring(16, float64(i))), geom.LineString{}, geom.GeometryCollection{geom.Polygon{{}, ring(8, 1)}, P(off, off)},
			&geom.Bounds{Min: P(off, off), Max: P(off+float64(i), off+1)})
	}
	gs := []geom.Geom{geom.LineString(ring(4096, 0)), geom.Polygon{ring(2048, 1), {}, ring(2048, 2), ring(2048, 3)}, ml, mpg,
		geom.MultiPoint(ring(4096, 5)), gc, P(off, -off)}
	bs := []*geom.Bounds{{Min: P(off, off), Max: P(off+5, off+7)}, {Min: P(off+2, off-3), Max: P(off+9, off+1)}, geom.NewBounds(),
		{Min: P(-off, -off), Max: P(off, off)}, {Min: P(off+2, off), Max: P(off+1, off+1)}}
	return gs, bs
}

var ccSink uint64

type hset struct {
	gs []geom.Geom
	bs []*geom.Bounds
}

var (
	hsets    [8]*hset
	hsetOnce sync.Once
)

func hammer(id int, stop *int32) {
	// built once per process: the library only reads them, and only hammer `id` ever touches set `id`
	hsetOnce.Do(func() {
		for i := range hsets {
			gs, bs := hammerSet(i)
			hsets[i] = &hset{gs, bs}
		}
	})
	gs, bs := hsets[id].gs, hsets[id].bs
	var acc uint64
	for it := 0; atomic.LoadInt32(stop) == 0; it++ {
		vproto.Safe(func() {
			g := gs[it%len(gs)]
			b := g.Bounds()
			acc += math.Float64bits(b.Min.X) ^ math.Float64bits(b.Max.Y)
			n := g.Len()
			f := g.Points()
			for i := 0; i < n && i < 256; i++ {
				acc += math.Float64bits(f().X)
			}
			a, c := bs[it%len(bs)], bs[(it/len(bs))%len(bs)]
			j := a.Copy()
			j.Extend(c)
			j.Extend(b)
			if a.Overlaps(c) || j.Empty() {
				acc++
			}
			if r, ok := a.Intersection(c).(*geom.Bounds); ok && r != nil {
				acc += math.Float64bits(r.Min.Y)
			}
			acc += math.Float64bits(geom.NewBoundsPoint(P(float64(it), 1)).Max.X) + math.Float64bits(geom.NewBounds().Min.X)
		})
	}
	atomic.AddUint64(&ccSink, acc)
}

// runCC: reference answer alone, then the same line answered concurrently (each call parses its own operands)
// under hammering; the first answer that differs from the reference, else the reference.
func runCC(inner string) string {
	if strings.HasPrefix(inner, "cc") || strings.HasPrefix(inner, "hist") || strings.HasPrefix(inner, "new") {
		return "badline"
	}
	ref := runLine(inner)
	const nW, nH = 8, 8
	rounds := 8
	switch {
	case len(inner) > 20000:
		rounds = 2 // long lines: parsing and printing dominate, the calls overlap with the hammers anyway
	case len(inner) > 4000:
		rounds = 4
	}
	var stop int32
	var wgH, wgW sync.WaitGroup
	for h := 0; h < nH; h++ {
		wgH.Add(1)
		go func(h int) { defer wgH.Done(); hammer(h, &stop) }(h)
	}
	results := make([]string, nW)
	for w := 0; w < nW; w++ {
		wgW.Add(1)
		go func(w int) {
			defer wgW.Done()
			for k := 0; k < rounds; k++ {
				if s := runLine(inner); s != ref {
					results[w] = s
					return
				}
			}
		}(w)
	}
	wgW.Wait()
	// second phase, hammers still running: ONE set of operands read by all workers at once (nobody writes): a
	// "read-only" method that scribbles on its receiver or operand and restores it is invisible sequentially
	shared := make([]string, nW)
	if ro, boxes, ok := roCall(inner); ok {
		ref2 := ro(false)
		iters := rounds
		if len(boxes) > 0 {
			iters = 4000 * rounds // box predicates take nanoseconds: many calls, or no two ever overlap
		}
		// disturbers: other READ-ONLY uses of the same shared boxes, with partners of their own (a far-away box, an
		// empty one, a huge one) — e.g. a "read-only" method that clips its receiver in place and restores it
		var stop2 int32
		var wgD sync.WaitGroup
		for d := 0; d < 4 && len(boxes) > 0; d++ {
			wgD.Add(1)
			go func(d int) {
				defer wgD.Done()
				far := &geom.Bounds{Min: P(1e300, 1e300), Max: P(1.5e300, 1.5e300)}
				huge := &geom.Bounds{Min: P(math.Inf(-1), math.Inf(-1)), Max: P(math.Inf(1), math.Inf(1))}
				var acc int
				for i := 0; atomic.LoadInt32(&stop2) == 0; i++ {
					vproto.Safe(func() {
						x := boxes[(i+d)%len(boxes)]
						if x.Overlaps(far) || far.Overlaps(x) || x.Empty() || x.Overlaps(huge) {
							acc++
						}
						if x.Intersection(far) != nil || far.Intersection(x) != nil || huge.Intersection(x) == nil {
							acc++
						}
						c := far.Copy()
						c.Extend(x)
						acc += x.Len() + int(math.Float64bits(x.Copy().Min.X)&1) + int(math.Float64bits(x.Points()().Y)&1)
					})
				}
				atomic.AddUint64(&ccSink, uint64(acc))
			}(d)
		}
		for w := 0; w < nW; w++ {
			wgW.Add(1)
			go func(w int) {
				defer wgW.Done()
				for k := 0; k < iters; k++ {
					if s := ro(false); s != ref2 {
						shared[w] = s
						return
					}
				}
			}(w)
		}
		wgW.Wait()
		atomic.StoreInt32(&stop2, 1)
		wgD.Wait()
		// once more alone, now also comparing the operands with what was parsed (geom: `mut`)
		if s := ro(true); s != ref2 {
			shared = append(shared, s)
		}
	}
	atomic.StoreInt32(&stop, 1)
	wgH.Wait()
	for _, s := range append(results, shared...) {
		if s != "" {
			return s
		}
	}
	return ref
}

// roCall parses the operands of a geom/ovl/int/empty line ONCE and returns a function that only reads them and
// reports in the answer format of that line kind (for geom: the prefix of runGeom's answer that needs no writes).
func roCall(inner string) (func(final bool) string, []*geom.Bounds, bool) {
	p := vproto.NewParser(inner)
	kind := p.Next()
	var f func(final bool) string
	var boxes []*geom.Bounds
	pan := vproto.Safe(func() {
		switch kind {
		case "geom":
			g := p.Geom()
			before := vproto.GeomToks(g)
			f = func(final bool) string {
				var res strings.Builder
				n := -1
				if pan := vproto.Safe(func() { n = g.Len() }); pan != "" {
					return "len panic pts nolen bnd " + safeBounds(g) + " mut 0"
				}
				var got []geom.Point
				st := "ok"
				if pan := vproto.Safe(func() {
					it := g.Points()
					for i := 0; i < n; i++ {
						got = append(got, it())
					}
				}); pan != "" {
					st = "panic"
				}
				fmt.Fprintf(&res, "len ok %d pts %s %s", n, st, ptsStr(got))
				if st == "ok" {
					res.WriteString(" indep 1")
				}
				res.WriteString(" bnd " + safeBounds(g))
				if final && vproto.GeomToks(g) != before {
					return res.String() + " mut 1"
				}
				return res.String() + " mut 0"
			}
		case "ovl":
			a, b := parseBox(p), parseBox(p)
			boxes = []*geom.Bounds{a, b}
			f = func(final bool) string {
				s := "panic"
				vproto.Safe(func() { s = fmt.Sprintf("%v %v", a.Overlaps(b), b.Overlaps(a)) })
				return s
			}
		case "int":
			a, b := parseBox(p), parseBox(p)
			A, B := boxToks(a), boxToks(b)
			boxes = []*geom.Bounds{a, b}
			f = func(final bool) string {
				s := "panic"
				vproto.Safe(func() {
					s = polyRes(a.Intersection(b)) + " " + polyRes(b.Intersection(a))
					if boxToks(a) != A || boxToks(b) != B {
						s += " argmut"
					}
				})
				return s
			}
		case "empty":
			a := parseBox(p)
			boxes = []*geom.Bounds{a}
			f = func(final bool) string {
				s := "panic"
				vproto.Safe(func() { s = fmt.Sprintf("%v", a.Empty()) })
				return s
			}
		}
	})
	return f, boxes, pan == "" && f != nil
}

func impl() {
	leaked := 0
	vproto.Lines(func(line string, out *bufio.Writer) {
		if leaked >= 6 {
			fmt.Fprintf(out, "%s => timeout saturated\n", line)
			return
		}
		ch := make(chan string, 1)
		go func() { ch <- runLine(line) }()
		wd := 3 * time.Second
		if strings.HasPrefix(line, "cc ") {
			wd = 30 * time.Second // 16 goroutines on a machine shared with other checks; still a watchdog, not a budget
		}
		var res string
		select {
		case res = <-ch:
		case <-time.After(wd):
			res = "timeout"
			leaked++
		}
		fmt.Fprintf(out, "%s => %s\n", line, res)
	})
}

func main() {
	if len(os.Args) < 2 {
		fmt.Fprintln(os.Stderr, "usage: c04 gen|impl|extract")
		os.Exit(2)
	}
	switch os.Args[1] {
	case "gen":
		seed, tier := vproto.SeedTier(os.Args[2:])
		gen(seed, tier)
	case "impl":
		impl()
	case "extract":
		extractMain(os.Args[2:])
	}
}
