package main

// Hidden-state tie for C04: `c04 extract --state --repo DIR` prints the module GeomV.C04.GenState.
//
// The regenerated definitions of Gen.lean are PURE functions of their arguments (a pointer receiver is a
// value threaded through the statements, a Points() closure is a step function on its own counters).  That
// reading is only faithful if the Go functions keep no other state: no package-level scratch variable or
// cache, no store through a slice/pointer parameter (the geometry's own point slices), no address taken, no
// goroutine.  For every function of the `targets` table (extract.go), every function literal inside them
// (analysed on their own, numbered in source order: "LineString.Points/func1", a literal inside a literal
// "(*Bounds).Points/func1/func1") and every function or method of package geom that they call transitively
// inside the anchored files (call resolution BY NAME: `x.Extend(…)` reaches every method called Extend that
// is declared in those files) this lists the WRITES THAT ARE NOT TO A LOCAL VARIABLE OF THE FUNCTION ITSELF:
//
//	pkgvar X            assignment to / store through a package-level variable of package geom (all non-test files)
//	captured E          a function literal writing a variable of an enclosing function (`i++`, `i = 0`, `p = …`, `b.Min.X = …`)
//	recv-field E, recv-elem E, recv-deref E      store through the receiver (field of a pointer receiver,
//	                    element of a slice receiver, `*b = …`)
//	param-field E, param-elem E, param-deref E   the same through a parameter
//	alias-field E, alias-elem E, alias-deref E   the same through a local that was initialised from an
//	                    expression rooted at the receiver, a parameter, a non-local or another such local
//	                    (`q := b`, `for _, r := range p`, `bp, ok := poly.(*Bounds)`, `x := Path(l)`)
//	nonlocal E          write whose root identifier is declared nowhere in sight (foreign package variable)
//	addr E              `&E` with E rooted at the receiver, a parameter, a non-local (never `&T{…}`)
//	append E            append(E, …) with E rooted at the receiver, a parameter, an alias or a non-local
//	go                  a go statement
//
// A store counts only when it passes THROUGH a reference on the way from the root: the types declared in
// package geom are resolved syntactically (named type → underlying), a selector on a struct VALUE or an index
// on an array value stays inside the local copy (`p Point; p.X = 0` is local), a selector through a pointer,
// an index into a slice or map, a dereference, or a step whose type cannot be resolved (conservative) is a
// store.  Writes are `x = …`, `x op= …`, `x++/--`, multi-assign, `x[i] = …`, `x.f = …`, `*x = …` and range
// loops with `=` key/value.  NOT seen: state kept by calls of foreign methods, stores through a local that
// received its alias from a function RESULT (`q := b.extendPoint(p)`), reflection/unsafe.

import (
	"fmt"
	"go/ast"
	"go/parser"
	"go/token"
	"go/types"
	"os"
	"path/filepath"
	"sort"
	"strings"
)

var stAnchored = []string{"bounds.go", "point.go", "multipoint.go", "linestring.go", "multilinestring.go",
	"polygon.go", "multipolygon.go", "geometrycollection.go"}

type stVar struct {
	typ    ast.Expr // nil: unknown
	origin string   // "recv", "param", "alias"
}

type stPkg struct {
	types   map[string]ast.Expr // named types of package geom
	pkgVars map[string]bool     // package-level vars, all non-test files
}

// underlying type expression of t (named types of the package resolved); nil when unknown
func (p *stPkg) under(t ast.Expr) ast.Expr {
	for n := 0; n < 32 && t != nil; n++ {
		switch x := t.(type) {
		case *ast.ParenExpr:
			t = x.X
		case *ast.Ident:
			u, ok := p.types[x.Name]
			if !ok {
				return x // predeclared (float64, int, …) or unknown
			}
			t = u
		default:
			return t
		}
	}
	return nil
}

func (p *stPkg) field(st *ast.StructType, name string) ast.Expr {
	for _, f := range st.Fields.List {
		for _, n := range f.Names {
			if n.Name == name {
				return f.Type
			}
		}
	}
	return nil
}

type stStep struct {
	kind string // "field", "elem", "deref"
	name string
}

// decompose an expression into its root identifier and the steps from the root outward; also sees
// through &x, x.(T), conversions T(x) and slicings.  conv records the type forced by the outermost
// conversion / assertion.
func stChain(e ast.Expr, pkg *stPkg) (root *ast.Ident, steps []stStep, ok bool) {
	var rev []stStep
	for {
		switch t := e.(type) {
		case *ast.Ident:
			for i := len(rev) - 1; i >= 0; i-- {
				steps = append(steps, rev[i])
			}
			return t, steps, true
		case *ast.SelectorExpr:
			rev = append(rev, stStep{"field", t.Sel.Name})
			e = t.X
		case *ast.IndexExpr:
			rev = append(rev, stStep{"elem", ""})
			e = t.X
		case *ast.StarExpr:
			rev = append(rev, stStep{"deref", ""})
			e = t.X
		case *ast.ParenExpr:
			e = t.X
		case *ast.SliceExpr:
			rev = append(rev, stStep{"slice", ""})
			e = t.X
		case *ast.UnaryExpr:
			if t.Op != token.AND {
				return nil, nil, false
			}
			rev = append(rev, stStep{"addr", ""})
			e = t.X
		case *ast.TypeAssertExpr:
			rev = append(rev, stStep{"unknown", ""})
			e = t.X
		case *ast.CallExpr:
			// conversion T(x) with T a named type of the package, or []T(x)
			if len(t.Args) != 1 {
				return nil, nil, false
			}
			switch f := t.Fun.(type) {
			case *ast.Ident:
				if _, isT := pkg.types[f.Name]; !isT {
					return nil, nil, false
				}
			case *ast.ArrayType, *ast.ParenExpr:
			default:
				return nil, nil, false
			}
			rev = append(rev, stStep{"unknown", ""})
			e = t.Args[0]
		default:
			return nil, nil, false
		}
	}
}

// walk the steps from a root of type typ; through = the designated location is reached through a
// reference (pointer, slice, map) or through a step of unknown type; the resulting type (nil = unknown)
func (p *stPkg) walk(typ ast.Expr, steps []stStep) (through bool, out ast.Expr) {
	cur := typ
	for _, s := range steps {
		u := p.under(cur)
		switch s.kind {
		case "field":
			switch x := u.(type) {
			case *ast.StructType:
				cur = p.field(x, s.name)
			case *ast.StarExpr:
				through = true
				if st, ok := p.under(x.X).(*ast.StructType); ok {
					cur = p.field(st, s.name)
				} else {
					cur = nil
				}
			default:
				through, cur = true, nil
			}
		case "elem":
			switch x := u.(type) {
			case *ast.ArrayType:
				if x.Len == nil {
					through = true
				}
				cur = x.Elt
			case *ast.MapType:
				through, cur = true, x.Value
			case *ast.StarExpr:
				through = true
				if a, ok := p.under(x.X).(*ast.ArrayType); ok {
					cur = a.Elt
				} else {
					cur = nil
				}
			default:
				through, cur = true, nil
			}
		case "deref":
			through = true
			if x, ok := u.(*ast.StarExpr); ok {
				cur = x.X
			} else {
				cur = nil
			}
		case "slice":
			if x, ok := u.(*ast.ArrayType); ok && x.Len != nil {
				cur = &ast.ArrayType{Elt: x.Elt}
			}
		case "addr":
			if cur != nil {
				cur = &ast.StarExpr{X: cur}
			}
		default:
			cur = nil
		}
	}
	return through, cur
}

// a value of this type can carry a reference to somebody else's memory
func (p *stPkg) refLike(t ast.Expr) bool {
	switch x := p.under(t).(type) {
	case nil:
		return true
	case *ast.Ident:
		switch x.Name {
		case "bool", "string", "int", "int8", "int16", "int32", "int64", "uint", "uint8", "uint16", "uint32",
			"uint64", "uintptr", "float32", "float64", "complex64", "complex128", "byte", "rune":
			return false
		}
		return true
	case *ast.StructType:
		for _, f := range x.Fields.List {
			if p.refLike(f.Type) {
				return true
			}
		}
		return false
	case *ast.ArrayType:
		return x.Len == nil || p.refLike(x.Elt)
	}
	return true
}

type stRow struct {
	name   string
	writes map[string]bool
}

type stFn struct {
	pkg    *stPkg
	env    map[string]*stVar // receiver, parameters and alias locals (tracked)
	locals map[string]bool   // every name declared in the function (params, results, :=, var, range)
	outer  []map[string]bool // names declared in the enclosing functions (for literals)
	row    *stRow
}

func (f *stFn) addFields(fl *ast.FieldList, origin string) {
	if fl == nil {
		return
	}
	for _, fd := range fl.List {
		for _, n := range fd.Names {
			f.locals[n.Name] = true
			if origin != "" {
				f.env[n.Name] = &stVar{fd.Type, origin}
			}
		}
	}
}

// typ of an expression rooted at a tracked variable; tracked = its root is the receiver, a parameter, an
// alias, a captured or a package-level variable
func (f *stFn) rooted(e ast.Expr) (tracked bool, typ ast.Expr) {
	root, steps, ok := stChain(e, f.pkg)
	if !ok || root.Name == "_" || root.Name == "nil" {
		return false, nil
	}
	if v, ok := f.env[root.Name]; ok {
		_, t := f.pkg.walk(v.typ, steps)
		switch x := e.(type) { // the outermost conversion / assertion fixes the type
		case *ast.TypeAssertExpr:
			t = x.Type
		case *ast.CallExpr:
			t = x.Fun
		}
		return true, t
	}
	if f.locals[root.Name] {
		return false, nil
	}
	switch root.Name {
	case "true", "false", "iota":
		return false, nil
	}
	return true, nil // captured / package-level / foreign
}

func (f *stFn) declare(lhs ast.Expr, rhs ast.Expr, elemOf bool, key bool) {
	id, ok := lhs.(*ast.Ident)
	if !ok || id.Name == "_" {
		return
	}
	f.locals[id.Name] = true
	if rhs == nil {
		return
	}
	tracked, t := f.rooted(rhs)
	if !tracked {
		return
	}
	if elemOf { // range variable: element (or key) of rhs
		if key {
			return // keys of slices are ints; map keys are copies (a pointer key would be unusual: ignored)
		}
		_, t = f.pkg.walk(t, []stStep{{"elem", ""}})
	}
	if t != nil && !f.pkg.refLike(t) {
		return
	}
	f.env[id.Name] = &stVar{t, "alias"}
}

// first pass: declarations in source order (flat scope, literals excluded)
func (f *stFn) collect(body *ast.BlockStmt) {
	ast.Inspect(body, func(n ast.Node) bool {
		switch t := n.(type) {
		case *ast.FuncLit:
			return false
		case *ast.AssignStmt:
			if t.Tok == token.DEFINE {
				for i, l := range t.Lhs {
					var r ast.Expr
					if len(t.Rhs) == len(t.Lhs) {
						r = t.Rhs[i]
					} else if i == 0 && len(t.Rhs) == 1 {
						r = t.Rhs[0] // v, ok := x.(T) / m[k]
					}
					f.declare(l, r, false, false)
				}
			}
		case *ast.ValueSpec:
			for i, n := range t.Names {
				var r ast.Expr
				if len(t.Values) == len(t.Names) {
					r = t.Values[i]
				}
				f.declare(n, r, false, false)
			}
		case *ast.RangeStmt:
			if t.Tok == token.DEFINE {
				if t.Key != nil {
					f.declare(t.Key, t.X, true, true)
				}
				if t.Value != nil {
					f.declare(t.Value, t.X, true, false)
				}
			}
		case *ast.TypeSwitchStmt:
			if a, ok := t.Assign.(*ast.AssignStmt); ok && len(a.Lhs) == 1 && len(a.Rhs) == 1 {
				f.declare(a.Lhs[0], a.Rhs[0], false, false)
			}
		}
		return true
	})
}

func (f *stFn) write(e ast.Expr) {
	root, steps, ok := stChain(e, f.pkg)
	text := types.ExprString(e)
	if !ok {
		f.row.writes["nonlocal "+text] = true // a store into the result of a call, …: not a form the anchored code uses
		return
	}
	if root.Name == "_" {
		return
	}
	if v, ok := f.env[root.Name]; ok {
		through, _ := f.pkg.walk(v.typ, steps)
		if !through {
			return
		}
		last := "field"
		for _, s := range steps {
			if s.kind == "field" || s.kind == "elem" || s.kind == "deref" {
				last = s.kind
			}
		}
		f.row.writes[v.origin+"-"+last+" "+text] = true
		return
	}
	if f.locals[root.Name] {
		return
	}
	for _, o := range f.outer {
		if o[root.Name] {
			f.row.writes["captured "+text] = true
			return
		}
	}
	if f.pkg.pkgVars[root.Name] {
		f.row.writes["pkgvar "+root.Name] = true
		return
	}
	f.row.writes["nonlocal "+text] = true
}

func (f *stFn) nonPlainLocal(e ast.Expr) bool {
	root, _, ok := stChain(e, f.pkg)
	if !ok {
		return false
	}
	if _, tr := f.env[root.Name]; tr {
		return true
	}
	return !f.locals[root.Name] && root.Name != "nil"
}

func stAnalyse(name string, pkg *stPkg, ft *ast.FuncType, recv *ast.FieldList, body *ast.BlockStmt,
	outer []map[string]bool, rows *[]*stRow) {
	f := &stFn{pkg: pkg, env: map[string]*stVar{}, locals: map[string]bool{}, outer: outer,
		row: &stRow{name, map[string]bool{}}}
	f.addFields(recv, "recv")
	f.addFields(ft.Params, "param")
	f.addFields(ft.Results, "")
	f.collect(body)
	*rows = append(*rows, f.row)
	nLit := 0
	ast.Inspect(body, func(n ast.Node) bool {
		switch t := n.(type) {
		case *ast.FuncLit:
			nLit++
			stAnalyse(fmt.Sprintf("%s/func%d", name, nLit), pkg, t.Type, nil, t.Body,
				append([]map[string]bool{f.locals}, outer...), rows)
			return false
		case *ast.AssignStmt:
			if t.Tok != token.DEFINE {
				for _, l := range t.Lhs {
					f.write(l)
				}
			}
		case *ast.IncDecStmt:
			f.write(t.X)
		case *ast.RangeStmt:
			if t.Tok == token.ASSIGN {
				if t.Key != nil {
					f.write(t.Key)
				}
				if t.Value != nil {
					f.write(t.Value)
				}
			}
		case *ast.UnaryExpr:
			if t.Op == token.AND {
				if _, lit := t.X.(*ast.CompositeLit); !lit && f.nonPlainLocal(t.X) {
					f.row.writes["addr "+types.ExprString(t.X)] = true
				}
			}
		case *ast.GoStmt:
			f.row.writes["go"] = true
		case *ast.CallExpr:
			if id, ok := t.Fun.(*ast.Ident); ok && id.Name == "append" && len(t.Args) > 0 && !f.locals["append"] {
				if f.nonPlainLocal(t.Args[0]) {
					f.row.writes["append "+types.ExprString(t.Args[0])] = true
				}
			}
		}
		return true
	})
}

func stFuncName(fd *ast.FuncDecl) string {
	if r := recvName(fd); r != "" {
		if strings.HasPrefix(r, "*") {
			return "(" + r + ")." + fd.Name.Name
		}
		return r + "." + fd.Name.Name
	}
	return fd.Name.Name
}

func stQuoteList(xs []string) string {
	q := make([]string, len(xs))
	for i, x := range xs {
		q[i] = fmt.Sprintf("%q", x)
	}
	return "[" + strings.Join(q, ", ") + "]"
}

func stateMain(repo string) {
	fset := token.NewFileSet()
	pkg := &stPkg{types: map[string]ast.Expr{}, pkgVars: map[string]bool{}}
	anchored := map[string]bool{}
	for _, a := range stAnchored {
		anchored[a] = true
	}
	all, err := filepath.Glob(filepath.Join(repo, "*.go"))
	if err != nil || len(all) == 0 {
		fmt.Fprintf(os.Stderr, "state: no Go files in %s\n", repo)
		os.Exit(3)
	}
	sort.Strings(all)
	decls := map[string][]*ast.FuncDecl{} // functions and methods of the anchored files, by NAME
	var anchoredVars []string
	seen := map[string]bool{}
	for _, path := range all {
		base := filepath.Base(path)
		if strings.HasSuffix(base, "_test.go") {
			continue
		}
		file, err := parser.ParseFile(fset, path, nil, 0)
		if err != nil {
			fmt.Fprintf(os.Stderr, "state: %v\n", err)
			os.Exit(3)
		}
		seen[base] = true
		for _, d := range file.Decls {
			switch t := d.(type) {
			case *ast.GenDecl:
				for _, sp := range t.Specs {
					switch s := sp.(type) {
					case *ast.TypeSpec:
						pkg.types[s.Name.Name] = s.Type
					case *ast.ValueSpec:
						if t.Tok == token.VAR {
							for _, n := range s.Names {
								pkg.pkgVars[n.Name] = true
								if anchored[base] {
									anchoredVars = append(anchoredVars, n.Name)
								}
							}
						}
					}
				}
			case *ast.FuncDecl:
				if anchored[base] && t.Body != nil {
					decls[t.Name.Name] = append(decls[t.Name.Name], t)
				}
			}
		}
	}
	for _, a := range stAnchored {
		if !seen[a] {
			fmt.Fprintf(os.Stderr, "state: anchored file %s missing\n", a)
			os.Exit(3)
		}
	}
	// start set: the targets table (exact receiver); closure: callees by name inside the anchored files
	on := map[*ast.FuncDecl]bool{}
	var missing []string
	for _, tg := range targets {
		found := false
		for _, fd := range decls[tg.fn] {
			if recvName(fd) == tg.recv {
				on[fd] = true
				found = true
			}
		}
		if !found {
			missing = append(missing, tg.recv+"."+tg.fn)
		}
	}
	for changed := true; changed; {
		changed = false
		for fd := range on {
			ast.Inspect(fd.Body, func(x ast.Node) bool {
				c, ok := x.(*ast.CallExpr)
				if !ok {
					return true
				}
				callee := ""
				switch fn := c.Fun.(type) {
				case *ast.Ident:
					callee = fn.Name
				case *ast.SelectorExpr:
					callee = fn.Sel.Name
				}
				for _, cd := range decls[callee] {
					if !on[cd] {
						on[cd] = true
						changed = true
					}
				}
				return true
			})
		}
	}
	var rows []*stRow
	for fd := range on {
		stAnalyse(stFuncName(fd), pkg, fd.Type, fd.Recv, fd.Body, nil, &rows)
	}
	sort.Slice(rows, func(i, j int) bool { return rows[i].name < rows[j].name })
	sort.Strings(anchoredVars)
	sort.Strings(missing)

	var b strings.Builder
	b.WriteString("/- GENERATED by `harness/cmd/c04 extract --state` (state.go) from the non-test .go files of the tree under\ntest on every `bin/check C04` run; do not edit.  Compared with the expected lists in Ties/State.lean. -/\n")
	b.WriteString("namespace GeomV.C04.Gen\n")
	b.WriteString("/-- (function or function literal, its writes that are not to one of its own locals) — only non-empty rows -/\n")
	b.WriteString("def nonlocalWrites : List (String × List String) := [\n")
	var lines []string
	for _, r := range rows {
		if len(r.writes) == 0 {
			continue
		}
		var ws []string
		for w := range r.writes {
			ws = append(ws, w)
		}
		sort.Strings(ws)
		lines = append(lines, fmt.Sprintf("  (%q, %s)", r.name, stQuoteList(ws)))
	}
	b.WriteString(strings.Join(lines, ",\n"))
	b.WriteString("\n]\n")
	b.WriteString("/-- every function and function literal analysed: the targets of extract.go, the literals inside them, and what\nthey call (by name) inside the anchored files, transitively -/\n")
	var names []string
	for _, r := range rows {
		names = append(names, r.name)
	}
	for i, n := range names {
		names[i] = fmt.Sprintf("  %q", n)
	}
	b.WriteString("def analysed : List String := [\n" + strings.Join(names, ",\n") + "\n]\n")
	b.WriteString("/-- package-level variables declared in the eight anchored files -/\n")
	b.WriteString("def packageVars : List String := " + stQuoteList(anchoredVars) + "\n")
	b.WriteString("/-- targets of extract.go that were not found in the source -/\n")
	b.WriteString("def missingTargets : List String := " + stQuoteList(missing) + "\n")
	b.WriteString("end GeomV.C04.Gen\n")
	fmt.Print(b.String())
}
