package main

// T1 tie for C04: regenerate Lean definitions of the pure box functions of bounds.go (and
// Point.Equals of point.go) from the Go source of the tree under test.
//
//	c04 extract --repo DIR      prints the module GeomV.C04.Gen
//
// lean/GeomV/C04/Ties.lean proves `Gen.f = Model.f` (by rfl), lean/GeomV/C04/Src.lean restates the box
// theorems for the regenerated definitions.  A function that leaves the subset below is NOT skipped:
// its place in Gen.lean is taken by a declaration that does not elaborate, the extractor exits 3 and
// names the function on stderr.
//
// Translation (coordinates are an abstract ordered type α):
//
//	math.Min/math.Max        ↦ min / max            math.Inf(+1) / math.Inf(-1) ↦ pinf / ninf
//	< <= > >= == on float64  ↦ decide (a < b) …     && || !                      ↦ && || !
//	+ - * / and integer literals (Area, Centroid)   ↦ the same over [Add α] [Sub α] [Mul α] [Div α] [OfNat α n]
//	b.Min.X, p.Y             ↦ b.mn.x, p.y          Point{…}, &Bounds{…} (keyed or positional) ↦ ⟨…⟩
//	pointer receiver *Bounds ↦ a value `b : Box α` threaded through the statements; a method without
//	                           result (or returning its receiver) returns the final receiver
//	b.Min.X = e              ↦ let b := {b with mn := {b.mn with x := e}}
//	b.Min, b.Max = e1, e2    ↦ let b := {b with mn := e1, mx := e2}
//	b.extendPoint(x) (stmt)  ↦ let b := extendPoint b x
//	for _, v := range xs {S} ↦ let b := xs.foldl (fun b v => S; b) b
//	if c {A} [else {B}]; R   ↦ if c then A;R else B;R
//	if x == nil || c {A}; R  ↦ match x with | none => A | some x => if c then A else R   (x : *Bounds parameter)
//	if bp, ok := q.(*Bounds); ok {A} as FIRST statement: the box–box branch — `q` becomes a box parameter
//	                           `bp` and only A is translated (the general-polygon remainder is C01/C02's)
//	return nil / return i    ↦ none / some i (result type Polygonal)
//	OnEdge Inside Outside    ↦ WithinStatus.onEdge …

import (
	"fmt"
	"go/ast"
	"go/parser"
	"go/token"
	"os"
	"path/filepath"
	"sort"
	"strings"
)

type xkind int

const (
	kCoord xkind = iota
	kBool
	kPt
	kBox
	kOptBox
	kPts
	kPtss
	kWithin
	kNil
	kPtsss
	kInt
	kGeoms   // GeometryCollection: []Geom
	kGeom    // an interface value of type Geom
	kFuncOpt // a variable of type func() Point (nil = none)
	kFuncVal // a freshly made func() Point value
)

// Go types of the subset: Lean kind, Lean type, element type of a range loop
type gtInfo struct {
	k    xkind
	lean string
	elem string
	name string // camel-case stem of generated per-type functions (pointBounds, multiLineStringLen, …)
}

var gtypes = map[string]gtInfo{
	"Point":           {kPt, "Pt α", "", "point"},
	"*Bounds":         {kBox, "Box α", "", ""},
	"[]Point":         {kPts, "List (Pt α)", "Point", ""},
	"Path":            {kPts, "List (Pt α)", "Point", "path"},
	"MultiPoint":      {kPts, "List (Pt α)", "Point", "multiPoint"},
	"LineString":      {kPts, "List (Pt α)", "Point", "lineString"},
	"[]Path":          {kPtss, "List (List (Pt α))", "Path", ""},
	"Polygon":         {kPtss, "List (List (Pt α))", "Path", "polygon"},
	"MultiLineString": {kPtss, "List (List (Pt α))", "LineString", "multiLineString"},
	"MultiPolygon":    {kPtsss, "List (List (List (Pt α)))", "Polygon", "multiPolygon"},
	"int":             {kInt, "Nat", "", ""},
	"bool":            {kBool, "Bool", "", ""},
	"float64":         {kCoord, "α", "", ""},
	"WithinStatus":    {kWithin, "WithinStatus", "", ""},
	"Polygonal":       {kOptBox, "Option (Box α)", "", ""},
}

func typeName(x ast.Expr) string {
	switch t := x.(type) {
	case *ast.Ident:
		return t.Name
	case *ast.StarExpr:
		return "*" + typeName(t.X)
	case *ast.ArrayType:
		if t.Len == nil {
			return "[]" + typeName(t.Elt)
		}
	}
	return "?"
}

type xerr struct{ msg string }

func xfail(f string, a ...interface{}) { panic(xerr{fmt.Sprintf(f, a...)}) }

// Go method / function name -> Lean name and result convention
type fnInfo struct {
	lean string
	recv bool  // has *Bounds receiver
	ret  xkind // result kind; retRecv = returns the (possibly modified) receiver
	mut  bool  // returns the receiver (statement calls rebind it)
}

var known = map[string]fnInfo{
	"Empty":         {"empty", true, kBool, false},
	"Overlaps":      {"overlaps", true, kBool, false},
	"extendPoint":   {"extendPoint", true, kBox, true},
	"extendPoints":  {"extendPoints", true, kBox, true},
	"extendPointss": {"extendPointss", true, kBox, true},
	"Extend":        {"extend", true, kBox, true},
	"Copy":          {"copy", true, kBox, false},
	"Area":          {"area", true, kCoord, false},
	"Centroid":      {"centroid", true, kPt, false},
	"Equals":        {"pointEquals", false, kBool, false},
}

type xenv struct {
	vars map[string]xkind
	gty  map[string]string // Go type of each variable (method dispatch, range element types)
	recv string            // receiver variable name ("" if none)
	ret  xkind
	mut  bool   // function returns its receiver
	fall string // value of a statement list that runs off its end ("" = not allowed)
}

func (e *xenv) clone() *xenv {
	n := &xenv{vars: map[string]xkind{}, gty: map[string]string{}, recv: e.recv, ret: e.ret, mut: e.mut, fall: e.fall}
	for k, v := range e.vars {
		n.vars[k] = v
	}
	for k, v := range e.gty {
		n.gty[k] = v
	}
	return n
}

func (e *xenv) bind(name, gt string) {
	info, ok := gtypes[gt]
	if !ok {
		xfail("type %s outside the subset", gt)
	}
	e.vars[name] = info.k
	e.gty[name] = gt
}

func leanName(s string) string {
	switch s {
	case "end", "from", "at", "open", "in", "fun", "show", "have", "then", "do":
		return s + "'"
	}
	return s
}

func fieldPath(x ast.Expr) (root string, path []string, ok bool) {
	switch t := x.(type) {
	case *ast.Ident:
		return t.Name, nil, true
	case *ast.SelectorExpr:
		r, p, ok := fieldPath(t.X)
		if !ok {
			return "", nil, false
		}
		return r, append(p, t.Sel.Name), true
	case *ast.ParenExpr:
		return fieldPath(t.X)
	}
	return "", nil, false
}

var fieldLean = map[string]string{"Min": "mn", "Max": "mx", "X": "x", "Y": "y"}

func (e *xenv) selector(x *ast.SelectorExpr) (string, xkind) {
	root, path, ok := fieldPath(x)
	if !ok {
		xfail("selector on a non-variable")
	}
	k, ok := e.vars[root]
	if !ok {
		xfail("unknown variable %s", root)
	}
	s := leanName(root)
	for _, f := range path {
		lf, ok := fieldLean[f]
		if !ok {
			xfail("field %s", f)
		}
		switch {
		case k == kBox && (f == "Min" || f == "Max"):
			k = kPt
		case k == kPt && (f == "X" || f == "Y"):
			k = kCoord
		default:
			xfail("field %s of %s", f, s)
		}
		s += "." + lf
	}
	return s, k
}

func asB(s string, k xkind) string {
	if k != kBool {
		xfail("expected a condition, got %s", s)
	}
	return s
}

func (e *xenv) expr(x ast.Expr) (string, xkind) {
	switch t := x.(type) {
	case *ast.ParenExpr:
		return e.expr(t.X)
	case *ast.Ident:
		switch t.Name {
		case "true", "false":
			return t.Name, kBool
		case "nil":
			return "none", kNil
		case "OnEdge":
			return "WithinStatus.onEdge", kWithin
		case "Inside":
			return "WithinStatus.inside", kWithin
		case "Outside":
			return "WithinStatus.outside", kWithin
		}
		k, ok := e.vars[t.Name]
		if !ok {
			xfail("unknown identifier %s", t.Name)
		}
		return leanName(t.Name), k
	case *ast.BasicLit:
		if t.Kind == token.INT {
			if e.ret == kInt {
				return t.Value, kInt
			}
			return "(" + t.Value + " : α)", kCoord
		}
		xfail("literal %s", t.Value)
	case *ast.SelectorExpr:
		return e.selector(t)
	case *ast.UnaryExpr:
		switch t.Op {
		case token.NOT:
			s, k := e.expr(t.X)
			return "!" + asB(s, k), kBool
		case token.AND:
			cl, ok := t.X.(*ast.CompositeLit)
			if !ok {
				xfail("address of a non-literal")
			}
			return e.composite(cl)
		}
		xfail("unary operator %s", t.Op)
	case *ast.CompositeLit:
		return e.composite(t)
	case *ast.CallExpr:
		return e.call(t)
	case *ast.BinaryExpr:
		l, kl := e.expr(t.X)
		r, kr := e.expr(t.Y)
		switch t.Op {
		case token.LAND:
			return "(" + asB(l, kl) + " && " + asB(r, kr) + ")", kBool
		case token.LOR:
			return "(" + asB(l, kl) + " || " + asB(r, kr) + ")", kBool
		case token.LSS, token.GTR, token.LEQ, token.GEQ, token.EQL:
			if kl != kCoord || kr != kCoord {
				xfail("comparison %s of non-coordinates", t.Op)
			}
			op := map[token.Token]string{token.LSS: "<", token.GTR: ">", token.LEQ: "≤", token.GEQ: "≥", token.EQL: "="}[t.Op]
			return "decide (" + l + " " + op + " " + r + ")", kBool
		case token.ADD, token.SUB, token.MUL, token.QUO:
			if kl == kInt && kr == kInt && t.Op == token.ADD {
				return "(" + l + " + " + r + ")", kInt
			}
			if kl != kCoord || kr != kCoord {
				xfail("arithmetic %s on non-coordinates", t.Op)
			}
			return "(" + l + " " + t.Op.String() + " " + r + ")", kCoord
		}
		xfail("operator %s", t.Op)
	}
	xfail("expression %T outside the subset", x)
	return "", kCoord
}

func (e *xenv) composite(t *ast.CompositeLit) (string, xkind) {
	id, ok := t.Type.(*ast.Ident)
	if !ok || len(t.Elts) != 2 {
		xfail("composite literal outside the subset")
	}
	var names [2]string
	var want xkind
	var k xkind
	var ty string
	switch id.Name {
	case "Point":
		names, want, k, ty = [2]string{"X", "Y"}, kCoord, kPt, "Pt α"
	case "Bounds":
		names, want, k, ty = [2]string{"Min", "Max"}, kPt, kBox, "Box α"
	default:
		xfail("literal of type %s", id.Name)
	}
	var vals [2]string
	for i, el := range t.Elts {
		slot := i
		v := el
		if kv, ok := el.(*ast.KeyValueExpr); ok {
			key := kv.Key.(*ast.Ident).Name
			switch key {
			case names[0]:
				slot = 0
			case names[1]:
				slot = 1
			default:
				xfail("field %s in %s literal", key, id.Name)
			}
			v = kv.Value
		}
		s, kk := e.expr(v)
		if kk != want {
			xfail("%s literal: field %s has the wrong kind", id.Name, names[slot])
		}
		if vals[slot] != "" {
			xfail("%s literal: field %s given twice", id.Name, names[slot])
		}
		vals[slot] = s
	}
	if vals[0] == "" || vals[1] == "" {
		xfail("%s literal: missing field", id.Name)
	}
	return "(⟨" + vals[0] + ", " + vals[1] + "⟩ : " + ty + ")", k
}

func intSign(x ast.Expr) (int, bool) {
	switch t := x.(type) {
	case *ast.ParenExpr:
		return intSign(t.X)
	case *ast.BasicLit:
		if t.Kind == token.INT {
			if strings.Trim(t.Value, "0") == "" {
				return 0, true
			}
			return 1, true
		}
	case *ast.UnaryExpr:
		s, ok := intSign(t.X)
		if ok && t.Op == token.SUB {
			return -s, true
		}
		if ok && t.Op == token.ADD {
			return s, true
		}
	}
	return 0, false
}

func (e *xenv) call(t *ast.CallExpr) (string, xkind) {
	if fn, ok := t.Fun.(*ast.Ident); ok {
		switch fn.Name {
		case "NewBounds":
			if len(t.Args) != 0 {
				xfail("NewBounds arity")
			}
			return "newBounds", kBox
		case "NewBoundsPoint":
			if len(t.Args) != 1 {
				xfail("NewBoundsPoint arity")
			}
			a, k := e.expr(t.Args[0])
			if k != kPt {
				xfail("NewBoundsPoint of a non-point")
			}
			return "(newBoundsPoint " + a + ")", kBox
		case "len":
			if len(t.Args) != 1 {
				xfail("len arity")
			}
			a, k := e.expr(t.Args[0])
			if k != kPts && k != kPtss && k != kPtsss {
				xfail("len of a non-slice")
			}
			return a + ".length", kInt
		}
		xfail("call of %s outside the subset", fn.Name)
	}
	sel, ok := t.Fun.(*ast.SelectorExpr)
	if !ok {
		xfail("call of a non-method")
	}
	// Bounds() / Len() of one of the geometry types: dispatch on the static Go type of the receiver variable
	if (sel.Sel.Name == "Bounds" || sel.Sel.Name == "Len") && len(t.Args) == 0 {
		if id, ok := sel.X.(*ast.Ident); ok {
			if gi, ok := gtypes[e.gty[id.Name]]; ok && gi.name != "" {
				if sel.Sel.Name == "Bounds" {
					return "(" + gi.name + "Bounds " + leanName(id.Name) + ")", kBox
				}
				return "(" + gi.name + "Len " + leanName(id.Name) + ")", kInt
			}
		}
		xfail("%s() of a value whose static type is not one of the geometry types", sel.Sel.Name)
	}
	if pk, ok := sel.X.(*ast.Ident); ok && pk.Name == "math" {
		switch sel.Sel.Name {
		case "Min", "Max":
			if len(t.Args) != 2 {
				xfail("math.%s arity", sel.Sel.Name)
			}
			a, ka := e.expr(t.Args[0])
			b, kb := e.expr(t.Args[1])
			if ka != kCoord || kb != kCoord {
				xfail("math.%s of non-coordinates", sel.Sel.Name)
			}
			return "(" + strings.ToLower(sel.Sel.Name) + " " + a + " " + b + ")", kCoord
		case "Inf":
			if len(t.Args) != 1 {
				xfail("math.Inf arity")
			}
			s, ok := intSign(t.Args[0])
			if !ok {
				xfail("math.Inf of a non-literal")
			}
			if s >= 0 {
				return "pinf", kCoord
			}
			return "ninf", kCoord
		}
		xfail("math.%s", sel.Sel.Name)
	}
	info, ok := known[sel.Sel.Name]
	if !ok {
		xfail("call of %s outside the subset", sel.Sel.Name)
	}
	if info.mut {
		xfail("%s modifies its receiver and is used as an expression", sel.Sel.Name)
	}
	r, kr := e.expr(sel.X)
	if info.recv && kr != kBox || !info.recv && kr != kPt {
		xfail("receiver of %s", sel.Sel.Name)
	}
	s := info.lean + " " + r
	for _, a := range t.Args {
		as, _ := e.expr(a)
		s += " " + as
	}
	return "(" + s + ")", info.ret
}

// result of `return e` / of falling off the end
func (e *xenv) result(x ast.Expr) string {
	if x == nil {
		if !e.mut {
			xfail("bare return in a function with a result")
		}
		return leanName(e.recv)
	}
	s, k := e.expr(x)
	switch e.ret {
	case kOptBox:
		if k == kNil {
			return "none"
		}
		if k == kBox {
			return "some " + s
		}
		xfail("result is neither nil nor a box")
	case kBox:
		if e.mut {
			if id, ok := x.(*ast.Ident); !ok || id.Name != e.recv {
				xfail("a receiver-modifying method must return its receiver")
			}
		}
	}
	if k != e.ret {
		xfail("result %s has the wrong kind", s)
	}
	return s
}

// `x == nil` where x is an optional box variable
func (e *xenv) nilTest(x ast.Expr) (string, bool) {
	b, ok := x.(*ast.BinaryExpr)
	if !ok || b.Op != token.EQL {
		return "", false
	}
	id, ok1 := b.X.(*ast.Ident)
	n, ok2 := b.Y.(*ast.Ident)
	if ok1 && ok2 && n.Name == "nil" && e.vars[id.Name] == kOptBox {
		return id.Name, true
	}
	return "", false
}

func noReturn(ss []ast.Stmt) {
	for _, s := range ss {
		ast.Inspect(s, func(n ast.Node) bool {
			switch n.(type) {
			case *ast.ReturnStmt, *ast.BranchStmt:
				xfail("return/break/continue inside a range loop")
			}
			return true
		})
	}
}

func (e *xenv) stmts(ss []ast.Stmt, ind string) string {
	if len(ss) == 0 {
		if e.fall != "" {
			return ind + e.fall
		}
		xfail("control reaches the end of the function without a return")
	}
	rest := ss[1:]
	switch t := ss[0].(type) {
	case *ast.ReturnStmt:
		if len(t.Results) > 1 {
			xfail("return arity")
		}
		if len(t.Results) == 0 {
			return ind + e.result(nil)
		}
		return ind + e.result(t.Results[0])
	case *ast.ExprStmt:
		c, ok := t.X.(*ast.CallExpr)
		if !ok {
			xfail("expression statement")
		}
		sel, ok := c.Fun.(*ast.SelectorExpr)
		if !ok {
			xfail("statement call")
		}
		info, ok := known[sel.Sel.Name]
		rid, isId := sel.X.(*ast.Ident)
		if !ok || !info.mut || !isId || e.vars[rid.Name] != kBox {
			xfail("statement call of %s", sel.Sel.Name)
		}
		s := info.lean + " " + leanName(rid.Name)
		for _, a := range c.Args {
			as, k := e.expr(a)
			if sel.Sel.Name == "Extend" && k == kBox {
				as = "(some " + as + ")" // a non-nil *Bounds where the parameter may be nil
			}
			s += " " + as
		}
		return ind + "let " + leanName(rid.Name) + " := " + s + "\n" + e.stmts(rest, ind)
	case *ast.DeclStmt:
		gd, ok := t.Decl.(*ast.GenDecl)
		if !ok || gd.Tok != token.VAR || len(gd.Specs) != 1 {
			xfail("declaration outside the subset")
		}
		vs := gd.Specs[0].(*ast.ValueSpec)
		if len(vs.Values) != 0 || typeName(vs.Type) != "int" {
			xfail("only `var i int` declarations are in the subset")
		}
		e2 := e.clone()
		out := ""
		for _, n := range vs.Names {
			e2.bind(n.Name, "int")
			out += ind + "let " + leanName(n.Name) + " : Nat := 0\n"
		}
		return out + e2.stmts(rest, ind)
	case *ast.AssignStmt:
		if t.Tok == token.ADD_ASSIGN {
			id, ok := t.Lhs[0].(*ast.Ident)
			if !ok || len(t.Lhs) != 1 || e.vars[id.Name] != kInt {
				xfail("+= on something that is not an int variable")
			}
			sv := e.ret
			e.ret = kInt
			v, k := e.expr(t.Rhs[0])
			e.ret = sv
			if k != kInt {
				xfail("+= of a non-int")
			}
			return ind + "let " + leanName(id.Name) + " := " + leanName(id.Name) + " + " + v + "\n" + e.stmts(rest, ind)
		}
		if t.Tok == token.DEFINE {
			if len(t.Lhs) != 1 || len(t.Rhs) != 1 {
				xfail("multiple := outside the subset")
			}
			v, k := e.expr(t.Rhs[0])
			name := t.Lhs[0].(*ast.Ident).Name
			e2 := e.clone()
			e2.vars[name] = k
			return ind + "let " + leanName(name) + " := " + v + "\n" + e2.stmts(rest, ind)
		}
		if t.Tok != token.ASSIGN || len(t.Lhs) != len(t.Rhs) {
			xfail("assignment operator %s", t.Tok)
		}
		// all targets: fields of ONE box variable; right-hand sides are evaluated first (old values)
		var root string
		type upd struct {
			path []string
			val  string
		}
		var us []upd
		for i, l := range t.Lhs {
			r, path, ok := fieldPath(l)
			if !ok || len(path) == 0 || len(path) > 2 || e.vars[r] != kBox {
				xfail("assignment target outside the subset")
			}
			if root != "" && r != root {
				xfail("parallel assignment to different variables")
			}
			root = r
			v, k := e.expr(t.Rhs[i])
			want := kPt
			if len(path) == 2 {
				want = kCoord
			}
			if k != want {
				xfail("assignment of the wrong kind to %s", r)
			}
			us = append(us, upd{path, v})
		}
		b := leanName(root)
		var parts []string
		seen := map[string]bool{}
		for _, u := range us {
			if seen[u.path[0]] {
				xfail("parallel assignment touches %s twice", u.path[0])
			}
			seen[u.path[0]] = true
			if len(u.path) == 1 {
				parts = append(parts, fieldLean[u.path[0]]+" := "+u.val)
			} else {
				parts = append(parts, fmt.Sprintf("%s := {%s.%s with %s := %s}", fieldLean[u.path[0]], b, fieldLean[u.path[0]], fieldLean[u.path[1]], u.val))
			}
		}
		return ind + "let " + b + " := {" + b + " with " + strings.Join(parts, ", ") + "}\n" + e.stmts(rest, ind)
	case *ast.RangeStmt:
		if t.Tok != token.DEFINE || t.Value == nil {
			xfail("range form")
		}
		if k, ok := t.Key.(*ast.Ident); !ok || k.Name != "_" {
			xfail("range with an index variable")
		}
		xid, ok := t.X.(*ast.Ident)
		if !ok {
			xfail("range over a non-variable")
		}
		gi, ok := gtypes[e.gty[xid.Name]]
		if !ok || gi.elem == "" {
			xfail("range over a non-slice")
		}
		noReturn(t.Body.List)
		// the one variable the body updates is the accumulator of the fold
		acc := ""
		note := func(n string) {
			if acc != "" && acc != n {
				xfail("range body updates two variables (%s, %s)", acc, n)
			}
			acc = n
		}
		for _, st := range t.Body.List {
			switch u := st.(type) {
			case *ast.ExprStmt:
				if c, ok := u.X.(*ast.CallExpr); ok {
					if sl, ok := c.Fun.(*ast.SelectorExpr); ok {
						if id, ok := sl.X.(*ast.Ident); ok {
							note(id.Name)
						}
					}
				}
			case *ast.AssignStmt:
				if r, _, ok := fieldPath(u.Lhs[0]); ok && u.Tok != token.DEFINE {
					note(r)
				}
			}
		}
		if acc == "" || (e.vars[acc] != kBox && e.vars[acc] != kInt) {
			xfail("range body without an accumulator")
		}
		v := t.Value.(*ast.Ident).Name
		if v == acc {
			xfail("range variable shadows the accumulator")
		}
		e2 := e.clone()
		e2.bind(v, gi.elem)
		e2.fall = leanName(acc)
		body := e2.stmts(t.Body.List, ind+"  ")
		b := leanName(acc)
		return ind + "let " + b + " := " + leanName(xid.Name) + ".foldl (fun " + b + " " + leanName(v) + " =>\n" + body + ") " + b + "\n" + e.stmts(rest, ind)
	case *ast.IfStmt:
		if t.Init != nil {
			xfail("if with an init statement")
		}
		thenS := func(en *xenv) string {
			return en.stmts(append(append([]ast.Stmt{}, t.Body.List...), rest...), ind+"  ")
		}
		elseS := func(en *xenv, i string) string {
			switch el := t.Else.(type) {
			case nil:
				return en.stmts(rest, i)
			case *ast.BlockStmt:
				return en.stmts(append(append([]ast.Stmt{}, el.List...), rest...), i)
			case *ast.IfStmt:
				return en.stmts(append([]ast.Stmt{el}, rest...), i)
			}
			xfail("else form")
			return ""
		}
		// nil test of an optional box, alone or as the first disjunct
		cond := t.Cond
		if p, ok := cond.(*ast.ParenExpr); ok {
			cond = p.X
		}
		var nilVar string
		var restCond ast.Expr
		if v, ok := e.nilTest(cond); ok {
			nilVar = v
		} else if b, ok := cond.(*ast.BinaryExpr); ok && b.Op == token.LOR {
			if v, ok := e.nilTest(b.X); ok {
				nilVar, restCond = v, b.Y
			}
		}
		if nilVar != "" {
			noneS := thenS(e)
			e2 := e.clone()
			e2.vars[nilVar] = kBox
			var someS string
			if restCond == nil {
				someS = elseS(e2, ind+"  ")
			} else {
				c, k := e2.expr(restCond)
				someS = ind + "  if " + asB(c, k) + " then\n" + e2.stmts(append(append([]ast.Stmt{}, t.Body.List...), rest...), ind+"    ") +
					"\n" + ind + "  else\n" + elseS(e2, ind+"    ")
			}
			n := leanName(nilVar)
			return ind + "match " + n + " with\n" + ind + "| none =>\n" + noneS + "\n" + ind + "| some " + n + " =>\n" + someS
		}
		c, k := e.expr(t.Cond)
		return ind + "if " + asB(c, k) + " then\n" + thenS(e) + "\n" + ind + "else\n" + elseS(e, ind+"  ")
	}
	xfail("statement %T outside the subset", ss[0])
	return ""
}

func typeKind(x ast.Expr) (xkind, string, bool) {
	gi, ok := gtypes[typeName(x)]
	return gi.k, gi.lean, ok
}

// mentionsNil reports whether the body compares identifier v with nil
func mentionsNil(body *ast.BlockStmt, v string) bool {
	found := false
	ast.Inspect(body, func(n ast.Node) bool {
		if b, ok := n.(*ast.BinaryExpr); ok && (b.Op == token.EQL || b.Op == token.NEQ) {
			id, ok1 := b.X.(*ast.Ident)
			nl, ok2 := b.Y.(*ast.Ident)
			if ok1 && ok2 && id.Name == v && nl.Name == "nil" {
				found = true
			}
		}
		return true
	})
	return found
}

type target struct {
	file, recv, fn, lean string
	boxBranch            bool // translate only the `if bp, ok := p.(*Bounds); ok {…}` branch
	points               bool // a Points() closure (closures.go)
	iface                bool // a method of GeometryCollection: interface dispatch rendered as parameters (collection.go)
}

func trFunc(fd *ast.FuncDecl, tg target) string {
	e := &xenv{vars: map[string]xkind{}, gty: map[string]string{}}
	var params []string
	if fd.Recv != nil {
		f := fd.Recv.List[0]
		_, ty, ok := typeKind(f.Type)
		if !ok || len(f.Names) != 1 {
			xfail("receiver type")
		}
		e.bind(f.Names[0].Name, typeName(f.Type))
		if typeName(f.Type) == "*Bounds" {
			e.recv = f.Names[0].Name
		}
		params = append(params, "("+leanName(f.Names[0].Name)+" : "+ty+")")
	}
	body := fd.Body.List
	var paramFields []*ast.Field
	if fd.Type.Params != nil {
		paramFields = fd.Type.Params.List
	}
	if tg.boxBranch {
		// func (b *Bounds) F(p Polygonal) R { if bp, ok := p.(*Bounds); ok { BODY } … }
		if len(paramFields) != 1 || len(paramFields[0].Names) != 1 || len(body) == 0 {
			xfail("signature of a box–box branch function")
		}
		pn := paramFields[0].Names[0].Name
		ifs, ok := body[0].(*ast.IfStmt)
		if !ok || ifs.Init == nil {
			xfail("the box–box branch `if bp, ok := %s.(*Bounds); ok {` is not the first statement", pn)
		}
		as, ok := ifs.Init.(*ast.AssignStmt)
		if !ok || as.Tok != token.DEFINE || len(as.Lhs) != 2 || len(as.Rhs) != 1 {
			xfail("box–box branch: init statement")
		}
		ta, ok := as.Rhs[0].(*ast.TypeAssertExpr)
		if !ok {
			xfail("box–box branch: not a type assertion")
		}
		src, ok1 := ta.X.(*ast.Ident)
		okv, ok3 := as.Lhs[1].(*ast.Ident)
		cv, ok4 := ifs.Cond.(*ast.Ident)
		if !ok1 || src.Name != pn || typeName(ta.Type) != "*Bounds" || !ok3 || !ok4 || okv.Name != cv.Name {
			xfail("box–box branch: assertion is not `bp, ok := %s.(*Bounds); ok`", pn)
		}
		bp := as.Lhs[0].(*ast.Ident).Name
		e.bind(bp, "*Bounds")
		params = append(params, "("+leanName(bp)+" : Box α)")
		body = ifs.Body.List
	} else {
		for _, f := range paramFields {
			_, ty, ok := typeKind(f.Type)
			if !ok {
				xfail("parameter type outside the subset")
			}
			for _, n := range f.Names {
				e.bind(n.Name, typeName(f.Type))
				if typeName(f.Type) == "*Bounds" && mentionsNil(fd.Body, n.Name) {
					e.vars[n.Name], ty = kOptBox, "Option (Box α)"
				}
				params = append(params, "("+leanName(n.Name)+" : "+ty+")")
			}
		}
	}
	var retTy string
	info, isKnown := known[fd.Name.Name]
	isKnown = isKnown && (e.recv != "" || !info.recv)
	switch {
	case fd.Type.Results == nil || len(fd.Type.Results.List) == 0:
		if e.recv == "" {
			xfail("no result and no receiver")
		}
		e.ret, e.mut, retTy = kBox, true, "Box α"
	case len(fd.Type.Results.List) == 1:
		k, ty, ok := typeKind(fd.Type.Results.List[0].Type)
		if !ok {
			xfail("result type outside the subset")
		}
		e.ret, retTy = k, ty
		if isKnown && info.mut {
			e.mut = true
		}
	default:
		xfail("several results")
	}
	if isKnown && info.mut != e.mut {
		xfail("%s no longer has the receiver-returning shape", fd.Name.Name)
	}
	if e.mut {
		e.fall = leanName(e.recv)
	}
	b := e.stmts(body, "  ")
	return fmt.Sprintf("def %s %s : %s :=\n%s\n", tg.lean, strings.Join(params, " "), retTy, b)
}

func recvName(fd *ast.FuncDecl) string {
	if fd.Recv == nil || len(fd.Recv.List) != 1 {
		return ""
	}
	switch t := fd.Recv.List[0].Type.(type) {
	case *ast.StarExpr:
		if id, ok := t.X.(*ast.Ident); ok {
			return "*" + id.Name
		}
	case *ast.Ident:
		return t.Name
	}
	return "?"
}

var targets = []target{
	{"point.go", "Point", "Equals", "pointEquals", false, false, false},
	{"bounds.go", "", "NewBounds", "newBounds", false, false, false},
	{"bounds.go", "", "NewBoundsPoint", "newBoundsPoint", false, false, false},
	{"bounds.go", "*Bounds", "Copy", "copy", false, false, false},
	{"bounds.go", "*Bounds", "Empty", "empty", false, false, false},
	{"bounds.go", "*Bounds", "extendPoint", "extendPoint", false, false, false},
	{"bounds.go", "*Bounds", "extendPoints", "extendPoints", false, false, false},
	{"bounds.go", "*Bounds", "extendPointss", "extendPointss", false, false, false},
	{"bounds.go", "*Bounds", "Extend", "extend", false, false, false},
	{"bounds.go", "*Bounds", "Overlaps", "overlaps", false, false, false},
	{"bounds.go", "*Bounds", "Within", "withinBox", true, false, false},
	{"bounds.go", "*Bounds", "Intersection", "intersectionBox", true, false, false},
	{"bounds.go", "*Bounds", "Area", "area", false, false, false},
	{"bounds.go", "*Bounds", "Centroid", "centroid", false, false, false},
	// Bounds() and Len() of the geometry types (GeometryCollection: further down)
	{"point.go", "Point", "Bounds", "pointBounds", false, false, false},
	{"point.go", "Point", "Len", "pointLen", false, false, false},
	{"multipoint.go", "MultiPoint", "Bounds", "multiPointBounds", false, false, false},
	{"multipoint.go", "MultiPoint", "Len", "multiPointLen", false, false, false},
	{"linestring.go", "LineString", "Bounds", "lineStringBounds", false, false, false},
	{"linestring.go", "LineString", "Len", "lineStringLen", false, false, false},
	{"multilinestring.go", "MultiLineString", "Bounds", "multiLineStringBounds", false, false, false},
	{"multilinestring.go", "MultiLineString", "Len", "multiLineStringLen", false, false, false},
	{"polygon.go", "Polygon", "Bounds", "polygonBounds", false, false, false},
	{"polygon.go", "Polygon", "Len", "polygonLen", false, false, false},
	{"multipolygon.go", "MultiPolygon", "Bounds", "multiPolygonBounds", false, false, false},
	{"multipolygon.go", "MultiPolygon", "Len", "multiPolygonLen", false, false, false},
	{"bounds.go", "*Bounds", "Len", "boundsLen", false, false, false},
	// Points() closures (closures.go)
	{file: "point.go", recv: "Point", fn: "Points", lean: "point", points: true},
	{file: "multipoint.go", recv: "MultiPoint", fn: "Points", lean: "multiPoint", points: true},
	{file: "linestring.go", recv: "LineString", fn: "Points", lean: "lineString", points: true},
	{file: "multilinestring.go", recv: "MultiLineString", fn: "Points", lean: "multiLineString", points: true},
	{file: "polygon.go", recv: "Polygon", fn: "Points", lean: "polygon", points: true},
	{file: "multipolygon.go", recv: "MultiPolygon", fn: "Points", lean: "multiPolygon", points: true},
	// (*Bounds).Points: `defer func() { i++ }()` + `switch i { case …: return …; default: panic(…) }` (closures.go)
	{file: "bounds.go", recv: "*Bounds", fn: "Points", lean: "bounds", points: true},
	// GeometryCollection: calls on interface values are parameters of the rendered definition (collection.go)
	{file: "geometrycollection.go", recv: "GeometryCollection", fn: "Len", lean: "geometryCollectionLen", iface: true},
	{file: "geometrycollection.go", recv: "GeometryCollection", fn: "Bounds", lean: "geometryCollectionBounds", iface: true},
	{file: "geometrycollection.go", recv: "GeometryCollection", fn: "Points", lean: "geometryCollectionPoints", iface: true},
}

const genHeader = `import GeomV.C04.Model
/-! GENERATED by ` + "`harness/cmd/c04 extract`" + ` from bounds.go, point.go, multipoint.go, linestring.go,
multilinestring.go, polygon.go, multipolygon.go, geometrycollection.go of the tree under test.
Do not edit; regenerated by every ` + "`bin/check C04`" + ` run (checks/C04.py pregen).
Tie lemmas: Ties.lean; theorems about these definitions: Src.lean. -/
set_option linter.unusedVariables false
namespace GeomV.C04.Gen
open GeomV GeomV.C04

variable {α : Type} [LE α] [LT α] [Min α] [Max α] [DecidableLE α] [DecidableLT α] [DecidableEq α] [HasInf α]
variable [Add α] [Sub α] [Mul α] [Div α] [OfNat α 2]

`

func extract(repo string) (string, []string) {
	fset := token.NewFileSet()
	files := map[string]*ast.File{}
	var failed []string
	var b strings.Builder
	b.WriteString(genHeader)
	for _, tg := range targets {
		f, ok := files[tg.file]
		if !ok {
			pf, err := parser.ParseFile(fset, filepath.Join(repo, tg.file), nil, 0)
			if err != nil {
				failed = append(failed, fmt.Sprintf("%s: %v", tg.file, err))
				files[tg.file] = nil
				continue
			}
			f = pf
			files[tg.file] = pf
		}
		if f == nil {
			continue
		}
		msg := ""
		out := ""
		func() {
			defer func() {
				if r := recover(); r != nil {
					if xe, ok := r.(xerr); ok {
						msg = xe.msg
						return
					}
					msg = fmt.Sprint(r)
				}
			}()
			var fd *ast.FuncDecl
			for _, d := range f.Decls {
				if x, ok := d.(*ast.FuncDecl); ok && x.Name.Name == tg.fn && recvName(x) == tg.recv {
					fd = x
				}
			}
			if fd == nil {
				xfail("function not found")
			}
			if tg.iface {
				out = trIface(fd, tg.lean)
			} else if tg.points {
				out = trPoints(fd, tg.lean)
			} else {
				out = trFunc(fd, tg)
			}
		}()
		name := tg.fn
		if tg.recv != "" {
			name = "(" + tg.recv + ")." + tg.fn
		}
		if msg != "" {
			failed = append(failed, fmt.Sprintf("%s %s left the translatable subset: %s", tg.file, name, msg))
			fmt.Fprintf(&b, "/- %s %s could not be translated: %s -/\nexample : \"%s left the translatable subset\" = \"\" := rfl\n\n", tg.file, name, strings.ReplaceAll(msg, "-/", "- /"), name)
			continue
		}
		fmt.Fprintf(&b, "/-- %s: %s -/\n%s\n", tg.file, name, out)
	}
	// constants of (*Bounds).Len
	b.WriteString("end GeomV.C04.Gen\n")
	sort.Strings(failed)
	return b.String(), failed
}

func extractMain(args []string) {
	repo := "/repo"
	for i := 0; i+1 < len(args); i++ {
		if args[i] == "--repo" {
			repo = args[i+1]
		}
	}
	for _, a := range args {
		if a == "--state" { // hidden-state tie: module GeomV.C04.GenState (state.go)
			stateMain(repo)
			return
		}
		if a == "--selfcheck" { // independent second pass over the AST against the generated text (selfcheck.go)
			selfcheckMain(repo)
			return
		}
	}
	s, failed := extract(repo)
	fmt.Print(s)
	if len(failed) > 0 {
		fmt.Fprintln(os.Stderr, strings.Join(failed, "; "))
		os.Exit(3)
	}
}
