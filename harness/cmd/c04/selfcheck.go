package main

// Extractor self-check: `c04 extract --selfcheck --repo DIR`.
//
// The tie lemmas prove `Gen.f = Model.f`; that Gen.f is what the Go source says rests on the renderer
// (extract.go, closures.go, collection.go).  This is a SECOND, independent pass over the same go/ast that
// shares nothing with the renderer but the `targets` table and the generated text itself: for every target
// it lists the ATOMS of the Go body in source order and compares them with the atoms lexed from the text of
// the corresponding definition(s) in the module that `extract()` prints (split per `/-- file: name -/` header).
//
//	atom classes   op     < <= > >= == != && || ! + - * /  min max pinf ninf length
//	               sel    field chains over Min/Max/X/Y with the documented renaming: b.Min.X ↦ b.mn.x, p.Y ↦ p.y
//	               store  the same chains on the left of an assignment (Lean: {b with mn := {b.mn with x := …}})
//	               lit    integer literals
//	               misc   nilcheck (x == nil ↦ match … | none), range (↦ foldl/foldlM), within.onEdge/inside/outside
//	Go             math.Min/Max ↦ min/max, math.Inf(±1) ↦ pinf/ninf, len(x) ↦ length, v++ ↦ + 1, v op= e ↦ op,
//	               `x == nil || c` ↦ nilcheck (the || is part of the match rendering)
//	Lean           decide (a ≤ b) ↦ a <= b, `=` ↦ ==, `x.length` ↦ length, `if c then pure true else` ↦ ||,
//	               `else pure false` ↦ &&
//
// EXACT functions (no if/for/switch/range/function literal in the Go body): the two sequences of op, sel, store
// and lit atoms must be EQUAL (a swapped operand, `<` for `<=`, a dropped conjunct, Min for Max are all caught).
// CENSUS functions (the renderer duplicates the continuation of an `if` into both branches, closures are
// rendered as state machines): every Go atom must occur at least as often in the Lean text, and the Lean
// text must not contain an op/sel/store atom that the Go body does not contain.
// Exit 0 with `selfcheck ok: N functions (M exact, K census)`, exit 4 with the function and the first difference.

import (
	"fmt"
	"go/ast"
	"go/parser"
	"go/token"
	"os"
	"path/filepath"
	"regexp"
	"strings"
)

type scAtom struct{ class, text string }

func (a scAtom) String() string { return a.class + ":" + a.text }

type scGo struct {
	atoms    []scAtom
	straight bool
}

func (g *scGo) emit(c, t string) { g.atoms = append(g.atoms, scAtom{c, t}) }

var scFieldMap = map[string]string{"Min": "mn", "Max": "mx", "X": "x", "Y": "y"}

// b.Min.X ↦ "b.mn.x"; ok only for chains of Min/Max/X/Y below a lower-case identifier
func scChain(e ast.Expr) (string, bool) {
	var rev []string
	for {
		switch t := e.(type) {
		case *ast.SelectorExpr:
			m, ok := scFieldMap[t.Sel.Name]
			if !ok {
				return "", false
			}
			rev = append(rev, m)
			e = t.X
		case *ast.ParenExpr:
			e = t.X
		case *ast.Ident:
			if len(rev) == 0 || t.Name == "" || !(t.Name[0] >= 'a' && t.Name[0] <= 'z') {
				return "", false
			}
			s := t.Name
			for i := len(rev) - 1; i >= 0; i-- {
				s += "." + rev[i]
			}
			return s, true
		default:
			return "", false
		}
	}
}

func scIsNil(e ast.Expr) bool {
	id, ok := e.(*ast.Ident)
	return ok && id.Name == "nil"
}

func scNilTest(e ast.Expr) bool {
	for {
		p, ok := e.(*ast.ParenExpr)
		if !ok {
			break
		}
		e = p.X
	}
	b, ok := e.(*ast.BinaryExpr)
	return ok && (b.Op == token.EQL || b.Op == token.NEQ) && (scIsNil(b.X) || scIsNil(b.Y))
}

var scOps = map[token.Token]string{token.LSS: "<", token.LEQ: "<=", token.GTR: ">", token.GEQ: ">=", token.EQL: "==",
	token.NEQ: "!=", token.LAND: "&&", token.LOR: "||", token.ADD: "+", token.SUB: "-", token.MUL: "*", token.QUO: "/",
	token.ADD_ASSIGN: "+", token.SUB_ASSIGN: "-", token.MUL_ASSIGN: "*", token.QUO_ASSIGN: "/"}

func (g *scGo) expr(e ast.Expr) {
	switch t := e.(type) {
	case nil:
	case *ast.ParenExpr:
		g.expr(t.X)
	case *ast.BinaryExpr:
		if scNilTest(t) {
			g.emit("misc", "nilcheck")
			return
		}
		if (t.Op == token.LOR || t.Op == token.LAND) && scNilTest(t.X) {
			g.emit("misc", "nilcheck")
			g.expr(t.Y)
			return
		}
		g.expr(t.X)
		if op, ok := scOps[t.Op]; ok {
			g.emit("op", op)
		} else {
			g.emit("op", "?"+t.Op.String())
		}
		g.expr(t.Y)
	case *ast.UnaryExpr:
		switch t.Op {
		case token.NOT:
			g.emit("op", "!")
		case token.SUB:
			g.emit("op", "-")
		case token.AND, token.ADD:
		default:
			g.emit("op", "?"+t.Op.String())
		}
		g.expr(t.X)
	case *ast.SelectorExpr:
		if s, ok := scChain(t); ok {
			g.emit("sel", s)
		} else {
			g.expr(t.X)
		}
	case *ast.CallExpr:
		if sel, ok := t.Fun.(*ast.SelectorExpr); ok {
			if id, ok := sel.X.(*ast.Ident); ok && id.Name == "math" {
				switch sel.Sel.Name {
				case "Min":
					g.emit("op", "min")
				case "Max":
					g.emit("op", "max")
				case "Inf":
					sign := "?"
					if len(t.Args) == 1 {
						switch a := t.Args[0].(type) {
						case *ast.BasicLit:
							sign = "pinf"
							if a.Value == "0" {
								sign = "pinf" // math.Inf(0) is +Inf as well
							}
						case *ast.UnaryExpr:
							if _, lit := a.X.(*ast.BasicLit); lit && a.Op == token.SUB {
								sign = "ninf"
							} else if lit && a.Op == token.ADD {
								sign = "pinf"
							}
						}
					}
					g.emit("op", sign)
					return
				default:
					g.emit("op", "?math."+sel.Sel.Name)
				}
			} else {
				g.expr(sel.X) // b.Min.Equals(…): the receiver expression
			}
		} else if id, ok := t.Fun.(*ast.Ident); ok && id.Name == "len" {
			g.emit("op", "length")
		} else if _, ok := t.Fun.(*ast.FuncLit); ok {
			g.expr(t.Fun)
		}
		for _, a := range t.Args {
			g.expr(a)
		}
	case *ast.CompositeLit:
		for _, el := range t.Elts {
			if kv, ok := el.(*ast.KeyValueExpr); ok {
				g.expr(kv.Value)
			} else {
				g.expr(el)
			}
		}
	case *ast.IndexExpr:
		g.expr(t.X)
		g.expr(t.Index)
	case *ast.SliceExpr:
		g.expr(t.X)
		g.expr(t.Low)
		g.expr(t.High)
	case *ast.StarExpr:
		g.expr(t.X)
	case *ast.TypeAssertExpr:
		g.expr(t.X)
	case *ast.BasicLit:
		if t.Kind == token.INT {
			g.emit("lit", t.Value)
		} else if t.Kind == token.FLOAT {
			g.emit("lit", "float "+t.Value)
		}
	case *ast.Ident:
		switch t.Name {
		case "OnEdge":
			g.emit("misc", "within.onEdge")
		case "Inside":
			g.emit("misc", "within.inside")
		case "Outside":
			g.emit("misc", "within.outside")
		}
	case *ast.FuncLit:
		g.straight = false
		g.block(t.Body.List)
	}
}

func (g *scGo) lhs(e ast.Expr) {
	if s, ok := scChain(e); ok {
		g.emit("store", s)
		return
	}
	if _, ok := e.(*ast.Ident); ok {
		return
	}
	g.expr(e)
}

func (g *scGo) block(ss []ast.Stmt) {
	for _, s := range ss {
		g.stmt(s)
	}
}

func (g *scGo) stmt(s ast.Stmt) {
	switch t := s.(type) {
	case nil:
	case *ast.BlockStmt:
		g.block(t.List)
	case *ast.ExprStmt:
		g.expr(t.X)
	case *ast.ReturnStmt:
		for _, r := range t.Results {
			g.expr(r)
		}
	case *ast.AssignStmt:
		if t.Tok != token.DEFINE {
			for _, l := range t.Lhs {
				g.lhs(l)
			}
			if t.Tok != token.ASSIGN {
				if op, ok := scOps[t.Tok]; ok {
					g.emit("op", op)
				} else {
					g.emit("op", "?"+t.Tok.String())
				}
			}
		}
		for _, r := range t.Rhs {
			g.expr(r)
		}
	case *ast.IncDecStmt:
		g.lhs(t.X)
		if t.Tok == token.INC {
			g.emit("op", "+")
		} else {
			g.emit("op", "-")
		}
		g.emit("lit", "1")
	case *ast.DeclStmt:
		if gd, ok := t.Decl.(*ast.GenDecl); ok {
			for _, sp := range gd.Specs {
				if vs, ok := sp.(*ast.ValueSpec); ok {
					for _, v := range vs.Values {
						g.expr(v)
					}
				}
			}
		}
	case *ast.IfStmt:
		g.straight = false
		g.stmt(t.Init)
		g.expr(t.Cond)
		g.stmt(t.Body)
		g.stmt(t.Else)
	case *ast.ForStmt:
		g.straight = false
		g.stmt(t.Init)
		g.expr(t.Cond)
		g.stmt(t.Body) // body before post: the renderer puts the post statement at the end of the body
		g.stmt(t.Post)
	case *ast.RangeStmt:
		g.straight = false
		g.emit("misc", "range")
		g.expr(t.X)
		g.stmt(t.Body)
	case *ast.SwitchStmt:
		g.straight = false
		g.stmt(t.Init)
		g.expr(t.Tag)
		g.stmt(t.Body)
	case *ast.TypeSwitchStmt:
		g.straight = false
		g.stmt(t.Body)
	case *ast.CaseClause:
		for _, e := range t.List {
			g.expr(e)
		}
		g.block(t.Body)
	case *ast.DeferStmt:
		g.straight = false
		g.expr(t.Call)
	case *ast.GoStmt:
		g.straight = false
		g.emit("op", "?go")
		g.expr(t.Call)
	default:
		g.straight = false
	}
}

// ---- Lean side: a lexer over the generated text of one `/-- file: name -/` section

var scLeanTok = regexp.MustCompile(`:=|=>|==|!=|&&|\|\||←|→|≤|≥|≠|<=|>=|[A-Za-z_α-ωφ][A-Za-z0-9_'!?]*(?:\.[A-Za-z_][A-Za-z0-9_']*)*|[0-9]+|[{}(),<>=!+\-*/|⟨⟩:×]`)
var scLeanSel = regexp.MustCompile(`^[a-z][A-Za-z0-9_']*(\.(mn|mx|x|y))+$`)

func scLean(section string) []scAtom {
	// bodies only: for every `def`, drop the signature (up to the first `:=`)
	var toks []string
	for i, chunk := range strings.Split("\n"+section, "\ndef ") {
		if i == 0 {
			continue
		}
		k := strings.Index(chunk, ":=")
		if k < 0 {
			continue
		}
		toks = append(toks, scLeanTok.FindAllString(chunk[k+2:], -1)...)
		toks = append(toks, ";")
	}
	var out []scAtom
	emit := func(c, t string) { out = append(out, scAtom{c, t}) }
	at := func(i int) string {
		if i >= 0 && i < len(toks) {
			return toks[i]
		}
		return ""
	}
	withRoot := ""
	for i := 0; i < len(toks); i++ {
		t := toks[i]
		switch {
		case t == "{" && at(i+2) == "with" && at(i+4) == ":=":
			// {X with f := E …}: a store into X.f, unless E is itself {X.f with g := …} (then the inner one counts)
			x, f := at(i+1), at(i+3)
			withRoot = x
			if !(at(i+5) == "{" && at(i+6) == x+"."+f && at(i+7) == "with") {
				emit("store", x+"."+f)
			}
			i += 4
		case t == "," && at(i+2) == ":=" && withRoot != "" && (at(i+1) == "mn" || at(i+1) == "mx" || at(i+1) == "x" || at(i+1) == "y"):
			emit("store", withRoot+"."+at(i+1))
			i += 2
		case t == "then" && at(i+1) == "pure" && at(i+2) == "true" && at(i+3) == "else":
			emit("op", "||")
			i += 3
		case t == "else" && at(i+1) == "pure" && at(i+2) == "false":
			emit("op", "&&")
			i += 2
		case t == "|" && at(i+1) == "none":
			emit("misc", "nilcheck")
			i++
		case t == "≤" || t == "<=":
			emit("op", "<=")
		case t == "≥" || t == ">=":
			emit("op", ">=")
		case t == "≠" || t == "!=":
			emit("op", "!=")
		case t == "=" || t == "==":
			emit("op", "==")
		case t == "<" || t == ">" || t == "&&" || t == "||" || t == "!" || t == "+" || t == "-" || t == "*" || t == "/":
			emit("op", t)
		case t == "min" || t == "max" || t == "pinf" || t == "ninf":
			emit("op", t)
		case t == ":" || t == "(" && at(i+2) == ":" && at(i+1) != "" && at(i + 1)[0] >= '0' && at(i + 1)[0] <= '9':
			// type ascriptions `(2 : α)`, `: Pt α)`, `: Nat × Nat)`: the literal counts, the type does not
			if t == "(" {
				emit("lit", at(i+1))
				i++
			}
			for i+1 < len(toks) && at(i+1) != ")" && at(i+1) != ":=" && at(i+1) != "=>" {
				i++
			}
		case t[0] >= '0' && t[0] <= '9':
			emit("lit", t)
		case strings.HasSuffix(t, ".length"):
			emit("op", "length")
		case strings.HasSuffix(t, ".foldl") || strings.HasSuffix(t, ".foldlM"):
			emit("misc", "range")
		case strings.HasPrefix(t, "WithinStatus."):
			emit("misc", "within."+strings.TrimPrefix(t, "WithinStatus."))
		case scLeanSel.MatchString(t):
			emit("sel", t)
		}
	}
	return out
}

func scFilter(as []scAtom, classes ...string) []scAtom {
	var out []scAtom
	for _, a := range as {
		for _, c := range classes {
			if a.class == c {
				out = append(out, a)
			}
		}
	}
	return out
}

func scShow(as []scAtom, i int) string {
	lo, hi := i-3, i+2
	if lo < 0 {
		lo = 0
	}
	if hi > len(as) {
		hi = len(as)
	}
	var s []string
	for _, a := range as[lo:hi] {
		s = append(s, a.text)
	}
	return "… " + strings.Join(s, " ") + " …"
}

func selfcheckMain(repo string) {
	text, failed := extract(repo)
	if len(failed) > 0 {
		fmt.Fprintln(os.Stderr, "selfcheck: the extractor itself failed: "+strings.Join(failed, "; "))
		os.Exit(4)
	}
	// sections of the generated module
	sections := map[string]string{}
	hdr := regexp.MustCompile(`(?m)^/-- ([a-z]+\.go): (.*) -/\n`)
	locs := hdr.FindAllStringSubmatchIndex(text, -1)
	for i, l := range locs {
		end := len(text)
		if i+1 < len(locs) {
			end = locs[i+1][0]
		}
		body := strings.TrimSuffix(strings.TrimSpace(text[l[1]:end]), "end GeomV.C04.Gen")
		sections[text[l[2]:l[3]]+" "+text[l[4]:l[5]]] = body
	}
	fset := token.NewFileSet()
	files := map[string]*ast.File{}
	nExact, nCensus := 0, 0
	var errs []string
	for _, tg := range targets {
		name := tg.fn
		if tg.recv != "" {
			name = "(" + tg.recv + ")." + tg.fn
		}
		f := files[tg.file]
		if f == nil {
			pf, err := parser.ParseFile(fset, filepath.Join(repo, tg.file), nil, 0)
			if err != nil {
				errs = append(errs, fmt.Sprintf("%s: %v", tg.file, err))
				continue
			}
			f, files[tg.file] = pf, pf
		}
		var fd *ast.FuncDecl
		for _, d := range f.Decls {
			if x, ok := d.(*ast.FuncDecl); ok && x.Name.Name == tg.fn && x.Body != nil {
				r := ""
				if x.Recv != nil && len(x.Recv.List) == 1 {
					switch rt := x.Recv.List[0].Type.(type) {
					case *ast.StarExpr:
						if id, ok := rt.X.(*ast.Ident); ok {
							r = "*" + id.Name
						}
					case *ast.Ident:
						r = rt.Name
					}
				}
				if r == tg.recv {
					fd = x
				}
			}
		}
		sec, ok := sections[tg.file+" "+name]
		if fd == nil || !ok {
			errs = append(errs, name+": no Go declaration or no generated section")
			continue
		}
		g := &scGo{straight: true}
		body := fd.Body.List
		if tg.boxBranch { // only the `if bp, ok := p.(*Bounds); ok {…}` branch is translated
			g.straight = false
			if len(body) > 0 {
				if is, ok := body[0].(*ast.IfStmt); ok {
					body = is.Body.List
				}
			}
		}
		g.block(body)
		lean := scLean(sec)
		if g.straight && !tg.points && !tg.iface {
			nExact++
			a, b := scFilter(g.atoms, "op", "sel", "store", "lit"), scFilter(lean, "op", "sel", "store", "lit")
			for i := 0; i < len(a) || i < len(b); i++ {
				if i >= len(a) || i >= len(b) || a[i] != b[i] {
					ga, la := "<end>", "<end>"
					if i < len(a) {
						ga = a[i].String()
					}
					if i < len(b) {
						la = b[i].String()
					}
					errs = append(errs, fmt.Sprintf("%s (exact): atom %d is %s in the Go source (%s) but %s in the generated Lean (%s)",
						name, i+1, ga, scShow(a, i), la, scShow(b, i)))
					break
				}
			}
			continue
		}
		nCensus++
		cg, cl := map[scAtom]int{}, map[scAtom]int{}
		for _, a := range g.atoms {
			cg[a]++
		}
		for _, a := range lean {
			cl[a]++
		}
		bad := ""
		for _, a := range g.atoms { // source order: the first one that is short
			if cl[a] < cg[a] {
				bad = fmt.Sprintf("%s occurs %d× in the Go source but %d× in the generated Lean", a, cg[a], cl[a])
				break
			}
		}
		if bad == "" {
			for _, a := range lean {
				if (a.class == "op" || a.class == "sel" || a.class == "store") && cg[a] == 0 {
					bad = fmt.Sprintf("the generated Lean contains %s, the Go source does not", a)
					break
				}
			}
		}
		if bad != "" {
			errs = append(errs, name+" (census): "+bad)
		}
	}
	if len(errs) > 0 {
		fmt.Fprintln(os.Stderr, "selfcheck FAILED: "+strings.Join(errs, "; "))
		os.Exit(4)
	}
	fmt.Printf("selfcheck ok: %d functions (%d exact, %d census)\n", nExact+nCensus, nExact, nCensus)
}
