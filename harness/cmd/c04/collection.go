package main

// T1 tie, part 3: the methods of GeometryCollection (geometrycollection.go).
//
// They call methods on interface values (`geom.Bounds()`, `g.Len()`, `gc[j].Points()`) and the Points() closure
// captures a func value (`var p func() Point`).  Neither is translated by looking at the callee: the rendered
// definition takes what Go's run time supplies as PARAMETERS,
//
//	ifaceLen    : Geom α → Except Fault Nat        g.Len()     on an interface value g (nil interface = fault)
//	ifaceBounds : Geom α → Except Fault (Box α)    g.Bounds()
//	ifacePoints : Geom α → Except Fault φ          g.Points()  — a fresh func value; φ is the type of func values
//	callFunc    : φ → Except Fault (Pt α × φ)      p()         — result and the func value with its updated captured state
//
// and Ties/Collection*.lean prove the model's collection case equal to the rendered definition instantiated with
// the model's own dispatch functions (`lenG`, `boundsG`, `init`/`next` on `Geom α × ItSt`), whose cases for the
// other seven types are tied to their regenerated methods one by one.  A func value is threaded like the ints:
// the only func variable allowed is one that is assigned from `X.Points()` and used as `p()` and nowhere else
// (so no second reference to the closure's state exists).
//
//	var i, j int / var p func() Point   ↦ let i : Nat := 0 / let p : Option φ := none
//	b := NewBounds()                    ↦ let b := newBounds
//	gc[e]                               ↦ let xN ← idx gc e                 (hoisted, evaluation order)
//	g.Len() / g.Bounds() / g.Points()   ↦ let tN ← ifaceLen g / …           (hoisted, evaluation order)
//	len(gc)                             ↦ gc.length
//	i += E, i++, i = <lit>, p = E       ↦ let i := i + E, …, let p := some tN
//	b.Extend(E)                         ↦ let b := extend b (some tN)
//	for _, g := range gc { S }          ↦ let acc ← gc.foldlM (fun acc g => do S; pure acc) acc   (acc = variables S assigns)
//	if C { S }                          ↦ let acc ← (do let c ← C; if c then (do S; pure acc) else pure acc)
//	for C { S }   (closure only)        ↦ let st ← whileFuel (loopFuelC gc) (fun st => C) (fun st => do S; pure st) st
//	return E                            ↦ pure E                             (plain method)
//	return p()    (closure only)        ↦ match p with | none => .error .nilFunc | some f => do let (v, f) ← callFunc f; pure (v, state)
//
// Anything else leaves the subset and is reported by name (extract.go).

import (
	"fmt"
	"go/ast"
	"go/token"
	"strings"
)

type menv struct {
	recv  string
	kinds map[string]xkind
	order []string // local variables in declaration order
	fresh int
	used  map[string]bool
	state []string // captured variables of the closure (nil outside a closure)
	nested int     // depth of nested blocks
}

var ifaceParams = []struct{ name, ty string }{
	{"ifaceLen", "Geom α → Except Fault Nat"},
	{"ifaceBounds", "Geom α → Except Fault (Box α)"},
	{"ifacePoints", "Geom α → Except Fault φ"},
	{"callFunc", "φ → Except Fault (Pt α × φ)"},
}

func (m *menv) nextv(prefix string) string {
	m.fresh++
	return fmt.Sprintf("%s%d", prefix, m.fresh)
}

func (m *menv) declare(name string, k xkind) {
	if _, dup := m.kinds[name]; dup {
		xfail("variable %s declared twice (shadowing is outside the subset)", name)
	}
	m.kinds[name] = k
	m.order = append(m.order, name)
}

func leanTy(k xkind) string {
	switch k {
	case kInt:
		return "Nat"
	case kBox:
		return "Box α"
	case kFuncOpt:
		return "Option φ"
	}
	xfail("variable kind outside the subset")
	return ""
}

// tuple pattern and type of a list of variables
func (m *menv) tuple(vs []string) (string, string) {
	if len(vs) == 0 {
		xfail("block without an assigned variable")
	}
	var ns, ts []string
	for _, v := range vs {
		ns = append(ns, leanName(v))
		ts = append(ts, leanTy(m.kinds[v]))
	}
	if len(vs) == 1 {
		return ns[0], ts[0]
	}
	return "(" + strings.Join(ns, ", ") + ")", strings.Join(ts, " × ")
}

func (m *menv) mexpr(x ast.Expr) ([]string, string, xkind) {
	switch t := x.(type) {
	case *ast.ParenExpr:
		return m.mexpr(t.X)
	case *ast.Ident:
		k, ok := m.kinds[t.Name]
		if !ok {
			xfail("unknown identifier %s", t.Name)
		}
		if k == kFuncOpt {
			xfail("func variable %s used other than as `%s()`", t.Name, t.Name)
		}
		return nil, leanName(t.Name), k
	case *ast.BasicLit:
		if t.Kind != token.INT {
			xfail("literal %s", t.Value)
		}
		return nil, t.Value, kInt
	case *ast.IndexExpr:
		ha, a, ka := m.mexpr(t.X)
		hb, b, kb := m.mexpr(t.Index)
		if ka != kGeoms || kb != kInt {
			xfail("index expression other than gc[int]")
		}
		v := m.nextv("x")
		h := append(append([]string{}, ha...), hb...)
		return append(h, "let "+v+" ← idx "+a+" "+b), v, kGeom
	case *ast.CallExpr:
		if fn, ok := t.Fun.(*ast.Ident); ok {
			switch {
			case fn.Name == "len" && len(t.Args) == 1:
				h, a, k := m.mexpr(t.Args[0])
				if k != kGeoms {
					xfail("len of something that is not the collection")
				}
				return h, a + ".length", kInt
			case fn.Name == "NewBounds" && len(t.Args) == 0:
				return nil, "newBounds", kBox
			}
			xfail("call of %s outside the subset", fn.Name)
		}
		sel, ok := t.Fun.(*ast.SelectorExpr)
		if !ok || len(t.Args) != 0 {
			xfail("call outside the subset")
		}
		h, g, k := m.mexpr(sel.X)
		if k != kGeom {
			xfail("method call on something that is not an interface value of type Geom")
		}
		var fn string
		var rk xkind
		switch sel.Sel.Name {
		case "Len":
			fn, rk = "ifaceLen", kInt
		case "Bounds":
			fn, rk = "ifaceBounds", kBox
		case "Points":
			fn, rk = "ifacePoints", kFuncVal
		default:
			xfail("interface method %s outside the subset", sel.Sel.Name)
		}
		m.used[fn] = true
		v := m.nextv("t")
		return append(h, "let "+v+" ← "+fn+" "+g), v, rk
	case *ast.BinaryExpr:
		hl, l, kl := m.mexpr(t.X)
		hr, r, kr := m.mexpr(t.Y)
		h := append(append([]string{}, hl...), hr...)
		if kl != kInt || kr != kInt {
			xfail("operator %s on non-ints", t.Op)
		}
		switch t.Op {
		case token.ADD:
			return h, "(" + l + " + " + r + ")", kInt
		case token.EQL:
			return h, "(" + l + " == " + r + ")", kBool
		case token.NEQ:
			return h, "(" + l + " != " + r + ")", kBool
		case token.GEQ:
			return h, "decide (" + l + " ≥ " + r + ")", kBool
		case token.GTR:
			return h, "decide (" + l + " > " + r + ")", kBool
		case token.LEQ:
			return h, "decide (" + l + " ≤ " + r + ")", kBool
		case token.LSS:
			return h, "decide (" + l + " < " + r + ")", kBool
		}
		xfail("operator %s", t.Op)
	}
	xfail("expression %T outside the subset", x)
	return nil, "", kInt
}

func (m *menv) condM(x ast.Expr, ind string) string {
	if p, ok := x.(*ast.ParenExpr); ok {
		return m.condM(p.X, ind)
	}
	if b, ok := x.(*ast.BinaryExpr); ok && (b.Op == token.LOR || b.Op == token.LAND) {
		v := m.nextv("c")
		l := m.condM(b.X, ind+"  ")
		r := m.condM(b.Y, ind+"  ")
		if b.Op == token.LOR {
			return "(do\n" + ind + "  let " + v + " ← " + l + "\n" + ind + "  if " + v + " then pure true else " + r + ")"
		}
		return "(do\n" + ind + "  let " + v + " ← " + l + "\n" + ind + "  if " + v + " then " + r + " else pure false)"
	}
	h, e, k := m.mexpr(x)
	if k != kBool {
		xfail("condition is not boolean")
	}
	out := "(do\n"
	for _, l := range h {
		out += ind + "  " + l + "\n"
	}
	return out + ind + "  pure (" + e + "))"
}

// variables (declared before the block) that the statements assign, in declaration order
func (m *menv) assigned(ss []ast.Stmt) []string {
	set := map[string]bool{}
	for _, s := range ss {
		ast.Inspect(s, func(n ast.Node) bool {
			switch t := n.(type) {
			case *ast.AssignStmt:
				for _, l := range t.Lhs {
					if id, ok := l.(*ast.Ident); ok && t.Tok != token.DEFINE {
						set[id.Name] = true
					}
				}
			case *ast.IncDecStmt:
				if id, ok := t.X.(*ast.Ident); ok {
					set[id.Name] = true
				}
			case *ast.ExprStmt:
				if c, ok := t.X.(*ast.CallExpr); ok {
					if sl, ok := c.Fun.(*ast.SelectorExpr); ok {
						if id, ok := sl.X.(*ast.Ident); ok && m.kinds[id.Name] == kBox {
							set[id.Name] = true
						}
					}
				}
			}
			return true
		})
	}
	var out []string
	for _, v := range m.order {
		if set[v] {
			out = append(out, v)
		}
	}
	return out
}

func (m *menv) emit(h []string, ind string) string {
	out := ""
	for _, l := range h {
		out += ind + l + "\n"
	}
	return out
}

// mstmts renders a statement list inside a do-block.  final: the continuation at the end of a nested block
// ("" = the list must end in a return).
func (m *menv) mstmts(ss []ast.Stmt, ind string, final string) string {
	out := ""
	for idx, st := range ss {
		switch t := st.(type) {
		case *ast.DeclStmt:
			gd, ok := t.Decl.(*ast.GenDecl)
			if !ok || gd.Tok != token.VAR || m.nested > 0 {
				xfail("declaration outside the subset")
			}
			for _, sp := range gd.Specs {
				vs := sp.(*ast.ValueSpec)
				if len(vs.Values) != 0 {
					xfail("declaration with an initial value")
				}
				switch {
				case typeName(vs.Type) == "int":
					for _, n := range vs.Names {
						m.declare(n.Name, kInt)
						out += ind + "let " + leanName(n.Name) + " : Nat := 0\n"
					}
				case isFuncPoint(vs.Type):
					for _, n := range vs.Names {
						m.declare(n.Name, kFuncOpt)
						out += ind + "let " + leanName(n.Name) + " : Option φ := none\n"
					}
				default:
					xfail("declaration of a variable that is neither int nor func() Point")
				}
			}
		case *ast.IncDecStmt:
			id, ok := t.X.(*ast.Ident)
			if !ok || t.Tok != token.INC || m.kinds[id.Name] != kInt {
				xfail("only `v++` on an int variable is in the subset")
			}
			out += ind + "let " + leanName(id.Name) + " := " + leanName(id.Name) + " + 1\n"
		case *ast.AssignStmt:
			if len(t.Lhs) != 1 || len(t.Rhs) != 1 {
				xfail("parallel assignment")
			}
			id, ok := t.Lhs[0].(*ast.Ident)
			if !ok {
				xfail("assignment target")
			}
			h, v, k := m.mexpr(t.Rhs[0])
			switch t.Tok {
			case token.DEFINE:
				if k != kBox || m.nested > 0 {
					xfail("only `b := NewBounds()` at function level is in the subset")
				}
				out += m.emit(h, ind)
				m.declare(id.Name, kBox)
				out += ind + "let " + leanName(id.Name) + " := " + v + "\n"
			case token.ADD_ASSIGN:
				if m.kinds[id.Name] != kInt || k != kInt {
					xfail("+= on something that is not an int variable")
				}
				out += m.emit(h, ind)
				out += ind + "let " + leanName(id.Name) + " := " + leanName(id.Name) + " + " + v + "\n"
			case token.ASSIGN:
				out += m.emit(h, ind)
				switch {
				case m.kinds[id.Name] == kInt && k == kInt:
					if _, lit := t.Rhs[0].(*ast.BasicLit); !lit {
						xfail("only `v = <int literal>` is in the subset")
					}
					out += ind + "let " + leanName(id.Name) + " := " + v + "\n"
				case m.kinds[id.Name] == kFuncOpt && k == kFuncVal:
					out += ind + "let " + leanName(id.Name) + " := some " + v + "\n"
				default:
					xfail("assignment to %s outside the subset", id.Name)
				}
			default:
				xfail("assignment operator %s", t.Tok)
			}
		case *ast.ExprStmt:
			c, ok := t.X.(*ast.CallExpr)
			if !ok {
				xfail("expression statement")
			}
			sel, ok := c.Fun.(*ast.SelectorExpr)
			if !ok {
				xfail("statement call")
			}
			rid, isId := sel.X.(*ast.Ident)
			if !isId || m.kinds[rid.Name] != kBox || sel.Sel.Name != "Extend" || len(c.Args) != 1 {
				xfail("statement call other than b.Extend(…)")
			}
			h, v, k := m.mexpr(c.Args[0])
			if k != kBox {
				xfail("Extend by a non-box")
			}
			out += m.emit(h, ind)
			out += ind + "let " + leanName(rid.Name) + " := extend " + leanName(rid.Name) + " (some " + v + ")\n"
		case *ast.RangeStmt:
			if t.Tok != token.DEFINE || t.Value == nil || m.state != nil {
				xfail("range form")
			}
			if k, ok := t.Key.(*ast.Ident); !ok || k.Name != "_" {
				xfail("range with an index variable")
			}
			xid, ok := t.X.(*ast.Ident)
			if !ok || m.kinds[xid.Name] != kGeoms {
				xfail("range over something that is not the collection")
			}
			if hasReturn(t.Body.List) {
				xfail("return/break/continue inside a range loop")
			}
			acc := m.assigned(t.Body.List)
			pat, _ := m.tuple(acc)
			v := t.Value.(*ast.Ident).Name
			m.declare(v, kGeom)
			m.nested++
			body := m.mstmts(t.Body.List, ind+"  ", "pure "+pat)
			m.nested--
			delete(m.kinds, v)
			m.order = m.order[:len(m.order)-1]
			out += ind + "let " + pat + " ← " + leanName(xid.Name) + ".foldlM (fun " + pat + " " + leanName(v) + " => do\n" + body + ") " + pat + "\n"
		case *ast.IfStmt:
			if t.Init != nil || t.Else != nil || hasReturn(t.Body.List) {
				xfail("if form outside the subset (only `if COND { assignments }`)")
			}
			acc := m.assigned(t.Body.List)
			pat, _ := m.tuple(acc)
			v := m.nextv("c")
			cond := m.condM(t.Cond, ind+"  ")
			m.nested++
			body := m.mstmts(t.Body.List, ind+"    ", "pure "+pat)
			m.nested--
			out += ind + "let " + pat + " ← (do\n" + ind + "  let " + v + " ← " + cond + "\n" +
				ind + "  if " + v + " then (do\n" + body + ") else pure " + pat + ")\n"
		case *ast.ForStmt:
			if t.Init != nil || t.Post != nil || t.Cond == nil || hasReturn(t.Body.List) || m.state == nil {
				xfail("loop form outside the subset (only `for COND { … }` without return/break, inside the closure)")
			}
			pat, sty := m.tuple(m.state)
			cond := m.condM(t.Cond, ind+"    ")
			m.nested++
			body := m.mstmts(t.Body.List, ind+"    ", "pure "+pat)
			m.nested--
			out += ind + "let " + pat + " ← whileFuel (loopFuelC " + leanName(m.recv) + ")\n" +
				ind + "  (fun (" + pat + " : " + sty + ") => " + cond + ")\n" +
				ind + "  (fun (" + pat + " : " + sty + ") => do\n" + body + ") " + pat + "\n"
		case *ast.ReturnStmt:
			if final != "" || idx != len(ss)-1 || len(t.Results) != 1 {
				xfail("return in the middle")
			}
			if m.state != nil {
				// return p()
				c, ok := t.Results[0].(*ast.CallExpr)
				var id *ast.Ident
				if ok {
					id, ok = c.Fun.(*ast.Ident)
				}
				if !ok || len(c.Args) != 0 || m.kinds[id.Name] != kFuncOpt {
					xfail("the closure does not end in `return p()` for its captured func variable")
				}
				m.used["callFunc"] = true
				pat, _ := m.tuple(m.state)
				p := leanName(id.Name)
				return out + ind + "match " + p + " with\n" +
					ind + "| none => Except.error Fault.nilFunc\n" +
					ind + "| some f => do\n" +
					ind + "  let (v, f) ← callFunc f\n" +
					ind + "  let " + p + " := some f\n" +
					ind + "  pure (v, " + pat + ")"
			}
			h, e, _ := m.mexpr(t.Results[0])
			return out + m.emit(h, ind) + ind + "pure " + e
		default:
			xfail("statement %T outside the subset", st)
		}
	}
	if final == "" {
		xfail("the function does not end in a return")
	}
	return out + ind + final
}

func isFuncPoint(x ast.Expr) bool {
	ft, ok := x.(*ast.FuncType)
	return ok && ft.Params.NumFields() == 0 && ft.Results.NumFields() == 1 && typeName(ft.Results.List[0].Type) == "Point"
}

// every use of a func variable must be `p = …` or `p()`
func checkFuncUses(body *ast.BlockStmt, m *menv) {
	ast.Inspect(body, func(n ast.Node) bool {
		switch t := n.(type) {
		case *ast.UnaryExpr:
			if t.Op == token.AND {
				xfail("address-of outside the subset")
			}
		case *ast.GoStmt, *ast.DeferStmt:
			xfail("go/defer outside the subset")
		}
		return true
	})
}

func (m *menv) params(leading string) string {
	out := ""
	needPhi := false
	for _, p := range ifaceParams {
		if m.used[p.name] {
			if strings.Contains(p.ty, "φ") {
				needPhi = true
			}
			out += " (" + p.name + " : " + p.ty + ")"
		}
	}
	for _, v := range m.order {
		if m.kinds[v] == kFuncOpt {
			needPhi = true
		}
	}
	if needPhi {
		out = " {φ : Type}" + out
	}
	return out + leading
}

// trIface renders a method of GeometryCollection
func trIface(fd *ast.FuncDecl, stem string) string {
	if fd.Recv == nil || len(fd.Recv.List) != 1 || len(fd.Recv.List[0].Names) != 1 || typeName(fd.Recv.List[0].Type) != "GeometryCollection" {
		xfail("receiver")
	}
	if fd.Type.Params.NumFields() != 0 || fd.Type.Results.NumFields() != 1 {
		xfail("signature")
	}
	m := &menv{recv: fd.Recv.List[0].Names[0].Name, kinds: map[string]xkind{}, used: map[string]bool{}}
	m.kinds[m.recv] = kGeoms
	checkFuncUses(fd.Body, m)
	recvParam := " (" + leanName(m.recv) + " : List (Geom α))"
	res := fd.Type.Results.List[0].Type
	body := fd.Body.List
	if len(body) == 0 {
		xfail("empty body")
	}
	if !isFuncPoint(res) {
		var rty string
		var want xkind
		switch typeName(res) {
		case "int":
			rty, want = "Nat", kInt
		case "*Bounds":
			rty, want = "Box α", kBox
		default:
			xfail("result type outside the subset")
		}
		b := m.mstmts(body, "  ", "")
		ret := body[len(body)-1].(*ast.ReturnStmt)
		if _, _, k := (&menv{recv: m.recv, kinds: m.kinds, used: map[string]bool{}}).mexpr(ret.Results[0]); k != want {
			xfail("result of the wrong kind")
		}
		return fmt.Sprintf("def %s%s : Except Fault (%s) := do\n%s\n", stem, m.params(recvParam), rty, b)
	}
	// Points(): declarations and an optional eager first step, then `return func() Point { … }`
	ret, ok := body[len(body)-1].(*ast.ReturnStmt)
	if !ok || len(ret.Results) != 1 {
		xfail("Points() does not end in `return func() Point {…}`")
	}
	fl, ok := ret.Results[0].(*ast.FuncLit)
	if !ok || fl.Type.Params.NumFields() != 0 || !isFuncPoint(fl.Type) {
		xfail("Points() does not return a `func() Point` literal")
	}
	for _, st := range body[:len(body)-1] {
		switch st.(type) {
		case *ast.DeclStmt, *ast.IfStmt:
		default:
			xfail("statement %T before the closure", st)
		}
	}
	// the whole prefix is rendered with a trailing `pure state`
	pre := m.mstmtsPrefix(body[:len(body)-1], "  ")
	state := append([]string{}, m.order...)
	if len(state) == 0 {
		xfail("closure without captured variables")
	}
	pat, sty := m.tuple(state)
	initDef := fmt.Sprintf("def %sInit%s : Except Fault (%s) := do\n%s  pure %s\n", stem, m.params(recvParam), sty, pre, pat)
	// the closure
	m2 := &menv{recv: m.recv, kinds: m.kinds, order: m.order, used: map[string]bool{}, state: state, fresh: m.fresh}
	b := m2.mstmts(fl.Body.List, "  ", "")
	var ps string
	for _, v := range state {
		ps += " (" + leanName(v) + " : " + leanTy(m.kinds[v]) + ")"
	}
	nextDef := fmt.Sprintf("def %sNext%s : Except Fault (Pt α × (%s)) := do\n%s\n", stem, m2.params(recvParam+ps), sty, b)
	return initDef + "\n" + nextDef
}

// statements before the closure: like mstmts but running off the end is expected
func (m *menv) mstmtsPrefix(ss []ast.Stmt, ind string) string {
	out := ""
	for _, st := range ss {
		s := m.mstmts([]ast.Stmt{st}, ind, "\x00")
		out += strings.TrimSuffix(s, ind+"\x00")
	}
	return out
}
