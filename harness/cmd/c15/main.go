// Harness for C15 (Similar is a symmetric tolerance comparison). Subcommands:
//
//	gen --seed S --tier T   write case lines  "sim <tag>:<T|F|?> <tolhex> <geomA> | <geomB>"
//	impl                    read case lines, run the real code, append " => <A.Similar(B)> <B.Similar(A)>"
//
// Every pair is evaluated in both argument orders.  The tag names the transformation that
// produced B from A and what the property statement says about it (T: must be similar,
// F: must not be, ?: the statement says nothing; judged by the specification/model only).
package main

import (
	"bufio"
	"fmt"
	"math"
	"os"
	"strings"

	"github.com/ctessum/geom"

	"verif/harness/vproto"
)

// ---- a small mutable tree mirroring the eight types -----------------------------------

const (
	kP = iota
	kMP
	kLS
	kMLS
	kPG
	kMPG
	kGC
	kB
	kLine // member of MLS
	kRing // member of PG
)

type node struct {
	kind int
	pts  []geom.Point
	kids []*node
}

func (n *node) clone() *node {
	c := &node{kind: n.kind, pts: append([]geom.Point(nil), n.pts...)}
	for _, k := range n.kids {
		c.kids = append(c.kids, k.clone())
	}
	return c
}

func paths(kids []*node) []geom.Path {
	r := make([]geom.Path, len(kids))
	for i, k := range kids {
		r[i] = append(geom.Path{}, k.pts...)
	}
	return r
}

func (n *node) geom() geom.Geom {
	switch n.kind {
	case kP:
		return n.pts[0]
	case kMP:
		return geom.MultiPoint(append([]geom.Point{}, n.pts...))
	case kLS, kLine:
		return geom.LineString(append([]geom.Point{}, n.pts...))
	case kMLS:
		m := make(geom.MultiLineString, len(n.kids))
		for i, k := range n.kids {
			m[i] = append(geom.LineString{}, k.pts...)
		}
		return m
	case kPG:
		return geom.Polygon(paths(n.kids))
	case kRing:
		return geom.Polygon{append(geom.Path{}, n.pts...)}
	case kMPG:
		m := make(geom.MultiPolygon, len(n.kids))
		for i, k := range n.kids {
			m[i] = geom.Polygon(paths(k.kids))
		}
		return m
	case kGC:
		m := make(geom.GeometryCollection, len(n.kids))
		for i, k := range n.kids {
			m[i] = k.geom()
		}
		return m
	case kB:
		return &geom.Bounds{Min: n.pts[0], Max: n.pts[1]}
	}
	panic("bad kind")
}

func (n *node) walk(f func(*node)) {
	f(n)
	for _, k := range n.kids {
		k.walk(f)
	}
}

func (n *node) collect(pred func(*node) bool) []*node {
	var r []*node
	n.walk(func(m *node) {
		if pred(m) {
			r = append(r, m)
		}
	})
	return r
}

func isContainer(n *node) bool {
	return n.kind == kMLS || n.kind == kPG || n.kind == kMPG || n.kind == kGC
}
func hasPts(n *node) bool { return !isContainer(n) }
func closed(n *node) bool {
	return n.kind == kRing && len(n.pts) >= 2 && n.pts[0] == n.pts[len(n.pts)-1]
}

// ---- generator state -------------------------------------------------------------------

type gctx struct {
	r      *vproto.Rng
	tol    float64
	dyadic bool
	// coarse: LARGE coordinates (2^24..2^40) on a 2^-10 lattice with a tiny tolerance (2^-30, 2^-20,
	// 1e-9): a-b is still exact (0 or a multiple of 2^-10) while a±tol is not representable
	coarse bool
	unit   float64
	// set once perturb() has run: later displacements must exceed tol + 63/64 tol
	perturbed bool
	cell      int
	ox, oy    float64
}

// lattice unit: the tolerance, except in coarse mode
func (g *gctx) u() float64 {
	if g.coarse {
		return g.unit
	}
	return g.tol
}

// every member (point list) lives in its own cell of 256 tol; vertices sit on a 16-tol lattice
func (g *gctx) newCell() (float64, float64) {
	c := g.cell
	g.cell++
	return g.ox + float64(c%64)*256*g.u(), g.oy + float64(c/64)*256*g.u()
}

func (g *gctx) lattice(n int) []geom.Point {
	x0, y0 := g.newCell()
	used := map[int]bool{}
	ps := make([]geom.Point, 0, n)
	for len(ps) < n {
		k := g.r.Intn(14 * 14)
		if used[k] && len(used) < 14*14 {
			continue
		}
		used[k] = true
		ps = append(ps, geom.Point{X: x0 + float64(k%14+1)*16*g.u(), Y: y0 + float64(k/14+1)*16*g.u()})
	}
	return ps
}

func (g *gctx) count() int {
	switch g.r.Intn(10) {
	case 0:
		return 0
	case 1, 2:
		return 1
	case 3, 4, 5:
		return 2
	case 6, 7:
		return 3
	default:
		return g.r.Range(1, 5)
	}
}

// ring: closed; 30% axis-aligned rectangle (two vertices tie at the minimum X), 10% near-tie
func (g *gctx) ring() *node {
	var cyc []geom.Point
	switch k := g.r.Intn(10); {
	case k < 3:
		x0, y0 := g.newCell()
		a, b := g.r.Range(1, 6), g.r.Range(8, 14)
		c, d := g.r.Range(1, 6), g.r.Range(8, 14)
		xa, xb := x0+float64(a)*16*g.u(), x0+float64(b)*16*g.u()
		ya, yb := y0+float64(c)*16*g.u(), y0+float64(d)*16*g.u()
		cyc = []geom.Point{{X: xa, Y: ya}, {X: xb, Y: ya}, {X: xb, Y: yb}, {X: xa, Y: yb}}
		if g.r.Bool() {
			cyc[1], cyc[3] = cyc[3], cyc[1]
		}
		k := g.r.Intn(4)
		cyc = append(cyc[k:], cyc[:k]...)
	case k == 3:
		cyc = g.lattice(g.r.Range(3, 6))
		// make the two lowest-X vertices differ by tol/2 only
		lo := 0
		for i, p := range cyc {
			if p.X < cyc[lo].X {
				lo = i
			}
		}
		o := (lo + 1 + g.r.Intn(len(cyc)-1)) % len(cyc)
		if !g.coarse {
			cyc[o].X = cyc[lo].X + g.tol/2
		}
		if cyc[o].Y == cyc[lo].Y {
			cyc[o].Y += 32 * g.u()
		}
	default:
		cyc = g.lattice(g.r.Range(3, 8))
	}
	return &node{kind: kRing, pts: append(cyc, cyc[0])}
}

func (g *gctx) line(kind int) *node { return &node{kind: kind, pts: g.lattice(g.r.Range(2, 6))} }

func (g *gctx) polygon() *node {
	n := &node{kind: kPG}
	for i, c := 0, g.count(); i < c; i++ {
		n.kids = append(n.kids, g.ring())
	}
	return n
}

// vertexless members are all similar to one another; a container gets at most one of them so
// that the matching stays unambiguous
func vertexless(n *node) bool {
	if len(n.pts) > 0 {
		return false
	}
	for _, k := range n.kids {
		if !vertexless(k) {
			return false
		}
	}
	return true
}

func hasVertexless(kids []*node) bool {
	for _, k := range kids {
		if vertexless(k) {
			return true
		}
	}
	return false
}

func atMostOneVertexless(n *node) bool {
	ok := true
	n.walk(func(m *node) {
		c := 0
		for _, k := range m.kids {
			if vertexless(k) {
				c++
			}
		}
		if c > 1 {
			ok = false
		}
	})
	return ok
}

func (g *gctx) base(kind, depth int) *node {
	n := g.base0(kind, depth)
	if n.kind == kMPG || n.kind == kGC {
		var kids []*node
		for _, k := range n.kids {
			if vertexless(k) && hasVertexless(kids) {
				continue
			}
			kids = append(kids, k)
		}
		n.kids = kids
	}
	return n
}

func (g *gctx) base0(kind, depth int) *node {
	switch kind {
	case kP:
		return &node{kind: kP, pts: g.lattice(1)}
	case kMP:
		return &node{kind: kMP, pts: g.lattice(g.count())}
	case kLS:
		return &node{kind: kLS, pts: g.lattice(g.count() + g.r.Intn(3))}
	case kMLS:
		n := &node{kind: kMLS}
		for i, c := 0, g.count(); i < c; i++ {
			n.kids = append(n.kids, g.line(kLine))
		}
		return n
	case kPG:
		return g.polygon()
	case kMPG:
		n := &node{kind: kMPG}
		for i, c := 0, g.count(); i < c; i++ {
			n.kids = append(n.kids, g.polygon())
		}
		return n
	case kGC:
		n := &node{kind: kGC}
		for i, c := 0, g.count(); i < c; i++ {
			k := g.r.Intn(8)
			if depth <= 0 && k == kGC {
				k = g.r.Intn(6)
			}
			n.kids = append(n.kids, g.base(k, depth-1))
		}
		return n
	default:
		ps := g.lattice(2)
		return &node{kind: kB, pts: ps}
	}
}

// ---- transformations -------------------------------------------------------------------

// perturbation strictly inside the tolerance: |d| <= 63/64 tol on dyadic grids (exact arithmetic),
// |d| <= 57/64 tol otherwise (rounding of a-b stays far from the comparison)
func (g *gctx) small() float64 {
	if g.coarse { // the lattice unit is far above tol: only the zero perturbation is < tol and exact
		return 0
	}
	m := 57
	if g.dyadic {
		m = 63
		if g.r.Intn(4) == 0 { // extremes often
			return float64(63*(1-2*g.r.Intn(2))) / 64 * g.tol
		}
	}
	return float64(g.r.Range(-m, m)) / 64 * g.tol
}

func (g *gctx) perturb(n *node) {
	g.perturbed = true
	n.walk(func(m *node) {
		cl := closed(m)
		for i := range m.pts {
			m.pts[i].X += g.small()
			m.pts[i].Y += g.small()
		}
		if cl && g.r.Bool() {
			m.pts[len(m.pts)-1] = m.pts[0]
		}
	})
}

func (g *gctx) permute(n *node) {
	n.walk(func(m *node) {
		for i := len(m.kids) - 1; i > 0; i-- {
			j := g.r.Intn(i + 1)
			m.kids[i], m.kids[j] = m.kids[j], m.kids[i]
		}
	})
}

func (g *gctx) rotate(n *node) {
	n.walk(func(m *node) {
		if closed(m) && len(m.pts) >= 3 {
			c := m.pts[:len(m.pts)-1]
			k := g.r.Intn(len(c))
			c = append(append([]geom.Point{}, c[k:]...), c[:k]...)
			m.pts = append(c, c[0])
		}
	})
}

func (g *gctx) pick(ns []*node) *node {
	if len(ns) == 0 {
		return nil
	}
	return ns[g.r.Intn(len(ns))]
}

// displacement clearly outside the tolerance
func (g *gctx) big() float64 {
	m := []float64{1.5, 2, 3, 10, 100, 65.0 / 64}[g.r.Intn(6)]
	if !g.dyadic && m < 1.5 {
		m = 1.5
	}
	if g.perturbed && m < 2 { // the vertex was already moved by up to 57/64 tol
		m = 2
	}
	if g.r.Bool() {
		m = -m
	}
	if g.coarse {
		return m * g.unit
	}
	return m * g.tol
}

func (g *gctx) displace(n *node) bool {
	m := g.pick(n.collect(func(m *node) bool { return hasPts(m) && len(m.pts) > 0 }))
	if m == nil {
		return false
	}
	i := g.r.Intn(len(m.pts))
	// rings are nominally closed (a perturbation may have made the closing vertex differ in the
	// last bits); the closing vertex is a duplicate of vertex 0, so displace vertex 0 instead
	cl := m.kind == kRing && len(m.pts) >= 2
	if cl && i == len(m.pts)-1 {
		i = 0
	}
	switch g.r.Intn(3) {
	case 0:
		m.pts[i].X += g.big()
	case 1:
		m.pts[i].Y += g.big()
	default:
		m.pts[i].X += g.big()
		m.pts[i].Y += g.big()
	}
	if cl && i == 0 && g.r.Bool() {
		m.pts[len(m.pts)-1] = m.pts[0]
	}
	return true
}

func (g *gctx) freshMember(parent *node) *node {
	for {
		m := g.freshMember0(parent)
		if !(vertexless(m) && hasVertexless(parent.kids)) {
			return m
		}
	}
}

func (g *gctx) freshMember0(parent *node) *node {
	switch parent.kind {
	case kMLS:
		return g.line(kLine)
	case kPG:
		return g.ring()
	case kMPG:
		return g.polygon()
	default:
		return g.base(g.r.Intn(8), 0)
	}
}

func (g *gctx) insertMember(n *node) bool {
	m := g.pick(n.collect(isContainer))
	if m == nil {
		return false
	}
	i := g.r.Intn(len(m.kids) + 1)
	if g.r.Intn(3) == 0 {
		i = len(m.kids)
	}
	k := g.freshMember(m)
	m.kids = append(m.kids[:i], append([]*node{k}, m.kids[i:]...)...)
	return true
}

func (g *gctx) deleteMember(n *node) bool {
	m := g.pick(n.collect(func(m *node) bool { return isContainer(m) && len(m.kids) > 0 }))
	if m == nil {
		return false
	}
	i := g.r.Intn(len(m.kids))
	if g.r.Bool() { // the shorter list is then a PREFIX of the longer one (re-slice layout in impl)
		i = len(m.kids) - 1
	}
	m.kids = append(m.kids[:i:i], m.kids[i+1:]...)
	return true
}

func (g *gctx) insertVertex(n *node) bool {
	m := g.pick(n.collect(func(m *node) bool { return hasPts(m) && m.kind != kP && m.kind != kB }))
	if m == nil {
		return false
	}
	i := g.r.Intn(len(m.pts) + 1)
	if g.r.Intn(3) == 0 {
		i = len(m.pts)
	}
	if closed(m) {
		i = g.r.Range(1, len(m.pts)-1)
	}
	v := g.lattice(1)[0]
	m.pts = append(m.pts[:i:i], append([]geom.Point{v}, m.pts[i:]...)...)
	return true
}

func (g *gctx) deleteVertex(n *node) bool {
	m := g.pick(n.collect(func(m *node) bool {
		return hasPts(m) && m.kind != kP && m.kind != kB && len(m.pts) > 0 && (!closed(m) || len(m.pts) >= 3)
	}))
	if m == nil {
		return false
	}
	i := g.r.Intn(len(m.pts))
	if g.r.Bool() {
		i = len(m.pts) - 1 // prefix of the original
	}
	if closed(m) {
		i = g.r.Range(1, len(m.pts)-2)
	}
	m.pts = append(m.pts[:i:i], m.pts[i+1:]...)
	return true
}

// a bit-identical copy of a vertex inserted right after it (consecutive duplicate): the vertex counts
// differ, so the statement says F although no "new" position appears (an implementation that
// normalises its operands — drops repeated points — before comparing answers T)
func (g *gctx) dupVertex(n *node) bool {
	m := g.pick(n.collect(func(m *node) bool { return hasPts(m) && m.kind != kP && m.kind != kB && len(m.pts) > 0 }))
	if m == nil {
		return false
	}
	i := g.r.Intn(len(m.pts))
	if g.r.Intn(3) == 0 {
		i = len(m.pts) - 1 // the original is then a PREFIX of the longer list
	}
	if closed(m) && i == len(m.pts)-1 {
		i = g.r.Intn(len(m.pts) - 1)
	}
	m.pts = append(m.pts[:i+1:i+1], m.pts[i:]...)
	return true
}

// an EMPTY member (line without points, ring without points, polygon without rings / with one empty
// ring, empty collection or multi-point) inserted: the member counts differ -> F. Only into a
// container that has no vertexless member yet (two of them would be candidates of each other).
func (g *gctx) insertEmptyMember(n *node) bool {
	m := g.pick(n.collect(func(m *node) bool { return isContainer(m) && !hasVertexless(m.kids) }))
	if m == nil {
		return false
	}
	var k *node
	switch m.kind {
	case kMLS:
		k = &node{kind: kLine}
	case kPG:
		k = &node{kind: kRing}
	case kMPG:
		k = &node{kind: kPG}
		if g.r.Bool() {
			k.kids = []*node{{kind: kRing}}
		}
	default:
		k = &node{kind: []int{kGC, kMP, kLS, kMLS, kPG, kMPG}[g.r.Intn(6)]}
	}
	i := g.r.Intn(len(m.kids) + 1)
	if g.r.Bool() {
		i = len(m.kids)
	}
	m.kids = append(m.kids[:i:i], append([]*node{k}, m.kids[i:]...)...)
	return true
}

func (g *gctx) reverseLine(n *node) bool {
	m := g.pick(n.collect(func(m *node) bool { return (m.kind == kLS || m.kind == kLine) && len(m.pts) >= 2 }))
	if m == nil {
		return false
	}
	for i, j := 0, len(m.pts)-1; i < j; i, j = i+1, j-1 {
		m.pts[i], m.pts[j] = m.pts[j], m.pts[i]
	}
	return true
}

// exchange two (distinct) vertices of one point list: multi-point, line string, line of a
// multi-line-string, or the cycle of a closed ring with at least three vertices (where a
// transposition is never a rotation). Point lists are compared position by position, so this
// displaces two vertices by a lattice step (>= 16 tol).
func (g *gctx) swapVertices(n *node) bool {
	m := g.pick(n.collect(func(m *node) bool {
		if !hasPts(m) || m.kind == kP || m.kind == kB {
			return false
		}
		if m.kind == kRing {
			return closed(m) && len(m.pts) >= 4
		}
		return len(m.pts) >= 2
	}))
	if m == nil {
		return false
	}
	k := len(m.pts)
	if m.kind == kRing {
		k--
	}
	i := g.r.Intn(k)
	j := (i + 1 + g.r.Intn(k-1)) % k
	// all vertices of the list pairwise at least 3 tol apart (near-tie rings have two vertices
	// tol/2 apart: exchanging around them can be a rotation within tol — false alarm seed 3)
	for x := 0; x < k; x++ {
		for y := x + 1; y < k; y++ {
			if math.Abs(m.pts[x].X-m.pts[y].X) < 3*g.u() && math.Abs(m.pts[x].Y-m.pts[y].Y) < 3*g.u() {
				return false
			}
		}
	}
	m.pts[i], m.pts[j] = m.pts[j], m.pts[i]
	if m.kind == kRing {
		m.pts[len(m.pts)-1] = m.pts[0]
	}
	return true
}

// move ALL vertices of one point list (a whole member, rigidly) by the same displacement
func (g *gctx) shiftMember(n *node) bool {
	m := g.pick(n.collect(func(m *node) bool { return hasPts(m) && len(m.pts) > 0 }))
	if m == nil {
		return false
	}
	dx, dy := g.big(), g.big()
	if g.r.Intn(3) == 0 {
		dx = 0
	}
	for i := range m.pts {
		m.pts[i].X += dx
		m.pts[i].Y += dy
	}
	return true
}

// rotating the start vertex is a documented reordering for the closed rings of a polygon ONLY: a
// line string / line of a multi-line-string / multi-point started at another vertex has (all of) its
// vertices displaced. closeLines makes every such point list with >= 3 vertices EXACTLY closed (first
// vertex appended), so that it looks like a ring; rotatePts rotates one of them (keeping it exactly
// closed when it was) by 1 <= k < n positions.
func isPtList(m *node) bool { return m.kind == kLS || m.kind == kLine || m.kind == kMP }

func (g *gctx) closeLines(n *node) bool {
	any := false
	n.walk(func(m *node) {
		if isPtList(m) && len(m.pts) >= 3 {
			m.pts = append(m.pts[:len(m.pts):len(m.pts)], m.pts[0])
			any = true
		}
	})
	return any
}

func (g *gctx) rotatePts(n *node) bool {
	m := g.pick(n.collect(func(m *node) bool { return isPtList(m) && len(m.pts) >= 2 }))
	if m == nil {
		return false
	}
	k := len(m.pts)
	cl := k >= 4 && m.pts[0] == m.pts[k-1]
	if cl {
		k--
	}
	cyc := m.pts[:k]
	// all vertices pairwise at least 3 lattice units apart in x or y: no rotation is within tol
	for x := 0; x < k; x++ {
		for y := x + 1; y < k; y++ {
			if math.Abs(cyc[x].X-cyc[y].X) < 3*g.u() && math.Abs(cyc[x].Y-cyc[y].Y) < 3*g.u() {
				return false
			}
		}
	}
	r := 1 + g.r.Intn(k-1)
	rot := append(append([]geom.Point{}, cyc[r:]...), cyc[:r]...)
	if cl {
		rot = append(rot, rot[0])
	}
	m.pts = rot
	return true
}

// exchange the two corners of a bounds value (its only "reordering")
func (g *gctx) swapBounds(n *node) bool {
	m := g.pick(n.collect(func(m *node) bool {
		return m.kind == kB && (math.Abs(m.pts[0].X-m.pts[1].X) >= 3*g.u() || math.Abs(m.pts[0].Y-m.pts[1].Y) >= 3*g.u())
	}))
	if m == nil {
		return false
	}
	m.pts[0], m.pts[1] = m.pts[1], m.pts[0]
	return true
}

func (g *gctx) reverseRing(n *node) bool {
	m := g.pick(n.collect(func(m *node) bool { return closed(m) && len(m.pts) >= 4 }))
	if m == nil {
		return false
	}
	for i, j := 0, len(m.pts)-1; i < j; i, j = i+1, j-1 {
		m.pts[i], m.pts[j] = m.pts[j], m.pts[i]
	}
	return true
}

// change the dynamic type of one node (same coordinates where possible)
func (g *gctx) changeType(n *node) bool {
	var cands []*node
	n.walk(func(m *node) {
		if m.kind != kLine && m.kind != kRing {
			cands = append(cands, m)
		}
		// polygons inside a multipolygon must stay polygons
	})
	// nodes that are polygon members of an MPG cannot change type: filter them out
	inMPG := map[*node]bool{}
	n.walk(func(m *node) {
		if m.kind == kMPG {
			for _, k := range m.kids {
				inMPG[k] = true
			}
		}
	})
	var ok []*node
	for _, c := range cands {
		if !inMPG[c] {
			ok = append(ok, c)
		}
	}
	m := g.pick(ok)
	if m == nil {
		return false
	}
	switch m.kind {
	case kP:
		m.kind = kMP
	case kMP:
		m.kind = kLS
	case kLS:
		m.kind = kMP
	case kMLS:
		m.kind = kPG
		for _, k := range m.kids {
			k.kind = kRing
		}
	case kPG:
		if g.r.Bool() {
			m.kind = kMLS
			for _, k := range m.kids {
				k.kind = kLine
			}
		} else {
			c := &node{kind: kPG, kids: m.kids}
			m.kind, m.kids = kMPG, []*node{c}
		}
	case kMPG:
		c := m.clone()
		m.kind, m.kids = kGC, []*node{c}
	case kGC:
		if len(m.kids) == 1 && m != n && false {
			return false
		}
		c := m.clone()
		m.kind, m.kids = kGC, []*node{c}
		if g.r.Bool() {
			m.kind, m.kids, m.pts = kMP, nil, nil
		}
	case kB:
		if g.r.Bool() {
			m.kind = kMP
		} else {
			m.kind = kLS
		}
	}
	return true
}

// two polygons that are members of the same multi-polygon or collection
func (g *gctx) siblingPolygons(n *node) (p, q *node) {
	type pair struct{ p, q *node }
	var ps []pair
	n.walk(func(m *node) {
		if m.kind != kMPG && m.kind != kGC {
			return
		}
		for i, a := range m.kids {
			for j, b := range m.kids {
				if i != j && a.kind == kPG && b.kind == kPG {
					ps = append(ps, pair{a, b})
				}
			}
		}
	})
	if len(ps) == 0 {
		return nil, nil
	}
	c := ps[g.r.Intn(len(ps))]
	return c.p, c.q
}

// move one ring of a member polygon to a sibling polygon: same polygon count, same rings in
// total, different owner (not a mere reordering: excluded when it only swaps {r} with {})
func (g *gctx) moveRing(n *node) bool {
	p, q := g.siblingPolygons(n)
	if p == nil || len(p.kids) == 0 || (len(p.kids) == 1 && len(q.kids) == 0) {
		return false
	}
	i := g.r.Intn(len(p.kids))
	r := p.kids[i]
	p.kids = append(p.kids[:i:i], p.kids[i+1:]...)
	j := g.r.Intn(len(q.kids) + 1)
	q.kids = append(q.kids[:j:j], append([]*node{r}, q.kids[j:]...)...)
	return true
}

// exchange one ring each between two sibling polygons (ring counts of all members unchanged)
func (g *gctx) swapRings(n *node) bool {
	p, q := g.siblingPolygons(n)
	if p == nil || len(p.kids) == 0 || len(q.kids) == 0 || (len(p.kids) == 1 && len(q.kids) == 1) {
		return false
	}
	i, j := g.r.Intn(len(p.kids)), g.r.Intn(len(q.kids))
	p.kids[i], q.kids[j] = q.kids[j], p.kids[i]
	return true
}

// a multi-polygon (or a collection of polygons, or a collection holding the multi-polygon) whose
// member polygons have 1..3 rings each
func (g *gctx) ringOwners(kind int) *node {
	mk := func(k int) *node {
		n := &node{kind: k}
		for i, c := 0, g.r.Range(2, 3); i < c; i++ {
			pg := &node{kind: kPG}
			for j, d := 0, g.r.Range(1, 3); j < d; j++ {
				pg.kids = append(pg.kids, g.ring())
			}
			n.kids = append(n.kids, pg)
		}
		return n
	}
	switch kind {
	case 0:
		return mk(kMPG)
	case 1:
		return mk(kGC)
	default:
		return &node{kind: kGC, kids: []*node{g.base(kP, 0), mk(kMPG), g.base(kLS, 0)}}
	}
}

func (g *gctx) duplicateMember(n *node) bool {
	m := g.pick(n.collect(func(m *node) bool { return isContainer(m) && len(m.kids) > 0 }))
	if m == nil {
		return false
	}
	k := m.kids[g.r.Intn(len(m.kids))].clone()
	i := g.r.Intn(len(m.kids) + 1)
	m.kids = append(m.kids[:i:i], append([]*node{k}, m.kids[i:]...)...)
	return true
}

// ---- rings that visit a vertex twice, every pair of start vertices ----------------------------

func closeRing(c []geom.Point, k int) *node {
	r := append(append([]geom.Point{}, c[k:]...), c[:k]...)
	return &node{kind: kRing, pts: append(r, r[0])}
}

// call = index of this call within the run: every call covers a third of the start-vertex pairs
// (i,j), rotating, so that ALL pairs are covered every three calls (~100 times per quick run)
func (g *gctx) pinchedCases(out *bufio.Writer, call int) {
	v := g.lattice(6)
	P := v[0]
	P2 := P
	if g.r.Bool() { // second visit within tol/4 of the first instead of bit-identical
		if !g.coarse {
			P2 = geom.Point{X: P.X + g.tol/4, Y: P.Y - g.tol/4}
		}
	}
	var cyc []geom.Point
	switch g.r.Intn(3) {
	case 0:
		cyc = []geom.Point{P, v[1], v[2], P2, v[3], v[4]} // two triangles sharing P
	case 1:
		cyc = []geom.Point{P, v[1], P2, v[2], P, v[3]} // three visits
	default:
		cyc = []geom.Point{v[1], P, v[2], v[3], v[4], P2, v[5]}
	}
	pert := append([]geom.Point{}, cyc...)
	if g.r.Bool() {
		for i := range pert {
			pert[i].X += g.small() / 2
			pert[i].Y += g.small() / 2
		}
	}
	disp := append([]geom.Point{}, pert...)
	di := g.r.Intn(len(disp))
	for disp[di] == P || disp[di] == P2 || (di < len(cyc) && (cyc[di] == P || cyc[di] == P2)) {
		di = (di + 1) % len(disp)
	}
	disp[di].Y += 3 * g.u()
	other, other2 := g.ring(), g.ring()
	for i := range cyc {
		for j := range cyc {
			sel := i*len(cyc) + j + call
			if sel%3 != 0 {
				continue
			}
			a, b := closeRing(cyc, i), closeRing(pert, j)
			emit(out, "pinch:T", g.tol, (&node{kind: kPG, kids: []*node{a}}).geom(), (&node{kind: kPG, kids: []*node{b}}).geom())
			if sel%9 == 0 { // as a hole next to other rings, and inside a multi-polygon / collection
				pa := &node{kind: kPG, kids: []*node{other.clone(), a}}
				pb := &node{kind: kPG, kids: []*node{b, other.clone()}}
				emit(out, "pinch:T", g.tol, pa.geom(), pb.geom())
				q := &node{kind: kPG, kids: []*node{other2.clone()}}
				emit(out, "pinch:T", g.tol, (&node{kind: kMPG, kids: []*node{q, pa}}).geom(), (&node{kind: kMPG, kids: []*node{pb, q.clone()}}).geom())
				emit(out, "pinch:T", g.tol, (&node{kind: kGC, kids: []*node{pa, q}}).geom(), (&node{kind: kGC, kids: []*node{q.clone(), pb}}).geom())
			}
			if (sel/3)%2 == 0 {
				c := closeRing(disp, j)
				emit(out, "pinchd:F", g.tol, (&node{kind: kPG, kids: []*node{a}}).geom(), (&node{kind: kPG, kids: []*node{c}}).geom())
			}
		}
	}
}

// ---- member / vertex counts around 64, 128, 129, 1024, 1025 ----------------------------------

// n distinct vertices (distinct X) on a fresh row of cells
func (g *gctx) bigPts(n int) []geom.Point {
	row := g.cell/64 + 1
	g.cell = (row + 2) * 64
	x0, y0 := g.ox, g.oy+float64(row)*256*g.u()
	ps := make([]geom.Point, n)
	for t := range ps {
		ps[t] = geom.Point{X: x0 + float64(t+1)*16*g.u(), Y: y0 + float64((t*7)%13+1)*16*g.u()}
	}
	return ps
}

func (g *gctx) bigCases(out *bufio.Writer, huge bool) {
	emitAll := func(a *node) {
		ag := a.geom()
		do := func(tag string, f func(b *node) bool) {
			g.perturbed = false
			b := a.clone()
			if f(b) {
				emit(out, tag, g.tol, ag, b.geom())
			}
		}
		do("same:T", func(b *node) bool { return true })
		do("combo:T", func(b *node) bool { g.permute(b); g.rotate(b); g.perturb(b); return true })
		do("displace:F", g.displace)
		do("vdelete:F", g.deleteVertex)
		do("vdup:F", g.dupVertex)
		do("vswap:F", g.swapVertices)
		// one vertex displaced at chosen positions of the longest point list (second, third, middle,
		// middle+1, last-but-one, last of the cycle): odd and even indices, both ends
		long := a
		a.walk(func(m *node) {
			if hasPts(m) && len(m.pts) > len(long.pts) {
				long = m
			}
		})
		if k := len(long.pts); k >= 64 {
			path := a.collect(func(m *node) bool { return true })
			li := 0
			for i, m := range path {
				if m == long {
					li = i
				}
			}
			for _, idx := range []int{1, 2, k / 2, k/2 + 1, k - 3, k - 2} {
				idx := idx
				do("displace:F", func(b *node) bool {
					m := b.collect(func(m *node) bool { return true })[li]
					if g.r.Bool() {
						m.pts[idx].X += g.big()
					} else {
						m.pts[idx].Y += g.big()
					}
					return true
				})
			}
		}
		do("delete:F", g.deleteMember)
		do("insert:F", g.insertMember)
	}
	ns := []int{64, 128, 129}
	for _, n := range ns {
		emitAll(&node{kind: kLS, pts: g.bigPts(n)})
		emitAll(&node{kind: kMP, pts: g.bigPts(n)})
		r := g.bigPts(n)
		emitAll(&node{kind: kPG, kids: []*node{{kind: kRing, pts: append(r, r[0])}, g.ring()}})
		mls, pg, gc := &node{kind: kMLS}, &node{kind: kPG}, &node{kind: kGC}
		for i := 0; i < n; i++ {
			mls.kids = append(mls.kids, g.line(kLine))
			pg.kids = append(pg.kids, &node{kind: kRing, pts: func() []geom.Point { c := g.lattice(3); return append(c, c[0]) }()})
			gc.kids = append(gc.kids, &node{kind: kP, pts: g.lattice(1)})
		}
		emitAll(mls)
		emitAll(pg)
		emitAll(gc)
	}
	for _, n := range []int{1024, 1025, 2048} {
		emitAll(&node{kind: kLS, pts: g.bigPts(n)})
		emitAll(&node{kind: kMP, pts: g.bigPts(n)})
	}
	if huge {
		r := g.bigPts(1025)
		emitAll(&node{kind: kPG, kids: []*node{{kind: kRing, pts: append(r, r[0])}}})
		// (member lists stop at 129: the specification's backtracking search copies the remaining
		// members at every level, O(n^3) for n members)
	}
}

// ---- repeated members at member counts around and above 64 / 128 -------------------------------
//
// Every member-list type (lines of a multi-line-string, rings of a polygon, polygons of a
// multi-polygon, rings of ONE member polygon of a multi-polygon, members of a collection: points /
// mixed types) with n members of which two (or three) are bit-identical copies of one member, the
// copies sitting at chosen positions (both late, one early + one late, straddling 63|64, both early
// as a control). B is A with
//
//	dupsame/dupcombo:T   nothing / members permuted, rings rotated, every coordinate perturbed < tol
//	dupdisp:F            one vertex of ONE copy displaced (>= 1.5 tol), the other copy kept; also
//	                     permuted + perturbed, and with the kept copy moved to the last position
//	dupswap:F            another member replaced by a further copy of the repeated member (same
//	                     counts, different multiset)
//
// Copies of one member are not "distinct members": the pair is inside the property's quantifier
// (Spec.blockSeparated) and the expected answer is the specification's. An implementation that
// tracks "already matched" members in a fixed-width word / small table answers T for dupdisp or
// dupswap in one call direction once the member count exceeds its width.
func (g *gctx) dupMember(kind int) *node {
	for {
		var m *node
		switch kind {
		case 0:
			m = g.line(kLine)
		case 1, 3:
			if g.r.Bool() {
				c := g.lattice(3)
				m = &node{kind: kRing, pts: append(c, c[0])}
			} else {
				m = g.ring()
			}
		case 2:
			m = &node{kind: kPG}
			for i, c := 0, g.r.Range(1, 2); i < c; i++ {
				m.kids = append(m.kids, g.ring())
			}
		case 4:
			m = &node{kind: kP, pts: g.lattice(1)}
		default:
			m = g.base(g.r.Intn(8), 0)
		}
		if !vertexless(m) {
			return m
		}
	}
}

func (g *gctx) dupBigCases(out *bufio.Writer, kind, n int, brief bool) {
	ckind := []int{kMLS, kPG, kMPG, kPG, kGC, kGC}[kind]
	// wrap: the member list under test is the geometry itself, or (kind 3) the ring list of the
	// second polygon of a three-member multi-polygon
	var sibl, sibr *node
	if kind == 3 {
		sibl, sibr = g.dupMember(2), g.dupMember(2)
	}
	wrap := func(c *node) geom.Geom {
		if kind == 3 {
			return (&node{kind: kMPG, kids: []*node{sibl, c, sibr}}).geom()
		}
		return c.geom()
	}
	others := make([]*node, 0, n)
	for len(others) < n-1 {
		others = append(others, g.dupMember(kind))
	}
	type pos struct{ i, j int }
	// both copies last; one early (below 64) + one last; straddling 63|64
	ps := []pos{{n - 2, n - 1}, {g.r.Intn(min(n-1, 64)), n - 1}}
	if n > 65 {
		ps = append(ps, pos{63, 64})
	}
	if brief { // both copies last only (the kept copy is then beyond every threshold below n-1)
		ps = ps[:1]
	}
	for vi, p := range ps {
		if p.i >= p.j {
			continue
		}
		// A: others[0..n-2) in order, others[n-2] (= m) at i and its copy at j
		m := others[n-2]
		a := &node{kind: ckind}
		k := 0
		for t := 0; t < n; t++ {
			switch t {
			case p.i:
				a.kids = append(a.kids, m.clone())
			case p.j:
				a.kids = append(a.kids, m.clone())
			default:
				a.kids = append(a.kids, others[k].clone())
				k++
			}
		}
		ag := wrap(a)
		do := func(tag string, f func(b *node) bool) {
			g.perturbed = false
			b := a.clone()
			if f(b) {
				emit(out, tag, g.tol, ag, wrap(b))
			}
		}
		if vi == 0 {
			do("dupsame:T", func(b *node) bool { return true })
			do("dupcombo:T", func(b *node) bool { g.permute(b); g.rotate(b); g.perturb(b); return true })
		}
		do("dupdisp:F", func(b *node) bool { return g.displace(b.kids[p.j]) })
		do("dupdisp:F", func(b *node) bool { return g.displace(b.kids[p.i]) })
		if vi >= 2 {
			continue
		}
		do("dupdisp:F", func(b *node) bool { // both copies anywhere
			if !g.displace(b.kids[p.j]) {
				return false
			}
			g.permute(b)
			return true
		})
		do("dupdisp:F", func(b *node) bool {
			g.rotate(b)
			g.perturb(b)
			w := []int{p.i, p.j}[g.r.Intn(2)]
			if !g.displace(b.kids[w]) {
				return false
			}
			// the kept copy goes to the last position, the displaced one to a random place
			keep := p.i + p.j - w
			b.kids[keep], b.kids[n-1] = b.kids[n-1], b.kids[keep]
			if w == n-1 {
				w = keep
			}
			t := g.r.Intn(n - 1)
			b.kids[w], b.kids[t] = b.kids[t], b.kids[w]
			return true
		})
		do("dupswap:F", func(b *node) bool {
			t := g.r.Intn(n)
			for t == p.i || t == p.j {
				t = g.r.Intn(n)
			}
			b.kids[t] = m.clone()
			if g.r.Bool() {
				g.permute(b)
				g.perturb(b)
			}
			return true
		})
		if vi == 0 && !brief { // three copies, one of them displaced
			t := g.r.Intn(n)
			for t == p.i || t == p.j {
				t = g.r.Intn(n)
			}
			a3 := a.clone()
			a3.kids[t] = m.clone()
			for _, w := range []int{t, p.i, p.j} {
				g.perturbed = false
				b := a3.clone()
				if g.r.Bool() {
					g.perturb(b)
				}
				if g.displace(b.kids[w]) {
					emit(out, "dupdisp:F", g.tol, wrap(a3), wrap(b))
				}
			}
		}
	}
}

// ---- emitting --------------------------------------------------------------------------

// concEvery > 0: every concEvery-th emitted pair is emitted a second time as a concurrent-callers
// line (tag prefix "conc-", see conc.go)
var concEvery, concCount int

func emit(out *bufio.Writer, tag string, tol float64, a, b geom.Geom) {
	fmt.Fprintf(out, "sim %s %s %s | %s\n", tag, vproto.F2H(tol), vproto.GeomToks(a), vproto.GeomToks(b))
	if concEvery > 0 {
		concCount++
		if concCount%concEvery == 0 {
			fmt.Fprintf(out, "sim conc-%s %s %s | %s\n", tag, vproto.F2H(tol), vproto.GeomToks(a), vproto.GeomToks(b))
		}
	}
}

func sq(x0, y0, s float64) geom.Path {
	return geom.Path{{X: x0, Y: y0}, {X: x0 + s, Y: y0}, {X: x0 + s, Y: y0 + s}, {X: x0, Y: y0 + s}, {X: x0, Y: y0}}
}

func corpus(out *bufio.Writer) {
	P := func(x, y float64) geom.Point { return geom.Point{X: x, Y: y} }
	s := sq(0, 0, 1)
	// DESIGN 1.1: extra ring on the argument side
	emit(out, "insert:F", 0.1, geom.Polygon{s}, geom.Polygon{s, sq(5, 5, 1)})
	emit(out, "insert:F", 0.125, geom.MultiLineString{{P(0, 0), P(1, 1)}}, geom.MultiLineString{{P(0, 0), P(1, 1)}, {P(5, 5), P(6, 6)}})
	emit(out, "insert:F", 0.125, geom.MultiPolygon{{s}}, geom.MultiPolygon{{s}, {sq(5, 5, 1)}})
	emit(out, "insert:F", 0.125, geom.GeometryCollection{P(0, 0)}, geom.GeometryCollection{P(0, 0), P(9, 9)})
	emit(out, "insert:F", 0.125, geom.GeometryCollection{}, geom.GeometryCollection{P(9, 9)})
	emit(out, "insert:F", 0.125, geom.Polygon{}, geom.Polygon{s})
	// DESIGN 1.1: anchor tie
	s2 := sq(0, 0, 1)
	s2[3].X = 0.001
	emit(out, "tie:T", 0.01, geom.Polygon{s}, geom.Polygon{s2})
	s3 := sq(0, 0, 1)
	s3[3].X = -0.001
	emit(out, "tie:T", 0.01, geom.Polygon{s}, geom.Polygon{s3})
	s4 := sq(0, 0, 1)
	s4[3].X = -0.0078125
	emit(out, "tie:T", 0.015625, geom.Polygon{s}, geom.Polygon{s4})
	// rotation of a closed ring
	rot := geom.Path{s[2], s[3], s[0], s[1], s[2]}
	emit(out, "rotate:T", 0.125, geom.Polygon{s}, geom.Polygon{rot})
	// reversed line, reversed ring
	emit(out, "reverse:F", 0.125, geom.LineString{P(0, 0), P(1, 0), P(2, 5)}, geom.LineString{P(2, 5), P(1, 0), P(0, 0)})
	emit(out, "rreverse:?", 0.125, geom.Polygon{s}, geom.Polygon{geom.Path{s[0], s[3], s[2], s[1], s[0]}})
	// a closed LINE started at another vertex is not a documented reordering (rings of polygons only)
	cl := geom.LineString{P(0, 0), P(4, 0), P(4, 4), P(0, 4), P(0, 0)}
	cr := geom.LineString{P(4, 4), P(0, 4), P(0, 0), P(4, 0), P(4, 4)}
	emit(out, "lrotate:F", 0.125, cl, cr)
	emit(out, "lrotate:F", 0.125, geom.MultiLineString{cl}, geom.MultiLineString{cr})
	emit(out, "lrotate:F", 0.125, geom.GeometryCollection{cl}, geom.GeometryCollection{cr})
	emit(out, "lrotate:F", 0.125, geom.MultiPoint(cl), geom.MultiPoint(cr))
	emit(out, "rotate:T", 0.125, geom.Polygon{geom.Path(cl)}, geom.Polygon{geom.Path(cr)})
	// exactly tol apart: strict comparison
	emit(out, "boundary:?", 0.5, P(0, 0), P(0.5, 0))
	emit(out, "boundary:?", 0.5, P(0, 0), P(0, -0.5))
	emit(out, "perturb:T", 0.5, P(0, 0), P(0.4375, -0.4375))
	// the last double below tol / the first above it (one operand 0, so that a-b is exact): "perturbed
	// by less than tol" is true up to pred(tol), "displaced by more than tol" from succ(tol) on
	for _, tol := range []float64{0.5, 0.1, 1.0 / (1 << 30), 3, 1 << 30,
		math.Ldexp(1, -52), math.Ldexp(1, -53), 1e-16, math.Ldexp(1, -60), 1e-19, math.Ldexp(1, -900), math.Ldexp(1, 900),
		math.Ldexp(1, -1060), math.Ldexp(1, 1000)} {
		lo, hi := math.Nextafter(tol, 0), math.Nextafter(tol, math.Inf(1))
		emit(out, "perturb:T", tol, P(0, 0), P(lo, 0))
		emit(out, "perturb:T", tol, P(0, -lo), P(0, 0))
		emit(out, "perturb:T", tol, P(0, 0), P(-lo, lo))
		emit(out, "displace:F", tol, P(0, 0), P(hi, 0))
		emit(out, "displace:F", tol, P(0, hi), P(0, 0))
		emit(out, "displace:F", tol, P(0, 0), P(lo, -hi))
		z := P(0, 0)
		emit(out, "perturb:T", tol, geom.LineString{z, z, z}, geom.LineString{z, P(lo, -lo), z})
		emit(out, "displace:F", tol, geom.LineString{z, z, z}, geom.LineString{z, P(lo, -hi), z})
		emit(out, "perturb:T", tol, geom.MultiPoint{z, z}, geom.MultiPoint{P(-lo, 0), P(0, lo)})
		emit(out, "perturb:T", tol, &geom.Bounds{Min: z, Max: z}, &geom.Bounds{Min: P(-lo, -lo), Max: P(lo, lo)})
		emit(out, "displace:F", tol, &geom.Bounds{Min: z, Max: z}, &geom.Bounds{Min: P(-lo, -lo), Max: P(lo, hi)})
		emit(out, "perturb:T", tol, geom.Polygon{{z, P(0, 8*tol), P(8*tol, 0), z}}, geom.Polygon{{P(lo, 0), P(0, 8*tol), P(8*tol, 0), P(lo, 0)}})
		emit(out, "displace:F", tol, geom.Polygon{{z, P(0, 8*tol), P(8*tol, 0), z}}, geom.Polygon{{P(hi, 0), P(0, 8*tol), P(8*tol, 0), P(hi, 0)}})
	}
	// empties and tiny rings
	emit(out, "edge:?", 0.5, geom.Polygon{{}}, geom.Polygon{{}})
	emit(out, "edge:?", 0.5, geom.Polygon{{P(1, 1)}}, geom.Polygon{{P(1, 1)}})
	emit(out, "edge:?", 0.5, geom.Polygon{{P(1, 1), P(1, 1)}}, geom.Polygon{{P(1, 1), P(1, 1)}})
	emit(out, "edge:?", 0.5, geom.Polygon{{P(1, 1), P(0, 0)}}, geom.Polygon{{P(1, 1), P(0, 0)}})
	emit(out, "edge:?", 0.5, geom.Polygon{{P(1, 1), P(2, 2), P(0, 0)}}, geom.Polygon{{P(1, 1), P(2, 2), P(0, 0)}})
	emit(out, "edge:?", 0.5, geom.Polygon{{P(1, 1), P(2, 2), P(3, 0), P(0, 0)}}, geom.Polygon{{P(1, 1), P(2, 2), P(3, 0), P(0, 0)}})
	emit(out, "edge:?", 0.5, geom.Polygon{{P(1, 1), P(2, 2), P(3, 0), P(1, 1)}}, geom.Polygon{{P(1, 1), P(2, 2), P(3, 0), P(9, 9)}})
	emit(out, "edge:?", 0.5, geom.Polygon{{P(1, 1), P(0, 0)}}, geom.Polygon{{P(1, 1), P(5, 5)}})
	emit(out, "edge:?", 0.5, geom.Polygon{{P(1, 1), P(2, 2), P(0, 0)}}, geom.Polygon{{P(2, 2), P(1, 1), P(7, 7)}})
	emit(out, "edge:?", 0.5, geom.MultiPoint{}, geom.MultiPoint{})
	emit(out, "edge:?", 0.5, geom.LineString{}, geom.LineString{})
	emit(out, "edge:?", 0.5, geom.MultiLineString{}, geom.MultiLineString{})
	emit(out, "edge:?", 0.5, geom.MultiLineString{{}}, geom.MultiLineString{{}})
	emit(out, "edge:?", 0.5, geom.MultiLineString{{}, {}}, geom.MultiLineString{{}})
	emit(out, "edge:?", 0.5, geom.MultiPolygon{{}}, geom.MultiPolygon{{}})
	emit(out, "edge:?", 0.5, geom.MultiPolygon{{}, {{}}}, geom.MultiPolygon{{{}}, {}})
	emit(out, "edge:?", 0.5, geom.GeometryCollection{}, geom.GeometryCollection{})
	emit(out, "edge:?", 0.5, geom.GeometryCollection{geom.GeometryCollection{}}, geom.GeometryCollection{geom.GeometryCollection{}})
	emit(out, "type:F", 0.5, geom.LineString{P(0, 0), P(1, 1)}, geom.MultiPoint{P(0, 0), P(1, 1)})
	emit(out, "type:F", 0.5, geom.Polygon{}, geom.MultiLineString{})
	emit(out, "type:F", 0.5, &geom.Bounds{Min: P(0, 0), Max: P(1, 1)}, geom.MultiPoint{P(0, 0), P(1, 1)})
	emit(out, "perturb:T", 0.5, &geom.Bounds{Min: P(0, 0), Max: P(1, 1)}, &geom.Bounds{Min: P(0.25, 0), Max: P(1, 0.75)})
	// non-separated: greedy choice matters (members within tol of each other)
	emit(out, "unsep:?", 1, geom.MultiLineString{{P(0, 0)}, {P(0.5, 0)}}, geom.MultiLineString{{P(0.75, 0)}, {P(-0.25, 0)}})
	emit(out, "unsep:?", 1, geom.MultiLineString{{P(0, 0)}, {P(0.5, 0)}}, geom.MultiLineString{{P(1.25, 0)}, {P(0.75, 0)}})
	emit(out, "unsep:?", 1, geom.GeometryCollection{P(0, 0), P(0.5, 0)}, geom.GeometryCollection{P(1.25, 0), P(0.75, 0)})
	emit(out, "unsep:?", 1, geom.Polygon{{P(0, 0)}, {P(0.5, 0)}, {P(0.5, 0)}}, geom.Polygon{{P(0.25, 0)}, {P(0.75, 0)}, {P(1.25, 0)}})
}

// nil interface values as operands and as members of collections (outside the property's eight
// types): what the code does — panic exactly when the loops reach a nil RECEIVER member, `false`
// for a nil argument — is compared with the fault model simE of Model.lean.
func nilCases(out *bufio.Writer, g *gctx) {
	type GC = geom.GeometryCollection
	mk := func() []geom.Geom {
		var ms []geom.Geom
		for k := 0; k < 8; k++ {
			ms = append(ms, g.base(k, 1).geom())
		}
		return ms
	}
	ms := mk()
	e := func(a, b geom.Geom) { // not through emit: no conc- copies of these lines
		fmt.Fprintf(out, "sim nilm:? %s %s | %s\n", vproto.F2H(g.tol), vproto.GeomToks(a), vproto.GeomToks(b))
	}
	for _, m := range ms {
		e(nil, m) // nil receiver panics; nil argument: default branch of the type switch
		e(GC{m}, GC{nil})
		e(GC{m, nil}, GC{nil, m})
		e(GC{nil, m}, GC{m, nil})
		e(GC{m, nil}, GC{m})            // count check answers before any member is touched
		e(GC{ms[0], nil}, GC{m, ms[1]}) // an earlier member may be unmatched before the nil is reached
		e(GC{GC{nil}}, GC{GC{m}})
		e(GC{m, GC{m, nil}}, GC{GC{nil, m}, m})
	}
	e(nil, nil)
	e(GC{nil}, GC{nil})
	e(GC{nil, nil}, GC{nil, nil})
	e(GC{GC{}, nil}, GC{nil, GC{}})
}

func gen(seed uint64, tier string) {
	out := bufio.NewWriterSize(os.Stdout, 1<<20)
	defer out.Flush()
	// vproto.NewRng(seed) starts seed k+1 one draw after seed k (same stream, shifted); scramble the
	// seed first so that different VERIF_SEEDs give unrelated streams
	z := (seed + 0x632BE59BD9B4E019) * 0xD1342543DE82EF95
	z ^= z >> 29
	r := vproto.NewRng(z*0xBF58476D1CE4E5B9 + seed)
	corpus(out)
	concEvery = 1499
	n := 2500
	if tier == "thorough" {
		n = 40000
	}
	dy := []float64{1, 0.5, 0.25, 0.0625, 0.0078125, 0.0009765625, 4,
		1.0 / (1 << 20), 1.0 / (1 << 30), 1 << 20, 1 << 30} // dyadic scaling keeps a-b exact
	nd := []float64{0.1, 0.01, 1e-9, 3}
	// far below the float64 resolution of 1 (2^-52) and far above its integer range (2^53): "a positive
	// tolerance" has no scale; dyadic scaling keeps every a-b exact down to 2^-906 (subnormals start at 2^-1022)
	dyx := []float64{math.Ldexp(1, -53), math.Ldexp(1, -60), math.Ldexp(1, -100), math.Ldexp(1, -500), math.Ldexp(1, -900),
		math.Ldexp(1, 60), math.Ldexp(1, 500), math.Ldexp(1, 900),
		// tol/64 = 2^-1066 is subnormal (a multiple of 2^-1074: still exact); 2^1000 * 2^16 stays below 2^1024
		math.Ldexp(1, -1060), math.Ldexp(1, 1000)}
	ndx := []float64{1e-16, 1e-19, 1e-30, 1e-200, 1e25}
	bigCalls := 0
	for it := 0; it < n; it++ {
		g := &gctx{r: r, dyadic: it%5 != 4}
		if g.dyadic {
			g.tol = dy[r.Intn(len(dy))]
			if it%12 == 2 {
				g.tol = dyx[r.Intn(len(dyx))]
			}
			g.ox, g.oy = float64(r.Range(-40, 40))*64*g.tol, float64(r.Range(-40, 40))*64*g.tol
		} else {
			g.tol = nd[r.Intn(len(nd))]
			if it%15 == 4 {
				g.tol = ndx[r.Intn(len(ndx))]
			}
			g.ox, g.oy = float64(r.Range(-40, 40))*64.3*g.tol, float64(r.Range(-40, 40))*63.7*g.tol
		}
		if it%7 == 3 {
			g.coarse, g.dyadic, g.unit = true, true, 1.0/1024
			g.tol = []float64{1.0 / (1 << 30), 1.0 / (1 << 20), 1e-9, 1e-9}[r.Intn(4)]
			mag := float64(uint64(1) << uint(r.Range(24, 40)))
			g.ox = (mag + float64(r.Range(0, 1<<20))/1024) * float64(1-2*r.Intn(2))
			g.oy = (mag/2 + float64(r.Range(0, 1<<20))/1024) * float64(1-2*r.Intn(2))
		}
		kind := it % 8
		a := g.base(kind, 2)
		ag := a.geom()
		do := func(tag string, f func(b *node) bool) {
			g.perturbed = false
			b := a.clone()
			if f(b) && (tag == "dup:?" || atMostOneVertexless(b)) {
				emit(out, tag, g.tol, ag, b.geom())
			}
		}
		do("same:T", func(b *node) bool { return true })
		do("perturb:T", func(b *node) bool { g.perturb(b); return true })
		do("permute:T", func(b *node) bool { g.permute(b); return true })
		do("rotate:T", func(b *node) bool { g.rotate(b); return true })
		do("combo:T", func(b *node) bool { g.permute(b); g.rotate(b); g.perturb(b); return true })
		do("reverse:F", g.reverseLine)
		do("rreverse:?", g.reverseRing)
		do("displace:F", g.displace)
		do("displace:F", func(b *node) bool { g.permute(b); g.rotate(b); g.perturb(b); return g.displace(b) })
		do("insert:F", g.insertMember)
		do("delete:F", g.deleteMember)
		do("insert:F", func(b *node) bool { g.permute(b); g.perturb(b); return g.insertMember(b) })
		do("vinsert:F", g.insertVertex)
		do("vdelete:F", g.deleteVertex)
		do("vdup:F", g.dupVertex)
		do("vdup:F", func(b *node) bool { g.permute(b); g.rotate(b); g.perturb(b); return g.dupVertex(b) })
		do("insert:F", g.insertEmptyMember)
		do("insert:F", func(b *node) bool { g.permute(b); g.perturb(b); return g.insertEmptyMember(b) })
		do("type:F", g.changeType)
		do("mshift:F", g.shiftMember)
		do("mshift:F", func(b *node) bool { g.permute(b); g.rotate(b); g.perturb(b); return g.shiftMember(b) })
		do("vswap:F", g.swapVertices)
		do("vswap:F", func(b *node) bool {
			if !g.swapVertices(b) {
				return false
			}
			g.permute(b)
			g.rotate(b)
			g.perturb(b)
			return true
		})
		do("ringmove:F", g.moveRing)
		do("ringswap:F", g.swapRings)
		do("ringmove:F", func(b *node) bool { g.permute(b); g.rotate(b); g.perturb(b); return g.moveRing(b) })
		// reorderings that are documented for ANOTHER type only: start vertex of a line / multi-point
		// rotated (open lists here, exactly closed ones below), corners of a bounds exchanged
		do("lrotate:F", g.rotatePts)
		do("bswap:F", g.swapBounds)
		if kind == kLS || kind == kMLS || kind == kMP || kind == kGC {
			a3 := a.clone()
			if g.closeLines(a3) {
				a3g := a3.geom()
				do3 := func(tag string, f func(b *node) bool) {
					g.perturbed = false
					b := a3.clone()
					if f(b) && atMostOneVertexless(b) {
						emit(out, tag, g.tol, a3g, b.geom())
					}
				}
				do3("same:T", func(b *node) bool { return true })
				do3("combo:T", func(b *node) bool { g.permute(b); g.rotate(b); g.perturb(b); return true })
				do3("lrotate:F", g.rotatePts)
				do3("lrotate:F", func(b *node) bool { g.permute(b); g.rotate(b); g.perturb(b); return g.rotatePts(b) })
				do3("reverse:F", g.reverseLine)
				do3("displace:F", g.displace)
				do3("vswap:F", g.swapVertices)
			}
		}
		if it%8 == 5 || it%8 == 6 {
			a2 := g.ringOwners(g.r.Intn(3))
			a2g := a2.geom()
			for _, f := range []struct {
				tag string
				f   func(*node) bool
			}{{"ringmove:F", g.moveRing}, {"ringswap:F", g.swapRings},
				{"ringswap:F", func(b *node) bool { g.permute(b); g.rotate(b); g.perturb(b); return g.swapRings(b) }},
				{"combo:T", func(b *node) bool { g.permute(b); g.rotate(b); g.perturb(b); return true }}} {
				g.perturbed = false
				b := a2.clone()
				if f.f(b) && atMostOneVertexless(b) {
					emit(out, f.tag, g.tol, a2g, b.geom())
				}
			}
		}
		do("dup:?", g.duplicateMember)
		do("dup:?", func(b *node) bool {
			if !g.duplicateMember(b) {
				return false
			}
			c := b.clone()
			g.permute(c)
			g.perturb(c)
			if g.r.Bool() {
				g.deleteMember(c)
			}
			emit(out, "dup:?", g.tol, b.geom(), c.geom())
			return false
		})
		// tiny / unclosed rings and lines (0..3 vertices from a 2x2 grid): no expectation from the
		// statement, judged by model and specification
		if it%4 == 0 {
			tiny := func() []geom.Point {
				n := g.r.Intn(4)
				ps := make([]geom.Point, n)
				for i := range ps {
					ps[i] = geom.Point{X: g.ox + float64(g.r.Intn(2))*4*g.u(), Y: g.oy + float64(g.r.Intn(2))*4*g.u()}
				}
				return ps
			}
			mk := func() geom.Polygon {
				pg := geom.Polygon{}
				for i, c := 0, g.r.Range(1, 2); i < c; i++ {
					pg = append(pg, tiny())
				}
				return pg
			}
			a1, b1 := mk(), mk()
			emit(out, "edge:?", g.tol, a1, b1)
			emit(out, "edge:?", g.tol, geom.MultiPolygon{a1, b1}, geom.MultiPolygon{b1, a1})
			emit(out, "edge:?", g.tol, geom.MultiLineString{tiny(), tiny()}, geom.MultiLineString{tiny(), tiny()})
		}
		if it%500 == 9 {
			nilCases(out, g)
		}
		if it%8 == 4 {
			g.pinchedCases(out, it/8)
		}
		if (tier != "thorough" && it%625 == 7 || it%2500 == 7) && g.dyadic {
			concEvery, concCount = 13, 0   // large member / vertex counts: calls long enough to overlap
			g.bigCases(out, bigCalls == 0) // first call: also a 1025-vertex ring
			// repeated members: every member-list kind, one count of each group per call
			// (kinds rotate over the calls; every kind gets every count group at least twice per run)
			for kind := 0; kind < 6; kind++ {
				d := (kind - bigCalls%6 + 6) % 6
				if d < 4 {
					g.dupBigCases(out, kind, []int{65, 66, 67, 70}[(bigCalls+kind)%4], false)
				}
				if d >= 2 {
					g.dupBigCases(out, kind, []int{5, 63, 64, 33}[(bigCalls+kind)%4], false)
				}
				if d < 3 {
					g.dupBigCases(out, kind, []int{129, 130, 128, 131}[(bigCalls+kind)%4], tier != "thorough")
				}
			}
			// member counts beyond one byte (an index kept in a uint8 wraps at 256): lines of a multi-line-string, points of
			// a collection, rings of a polygon, polygons of a multi-polygon (one kind per call), both copies last
			g.dupBigCases(out, []int{0, 4, 1, 2}[bigCalls%4], []int{257, 258, 260, 300}[bigCalls%4], true)
			bigCalls++
			concEvery, concCount = 1499, 0
		}
		// an unrelated geometry (fresh cells) of the same or another type
		o := g.base(r.Intn(8), 1)
		emit(out, "other:?", g.tol, ag, o.geom())
	}
}

func res(f func() bool) string {
	var v bool
	if p := vproto.Safe(func() { v = f() }); p != "" {
		return "panic:" + p
	}
	if v {
		return "T"
	}
	return "F"
}

func impl() {
	vproto.Lines(func(line string, out *bufio.Writer) {
		var r1, r2, lay string
		pan := vproto.Safe(func() {
			p := vproto.NewParser(line)
			p.Next() // sim
			tag := p.Next()
			tol := p.F()
			a := p.Geom()
			if p.Next() != "|" {
				panic("missing |")
			}
			b := p.Geom()
			if strings.HasPrefix(tag, "nilm") {
				// nil interface members / operands: one plain call per direction, panics reported
				r1 = res(func() bool { return a.Similar(b, tol) })
				r2 = res(func() bool { return b.Similar(a, tol) })
				return
			}
			a0, b0 := clone(a), clone(b)
			r1, r2, lay = evalAll(a, b, tol)
			if strings.HasPrefix(tag, "conc-") && lay == "" && len(r1) == 1 && len(r2) == 1 {
				rounds := 200
				if len(line) > 4000 {
					rounds = 32
				}
				r1, r2 = evalConc(a0, b0, tol, r1, r2, rounds)
			}
		})
		if pan != "" {
			r1, r2 = "badline:"+pan, "badline"
		}
		if lay != "" {
			r2 += " " + lay
		}
		fmt.Fprintf(out, "%s => %s %s\n", line, r1, r2)
		out.Flush()
	})
}

func main() {
	if len(os.Args) < 2 {
		fmt.Fprintln(os.Stderr, "usage: c15 gen --seed S --tier T | impl")
		os.Exit(2)
	}
	switch os.Args[1] {
	case "gen":
		seed, tier := vproto.SeedTier(os.Args[2:])
		gen(seed, tier)
	case "impl":
		impl()
	default:
		os.Exit(2)
	}
}
