"""C15 pregen: regenerate lean/GeomV/C15/Gen.lean from the CURRENT /repo/similar.go.

A deliberately small Go->Lean translator for the loop-free and simple-loop functions of similar.go,
so that the tie lemmas in Ties.lean are re-checked against what the source says now:

* `similar`, `pointSimilar`: single `return <expr>`                                   (ties by `rfl`)
* `pointsSimilar`, `ringSimilarFrom`, `ringSimilar`: statement subset
      if <cond> { return <expr> }       x := <expr>       return <expr>
      for i := 0; i < n; i++ { if <cond> { return <lit> } }  ...  return <other lit>
  a loop becomes `(List.range n).all` / `.any`; slice reads `a[i]` in a loop condition become
  `match a[i]?, .. with | some .., .. => <cond> | _ => false` (an out-of-range read would be a Go
  panic; Model.lean proves that none is reachable)                       (ties proved in Ties.lean)
* `Point / MultiPoint / LineString / *Bounds .Similar`:
      switch g.(type) { case T: [b2 := g.(T)] return <expr>  default: return false }
  becomes `match g with | .ctor .. => <expr> | _ => false`            (ties by `cases g <;> rfl`)

Expression subset: || && ! comparisons + - * / % unary -, parentheses, identifiers, selectors
.X/.Y/.Min/.Max, len(x), x[i], type assertions g.(T), calls math.Abs(x), similar, pointSimilar,
pointsSimilar, ringSimilarFrom.  Anything else raises Untranslatable (reported as a broken tie).

* `MultiLineString / Polygon / MultiPolygon / GeometryCollection .Similar` (phase 4): the case body
      X2 := g.(T); if len(X) != len(X2) { return false }
      indices := make([]int, len(X2)); for i := range X2 { indices[i] = i }
      for _, L := range X { matched := false
          for ii, i := range indices { if <cond> { matched = true
              if <c2> { indices = <e1> } else { indices = <e2> }; break } }
          if !matched { return false } }
      return true
  The statement skeleton (identity fill of `indices`, the `matched` flag protocol, `break`) is matched
  line by line with free identifiers; <cond>, <c2>, <e1>, <e2> go through the expression translator
  (extended with slice expressions `x[a:b]` -> `slice x a b`, `append(x, y...)` -> `x ++ y`, and method
  calls `v.Similar(arg, tol)` resolved by the STATIC type of `v`: LineString -> simLineString,
  Polygon -> simPolygon, Geom (interface) -> the `dispatch` parameter). The loops become
  `outerLoop`/`innerLoop` of GenLoop.lean; Ties.lean proves them equal to the model's greedy matcher."""
import re


class Untranslatable(Exception):
    pass


TOK = re.compile(r"\s*(\|\||&&|<=|>=|==|!=|:=|\+\+|[-+*/%<>!(),.\[\]{};:]|[A-Za-z_][A-Za-z_0-9]*|\d+(?:\.\d+)?)")
CALLS = ("similar", "pointSimilar", "pointsSimilar", "ringSimilarFrom", "ringSimilar")
# element types of the member lists, conversion of a member to the Geom interface, statically
# dispatched Similar methods
ELEM = {"MultiLineString": "LineString", "MultiPolygon": "Polygon", "Polygon": "Path", "GeometryCollection": "Geom"}
TOGEOM = {"LineString": ".lineString", "Polygon": ".polygon"}
STATIC_METHOD = {"LineString": "simLineString", "Polygon": "simPolygon"}


def tokenize(s):
    out, i = [], 0
    s = s.strip()
    while i < len(s):
        m = TOK.match(s, i)
        if not m:
            raise Untranslatable("cannot tokenize: " + s[i:i + 20])
        out.append(m.group(1))
        i = m.end()
    return out


class P:
    """expression parser; `assertvar`: Lean name standing for the type assertion g.(T);
    slice reads are collected in `reads` (name, lean option expression)"""

    def __init__(self, toks, assertvar=None, types=None):
        self.t, self.i = toks, 0
        self.assertvar = assertvar
        self.reads = []
        self.types = dict(types or {})  # Go static types of identifiers (member-matching methods)

    def peek(self, k=0):
        return self.t[self.i + k] if self.i + k < len(self.t) else None

    def eat(self, x=None):
        t = self.peek()
        if t is None or (x is not None and t != x):
            raise Untranslatable("expected %r got %r" % (x, t))
        self.i += 1
        return t

    def expr(self):
        l = self.and_()
        while self.peek() == "||":
            self.eat()
            l = "(%s || %s)" % (l, self.and_())
        return l

    def and_(self):
        l = self.cmp()
        while self.peek() == "&&":
            self.eat()
            l = "(%s && %s)" % (l, self.cmp())
        return l

    def cmp(self):
        l = self.sum()
        if self.peek() in ("<", "<=", ">", ">=", "==", "!="):
            op = self.eat()
            r = self.sum()
            lop = {"<": "<", "<=": "≤", ">": ">", ">=": "≥", "==": "=", "!=": "≠"}[op]
            return "decide (%s %s %s)" % (l, lop, r)
        return l

    def sum(self):
        l = self.prod()
        while self.peek() in ("+", "-"):
            op = self.eat()
            l = "(%s %s %s)" % (l, op, self.prod())
        return l

    def prod(self):
        l = self.unary()
        while self.peek() in ("*", "/", "%"):
            op = self.eat()
            l = "(%s %s %s)" % (l, op, self.unary())
        return l

    def unary(self):
        if self.peek() == "-":
            self.eat()
            return "(-%s)" % self.unary()
        if self.peek() == "!":
            self.eat()
            return "(!%s)" % self.unary()
        return self.atom()

    def args(self):
        self.eat("(")
        a = []
        if self.peek() != ")":
            a.append(self.expr())
            while self.peek() == ",":
                self.eat()
                a.append(self.expr())
        self.eat(")")
        return a

    def args_typed(self):
        """arguments with the static type of each (when it is a plain identifier / slice read)"""
        self.eat("(")
        a = []
        while self.peek() != ")":
            e = self.expr()
            a.append((e, self.types.get(e)))
            if self.peek() == ",":
                self.eat()
        self.eat(")")
        return a

    def postfix(self, name):
        """selectors, type assertion, slice reads after an identifier"""
        while True:
            if self.peek() == "." and self.peek(1) == ".":  # the `...` of append(x, y...)
                return name
            if self.peek() == "." and self.peek(1) == "(":  # g.(T) / g.(*T)
                self.eat(); self.eat()
                if self.peek() == "*":
                    self.eat()
                self.eat()
                self.eat(")")
                if self.assertvar is None:
                    raise Untranslatable("type assertion outside a type switch")
                name = self.assertvar
            elif self.peek() == "." and self.peek(1) == "Similar" and self.peek(2) == "(":
                self.eat(); self.eat()
                a = self.args_typed()
                if len(a) != 2:
                    raise Untranslatable("Similar arity")
                (arg, argty), (tol, _) = a
                rty = self.types.get(name)
                if argty == "Geom":
                    garg = arg
                elif argty in TOGEOM:
                    garg = "(%s %s)" % (TOGEOM[argty], arg)
                else:
                    raise Untranslatable("argument of Similar has unknown static type: %s" % arg)
                if rty == "Geom":
                    name = "(dispatch %s %s %s)" % (name, garg, tol)
                    self.uses_dispatch = True
                elif rty in STATIC_METHOD:
                    name = "(%s %s %s %s)" % (STATIC_METHOD[rty], name, garg, tol)
                else:
                    raise Untranslatable("receiver of Similar has unknown static type: %s" % name)
            elif self.peek() == ".":
                self.eat()
                fld = self.eat()
                if fld in ("X", "Y"):
                    name = "%s.%s" % (name, fld.lower())
                elif fld in ("Min", "Max"):
                    name = "%s_%s" % (name, fld)
                else:
                    raise Untranslatable("selector ." + fld)
            elif self.peek() == "[":
                self.eat()
                lo = None if self.peek() == ":" else self.expr()
                if self.peek() == ":":  # slice expression x[a:b]
                    self.eat()
                    hi = None if self.peek() == "]" else self.expr()
                    self.eat("]")
                    name = "(slice %s %s %s)" % (name, lo if lo is not None else "0", hi if hi is not None else "%s.length" % name)
                    continue
                ix = lo
                self.eat("]")
                v = "x%d" % len(self.reads)
                self.reads.append((v, "%s[%s]?" % (name, ix)))
                ety = ELEM.get(self.types.get(name))
                if ety:
                    self.types[v] = ety
                name = v
            else:
                return name

    def atom(self):
        t = self.eat()
        if t == "(":
            e = self.expr()
            self.eat(")")
            return e
        if re.match(r"\d+\.\d+$", t):
            return "(%s : Rat)" % t
        if re.match(r"\d", t):
            return t
        if not re.match(r"[A-Za-z_]", t):
            raise Untranslatable("unexpected token %r" % t)
        if t == "math":
            self.eat(".")
            f = self.eat()
            if f != "Abs":
                raise Untranslatable("math.%s" % f)
            a = self.args()
            if len(a) != 1:
                raise Untranslatable("math.Abs arity")
            return "(Rat.abs %s)" % a[0]
        if t == "len" and self.peek() == "(":
            a = self.args()
            if len(a) != 1:
                raise Untranslatable("len arity")
            return "%s.length" % a[0]
        if t == "append" and self.peek() == "(":  # append(x, y...)
            self.eat("(")
            x = self.expr()
            self.eat(",")
            y = self.expr()
            for _ in range(3):
                self.eat(".")
            self.eat(")")
            return "(%s ++ %s)" % (x, y)
        if self.peek() == "(":
            if t not in CALLS:
                raise Untranslatable("call to %s" % t)
            return "(%s %s)" % (t, " ".join(self.args()))
        return self.postfix(t)


def parse_expr(text, assertvar=None, allow_reads=False, types=None):
    p = P(tokenize(text), assertvar, types)
    e = p.expr()
    if p.peek() is not None:
        raise Untranslatable("trailing tokens in %r" % text)
    if p.reads:
        if not allow_reads:
            raise Untranslatable("slice read outside a loop condition: %r" % text)
        e = "match %s with | %s => %s | %s => false" % (
            ", ".join(r for _, r in p.reads), ", ".join("some " + v for v, _ in p.reads), e,
            ", ".join("_" for _ in p.reads))
    return e


def func_src(src, name):
    m = re.search(r"^func %s\(([^)]*)\) bool \{\n(.*?)^\}" % re.escape(name), src, flags=re.S | re.M)
    if not m:
        raise Untranslatable("func %s not found" % name)
    lines = [l.strip() for l in m.group(2).split("\n") if l.strip() and not l.strip().startswith("//")]
    lines = [re.sub(r"\s*//.*$", "", l) for l in lines]
    return m.group(1), lines


def body_of(src, name):
    params, lines = func_src(src, name)
    if len(lines) != 1 or not lines[0].startswith("return "):
        raise Untranslatable("func %s is not a single return" % name)
    return params, parse_expr(lines[0][len("return "):])


LIT = {"true": "true", "false": "false"}


def stmts(lines, name):
    """translate a statement list (see module doc) to one Lean expression"""
    if not lines:
        raise Untranslatable("%s: falls off the end" % name)
    l = lines[0]
    if l.startswith("return "):
        if len(lines) != 1:
            raise Untranslatable("%s: code after return" % name)
        return parse_expr(l[len("return "):])
    m = re.match(r"if (.*) \{$", l)
    if m:
        if len(lines) < 3 or not lines[1].startswith("return ") or lines[2] != "}":
            raise Untranslatable("%s: if-body is not a single return" % name)
        return "if %s then %s else %s" % (parse_expr(m.group(1)), parse_expr(lines[1][len("return "):]), stmts(lines[3:], name))
    m = re.match(r"([A-Za-z_]\w*) := (.*)$", l)
    if m and not l.startswith("for "):
        return "let %s := %s; %s" % (m.group(1), parse_expr(m.group(2)), stmts(lines[1:], name))
    m = re.match(r"for (.*); (\w+) < (\w+); (\w+)\+\+ \{$", l)
    if m:
        init, i, n, i2 = m.groups()
        pre = ""
        mi = re.match(r"(\w+), (\w+) := 0, (.*)$", init)
        if mi and mi.group(1) == i and mi.group(2) == n:
            pre = "let %s := %s; " % (n, parse_expr(mi.group(3)))
        elif init != "%s := 0" % i:
            raise Untranslatable("%s: loop init %r" % (name, init))
        if i != i2:
            raise Untranslatable("%s: loop increment" % name)
        if len(lines) != 6 or lines[3] != "}" or lines[4] != "}":
            raise Untranslatable("%s: loop body is not a single if-return followed by the final return" % name)
        mc = re.match(r"if (.*) \{$", lines[1])
        mr = re.match(r"return (true|false)$", lines[2])
        mf = re.match(r"return (true|false)$", lines[5])
        if not (mc and mr and mf) or mr.group(1) == mf.group(1):
            raise Untranslatable("%s: loop shape" % name)
        cond = mc.group(1).strip()
        if mr.group(1) == "false":  # all: body condition negated
            if cond.startswith("!"):
                c = parse_expr(cond[1:], allow_reads=True)
            else:
                c = "(!%s)" % parse_expr(cond, allow_reads=True)
            return "%s(List.range %s).all fun %s => %s" % (pre, n, i, c)
        return "%s(List.range %s).any fun %s => %s" % (pre, n, i, parse_expr(cond, allow_reads=True))
    raise Untranslatable("%s: statement %r" % (name, l))


def params_lean(params):
    # "a, b, e float64" / "p1, p2 Point, e float64" / "a, b []Point, k, n int, e float64"
    out, names = [], []
    for part in [x.strip() for x in params.split(",")]:
        bits = part.split()
        names.append(bits[0])
        if len(bits) == 2:
            ty = {"float64": "Rat", "Point": "P", "[]Point": "List P", "int": "Nat"}.get(bits[1])
            if ty is None:
                raise Untranslatable("parameter type " + bits[1])
            out.append("(%s : %s)" % (" ".join(names), ty))
            names = []
    if names:
        raise Untranslatable("untyped parameters")
    return " ".join(out)


METHODS = [  # receiver type, Lean def name, receiver parameter(s), constructor pattern
    ("Point", "simPoint", "(%s : P)", ".point %s"),
    ("MultiPoint", "simMultiPoint", "(%s : List P)", ".multiPoint %s"),
    ("LineString", "simLineString", "(%s : List P)", ".lineString %s"),
    ("*Bounds", "simBounds", "(%s_Min %s_Max : P)", ".bounds %s_Min %s_Max"),
]


def method(src, rtype, defname, rparam, pat):
    m = re.search(r"^func \((\w+) %s\) Similar\(g Geom, tolerance float64\) bool \{\n(.*?)^\}" % re.escape(rtype),
                  src, flags=re.S | re.M)
    if not m:
        raise Untranslatable("method (%s).Similar not found" % rtype)
    recv = m.group(1)
    lines = [l.strip() for l in m.group(2).split("\n") if l.strip() and not l.strip().startswith("//")]
    if len(lines) < 5 or lines[0] != "switch g.(type) {" or lines[1] != "case %s:" % rtype or \
            lines[-3:] != ["default:", "return false", "}"]:
        raise Untranslatable("(%s).Similar: not a single-case type switch" % rtype)
    inner = lines[2:-3]
    av = "g'"
    if len(inner) == 2:
        ma = re.match(r"(\w+) := g\.\(%s\)$" % re.escape(rtype), inner[0])
        if not ma:
            raise Untranslatable("(%s).Similar: case body" % rtype)
        av = ma.group(1)
        inner = inner[1:]
    if len(inner) != 1 or not inner[0].startswith("return "):
        raise Untranslatable("(%s).Similar: case body is not a single return" % rtype)
    e = parse_expr(inner[0][len("return "):], assertvar=av)
    n = rparam.count("%s")
    return "def %s %s (g : RGeom) (tolerance : Rat) : Bool :=\n  match g with\n  | %s => %s\n  | _ => false\n\n" % (
        defname, rparam % ((recv,) * n), pat % ((av,) * pat.count("%s")), e)


GREEDY = [  # receiver type, Lean def name, Lean type of the receiver, constructor
    ("MultiLineString", "simMultiLineString", "List (List P)", ".multiLineString"),
    ("Polygon", "simPolygon", "List (List P)", ".polygon"),
    ("MultiPolygon", "simMultiPolygon", "List (List (List P))", ".multiPolygon"),
    ("GeometryCollection", "simCollection", "List RGeom", ".collection"),
]


def greedy_method(src, rtype, defname, lty, ctor):
    m = re.search(r"^func \((\w+) %s\) Similar\(g Geom, tolerance float64\) bool \{\n(.*?)^\}" % re.escape(rtype),
                  src, flags=re.S | re.M)
    if not m:
        raise Untranslatable("method (%s).Similar not found" % rtype)
    X = m.group(1)
    lines = [re.sub(r"\s*//.*$", "", l.strip()) for l in m.group(2).split("\n")]
    lines = [l for l in lines if l]
    if len(lines) < 8 or lines[0] != "switch g.(type) {" or lines[1] != "case %s:" % rtype or \
            lines[-3:] != ["default:", "return false", "}"]:
        raise Untranslatable("(%s).Similar: not a single-case type switch" % rtype)
    b = lines[2:-3]
    name = "(%s).Similar" % rtype
    if len(b) != 26:
        raise Untranslatable("%s: %d statements lines in the case body, the member-matching skeleton has 26" % (name, len(b)))

    def need(i, pat):
        mm = re.match(pat + "$", b[i])
        if not mm:
            raise Untranslatable("%s: line %r does not fit the member-matching skeleton (%s)" % (name, b[i], pat))
        return mm

    X2 = need(0, r"(\w+) := g\.\(%s\)" % re.escape(rtype)).group(1)
    need(1, r"if len\(%s\) != len\(%s\) \{" % (X, X2)); need(2, "return false"); need(3, r"\}")
    IND = need(4, r"(\w+) := make\(\[\]int, len\(%s\)\)" % X2).group(1)
    iv = need(5, r"for (\w+) := range %s \{" % X2).group(1)
    need(6, r"%s\[%s\] = %s" % (IND, iv, iv)); need(7, r"\}")
    L = need(8, r"for _, (\w+) := range %s \{" % X).group(1)
    M = need(9, r"(\w+) := false").group(1)
    mm = need(10, r"for (\w+), (\w+) := range %s \{" % IND)
    II, I = mm.group(1), mm.group(2)
    cond = need(11, r"if (.*) \{").group(1)
    need(12, r"%s = true" % M)
    c2 = need(13, r"if (.*) \{").group(1)
    e1 = need(14, r"%s = (.*)" % IND).group(1)
    need(15, r"\} else \{")
    e2 = need(16, r"%s = (.*)" % IND).group(1)
    need(17, r"\}"); need(18, "break"); need(19, r"\}"); need(20, r"\}")
    need(21, r"if !%s \{" % M); need(22, "return false"); need(23, r"\}"); need(24, r"\}")
    need(25, "return true")
    if len({X, X2, IND, L, M, II, I, "g", "tolerance"}) != 9:
        raise Untranslatable("%s: identifiers of the skeleton are not distinct" % name)
    types = {X: rtype, X2: rtype, L: ELEM[rtype]}
    pc = P(tokenize(cond), None, types)
    pc.uses_dispatch = False
    ce = pc.expr()
    if pc.peek() is not None:
        raise Untranslatable("%s: trailing tokens in the match condition" % name)
    if [r for _, r in pc.reads] != ["%s[%s]?" % (X2, I)]:
        raise Untranslatable("%s: the match condition must read exactly %s[%s]" % (name, X2, I))
    for v in (IND, II, M):
        if re.search(r"\b%s\b" % v, cond):
            raise Untranslatable("%s: the match condition mentions %s" % (name, v))
    v0 = pc.reads[0][0]
    condl = "fun %s => match %s[%s]? with | some %s => %s | none => false" % (I, X2, I, v0, ce)
    for t in (c2, e1, e2):
        for v in (I, L, M, X, X2):
            if re.search(r"\b%s\b" % v, t):
                raise Untranslatable("%s: the index removal mentions %s" % (name, v))
    reml = "fun %s => if %s then %s else %s" % (II, parse_expr(c2), parse_expr(e1), parse_expr(e2))
    disp = "(dispatch : RGeom → RGeom → Rat → Bool) " if pc.uses_dispatch else ""
    return ("def %s %s(%s : %s) (g : RGeom) (tolerance : Rat) : Bool :=\n  match g with\n  | %s %s =>\n"
            "    if decide (%s.length ≠ %s.length) then false else\n"
            "    outerLoop (fun %s %s => innerLoop %s (%s) (%s)) %s (List.range %s.length)\n  | _ => false\n\n") % (
        defname, disp, X, lty, ctor, X2, X, X2, L, IND, IND, condl, reml, X, X2)


def generate(src):
    ps, es = body_of(src, "similar")
    pp, ep = body_of(src, "pointSimilar")
    out = ("import GeomV.C15.GenLoop\n"
           "/-! GENERATED by harness/cmd/c15/go2lean.py from /repo/similar.go on every run — do not edit. -/\n"
           "namespace GeomV.C15.Gen\nopen GeomV\n\n"
           "def similar %s : Bool := %s\n\n"
           "def pointSimilar %s : Bool := %s\n\n" % (params_lean(ps), es, params_lean(pp), ep))
    for name in ("pointsSimilar", "ringSimilarFrom", "ringSimilar"):
        params, lines = func_src(src, name)
        out += "def %s %s : Bool :=\n  %s\n\n" % (name, params_lean(params), stmts(lines, name))
    for rtype, defname, rparam, pat in METHODS:
        out += method(src, rtype, defname, rparam, pat)
    for rtype, defname, lty, ctor in GREEDY:
        out += greedy_method(src, rtype, defname, lty, ctor)
    return out + "end GeomV.C15.Gen\n"
