"""C15 pregen: regenerate lean/GeomV/C15/Gen.lean from the CURRENT /repo/similar.go.

A deliberately tiny Go->Lean translator for the two arithmetic/decision functions of similar.go
(`similar`, `pointSimilar`: single `return <expr>`), so that the tie lemmas in Ties.lean
(`Gen.similar = similar`, `Gen.pointSimilar = pointSimilar`, by `rfl`) are re-checked against what
the source says now.  Expression subset: || && ! comparisons + - * / unary -, parentheses,
identifiers, selectors .X/.Y, calls math.Abs(x) and similar(a, b, e).  Anything else raises
Untranslatable (reported as a broken tie)."""
import re


class Untranslatable(Exception):
    pass


TOK = re.compile(r"\s*(\|\||&&|<=|>=|==|!=|[-+*/<>!(),.]|[A-Za-z_][A-Za-z_0-9]*|\d+(?:\.\d+)?)")


def tokenize(s):
    out, i = [], 0
    s = s.strip()
    while i < len(s):
        m = TOK.match(s, i)
        if not m:
            raise Untranslatable("cannot tokenize: " + s[i:i + 20])
        out.append(m.group(1))
        i = m.end()
    return out


class P:
    def __init__(self, toks):
        self.t, self.i = toks, 0

    def peek(self):
        return self.t[self.i] if self.i < len(self.t) else None

    def eat(self, x=None):
        t = self.peek()
        if t is None or (x is not None and t != x):
            raise Untranslatable("expected %r got %r" % (x, t))
        self.i += 1
        return t

    def expr(self):
        l = self.and_()
        while self.peek() == "||":
            self.eat()
            l = "(%s || %s)" % (l, self.and_())
        return l

    def and_(self):
        l = self.cmp()
        while self.peek() == "&&":
            self.eat()
            l = "(%s && %s)" % (l, self.cmp())
        return l

    def cmp(self):
        l = self.sum()
        if self.peek() in ("<", "<=", ">", ">=", "==", "!="):
            op = self.eat()
            r = self.sum()
            lop = {"<": "<", "<=": "≤", ">": ">", ">=": "≥", "==": "=", "!=": "≠"}[op]
            return "decide (%s %s %s)" % (l, lop, r)
        return l

    def sum(self):
        l = self.prod()
        while self.peek() in ("+", "-"):
            op = self.eat()
            l = "(%s %s %s)" % (l, op, self.prod())
        return l

    def prod(self):
        l = self.unary()
        while self.peek() in ("*", "/"):
            op = self.eat()
            l = "(%s %s %s)" % (l, op, self.unary())
        return l

    def unary(self):
        if self.peek() == "-":
            self.eat()
            return "(-%s)" % self.unary()
        if self.peek() == "!":
            self.eat()
            return "(!%s)" % self.unary()
        return self.atom()

    def args(self):
        self.eat("(")
        a = []
        if self.peek() != ")":
            a.append(self.expr())
            while self.peek() == ",":
                self.eat()
                a.append(self.expr())
        self.eat(")")
        return a

    def atom(self):
        t = self.eat()
        if t == "(":
            e = self.expr()
            self.eat(")")
            return e
        if re.match(r"\d", t):
            return "(%s : Rat)" % t
        if not re.match(r"[A-Za-z_]", t):
            raise Untranslatable("unexpected token %r" % t)
        if t == "math":
            self.eat(".")
            f = self.eat()
            if f != "Abs":
                raise Untranslatable("math.%s" % f)
            a = self.args()
            if len(a) != 1:
                raise Untranslatable("math.Abs arity")
            return "(Rat.abs %s)" % a[0]
        if self.peek() == "(":
            if t not in ("similar", "pointSimilar"):
                raise Untranslatable("call to %s" % t)
            return "(%s %s)" % (t, " ".join(self.args()))
        if self.peek() == ".":
            self.eat()
            fld = self.eat()
            if fld not in ("X", "Y"):
                raise Untranslatable("selector ." + fld)
            return "%s.%s" % (t, fld.lower())
        return t


def body_of(src, name):
    m = re.search(r"^func %s\(([^)]*)\) bool \{\n(.*?)^\}" % re.escape(name), src, flags=re.S | re.M)
    if not m:
        raise Untranslatable("func %s not found" % name)
    params, body = m.group(1), m.group(2).strip()
    lines = [l.strip() for l in body.split("\n") if l.strip() and not l.strip().startswith("//")]
    if len(lines) != 1 or not lines[0].startswith("return "):
        raise Untranslatable("func %s is not a single return" % name)
    p = P(tokenize(lines[0][len("return "):]))
    e = p.expr()
    if p.peek() is not None:
        raise Untranslatable("trailing tokens in %s" % name)
    return params, e


def params_lean(params):
    # "a, b, e float64" / "p1, p2 Point, e float64"
    out, names = [], []
    for part in [x.strip() for x in params.split(",")]:
        bits = part.split()
        names.append(bits[0])
        if len(bits) == 2:
            ty = {"float64": "Rat", "Point": "P"}.get(bits[1])
            if ty is None:
                raise Untranslatable("parameter type " + bits[1])
            out.append("(%s : %s)" % (" ".join(names), ty))
            names = []
    if names:
        raise Untranslatable("untyped parameters")
    return " ".join(out)


def generate(src):
    ps, es = body_of(src, "similar")
    pp, ep = body_of(src, "pointSimilar")
    return (
        "import GeomV.C15.Model\n"
        "/-! GENERATED by harness/cmd/c15/go2lean.py from /repo/similar.go on every run — do not edit. -/\n"
        "namespace GeomV.C15.Gen\nopen GeomV\n\n"
        "def similar %s : Bool := %s\n\n"
        "def pointSimilar %s : Bool := %s\n\n"
        "end GeomV.C15.Gen\n" % (params_lean(ps), es, params_lean(pp), ep))
