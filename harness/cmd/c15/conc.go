package main

// Concurrent callers (generic probe (g)): Similar is a pure function of its two operands and the
// tolerance, so any number of goroutines may call it at the same time on their own operands. A
// line whose tag starts with "conc-" is evaluated sequentially first (all layouts; these answers
// are the reference), then
//
//	8 caller goroutines, each on PRIVATE deep copies of the pair (every second one in the packed
//	  layout), repeat A.Similar(B), B.Similar(A) `rounds` times and compare every answer with the
//	  reference and both operands with their snapshots, while
//	8 hammer goroutines call Similar on unrelated large geometries (150-line multi-line-string,
//	  60-ring polygon, 3000-vertex ring, 80-polygon multi-polygon, 100-member collection, 5000-vertex
//	  line string) so that calls overlap; the hammers check their own answers as well.
//
// The first deviating answer is reported as "racy:alone=<ref>,concurrent=<answer>" (a panic is an
// answer; a changed operand is reported as "modified:…"), which the judge turns into a SPEC verdict.
// The library spawns no goroutines in Similar; every goroutine here runs under vproto.Safe.

import (
	"fmt"
	"strings"
	"sync"
	"sync/atomic"

	"github.com/ctessum/geom"

	"verif/harness/vproto"
)

type hamCase struct {
	a, b   geom.Geom
	tol    float64
	ab, ba string
}

var (
	hamOnce sync.Once
	hams    []hamCase
)

func buildHams() {
	g := &gctx{r: vproto.NewRng(0xC15C0C), dyadic: true, tol: 0.25}
	add := func(a *node, f func(b *node)) {
		b := a.clone()
		f(b)
		h := hamCase{a: a.geom(), b: b.geom(), tol: g.tol}
		h.ab = res(func() bool { return h.a.Similar(h.b, h.tol) })
		h.ba = res(func() bool { return h.b.Similar(h.a, h.tol) })
		hams = append(hams, h)
	}
	mls, pg, mpg, gc := &node{kind: kMLS}, &node{kind: kPG}, &node{kind: kMPG}, &node{kind: kGC}
	for i := 0; i < 150; i++ {
		mls.kids = append(mls.kids, g.line(kLine))
	}
	for i := 0; i < 60; i++ {
		pg.kids = append(pg.kids, g.ring())
	}
	for i := 0; i < 80; i++ {
		mpg.kids = append(mpg.kids, g.dupMember(2))
	}
	for i := 0; i < 100; i++ {
		gc.kids = append(gc.kids, g.dupMember(5))
	}
	r := g.bigPts(3000)
	ring := &node{kind: kPG, kids: []*node{{kind: kRing, pts: append(r, r[0])}}}
	add(mls, func(b *node) { g.permute(b); g.perturb(b) })
	add(pg, func(b *node) { g.permute(b); g.rotate(b); g.perturb(b) })
	add(ring, func(b *node) { g.rotate(b) })
	add(mpg, func(b *node) { g.permute(b); g.perturbed = false; g.displace(b.kids[len(b.kids)-1]) })
	add(gc, func(b *node) { g.permute(b); g.rotate(b); g.perturb(b) })
	add(&node{kind: kLS, pts: g.bigPts(5000)}, func(b *node) { g.perturb(b) })
	add(mls, func(b *node) { g.permute(b); g.perturbed = false; g.displace(b.kids[0]) })
	add(pg, func(b *node) { g.permute(b); g.rotate(b); g.perturbed = false; g.displace(b.kids[len(b.kids)-1]) })
}

const (
	nCallers = 8
	nHammers = 8
)

// evalConc: ref1/ref2 are the answers obtained alone. Returns the pair of answers to report.
func evalConc(a, b geom.Geom, tol float64, ref1, ref2 string, rounds int) (string, string) {
	hamOnce.Do(buildHams)
	sa, sb := snap(nil, a), snap(nil, b)
	var stop int32
	var mu sync.Mutex
	dev1, dev2 := "", ""
	note := func(which int, s string) {
		mu.Lock()
		if which == 1 && dev1 == "" {
			dev1 = s
		}
		if which == 2 && dev2 == "" {
			dev2 = s
		}
		mu.Unlock()
	}
	var hw, cw sync.WaitGroup
	for h := 0; h < nHammers; h++ {
		hw.Add(1)
		go func(h int) {
			defer hw.Done()
			if p := vproto.Safe(func() {
				c := hams[h%len(hams)]
				x, y := clone(c.a), clone(c.b)
				for atomic.LoadInt32(&stop) == 0 {
					if r := res(func() bool { return x.Similar(y, c.tol) }); r != c.ab {
						note(1, fmt.Sprintf("racy:hammer-%d-alone=%s,concurrent=%s", h%len(hams), c.ab, short(r)))
						return
					}
					if r := res(func() bool { return y.Similar(x, c.tol) }); r != c.ba {
						note(2, fmt.Sprintf("racy:hammer-%d-alone=%s,concurrent=%s", h%len(hams), c.ba, short(r)))
						return
					}
				}
			}); p != "" {
				note(1, "panic:hammer:"+short(p))
			}
		}(h)
	}
	for c := 0; c < nCallers; c++ {
		cw.Add(1)
		go func(c int) {
			defer cw.Done()
			if p := vproto.Safe(func() {
				pa, pb := clone(a), clone(b)
				if c%2 == 1 {
					pa, pb = pack(pa), pack(pb)
				}
				for i := 0; i < rounds; i++ {
					r1 := res(func() bool { return pa.Similar(pb, tol) })
					if !sameSnap(snap(nil, pa), sa) || !sameSnap(snap(nil, pb), sb) {
						note(1, "modified:operand-changed-under-concurrent-callers")
						return
					}
					if r1 != ref1 {
						note(1, "racy:alone="+ref1+",concurrent="+short(r1))
						return
					}
					r2 := res(func() bool { return pb.Similar(pa, tol) })
					if !sameSnap(snap(nil, pa), sa) || !sameSnap(snap(nil, pb), sb) {
						note(2, "modified:operand-changed-under-concurrent-callers")
						return
					}
					if r2 != ref2 {
						note(2, "racy:alone="+ref2+",concurrent="+short(r2))
						return
					}
				}
			}); p != "" {
				note(1, "panic:caller:"+short(p))
			}
		}(c)
	}
	cw.Wait()
	atomic.StoreInt32(&stop, 1)
	hw.Wait()
	if dev1 != "" {
		ref1 = dev1
	}
	if dev2 != "" {
		ref2 = dev2
	}
	return ref1, ref2
}

func short(s string) string {
	s = strings.ReplaceAll(s, " ", "_")
	if len(s) > 80 {
		s = s[:80]
	}
	return s
}
