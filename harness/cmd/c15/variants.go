package main

// Operand layouts under which every pair is evaluated (alias_note.txt (b),(c),(f)): the answers of
// Similar must be a function of the VALUES of its operands, must not modify them, and must not
// depend on earlier calls.
//
//	plain    independently allocated operands
//	packed   every point list of an operand is a consecutive window of ONE flat buffer with
//	         spare capacity behind it (buf[0:5], buf[5:10], …; ring lists of a multi-polygon are
//	         windows of one flat []Path as well)
//	shared   wherever a point list / member list of one operand is a bit-identical prefix of the
//	         corresponding list of the other, it is a RE-SLICE of it (h := g[:len(g)-1]; same
//	         slice on both sides when equal)
//	nilled   empty slices replaced by nil
//	inplace  the argument is a packed copy of A that has already been compared with A and is then
//	         overwritten IN PLACE with B's coordinates (same addresses, same lengths): the identical
//	         call right before and right after the overwrite, for each direction separately, then
//	         after a warm-up in both orders; only when A and B have the same shape
//
// For every layout: A.Similar(B), B.Similar(A), A.Similar(B), B.Similar(A); both operands are
// compared bit for bit with a snapshot after every call.

import (
	"fmt"
	"math"

	"github.com/ctessum/geom"

	"verif/harness/vproto"
)

// ---- snapshots ---------------------------------------------------------------------------

func snapPts(s []uint64, ps []geom.Point) []uint64 {
	s = append(s, uint64(len(ps)))
	for _, p := range ps {
		s = append(s, math.Float64bits(p.X), math.Float64bits(p.Y))
	}
	return s
}

func snap(s []uint64, g geom.Geom) []uint64 {
	switch t := g.(type) {
	case geom.Point:
		return append(s, 1, math.Float64bits(t.X), math.Float64bits(t.Y))
	case geom.MultiPoint:
		return snapPts(append(s, 2), t)
	case geom.LineString:
		return snapPts(append(s, 3), t)
	case geom.MultiLineString:
		s = append(s, 4, uint64(len(t)))
		for _, l := range t {
			s = snapPts(s, l)
		}
	case geom.Polygon:
		s = append(s, 5, uint64(len(t)))
		for _, l := range t {
			s = snapPts(s, l)
		}
	case geom.MultiPolygon:
		s = append(s, 6, uint64(len(t)))
		for _, pg := range t {
			s = append(s, uint64(len(pg)))
			for _, l := range pg {
				s = snapPts(s, l)
			}
		}
	case geom.GeometryCollection:
		s = append(s, 7, uint64(len(t)))
		for _, m := range t {
			s = snap(s, m)
		}
	case *geom.Bounds:
		s = append(s, 8, math.Float64bits(t.Min.X), math.Float64bits(t.Min.Y), math.Float64bits(t.Max.X), math.Float64bits(t.Max.Y))
	default:
		s = append(s, 9)
	}
	return s
}

func sameSnap(a, b []uint64) bool {
	if len(a) != len(b) {
		return false
	}
	for i := range a {
		if a[i] != b[i] {
			return false
		}
	}
	return true
}

// ---- packed layout -----------------------------------------------------------------------

type packer struct {
	buf   []geom.Point
	off   int
	paths []geom.Path
	poff  int
}

func countPts(g geom.Geom) (pts, paths int) {
	switch t := g.(type) {
	case geom.MultiPoint:
		return len(t), 0
	case geom.LineString:
		return len(t), 0
	case geom.MultiLineString:
		for _, l := range t {
			pts += len(l)
		}
	case geom.Polygon:
		for _, l := range t {
			pts += len(l)
		}
		paths = len(t)
	case geom.MultiPolygon:
		for _, pg := range t {
			paths += len(pg)
			for _, l := range pg {
				pts += len(l)
			}
		}
	case geom.GeometryCollection:
		for _, m := range t {
			a, b := countPts(m)
			pts += a
			paths += b
		}
	}
	return
}

func (p *packer) pts(ps []geom.Point) []geom.Point {
	w := p.buf[p.off : p.off+len(ps)] // capacity runs to the end of the flat buffer
	copy(w, ps)
	p.off += len(ps)
	return w
}

func (p *packer) ring(ps []geom.Path) []geom.Path {
	w := p.paths[p.poff : p.poff+len(ps)]
	for i, r := range ps {
		w[i] = p.pts(r)
	}
	p.poff += len(ps)
	return w
}

func (p *packer) geom(g geom.Geom) geom.Geom {
	switch t := g.(type) {
	case geom.MultiPoint:
		return geom.MultiPoint(p.pts(t))
	case geom.LineString:
		return geom.LineString(p.pts(t))
	case geom.MultiLineString:
		m := make(geom.MultiLineString, len(t), 2*len(t)+2)
		for i, l := range t {
			m[i] = geom.LineString(p.pts(l))
		}
		return m
	case geom.Polygon:
		return geom.Polygon(p.ring(t))
	case geom.MultiPolygon:
		m := make(geom.MultiPolygon, len(t), 2*len(t)+2)
		for i, pg := range t {
			m[i] = geom.Polygon(p.ring(pg))
		}
		return m
	case geom.GeometryCollection:
		m := make(geom.GeometryCollection, len(t), 2*len(t)+2)
		for i, k := range t {
			m[i] = p.geom(k)
		}
		return m
	case *geom.Bounds:
		return &geom.Bounds{Min: t.Min, Max: t.Max}
	}
	return g
}

// pack lays all point lists of g out in one flat buffer (sentinel-filled spare capacity behind).
func pack(g geom.Geom) geom.Geom {
	n, np := countPts(g)
	p := &packer{buf: make([]geom.Point, 3*n+16), paths: make([]geom.Path, 3*np+4)}
	for i := range p.buf {
		p.buf[i] = geom.Point{X: 12345.678, Y: -9876.5}
	}
	return p.geom(g)
}

// ---- shared (re-sliced) layout -----------------------------------------------------------

func ptsPrefix(short, long []geom.Point) bool {
	if len(short) > len(long) {
		return false
	}
	for i := range short {
		if math.Float64bits(short[i].X) != math.Float64bits(long[i].X) || math.Float64bits(short[i].Y) != math.Float64bits(long[i].Y) {
			return false
		}
	}
	return true
}

func pathsPrefix(short, long []geom.Path) bool {
	if len(short) > len(long) {
		return false
	}
	for i := range short {
		if len(short[i]) != len(long[i]) || !ptsPrefix(short[i], long[i]) {
			return false
		}
	}
	return true
}

// share returns y rebuilt so that every list of y that is a prefix of the corresponding list of x
// is a re-slice of x's list; n counts the re-slices made.
func share(x, y geom.Geom, n *int) geom.Geom {
	switch ty := y.(type) {
	case geom.MultiPoint:
		if tx, ok := x.(geom.MultiPoint); ok && len(ty) > 0 && ptsPrefix(ty, tx) {
			*n++
			return tx[:len(ty)]
		}
	case geom.LineString:
		if tx, ok := x.(geom.LineString); ok && len(ty) > 0 && ptsPrefix(ty, tx) {
			*n++
			return tx[:len(ty)]
		}
	case geom.MultiLineString:
		if tx, ok := x.(geom.MultiLineString); ok {
			all := len(ty) <= len(tx) && len(ty) > 0
			out := make(geom.MultiLineString, len(ty))
			for i := range ty {
				out[i] = ty[i]
				if i < len(tx) && len(ty[i]) > 0 && ptsPrefix(ty[i], tx[i]) {
					out[i] = tx[i][:len(ty[i])]
					*n++
				}
				if i >= len(tx) || len(ty[i]) != len(tx[i]) || !ptsPrefix(ty[i], tx[i]) {
					all = false
				}
			}
			if all {
				*n++
				return tx[:len(ty)]
			}
			return out
		}
	case geom.Polygon:
		if tx, ok := x.(geom.Polygon); ok {
			if len(ty) > 0 && pathsPrefix(ty, tx) {
				*n++
				return tx[:len(ty)]
			}
			out := make(geom.Polygon, len(ty))
			for i := range ty {
				out[i] = ty[i]
				if i < len(tx) && len(ty[i]) > 0 && ptsPrefix(ty[i], tx[i]) {
					out[i] = tx[i][:len(ty[i])]
					*n++
				}
			}
			return out
		}
	case geom.MultiPolygon:
		if tx, ok := x.(geom.MultiPolygon); ok {
			out := make(geom.MultiPolygon, len(ty))
			all := len(ty) <= len(tx) && len(ty) > 0
			for i := range ty {
				out[i] = ty[i]
				if i < len(tx) {
					out[i] = share(tx[i], ty[i], n).(geom.Polygon)
				}
				if i >= len(tx) || len(ty[i]) != len(tx[i]) || !pathsPrefix(ty[i], tx[i]) {
					all = false
				}
			}
			if all {
				*n++
				return tx[:len(ty)]
			}
			return out
		}
	case geom.GeometryCollection:
		if tx, ok := x.(geom.GeometryCollection); ok {
			out := make(geom.GeometryCollection, len(ty))
			for i := range ty {
				out[i] = ty[i]
				if i < len(tx) {
					out[i] = share(tx[i], ty[i], n)
				}
			}
			return out
		}
	}
	return y
}

// ---- nil for empty -----------------------------------------------------------------------

func nilled(g geom.Geom) geom.Geom {
	np := func(ps []geom.Point) []geom.Point {
		if len(ps) == 0 {
			return nil
		}
		return ps
	}
	switch t := g.(type) {
	case geom.MultiPoint:
		return geom.MultiPoint(np(t))
	case geom.LineString:
		return geom.LineString(np(t))
	case geom.MultiLineString:
		if len(t) == 0 {
			return geom.MultiLineString(nil)
		}
		m := make(geom.MultiLineString, len(t))
		for i, l := range t {
			m[i] = np(l)
		}
		return m
	case geom.Polygon:
		if len(t) == 0 {
			return geom.Polygon(nil)
		}
		m := make(geom.Polygon, len(t))
		for i, l := range t {
			m[i] = np(l)
		}
		return m
	case geom.MultiPolygon:
		if len(t) == 0 {
			return geom.MultiPolygon(nil)
		}
		m := make(geom.MultiPolygon, len(t))
		for i, pg := range t {
			m[i] = nilled(pg).(geom.Polygon)
		}
		return m
	case geom.GeometryCollection:
		if len(t) == 0 {
			return geom.GeometryCollection(nil)
		}
		m := make(geom.GeometryCollection, len(t))
		for i, k := range t {
			m[i] = nilled(k)
		}
		return m
	}
	return g
}

// ---- in-place overwrite ------------------------------------------------------------------

func pointRefs(g geom.Geom, out []*geom.Point) []*geom.Point {
	switch t := g.(type) {
	case geom.MultiPoint:
		for i := range t {
			out = append(out, &t[i])
		}
	case geom.LineString:
		for i := range t {
			out = append(out, &t[i])
		}
	case geom.MultiLineString:
		for _, l := range t {
			for i := range l {
				out = append(out, &l[i])
			}
		}
	case geom.Polygon:
		for _, l := range t {
			for i := range l {
				out = append(out, &l[i])
			}
		}
	case geom.MultiPolygon:
		for _, pg := range t {
			out = pointRefs(pg, out)
		}
	case geom.GeometryCollection:
		for _, k := range t {
			out = pointRefs(k, out)
		}
	case *geom.Bounds:
		out = append(out, &t.Min, &t.Max)
	}
	return out
}

// shape = snapshot with the coordinates zeroed
func sameShape(a, b geom.Geom) bool {
	z := func(g geom.Geom) []uint64 {
		c := clone(g)
		for _, p := range pointRefs(c, nil) {
			*p = geom.Point{}
		}
		return snap(nil, c)
	}
	if _, ok := a.(geom.Point); ok {
		return false // a Point value has no addressable storage to overwrite
	}
	for _, m := range flattenGC(a) {
		if _, ok := m.(geom.Point); ok {
			return false
		}
	}
	return sameSnap(z(a), z(b))
}

func flattenGC(g geom.Geom) []geom.Geom {
	if t, ok := g.(geom.GeometryCollection); ok {
		var r []geom.Geom
		for _, k := range t {
			r = append(r, flattenGC(k)...)
		}
		return r
	}
	return []geom.Geom{g}
}

func clone(g geom.Geom) geom.Geom {
	p := vproto.NewParser(vproto.GeomToks(g))
	return p.Geom()
}

// ---- evaluation --------------------------------------------------------------------------

// evalPair makes the four calls and checks the operands after each; returns the two answers or a
// fault description in their place.
func evalPair(a, b geom.Geom, tol float64, sa, sb []uint64) (string, string) {
	var r [4]string
	for i := 0; i < 4; i++ {
		if i%2 == 0 {
			r[i] = res(func() bool { return a.Similar(b, tol) })
		} else {
			r[i] = res(func() bool { return b.Similar(a, tol) })
		}
		if !sameSnap(snap(nil, a), sa) || !sameSnap(snap(nil, b), sb) {
			w := fmt.Sprintf("modified:operand-changed-by-call-%d", i+1)
			if i%2 == 0 {
				return w, r[i]
			}
			return r[i-1], w
		}
	}
	if r[2] != r[0] {
		return "unstable:repeat-of-A.Similar(B)-gave-" + r[2] + "-after-" + r[0], r[1]
	}
	if r[3] != r[1] {
		return r[0], "unstable:repeat-of-B.Similar(A)-gave-" + r[3] + "-after-" + r[1]
	}
	return r[0], r[1]
}

// evalAll runs every layout; the first layout whose answers differ from the plain layout's is
// reported (with "@layout"), otherwise the plain answers.
func evalAll(a, b geom.Geom, tol float64) (string, string, string) {
	sa, sb := snap(nil, a), snap(nil, b)
	// pristine copies (never passed to Similar) from which the other layouts are built
	a0, b0 := clone(a), clone(b)
	p1, p2 := evalPair(a, b, tol, sa, sb)
	if len(p1) > 1 || len(p2) > 1 { // panic / modified / unstable already in the plain layout
		return p1, p2, ""
	}
	a, b = a0, b0
	type lay struct {
		name string
		a, b geom.Geom
	}
	var lays []lay
	lays = append(lays, lay{"packed", pack(a), pack(b)})
	// one flat buffer for BOTH operands
	both := pack(geom.GeometryCollection{a, b}).(geom.GeometryCollection)
	if _, ok := a.(geom.Point); !ok {
		if _, ok := b.(geom.Point); !ok {
			lays = append(lays, lay{"packed-together", both[0], both[1]})
		}
	}
	n := 0
	a2 := clone(a)
	b2 := share(a2, clone(b), &n)
	a3 := share(b2, a2, &n)
	if n > 0 {
		lays = append(lays, lay{"shared", a3, b2})
	}
	lays = append(lays, lay{"nilled", nilled(clone(a)), nilled(clone(b))})
	if sameShape(a, b) {
		pa, pb := pack(a), pack(a)
		src := pointRefs(clone(b), nil)
		org := pointRefs(clone(a), nil)
		dst := pointRefs(pb, nil)
		if len(src) == len(dst) && len(org) == len(dst) {
			set := func(from []*geom.Point) {
				for i := range dst {
					*dst[i] = *from[i]
				}
			}
			// the SAME call (same receiver, same argument, same addresses and lengths) immediately
			// before and after the argument's coordinates are overwritten, in either direction: a
			// result remembered under the operands' addresses (one entry or many) answers stale
			vproto.Safe(func() { pa.Similar(pb, tol) })
			set(src)
			q1 := res(func() bool { return pa.Similar(pb, tol) })
			set(org)
			vproto.Safe(func() { pb.Similar(pa, tol) })
			set(src)
			q2 := res(func() bool { return pb.Similar(pa, tol) })
			if q1 != p1 || q2 != p2 {
				return q1, q2, "@inplace"
			}
			set(org)
			vproto.Safe(func() { pa.Similar(pb, tol); pb.Similar(pa, tol) })
			set(src)
			lays = append(lays, lay{"inplace", pa, pb})
		}
	}
	for _, l := range lays {
		if !sameSnap(snap(nil, l.a), sa) || !sameSnap(snap(nil, l.b), sb) {
			return "badline:layout-" + l.name + "-does-not-reproduce-the-operands", "badline", ""
		}
		q1, q2 := evalPair(l.a, l.b, tol, sa, sb)
		if q1 != p1 || q2 != p2 {
			return q1, q2, "@" + l.name
		}
	}
	return p1, p2, ""
}
