// Normalised source text of the functions of the anchored files whose Lean model is still written by
// hand (Model.lean): emitted into Gen/GoParse.lean as `handModel_src` and pinned by `rfl` theorems in
// ProofsPins.lean, so that an edit to one of them stops the build (broken tie) even where no generated
// input can show it.
package main

import (
	"fmt"
	"go/ast"
	"strings"
)

// closureOf returns the function literal assigned to the result variable `name` inside constructor fd.
func closureOf(fd *ast.FuncDecl, name string) *ast.FuncLit {
	var lit *ast.FuncLit
	ast.Inspect(fd.Body, func(n ast.Node) bool {
		as, ok := n.(*ast.AssignStmt)
		if !ok || len(as.Lhs) != 1 || len(as.Rhs) != 1 {
			return true
		}
		if id, ok := as.Lhs[0].(*ast.Ident); ok && id.Name == name {
			if fl, ok := as.Rhs[0].(*ast.FuncLit); ok {
				lit = fl
			}
		}
		return true
	})
	if lit == nil {
		die("%s: closure %s not found", fd.Name.Name, name)
	}
	return lit
}

func (t *tr) genHandPins(b *strings.Builder) {
	type ent struct{ key, text string }
	var es []ent
	add := func(file, fn string) {
		es = append(es, ent{file + ":" + fn, t.srcText(findFunc(t.p, file, fn))})
	}
	add("datum.go", "getDatum")
	add("datum.go", "geocentric_to_geodetic")
	add("datum_transform.go", "datumTransform")
	add("transform.go", "checkNotWGS")
	add("transform.go", "NewTransform")
	add("transform.go", "transform3")
	es = append(es, ent{"tmerc.go:TMerc.inverse", t.srcText(closureOf(findFunc(t.p, "tmerc.go", "TMerc"), "inverse"))})
	es = append(es, ent{"krovak.go:Krovak.inverse", t.srcText(closureOf(findFunc(t.p, "krovak.go", "Krovak"), "inverse"))})
	b.WriteString("/-- normalised source text (go/printer, one line) of the functions whose Lean model is written by hand\n    (`Model.getDatum`, `Model.geocentric_to_geodetic`, `Model.datumTransform`, `Model.checkNotWGS`, `Model.transform*`,\n    `Model.tmercInv`, `Model.krovakInv`): pinned by `ProofsPins.*_pinned` -/\ndef handModel_src : List (String × String) :=\n  [")
	for i, e := range es {
		if i > 0 {
			b.WriteString(",\n   ")
		}
		fmt.Fprintf(b, "(%s, %s)", leanStr(e.key), leanStr(e.text))
	}
	b.WriteString("]\n\n")
}
