package main

// Translation of the straight-line closures of the projection constructors (`forward = func(lon, lat
// float64) (x, y float64, err error) {...}`) and of the straight-line methods of datum.go into Lean
// definitions over the number class. What a closure reads from outside becomes a NAMED parameter:
// `this.X0` -> `this_X0`, `this.datum_params[3]` -> `this_datum_params_3`, a captured local `K0` ->
// `K0` (floats : α; `this.sphere` : Bool; `this.datum_type` : Nat). Constant expressions are folded
// by go/types as in common.go. Control flow is translated by continuation duplication:
// `if c {A}; rest` becomes `if c then [A; rest] else [rest]`, so assignments inside branches need no
// tuples. Loops are outside this subset (the closures that have one stay hand-written models).

import (
	"fmt"
	"go/ast"
	"go/token"
	"go/types"
	"sort"
	"strings"
)

type cl struct {
	t        *tr
	name     string
	lo, hi   token.Pos
	floats   map[string]bool
	bools    map[string]bool
	nats     map[string]bool
	results  []string // named results (floats), in order
	hasErr   bool
	nres     int // number of float results
	pkgFuncs map[string]bool
}

func (c *cl) fail(n ast.Node, f string, a ...interface{}) {
	panic(untranslatable{fmt.Sprintf("%s: %s", c.t.p.fset.Position(n.Pos()), fmt.Sprintf(f, a...))})
}

func isThis(e ast.Expr) bool {
	id, ok := e.(*ast.Ident)
	return ok && id.Name == "this"
}

func (c *cl) hook(e ast.Expr) (string, bool) {
	info := c.t.p.info
	switch x := e.(type) {
	case *ast.SelectorExpr:
		if isThis(x.X) {
			n := "this_" + x.Sel.Name
			tv := info.Types[e]
			if b, ok := tv.Type.Underlying().(*types.Basic); ok {
				switch {
				case b.Info()&types.IsFloat != 0:
					c.floats[n] = true
				case b.Info()&types.IsBoolean != 0:
					c.bools[n] = true
				case b.Info()&types.IsInteger != 0:
					c.nats[n] = true
				default:
					c.fail(e, "field %s of unsupported type", x.Sel.Name)
				}
				return n, true
			}
			c.fail(e, "field %s of unsupported type", x.Sel.Name)
		}
	case *ast.IndexExpr:
		if s, ok := x.X.(*ast.SelectorExpr); ok && isThis(s.X) {
			tv := info.Types[x.Index]
			if tv.Value == nil {
				c.fail(e, "non-constant index")
			}
			n := fmt.Sprintf("this_%s_%s", s.Sel.Name, tv.Value.ExactString())
			c.floats[n] = true
			return n, true
		}
	case *ast.Ident:
		if obj, ok := info.Uses[x].(*types.Var); ok {
			outside := obj.Pos() < c.lo || obj.Pos() > c.hi
			if outside && obj.Parent() != obj.Pkg().Scope() && !obj.IsField() {
				if b, ok := obj.Type().Underlying().(*types.Basic); ok && b.Info()&types.IsFloat != 0 {
					c.floats[x.Name] = true
					return leanIdent(x.Name), true
				}
				if x.Name != "this" {
					c.fail(e, "captured variable %s of unsupported type %s", x.Name, obj.Type())
				}
			}
		}
	}
	return "", false
}

func (c *cl) okTuple(es []string) string {
	v := "(" + strings.Join(es, ", ") + ")"
	if c.hasErr {
		return "(Except.ok " + v + ")"
	}
	return v
}

func errMsg(e ast.Expr) string {
	msg := "error"
	ast.Inspect(e, func(n ast.Node) bool {
		if bl, ok := n.(*ast.BasicLit); ok && bl.Kind == token.STRING && msg == "error" {
			msg = strings.Trim(bl.Value, "\"`")
		}
		return true
	})
	if i := strings.Index(msg, "%"); i > 0 { // keep the constant head of a format string
		msg = strings.TrimRight(msg[:i], " (:")
	}
	return msg
}

func isNil(e ast.Expr) bool { id, ok := e.(*ast.Ident); return ok && id.Name == "nil" }
func isErrIdent(e ast.Expr) bool {
	id, ok := e.(*ast.Ident)
	return ok && id.Name == "err"
}

// declaredIn: names declared (var / :=) by the top-level statements of a block
func declaredIn(stmts []ast.Stmt) []string {
	var out []string
	for _, s := range stmts {
		switch x := s.(type) {
		case *ast.DeclStmt:
			if gd, ok := x.Decl.(*ast.GenDecl); ok && gd.Tok == token.VAR {
				for _, sp := range gd.Specs {
					for _, n := range sp.(*ast.ValueSpec).Names {
						out = append(out, n.Name)
					}
				}
			}
		case *ast.AssignStmt:
			if x.Tok == token.DEFINE {
				for _, l := range x.Lhs {
					if id, ok := l.(*ast.Ident); ok {
						out = append(out, id.Name)
					}
				}
			}
		}
	}
	return out
}

type cctx struct {
	pend  string          // a pending `err = fmt.Errorf(...)`
	errOK bool            // we are past a successful `v, err = f(...)`: `if err != nil` cannot hold
	scope map[string]bool // names visible
}

func (x cctx) with(names ...string) cctx {
	m := map[string]bool{}
	for k := range x.scope {
		m[k] = true
	}
	for _, n := range names {
		m[n] = true
	}
	return cctx{x.pend, x.errOK, m}
}

func (c *cl) block(stmts []ast.Stmt, cx cctx, ind string) string {
	t := c.t
	if len(stmts) == 0 {
		// end of a body with named results = bare return
		if len(c.results) > 0 {
			if cx.pend != "" {
				return "(Except.error " + leanStr(cx.pend) + ")"
			}
			var es []string
			for _, r := range c.results {
				es = append(es, leanIdent(r))
			}
			return c.okTuple(es)
		}
		panic(untranslatable{"closure " + c.name + ": control reaches the end without return"})
	}
	s, rest := stmts[0], stmts[1:]
	switch x := s.(type) {
	case *ast.ReturnStmt:
		if len(x.Results) == 0 {
			return c.block(nil, cx, ind)
		}
		n := len(x.Results)
		if c.hasErr {
			last := x.Results[n-1]
			if !isNil(last) {
				if isErrIdent(last) && cx.pend == "" {
					c.fail(s, "return of an err that was not set here")
				}
				msg := cx.pend
				if !isErrIdent(last) {
					msg = errMsg(last)
				}
				return "(Except.error " + leanStr(msg) + ")"
			}
			n--
		}
		if n != c.nres {
			c.fail(s, "return with %d values", n)
		}
		var es []string
		for _, r := range x.Results[:n] {
			es = append(es, t.expr(r))
		}
		return c.okTuple(es)
	case *ast.DeclStmt:
		gd := x.Decl.(*ast.GenDecl)
		if gd.Tok == token.CONST {
			return c.block(rest, cx, ind)
		}
		if gd.Tok != token.VAR {
			c.fail(s, "declaration %s", gd.Tok)
		}
		var b strings.Builder
		var names []string
		for _, sp := range gd.Specs {
			vs := sp.(*ast.ValueSpec)
			for i, nm := range vs.Names {
				if id, ok := vs.Type.(*ast.Ident); ok && id.Name != "float64" {
					// an int work variable (`var ok int`) is outside the subset
					c.fail(s, "variable %s of type %s", nm.Name, id.Name)
				}
				val := "0"
				if i < len(vs.Values) {
					val = t.expr(vs.Values[i])
				}
				names = append(names, nm.Name)
				fmt.Fprintf(&b, "let %s : α := %s\n%s", leanIdent(nm.Name), val, ind)
			}
		}
		return b.String() + c.block(rest, cx.with(names...), ind)
	case *ast.AssignStmt:
		// err = fmt.Errorf(...)
		if len(x.Lhs) == 1 && isErrIdent(x.Lhs[0]) {
			if isNil(x.Rhs[0]) {
				return c.block(rest, cctx{"", cx.errOK, cx.scope}, ind)
			}
			return c.block(rest, cctx{errMsg(x.Rhs[0]), false, cx.scope}, ind)
		}
		// v, err = f(...)
		if len(x.Lhs) == 2 && isErrIdent(x.Lhs[1]) && len(x.Rhs) == 1 {
			id, ok := x.Lhs[0].(*ast.Ident)
			call, ok2 := x.Rhs[0].(*ast.CallExpr)
			if !ok || !ok2 {
				c.fail(s, "two-valued assignment")
			}
			fn, ok := call.Fun.(*ast.Ident)
			if !ok || !c.pkgFuncs[fn.Name] {
				c.fail(s, "call of %v is outside the subset", call.Fun)
			}
			var args []string
			for _, a := range call.Args {
				args = append(args, t.expr(a))
			}
			in2 := ind + "  "
			return fmt.Sprintf("match (%s %s) with\n%s| Except.error e => Except.error e\n%s| Except.ok %s =>\n%s%s",
				leanIdent(fn.Name), strings.Join(args, " "), ind, ind, leanIdent(id.Name), in2,
				c.block(rest, cctx{"", true, cx.with(id.Name).scope}, in2))
		}
		// x, y = y, x
		if len(x.Lhs) == 2 && len(x.Rhs) == 2 && x.Tok == token.ASSIGN {
			a, ok1 := x.Lhs[0].(*ast.Ident)
			b, ok2 := x.Lhs[1].(*ast.Ident)
			if !ok1 || !ok2 {
				c.fail(s, "tuple assignment")
			}
			r1, r2 := t.expr(x.Rhs[0]), t.expr(x.Rhs[1])
			return fmt.Sprintf("let t1' : α := %s\n%slet t2' : α := %s\n%slet %s : α := t1'\n%slet %s : α := t2'\n%s",
				r1, ind, r2, ind, leanIdent(a.Name), ind, leanIdent(b.Name), ind) + c.block(rest, cx, ind)
		}
		if len(x.Lhs) != 1 || len(x.Rhs) != 1 {
			c.fail(s, "multi-assignment")
		}
		id, ok := x.Lhs[0].(*ast.Ident)
		if !ok {
			c.fail(s, "assignment to non-identifier")
		}
		if tv, ok := t.p.info.Types[x.Rhs[0]]; ok {
			if b, ok := tv.Type.Underlying().(*types.Basic); !ok || b.Info()&types.IsFloat == 0 {
				if tv.Value == nil || b == nil || b.Info()&types.IsNumeric == 0 {
					c.fail(s, "assignment of a non-float value to %s", id.Name)
				}
			}
		}
		if obj := t.p.info.ObjectOf(id); obj != nil {
			if b, ok := obj.Type().Underlying().(*types.Basic); !ok || b.Info()&types.IsFloat == 0 {
				c.fail(s, "assignment to the non-float variable %s", id.Name)
			}
		}
		rhs := t.expr(x.Rhs[0])
		nc := cx
		switch x.Tok {
		case token.DEFINE:
			nc = cx.with(id.Name)
		case token.ASSIGN:
		case token.ADD_ASSIGN:
			rhs = "(" + leanIdent(id.Name) + " + " + rhs + ")"
		case token.SUB_ASSIGN:
			rhs = "(" + leanIdent(id.Name) + " - " + rhs + ")"
		case token.MUL_ASSIGN:
			rhs = "(" + leanIdent(id.Name) + " * " + rhs + ")"
		case token.QUO_ASSIGN:
			rhs = "(" + leanIdent(id.Name) + " / " + rhs + ")"
		default:
			c.fail(s, "assignment operator %s", x.Tok)
		}
		return fmt.Sprintf("let %s : α := %s\n%s", leanIdent(id.Name), rhs, ind) + c.block(rest, nc, ind)
	case *ast.IfStmt:
		if x.Init != nil {
			c.fail(s, "if with init statement")
		}
		th, el := x.Body.List, elseList(x)
		// `if err != nil { ... }` right after a successful two-valued call
		if be, ok := x.Cond.(*ast.BinaryExpr); ok && isErrIdent(be.X) && isNil(be.Y) {
			if be.Op == token.NEQ && cx.errOK && x.Else == nil {
				return c.block(rest, cx, ind)
			}
			c.fail(s, "test of err outside the recognised pattern")
		}
		// a block-local declaration must not shadow an outer name that the continuation still reads
		if len(rest) > 0 || len(c.results) > 0 {
			for _, blk := range [][]ast.Stmt{th, el} {
				if terminates(blk) {
					continue
				}
				for _, n := range declaredIn(blk) {
					if cx.scope[n] {
						c.fail(s, "block-local %s shadows an outer variable", n)
					}
				}
			}
		}
		cond := t.expr(x.Cond)
		in2 := ind + "  "
		a := c.block(append(append([]ast.Stmt{}, th...), rest...), cx, in2)
		b := c.block(append(append([]ast.Stmt{}, el...), rest...), cx, in2)
		return fmt.Sprintf("if %s then\n%s%s\n%selse\n%s%s", cond, in2, a, ind, in2, b)
	case *ast.BlockStmt:
		return c.block(append(append([]ast.Stmt{}, x.List...), rest...), cx, ind)
	}
	c.fail(s, "statement %T is outside the subset", s)
	return ""
}

// translate one function-like body. params: positional float parameters; results from the type.
func (t *tr) closure(name string, typ *ast.FuncType, body *ast.BlockStmt, pkgFuncs map[string]bool) (res string, err error) {
	defer func() {
		if r := recover(); r != nil {
			if u, ok := r.(untranslatable); ok {
				err = fmt.Errorf("%s", u.msg)
				return
			}
			panic(r)
		}
	}()
	c := &cl{t: t, name: name, lo: body.Pos(), hi: body.End(), floats: map[string]bool{}, bools: map[string]bool{}, nats: map[string]bool{}, pkgFuncs: pkgFuncs}
	// parameters are declared before body.Pos(): treat them as inside
	c.lo = typ.Pos()
	var pos []string
	scope := map[string]bool{}
	for _, f := range typ.Params.List {
		if id, ok := f.Type.(*ast.Ident); !ok || id.Name != "float64" {
			return "", fmt.Errorf("%s: parameter type outside the subset", name)
		}
		for _, n := range f.Names {
			pos = append(pos, n.Name)
			scope[n.Name] = true
		}
	}
	if typ.Results == nil {
		return "", fmt.Errorf("%s: no result", name)
	}
	named := false
	for _, f := range typ.Results.List {
		id, ok := f.Type.(*ast.Ident)
		if !ok {
			return "", fmt.Errorf("%s: result type outside the subset", name)
		}
		k := len(f.Names)
		if k == 0 {
			k = 1
		} else {
			named = true
		}
		switch id.Name {
		case "float64":
			c.nres += k
			for _, n := range f.Names {
				c.results = append(c.results, n.Name)
				scope[n.Name] = true
			}
		case "error":
			c.hasErr = true
		default:
			return "", fmt.Errorf("%s: result type %s outside the subset", name, id.Name)
		}
	}
	if !named {
		c.results = nil
	}
	old := t.hook
	t.hook = c.hook
	defer func() { t.hook = old }()
	bodyS := c.block(body.List, cctx{scope: scope}, "  ")
	var init strings.Builder
	for _, r := range c.results {
		fmt.Fprintf(&init, "let %s : α := 0\n  ", leanIdent(r))
	}
	sorted := func(m map[string]bool) []string {
		var l []string
		for k := range m {
			l = append(l, k)
		}
		sort.Strings(l)
		return l
	}
	var binders strings.Builder
	if fl := sorted(c.floats); len(fl) > 0 {
		var l []string
		for _, v := range fl {
			l = append(l, leanIdent(v))
		}
		fmt.Fprintf(&binders, "(%s : α) ", strings.Join(l, " "))
	}
	if nl := sorted(c.nats); len(nl) > 0 {
		fmt.Fprintf(&binders, "(%s : Nat) ", strings.Join(nl, " "))
	}
	if bl := sorted(c.bools); len(bl) > 0 {
		fmt.Fprintf(&binders, "(%s : Bool) ", strings.Join(bl, " "))
	}
	if len(pos) > 0 {
		var l []string
		for _, v := range pos {
			l = append(l, leanIdent(v))
		}
		fmt.Fprintf(&binders, "(%s : α) ", strings.Join(l, " "))
	}
	tup := strings.TrimSuffix(strings.Repeat("α × ", c.nres), " × ")
	resTy := tup
	if c.hasErr {
		resTy = "Except String (" + tup + ")"
	}
	var b strings.Builder
	fmt.Fprintf(&b, "/-- `%s` (%s); read from outside: %s -/\n", name, t.p.fset.Position(body.Pos()),
		strings.Join(append(append(sorted(c.floats), sorted(c.nats)...), sorted(c.bools)...), " "))
	fmt.Fprintf(&b, "def %s {α : Type} [RTrans α] %s: %s :=\n  %s%s\n\n", name, binders.String(), resTy, init.String(), bodyS)
	return b.String(), nil
}

// closuresOf finds `forward = func...` / `inverse = func...` inside a constructor.
func closuresOf(fd *ast.FuncDecl) map[string]*ast.FuncLit {
	out := map[string]*ast.FuncLit{}
	ast.Inspect(fd.Body, func(n ast.Node) bool {
		as, ok := n.(*ast.AssignStmt)
		if !ok || len(as.Lhs) != 1 || len(as.Rhs) != 1 {
			return true
		}
		id, ok1 := as.Lhs[0].(*ast.Ident)
		fl, ok2 := as.Rhs[0].(*ast.FuncLit)
		if ok1 && ok2 && (id.Name == "forward" || id.Name == "inverse") {
			out[id.Name] = fl
		}
		return true
	})
	return out
}
