package main

// Translation of the straight-line closures of the projection constructors (`forward = func(lon, lat
// float64) (x, y float64, err error) {...}`) and of the straight-line methods of datum.go into Lean
// definitions over the number class. What a closure reads from outside becomes a NAMED parameter:
// `this.X0` -> `this_X0`, `this.datum_params[3]` -> `this_datum_params_3`, a captured local `K0` ->
// `K0` (floats : α; `this.sphere` : Bool; `this.datum_type` : Nat). Constant expressions are folded
// by go/types as in common.go. Control flow is translated by continuation duplication:
// `if c {A}; rest` becomes `if c then [A; rest] else [rest]`, so assignments inside branches need no
// tuples. Loops are outside this subset (the closures that have one stay hand-written models).

import (
	"fmt"
	"go/ast"
	"go/token"
	"go/types"
	"sort"
	"strings"
)

// ctorInfo: translation of a constructor body (the statements before its closures). Fields of
// `*SR` are mutable there: `this.F = e` rebinds `this_F`. A float that the body tests with
// `math.IsNaN` (a field `NewSR` left NaN, or a local copied from one) is "nanable": it is carried
// as `Option α` (`none` = still NaN), read through `optNum`, tested through `optNaN`, written as
// `some e` (or copied as an option when the right-hand side is itself a nanable read).
type ctorInfo struct {
	nanable     map[string]bool // "this_F" or a local name
	written     []string        // "this_F" of every assigned field, sorted
	initWritten map[string]bool // fields assigned unconditionally before any read: no parameter
	captured    []string        // locals the closures capture (floats), sorted
	tailCall    string          // `return TMerc(this)`
}

type cl struct {
	t        *tr
	name     string
	lo, hi   token.Pos
	ctor     *ctorInfo
	opts     map[string]bool
	floats   map[string]bool
	bools    map[string]bool
	nats     map[string]bool
	strs     map[string]bool
	ptrs     map[string]bool // further pointer-to-struct names read like `this` (`dest.a` -> `dest_a`); predicates only
	results  []string // named results (floats), in order
	hasErr   bool
	nres     int // number of float results
	pkgFuncs map[string]bool
}

func (c *cl) fail(n ast.Node, f string, a ...interface{}) {
	panic(untranslatable{fmt.Sprintf("%s: %s", c.t.p.fset.Position(n.Pos()), fmt.Sprintf(f, a...))})
}

func isThis(e ast.Expr) bool {
	id, ok := e.(*ast.Ident)
	return ok && id.Name == "this"
}

// refName: the variable a plain read denotes ("this_F" for `this.F`, the name of an identifier)
func refName(e ast.Expr) (string, bool) {
	for {
		p, ok := e.(*ast.ParenExpr)
		if !ok {
			break
		}
		e = p.X
	}
	switch x := e.(type) {
	case *ast.SelectorExpr:
		if isThis(x.X) {
			return "this_" + x.Sel.Name, true
		}
	case *ast.Ident:
		if x.Name != "this" && x.Name != "nil" && x.Name != "err" {
			return x.Name, true
		}
	}
	return "", false
}

func isMathCall(e ast.Expr, fn string) (*ast.CallExpr, bool) {
	c, ok := e.(*ast.CallExpr)
	if !ok {
		return nil, false
	}
	s, ok := c.Fun.(*ast.SelectorExpr)
	if !ok {
		return nil, false
	}
	id, ok := s.X.(*ast.Ident)
	return c, ok && id.Name == "math" && s.Sel.Name == fn && len(c.Args) == 1
}

// nanRead: e is a plain read of a nanable variable; records a field as an Option parameter
func (c *cl) nanRead(e ast.Expr) (string, bool) {
	if c.ctor == nil {
		return "", false
	}
	n, ok := refName(e)
	if !ok || !c.ctor.nanable[n] {
		return "", false
	}
	if strings.HasPrefix(n, "this_") && !c.ctor.initWritten[n] {
		c.opts[n] = true
	}
	return leanIdent(n), true
}

func (c *cl) hook(e ast.Expr) (string, bool) {
	info := c.t.p.info
	if call, ok := isMathCall(e, "IsNaN"); ok {
		if n, ok := c.nanRead(call.Args[0]); ok {
			return "(optNaN " + n + ")", true
		}
	}
	if n, ok := c.nanRead(e); ok {
		return "(optNum " + n + ")", true
	}
	if c.ptrs != nil {
		if sel, ok := e.(*ast.SelectorExpr); ok {
			if id, ok := sel.X.(*ast.Ident); ok && c.ptrs[id.Name] {
				n := id.Name + "_" + sel.Sel.Name
				if b, ok := info.Types[e].Type.Underlying().(*types.Basic); ok {
					switch {
					case b.Info()&types.IsFloat != 0:
						c.floats[n] = true
					case b.Info()&types.IsBoolean != 0:
						c.bools[n] = true
					case b.Info()&types.IsInteger != 0:
						c.nats[n] = true
					case b.Info()&types.IsString != 0:
						c.strs[n] = true
					default:
						c.fail(e, "field %s of unsupported type", sel.Sel.Name)
					}
					return n, true
				}
				c.fail(e, "field %s of unsupported type", sel.Sel.Name)
			}
		}
		if ix, ok := e.(*ast.IndexExpr); ok {
			if sel, ok := ix.X.(*ast.SelectorExpr); ok {
				if id, ok := sel.X.(*ast.Ident); ok && c.ptrs[id.Name] {
					tv := info.Types[ix.Index]
					if tv.Value == nil {
						c.fail(e, "non-constant index")
					}
					n := fmt.Sprintf("%s_%s_%s", id.Name, sel.Sel.Name, tv.Value.ExactString())
					c.floats[n] = true
					return n, true
				}
			}
		}
	}
	switch x := e.(type) {
	case *ast.SelectorExpr:
		if isThis(x.X) {
			n := "this_" + x.Sel.Name
			if c.ctor != nil && c.ctor.initWritten[n] {
				return n, true
			}
			tv := info.Types[e]
			if b, ok := tv.Type.Underlying().(*types.Basic); ok {
				switch {
				case b.Info()&types.IsFloat != 0:
					c.floats[n] = true
				case b.Info()&types.IsBoolean != 0:
					c.bools[n] = true
				case b.Info()&types.IsInteger != 0:
					c.nats[n] = true
				default:
					c.fail(e, "field %s of unsupported type", x.Sel.Name)
				}
				return n, true
			}
			c.fail(e, "field %s of unsupported type", x.Sel.Name)
		}
	case *ast.IndexExpr:
		if s, ok := x.X.(*ast.SelectorExpr); ok && isThis(s.X) {
			tv := info.Types[x.Index]
			if tv.Value == nil {
				c.fail(e, "non-constant index")
			}
			n := fmt.Sprintf("this_%s_%s", s.Sel.Name, tv.Value.ExactString())
			c.floats[n] = true
			return n, true
		}
	case *ast.Ident:
		if obj, ok := info.Uses[x].(*types.Var); ok {
			outside := obj.Pos() < c.lo || obj.Pos() > c.hi
			if outside && obj.Parent() != obj.Pkg().Scope() && !obj.IsField() {
				if b, ok := obj.Type().Underlying().(*types.Basic); ok && b.Info()&types.IsFloat != 0 {
					c.floats[x.Name] = true
					return leanIdent(x.Name), true
				}
				if x.Name != "this" {
					c.fail(e, "captured variable %s of unsupported type %s", x.Name, obj.Type())
				}
			}
		}
	}
	return "", false
}

func (c *cl) okTuple(es []string) string {
	v := "(" + strings.Join(es, ", ") + ")"
	if c.hasErr {
		return "(Except.ok " + v + ")"
	}
	return v
}

func errMsg(e ast.Expr) string {
	msg := "error"
	ast.Inspect(e, func(n ast.Node) bool {
		if bl, ok := n.(*ast.BasicLit); ok && bl.Kind == token.STRING && msg == "error" {
			msg = strings.Trim(bl.Value, "\"`")
		}
		return true
	})
	if i := strings.Index(msg, "%"); i > 0 { // keep the constant head of a format string
		msg = strings.TrimRight(msg[:i], " (:")
	}
	return msg
}

func isNil(e ast.Expr) bool { id, ok := e.(*ast.Ident); return ok && id.Name == "nil" }
func isErrIdent(e ast.Expr) bool {
	id, ok := e.(*ast.Ident)
	return ok && id.Name == "err"
}

// declaredIn: names declared (var / :=) by the top-level statements of a block
func declaredIn(stmts []ast.Stmt) []string {
	var out []string
	for _, s := range stmts {
		switch x := s.(type) {
		case *ast.DeclStmt:
			if gd, ok := x.Decl.(*ast.GenDecl); ok && gd.Tok == token.VAR {
				for _, sp := range gd.Specs {
					for _, n := range sp.(*ast.ValueSpec).Names {
						out = append(out, n.Name)
					}
				}
			}
		case *ast.AssignStmt:
			if x.Tok == token.DEFINE {
				for _, l := range x.Lhs {
					if id, ok := l.(*ast.Ident); ok {
						out = append(out, id.Name)
					}
				}
			}
		}
	}
	return out
}

type cctx struct {
	pend  string          // a pending `err = fmt.Errorf(...)`
	errOK bool            // we are past a successful `v, err = f(...)`: `if err != nil` cannot hold
	scope map[string]bool // names visible
	tail  string          // value of a branch that only assigns (constructor bodies): the assigned variables
}

func (x cctx) with(names ...string) cctx {
	m := map[string]bool{}
	for k := range x.scope {
		m[k] = true
	}
	for _, n := range names {
		m[n] = true
	}
	return cctx{x.pend, x.errOK, m, x.tail}
}

func (c *cl) block(stmts []ast.Stmt, cx cctx, ind string) string {
	t := c.t
	if len(stmts) == 0 && cx.tail != "" {
		return cx.tail
	}
	if len(stmts) == 0 && c.ctor != nil {
		if cx.pend != "" {
			return "(Except.error " + leanStr(cx.pend) + ")"
		}
		var es []string
		for _, r := range c.ctor.captured {
			es = append(es, leanIdent(r))
		}
		for _, r := range c.ctor.written {
			es = append(es, leanIdent(r))
		}
		if len(es) == 0 {
			return "(Except.ok ())"
		}
		return c.okTuple(es)
	}
	if len(stmts) == 0 {
		// end of a body with named results = bare return
		if len(c.results) > 0 {
			if cx.pend != "" {
				return "(Except.error " + leanStr(cx.pend) + ")"
			}
			var es []string
			for _, r := range c.results {
				es = append(es, leanIdent(r))
			}
			return c.okTuple(es)
		}
		panic(untranslatable{"closure " + c.name + ": control reaches the end without return"})
	}
	s, rest := stmts[0], stmts[1:]
	switch x := s.(type) {
	case *ast.ReturnStmt:
		if len(x.Results) == 0 {
			return c.block(nil, cx, ind)
		}
		if c.ctor != nil {
			last := x.Results[len(x.Results)-1]
			if call, ok := last.(*ast.CallExpr); ok && len(x.Results) == 1 {
				// `return TMerc(this)`: the rest is the other constructor's
				if fn, ok := call.Fun.(*ast.Ident); ok && len(call.Args) == 1 && isThis(call.Args[0]) {
					c.ctor.tailCall = fn.Name
					return c.block(nil, cx, ind)
				}
			}
			if len(x.Results) == 3 && !isNil(last) && !isErrIdent(last) {
				return "(Except.error " + leanStr(errMsg(last)) + ")"
			}
			c.fail(s, "return of a constructor outside the recognised patterns")
		}
		n := len(x.Results)
		if c.hasErr {
			last := x.Results[n-1]
			if !isNil(last) {
				if isErrIdent(last) && cx.pend == "" {
					c.fail(s, "return of an err that was not set here")
				}
				msg := cx.pend
				if !isErrIdent(last) {
					msg = errMsg(last)
				}
				return "(Except.error " + leanStr(msg) + ")"
			}
			n--
		}
		if n != c.nres {
			c.fail(s, "return with %d values", n)
		}
		var es []string
		for _, r := range x.Results[:n] {
			es = append(es, t.expr(r))
		}
		return c.okTuple(es)
	case *ast.DeclStmt:
		gd := x.Decl.(*ast.GenDecl)
		if gd.Tok == token.CONST {
			return c.block(rest, cx, ind)
		}
		if gd.Tok != token.VAR {
			c.fail(s, "declaration %s", gd.Tok)
		}
		var b strings.Builder
		var names []string
		for _, sp := range gd.Specs {
			vs := sp.(*ast.ValueSpec)
			for i, nm := range vs.Names {
				if id, ok := vs.Type.(*ast.Ident); ok && id.Name != "float64" {
					// an int work variable (`var ok int`) is outside the subset
					c.fail(s, "variable %s of type %s", nm.Name, id.Name)
				}
				val := "0"
				if i < len(vs.Values) {
					val = t.expr(vs.Values[i])
				}
				names = append(names, nm.Name)
				fmt.Fprintf(&b, "let %s : α := %s\n%s", leanIdent(nm.Name), val, ind)
			}
		}
		return b.String() + c.block(rest, cx.with(names...), ind)
	case *ast.AssignStmt:
		// err = fmt.Errorf(...)
		if len(x.Lhs) == 1 && isErrIdent(x.Lhs[0]) {
			if isNil(x.Rhs[0]) {
				return c.block(rest, cctx{"", cx.errOK, cx.scope, cx.tail}, ind)
			}
			return c.block(rest, cctx{errMsg(x.Rhs[0]), false, cx.scope, cx.tail}, ind)
		}
		// v, err = f(...)
		if len(x.Lhs) == 2 && isErrIdent(x.Lhs[1]) && len(x.Rhs) == 1 {
			id, ok := x.Lhs[0].(*ast.Ident)
			call, ok2 := x.Rhs[0].(*ast.CallExpr)
			if !ok || !ok2 {
				c.fail(s, "two-valued assignment")
			}
			fn, ok := call.Fun.(*ast.Ident)
			if !ok || !c.pkgFuncs[fn.Name] {
				c.fail(s, "call of %v is outside the subset", call.Fun)
			}
			var args []string
			for _, a := range call.Args {
				args = append(args, t.expr(a))
			}
			in2 := ind + "  "
			return fmt.Sprintf("match (%s %s) with\n%s| Except.error e => Except.error e\n%s| Except.ok %s =>\n%s%s",
				leanIdent(fn.Name), strings.Join(args, " "), ind, ind, leanIdent(id.Name), in2,
				c.block(rest, cctx{"", true, cx.with(id.Name).scope, cx.tail}, in2))
		}
		// x, y = y, x
		if len(x.Lhs) == 2 && len(x.Rhs) == 2 && x.Tok == token.ASSIGN {
			a, ok1 := x.Lhs[0].(*ast.Ident)
			b, ok2 := x.Lhs[1].(*ast.Ident)
			if !ok1 || !ok2 {
				c.fail(s, "tuple assignment")
			}
			r1, r2 := t.expr(x.Rhs[0]), t.expr(x.Rhs[1])
			return fmt.Sprintf("let t1' : α := %s\n%slet t2' : α := %s\n%slet %s : α := t1'\n%slet %s : α := t2'\n%s",
				r1, ind, r2, ind, leanIdent(a.Name), ind, leanIdent(b.Name), ind) + c.block(rest, cx, ind)
		}
		if len(x.Lhs) != 1 || len(x.Rhs) != 1 {
			c.fail(s, "multi-assignment")
		}
		if c.ctor != nil {
			name, ok := refName(x.Lhs[0])
			if !ok {
				c.fail(s, "assignment target")
			}
			if tv, ok := t.p.info.Types[x.Lhs[0]]; ok {
				if b, ok := tv.Type.Underlying().(*types.Basic); !ok || b.Info()&types.IsFloat == 0 {
					c.fail(s, "assignment to the non-float %s", name)
				}
			}
			nan := c.ctor.nanable[name]
			cur := leanIdent(name)
			if nan {
				cur = "(optNum " + cur + ")"
			}
			var rhs string
			copied := false
			if x.Tok == token.DEFINE || x.Tok == token.ASSIGN {
				if src, ok := c.nanRead(x.Rhs[0]); ok && nan {
					rhs, copied = src, true
				}
			}
			if !copied {
				rhs = t.expr(x.Rhs[0])
			}
			nc := cx
			switch x.Tok {
			case token.DEFINE:
				nc = cx.with(name)
			case token.ASSIGN:
			case token.ADD_ASSIGN:
				rhs = "(" + cur + " + " + rhs + ")"
			case token.SUB_ASSIGN:
				rhs = "(" + cur + " - " + rhs + ")"
			case token.MUL_ASSIGN:
				rhs = "(" + cur + " * " + rhs + ")"
			case token.QUO_ASSIGN:
				rhs = "(" + cur + " / " + rhs + ")"
			default:
				c.fail(s, "assignment operator %s", x.Tok)
			}
			ty := "α"
			if nan {
				ty = "Option α"
				if !copied {
					rhs = "(some " + rhs + ")"
				}
			}
			return fmt.Sprintf("let %s : %s := %s\n%s", leanIdent(name), ty, rhs, ind) + c.block(rest, nc, ind)
		}
		id, ok := x.Lhs[0].(*ast.Ident)
		if !ok {
			c.fail(s, "assignment to non-identifier")
		}
		if tv, ok := t.p.info.Types[x.Rhs[0]]; ok {
			if b, ok := tv.Type.Underlying().(*types.Basic); !ok || b.Info()&types.IsFloat == 0 {
				if tv.Value == nil || b == nil || b.Info()&types.IsNumeric == 0 {
					c.fail(s, "assignment of a non-float value to %s", id.Name)
				}
			}
		}
		if obj := t.p.info.ObjectOf(id); obj != nil {
			if b, ok := obj.Type().Underlying().(*types.Basic); !ok || b.Info()&types.IsFloat == 0 {
				c.fail(s, "assignment to the non-float variable %s", id.Name)
			}
		}
		rhs := t.expr(x.Rhs[0])
		nc := cx
		switch x.Tok {
		case token.DEFINE:
			nc = cx.with(id.Name)
		case token.ASSIGN:
		case token.ADD_ASSIGN:
			rhs = "(" + leanIdent(id.Name) + " + " + rhs + ")"
		case token.SUB_ASSIGN:
			rhs = "(" + leanIdent(id.Name) + " - " + rhs + ")"
		case token.MUL_ASSIGN:
			rhs = "(" + leanIdent(id.Name) + " * " + rhs + ")"
		case token.QUO_ASSIGN:
			rhs = "(" + leanIdent(id.Name) + " / " + rhs + ")"
		default:
			c.fail(s, "assignment operator %s", x.Tok)
		}
		return fmt.Sprintf("let %s : α := %s\n%s", leanIdent(id.Name), rhs, ind) + c.block(rest, nc, ind)
	case *ast.IfStmt:
		if x.Init != nil {
			c.fail(s, "if with init statement")
		}
		th, el := x.Body.List, elseList(x)
		if c.ctor != nil && effectOnly(th) && effectOnly(el) {
			// both branches only assign: join them instead of duplicating the continuation
			var vs []string
			effAssigned(th, &vs)
			effAssigned(el, &vs)
			if len(vs) > 0 {
				var names, tys []string
				for _, v := range vs {
					names = append(names, leanIdent(v))
					if c.ctor.nanable[v] {
						tys = append(tys, "Option α")
					} else {
						tys = append(tys, "α")
					}
					if strings.HasPrefix(v, "this_") && !c.ctor.initWritten[v] && !cx.scope[v] && !(topAssigns(th, v) && topAssigns(el, v)) {
						// the untouched branch reads the incoming value
						if c.ctor.nanable[v] {
							c.opts[v] = true
						} else {
							c.floats[v] = true
						}
					}
				}
				pat, ty, tl := names[0], tys[0], names[0]
				if len(vs) > 1 {
					pat = "(" + strings.Join(names, ", ") + ")"
					ty = strings.Join(tys, " × ")
					tl = pat
				}
				cond := t.expr(x.Cond)
				in2 := ind + "  "
				sub := cctx{cx.pend, cx.errOK, cx.scope, tl}
				a := c.block(th, sub, in2)
				b := c.block(el, sub, in2)
				return fmt.Sprintf("let %s : %s := if %s then\n%s%s\n%selse\n%s%s\n%s", pat, ty, cond, in2, a, ind, in2, b, ind) +
					c.block(rest, cx.with(vs...), ind)
			}
		}
		// `if err != nil { ... }` right after a successful two-valued call
		if be, ok := x.Cond.(*ast.BinaryExpr); ok && isErrIdent(be.X) && isNil(be.Y) {
			if be.Op == token.NEQ && cx.errOK && x.Else == nil {
				return c.block(rest, cx, ind)
			}
			c.fail(s, "test of err outside the recognised pattern")
		}
		// a block-local declaration must not shadow an outer name that the continuation still reads
		if len(rest) > 0 || len(c.results) > 0 {
			for _, blk := range [][]ast.Stmt{th, el} {
				if terminates(blk) {
					continue
				}
				for _, n := range declaredIn(blk) {
					if cx.scope[n] {
						c.fail(s, "block-local %s shadows an outer variable", n)
					}
				}
			}
		}
		cond := t.expr(x.Cond)
		in2 := ind + "  "
		a := c.block(append(append([]ast.Stmt{}, th...), rest...), cx, in2)
		b := c.block(append(append([]ast.Stmt{}, el...), rest...), cx, in2)
		return fmt.Sprintf("if %s then\n%s%s\n%selse\n%s%s", cond, in2, a, ind, in2, b)
	case *ast.BlockStmt:
		return c.block(append(append([]ast.Stmt{}, x.List...), rest...), cx, ind)
	}
	c.fail(s, "statement %T is outside the subset", s)
	return ""
}

// translate one function-like body. params: positional float parameters; results from the type.
func (t *tr) closure(name string, typ *ast.FuncType, body *ast.BlockStmt, pkgFuncs map[string]bool) (res string, err error) {
	defer func() {
		if r := recover(); r != nil {
			if u, ok := r.(untranslatable); ok {
				err = fmt.Errorf("%s", u.msg)
				return
			}
			panic(r)
		}
	}()
	c := &cl{t: t, name: name, lo: body.Pos(), hi: body.End(), floats: map[string]bool{}, bools: map[string]bool{}, nats: map[string]bool{}, pkgFuncs: pkgFuncs}
	// parameters are declared before body.Pos(): treat them as inside
	c.lo = typ.Pos()
	var pos []string
	scope := map[string]bool{}
	for _, f := range typ.Params.List {
		if id, ok := f.Type.(*ast.Ident); !ok || id.Name != "float64" {
			return "", fmt.Errorf("%s: parameter type outside the subset", name)
		}
		for _, n := range f.Names {
			pos = append(pos, n.Name)
			scope[n.Name] = true
		}
	}
	if typ.Results == nil {
		return "", fmt.Errorf("%s: no result", name)
	}
	named := false
	for _, f := range typ.Results.List {
		id, ok := f.Type.(*ast.Ident)
		if !ok {
			return "", fmt.Errorf("%s: result type outside the subset", name)
		}
		k := len(f.Names)
		if k == 0 {
			k = 1
		} else {
			named = true
		}
		switch id.Name {
		case "float64":
			c.nres += k
			for _, n := range f.Names {
				c.results = append(c.results, n.Name)
				scope[n.Name] = true
			}
		case "error":
			c.hasErr = true
		default:
			return "", fmt.Errorf("%s: result type %s outside the subset", name, id.Name)
		}
	}
	if !named {
		c.results = nil
	}
	old := t.hook
	t.hook = c.hook
	defer func() { t.hook = old }()
	bodyS := c.block(body.List, cctx{scope: scope}, "  ")
	var init strings.Builder
	for _, r := range c.results {
		fmt.Fprintf(&init, "let %s : α := 0\n  ", leanIdent(r))
	}
	sorted := func(m map[string]bool) []string {
		var l []string
		for k := range m {
			l = append(l, k)
		}
		sort.Strings(l)
		return l
	}
	var binders strings.Builder
	if fl := sorted(c.floats); len(fl) > 0 {
		var l []string
		for _, v := range fl {
			l = append(l, leanIdent(v))
		}
		fmt.Fprintf(&binders, "(%s : α) ", strings.Join(l, " "))
	}
	if nl := sorted(c.nats); len(nl) > 0 {
		fmt.Fprintf(&binders, "(%s : Nat) ", strings.Join(nl, " "))
	}
	if bl := sorted(c.bools); len(bl) > 0 {
		fmt.Fprintf(&binders, "(%s : Bool) ", strings.Join(bl, " "))
	}
	if len(pos) > 0 {
		var l []string
		for _, v := range pos {
			l = append(l, leanIdent(v))
		}
		fmt.Fprintf(&binders, "(%s : α) ", strings.Join(l, " "))
	}
	tup := strings.TrimSuffix(strings.Repeat("α × ", c.nres), " × ")
	resTy := tup
	if c.hasErr {
		resTy = "Except String (" + tup + ")"
	}
	var b strings.Builder
	fmt.Fprintf(&b, "/-- `%s` (%s); read from outside: %s -/\n", name, t.p.fset.Position(body.Pos()),
		strings.Join(append(append(sorted(c.floats), sorted(c.nats)...), sorted(c.bools)...), " "))
	fmt.Fprintf(&b, "def %s {α : Type} [RTrans α] %s: %s :=\n  %s%s\n\n", name, binders.String(), resTy, init.String(), bodyS)
	return b.String(), nil
}

// predicate translates a bool-valued function or method that only READS its pointer-to-struct
// receiver/parameters (`this.a`, `dest.datum_params[3]`, `this.nadGrids`) and integer parameters:
// `compare_datums`, `checkDatumParams`. Every field read becomes a named parameter.
func (t *tr) predicate(name string, fd *ast.FuncDecl) (res string, err error) {
	defer func() {
		if r := recover(); r != nil {
			if u, ok := r.(untranslatable); ok {
				err = fmt.Errorf("%s", u.msg)
				return
			}
			panic(r)
		}
	}()
	typ, body := fd.Type, fd.Body
	c := &cl{t: t, name: name, lo: typ.Pos(), hi: body.End(), floats: map[string]bool{}, bools: map[string]bool{}, nats: map[string]bool{},
		strs: map[string]bool{}, ptrs: map[string]bool{}, pkgFuncs: map[string]bool{}}
	if fd.Recv != nil {
		c.lo = fd.Recv.Pos()
		for _, f := range fd.Recv.List {
			if _, ok := f.Type.(*ast.StarExpr); !ok {
				return "", fmt.Errorf("%s: receiver outside the subset", name)
			}
			for _, n := range f.Names {
				c.ptrs[n.Name] = true
			}
		}
	}
	var posNat []string
	scope := map[string]bool{}
	for _, f := range typ.Params.List {
		switch ty := f.Type.(type) {
		case *ast.StarExpr:
			for _, n := range f.Names {
				c.ptrs[n.Name] = true
			}
		case *ast.Ident:
			tv := t.p.info.Types[f.Type]
			b, ok := tv.Type.Underlying().(*types.Basic)
			if !ok || b.Info()&types.IsInteger == 0 {
				return "", fmt.Errorf("%s: parameter type %s outside the subset", name, ty.Name)
			}
			for _, n := range f.Names {
				posNat = append(posNat, n.Name)
				scope[n.Name] = true
			}
		default:
			return "", fmt.Errorf("%s: parameter type outside the subset", name)
		}
	}
	if typ.Results == nil || len(typ.Results.List) != 1 || len(typ.Results.List[0].Names) != 0 {
		return "", fmt.Errorf("%s: result outside the subset", name)
	}
	if id, ok := typ.Results.List[0].Type.(*ast.Ident); !ok || id.Name != "bool" {
		return "", fmt.Errorf("%s: result is not bool", name)
	}
	// assignments are outside the subset of a predicate
	bad := ""
	ast.Inspect(body, func(n ast.Node) bool {
		switch n.(type) {
		case *ast.AssignStmt, *ast.IncDecStmt, *ast.ForStmt, *ast.RangeStmt, *ast.DeferStmt, *ast.GoStmt:
			bad = fmt.Sprintf("%T", n)
		}
		return true
	})
	if bad != "" {
		return "", fmt.Errorf("%s: statement %s outside the subset of a predicate", name, bad)
	}
	c.nres = 1
	old := t.hook
	t.hook = c.hook
	defer func() { t.hook = old }()
	bodyS := c.block(body.List, cctx{scope: scope}, "  ")
	sorted := func(m map[string]bool) []string {
		var l []string
		for k := range m {
			l = append(l, k)
		}
		sort.Strings(l)
		return l
	}
	var binders strings.Builder
	for _, g := range []struct {
		m  map[string]bool
		ty string
	}{{c.floats, "α"}, {c.nats, "Nat"}, {c.bools, "Bool"}, {c.strs, "String"}} {
		if l := sorted(g.m); len(l) > 0 {
			var ids []string
			for _, v := range l {
				ids = append(ids, leanIdent(v))
			}
			fmt.Fprintf(&binders, "(%s : %s) ", strings.Join(ids, " "), g.ty)
		}
	}
	if len(posNat) > 0 {
		fmt.Fprintf(&binders, "(%s : Nat) ", strings.Join(posNat, " "))
	}
	var b strings.Builder
	fmt.Fprintf(&b, "/-- `%s` (%s); read from outside: %s -/\n", name, t.p.fset.Position(body.Pos()),
		strings.Join(append(append(append(sorted(c.floats), sorted(c.nats)...), sorted(c.bools)...), sorted(c.strs)...), " "))
	fmt.Fprintf(&b, "def %s {α : Type} [RTrans α] %s: Bool :=\n  %s\n\n", name, binders.String(), bodyS)
	return b.String(), nil
}

// closuresOf finds `forward = func...` / `inverse = func...` inside a constructor.
func closuresOf(fd *ast.FuncDecl) map[string]*ast.FuncLit {
	out := map[string]*ast.FuncLit{}
	ast.Inspect(fd.Body, func(n ast.Node) bool {
		as, ok := n.(*ast.AssignStmt)
		if !ok || len(as.Lhs) != 1 || len(as.Rhs) != 1 {
			return true
		}
		id, ok1 := as.Lhs[0].(*ast.Ident)
		fl, ok2 := as.Rhs[0].(*ast.FuncLit)
		if ok1 && ok2 && (id.Name == "forward" || id.Name == "inverse") {
			out[id.Name] = fl
		}
		return true
	})
	return out
}

// ---------------------------------------------------------------- constructor bodies

// ctorBody: the statements of a constructor before its closures
func ctorBody(fd *ast.FuncDecl) []ast.Stmt {
	var out []ast.Stmt
	for _, s := range fd.Body.List {
		if as, ok := s.(*ast.AssignStmt); ok && len(as.Lhs) == 1 && len(as.Rhs) == 1 {
			if id, ok := as.Lhs[0].(*ast.Ident); ok && (id.Name == "forward" || id.Name == "inverse") {
				if _, ok := as.Rhs[0].(*ast.FuncLit); ok {
					break
				}
			}
		}
		out = append(out, s)
	}
	return out
}

func (c *cl) prepass(stmts []ast.Stmt) {
	ci := c.ctor
	// nanable: a FIELD that is an argument of math.IsNaN (it may still hold NewSR's NaN); a LOCAL that
	// is tested and receives a plain copy of a field (`K0 := this.K0; if math.IsNaN(K0)`). A tested
	// local that only holds computed values is an ordinary float (`RNum.isNaN`).
	tested := map[string]bool{}
	for _, s := range stmts {
		ast.Inspect(s, func(n ast.Node) bool {
			if e, ok := n.(ast.Expr); ok {
				if call, ok := isMathCall(e, "IsNaN"); ok {
					if nm, ok := refName(call.Args[0]); ok {
						if strings.HasPrefix(nm, "this_") {
							ci.nanable[nm] = true
						} else {
							tested[nm] = true
						}
					}
				}
			}
			return true
		})
	}
	// a plain copy of a field into a nanable (or into a tested local) makes both nanable
	for changed := true; changed; {
		changed = false
		for _, s := range stmts {
			ast.Inspect(s, func(n ast.Node) bool {
				if as, ok := n.(*ast.AssignStmt); ok && len(as.Lhs) == 1 && len(as.Rhs) == 1 && (as.Tok == token.ASSIGN || as.Tok == token.DEFINE) {
					l, ok1 := refName(as.Lhs[0])
					r, ok2 := refName(as.Rhs[0])
					if ok1 && ok2 && strings.HasPrefix(r, "this_") && (ci.nanable[l] || tested[l]) {
						if !ci.nanable[l] || !ci.nanable[r] {
							ci.nanable[l], ci.nanable[r] = true, true
							changed = true
						}
					}
				}
				return true
			})
		}
	}
	// written fields
	seen := map[string]bool{}
	for _, s := range stmts {
		ast.Inspect(s, func(n ast.Node) bool {
			if as, ok := n.(*ast.AssignStmt); ok {
				for _, l := range as.Lhs {
					if nm, ok := refName(l); ok && strings.HasPrefix(nm, "this_") && !seen[nm] {
						seen[nm] = true
						ci.written = append(ci.written, nm)
					}
				}
			}
			return true
		})
	}
	sort.Strings(ci.written)
	// fields assigned unconditionally (top level, plain `=`) before any read
	read := map[string]bool{}
	reads := func(n ast.Node) {
		ast.Inspect(n, func(m ast.Node) bool {
			if sel, ok := m.(*ast.SelectorExpr); ok && isThis(sel.X) {
				read["this_"+sel.Sel.Name] = true
			}
			return true
		})
	}
	for _, s := range stmts {
		if as, ok := s.(*ast.AssignStmt); ok && len(as.Lhs) == 1 && len(as.Rhs) == 1 && as.Tok == token.ASSIGN {
			if nm, ok := refName(as.Lhs[0]); ok && strings.HasPrefix(nm, "this_") {
				reads(as.Rhs[0])
				if !read[nm] {
					ci.initWritten[nm] = true
				}
				continue
			}
		}
		reads(s)
	}
}

// ctorInit translates the body of constructor `fd` before its closures: a function of the `*SR`
// fields it reads, returning the captured locals and the final values of the fields it writes.
func (t *tr) ctorInit(name string, fd *ast.FuncDecl, captured []string) (res string, err error) {
	defer func() {
		if r := recover(); r != nil {
			if u, ok := r.(untranslatable); ok {
				err = fmt.Errorf("%s", u.msg)
				return
			}
			panic(r)
		}
	}()
	stmts := ctorBody(fd)
	c := &cl{t: t, name: name, lo: fd.Type.Pos(), hi: fd.Body.End(), floats: map[string]bool{}, bools: map[string]bool{},
		nats: map[string]bool{}, opts: map[string]bool{}, pkgFuncs: map[string]bool{}, hasErr: true,
		ctor: &ctorInfo{nanable: map[string]bool{}, initWritten: map[string]bool{}, captured: captured}}
	c.prepass(stmts)
	old := t.hook
	t.hook = c.hook
	defer func() { t.hook = old }()
	body := c.block(stmts, cctx{scope: map[string]bool{}}, "  ")
	sorted := func(m map[string]bool) []string {
		var l []string
		for k := range m {
			l = append(l, k)
		}
		sort.Strings(l)
		return l
	}
	var binders strings.Builder
	if fl := sorted(c.floats); len(fl) > 0 {
		fmt.Fprintf(&binders, "(%s : α) ", strings.Join(fl, " "))
	}
	if ol := sorted(c.opts); len(ol) > 0 {
		fmt.Fprintf(&binders, "(%s : Option α) ", strings.Join(ol, " "))
	}
	if nl := sorted(c.nats); len(nl) > 0 {
		fmt.Fprintf(&binders, "(%s : Nat) ", strings.Join(nl, " "))
	}
	if bl := sorted(c.bools); len(bl) > 0 {
		fmt.Fprintf(&binders, "(%s : Bool) ", strings.Join(bl, " "))
	}
	var tys []string
	for _, v := range append(append([]string{}, c.ctor.captured...), c.ctor.written...) {
		if c.ctor.nanable[v] {
			tys = append(tys, "Option α")
		} else {
			tys = append(tys, "α")
		}
	}
	resTy := "Unit"
	if len(tys) > 0 {
		resTy = strings.Join(tys, " × ")
	}
	var b strings.Builder
	tail := ""
	if c.ctor.tailCall != "" {
		tail = "; then `" + c.ctor.tailCall + "(this)`"
	}
	fmt.Fprintf(&b, "/-- body of constructor `%s` (%s) before its closures%s.\n    reads: %s\n    returns (captured locals, then written fields): %s -/\n",
		fd.Name.Name, t.p.fset.Position(fd.Pos()), tail,
		strings.Join(append(append(append(sorted(c.floats), sorted(c.opts)...), sorted(c.nats)...), sorted(c.bools)...), " "),
		strings.Join(append(append([]string{}, c.ctor.captured...), c.ctor.written...), " "))
	fmt.Fprintf(&b, "def %s {α : Type} [RTrans α] %s: Except String (%s) :=\n  %s\n\n", name, binders.String(), resTy, body)
	return b.String(), nil
}

// capturedBy: the constructor's locals that the translated closures read
func (t *tr) capturedBy(fd *ast.FuncDecl) []string {
	set := map[string]bool{}
	for _, fl := range closuresOf(fd) {
		lo, hi := fl.Pos(), fl.End()
		ast.Inspect(fl.Body, func(n ast.Node) bool {
			id, ok := n.(*ast.Ident)
			if !ok {
				return true
			}
			if obj, ok := t.p.info.Uses[id].(*types.Var); ok && !obj.IsField() && obj.Parent() != obj.Pkg().Scope() {
				if (obj.Pos() < lo || obj.Pos() > hi) && obj.Pos() > fd.Body.Pos() {
					if b, ok := obj.Type().Underlying().(*types.Basic); ok && b.Info()&types.IsFloat != 0 {
						set[id.Name] = true
					}
				}
			}
			return true
		})
	}
	var l []string
	for k := range set {
		l = append(l, k)
	}
	sort.Strings(l)
	return l
}

// effectOnly: the statements only assign floats (plain or compound assignment, no declaration, no
// `err`, no return), possibly under nested ifs of the same kind
func effectOnly(stmts []ast.Stmt) bool {
	for _, s := range stmts {
		switch x := s.(type) {
		case *ast.AssignStmt:
			if x.Tok == token.DEFINE || len(x.Lhs) != 1 || len(x.Rhs) != 1 {
				return false
			}
			if n, ok := refName(x.Lhs[0]); !ok || n == "" {
				return false
			}
			if isErrIdent(x.Lhs[0]) {
				return false
			}
		case *ast.IfStmt:
			if x.Init != nil || !effectOnly(x.Body.List) || !effectOnly(elseList(x)) {
				return false
			}
		case *ast.BlockStmt:
			if !effectOnly(x.List) {
				return false
			}
		default:
			return false
		}
	}
	return true
}

func effAssigned(stmts []ast.Stmt, acc *[]string) {
	add := func(n string) {
		for _, s := range *acc {
			if s == n {
				return
			}
		}
		*acc = append(*acc, n)
	}
	for _, s := range stmts {
		switch x := s.(type) {
		case *ast.AssignStmt:
			if n, ok := refName(x.Lhs[0]); ok {
				add(n)
			}
		case *ast.IfStmt:
			effAssigned(x.Body.List, acc)
			effAssigned(elseList(x), acc)
		case *ast.BlockStmt:
			effAssigned(x.List, acc)
		}
	}
}

// topAssigns: the block assigns v unconditionally (a plain `=` at its top level)
func topAssigns(stmts []ast.Stmt, v string) bool {
	for _, s := range stmts {
		if as, ok := s.(*ast.AssignStmt); ok && as.Tok == token.ASSIGN && len(as.Lhs) == 1 {
			if n, ok := refName(as.Lhs[0]); ok && n == v {
				return true
			}
		}
	}
	return false
}
