// Command extract regenerates lean/GeomV/C09/Gen/*.lean from the CURRENT sources (tie T1):
//
//	Gen/GoCommon.lean  Lean definitions of the pure arithmetic functions of proj/common.go
//	                   (generic over the number class RTrans), constant expressions folded by
//	                   go/types, so Go's untyped-constant semantics are the compiler's;
//	                   plus every package-level numeric constant of package proj.
//	Gen/Tables.lean    the ellipsoid / datum / prime-meridian / unit tables read from the Go
//	                   source (go/ast + go/types constant values) and from the vendored
//	                   proj4js JavaScript (regex over the object literals), decimal literals
//	                   kept exact.
//
// usage: extract --repo /repo --out /verif/lean/GeomV/C09/Gen
//
// The tool reads source text only; it never builds or runs /repo.
package main

import (
	"flag"
	"fmt"
	"go/ast"
	"go/constant"
	"go/importer"
	"go/parser"
	"go/token"
	"go/types"
	"math/big"
	"os"
	"path/filepath"
	"regexp"
	"sort"
	"strings"
)

func die(f string, a ...interface{}) {
	fmt.Fprintf(os.Stderr, "c09 extract: "+f+"\n", a...)
	os.Exit(1)
}

// ---------------------------------------------------------------- exact decimals

// dec renders a rational as the Lean term `⟨num, den, exp10⟩ : Dec`, value num/(den*10^exp10).
// Finite decimals get den = 1 and no trailing zero in num; other rationals are reduced with
// exp10 = 0.
func decOf(r *big.Rat) string {
	num := new(big.Int).Set(r.Num())
	den := new(big.Int).Set(r.Denom())
	// is den of the form 2^a 5^b ?
	d := new(big.Int).Set(den)
	a, b := 0, 0
	two, five, zero := big.NewInt(2), big.NewInt(5), big.NewInt(0)
	m := new(big.Int)
	for m.Mod(d, two).Cmp(zero) == 0 {
		d.Div(d, two)
		a++
	}
	for m.Mod(d, five).Cmp(zero) == 0 {
		d.Div(d, five)
		b++
	}
	if d.Cmp(big.NewInt(1)) != 0 {
		return fmt.Sprintf("⟨%s, %s, 0⟩", num.String(), den.String())
	}
	k := a
	if b > k {
		k = b
	}
	// num/den = num * (10^k/den) / 10^k
	p := new(big.Int).Exp(big.NewInt(10), big.NewInt(int64(k)), nil)
	p.Div(p, den)
	num.Mul(num, p)
	ten := big.NewInt(10)
	for k > 0 && m.Mod(num, ten).Cmp(zero) == 0 {
		num.Div(num, ten)
		k--
	}
	return fmt.Sprintf("⟨%s, 1, %d⟩", num.String(), k)
}

// litOf renders a rational as a Lean numeric literal usable at any RNum type: a decimal literal
// when finite, `(num / den)` otherwise.
func litOf(r *big.Rat) string {
	neg := r.Sign() < 0
	ab := new(big.Rat).Abs(r)
	var s string
	if ab.IsInt() {
		s = ab.Num().String()
	} else {
		d := new(big.Int).Set(ab.Denom())
		two, five, zero := big.NewInt(2), big.NewInt(5), big.NewInt(0)
		m := new(big.Int)
		a, b := 0, 0
		for m.Mod(d, two).Cmp(zero) == 0 {
			d.Div(d, two)
			a++
		}
		for m.Mod(d, five).Cmp(zero) == 0 {
			d.Div(d, five)
			b++
		}
		if d.Cmp(big.NewInt(1)) == 0 {
			k := a
			if b > k {
				k = b
			}
			s = ab.FloatString(k)
			s = strings.TrimRight(s, "0")
		} else {
			s = fmt.Sprintf("(%s / %s)", ab.Num().String(), ab.Denom().String())
		}
	}
	if neg {
		return "(-" + s + ")"
	}
	return s
}

func ratOfConst(v constant.Value) (*big.Rat, bool) {
	switch v.Kind() {
	case constant.Int, constant.Float:
		n, d := constant.Num(v), constant.Denom(v)
		if n.Kind() != constant.Int || d.Kind() != constant.Int {
			return nil, false
		}
		nb, ok1 := new(big.Int).SetString(n.ExactString(), 10)
		db, ok2 := new(big.Int).SetString(d.ExactString(), 10)
		if !ok1 || !ok2 {
			return nil, false
		}
		return new(big.Rat).SetFrac(nb, db), true
	}
	return nil, false
}

func leanStr(s string) string {
	s = strings.ReplaceAll(s, "\\", "\\\\")
	s = strings.ReplaceAll(s, "\"", "\\\"")
	return "\"" + s + "\""
}

// ---------------------------------------------------------------- Go package loading

type pkgInfo struct {
	fset  *token.FileSet
	files map[string]*ast.File // base name -> file
	info  *types.Info
	// package-level constant object -> initialiser expression
	constInit map[types.Object]ast.Expr
	typeErrs  []string
	pkg       *types.Package
}

// exact returns the value of a constant expression as the compiler computes it BEFORE the
// implicit conversion to its float64 context (go/types records the value rounded to float64 at
// use sites): the expression is re-checked standalone, so `35 / 3072` is the untyped integer
// constant 0 and `35.0 / 3072.0` the exact untyped float constant 35/3072.
func (p *pkgInfo) exact(e ast.Expr) constant.Value {
	info := &types.Info{Types: map[ast.Expr]types.TypeAndValue{}}
	if err := types.CheckExpr(p.fset, p.pkg, e.Pos(), e, info); err == nil {
		if tv, ok := info.Types[e]; ok && tv.Value != nil {
			return tv.Value
		}
	}
	if tv, ok := p.info.Types[e]; ok {
		return tv.Value
	}
	return nil
}

type softImporter struct{ src types.Importer }

func (s softImporter) Import(path string) (*types.Package, error) {
	if !strings.Contains(path, ".") { // standard library
		return s.src.Import(path)
	}
	// third-party imports are not needed for the files we translate
	return types.NewPackage(path, filepath.Base(path)), nil
}

func loadProj(dir string) *pkgInfo {
	p := &pkgInfo{fset: token.NewFileSet(), files: map[string]*ast.File{}, constInit: map[types.Object]ast.Expr{}}
	ents, err := os.ReadDir(dir)
	if err != nil {
		die("%v", err)
	}
	var fs []*ast.File
	for _, e := range ents {
		n := e.Name()
		if !strings.HasSuffix(n, ".go") || strings.HasSuffix(n, "_test.go") {
			continue
		}
		f, err := parser.ParseFile(p.fset, filepath.Join(dir, n), nil, 0)
		if err != nil {
			die("parse %s: %v", n, err)
		}
		p.files[n] = f
		fs = append(fs, f)
	}
	p.info = &types.Info{Types: map[ast.Expr]types.TypeAndValue{}, Uses: map[*ast.Ident]types.Object{}, Defs: map[*ast.Ident]types.Object{}}
	conf := types.Config{
		Importer: softImporter{importer.ForCompiler(p.fset, "source", nil)},
		Error:    func(err error) { p.typeErrs = append(p.typeErrs, err.Error()) },
	}
	p.pkg, _ = conf.Check("proj", p.fset, fs, p.info) // errors (e.g. the stubbed gonum import) are collected, not fatal
	for _, f := range fs {
		ast.Inspect(f, func(n ast.Node) bool { // constants at every level (krovak.go declares them inside the constructor)
			gd, ok := n.(*ast.GenDecl)
			if !ok || gd.Tok != token.CONST {
				return true
			}
			for _, s := range gd.Specs {
				vs := s.(*ast.ValueSpec)
				for i, nm := range vs.Names {
					if i < len(vs.Values) {
						p.constInit[p.info.Defs[nm]] = vs.Values[i]
					}
				}
			}
			return true
		})
	}
	return p
}

// ---------------------------------------------------------------- Go -> Lean translator (restricted subset)

type tr struct {
	hook  func(e ast.Expr) (string, bool) // closure translation: receiver fields, captured variables
	p     *pkgInfo
	funcs map[string]*ast.FuncDecl
	out   *strings.Builder // extra top-level definitions (loops) emitted before the current function
	cur   string
	nloop int
}

type untranslatable struct{ msg string }

func (t *tr) fail(n ast.Node, f string, a ...interface{}) {
	panic(untranslatable{fmt.Sprintf("%s: %s", t.p.fset.Position(n.Pos()), fmt.Sprintf(f, a...))})
}

func (t *tr) isMathPi(e ast.Expr) bool {
	s, ok := e.(*ast.SelectorExpr)
	if !ok {
		return false
	}
	x, ok := s.X.(*ast.Ident)
	return ok && x.Name == "math" && s.Sel.Name == "Pi"
}

// mentionsPi: does the constant expression depend on math.Pi (directly or through a named constant)?
func (t *tr) mentionsPi(e ast.Expr) bool {
	found := false
	ast.Inspect(e, func(n ast.Node) bool {
		if found {
			return false
		}
		switch x := n.(type) {
		case *ast.SelectorExpr:
			if t.isMathPi(x) {
				found = true
			}
			return false
		case *ast.Ident:
			if obj, ok := t.p.info.Uses[x].(*types.Const); ok {
				if init, ok := t.p.constInit[obj]; ok && t.mentionsPi(init) {
					found = true
				}
			}
		}
		return true
	})
	return found
}

func (t *tr) constLit(e ast.Expr, v constant.Value) string {
	switch v.Kind() {
	case constant.Bool:
		if constant.BoolVal(v) {
			return "true"
		}
		return "false"
	case constant.Int, constant.Float:
		r, ok := ratOfConst(v)
		if !ok {
			t.fail(e, "constant %s is not an exact rational", v.String())
		}
		return litOf(r)
	}
	t.fail(e, "constant of kind %v", v.Kind())
	return ""
}

var mathFns = map[string]string{
	"Sqrt": "RTrans.sqrt", "Sin": "RTrans.sin", "Cos": "RTrans.cos", "Tan": "RTrans.tan",
	"Asin": "RTrans.asin", "Acos": "RTrans.acos", "Atan": "RTrans.atan", "Exp": "RTrans.exp",
	"Log": "RTrans.log", "Atan2": "RTrans.atan2", "Pow": "RTrans.pow", "Abs": "RNum.abs",
}

func (t *tr) expr(e ast.Expr) string {
	if tv, ok := t.p.info.Types[e]; ok && tv.Value != nil && !t.mentionsPi(e) {
		return t.constLit(e, t.p.exact(e))
	}
	if t.hook != nil {
		if s, ok := t.hook(e); ok {
			return s
		}
	}
	switch x := e.(type) {
	case *ast.ParenExpr:
		return "(" + t.expr(x.X) + ")"
	case *ast.Ident:
		if obj, ok := t.p.info.Uses[x].(*types.Const); ok {
			init, ok := t.p.constInit[obj]
			if !ok {
				t.fail(e, "constant %s without initialiser", x.Name)
			}
			return "(" + t.expr(init) + ")"
		}
		return leanIdent(x.Name)
	case *ast.SelectorExpr:
		if t.isMathPi(x) {
			return "RTrans.pi"
		}
		t.fail(e, "selector %s", x.Sel.Name)
	case *ast.UnaryExpr:
		switch x.Op {
		case token.SUB:
			return "(-" + t.expr(x.X) + ")"
		case token.ADD:
			return t.expr(x.X)
		case token.NOT:
			return "(!" + t.expr(x.X) + ")"
		}
		t.fail(e, "unary %s", x.Op)
	case *ast.BinaryExpr:
		a, b := t.expr(x.X), t.expr(x.Y)
		switch x.Op {
		case token.ADD, token.SUB, token.MUL, token.QUO:
			if bt, ok := t.p.info.Types[e]; ok {
				if basic, ok := bt.Type.Underlying().(*types.Basic); !ok || basic.Info()&types.IsFloat == 0 {
					t.fail(e, "non-float arithmetic of type %s", bt.Type)
				}
			}
			return "(" + a + " " + x.Op.String() + " " + b + ")"
		case token.LSS:
			return "(RNum.lt " + a + " " + b + ")"
		case token.LEQ:
			return "(RNum.le " + a + " " + b + ")"
		case token.GTR:
			return "(RNum.gt " + a + " " + b + ")"
		case token.GEQ:
			return "(RNum.ge " + a + " " + b + ")"
		case token.EQL:
			if t.isIntegral(x.X) {
				return "(" + a + " == " + b + ")"
			}
			return "(RNum.eq " + a + " " + b + ")"
		case token.NEQ:
			if t.isIntegral(x.X) {
				return "(" + a + " != " + b + ")"
			}
			return "(RNum.ne " + a + " " + b + ")"
		case token.LAND:
			return "(" + a + " && " + b + ")"
		case token.LOR:
			return "(" + a + " || " + b + ")"
		}
		t.fail(e, "binary %s", x.Op)
	case *ast.CallExpr:
		var args []string
		for _, a := range x.Args {
			args = append(args, t.expr(a))
		}
		switch f := x.Fun.(type) {
		case *ast.SelectorExpr:
			if id, ok := f.X.(*ast.Ident); ok && id.Name == "math" {
				if f.Sel.Name == "NaN" {
					return "RNum.nan"
				}
				if f.Sel.Name == "IsNaN" {
					return "(RNum.isNaN " + args[0] + ")"
				}
				if l, ok := mathFns[f.Sel.Name]; ok {
					return "(" + l + " " + strings.Join(args, " ") + ")"
				}
			}
			t.fail(e, "call of %s", f.Sel.Name)
		case *ast.Ident:
			if f.Name == "float64" && len(args) == 1 {
				return args[0]
			}
			if _, ok := t.funcs[f.Name]; ok {
				return "(" + leanIdent(f.Name) + " " + strings.Join(args, " ") + ")"
			}
			t.fail(e, "call of unknown function %s", f.Name)
		}
	}
	t.fail(e, "expression %T", e)
	return ""
}

func (t *tr) isIntegral(e ast.Expr) bool {
	if tv, ok := t.p.info.Types[e]; ok && tv.Type != nil {
		if b, ok := tv.Type.Underlying().(*types.Basic); ok {
			return b.Info()&(types.IsInteger|types.IsBoolean|types.IsString) != 0
		}
	}
	return false
}

func leanIdent(s string) string {
	switch s {
	case "at", "from", "to", "end", "fun", "do", "then", "else", "if", "let", "have", "show", "by", "in":
		return s + "'"
	}
	return s
}

type fnCtx struct {
	name    string
	twoRes  bool     // (float64, error)
	scope   []string // float variables in scope, in declaration order (params first)
	tail    string   // what "falling off the end" means ("" = not allowed)
	tailSet bool
}

func (c *fnCtx) declare(v string) {
	for _, s := range c.scope {
		if s == v {
			return
		}
	}
	c.scope = append(c.scope, v)
}

func terminates(stmts []ast.Stmt) bool {
	if len(stmts) == 0 {
		return false
	}
	switch s := stmts[len(stmts)-1].(type) {
	case *ast.ReturnStmt:
		return true
	case *ast.IfStmt:
		if s.Else == nil {
			return false
		}
		return terminates(s.Body.List) && terminates(elseList(s))
	}
	return false
}

func elseList(s *ast.IfStmt) []ast.Stmt {
	switch e := s.Else.(type) {
	case nil:
		return nil
	case *ast.BlockStmt:
		return e.List
	case *ast.IfStmt:
		return []ast.Stmt{e}
	}
	return nil
}

// assigned collects variables assigned (not declared) by the statements.
func assigned(stmts []ast.Stmt, acc *[]string) {
	add := func(n string) {
		for _, s := range *acc {
			if s == n {
				return
			}
		}
		*acc = append(*acc, n)
	}
	for _, s := range stmts {
		switch x := s.(type) {
		case *ast.AssignStmt:
			if x.Tok != token.DEFINE {
				for _, l := range x.Lhs {
					if id, ok := l.(*ast.Ident); ok {
						add(id.Name)
					}
				}
			}
		case *ast.IfStmt:
			assigned(x.Body.List, acc)
			assigned(elseList(x), acc)
		case *ast.BlockStmt:
			assigned(x.List, acc)
		}
	}
}

func tuple(vs []string) string {
	if len(vs) == 1 {
		return leanIdent(vs[0])
	}
	var l []string
	for _, v := range vs {
		l = append(l, leanIdent(v))
	}
	return "(" + strings.Join(l, ", ") + ")"
}

func (t *tr) ret(c *fnCtx, s *ast.ReturnStmt) string {
	if !c.twoRes {
		if len(s.Results) != 1 {
			t.fail(s, "return with %d results", len(s.Results))
		}
		return t.expr(s.Results[0])
	}
	if len(s.Results) != 2 {
		t.fail(s, "return with %d results", len(s.Results))
	}
	if id, ok := s.Results[1].(*ast.Ident); ok && id.Name == "nil" {
		return "(Except.ok " + t.expr(s.Results[0]) + ")"
	}
	msg := "error"
	ast.Inspect(s.Results[1], func(n ast.Node) bool {
		if bl, ok := n.(*ast.BasicLit); ok && bl.Kind == token.STRING && msg == "error" {
			msg = strings.Trim(bl.Value, "\"`")
		}
		return true
	})
	return "(Except.error " + leanStr(msg) + ")"
}

// block translates a statement list into a Lean term; `c.tail` is used when control falls off the end.
func (t *tr) block(c *fnCtx, stmts []ast.Stmt, ind string) string {
	if len(stmts) == 0 {
		if c.tail == "" {
			panic(untranslatable{"function " + c.name + ": control reaches the end of a block without return"})
		}
		return c.tail
	}
	s, rest := stmts[0], stmts[1:]
	switch x := s.(type) {
	case *ast.ReturnStmt:
		return t.ret(c, x)
	case *ast.DeclStmt:
		gd := x.Decl.(*ast.GenDecl)
		if gd.Tok != token.VAR {
			t.fail(s, "declaration %s", gd.Tok)
		}
		var b strings.Builder
		for _, sp := range gd.Specs {
			vs := sp.(*ast.ValueSpec)
			for i, nm := range vs.Names {
				val := "0"
				if i < len(vs.Values) {
					val = t.expr(vs.Values[i])
				}
				c.declare(nm.Name)
				fmt.Fprintf(&b, "let %s : α := %s\n%s", leanIdent(nm.Name), val, ind)
			}
		}
		return b.String() + t.block(c, rest, ind)
	case *ast.AssignStmt:
		if len(x.Lhs) != 1 || len(x.Rhs) != 1 {
			t.fail(s, "multi-assignment")
		}
		id, ok := x.Lhs[0].(*ast.Ident)
		if !ok {
			t.fail(s, "assignment to non-identifier")
		}
		rhs := t.expr(x.Rhs[0])
		switch x.Tok {
		case token.DEFINE:
			c.declare(id.Name)
		case token.ASSIGN:
		case token.ADD_ASSIGN:
			rhs = "(" + leanIdent(id.Name) + " + " + rhs + ")"
		case token.SUB_ASSIGN:
			rhs = "(" + leanIdent(id.Name) + " - " + rhs + ")"
		case token.MUL_ASSIGN:
			rhs = "(" + leanIdent(id.Name) + " * " + rhs + ")"
		case token.QUO_ASSIGN:
			rhs = "(" + leanIdent(id.Name) + " / " + rhs + ")"
		default:
			t.fail(s, "assignment operator %s", x.Tok)
		}
		return fmt.Sprintf("let %s : α := %s\n%s", leanIdent(id.Name), rhs, ind) + t.block(c, rest, ind)
	case *ast.IfStmt:
		if x.Init != nil {
			t.fail(s, "if with init statement")
		}
		cond := t.expr(x.Cond)
		th, el := x.Body.List, elseList(x)
		tt, et := terminates(th), terminates(el)
		in2 := ind + "  "
		switch {
		case tt && et:
			return fmt.Sprintf("if %s then\n%s%s\n%selse\n%s%s", cond, in2, t.block(c, th, in2), ind, in2, t.block(c, el, in2))
		case tt:
			return fmt.Sprintf("if %s then\n%s%s\n%selse\n%s%s", cond, in2, t.block(c, th, in2), ind, in2, t.block(c, append(append([]ast.Stmt{}, el...), rest...), in2))
		case et:
			return fmt.Sprintf("if %s then\n%s%s\n%selse\n%s%s", cond, in2, t.block(c, append(append([]ast.Stmt{}, th...), rest...), in2), ind, in2, t.block(c, el, in2))
		default:
			var vs []string
			assigned(th, &vs)
			assigned(el, &vs)
			if len(vs) == 0 {
				t.fail(s, "if statement without effect")
			}
			sub := &fnCtx{name: c.name, twoRes: c.twoRes, scope: append([]string{}, c.scope...), tail: tuple(vs)}
			a := t.block(sub, th, in2)
			sub2 := &fnCtx{name: c.name, twoRes: c.twoRes, scope: append([]string{}, c.scope...), tail: tuple(vs)}
			b := t.block(sub2, el, in2)
			return fmt.Sprintf("let %s := if %s then\n%s%s\n%selse\n%s%s\n%s", tuple(vs), cond, in2, a, ind, in2, b, ind) + t.block(c, rest, ind)
		}
	case *ast.ForStmt:
		return t.loop(c, x, rest, ind)
	case *ast.BlockStmt:
		return t.block(c, append(append([]ast.Stmt{}, x.List...), rest...), ind)
	}
	t.fail(s, "statement %T", s)
	return ""
}

// loop handles `for i := lo; i </<= hi; i++ { body }` whose body does not use i: it becomes a
// top-level function recursing on the remaining iteration count; the statements after the
// loop are its base case.
func (t *tr) loop(c *fnCtx, f *ast.ForStmt, rest []ast.Stmt, ind string) string {
	init, ok := f.Init.(*ast.AssignStmt)
	if !ok || init.Tok != token.DEFINE || len(init.Lhs) != 1 {
		t.fail(f, "loop init")
	}
	iv := init.Lhs[0].(*ast.Ident).Name
	lo, ok1 := constant.Int64Val(t.p.info.Types[init.Rhs[0]].Value)
	cond, ok := f.Cond.(*ast.BinaryExpr)
	if !ok {
		t.fail(f, "loop condition")
	}
	if id, ok := cond.X.(*ast.Ident); !ok || id.Name != iv {
		t.fail(f, "loop condition variable")
	}
	hv := t.p.info.Types[cond.Y].Value
	if hv == nil {
		t.fail(f, "loop bound is not constant")
	}
	hi, ok2 := constant.Int64Val(hv)
	if !ok1 || !ok2 {
		t.fail(f, "loop bounds")
	}
	var count int64
	switch cond.Op {
	case token.LSS:
		count = hi - lo
	case token.LEQ:
		count = hi - lo + 1
	default:
		t.fail(f, "loop comparison %s", cond.Op)
	}
	if inc, ok := f.Post.(*ast.IncDecStmt); !ok || inc.Tok != token.INC {
		t.fail(f, "loop post statement")
	}
	used := false
	ast.Inspect(f.Body, func(n ast.Node) bool {
		if id, ok := n.(*ast.Ident); ok && id.Name == iv {
			used = true
		}
		return true
	})
	if used {
		t.fail(f, "loop body uses the counter")
	}
	var state []string
	assigned(f.Body.List, &state)
	// state = assigned variables that exist outside the loop
	var st []string
	for _, v := range state {
		for _, s := range c.scope {
			if s == v {
				st = append(st, v)
			}
		}
	}
	var fixed []string
	for _, s := range c.scope {
		isState := false
		for _, v := range st {
			if v == s {
				isState = true
			}
		}
		if !isState {
			fixed = append(fixed, s)
		}
	}
	t.nloop++
	lname := fmt.Sprintf("%s_loop", c.name)
	if t.nloop > 1 {
		lname = fmt.Sprintf("%s_loop%d", c.name, t.nloop)
	}
	resTy := "α"
	if c.twoRes {
		resTy = "Except String α"
	}
	var fx, sx []string
	for _, v := range fixed {
		fx = append(fx, leanIdent(v))
	}
	for _, v := range st {
		sx = append(sx, leanIdent(v))
	}
	call := func(n string) string {
		return strings.TrimSpace(fmt.Sprintf("%s %s %s %s", lname, strings.Join(fx, " "), n, strings.Join(sx, " ")))
	}
	base := &fnCtx{name: c.name, twoRes: c.twoRes, scope: append([]string{}, c.scope...), tail: c.tail}
	baseBody := t.block(base, rest, "    ")
	step := &fnCtx{name: c.name, twoRes: c.twoRes, scope: append([]string{}, c.scope...), tail: "(" + call("n") + ")"}
	stepBody := t.block(step, f.Body.List, "    ")
	var b strings.Builder
	fmt.Fprintf(&b, "/-- loop of `%s` (%s): remaining iterations, then the loop-carried variables -/\n", c.name, t.p.fset.Position(f.Pos()))
	fmt.Fprintf(&b, "def %s {α : Type} [RTrans α] %s: Nat → %s%s\n", lname, params(fixed), strings.Repeat("α → ", len(st)), resTy)
	fmt.Fprintf(&b, "  | 0, %s =>\n    %s\n", strings.Join(sx, ", "), baseBody)
	fmt.Fprintf(&b, "  | n+1, %s =>\n    %s\n\n", strings.Join(sx, ", "), stepBody)
	t.out.WriteString(b.String())
	return "(" + call(fmt.Sprint(count)) + ")"
}

func params(vs []string) string {
	if len(vs) == 0 {
		return ""
	}
	var l []string
	for _, v := range vs {
		l = append(l, leanIdent(v))
	}
	return "(" + strings.Join(l, " ") + " : α) "
}

func (t *tr) fn(fd *ast.FuncDecl) (res string, err error) {
	defer func() {
		if r := recover(); r != nil {
			if u, ok := r.(untranslatable); ok {
				err = fmt.Errorf("%s", u.msg)
				return
			}
			panic(r)
		}
	}()
	if fd.Recv != nil {
		return "", fmt.Errorf("%s: methods are outside the subset", fd.Name.Name)
	}
	c := &fnCtx{name: fd.Name.Name}
	for _, f := range fd.Type.Params.List {
		if id, ok := f.Type.(*ast.Ident); !ok || id.Name != "float64" {
			return "", fmt.Errorf("%s: parameter type outside the subset", fd.Name.Name)
		}
		for _, n := range f.Names {
			c.declare(n.Name)
		}
	}
	rs := fd.Type.Results
	if rs == nil {
		return "", fmt.Errorf("%s: no result", fd.Name.Name)
	}
	var rt []string
	for _, f := range rs.List {
		if len(f.Names) > 0 {
			return "", fmt.Errorf("%s: named results are outside the subset", fd.Name.Name)
		}
		id, ok := f.Type.(*ast.Ident)
		if !ok {
			return "", fmt.Errorf("%s: result type outside the subset", fd.Name.Name)
		}
		rt = append(rt, id.Name)
	}
	resTy := "α"
	switch strings.Join(rt, ",") {
	case "float64":
	case "float64,error":
		c.twoRes = true
		resTy = "Except String α"
	default:
		return "", fmt.Errorf("%s: result types %v outside the subset", fd.Name.Name, rt)
	}
	t.nloop = 0
	ps := params(c.scope)
	body := t.block(c, fd.Body.List, "  ")
	var b strings.Builder
	fmt.Fprintf(&b, "/-- `%s` (%s) -/\n", fd.Name.Name, t.p.fset.Position(fd.Pos()))
	fmt.Fprintf(&b, "def %s {α : Type} [RTrans α] %s: %s :=\n  %s\n\n", leanIdent(fd.Name.Name), ps, resTy, body)
	return b.String(), nil
}

// ---------------------------------------------------------------- tables from Go

type ellRow struct {
	key, name string
	a, b, rf  *big.Rat
}
type datumRow struct {
	key, ellipse, name string
	towgs84            []*big.Rat
	nadgrids           []string
}
type numRow struct {
	key string
	v   *big.Rat
}

func (p *pkgInfo) tableLit(name string) *ast.CompositeLit {
	for _, f := range p.files {
		for _, d := range f.Decls {
			gd, ok := d.(*ast.GenDecl)
			if !ok || gd.Tok != token.VAR {
				continue
			}
			for _, s := range gd.Specs {
				vs := s.(*ast.ValueSpec)
				for i, nm := range vs.Names {
					if nm.Name == name && i < len(vs.Values) {
						if cl, ok := vs.Values[i].(*ast.CompositeLit); ok {
							return cl
						}
					}
				}
			}
		}
	}
	die("table %s not found as a composite literal in package proj", name)
	return nil
}

func (p *pkgInfo) constRat(e ast.Expr) *big.Rat {
	tv, ok := p.info.Types[e]
	if !ok || tv.Value == nil {
		die("%s: table entry is not a constant", p.fset.Position(e.Pos()))
	}
	r, ok := ratOfConst(p.exact(e))
	if !ok {
		die("%s: table entry is not an exact rational", p.fset.Position(e.Pos()))
	}
	return r
}

func (p *pkgInfo) constStr(e ast.Expr) string {
	tv, ok := p.info.Types[e]
	if !ok || tv.Value == nil || tv.Value.Kind() != constant.String {
		die("%s: table entry is not a constant string", p.fset.Position(e.Pos()))
	}
	return constant.StringVal(tv.Value)
}

func fields(cl *ast.CompositeLit) map[string]ast.Expr {
	m := map[string]ast.Expr{}
	for _, e := range cl.Elts {
		kv, ok := e.(*ast.KeyValueExpr)
		if !ok {
			die("positional struct literal in a table")
		}
		m[kv.Key.(*ast.Ident).Name] = kv.Value
	}
	return m
}

func (p *pkgInfo) goEllipsoids() []ellRow {
	var rows []ellRow
	seen := map[string]bool{}
	for _, e := range p.tableLit("ellipsoidDefs").Elts {
		kv := e.(*ast.KeyValueExpr)
		r := ellRow{key: p.constStr(kv.Key)}
		if seen[r.key] {
			die("duplicate key %s", r.key)
		}
		seen[r.key] = true
		for k, v := range fields(kv.Value.(*ast.CompositeLit)) {
			switch k {
			case "a":
				r.a = p.constRat(v)
			case "b":
				r.b = p.constRat(v)
			case "rf":
				r.rf = p.constRat(v)
			case "ellipseName":
				r.name = p.constStr(v)
			default:
				die("ellipsoidDefs: unknown field %s", k)
			}
		}
		rows = append(rows, r)
	}
	sort.Slice(rows, func(i, j int) bool { return rows[i].key < rows[j].key })
	return rows
}

func (p *pkgInfo) goDatums() []datumRow {
	var rows []datumRow
	for _, e := range p.tableLit("datumDefs").Elts {
		kv := e.(*ast.KeyValueExpr)
		r := datumRow{key: p.constStr(kv.Key)}
		for k, v := range fields(kv.Value.(*ast.CompositeLit)) {
			switch k {
			case "towgs84":
				for _, x := range v.(*ast.CompositeLit).Elts {
					r.towgs84 = append(r.towgs84, p.constRat(x))
				}
			case "nadgrids":
				for _, x := range v.(*ast.CompositeLit).Elts {
					r.nadgrids = append(r.nadgrids, p.constStr(x))
				}
			case "ellipse":
				r.ellipse = p.constStr(v)
			case "datumName":
				r.name = p.constStr(v)
			default:
				die("datumDefs: unknown field %s", k)
			}
		}
		rows = append(rows, r)
	}
	sort.Slice(rows, func(i, j int) bool { return rows[i].key < rows[j].key })
	return rows
}

func (p *pkgInfo) goPM() []numRow {
	var rows []numRow
	for _, e := range p.tableLit("primeMeridian").Elts {
		kv := e.(*ast.KeyValueExpr)
		rows = append(rows, numRow{p.constStr(kv.Key), p.constRat(kv.Value)})
	}
	sort.Slice(rows, func(i, j int) bool { return rows[i].key < rows[j].key })
	return rows
}

func (p *pkgInfo) goUnits() []numRow {
	var rows []numRow
	for _, e := range p.tableLit("units").Elts {
		kv := e.(*ast.KeyValueExpr)
		f := fields(kv.Value.(*ast.CompositeLit))
		v, ok := f["to_meter"]
		if !ok || len(f) != 1 {
			die("units: unexpected fields")
		}
		rows = append(rows, numRow{p.constStr(kv.Key), p.constRat(v)})
	}
	sort.Slice(rows, func(i, j int) bool { return rows[i].key < rows[j].key })
	return rows
}

// ---------------------------------------------------------------- tables from the vendored JavaScript

var (
	reObj   = regexp.MustCompile(`(?s)exports(?:\.(\w+)|\[\s*['"]([^'"]+)['"]\s*\])\s*=\s*\{(.*?)\}\s*;?`)
	reField = regexp.MustCompile(`(\w+)\s*:\s*("(?:[^"\\]|\\.)*"|'(?:[^'\\]|\\.)*'|[^,}\n]+)`)
	reNum   = regexp.MustCompile(`(?m)^\s*exports(?:\.(\w+)|\[\s*['"]([^'"]+)['"]\s*\])\s*=\s*([^;{]+);`)
)

func jsNumber(s string) *big.Rat {
	s = strings.TrimSpace(s)
	if i := strings.Index(s, "/"); i >= 0 && !strings.HasPrefix(s, "//") {
		a, b := jsNumber(s[:i]), jsNumber(s[i+1:])
		if b.Sign() == 0 {
			die("js: division by zero in %q", s)
		}
		return new(big.Rat).Quo(a, b)
	}
	r, ok := new(big.Rat).SetString(s)
	if !ok {
		die("js: cannot read number %q", s)
	}
	return r
}

func jsString(s string) (string, bool) {
	s = strings.TrimSpace(s)
	if len(s) >= 2 && (s[0] == '"' || s[0] == '\'') && s[len(s)-1] == s[0] {
		body := s[1 : len(s)-1]
		body = strings.ReplaceAll(body, `\"`, `"`)
		body = strings.ReplaceAll(body, `\'`, `'`)
		return body, true
	}
	return "", false
}

func stripJSComments(src string) string {
	// only line comments outside strings occur in the constant files; remove `//...` that follows a `;` or starts a line
	re := regexp.MustCompile(`(?m)(^|;)\s*//.*$`)
	return re.ReplaceAllString(src, "$1")
}

type jsObj struct {
	key    string
	fields map[string]string
}

func jsObjects(path string) []jsObj {
	b, err := os.ReadFile(path)
	if err != nil {
		die("%v", err)
	}
	src := stripJSComments(string(b))
	var out []jsObj
	seen := map[string]bool{}
	for _, m := range reObj.FindAllStringSubmatch(src, -1) {
		key := m[1]
		if key == "" {
			key = m[2]
		}
		if seen[key] {
			die("%s: duplicate export %s", path, key)
		}
		seen[key] = true
		o := jsObj{key: key, fields: map[string]string{}}
		for _, f := range reField.FindAllStringSubmatch(m[3], -1) {
			o.fields[f[1]] = strings.TrimSpace(f[2])
		}
		out = append(out, o)
	}
	// every `exports` statement must have been understood
	if n := strings.Count(src, "exports"); n != len(out) {
		die("%s: %d export statements, %d understood", path, n, len(out))
	}
	sort.Slice(out, func(i, j int) bool { return out[i].key < out[j].key })
	return out
}

func jsEllipsoids(lib string) []ellRow {
	var rows []ellRow
	for _, o := range jsObjects(filepath.Join(lib, "constants", "Ellipsoid.js")) {
		r := ellRow{key: o.key}
		for k, v := range o.fields {
			switch k {
			case "a":
				r.a = jsNumber(v)
			case "b":
				r.b = jsNumber(v)
			case "rf":
				r.rf = jsNumber(v)
			case "ellipseName":
				s, ok := jsString(v)
				if !ok {
					die("js ellipsoid %s: name is not a string", o.key)
				}
				r.name = s
			default:
				die("js ellipsoid %s: unknown field %s", o.key, k)
			}
		}
		rows = append(rows, r)
	}
	return rows
}

func jsDatums(lib string) []datumRow {
	var rows []datumRow
	for _, o := range jsObjects(filepath.Join(lib, "constants", "Datum.js")) {
		r := datumRow{key: o.key}
		for k, v := range o.fields {
			s, ok := jsString(v)
			if !ok {
				die("js datum %s.%s is not a string", o.key, k)
			}
			switch k {
			case "towgs84":
				for _, x := range strings.Split(s, ",") {
					r.towgs84 = append(r.towgs84, jsNumber(x))
				}
			case "nadgrids":
				r.nadgrids = strings.Split(s, ",")
			case "ellipse":
				r.ellipse = s
			case "datumName":
				r.name = s
			default:
				die("js datum %s: unknown field %s", o.key, k)
			}
		}
		rows = append(rows, r)
	}
	return rows
}

func jsUnits(lib string) []numRow {
	var rows []numRow
	for _, o := range jsObjects(filepath.Join(lib, "constants", "units.js")) {
		v, ok := o.fields["to_meter"]
		if !ok || len(o.fields) != 1 {
			die("js unit %s: unexpected fields", o.key)
		}
		rows = append(rows, numRow{o.key, jsNumber(v)})
	}
	return rows
}

func jsPM(lib string) []numRow {
	b, err := os.ReadFile(filepath.Join(lib, "constants", "PrimeMeridian.js"))
	if err != nil {
		die("%v", err)
	}
	src := string(b)
	var rows []numRow
	for _, m := range reNum.FindAllStringSubmatch(src, -1) {
		key := m[1]
		if key == "" {
			key = m[2]
		}
		rows = append(rows, numRow{key, jsNumber(m[3])})
	}
	if n := strings.Count(src, "exports"); n != len(rows) {
		die("PrimeMeridian.js: %d export statements, %d understood", n, len(rows))
	}
	sort.Slice(rows, func(i, j int) bool { return rows[i].key < rows[j].key })
	return rows
}

// ---------------------------------------------------------------- Lean output

func optDec(r *big.Rat) string {
	if r == nil {
		return "none"
	}
	return "some " + decOf(r)
}

func writeEll(b *strings.Builder, name string, rows []ellRow) {
	fmt.Fprintf(b, "def %s : List EllRow := [\n", name)
	for i, r := range rows {
		sep := ","
		if i == len(rows)-1 {
			sep = ""
		}
		fmt.Fprintf(b, "  ⟨%s, %s, %s, %s, %s⟩%s\n", leanStr(r.key), optDec(r.a), optDec(r.b), optDec(r.rf), leanStr(r.name), sep)
	}
	b.WriteString("]\n\n")
}

func writeDatum(b *strings.Builder, name string, rows []datumRow) {
	fmt.Fprintf(b, "def %s : List DatumRow := [\n", name)
	for i, r := range rows {
		sep := ","
		if i == len(rows)-1 {
			sep = ""
		}
		var ds, gs []string
		for _, d := range r.towgs84 {
			ds = append(ds, decOf(d))
		}
		for _, g := range r.nadgrids {
			gs = append(gs, leanStr(g))
		}
		fmt.Fprintf(b, "  ⟨%s, [%s], [%s], %s, %s⟩%s\n", leanStr(r.key), strings.Join(ds, ", "), strings.Join(gs, ", "), leanStr(r.ellipse), leanStr(r.name), sep)
	}
	b.WriteString("]\n\n")
}

func writeNum(b *strings.Builder, name string, rows []numRow) {
	fmt.Fprintf(b, "def %s : List NumRow := [\n", name)
	for i, r := range rows {
		sep := ","
		if i == len(rows)-1 {
			sep = ""
		}
		fmt.Fprintf(b, "  ⟨%s, %s⟩%s\n", leanStr(r.key), decOf(r.v), sep)
	}
	b.WriteString("]\n\n")
}

func writeIfChanged(path, content string) {
	old, err := os.ReadFile(path)
	if err == nil && string(old) == content {
		return
	}
	if err := os.MkdirAll(filepath.Dir(path), 0o755); err != nil {
		die("%v", err)
	}
	tmp := fmt.Sprintf("%s.tmp%d", path, os.Getpid())
	if err := os.WriteFile(tmp, []byte(content), 0o644); err != nil {
		die("%v", err)
	}
	if err := os.Rename(tmp, path); err != nil {
		die("%v", err)
	}
}

func main() {
	repo := flag.String("repo", "/repo", "checkout of ctessum/geom")
	out := flag.String("out", "", "output directory (lean/GeomV/C09/Gen)")
	flag.Parse()
	if *out == "" {
		die("--out is required")
	}
	projDir := filepath.Join(*repo, "proj")
	lib := filepath.Join(projDir, "proj4js-2.3.12", "lib")
	p := loadProj(projDir)

	// ---- GoCommon.lean
	common, ok := p.files["common.go"]
	if !ok {
		die("proj/common.go not found")
	}
	t := &tr{p: p, funcs: map[string]*ast.FuncDecl{}, out: &strings.Builder{}}
	var order []*ast.FuncDecl
	for _, d := range common.Decls {
		if fd, ok := d.(*ast.FuncDecl); ok && fd.Body != nil {
			t.funcs[fd.Name.Name] = fd
			order = append(order, fd)
		}
	}
	// callees before callers (depth-first over the source order)
	{
		var sorted []*ast.FuncDecl
		done := map[string]bool{}
		var visit func(fd *ast.FuncDecl)
		visit = func(fd *ast.FuncDecl) {
			if done[fd.Name.Name] {
				return
			}
			done[fd.Name.Name] = true
			for _, o := range order {
				if o != fd && calls(fd, o.Name.Name) {
					visit(o)
				}
			}
			sorted = append(sorted, fd)
		}
		for _, fd := range order {
			visit(fd)
		}
		order = sorted
	}
	var g strings.Builder
	g.WriteString("/- GENERATED by harness/cmd/c09/extract from proj/common.go and the constants of package proj.\n   Do not edit: rewritten from the current source on every check run (tie T1). -/\n")
	g.WriteString("import GeomV.C09.Num\nset_option linter.unusedVariables false\nnamespace GeomV.C09.Gen.Go\nopen GeomV.C09\n\n")
	var untr []string
	for _, fd := range order {
		t.out.Reset()
		s, err := t.fn(fd)
		if err != nil {
			untr = append(untr, err.Error())
			continue
		}
		g.WriteString(t.out.String())
		g.WriteString(s)
	}
	if len(untr) > 0 {
		die("functions of proj/common.go left the translatable subset:\n  %s", strings.Join(untr, "\n  "))
	}
	// package-level numeric constants
	type cdef struct{ name, val string }
	var cs []cdef
	for obj, init := range p.constInit {
		c, ok := obj.(*types.Const)
		if !ok || c.Parent() != c.Pkg().Scope() {
			continue
		}
		if c.Val().Kind() != constant.Float && c.Val().Kind() != constant.Int {
			continue
		}
		func() {
			defer func() {
				if r := recover(); r != nil {
					if _, ok := r.(untranslatable); !ok {
						panic(r)
					}
				}
			}()
			var val string
			if t.mentionsPi(init) {
				val = t.expr(init)
			} else {
				val = t.constLit(init, c.Val())
			}
			cs = append(cs, cdef{c.Name(), val})
		}()
	}
	sort.Slice(cs, func(i, j int) bool { return cs[i].name < cs[j].name })
	g.WriteString("/-! package-level numeric constants of package proj (folded by go/types; `math.Pi` kept symbolic) -/\n")
	for _, c := range cs {
		fmt.Fprintf(&g, "def c_%s {α : Type} [RTrans α] : α := %s\n", c.name, c.val)
	}
	g.WriteString("\nend GeomV.C09.Gen.Go\n")
	writeIfChanged(filepath.Join(*out, "GoCommon.lean"), g.String())

	// ---- GoProj.lean: closures of the projection constructors and straight-line methods of datum.go
	{
		var g strings.Builder
		g.WriteString("/- GENERATED by harness/cmd/c09/extract from the closures of proj/{merc,lcc,aea,eqdc,tmerc,krovak}.go,\n   proj/aea.go aeaPhi1z and the straight-line methods of proj/datum.go.\n   Do not edit: rewritten from the current source on every check run (tie T1). -/\n")
		g.WriteString("import GeomV.C09.Gen.GoCommon\nset_option linter.unusedVariables false\nnamespace GeomV.C09.Gen.Go\nopen GeomV.C09\n\n")
		g.WriteString("/-- `math.IsNaN` of a float that may still hold the NaN `NewSR` put there (`none`) -/\ndef optNaN {α : Type} [RNum α] (o : Option α) : Bool := match o with | none => true | some v => RNum.isNaN v\n")
		g.WriteString("/-- the value such a float has in arithmetic -/\ndef optNum {α : Type} [RNum α] (o : Option α) : α := o.getD RNum.nan\n\n")
		pkgFuncs := map[string]bool{"phi2z": true, "imlfn": true, "aeaPhi1z": true}
		var done, skipped []string
		find := func(file, name string) *ast.FuncDecl {
			f, ok := p.files[file]
			if !ok {
				die("proj/%s not found", file)
			}
			for _, d := range f.Decls {
				if fd, ok := d.(*ast.FuncDecl); ok && fd.Name.Name == name && fd.Body != nil {
					return fd
				}
			}
			die("proj/%s: func %s not found", file, name)
			return nil
		}
		// aeaPhi1z (ordinary function with a counted loop: the common.go translator)
		{
			fd := find("aea.go", "aeaPhi1z")
			t.funcs[fd.Name.Name] = fd
			t.out.Reset()
			s, err := t.fn(fd)
			if err != nil {
				skipped = append(skipped, "aeaPhi1z: "+err.Error())
			} else {
				g.WriteString(t.out.String())
				g.WriteString(s)
				done = append(done, "aeaPhi1z")
			}
		}
		for _, c := range []struct{ file, ctor string }{{"merc.go", "Merc"}, {"lcc.go", "LCC"}, {"aea.go", "AEA"}, {"eqdc.go", "EqdC"}, {"tmerc.go", "TMerc"}, {"krovak.go", "Krovak"}} {
			fd := find(c.file, c.ctor)
			cls := closuresOf(fd)
			for _, which := range []string{"forward", "inverse"} {
				fl, ok := cls[which]
				name := c.ctor + "_" + which
				if !ok {
					skipped = append(skipped, name+": closure not found")
					continue
				}
				s, err := t.closure(name, fl.Type, fl.Body, pkgFuncs)
				if err != nil {
					skipped = append(skipped, name+": "+err.Error())
					continue
				}
				g.WriteString(s)
				done = append(done, name)
			}
		}
		// constructor bodies (what runs before the closures exist)
		for _, c := range []struct{ file, ctor string }{{"merc.go", "Merc"}, {"lcc.go", "LCC"}, {"aea.go", "AEA"}, {"eqdc.go", "EqdC"}, {"tmerc.go", "TMerc"}, {"utm.go", "UTM"}, {"krovak.go", "Krovak"}} {
			fd := find(c.file, c.ctor)
			name := c.ctor + "_init"
			s, err := t.ctorInit(name, fd, t.capturedBy(fd))
			if err != nil {
				skipped = append(skipped, name+": "+err.Error())
				continue
			}
			g.WriteString(s)
			done = append(done, name)
		}
		for _, m := range []string{"geodetic_to_geocentric", "geocentric_to_wgs84", "geocentric_from_wgs84", "geocentric_to_geodetic"} {
			fd := find("datum.go", m)
			name := "datum_" + m
			s, err := t.closure(name, fd.Type, fd.Body, pkgFuncs)
			if err != nil {
				skipped = append(skipped, name+": "+err.Error())
				continue
			}
			g.WriteString(s)
			done = append(done, name)
		}
		// bool-valued readers of *datum: compare_datums (datum.go), checkDatumParams (datum_transform.go)
		for _, m := range []struct{ file, fn string }{{"datum.go", "compare_datums"}, {"datum_transform.go", "checkDatumParams"}} {
			fd := find(m.file, m.fn)
			name := "datum_" + m.fn
			s, err := t.predicate(name, fd)
			if err != nil {
				skipped = append(skipped, name+": "+err.Error())
				continue
			}
			g.WriteString(s)
			done = append(done, name)
		}
		g.WriteString("/-! translated: " + strings.Join(done, ", ") + " -/\n")
		for _, s := range skipped {
			g.WriteString("/-! outside the subset (hand-written model): " + strings.ReplaceAll(s, "-/", "- /") + " -/\n")
		}
		g.WriteString("\nend GeomV.C09.Gen.Go\n")
		writeIfChanged(filepath.Join(*out, "GoProj.lean"), g.String())
		// what translated when this tool was written must keep translating: otherwise the tie is broken
		must := []string{"aeaPhi1z", "Merc_forward", "Merc_inverse", "LCC_forward", "LCC_inverse", "AEA_forward", "AEA_inverse",
			"EqdC_forward", "EqdC_inverse", "TMerc_forward", "Krovak_forward", "datum_geodetic_to_geocentric",
			"datum_geocentric_to_wgs84", "datum_geocentric_from_wgs84", "datum_compare_datums", "datum_checkDatumParams",
			"Merc_init", "LCC_init", "AEA_init", "EqdC_init", "TMerc_init", "UTM_init", "Krovak_init"}
		have := map[string]bool{}
		for _, d := range done {
			have[d] = true
		}
		var lost []string
		for _, m := range must {
			if !have[m] {
				lost = append(lost, m)
			}
		}
		fmt.Printf("c09 extract: closures/methods translated: %s; hand-written: %d\n", strings.Join(done, " "), len(skipped))
		if len(lost) > 0 {
			die("left the translatable subset: %s\n  %s", strings.Join(lost, ", "), strings.Join(skipped, "\n  "))
		}
	}

	// ---- GoParse.lean: projString.go (switch cases) and DeriveConstants
	{
		var g strings.Builder
		g.WriteString("/- GENERATED by harness/cmd/c09/extract from proj/projString.go and proj/deriveConstants.go.\n   Do not edit: rewritten from the current source on every check run (tie T1). -/\n")
		g.WriteString("import GeomV.C09.Gen.GoProj\nset_option linter.unusedVariables false\nnamespace GeomV.C09.Gen.Go\nopen GeomV.C09\n\n")
		func() {
			defer func() {
				if r := recover(); r != nil {
					if u, ok := r.(untranslatable); ok {
						die("projString/DeriveConstants left the translatable subset: %s", u.msg)
					}
					panic(r)
				}
			}()
			t.genProjString(&g)
			t.genDeriveConstants(&g)
			t.genHandPins(&g)
		}()
		g.WriteString("end GeomV.C09.Gen.Go\n")
		writeIfChanged(filepath.Join(*out, "GoParse.lean"), g.String())
		fmt.Printf("c09 extract: projString switch and DeriveConstants translated (GoParse.lean)\n")
	}

	// ---- Tables.lean
	var tb strings.Builder
	tb.WriteString("/- GENERATED by harness/cmd/c09/extract from proj/{EllipsoidDef,DatumDef,PrimeMeridian,units}.go and\n   proj/proj4js-2.3.12/lib/constants/{Ellipsoid,Datum,PrimeMeridian,units}.js.\n   Do not edit: rewritten from the current sources on every check run (tie T1). Rows sorted by key. -/\n")
	tb.WriteString("import GeomV.C09.Tables\nnamespace GeomV.C09.Gen\nopen GeomV.C09\n\n")
	writeEll(&tb, "goEllipsoids", p.goEllipsoids())
	writeEll(&tb, "jsEllipsoids", jsEllipsoids(lib))
	writeDatum(&tb, "goDatums", p.goDatums())
	writeDatum(&tb, "jsDatums", jsDatums(lib))
	writeNum(&tb, "goPrimeMeridians", p.goPM())
	writeNum(&tb, "jsPrimeMeridians", jsPM(lib))
	writeNum(&tb, "goUnits", p.goUnits())
	writeNum(&tb, "jsUnits", jsUnits(lib))
	tb.WriteString("end GeomV.C09.Gen\n")
	writeIfChanged(filepath.Join(*out, "Tables.lean"), tb.String())
	fmt.Printf("c09 extract: %d functions, %d constants, tables go/js: ellipsoids %d/%d datums %d/%d pm %d/%d units %d/%d (type-check messages ignored: %d)\n",
		len(order), len(cs), len(p.goEllipsoids()), len(jsEllipsoids(lib)), len(p.goDatums()), len(jsDatums(lib)),
		len(p.goPM()), len(jsPM(lib)), len(p.goUnits()), len(jsUnits(lib)), len(p.typeErrs))
}

func calls(fd *ast.FuncDecl, name string) bool {
	found := false
	ast.Inspect(fd.Body, func(n ast.Node) bool {
		if c, ok := n.(*ast.CallExpr); ok {
			if id, ok := c.Fun.(*ast.Ident); ok && id.Name == name {
				found = true
			}
		}
		return true
	})
	return found
}
