// T1 for proj/projString.go and proj/deriveConstants.go.
//
// projString: the `switch paramName` is read case by case. Cases of the three simple shapes
//
//	self.F, err = strconv.ParseFloat(paramVal, 64) [; self.F *= deg2rad]      -> projString_num
//	self.F = paramVal                                                         -> projString_str
//	self.F = true                                                             -> projString_flag
//
// become lookup functions key -> Go field (the model interprets them); every other case (towgs84,
// units, pm, nadgrids, axis, default) and the statements around the switch are emitted as their
// normalised source text (go/printer), which the proof side compares with the text the hand model of
// those five cases was written from: a change there is a broken tie, not a silent divergence.
//
// DeriveConstants: every top-level statement that only reads and writes float64/bool fields of the
// receiver is translated (assignment -> record update of `DC`, `if` without else -> conditional
// update; floats tested with math.IsNaN anywhere in the function are `Option α`); the others (table
// lookups, axis default, datum) are emitted as normalised source text, in order.
package main

import (
	"bytes"
	"fmt"
	"go/ast"
	"go/printer"
	"go/token"
	"go/types"
	"sort"
	"strings"
)

func (t *tr) srcText(n ast.Node) string {
	var b bytes.Buffer
	cfg := printer.Config{Mode: printer.RawFormat, Tabwidth: 1}
	if err := cfg.Fprint(&b, t.p.fset, n); err != nil {
		die("printer: %v", err)
	}
	// one line, single blanks: layout and comments are not part of the pinned text
	return strings.Join(strings.Fields(b.String()), " ")
}

func findFunc(p *pkgInfo, file, name string) *ast.FuncDecl {
	f, ok := p.files[file]
	if !ok {
		die("proj/%s not found", file)
	}
	for _, d := range f.Decls {
		if fd, ok := d.(*ast.FuncDecl); ok && fd.Name.Name == name && fd.Body != nil {
			return fd
		}
	}
	die("proj/%s: func %s not found", file, name)
	return nil
}

func selfField(e ast.Expr, recv string) (string, bool) {
	s, ok := e.(*ast.SelectorExpr)
	if !ok {
		return "", false
	}
	id, ok := s.X.(*ast.Ident)
	if !ok || id.Name != recv {
		return "", false
	}
	return s.Sel.Name, true
}

func isIdent(e ast.Expr, name string) bool {
	id, ok := e.(*ast.Ident)
	return ok && id.Name == name
}

// isParseFloatOfParamVal: strconv.ParseFloat(paramVal, 64)
func isParseFloatOfParamVal(e ast.Expr) bool {
	c, ok := e.(*ast.CallExpr)
	if !ok || len(c.Args) != 2 {
		return false
	}
	s, ok := c.Fun.(*ast.SelectorExpr)
	if !ok || !isIdent(s.X, "strconv") || s.Sel.Name != "ParseFloat" || !isIdent(c.Args[0], "paramVal") {
		return false
	}
	bl, ok := c.Args[1].(*ast.BasicLit)
	return ok && bl.Value == "64"
}

type numCase struct {
	key, field string
	deg        bool
}

// genProjString renders the Lean text for projString.go
func (t *tr) genProjString(b *strings.Builder) {
	fd := findFunc(t.p, "projString.go", "projString")
	var sw *ast.SwitchStmt
	var loop *ast.RangeStmt
	ast.Inspect(fd.Body, func(n ast.Node) bool {
		if r, ok := n.(*ast.RangeStmt); ok && loop == nil {
			loop = r
		}
		if s, ok := n.(*ast.SwitchStmt); ok && sw == nil && isIdent(s.Tag, "paramName") {
			sw = s
			return false
		}
		return true
	})
	if sw == nil || loop == nil {
		die("projString.go: `switch paramName` inside a range loop not found")
	}
	var nums []numCase
	var strs, flags [][2]string
	var special [][2]string
	var keys []string
	for _, cs := range sw.Body.List {
		cc := cs.(*ast.CaseClause)
		var labels []string
		for _, l := range cc.List {
			bl, ok := l.(*ast.BasicLit)
			if !ok || bl.Kind != token.STRING {
				die("projString.go: case label %s is not a string literal", t.srcText(l))
			}
			labels = append(labels, strings.Trim(bl.Value, "\""))
		}
		if cc.List == nil {
			labels = []string{"<default>"}
		}
		keys = append(keys, labels...)
		kind, field, deg := "", "", false
		switch len(cc.Body) {
		case 1, 2:
			if as, ok := cc.Body[0].(*ast.AssignStmt); ok && as.Tok == token.ASSIGN {
				if len(as.Lhs) == 2 && len(as.Rhs) == 1 && isIdent(as.Lhs[1], "err") && isParseFloatOfParamVal(as.Rhs[0]) {
					if f, ok := selfField(as.Lhs[0], "self"); ok {
						kind, field = "num", f
					}
				} else if len(as.Lhs) == 1 && len(as.Rhs) == 1 && len(cc.Body) == 1 {
					if f, ok := selfField(as.Lhs[0], "self"); ok {
						if isIdent(as.Rhs[0], "paramVal") {
							kind, field = "str", f
						} else if isIdent(as.Rhs[0], "true") {
							kind, field = "flag", f
						}
					}
				}
			}
			if kind == "num" && len(cc.Body) == 2 {
				as, ok := cc.Body[1].(*ast.AssignStmt)
				f, ok2 := "", false
				if ok && len(as.Lhs) == 1 {
					f, ok2 = selfField(as.Lhs[0], "self")
				}
				if ok && ok2 && as.Tok == token.MUL_ASSIGN && f == field && isIdent(as.Rhs[0], "deg2rad") {
					deg = true
				} else {
					kind = ""
				}
			} else if kind != "num" && len(cc.Body) == 2 {
				kind = ""
			}
		}
		for _, k := range labels {
			switch kind {
			case "num":
				nums = append(nums, numCase{k, field, deg})
			case "str":
				strs = append(strs, [2]string{k, field})
			case "flag":
				flags = append(flags, [2]string{k, field})
			default:
				var parts []string
				for _, s := range cc.Body {
					parts = append(parts, t.srcText(s))
				}
				special = append(special, [2]string{k, strings.Join(parts, " ; ")})
			}
		}
	}
	pos := t.p.fset.Position(fd.Pos())
	fmt.Fprintf(b, "/-! ## projString (%s) -/\n\n", pos)
	b.WriteString("/-- `case K: self.F, err = strconv.ParseFloat(paramVal, 64)` (`true`: followed by `self.F *= deg2rad`): key ↦ (Go field, in degrees) -/\n")
	b.WriteString("def projString_num (k : String) : Option (String × Bool) :=\n  match k with\n")
	for _, n := range nums {
		fmt.Fprintf(b, "  | %s => some (%s, %v)\n", leanStr(n.key), leanStr(n.field), n.deg)
	}
	b.WriteString("  | _ => none\n\n")
	b.WriteString("/-- `case K: self.F = paramVal` -/\ndef projString_str (k : String) : Option String :=\n  match k with\n")
	for _, s := range strs {
		fmt.Fprintf(b, "  | %s => some %s\n", leanStr(s[0]), leanStr(s[1]))
	}
	b.WriteString("  | _ => none\n\n")
	b.WriteString("/-- `case K: self.F = true` -/\ndef projString_flag (k : String) : Option String :=\n  match k with\n")
	for _, s := range flags {
		fmt.Fprintf(b, "  | %s => some %s\n", leanStr(s[0]), leanStr(s[1]))
	}
	b.WriteString("  | _ => none\n\n")
	b.WriteString("/-- every case label of the switch, in source order -/\ndef projString_keys : List String :=\n  [")
	for i, k := range keys {
		if i > 0 {
			b.WriteString(", ")
		}
		b.WriteString(leanStr(k))
	}
	b.WriteString("]\n\n")
	b.WriteString("/-- the cases of any other shape: key ↦ normalised source text of the case body -/\ndef projString_special : List (String × String) :=\n  [")
	for i, s := range special {
		if i > 0 {
			b.WriteString(",\n   ")
		}
		fmt.Fprintf(b, "(%s, %s)", leanStr(s[0]), leanStr(s[1]))
	}
	b.WriteString("]\n\n")
	// the frame: the function with the switch body blanked
	saved := sw.Body.List
	sw.Body.List = nil
	frame := t.srcText(fd)
	sw.Body.List = saved
	fmt.Fprintf(b, "/-- the function around the switch (normalised source text, switch body removed) -/\ndef projString_frame : String :=\n  %s\n\n", leanStr(frame))
}

// ---------------------------------------------------------------- DeriveConstants

type dcx struct {
	t       *tr
	recv    string
	nanable map[string]bool
	fields  map[string]string // field -> "float" | "bool"
}

func (d *dcx) hook(e ast.Expr) (string, bool) {
	if call, ok := isMathCall(e, "IsNaN"); ok {
		if f, ok := selfField(call.Args[0], d.recv); ok && d.nanable[f] {
			d.note(call.Args[0], f)
			return "(optNaN json." + f + ")", true
		}
	}
	// `f == x` on a float that may still hold NaN is false when it does (NaN equals nothing)
	if be, ok := e.(*ast.BinaryExpr); ok && be.Op == token.EQL {
		if f, ok := selfField(be.X, d.recv); ok && d.nanable[f] {
			d.note(be.X, f)
			return "(optEq json." + f + " " + d.t.expr(be.Y) + ")", true
		}
	}
	if f, ok := selfField(e, d.recv); ok {
		d.note(e, f)
		if d.nanable[f] {
			return "(optNum json." + f + ")", true
		}
		return "json." + f, true
	}
	return "", false
}

func (d *dcx) note(e ast.Expr, f string) {
	tv := d.t.p.info.Types[e]
	b, ok := tv.Type.Underlying().(*types.Basic)
	switch {
	case ok && b.Info()&types.IsFloat != 0:
		d.fields[f] = "float"
	case ok && b.Info()&types.IsBoolean != 0:
		d.fields[f] = "bool"
	default:
		d.t.fail(e, "field %s of type %s", f, tv.Type)
	}
}

// stmts -> a Lean term of type `DC α` given `json : DC α` in scope
func (d *dcx) block(stmts []ast.Stmt, ind string) string {
	var b strings.Builder
	for _, s := range stmts {
		switch x := s.(type) {
		case *ast.AssignStmt:
			if len(x.Lhs) != 1 || len(x.Rhs) != 1 {
				d.t.fail(s, "assignment shape")
			}
			f, ok := selfField(x.Lhs[0], d.recv)
			if !ok {
				d.t.fail(s, "assignment to something that is not a receiver field")
			}
			d.note(x.Lhs[0], f)
			var rhs string
			switch x.Tok {
			case token.ASSIGN:
				if g, ok := selfField(x.Rhs[0], d.recv); ok && d.nanable[g] && d.nanable[f] {
					d.note(x.Rhs[0], g)
					fmt.Fprintf(&b, "%slet json := { json with %s := json.%s }\n", ind, f, g)
					continue
				}
				rhs = d.t.expr(x.Rhs[0])
			case token.MUL_ASSIGN:
				rhs = "(" + d.t.expr(x.Lhs[0]) + " * " + d.t.expr(x.Rhs[0]) + ")"
			default:
				d.t.fail(s, "assignment operator %s", x.Tok)
			}
			if d.nanable[f] {
				rhs = "some " + rhs
			}
			fmt.Fprintf(&b, "%slet json := { json with %s := %s }\n", ind, f, rhs)
		case *ast.IfStmt:
			if x.Init != nil || x.Else != nil {
				d.t.fail(s, "if with init/else")
			}
			cond := d.t.expr(x.Cond)
			fmt.Fprintf(&b, "%slet json := if %s then\n%s%s    json\n%s  else json\n", ind, cond, d.block(x.Body.List, ind+"    "), ind, ind)
		default:
			d.t.fail(s, "statement %T", s)
		}
	}
	return b.String()
}

func (t *tr) genDeriveConstants(b *strings.Builder) {
	fd := findFunc(t.p, "deriveConstants.go", "DeriveConstants")
	if fd.Recv == nil || len(fd.Recv.List) != 1 || len(fd.Recv.List[0].Names) != 1 {
		die("DeriveConstants: receiver")
	}
	d := &dcx{t: t, recv: fd.Recv.List[0].Names[0].Name, nanable: map[string]bool{}, fields: map[string]string{}}
	ast.Inspect(fd.Body, func(n ast.Node) bool {
		if e, ok := n.(ast.Expr); ok {
			if call, ok := isMathCall(e, "IsNaN"); ok {
				if f, ok := selfField(call.Args[0], d.recv); ok {
					d.nanable[f] = true
				}
			}
		}
		return true
	})
	old := t.hook
	t.hook = d.hook
	defer func() { t.hook = old }()
	type piece struct {
		core  bool
		text  string
		steps []string // one translated top-level statement each
		srcs  []string
	}
	var pieces []piece
	for _, s := range fd.Body.List {
		txt, ok := func() (res string, ok bool) {
			saved := map[string]string{}
			for k, v := range d.fields {
				saved[k] = v
			}
			defer func() {
				if r := recover(); r != nil {
					if _, isU := r.(untranslatable); isU {
						d.fields = saved
						res, ok = "", false
						return
					}
					panic(r)
				}
			}()
			return d.block([]ast.Stmt{s}, "  "), true
		}()
		if ok {
			if n := len(pieces); n > 0 && pieces[n-1].core {
				pieces[n-1].steps = append(pieces[n-1].steps, txt)
				pieces[n-1].srcs = append(pieces[n-1].srcs, t.srcText(s))
			} else {
				pieces = append(pieces, piece{core: true, steps: []string{txt}, srcs: []string{t.srcText(s)}})
			}
		} else {
			pieces = append(pieces, piece{core: false, text: t.srcText(s)})
		}
	}
	fmt.Fprintf(b, "/-! ## DeriveConstants (%s) -/\n\n", t.p.fset.Position(fd.Pos()))
	var fl []string
	for f := range d.fields {
		fl = append(fl, f)
	}
	sort.Strings(fl)
	b.WriteString("/-- `f == x` for a float that may still hold the NaN `NewSR` left: false then (a NaN equals nothing) -/\ndef optEq {α : Type} [RNum α] (o : Option α) (x : α) : Bool := match o with | none => false | some v => RNum.eq v x\n\n")
	b.WriteString("/-- the float64/bool fields of `*SR` that the translated statements of `DeriveConstants` read or write;\n    a float the function tests with `math.IsNaN` is an `Option` (`none` = the NaN `NewSR` left) -/\nstructure DC (α : Type) where\n")
	for _, f := range fl {
		ty := "α"
		if d.fields[f] == "bool" {
			ty = "Bool"
		} else if d.nanable[f] {
			ty = "Option α"
		}
		fmt.Fprintf(b, "  %s : %s\n", f, ty)
	}
	b.WriteString("\n")
	var shape []string
	nc := 0
	for _, p := range pieces {
		if p.core {
			nc++
			name := fmt.Sprintf("DeriveConstants_core%d", nc)
			comp := "json"
			for i, st := range p.steps {
				fmt.Fprintf(b, "/-- `%s` -/\ndef %s_s%d {α : Type} [RTrans α] (json : DC α) : DC α :=\n%s  json\n\n", strings.ReplaceAll(p.srcs[i], "-/", "- /"), name, i+1, st)
				comp = fmt.Sprintf("%s_s%d (%s)", name, i+1, comp)
			}
			fmt.Fprintf(b, "/-- translated run of statements #%d of `DeriveConstants`: its %d top-level statements in order -/\ndef %s {α : Type} [RTrans α] (json : DC α) : DC α :=\n  %s\n\n", nc, len(p.steps), name, comp)
			shape = append(shape, "«"+name+"»")
		} else {
			shape = append(shape, p.text)
		}
	}
	b.WriteString("/-- the top-level statements of `DeriveConstants` in order: `«DeriveConstants_coreN»` for a translated run,\n    otherwise the normalised source text (hand-modelled in `Model.deriveConstants`) -/\ndef DeriveConstants_shape : List String :=\n  [")
	for i, s := range shape {
		if i > 0 {
			b.WriteString(",\n   ")
		}
		b.WriteString(leanStr(s))
	}
	b.WriteString("]\n\n")
	if nc != 1 {
		die("DeriveConstants: %d translated runs of statements (the model expects exactly one between the table lookups and the axis default)", nc)
	}
}
