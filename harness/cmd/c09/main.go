// Harness for C09 (projected coordinates agree with proj4js and with reference formulas).
//
//	gen --seed S --tier T   write case lines (inputs only)
//	impl                    read case lines, run the real code, append " => result"
//
// Line formats (fields separated by " | "):
//
//	tr | <def0> | <def1> | ... | <defn> | <xhex> <yhex>
//	    a chain of transformations def0 -> def1 -> ... -> defn applied to one point; every hop is a
//	    freshly parsed pair of SRs and a freshly built transformer. Result: one item per hop,
//	    "ok <xhex> <yhex>" | "same <xhex> <yhex>" (NewTransform returned nil: identical SRs) |
//	    "err <text>" | "panic <text>", separated by " ; ". The chain stops at the first failure.
//	trd<k> | ...   like tr, but every parsed SR gets k extra (*SR).DeriveConstants() calls before the
//	    transformer is built (the exported way to finish an SR; idempotent on a finished SR); the
//	    exported fields are dumped after every extra call and must equal the first dump, else the
//	    hop's item is "changed <field>:<before>-><after>".
//	trp<k> | ...   like tr, but every definition is parsed k more times in the same process after the
//	    first parse and the FIRST parsed SRs are used (a table entry aliased by an SR would be
//	    converted again by the later parses).
//	trs | <def0> | ... | <defn> | <x1hex> <y1hex> <x2hex> <y2hex> ...
//	    every definition is parsed ONCE, every hop's transformer is built ONCE, and the whole sequence
//	    of positions is pushed through the same objects (one line = one history). Result: per position
//	    the items of tr, positions separated by " ;; ". Every answer is also computed by freshly parsed
//	    SRs and a fresh transformer; where the reused objects answer differently (bitwise) the item is
//	    "histdep <x> <y> <freshx> <freshy>".
//	parse | <def>
//	    proj.Parse; result "ok A B Rf Es FromGreenwich ToMeter n p1 .. pn" (hex) | "err <text>"
//
// The tables are not enumerated here: they are read from the source by cmd/c09/extract (T1);
// the name lists below only drive the generator.
package main

import (
	"bufio"
	"fmt"
	"math"
	"os"
	"strconv"
	"strings"

	"github.com/ctessum/geom/proj"

	"verif/harness/vproto"
)

var ellipsoids = strings.Fields("MERIT SGS85 GRS80 IAU76 airy APL4 NWL9D mod_airy andrae aust_SA GRS67 bessel bess_nam clrk66 clrk80 clrk58 CPM delmbr engelis evrst30 evrst48 evrst56 evrst69 evrstSS fschr60 fschr60m fschr68 helmert hough intl kaula lerch mprts new_intl krass SEasia walbeck WGS60 WGS66 WGS7 WGS84 sphere")
var datums = strings.Fields("wgs84 ch1903 ggrs87 nad83 nad27 potsdam carthage hermannskogel ire65 rassadiran nzgd49 osgb36 s_jtsk beduaram gunung_segara rnb72 WGS84 NAD83 OSGB36")
var pms = strings.Fields("greenwich lisbon paris bogota madrid rome bern jakarta ferro brussels stockholm athens oslo")
var pmDeg = map[string]float64{"greenwich": 0, "lisbon": -9.131906111111, "paris": 2.337229166667, "bogota": -74.080916666667,
	"madrid": -3.687938888889, "rome": 12.452333333333, "bern": 7.439583333333, "jakarta": 106.807719444444,
	"ferro": -17.666666666667, "brussels": 4.367975, "stockholm": 18.058277777778, "athens": 23.7163375, "oslo": 10.722916666667}

func ff(v float64, prec int) string {
	s := strconv.FormatFloat(v, 'f', prec, 64)
	if strings.Contains(s, ".") {
		s = strings.TrimRight(s, "0")
		s = strings.TrimSuffix(s, ".")
	}
	if s == "-0" {
		s = "0"
	}
	return s
}

// round v to prec decimals so that the text and the value agree
func rd(v float64, prec int) float64 {
	f, _ := strconv.ParseFloat(strconv.FormatFloat(v, 'f', prec, 64), 64)
	return f
}

func wrap180(l float64) float64 {
	for l > 180 {
		l -= 360
	}
	for l < -180 {
		l += 360
	}
	return l
}

// ---------------------------------------------------------------- generator

// frame fixes what all SRs of one chain share: the datum family and (for the datum-less
// family) the ellipsoid.
type frame struct {
	nodatum bool
	ellps   string // ellipsoid clause used by every SR of a datum-less chain
	// every SR names a datum without a shift (WGS84 / NAD83: datum type "WGS84") and gives its own
	// ellipsoid explicitly; the ellipsoids of one chain share the eccentricity (spheres of different
	// radii, or one flattening with different a), so datumTransform has only `a` to tell them apart
	sameEs bool
	rf     float64 // 0 = spheres
	// the mirror image: one semi-major axis for the whole chain, a flattening of its own per SR, so
	// datumTransform has only `es` to tell the ellipsoids apart
	fixA float64
}

func ellpsClause(r *vproto.Rng) string {
	switch r.Intn(10) {
	case 0:
		R := rd(6300000+r.Float()*200000, 3)
		return "+a=" + ff(R, 3) + " +b=" + ff(R, 3) // sphere
	case 1:
		// flattening in the range of the built-in ellipsoids other than the 18th-century ones
		a := rd(6370000+r.Float()*20000, 3)
		return "+a=" + ff(a, 3) + " +rf=" + ff(rd(280+r.Float()*40, 6), 6)
	case 2:
		a := rd(6370000+r.Float()*20000, 3)
		return "+a=" + ff(a, 3) + " +b=" + ff(rd(a*(1-1/(280+r.Float()*40)), 3), 3)
	case 3:
		return "" // default ellipsoid (WGS84)
	case 4:
		// a named ellipsoid with one of its axes/flattening given explicitly as well: the table row
		// fills only what it defines (extend() in proj4js, the != 0 tests in DeriveConstants)
		e := ellipsoids[r.Intn(len(ellipsoids))]
		if r.Bool() {
			return "+ellps=" + e + " +b=" + ff(rd(6356000+r.Float()*1500, 3), 3)
		}
		return "+ellps=" + e + " +rf=" + ff(rd(290+r.Float()*20, 6), 6)
	default:
		return "+ellps=" + ellipsoids[r.Intn(len(ellipsoids))]
	}
}

func towgs84(r *vproto.Rng, n int) string {
	var p []string
	for i := 0; i < 3; i++ {
		p = append(p, ff(rd((r.Float()-0.5)*1600, 3), 3))
	}
	if n == 7 {
		// strata of a 7-term set (the port and proj4js test terms 3..6 for "not all zero"):
		//  0 rotations all zero, scale non-zero (still a 7-parameter datum)
		//  1 all four trailing terms zero (a 3-parameter datum written with seven terms)
		//  2 exactly one rotation non-zero, scale zero      3 exactly one rotation non-zero, scale non-zero
		//  4 rotations non-zero, scale zero                  5.. all non-zero
		shape := r.Intn(10)
		one := r.Intn(3)
		for i := 0; i < 3; i++ {
			v := ff(rd((r.Float()-0.5)*10, 4), 4)
			if v == "0" {
				v = "0.0001"
			}
			if shape == 0 || shape == 1 || ((shape == 2 || shape == 3) && i != one) {
				v = "0"
			}
			p = append(p, v)
		}
		sc := ff(rd((r.Float()-0.5)*40, 4), 4)
		if sc == "0" {
			sc = "0.0001"
		}
		if shape == 1 || shape == 2 || shape == 4 {
			sc = "0"
		}
		p = append(p, sc)
	}
	return "+towgs84=" + strings.Join(p, ",")
}

// datumClause returns the ellipsoid+datum part of a definition in the given frame.
func datumClause(r *vproto.Rng, f frame) string {
	if f.nodatum {
		return f.ellps
	}
	if f.sameEs {
		a := rd(6360000+float64(r.Intn(30))*1000, 0)
		d := []string{"WGS84", "NAD83", "nad83", "wgs84"}[r.Intn(4)]
		if f.fixA != 0 {
			return "+datum=" + d + " +a=" + ff(f.fixA, 0) + " +rf=" + ff(rd(290+r.Float()*20, 6), 6)
		}
		if f.rf == 0 {
			return "+datum=" + d + " +a=" + ff(a, 0) + " +b=" + ff(a, 0)
		}
		return "+datum=" + d + " +a=" + ff(a, 0) + " +rf=" + ff(f.rf, 6)
	}
	switch r.Intn(12) {
	case 10, 11:
		return mixedDatumClause(r)
	case 0, 1, 2:
		return "+datum=" + datums[r.Intn(len(datums))]
	case 3, 4, 5:
		return strings.TrimSpace(ellpsClause(r) + " " + towgs84(r, 3))
	case 6, 7:
		return strings.TrimSpace(ellpsClause(r) + " " + towgs84(r, 7))
	case 8:
		// a WGS84-type datum, also on an explicit ellipsoid and with the code in lower case: as the
		// destination of a shifted source the port goes there directly (fix b165df1: the code is compared
		// case-insensitively) where proj4js 2.3.12 (literal comparison) goes through its WGS84 object
		switch r.Intn(4) {
		case 0:
			a := rd(6360000+float64(r.Intn(30))*1000, 0)
			return "+datum=" + []string{"wgs84", "WGS84"}[r.Intn(2)] + " +a=" + ff(a, 0) + " +rf=" + ff(rd(290+r.Float()*20, 6), 6)
		case 1:
			a := rd(6360000+float64(r.Intn(30))*1000, 0)
			return "+datum=" + []string{"wgs84", "WGS84"}[r.Intn(2)] + " +a=" + ff(a, 0) + " +b=" + ff(a, 0)
		}
		return "+ellps=WGS84 +datum=WGS84"
	default:
		return "+datum=" + datums[r.Intn(16)]
	}
}

// mixedDatumClause: ONE definition carrying more than one datum specification. proj4js' deriveConstants lets
// the row of a recognised `+datum=` name win over an explicit `+towgs84=` and over `+ellps=` (whatever the order
// of the tokens); an unrecognised name / `none` leaves the explicit terms in force.
func mixedDatumClause(r *vproto.Rng) string {
	d := "+datum=" + datums[r.Intn(len(datums))]
	n := 3
	if r.Bool() {
		n = 7
	}
	t := towgs84(r, n)
	e := "+ellps=" + ellipsoids[r.Intn(len(ellipsoids)-1)] // not `sphere`
	switch r.Intn(8) {
	case 0, 1:
		return d + " " + t
	case 2, 3:
		return t + " " + d
	case 4:
		return e + " " + d + " " + t
	case 5:
		return d + " " + e
	case 6:
		return "+datum=none " + e + " " + t
	default:
		return t + " " + e + " " + d
	}
}

func pmClause(r *vproto.Rng) (string, float64) {
	switch r.Intn(8) {
	case 0:
		n := pms[r.Intn(len(pms))]
		return "+pm=" + n, pmDeg[n]
	case 1:
		v := rd((r.Float()-0.5)*60, 6)
		return "+pm=" + ff(v, 6), v
	default:
		return "", 0
	}
}

func unitsClause(r *vproto.Rng) string {
	switch r.Intn(8) {
	case 0:
		return "+units=ft"
	case 1:
		return "+units=us-ft"
	case 2:
		return "+units=m"
	case 3:
		return "+to_meter=" + ff(rd(0.2+r.Float()*2, 4), 4)
	default:
		return ""
	}
}

func originClause(r *vproto.Rng) string {
	s := ""
	if r.Intn(3) > 0 {
		s += " +x_0=" + ff(rd((r.Float()-0.5)*2e7, 3), 3)
	}
	if r.Intn(3) > 0 {
		s += " +y_0=" + ff(rd((r.Float()-0.5)*2e7, 3), 3)
	}
	return s
}

func k0Clause(r *vproto.Rng) string {
	switch r.Intn(4) {
	case 0:
		return " +k_0=" + ff(rd(0.9+r.Float()*0.2, 6), 6)
	case 1:
		return " +k=" + ff(rd(0.9+r.Float()*0.2, 6), 6)
	default:
		return ""
	}
}

var projKinds = []string{"merc", "lcc", "aea", "eqdc", "tmerc", "utm", "longlat", "krovak"}

// genSR builds a definition of the given projection kind whose usable region contains the
// geographic point (lonG, latG) (degrees from Greenwich).
func genSR(r *vproto.Rng, kind string, f frame, lonG, latG float64) string {
	pm, pmd := pmClause(r)
	if kind == "krovak" {
		pm, pmd = "", 0
	}
	if kind == "merc" && math.Abs(lonG-pmd) > 179.5 {
		// the port's Merc forward rejects |lon| > 180 degrees from the SR's own prime meridian
		// (proj4js wraps); not explored here, see notes/C09.md
		pm, pmd = "", 0
	}
	le := lonG - pmd // longitude relative to this SR's prime meridian
	hemi := 1.0
	if latG < 0 {
		hemi = -1
	}
	var b []string
	b = append(b, "+proj="+kind)
	switch kind {
	case "longlat":
	case "merc":
		b = append(b, "+lon_0="+ff(rd(wrap180(le-(r.Float()-0.5)*300), 6), 6))
		switch r.Intn(3) {
		case 0:
			b = append(b, "+lat_ts="+ff(rd((r.Float()-0.5)*140, 6), 6))
		case 1:
			b = append(b, strings.TrimSpace(k0Clause(r)))
		}
		b = append(b, strings.TrimSpace(originClause(r)))
	case "tmerc":
		b = append(b, "+lon_0="+ff(rd(wrap180(le-(r.Float()-0.5)*7), 6), 6))
		b = append(b, "+lat_0="+ff(rd((r.Float()-0.5)*160, 6), 6))
		// proj4js' tmerc has no default for x0/y0 (NaN results), so they are always given
		b = append(b, strings.TrimSpace(k0Clause(r)), "+x_0="+ff(rd((r.Float()-0.5)*2e7, 3), 3), "+y_0="+ff(rd((r.Float()-0.5)*2e7, 3), 3))
	case "utm":
		z := int(math.Floor((wrap180(le)+180)/6)) + 1
		if z > 60 {
			z = 60
		}
		if z < 1 {
			z = 1
		}
		if r.Intn(12) == 0 {
			b = append(b, "+zone=-"+strconv.Itoa(z)) // the constructors take |zone|
		} else {
			b = append(b, "+zone="+strconv.Itoa(z))
		}
		if (latG < 0) != (r.Intn(6) == 0) {
			b = append(b, "+south")
		}
	case "lcc", "aea", "eqdc":
		// standard parallels on the point's hemisphere
		l1 := hemi * rd(10+r.Float()*60, 6)
		l2 := hemi * rd(10+r.Float()*60, 6)
		switch r.Intn(6) {
		case 0:
			l2 = l1 // tangent cone
		case 1:
			l2 = -hemi * rd(r.Float()*math.Abs(l1)*0.8, 6) // one parallel on the other hemisphere (|l1| dominates)
		}
		if l1 != l2 && math.Abs(l1-l2) < 1 {
			// parallels less than a degree apart make the cone constant a 0/0-like quotient: any two
			// math libraries then differ by tens of µm; such cones are written as tangent cones
			l2 = l1
		}
		b = append(b, "+lat_1="+ff(l1, 6))
		if !((kind == "lcc" || kind == "eqdc") && l1 == l2 && r.Bool()) { // lcc and eqdc default lat_2 to lat_1
			b = append(b, "+lat_2="+ff(l2, 6))
		}
		b = append(b, "+lat_0="+ff(rd(hemi*r.Float()*70, 6), 6))
		b = append(b, "+lon_0="+ff(rd(wrap180(le-(r.Float()-0.5)*200), 6), 6))
		if kind == "lcc" {
			b = append(b, strings.TrimSpace(k0Clause(r)))
			b = append(b, strings.TrimSpace(originClause(r)))
		} else {
			b = append(b, "+x_0="+ff(rd((r.Float()-0.5)*2e7, 3), 3), "+y_0="+ff(rd((r.Float()-0.5)*2e7, 3), 3))
		}
	case "krovak":
		// the constructor's own defaults (lat_0 = 49.5 deg, lon_0 = 24.8333.. deg east of Ferro - 17.6666..) when absent
		switch r.Intn(4) {
		case 0:
		case 1:
			b = append(b, "+lat_0=49.5")
		default:
			b = append(b, "+lat_0=49.5", "+lon_0=24.83333333333333")
		}
		if r.Bool() {
			b = append(b, "+k=0.9999")
		}
	}
	dc := datumClause(r, f)
	if kind == "krovak" && !f.nodatum && !f.sameEs && r.Intn(2) == 0 {
		// the usual S-JTSK definitions; the other half keeps the frame's own draw: Krovak on ANY ellipsoid
		// or datum (+datum=WGS84 / NAD83 / a named datum, +ellps=GRS80 +towgs84=.., a/b, a/rf) — proj4js'
		// krovak.js computes on Bessel 1841 whatever ellipsoid the definition names (the datum keeps the
		// named ellipsoid for the shift), and so must the port
		dc = []string{"+ellps=bessel +towgs84=570.8,85.7,462.8,4.998,1.587,5.261,3.56", "+ellps=bessel +towgs84=589,76,480", "+datum=hermannskogel"}[r.Intn(3)]
	}
	b = append(b, dc, pm)
	if kind != "longlat" && kind != "krovak" {
		b = append(b, unitsClause(r))
	}
	if kind == "krovak" && r.Intn(3) == 0 {
		// neither side applies a false origin in krovak; both scale by to_meter
		b = append(b, []string{"+x_0=0 +y_0=0 +units=m", "+units=m", "+x_0=0 +y_0=0"}[r.Intn(3)])
	}
	if r.Intn(4) == 0 {
		b = append(b, "+no_defs")
	}
	var out []string
	for _, s := range b {
		if s != "" {
			out = append(out, s)
		}
	}
	return strings.Join(out, " ")
}

// twin returns a definition that differs from def in exactly one respect, so that the
// `source.Equal(dest)` shortcut of NewTransform (nil transformer = identity) is probed field by
// field: proj4js has no such shortcut, so a pair wrongly taken for identical shows as a missing
// datum shift / scale / offset. kind names what was changed ("" = nothing applicable).
func twin(r *vproto.Rng, def string, nodatum bool) (string, string) {
	toks := strings.Fields(def)
	find := func(prefix string) int {
		for i, t := range toks {
			if strings.HasPrefix(t, prefix) {
				return i
			}
		}
		return -1
	}
	proj := ""
	if i := find("+proj="); i >= 0 {
		proj = toks[i][6:]
	}
	bump := func(i int, d float64, prec int) {
		eq := strings.Index(toks[i], "=")
		v, _ := strconv.ParseFloat(toks[i][eq+1:], 64)
		toks[i] = toks[i][:eq+1] + ff(rd(v+d, prec), prec)
	}
	for try := 0; try < 12; try++ {
		switch r.Intn(15) {
		case 9: // hemisphere flag of a UTM zone (a bool field)
			if proj == "utm" {
				if i := find("+south"); i >= 0 {
					toks = append(toks[:i], toks[i+1:]...)
					return strings.Join(toks, " "), "south-removed"
				}
				toks = append(toks, "+south")
				return strings.Join(toks, " "), "south-added"
			}
		case 10: // neighbouring UTM zone
			if i := find("+zone="); i >= 0 && proj == "utm" {
				z, _ := strconv.Atoi(strings.TrimPrefix(toks[i][6:], "-"))
				if z < 60 {
					z++
				} else {
					z--
				}
				toks[i] = "+zone=" + strconv.Itoa(z)
				return strings.Join(toks, " "), "zone"
			}
		case 11: // the projection itself, among the cones that take the same parameters (names of equal length)
			if proj == "lcc" || proj == "aea" || proj == "eqdc" {
				if find("+lat_2=") >= 0 && find("+k_0=") < 0 && find("+k=") < 0 {
					i := find("+proj=")
					alt := map[string][]string{"lcc": {"aea", "eqdc"}, "aea": {"lcc", "eqdc"}, "eqdc": {"lcc", "aea"}}[proj]
					toks[i] = "+proj=" + alt[r.Intn(2)]
					return strings.Join(toks, " "), "proj-name"
				}
			}
		case 12: // a standard parallel / the latitude of true scale / the central meridian, by 0.001 degree
			if proj == "krovak" {
				continue
			}
			if a, b := find("+lat_1="), find("+lat_2="); a >= 0 && b >= 0 && toks[a][7:] == toks[b][7:] {
				// keep tangent cones tangent (parallels less than a degree apart are not generated)
				bump(a, 0.001, 6)
				bump(b, 0.001, 6)
				return strings.Join(toks, " "), "parallels"
			}
			pres := []string{"+lat_1=", "+lat_2=", "+lat_ts=", "+lon_0="}
			for _, pre := range pres[r.Intn(4):] {
				if i := find(pre); i >= 0 {
					bump(i, 0.001, 6)
					return strings.Join(toks, " "), strings.Trim(pre, "+=")
				}
			}
		case 13: // false northing by one metre
			if i := find("+y_0="); i >= 0 {
				bump(i, 1, 3)
				return strings.Join(toks, " "), "y0-1m"
			}
		case 14: // the ellipsoid by name, where a datum shift makes the ellipsoid change defined
			if i := find("+ellps="); i >= 0 && find("+towgs84=") >= 0 && proj != "krovak" && find("+b=") < 0 && find("+rf=") < 0 && find("+a=") < 0 {
				e := ellipsoids[r.Intn(len(ellipsoids))]
				if e != toks[i][7:] && e != "mprts" && e != "sphere" {
					toks[i] = "+ellps=" + e
					return strings.Join(toks, " "), "ellps-name"
				}
			}
		case 0: // every towgs84 value redrawn, same number of terms
			if i := find("+towgs84="); i >= 0 {
				n := len(strings.Split(toks[i], ","))
				toks[i] = towgs84(r, n)
				return strings.Join(toks, " "), "towgs84-values"
			}
		case 1: // one towgs84 term changed in one digit
			if i := find("+towgs84="); i >= 0 {
				ps := strings.Split(toks[i][9:], ",")
				k := r.Intn(len(ps))
				v, _ := strconv.ParseFloat(ps[k], 64)
				ps[k] = ff(rd(v+[]float64{1, -1, 0.1, 10}[r.Intn(4)], 4), 4)
				toks[i] = "+towgs84=" + strings.Join(ps, ",")
				return strings.Join(toks, " "), "towgs84-digit"
			}
		case 2: // semi-major axis by one metre (only where a datum shift makes the ellipsoid change defined)
			if i := find("+a="); i >= 0 && find("+towgs84=") >= 0 && proj != "krovak" {
				bump(i, 1, 3)
				if j := find("+b="); j >= 0 {
					bump(j, 1, 3) // keeps spheres spheres
				}
				return strings.Join(toks, " "), "a-1m"
			}
		case 3: // prime meridian added or changed
			if proj != "krovak" {
				if i := find("+pm="); i >= 0 {
					toks = append(toks[:i], toks[i+1:]...)
					return strings.Join(toks, " "), "pm-removed"
				}
				toks = append(toks, "+pm="+ff(rd((r.Float()-0.5)*4, 6), 6))
				return strings.Join(toks, " "), "pm-added"
			}
		case 4: // scale factor
			if proj == "merc" && find("+lat_ts=") >= 0 {
				continue
			}
			if proj == "merc" || proj == "lcc" || proj == "tmerc" {
				i := find("+k_0=")
				if i < 0 {
					i = find("+k=")
				}
				if i >= 0 {
					bump(i, 0.0001, 6)
				} else {
					toks = append(toks, "+k_0=0.9999")
				}
				return strings.Join(toks, " "), "k0"
			}
		case 5: // units
			if proj != "longlat" && proj != "krovak" && proj != "" {
				i := find("+units=")
				j := find("+to_meter=")
				if j >= 0 {
					bump(j, 0.01, 4)
					return strings.Join(toks, " "), "to_meter"
				}
				if i >= 0 {
					nu := map[string]string{"+units=ft": "+units=us-ft", "+units=us-ft": "+units=ft", "+units=m": "+units=ft"}[toks[i]]
					toks[i] = nu
				} else {
					toks = append(toks, "+units=us-ft")
				}
				return strings.Join(toks, " "), "units"
			}
		case 6: // false easting by one metre
			if i := find("+x_0="); i >= 0 {
				bump(i, 1, 3)
				return strings.Join(toks, " "), "x0-1m"
			}
		case 7: // named datum against its own shift written out with one digit changed
			if i := find("+datum="); i >= 0 && !nodatum && find("+towgs84=") < 0 {
				if e, ok := datumExplicit[strings.ToLower(toks[i][7:])]; ok {
					toks[i] = e
					return strings.Join(toks, " "), "datum-explicit-digit"
				}
			}
		case 8: // origin latitude
			if i := find("+lat_0="); i >= 0 && proj != "krovak" {
				bump(i, 0.001, 6)
				return strings.Join(toks, " "), "lat0"
			}
		}
	}
	return def, ""
}

// a few named datums written out (ellipsoid of the table row, first towgs84 term off by one)
var datumExplicit = map[string]string{
	"potsdam":       "+ellps=bessel +towgs84=607.0,23.0,413.0",
	"hermannskogel": "+ellps=bessel +towgs84=654.0,-212.0,449.0",
	"ggrs87":        "+ellps=GRS80 +towgs84=-198.87,74.79,246.62",
	"rassadiran":    "+ellps=intl +towgs84=-132.63,-157.5,-158.62",
	"osgb36":        "+ellps=airy +towgs84=447.448,-125.157,542.060,0.1502,0.2470,0.8421,-20.4894",
	"nzgd49":        "+ellps=intl +towgs84=60.47,-5.04,187.44,0.47,-0.1,1.024,-4.5993",
}

func pmOf(def string) float64 {
	for _, f := range strings.Fields(def) {
		if strings.HasPrefix(f, "+pm=") {
			v := f[4:]
			if d, ok := pmDeg[v]; ok {
				return d
			}
			x, _ := strconv.ParseFloat(v, 64)
			return x
		}
	}
	return 0
}

func trLine(defs []string, x, y float64) string {
	return "tr | " + strings.Join(defs, " | ") + " | " + vproto.F2H(x) + " " + vproto.F2H(y)
}

func corpus(w *bufio.Writer) {
	wgs := "+proj=longlat +datum=WGS84"
	put := func(s string) { fmt.Fprintln(w, s) }
	// the design-time witnesses
	put(trLine([]string{wgs, "+proj=utm +zone=33 +datum=WGS84"}, 15, 60))
	put(trLine([]string{wgs, "+proj=utm +zone=33 +datum=WGS84", wgs}, 17.5, 80))
	put(trLine([]string{wgs, "+proj=tmerc +lat_0=49 +lon_0=-2 +k=0.9996012717 +x_0=400000 +y_0=-100000 +datum=OSGB36 +units=m +no_defs", wgs}, -1.5, 52.5))
	put(trLine([]string{wgs, "+proj=eqdc +lat_0=39 +lon_0=-96 +lat_1=33 +lat_2=45 +x_0=0 +y_0=0 +datum=NAD83 +units=m +no_defs", wgs}, -100, 40))
	put(trLine([]string{"+proj=longlat +ellps=clrk80 +pm=paris +towgs84=-168,-60,320,0,0,0,0", wgs}, 0.5, 46))
	put(trLine([]string{"+proj=longlat +ellps=clrk80 +pm=2.337229166667 +towgs84=-168,-60,320,0,0,0,0", wgs}, 0.5, 46))
	put(trLine([]string{wgs, "+proj=lcc +lat_1=46.8 +lat_0=46.8 +lon_0=0 +k_0=0.99987742 +x_0=600000 +y_0=2200000 +a=6378249.2 +b=6356515 +towgs84=-168,-60,320,0,0,0,0 +pm=paris +units=m +no_defs", wgs}, 2.5, 47))
	// one definition, two datum specifications: the row of a recognised +datum name wins over +towgs84 / +ellps
	// (deriveConstants.js: `json.datum_params = datumDef.towgs84 ? ... : null`, `json.ellps = datumDef.ellipse`)
	for _, m := range []string{"+datum=potsdam +towgs84=598.1,73.7,418.2,0.202,0.045,-2.455,6.7", "+towgs84=582,105,414 +datum=potsdam", "+datum=osgb36 +towgs84=375,-111,431",
		"+ellps=intl +datum=hermannskogel +towgs84=-87,-98,-121", "+datum=WGS84 +towgs84=10,-20,30", "+datum=nzgd49 +ellps=GRS80", "+datum=none +ellps=bessel +towgs84=598.1,73.7,418.2",
		"+datum=nonesuch +ellps=bessel +towgs84=598.1,73.7,418.2"} {
		put(trLine([]string{wgs, "+proj=tmerc +lat_0=0 +lon_0=9 +k=1 +x_0=3500000 +y_0=0 " + m + " +units=m", "+proj=longlat " + m, wgs}, 10.25, 51.5))
	}
	put("parse | +proj=longlat +datum=potsdam +towgs84=598.1,73.7,418.2,0.202,0.045,-2.455,6.7")
	put("parse | +proj=longlat +towgs84=1,2,3 +datum=rnb72")
	put("trd2" + trLine([]string{"+proj=longlat +datum=osgb36 +towgs84=375,-111,431", wgs}, -1.5, 52.5)[2:])
	// two projected systems on two different non-WGS84 datums (the two-hop route)
	put(trLine([]string{"+proj=longlat +datum=potsdam", "+proj=tmerc +lat_0=0 +lon_0=9 +k=1 +x_0=3500000 +y_0=0 +datum=potsdam +units=m", "+proj=lcc +lat_1=49 +lat_2=44 +lat_0=46.5 +lon_0=3 +x_0=700000 +y_0=6600000 +ellps=GRS80 +towgs84=10,-20,30 +units=m", wgs}, 9.5, 50))
	put(trLine([]string{"+proj=longlat +datum=osgb36", "+proj=longlat +datum=ire65"}, -6, 54))
	put(trLine([]string{"+proj=longlat +datum=nzgd49", "+proj=utm +zone=59 +south +datum=potsdam"}, 172, -41))
	// pairs identical in everything but the towgs84 VALUES (the Equal shortcut must not fire)
	put(trLine([]string{"+proj=longlat +ellps=bessel +towgs84=598.1,73.7,418.2", "+proj=longlat +ellps=bessel +towgs84=653,-212,449"}, 11, 48))
	put(trLine([]string{"+proj=longlat +ellps=bessel +towgs84=598.1,73.7,418.2,0.202,0.045,-2.455,6.7", "+proj=longlat +ellps=bessel +towgs84=598.1,73.7,418.2,0.202,0.045,-2.455,6.8"}, 11, 48))
	put(trLine([]string{"+proj=longlat +ellps=bessel +towgs84=598.1,73.7,418.2", "+proj=tmerc +lat_0=0 +lon_0=9 +k=1 +x_0=3500000 +y_0=0 +ellps=bessel +towgs84=598.1,73.7,418.2 +units=m", "+proj=tmerc +lat_0=0 +lon_0=9 +k=1 +x_0=3500000 +y_0=0 +ellps=bessel +towgs84=653,-212,449 +units=m", "+proj=longlat +ellps=bessel +towgs84=653,-212,449"}, 9.5, 50))
	put(trLine([]string{"+proj=longlat +datum=potsdam", "+proj=longlat +ellps=bessel +towgs84=607.0,23.0,413.0"}, 9.5, 50))
	put(trLine([]string{"+proj=longlat +a=6377397.155 +b=6356078.963 +towgs84=598.1,73.7,418.2", "+proj=longlat +a=6377398.155 +b=6356078.963 +towgs84=598.1,73.7,418.2"}, 9.5, 50))
	// 7-term sets, every stratum of {rotations zero?, scale zero?}: scale only, one rotation only (with
	// and without scale), rotations without scale, all four trailing terms zero, shifts zero + scale
	for _, t7 := range []string{"598.1,73.7,418.2,0,0,0,6.7", "-87,-98,-121,0,0,0,-8.25", "-87,-98,-121,0,0,0.554,0", "-87,-98,-121,0,-0.35,0,2.5",
		"-87,-98,-121,0.1,0.2,0.3,0", "0,0,0,0,0,0,4.5", "-87,-98,-121,0,0,0,0"} {
		put(trLine([]string{"+proj=longlat +ellps=intl +towgs84=" + t7, wgs, "+proj=longlat +ellps=intl +towgs84=" + t7}, 5, 50))
		put(trLine([]string{wgs, "+proj=utm +zone=19 +south +ellps=intl +towgs84=" + t7, "+proj=longlat +ellps=intl +towgs84=-87,-98,-121"}, -70.2, -33.3))
	}
	// WGS84-type datums (no shift) on explicit ellipsoids of equal eccentricity and different size
	put(trLine([]string{"+proj=longlat +datum=WGS84 +a=6370000 +b=6370000", "+proj=longlat +datum=NAD83 +a=6371000 +b=6371000"}, 5, 50))
	put(trLine([]string{"+proj=longlat +datum=WGS84 +a=6370000 +rf=298.25", "+proj=merc +lon_0=3 +datum=WGS84 +a=6379000 +rf=298.25", "+proj=longlat +datum=nad83 +a=6371000 +rf=298.25"}, 5, 50))
	// ... and of equal size and different eccentricity
	put(trLine([]string{"+proj=longlat +datum=WGS84 +a=6378137 +rf=298.25", "+proj=longlat +datum=NAD83 +a=6378137 +rf=300"}, 5, 50))
	put(trLine([]string{"+proj=longlat +datum=wgs84 +a=6371000 +rf=295.5", "+proj=merc +lon_0=3 +datum=WGS84 +a=6371000 +rf=305.25", "+proj=longlat +datum=nad83 +a=6371000 +b=6371000"}, 5, -40))
	// twins differing in a flag / a name only
	put(trLine([]string{wgs, "+proj=utm +zone=33 +datum=WGS84", "+proj=utm +zone=33 +south +datum=WGS84", wgs}, 15, 60))
	put(trLine([]string{wgs, "+proj=lcc +lat_1=33 +lat_2=45 +lat_0=39 +lon_0=-96 +x_0=0 +y_0=0 +datum=NAD83", "+proj=aea +lat_1=33 +lat_2=45 +lat_0=39 +lon_0=-96 +x_0=0 +y_0=0 +datum=NAD83", "+proj=eqdc +lat_1=33 +lat_2=45 +lat_0=39 +lon_0=-96 +x_0=0 +y_0=0 +datum=NAD83", wgs}, -100, 40))
	// the pole on the cone's side
	for _, y := range []float64{90, math.Nextafter(90, 0)} {
		put(trLine([]string{"+proj=longlat +ellps=GRS80", "+proj=lcc +lat_1=49 +lat_2=77 +lat_0=63 +lon_0=-92 +x_0=6200000 +y_0=3000000 +ellps=GRS80"}, -60, y))
		put(trLine([]string{"+proj=longlat +ellps=GRS80", "+proj=lcc +lat_1=-49 +lat_2=-77 +lat_0=-63 +lon_0=-92 +x_0=6200000 +y_0=3000000 +ellps=GRS80"}, -60, -y))
	}
	// the antimeridian edge: the EPSG:3857 extent inverts to +-180 on its own side, and lon_0 +- 180 projects to its own edge
	m3857 := "+proj=merc +a=6378137 +b=6378137 +lat_ts=0.0 +lon_0=0.0 +x_0=0.0 +y_0=0 +k=1.0 +units=m +nadgrids=@null +no_defs"
	s3857 := "+proj=longlat +a=6378137 +b=6378137 +nadgrids=@null"
	for _, x := range []float64{20037508.342789244, -20037508.342789244, math.Nextafter(20037508.342789244, 1e9), math.Nextafter(-20037508.342789244, -1e9), 20037508.34, -20037508.34} {
		for _, y := range []float64{0, 20037508.342789244, -1118889.9748579583} {
			put(trLine([]string{m3857, s3857}, x, y))
		}
	}
	for _, l := range []float64{180, -180, math.Nextafter(180, 0), math.Nextafter(-180, 0)} {
		put(trLine([]string{s3857, m3857}, l, 10))
	}
	for _, l0 := range []int{8, -8, 100, -30, 170} {
		md := "+proj=merc +lon_0=" + strconv.Itoa(l0) + " +a=6378137 +b=6378137"
		for _, l := range []float64{float64(l0) - 180, float64(l0) + 180} {
			if l >= -180 && l <= 180 {
				put(trLine([]string{"+proj=longlat +a=6378137 +b=6378137", md}, l, 10))
				put(trLine([]string{"+proj=longlat +ellps=GRS80", "+proj=lcc +lat_1=40 +lat_2=50 +lat_0=45 +lon_0=" + strconv.Itoa(l0) + " +x_0=0 +y_0=0 +ellps=GRS80"}, l, 45))
			}
		}
	}
	// histories on one line: extra DeriveConstants calls / repeated parses, 7-term shifts explicit and named
	k7 := "+proj=longlat +ellps=bessel +towgs84=570.8,85.7,462.8,4.998,1.587,5.261,3.56"
	put("trd1" + trLine([]string{k7, wgs}, 14.4, 50.1)[2:])
	put("trd2" + trLine([]string{wgs, "+proj=krovak +lat_0=49.5 +lon_0=24.83333333333333 +k=0.9999 +ellps=bessel +towgs84=570.8,85.7,462.8,4.998,1.587,5.261,3.56", k7}, 14.4, 50.1)[2:])
	put("trd2" + trLine([]string{"+proj=longlat +datum=potsdam", "+proj=utm +zone=32 +datum=potsdam", wgs}, 9.5, 50)[2:])
	for _, d := range []string{"nzgd49", "osgb36", "ire65", "rnb72"} {
		put("trp3" + trLine([]string{"+proj=longlat +datum=" + d, wgs, "+proj=longlat +datum=" + d}, 5, 50)[2:])
		put("trd2" + trLine([]string{"+proj=longlat +datum=" + d, wgs}, 5, 50)[2:])
	}
	// one transformer, many calls, two different datums (the WGS84 workaround carries a height per call)
	{
		defs := []string{"+proj=longlat +datum=potsdam", "+proj=tmerc +lat_0=0 +lon_0=9 +k=1 +x_0=3500000 +y_0=0 +datum=potsdam +units=m", "+proj=lcc +lat_1=49 +lat_2=44 +lat_0=46.5 +lon_0=3 +x_0=700000 +y_0=6600000 +ellps=GRS80 +towgs84=10,-20,30 +units=m", "+proj=longlat +ellps=bessel +towgs84=570.8,85.7,462.8,4.998,1.587,5.261,3.56"}
		l := "trs | " + strings.Join(defs, " | ") + " |"
		for k := 0; k < 12; k++ {
			l += " " + vproto.F2H(9.5+0.01*float64(k)) + " " + vproto.F2H(50-0.02*float64(k))
		}
		put(l)
		l = "trs | +proj=longlat +datum=osgb36 | +proj=longlat +datum=ire65 |"
		for k := 0; k < 16; k++ {
			l += " " + vproto.F2H(-6+0.01*float64(k)) + " " + vproto.F2H(54)
		}
		put(l)
	}
	// units
	put(trLine([]string{wgs, "+proj=lcc +lat_1=34.03333333333333 +lat_2=35.46666666666667 +lat_0=33.5 +lon_0=-118 +x_0=2000000.0001016 +y_0=500000.0001016001 +datum=NAD83 +units=us-ft +no_defs", "+proj=aea +lat_1=29.5 +lat_2=45.5 +lat_0=23 +lon_0=-96 +x_0=0 +y_0=0 +datum=NAD83 +units=ft", wgs}, -117.5, 34.2))
	// datum-less against a geographic system on the same ellipsoid
	put(trLine([]string{"+proj=longlat +ellps=intl", "+proj=merc +lon_0=10 +lat_ts=40 +x_0=1000 +y_0=-2000 +ellps=intl", "+proj=longlat +ellps=intl"}, 33.3, -44.4))
	put(trLine([]string{"+proj=longlat +a=6378137 +b=6378137", "+proj=merc +a=6378137 +b=6378137 +lat_ts=0.0 +lon_0=0.0 +x_0=0.0 +y_0=0 +k=1.0 +units=m +nadgrids=@null +no_defs", "+proj=longlat +a=6378137 +b=6378137"}, -71, 42.3))
	put(trLine([]string{"+proj=longlat +ellps=bessel +towgs84=570.8,85.7,462.8,4.998,1.587,5.261,3.56", "+proj=krovak +lat_0=49.5 +lon_0=24.83333333333333 +k=0.9999 +ellps=bessel +towgs84=570.8,85.7,462.8,4.998,1.587,5.261,3.56", wgs}, 14.4, 50.1))
	// Krovak on an ellipsoid other than Bessel 1841 (S-JTSK/05-like, "Krovak on ETRS89"): proj4js' krovak.js
	// hard-codes a and es of Bessel 1841 for the projection while the datum keeps the named ellipsoid
	kv := "+proj=krovak +lat_0=49.5 +lon_0=24.83333333333333 +k=0.9999 +x_0=0 +y_0=0"
	for _, d := range []string{"+datum=WGS84", "+datum=NAD83", "+ellps=GRS80", "+ellps=GRS80 +towgs84=0,0,0,0,0,0,1", "+ellps=WGS84 +towgs84=572.213,85.334,461.94,4.9732,1.529,5.2484,3.5378",
		"+ellps=intl +towgs84=-87,-98,-121", "+a=6378137 +rf=298.257222101 +towgs84=10,-20,30", "+ellps=sphere", "+a=6377397.155 +b=6377397.155", "+ellps=bessel", "+datum=potsdam", "+datum=osgb36"} {
		g := "+proj=longlat " + d
		put(trLine([]string{g, kv + " " + d + " +units=m +no_defs", g}, 12.5, 50.9))
		put(trLine([]string{g, "+proj=krovak " + d, g}, 21.9, 48.6))
	}
	put(trLine([]string{wgs, kv + " +datum=NAD83 +units=m +no_defs", "+proj=krovak +ellps=bessel +towgs84=589,76,480", kv + " +datum=WGS84", wgs}, 16.6, 49.2))
	{
		l := "trs | " + wgs + " | " + kv + " +ellps=GRS80 | " + kv + " +datum=WGS84 | +proj=utm +zone=33 +ellps=GRS80 +towgs84=0,0,0,0,0,0,1 | " + wgs + " |"
		for k := 0; k < 10; k++ {
			l += " " + vproto.F2H(14.4+0.3*float64(k)) + " " + vproto.F2H(50.1-0.1*float64(k))
		}
		put(l)
	}
	put("trd2" + trLine([]string{wgs, kv + " +ellps=GRS80", wgs}, 14.4, 50.1)[2:])
	// the WGS84 workaround's test on the destination code (b165df1): lower-case / upper-case code, own ellipsoid
	for _, w := range []string{"+datum=wgs84", "+datum=wgs84 +a=6370000 +b=6370000", "+datum=wgs84 +a=6377000 +rf=299.5", "+datum=WGS84 +a=6370000 +b=6370000", "+datum=WGS84 +a=6377000 +rf=299.5", "+datum=nad83 +a=6377000 +rf=299.5"} {
		for _, sdef := range []string{k7, "+proj=longlat +datum=potsdam", "+proj=utm +zone=32 +datum=osgb36"} {
			x, y := 9.5, 50.0
			if strings.Contains(sdef, "utm") {
				x, y = 535000, 5540000
			}
			put(trLine([]string{sdef, "+proj=longlat " + w, sdef}, x, y))
			put(trLine([]string{sdef, "+proj=tmerc +lat_0=0 +lon_0=9 +k=0.9996 +x_0=500000 +y_0=0 " + w}, x, y))
		}
	}
	put("trp2" + trLine([]string{wgs, kv + " +datum=NAD83", wgs}, 14.4, 50.1)[2:])
	// the tables through the exported fields
	for _, e := range ellipsoids {
		put("parse | +proj=longlat +ellps=" + e + " +no_defs")
	}
	put("parse | +proj=longlat +ellps=plessis")
	put("parse | +proj=longlat +ellps=bessel +b=6356078.963")
	put("parse | +proj=longlat +ellps=clrk66 +rf=294.98")
	put("parse | +proj=longlat +ellps=airy +rf=299.3249646")
	put("parse | +proj=longlat +ellps=intl +a=6378388.5")
	put("parse | +proj=longlat +datum=potsdam +b=6356078.963")
	put("parse | +proj=longlat +ellps=nonesuch")
	for _, d := range datums {
		put("parse | +proj=longlat +datum=" + d)
	}
	for _, p := range pms {
		put("parse | +proj=longlat +ellps=WGS84 +pm=" + p)
	}
	put("parse | +proj=longlat +ellps=WGS84 +pm=2.337229166667")
	put("parse | +proj=longlat +ellps=WGS84 +pm=-17.4")
	for _, u := range []string{"ft", "us-ft", "m", "degrees", "km"} {
		put("parse | +proj=merc +lon_0=0 +datum=WGS84 +units=" + u)
	}
	put("parse | +proj=merc +lon_0=0 +datum=WGS84 +to_meter=0.3048006096012192")
	put("parse | +proj=tmerc +lat_0=0 +lon_0=9 +a=6377397.155 +rf=299.1528128 +towgs84=598.1,73.7,418.2,0.202,0.045,-2.455,6.7")
	put("parse | +proj=tmerc +lat_0=0 +lon_0=9 +a=6377397.155 +b=6356078.963 +towgs84=598.1,73.7,418.2")
	put("parse | +proj=merc +lon_0=0 +a=6371000 +b=6371000")
	put("parse | +proj=merc +lon_0=0 +ellps=intl +R_A")
	// +R_A (authalic radius: DeriveConstants shrinks a, zeroes es, recomputes a2/b2/ep2) through every projection
	// family and as source/destination of a datum shift; before, only the parse line above carried it
	for _, d := range []string{
		"+proj=tmerc +lat_0=0 +lon_0=9 +k=0.9996 +x_0=500000 +y_0=0 +ellps=intl +R_A +towgs84=-87,-98,-121",
		"+proj=utm +zone=32 +ellps=intl +R_A +towgs84=-87,-98,-121",
		"+proj=longlat +ellps=clrk66 +R_A +towgs84=-8,160,176",
		"+proj=aea +lat_1=29.5 +lat_2=45.5 +lat_0=23 +lon_0=9 +x_0=0 +y_0=0 +ellps=GRS80 +R_A +towgs84=1,2,3",
		"+proj=eqdc +lat_1=33 +lat_2=45 +lat_0=39 +lon_0=9 +x_0=0 +y_0=0 +ellps=GRS80 +R_A +towgs84=1,2,3",
		"+proj=merc +lon_0=9 +x_0=0 +y_0=0 +ellps=bessel +R_A +towgs84=598.1,73.7,418.2",
		"+proj=lcc +lat_1=49 +lat_2=44 +lat_0=46.5 +lon_0=9 +x_0=700000 +y_0=6600000 +ellps=GRS80 +R_A +towgs84=10,-20,30",
	} {
		put(trLine([]string{wgs, d, wgs}, 9.5, 47.25))
	}
	// a sphere spelled `+rf=0` (DeriveConstants: `Rf == 0` -> sphere, B = A; the B computed from rf = 0 just before is -Inf)
	sph0 := "+a=6371000 +rf=0"
	put(trLine([]string{"+proj=longlat " + sph0, "+proj=merc +lon_0=9 +x_0=0 +y_0=0 " + sph0,
		"+proj=aea +lat_1=29.5 +lat_2=45.5 +lat_0=23 +lon_0=9 +x_0=0 +y_0=0 " + sph0, "+proj=longlat " + sph0}, 9.5, 47.25))
	put("parse | +proj=longlat +datum=WGS84 +from_greenwich=2.5")
}

func lonOf(def string) (float64, bool) {
	for _, f := range strings.Fields(def) {
		if strings.HasPrefix(f, "+lon_0=") {
			v, err := strconv.ParseFloat(f[7:], 64)
			return v, err == nil
		}
	}
	return 0, false
}

func dropTok(def, prefix string) string {
	var out []string
	for _, f := range strings.Fields(def) {
		if !strings.HasPrefix(f, prefix) {
			out = append(out, f)
		}
	}
	return strings.Join(out, " ")
}

// edges emits single hops geographic -> projected at the antimeridian of the projection: longitude
// exactly lon_0 ± 180 and one ulp either side (proj4js keeps such a point on its side because its
// SPI is slightly larger than π). One ellipsoid, no datum, no prime meridian: the longitude reaches
// adjust_lon through multiplications and one subtraction only, so every implementation gets the same bits.
func edges(w *bufio.Writer, r *vproto.Rng, n int) {
	kinds := []string{"merc", "merc", "lcc", "aea", "eqdc"}
	for i := 0; i < n; i++ {
		f := frame{nodatum: true, ellps: ellpsClause(r)}
		latG := (r.Float() - 0.5) * 120
		if math.Abs(latG) < 5 {
			latG = 20
		}
		kind := kinds[r.Intn(len(kinds))]
		def := dropTok(genSR(r, kind, f, (r.Float()-0.5)*300, latG), "+pm=")
		if i%3 == 0 { // round central meridians too
			def = dropTok(def, "+lon_0=") + " +lon_0=" + strconv.Itoa(r.Range(-17, 17)*10)
		}
		l0, ok := lonOf(def)
		if !ok {
			continue
		}
		lon := l0 - 180
		if l0 <= 0 {
			lon = l0 + 180
		}
		src := strings.TrimSpace("+proj=longlat " + f.ellps)
		for _, x := range []float64{lon, math.Nextafter(lon, 1000), math.Nextafter(lon, -1000)} {
			if x >= -180 && x <= 180 {
				fmt.Fprintln(w, trLine([]string{src, def}, x, latG))
			}
		}
	}
}

// poles emits single hops geographic -> cone at the pole on the cone's side (exactly +-90 degrees and
// one ulp below): lcc replaces the pole by a latitude 2e-10 short of it, aea/eqdc evaluate there.
func poles(w *bufio.Writer, r *vproto.Rng, n int) {
	kinds := []string{"lcc", "lcc", "aea", "eqdc"}
	for i := 0; i < n; i++ {
		f := frame{nodatum: true, ellps: ellpsClause(r)}
		hemi := 1.0
		if r.Bool() {
			hemi = -1
		}
		lon := (r.Float() - 0.5) * 340
		def := dropTok(genSR(r, kinds[r.Intn(len(kinds))], f, lon, hemi*60), "+pm=")
		if strings.Contains(def, "+lat_1=-") != (hemi < 0) || (strings.Contains(def, "+lat_2=") && strings.Contains(def, "+lat_2=-") != (hemi < 0)) {
			continue // both parallels on the pole's hemisphere
		}
		src := strings.TrimSpace("+proj=longlat " + f.ellps)
		for _, y := range []float64{hemi * 90, hemi * math.Nextafter(90, 0), hemi * 89.99999999} {
			fmt.Fprintln(w, trLine([]string{src, def}, lon, y))
		}
	}
}

func gen(seed uint64, tier string) {
	w := bufio.NewWriterSize(os.Stdout, 1<<20)
	defer w.Flush()
	r := vproto.NewRng(seed)
	corpus(w)
	n := 1500
	if tier == "thorough" {
		n = 30000
	}
	edges(w, r, n/15)
	poles(w, r, n/30)
	for i := 0; i < n; i++ {
		// the geographic point (degrees from Greenwich)
		var lonG, latG float64
		czech := r.Intn(12) == 0
		if czech {
			lonG, latG = 12.2+r.Float()*10.5, 47.8+r.Float()*3.2
		} else {
			lonG = (r.Float() - 0.5) * 358
			switch r.Intn(10) {
			case 0:
				latG = (r.Float() - 0.5) * 2 // near the equator
			case 1:
				latG = (1 - 2*float64(r.Intn(2))) * (75 + r.Float()*9)
			default:
				latG = (r.Float() - 0.5) * 150
			}
		}
		f := frame{nodatum: r.Intn(4) == 0}
		if f.nodatum {
			f.ellps = ellpsClause(r)
		} else if r.Intn(16) == 0 {
			f.sameEs = true
			switch r.Intn(3) {
			case 0:
				f.rf = rd(290+r.Float()*20, 6)
			case 1:
				f.fixA = rd(6360000+float64(r.Intn(30))*1000, 0)
			}
		}
		pick := func() string {
			for {
				k := projKinds[r.Intn(len(projKinds))]
				if k == "krovak" && !czech {
					continue
				}
				if k == "utm" && math.Abs(latG) > 84 {
					continue
				}
				return k
			}
		}
		g0 := genSR(r, "longlat", f, lonG, latG)
		var defs []string
		switch r.Intn(6) {
		case 0:
			defs = []string{g0, genSR(r, pick(), f, lonG, latG)}
		case 1, 2:
			defs = []string{g0, genSR(r, pick(), f, lonG, latG), genSR(r, "longlat", f, lonG, latG)}
		default:
			defs = []string{g0, genSR(r, pick(), f, lonG, latG), genSR(r, pick(), f, lonG, latG), genSR(r, "longlat", f, lonG, latG)}
		}
		// every fourth chain probes the Equal shortcut: one system is followed by its twin that
		// differs in exactly one field (most often only in the towgs84 values)
		if i%4 == 0 {
			k := 0
			if len(defs) > 2 {
				k = 1 + r.Intn(len(defs)-2)
			} else if r.Bool() {
				k = 1
			}
			if t, what := twin(r, defs[k], f.nodatum); what != "" {
				nd := append([]string{}, defs[:k+1]...)
				nd = append(nd, t)
				nd = append(nd, defs[k+1:]...)
				if len(nd) > 4 {
					nd = append(nd[:k+2], nd[len(nd)-1])
				}
				defs = nd
			}
		}
		x := wrap180(lonG - pmOf(g0))
		line := trLine(defs, x, latG)
		// history flavours (one line = one history): extra DeriveConstants calls on the finished SRs,
		// repeated parses of the same text before the first SRs are used
		switch i % 8 {
		case 2, 6:
			// one transformer per hop, 8-16 nearby positions through the same objects
			n := r.Range(8, 16)
			var b strings.Builder
			b.WriteString("trs | " + strings.Join(defs, " | ") + " |")
			for k := 0; k < n; k++ {
				px, py := x, latG
				if k > 0 {
					px = wrap180(x + (r.Float()-0.5)*0.3)
					py = latG + (r.Float()-0.5)*0.3
				}
				b.WriteString(" " + vproto.F2H(px) + " " + vproto.F2H(py))
			}
			line = b.String()
		case 1:
			line = "trd" + strconv.Itoa(1+r.Intn(2)) + line[2:]
		case 5:
			line = "trp" + strconv.Itoa(2+r.Intn(2)) + line[2:]
		}
		fmt.Fprintln(w, line)
		if i%10 == 0 {
			fmt.Fprintln(w, "parse | "+defs[len(defs)/2])
		}
	}
}

// ---------------------------------------------------------------- implementation side

func errText(e interface{}) string {
	s := fmt.Sprint(e)
	s = strings.Map(func(c rune) rune {
		if c == ' ' || c == '|' || c == ';' || c == '\n' || c == '\t' {
			return '_'
		}
		return c
	}, s)
	if len(s) > 80 {
		s = s[:80]
	}
	if s == "" {
		s = "error"
	}
	return s
}

func dumpSR(sr *proj.SR, withParams bool) []string {
	out := []string{"A:" + vproto.F2H(sr.A), "B:" + vproto.F2H(sr.B), "Rf:" + vproto.F2H(sr.Rf), "Es:" + vproto.F2H(sr.Es),
		"FromGreenwich:" + vproto.F2H(sr.FromGreenwich), "ToMeter:" + vproto.F2H(sr.ToMeter)}
	if withParams {
		ps := fmt.Sprintf("DatumParams:%d", len(sr.DatumParams))
		for _, v := range sr.DatumParams {
			ps += "," + vproto.F2H(v)
		}
		out = append(out, ps)
	}
	return out
}

// rederive calls DeriveConstants k more times and reports the first exported field that changes.
// DatumParams of a definition with +datum= are left out: DeriveConstants re-copies them from the
// table (unconverted) while the datum keeps the converted slice, on the unchanged tree as well.
func rederive(sr *proj.SR, def string, k int) string {
	withParams := !strings.Contains(def, "+datum=")
	d0 := dumpSR(sr, withParams)
	for j := 0; j < k; j++ {
		sr.DeriveConstants()
		d := dumpSR(sr, withParams)
		for i := range d0 {
			if d[i] != d0[i] {
				return "changed " + d0[i] + "->" + d[i][strings.Index(d[i], ":")+1:]
			}
		}
	}
	return ""
}

func implTr(fields []string, extraDerive, extraParse int) string {
	defs := fields[1 : len(fields)-1]
	xy := strings.Fields(fields[len(fields)-1])
	if len(xy) != 2 || len(defs) < 2 {
		return "badline"
	}
	x, e1 := vproto.H2F(xy[0])
	y, e2 := vproto.H2F(xy[1])
	if e1 != nil || e2 != nil {
		return "badline"
	}
	var out []string
	for i := 0; i+1 < len(defs); i++ {
		var item string
		stop := false
		p := vproto.Safe(func() {
			// fresh SRs and a fresh transformer for every hop
			src, err := proj.Parse(defs[i])
			if err != nil {
				item, stop = "err parse-src:"+errText(err), true
				return
			}
			dst, err := proj.Parse(defs[i+1])
			if err != nil {
				item, stop = "err parse-dst:"+errText(err), true
				return
			}
			for j := 0; j < extraParse; j++ { // later parses of the same text; the first SRs are used
				if _, err := proj.Parse(defs[i]); err != nil {
					item, stop = "err reparse:"+errText(err), true
					return
				}
				if _, err := proj.Parse(defs[i+1]); err != nil {
					item, stop = "err reparse:"+errText(err), true
					return
				}
			}
			if extraDerive > 0 {
				if c := rederive(src, defs[i], extraDerive); c != "" {
					item, stop = c, true
					return
				}
				if c := rederive(dst, defs[i+1], extraDerive); c != "" {
					item, stop = c, true
					return
				}
			}
			t, err := src.NewTransform(dst)
			if err != nil {
				item, stop = "err new:"+errText(err), true
				return
			}
			if t == nil {
				item = "same " + vproto.F2H(x) + " " + vproto.F2H(y)
				return
			}
			nx, ny, err := t(x, y)
			if err != nil {
				item, stop = "err tr:"+errText(err), true
				return
			}
			x, y = nx, ny
			item = "ok " + vproto.F2H(x) + " " + vproto.F2H(y)
		})
		if p != "" {
			item, stop = "panic "+errText(p), true
		}
		out = append(out, item)
		if stop {
			break
		}
	}
	return strings.Join(out, " ; ")
}

// implSeq: reused SRs and transformers over a sequence of positions, with a fresh-per-call control.
func implSeq(fields []string) string {
	defs := fields[1 : len(fields)-1]
	xy := strings.Fields(fields[len(fields)-1])
	if len(xy) < 2 || len(xy)%2 != 0 || len(defs) < 2 {
		return "badline"
	}
	srs := make([]*proj.SR, len(defs))
	ts := make([]proj.Transformer, len(defs)-1)
	setupErr := make([]string, len(defs)-1)
	p := vproto.Safe(func() {
		for i, d := range defs {
			sr, err := proj.Parse(d)
			if err != nil {
				for j := range setupErr {
					if j >= i-1 && setupErr[j] == "" {
						setupErr[j] = "err parse:" + errText(err)
					}
				}
				continue
			}
			srs[i] = sr
		}
		for i := 0; i+1 < len(defs); i++ {
			if srs[i] == nil || srs[i+1] == nil {
				if setupErr[i] == "" {
					setupErr[i] = "err parse"
				}
				continue
			}
			t, err := srs[i].NewTransform(srs[i+1])
			if err != nil {
				setupErr[i] = "err new:" + errText(err)
				continue
			}
			ts[i] = t // nil = identical systems
		}
	})
	if p != "" {
		return "panic " + errText(p)
	}
	var all []string
	for k := 0; k+1 < len(xy); k += 2 {
		x, e1 := vproto.H2F(xy[k])
		y, e2 := vproto.H2F(xy[k+1])
		if e1 != nil || e2 != nil {
			return "badline"
		}
		fx, fy := x, y // the fresh-per-call control runs alongside
		var out []string
		for i := 0; i+1 < len(defs); i++ {
			var item string
			stop := false
			pp := vproto.Safe(func() {
				if setupErr[i] != "" {
					item, stop = setupErr[i], true
					return
				}
				if ts[i] == nil {
					item = "same " + vproto.F2H(x) + " " + vproto.F2H(y)
					fx, fy = x, y
					return
				}
				nx, ny, err := ts[i](x, y)
				// control: fresh SRs, fresh transformer, same input
				var cx, cy float64
				var cerr error
				src, e1 := proj.Parse(defs[i])
				dst, e2 := proj.Parse(defs[i+1])
				if e1 == nil && e2 == nil {
					ft, e3 := src.NewTransform(dst)
					if e3 == nil && ft != nil {
						cx, cy, cerr = ft(x, y)
					} else {
						cerr = e3
					}
				}
				if err != nil {
					if cerr == nil {
						item, stop = "histdep-err "+errText(err), true
						return
					}
					item, stop = "err tr:"+errText(err), true
					return
				}
				if cerr != nil || math.Float64bits(cx) != math.Float64bits(nx) || math.Float64bits(cy) != math.Float64bits(ny) {
					if !(math.IsNaN(cx) && math.IsNaN(nx)) || !(math.IsNaN(cy) && math.IsNaN(ny)) {
						item, stop = "histdep "+vproto.F2H(nx)+" "+vproto.F2H(ny)+" "+vproto.F2H(cx)+" "+vproto.F2H(cy), true
						return
					}
				}
				x, y = nx, ny
				item = "ok " + vproto.F2H(x) + " " + vproto.F2H(y)
			})
			if pp != "" {
				item, stop = "panic "+errText(pp), true
			}
			out = append(out, item)
			if stop {
				break
			}
		}
		_ = fx
		_ = fy
		all = append(all, strings.Join(out, " ; "))
	}
	return strings.Join(all, " ;; ")
}

func implParse(def string) string {
	var res string
	p := vproto.Safe(func() {
		sr, err := proj.Parse(def)
		if err != nil {
			res = "err " + errText(err)
			return
		}
		var b strings.Builder
		b.WriteString("ok")
		for _, v := range []float64{sr.A, sr.B, sr.Rf, sr.Es, sr.FromGreenwich, sr.ToMeter} {
			b.WriteString(" " + vproto.F2H(v))
		}
		fmt.Fprintf(&b, " %d", len(sr.DatumParams))
		for _, v := range sr.DatumParams {
			b.WriteString(" " + vproto.F2H(v))
		}
		res = b.String()
	})
	if p != "" {
		return "panic " + errText(p)
	}
	return res
}

func impl() {
	vproto.Lines(func(line string, out *bufio.Writer) {
		fields := strings.Split(line, " | ")
		for i := range fields {
			fields[i] = strings.TrimSpace(fields[i])
		}
		var res string
		switch {
		case fields[0] == "tr":
			res = implTr(fields, 0, 0)
		case fields[0] == "trs":
			res = implSeq(fields)
		case strings.HasPrefix(fields[0], "trd") || strings.HasPrefix(fields[0], "trp"):
			k, err := strconv.Atoi(fields[0][3:])
			if err != nil || k < 1 || k > 9 {
				res = "badline"
			} else if fields[0][2] == 'd' {
				res = implTr(fields, k, 0)
			} else {
				res = implTr(fields, 0, k)
			}
		default:
			res = implOther(fields)
		}
		fmt.Fprintln(out, line+" => "+res)
		out.Flush()
	})
}

func implOther(fields []string) string {
	var res string
	{
		switch fields[0] {
		case "parse":
			if len(fields) == 2 {
				res = implParse(fields[1])
			} else {
				res = "badline"
			}
		default:
			res = "badline"
		}
	}
	return res
}

func main() {
	if len(os.Args) < 2 {
		fmt.Fprintln(os.Stderr, "usage: c09 gen --seed S --tier T | impl")
		os.Exit(2)
	}
	switch os.Args[1] {
	case "gen":
		seed, tier := vproto.SeedTier(os.Args[2:])
		gen(seed, tier)
	case "impl":
		impl()
	default:
		fmt.Fprintln(os.Stderr, "unknown subcommand")
		os.Exit(2)
	}
}
