package main

// T1 tie for C02: regenerate Lean definitions of the pure decision functions
// (simplify.go: pointSubtract, pointOnSegment; within.go: rayIntersectsSegment) from the Go source of
// the tree under test.  `c02 extract --repo DIR` prints the module GeomV.C02.Gen; lean/GeomV/C02/Ties.lean
// proves `Gen.f = Model.f` by rfl, so a source change to one of these functions either still matches
// the model the theorems are about, or breaks a named obligation.
//
// Subset: parameters of type Point; statements `if c {…} [else {…}]`, `return e`, `x := call`,
// and `if c { a, b = b, a }` (parallel assignment to existing variables); expressions over
// `v.X`, `v.Y`, integer literals, `- /`, comparisons, `&& ||`, `pointSubtract(…)`, `Point{X:…, Y:…}`.
// Float division becomes `fdiv` (four-valued FQ); `==`/`>=` between quotients become `FQ.eq`/`FQ.ge`;
// comparisons between coordinates are exact rational comparisons.

import (
	"fmt"
	"go/ast"
	"go/parser"
	"go/token"
	"os"
	"path/filepath"
	"strings"
)

type kind int

const (
	kRat kind = iota
	kFQ
	kProp
	kBool
	kPt
	kERat
)

type env map[string]string

// rmode: second translation of the same functions with every float `-` and `/` rounded by an abstract
// rounding function `rnd : Rat → Rat` (namespace GeomV.C02.GenR; see ProofsFloat.lean)
var rmode bool

// xmode: third translation over XF (float64 with NaN, ±Inf, -0; lean/GeomV/C02/XF.lean): every comparison, `-` and `/`
// is the IEEE operation on XF (namespace GeomV.C02.GenX)
var xmode bool

type xerr struct{ msg string }

func fail(f string, a ...interface{}) { panic(xerr{fmt.Sprintf(f, a...)}) }

func (e env) name(id string) string {
	if n, ok := e[id]; ok {
		return n
	}
	return id
}

func asBool(s string, k kind) string {
	switch k {
	case kBool:
		return s
	case kProp:
		return "decide (" + s + ")"
	}
	fail("expected a condition, got %q", s)
	return ""
}

func trExpr(x ast.Expr, e env) (string, kind) {
	switch t := x.(type) {
	case *ast.ParenExpr:
		return trExpr(t.X, e)
	case *ast.Ident:
		switch t.Name {
		case "true", "false":
			return t.Name, kBool
		}
		return e.name(t.Name), kPt
	case *ast.BasicLit:
		if t.Kind == token.INT {
			if xmode {
				return "(XF.ofInt " + t.Value + ")", kRat
			}
			return t.Value, kRat
		}
		fail("literal %s", t.Value)
	case *ast.UnaryExpr:
		if t.Op != token.NOT {
			fail("unary operator %s", t.Op)
		}
		s, k := trExpr(t.X, e)
		return "(!" + asBool(s, k) + ")", kBool
	case *ast.SelectorExpr:
		if in, ok := t.X.(*ast.SelectorExpr); ok { // b.Min.X of a *Bounds: an extended rational
			id, ok := in.X.(*ast.Ident)
			if !ok || (in.Sel.Name != "Min" && in.Sel.Name != "Max") || (t.Sel.Name != "X" && t.Sel.Name != "Y") {
				fail("nested selector outside the subset")
			}
			return e.name(id.Name) + "." + strings.ToLower(in.Sel.Name) + t.Sel.Name, kERat
		}
		id, ok := t.X.(*ast.Ident)
		if !ok {
			fail("selector on non-identifier")
		}
		switch t.Sel.Name {
		case "X":
			return e.name(id.Name) + ".x", kRat
		case "Y":
			return e.name(id.Name) + ".y", kRat
		}
		fail("field %s", t.Sel.Name)
	case *ast.CallExpr:
		if m, ok := t.Fun.(*ast.SelectorExpr); ok { // b.Empty()
			id, ok := m.X.(*ast.Ident)
			if !ok || m.Sel.Name != "Empty" || len(t.Args) != 0 {
				fail("method call outside the subset")
			}
			return "(Bounds_Empty " + e.name(id.Name) + ")", kBool
		}
		fn, ok := t.Fun.(*ast.Ident)
		if !ok || fn.Name != "pointSubtract" || len(t.Args) != 2 {
			fail("call outside the subset")
		}
		a, ka := trExpr(t.Args[0], e)
		b, kb := trExpr(t.Args[1], e)
		if ka != kPt || kb != kPt {
			fail("pointSubtract of non-points")
		}
		if rmode {
			return "pointSubtract rnd " + a + " " + b, kPt
		}
		return "pointSubtract " + a + " " + b, kPt
	case *ast.CompositeLit:
		id, ok := t.Type.(*ast.Ident)
		if !ok || id.Name != "Point" || len(t.Elts) != 2 {
			fail("composite literal outside the subset")
		}
		var xs, ys string
		for _, el := range t.Elts {
			kv, ok := el.(*ast.KeyValueExpr)
			if !ok {
				fail("unkeyed Point literal")
			}
			v, k := trExpr(kv.Value, e)
			if k != kRat {
				fail("Point field is not a coordinate expression")
			}
			switch kv.Key.(*ast.Ident).Name {
			case "X":
				xs = v
			case "Y":
				ys = v
			}
		}
		return "⟨" + xs + ", " + ys + "⟩", kPt
	case *ast.BinaryExpr:
		l, kl := trExpr(t.X, e)
		r, kr := trExpr(t.Y, e)
		switch t.Op {
		case token.SUB:
			if kl != kRat || kr != kRat {
				fail("subtraction of non-coordinates")
			}
			if xmode {
				return "(XF.sub " + l + " " + r + ")", kRat
			}
			if rmode {
				return "(rnd (" + l + " - " + r + "))", kRat
			}
			return "(" + l + " - " + r + ")", kRat
		case token.QUO:
			if kl != kRat || kr != kRat {
				fail("division of non-coordinates")
			}
			if xmode {
				return "(XF.div " + l + " " + r + ")", kRat
			}
			if rmode {
				return "(fdivR rnd " + l + " " + r + ")", kFQ
			}
			return "(fdiv " + l + " " + r + ")", kFQ
		case token.LSS, token.GTR, token.LEQ, token.GEQ, token.EQL:
			op := map[token.Token]string{token.LSS: "<", token.GTR: ">", token.LEQ: "≤", token.GEQ: "≥", token.EQL: "="}[t.Op]
			if xmode && (kl == kRat || kl == kERat) && (kr == kRat || kr == kERat) {
				fn := map[token.Token]string{token.LSS: "XF.lt", token.GTR: "XF.gt", token.LEQ: "XF.le", token.GEQ: "XF.ge", token.EQL: "XF.eq"}[t.Op]
				return "(" + fn + " " + l + " " + r + ")", kBool
			}
			if kl == kRat && kr == kRat {
				return l + " " + op + " " + r, kProp
			}
			if kl == kERat && kr == kERat { // float comparisons of box fields (±Inf possible, no NaN)
				switch t.Op {
				case token.LEQ:
					return "(ERat.le " + l + " " + r + ")", kBool
				case token.GEQ:
					return "(ERat.le " + r + " " + l + ")", kBool
				case token.LSS:
					return "(!(ERat.le " + r + " " + l + "))", kBool
				case token.GTR:
					return "(!(ERat.le " + l + " " + r + "))", kBool
				}
			}
			if kl == kFQ && kr == kFQ {
				switch t.Op {
				case token.EQL:
					return "FQ.eq " + l + " " + r, kBool
				case token.GEQ:
					return "FQ.ge " + l + " " + r, kBool
				}
			}
			fail("comparison %s outside the subset", t.Op)
		case token.LAND:
			return "(" + asBool(l, kl) + " && " + asBool(r, kr) + ")", kBool
		case token.LOR:
			return "(" + asBool(l, kl) + " || " + asBool(r, kr) + ")", kBool
		}
		fail("operator %s", t.Op)
	}
	fail("expression %T outside the subset", x)
	return "", kRat
}

func cond(x ast.Expr, e env) string {
	s, k := trExpr(x, e)
	if k == kProp || k == kBool {
		return s
	}
	fail("condition is not boolean")
	return ""
}

// swapBody recognises `{ a, b = b, a }`-style bodies: only parallel assignments of identifiers
func swapBody(b *ast.BlockStmt) *ast.AssignStmt {
	if len(b.List) != 1 {
		return nil
	}
	as, ok := b.List[0].(*ast.AssignStmt)
	if !ok || as.Tok != token.ASSIGN {
		return nil
	}
	for _, x := range append(append([]ast.Expr{}, as.Lhs...), as.Rhs...) {
		if _, ok := x.(*ast.Ident); !ok {
			return nil
		}
	}
	return as
}

func trStmts(ss []ast.Stmt, e env, ind string, fresh *int) string {
	if len(ss) == 0 {
		fail("control reaches the end of the function without a return")
	}
	rest := ss[1:]
	switch t := ss[0].(type) {
	case *ast.ReturnStmt:
		if len(t.Results) != 1 {
			fail("return arity")
		}
		s, k := trExpr(t.Results[0], e)
		if k == kProp {
			s = "decide (" + s + ")"
		}
		return ind + s
	case *ast.AssignStmt:
		if t.Tok != token.DEFINE || len(t.Lhs) != 1 || len(t.Rhs) != 1 {
			fail("assignment outside the subset")
		}
		v, _ := trExpr(t.Rhs[0], e)
		name := t.Lhs[0].(*ast.Ident).Name
		e2 := env{}
		for k, x := range e {
			e2[k] = x
		}
		delete(e2, name)
		return ind + "let " + name + " := " + v + "\n" + trStmts(rest, e2, ind, fresh)
	case *ast.IfStmt:
		if t.Init != nil {
			fail("if with init")
		}
		if sw := swapBody(t.Body); sw != nil && t.Else == nil {
			c := cond(t.Cond, e)
			*fresh++
			e2 := env{}
			for k, x := range e {
				e2[k] = x
			}
			out := ""
			for i, lhs := range sw.Lhs {
				ln := lhs.(*ast.Ident).Name
				rn := sw.Rhs[i].(*ast.Ident).Name
				nn := fmt.Sprintf("%s%d", ln, *fresh)
				out += ind + "let " + nn + " := if " + c + " then " + e.name(rn) + " else " + e.name(ln) + "\n"
				e2[ln] = nn
			}
			return out + trStmts(rest, e2, ind, fresh)
		}
		c := cond(t.Cond, e)
		thenS := trStmts(append(append([]ast.Stmt{}, t.Body.List...), rest...), e, ind+"  ", fresh)
		var elseS string
		switch el := t.Else.(type) {
		case nil:
			elseS = trStmts(rest, e, ind+"  ", fresh)
		case *ast.BlockStmt:
			elseS = trStmts(append(append([]ast.Stmt{}, el.List...), rest...), e, ind+"  ", fresh)
		case *ast.IfStmt:
			elseS = trStmts(append([]ast.Stmt{el}, rest...), e, ind+"  ", fresh)
		}
		return ind + "if " + c + " then\n" + thenS + "\n" + ind + "else\n" + elseS
	}
	fail("statement %T outside the subset", ss[0])
	return ""
}

func trFunc(fd *ast.FuncDecl) string {
	var params []string
	ptyp := "P"
	name := fd.Name.Name
	fields := fd.Type.Params.List
	recvPoint := false
	if fd.Recv != nil {
		fields = append(append([]*ast.Field{}, fd.Recv.List...), fields...)
		if id, ok := fd.Recv.List[0].Type.(*ast.Ident); ok && id.Name == "Point" { // (Point).Equals
			recvPoint = true
			name = "Point_" + name
		} else {
			name = "Bounds_" + name
		}
	}
	for _, f := range fields {
		switch t := f.Type.(type) {
		case *ast.Ident:
			if t.Name != "Point" || (fd.Recv != nil && !recvPoint) {
				fail("%s: parameter type outside the subset", fd.Name.Name)
			}
		case *ast.StarExpr:
			if id, ok := t.X.(*ast.Ident); !ok || id.Name != "Bounds" || fd.Recv == nil {
				fail("%s: parameter type outside the subset", fd.Name.Name)
			}
			ptyp = "Bounds"
		default:
			fail("%s: parameter type outside the subset", fd.Name.Name)
		}
		for _, n := range f.Names {
			params = append(params, n.Name)
		}
	}
	ret := fd.Type.Results.List[0].Type.(*ast.Ident).Name
	lret := map[string]string{"bool": "Bool", "Point": "P"}[ret]
	if lret == "" {
		fail("%s: result type %s", fd.Name.Name, ret)
	}
	fresh := 0
	body := trStmts(fd.Body.List, env{}, "  ", &fresh)
	if xmode {
		ptyp = map[string]string{"P": "PX", "Bounds": "BoundsX"}[ptyp]
		if lret == "P" {
			lret = "PX"
		}
		return fmt.Sprintf("def %s (%s : %s) : %s :=\n%s\n", name, strings.Join(params, " "), ptyp, lret, body)
	}
	if rmode {
		return fmt.Sprintf("def %s (rnd : Rat → Rat) (%s : %s) : %s :=\n%s\n", name, strings.Join(params, " "), ptyp, lret, body)
	}
	return fmt.Sprintf("def %s (%s : %s) : %s :=\n%s\n", name, strings.Join(params, " "), ptyp, lret, body)
}

func extract(repo string) (out string, err error) {
	defer func() {
		if r := recover(); r != nil {
			if xe, ok := r.(xerr); ok {
				err = fmt.Errorf("%s", xe.msg)
				return
			}
			err = fmt.Errorf("%v", r)
		}
	}()
	want := []struct {
		file, fn string
		method   bool // a (*Bounds) method: comparisons only, translated once (nothing to round)
	}{
		{"simplify.go", "pointSubtract", false}, {"simplify.go", "pointOnSegment", false}, {"within.go", "rayIntersectsSegment", false},
		{"bounds.go", "Empty", true}, {"bounds.go", "Overlaps", true}, {"point.go", "Equals", true}}
	var b strings.Builder
	b.WriteString("import GeomV.C02.XF\n/-! GENERATED by `harness/cmd/c02 extract` from simplify.go, within.go, bounds.go, area.go, point.go, multipoint.go,\nlinestring.go, multilinestring.go and polygon.go of the tree under test.\nDo not edit; regenerated by every `bin/check C02` run (checks/C02.py pregen). -/\nset_option linter.unusedVariables false\nnamespace GeomV.C02.Gen\nopen GeomV GeomV.C02\n\n")
	fset := token.NewFileSet()
	for pass := 0; pass < 2; pass++ {
		rmode = pass == 1
		if rmode {
			b.WriteString("end GeomV.C02.Gen\n\n/-! the same functions with every float `-` and `/` rounded by `rnd` -/\nnamespace GeomV.C02.GenR\nopen GeomV GeomV.C02\n\n")
		}
		for _, wn := range want {
			if wn.method && rmode {
				continue
			}
			f, perr := parser.ParseFile(fset, filepath.Join(repo, wn.file), nil, 0)
			if perr != nil {
				return "", perr
			}
			found := false
			for _, d := range f.Decls {
				if fd, ok := d.(*ast.FuncDecl); ok && (fd.Recv != nil) == wn.method && fd.Name.Name == wn.fn {
					b.WriteString(trFunc(fd))
					b.WriteString("\n")
					found = true
				}
			}
			if !found {
				return "", fmt.Errorf("%s: function %s not found", wn.file, wn.fn)
			}
		}
	}
	rmode = false
	b.WriteString("end GeomV.C02.GenR\n\n")
	b.WriteString(extractLoops(repo))
	// third pass: over XF
	xmode = true
	defer func() { xmode = false }()
	b.WriteString("\n/-! the functions of Point.Within over `XF`: float64 with NaN, ±Inf and -0 (XF.lean) -/\nnamespace GeomV.C02.GenX\nopen GeomV GeomV.C02\n\n")
	for _, wn := range want {
		f, perr := parser.ParseFile(fset, filepath.Join(repo, wn.file), nil, 0)
		if perr != nil {
			return "", perr
		}
		for _, d := range f.Decls {
			if fd, ok := d.(*ast.FuncDecl); ok && (fd.Recv != nil) == wn.method && fd.Name.Name == wn.fn {
				b.WriteString(trFunc(fd))
				b.WriteString("\n")
			}
		}
	}
	b.WriteString("end GeomV.C02.GenX\n\n")
	var xb strings.Builder
	xb.WriteString(extractLoops(repo))
	b.WriteString(xb.String())
	// fourth pass: the XF rendering with `-` and `/` overflowing to ±Inf (XF.subO / XF.divO) — the same text as the
	// third pass with the two operations and the namespaces renamed
	s := b.String()
	x3 := s[strings.Index(s, "namespace GeomV.C02.GenX\n"):]
	x4 := strings.NewReplacer("XF.sub ", "XF.subO ", "XF.div ", "XF.divO ", "GenXL", "GenOL", "GenX", "GenO").Replace(x3)
	b.WriteString("\n/-! the functions of Point.Within over `XF` with OVERFLOW of `-` and `/` (XF.subO, XF.divO) -/\n")
	b.WriteString(x4)
	return b.String(), nil
}

func extractMain(args []string) {
	repo := "/repo"
	for i := 0; i+1 < len(args); i++ {
		if args[i] == "--repo" {
			repo = args[i+1]
		}
	}
	s, err := extract(repo)
	if err != nil {
		fmt.Fprintln(os.Stderr, "extract:", err)
		os.Exit(3)
	}
	fmt.Print(s)
}
