// Harness for C02 (Within classifies points against polygons exactly). Subcommands:
//
//	gen --seed S --tier T   write case lines (inputs only)
//	impl                    read case lines, run the real code, append " => result"
//
// Line formats (see lean/GeomV/C02/Main.lean):
//
//	grid <tag> <lo> <hi> <z> <polygonal>   all points (i/2, j/2), lo<=i,j<=hi; z=1: zero coordinates of the
//	                                       query point are spelled -0.0
//	pt <tag> <xhex> <yhex> <polygonal>     one point
//	recv <tag> <geom> | <polygonal>        MultiPoint/LineString/MultiLineString/Polygon receiver
//	cc <tag> <rounds> <sub> <lo> <hi> <polygonal> | <lo> <hi> <polygonal> | ...
//	                                       concurrent callers: one goroutine per part asks its own grid
//	                                       <rounds> times, all at the same time (see concurrentRun)
package main

import (
	"bufio"
	"fmt"
	"math"
	"os"
	"runtime"
	"strings"
	"sync"
	"sync/atomic"

	"github.com/ctessum/geom"

	"verif/harness/vproto"
)

type ring = []geom.Point

var w = bufio.NewWriterSize(os.Stdout, 1<<20)

func pt(x, y float64) geom.Point { return geom.Point{X: x, Y: y} }

func emitGrid(tag string, lo, hi int, z bool, g geom.Geom) {
	zz := 0
	if z {
		zz = 1
	}
	fmt.Fprintf(w, "grid %s %d %d %d %s\n", tag, lo, hi, zz, vproto.GeomToks(g))
}
func emitSGrid(tag string, lo, hi, ex int, g geom.Geom) {
	fmt.Fprintf(w, "sgrid %s %d %d %d %s\n", tag, lo, hi, ex, vproto.GeomToks(scaleGeom(g, ex)))
}

// dyadic scales (exact): ordinary thresholds, and magnitudes where products of two coordinate
// differences overflow (>= 2^512) or underflow (<= 2^-538) while quotients do not
var scales = []int{20, -20, 30, -30, 100, -100, 400, -400, 511, -511, 512, -512, 538, -538, 600, -600, 900, -900, 1000, -1000}
var floatScales = []int{30, -30, 100, -100, 400, -400, 511, -511, 512, -512, 600, -600, 900, -900}

func scalePt(p geom.Point, ex int) geom.Point {
	return geom.Point{X: math.Ldexp(p.X, ex), Y: math.Ldexp(p.Y, ex)}
}
func scalePoly(p geom.Polygon, ex int) geom.Polygon {
	o := make(geom.Polygon, len(p))
	for i, r := range p {
		o[i] = make(geom.Path, len(r))
		for k, v := range r {
			o[i][k] = scalePt(v, ex)
		}
	}
	return o
}
func scaleGeom(g geom.Geom, ex int) geom.Geom {
	switch t := g.(type) {
	case geom.Polygon:
		return scalePoly(t, ex)
	case geom.MultiPolygon:
		o := make(geom.MultiPolygon, len(t))
		for i, p := range t {
			o[i] = scalePoly(p, ex)
		}
		return o
	case *geom.Bounds:
		return &geom.Bounds{Min: scalePt(t.Min, ex), Max: scalePt(t.Max, ex)}
	}
	panic("scaleGeom")
}

// hist: query P1; change the SAME polygon object into P2 (flavour inplace: coordinates overwritten in the same
// backing arrays; flavour reslot: ring slots of the same Polygon value re-pointed, P[k] = otherRing); query;
// change back to P1; query. No other polygon is tested in between. Result: three digit strings.
func emitHist(flav string, lo, hi int, p1, p2 geom.Geom) {
	fmt.Fprintf(w, "hist %s %d %d %s | %s\n", flav, lo, hi, vproto.GeomToks(p1), vproto.GeomToks(p2))
}

func emitPt(tag string, p geom.Point, g geom.Geom) {
	fmt.Fprintf(w, "pt %s %s %s %s\n", tag, vproto.F2H(p.X), vproto.F2H(p.Y), vproto.GeomToks(g))
}
func emitRecv(tag string, a geom.Geom, g geom.Geom) {
	fmt.Fprintf(w, "recv %s %s | %s\n", tag, vproto.GeomToks(a), vproto.GeomToks(g))
}

func closed(r ring) ring {
	c := append(ring{}, r...)
	if len(r) > 0 {
		c = append(c, r[0])
	}
	return c
}
func reversed(r ring) ring {
	c := make(ring, len(r))
	for i := range r {
		c[len(r)-1-i] = r[i]
	}
	return c
}
func negZeros(r ring) ring {
	c := make(ring, len(r))
	for i, p := range r {
		c[i] = p
		if p.X == 0 {
			c[i].X = math.Copysign(0, -1)
		}
		if p.Y == 0 {
			c[i].Y = math.Copysign(0, -1)
		}
	}
	return c
}
func poly(rs ...ring) geom.Polygon {
	p := make(geom.Polygon, len(rs))
	for i, r := range rs {
		p[i] = geom.Path(r)
	}
	return p
}

// gridRing: random ring with n vertices on the grid {0..k}/den
func gridRing(r *vproto.Rng, n, k int, den float64) ring {
	o := make(ring, n)
	for i := range o {
		o[i] = pt(float64(r.Range(0, k))/den, float64(r.Range(0, k))/den)
	}
	return o
}

// spell: one of the equivalent spellings of a ring (closed/unclosed, either winding, rotated)
func spell(r *vproto.Rng, rg ring) ring {
	if len(rg) == 0 {
		return rg
	}
	k := r.Intn(len(rg))
	o := append(append(ring{}, rg[k:]...), rg[:k]...)
	if r.Bool() {
		o = reversed(o)
	}
	if r.Bool() {
		o = closed(o)
	}
	return o
}

func fixedCorpus() {
	sq := ring{pt(0, 0), pt(2, 0), pt(2, 2), pt(0, 2)}
	hole := ring{pt(0.5, 0.5), pt(1.5, 0.5), pt(1.5, 1.5), pt(0.5, 1.5)}
	bow := ring{pt(0, 0), pt(2, 2), pt(2, 0), pt(0, 2)}
	fan := ring{pt(0, 0), pt(1, 1), pt(-1, 1)}
	for _, z := range []bool{false, true} {
		emitGrid("corpus", -3, 5, z, poly(sq))
		emitGrid("corpus", -3, 5, z, poly(closed(sq)))
		emitGrid("corpus", -3, 5, z, poly(reversed(sq)))
		emitGrid("corpus", -3, 5, z, poly(sq, hole))
		emitGrid("corpus", -3, 5, z, poly(sq, reversed(hole)))
		emitGrid("corpus", -3, 5, z, poly(bow))
		emitGrid("corpus", -3, 5, z, poly(closed(bow)))
		// ray through a vertex whose x is +0 while the query point's x is -0
		emitGrid("corpus", -3, 3, z, poly(fan))
		emitGrid("corpus", -3, 3, z, poly(negZeros(fan)))
		// degenerate rings
		emitGrid("corpus", -2, 4, z, poly(ring{pt(1, 1), pt(1, 1), pt(1, 1)}))
		emitGrid("corpus", -2, 4, z, poly(ring{pt(0, 0), pt(1, 1), pt(2, 2)}))
		emitGrid("corpus", -2, 4, z, poly(ring{pt(0, 0), pt(2, 2), pt(1, 1)}))
		emitGrid("corpus", -2, 4, z, poly(ring{pt(0, 1), pt(2, 1), pt(1, 1), pt(0, 1)}))
		emitGrid("corpus", -2, 4, z, poly(ring{pt(1, 0), pt(1, 2), pt(1, 1)}))
		emitGrid("corpus", -2, 4, z, poly(ring{pt(0, 0), pt(1, 1)}))
		emitGrid("corpus", -2, 4, z, poly(ring{pt(1, 1)}))
		emitGrid("corpus", -2, 4, z, poly(ring{}))
		emitGrid("corpus", -2, 4, z, poly())
		emitGrid("corpus", -2, 4, z, poly(ring{pt(0, 0), pt(1, 1)}, sq, ring{}, hole))
		emitGrid("corpus", -2, 4, z, poly(ring{pt(0, 0), pt(0, 0), pt(2, 0), pt(2, 0), pt(2, 2), pt(0, 2), pt(0, 2)}))
		// multipolygons: disjoint, overlapping (parity), nested, sharing an edge, empty members
		sq2 := ring{pt(1, 1), pt(3, 1), pt(3, 3), pt(1, 3)}
		sq3 := ring{pt(2, 0), pt(4, 0), pt(4, 2), pt(2, 2)}
		emitGrid("corpus", -3, 9, z, geom.MultiPolygon{poly(sq), poly(sq2)})
		emitGrid("corpus", -3, 9, z, geom.MultiPolygon{poly(sq), poly(sq3)})
		emitGrid("corpus", -3, 9, z, geom.MultiPolygon{poly(sq), poly(sq)})
		emitGrid("corpus", -3, 9, z, geom.MultiPolygon{poly(sq, hole), poly(hole)})
		emitGrid("corpus", -3, 9, z, geom.MultiPolygon{poly(), poly(sq2), poly(ring{})})
		emitGrid("corpus", -3, 9, z, geom.MultiPolygon{})
		emitGrid("corpus", -3, 9, z, &geom.Bounds{Min: pt(0, 0), Max: pt(2, 1.5)})
		emitGrid("corpus", -3, 9, z, &geom.Bounds{Min: pt(2, 2), Max: pt(0, 0)})
		emitGrid("corpus", -3, 9, z, &geom.Bounds{Min: pt(1, 1), Max: pt(1, 1)})
	}
	// an edge one ulp high with the ray at the height of its lower end
	u := math.Nextafter(1, 2)
	flat := poly(ring{pt(0, 1), pt(1, u), pt(0.5, 5), pt(-1, 3)})
	emitPt("ulpflat", pt(-0.5, 1), flat)
	emitPt("ulpflat", pt(-0.5, 1.5), flat)
	emitPt("ulpflat", pt(0.3, 2), flat)
	emitPt("negzero", pt(math.Copysign(0, -1), 0.5), poly(fan))
	// receivers: deep-equal arguments (valid and degenerate), empty receivers
	deg := poly(ring{pt(0, 0), pt(1, 1)})
	emitRecv("corpus", poly(sq), poly(sq))
	emitRecv("corpus", poly(sq, hole), poly(sq, hole))
	emitRecv("corpus", deg, deg)
	emitRecv("corpus", poly(sq, ring{pt(5, 5)}), poly(sq, ring{pt(5, 5)}))
	emitRecv("corpus", poly(sq), geom.MultiPolygon{poly(sq)})
	emitRecv("corpus", poly(), poly())
	emitRecv("corpus", poly(hole), poly(sq))
	emitRecv("corpus", poly(sq), poly(hole))
	emitRecv("corpus", geom.MultiPoint{}, poly(sq))
	emitRecv("corpus", geom.LineString{}, poly(sq))
	emitRecv("corpus", geom.MultiLineString{}, poly(sq))
	emitRecv("corpus", geom.MultiLineString{{}, {pt(1, 1)}, {}}, poly(sq))
	emitRecv("corpus", geom.MultiLineString{{pt(1, 1)}, {pt(1, 1), pt(3, 3)}}, poly(sq))
	emitRecv("corpus", geom.MultiPoint{pt(1, 1), pt(0, 0), pt(2, 1)}, poly(sq))
	emitRecv("corpus", geom.LineString{pt(1, 1), pt(0, 0), pt(2.5, 1)}, poly(sq))
}

// all ordered vertex tuples of length n on the integer grid {0..k}^2, closed and unclosed spelling
func exhaustive(tag string, n, k int, negz bool) {
	m := (k + 1) * (k + 1)
	idx := make([]int, n)
	lo, hi := -2, 2*k+2
	for {
		rg := make(ring, n)
		for i, v := range idx {
			rg[i] = pt(float64(v%(k+1)), float64(v/(k+1)))
		}
		emitGrid(tag, lo, hi, false, poly(rg))
		emitGrid(tag, lo, hi, false, poly(closed(rg)))
		if negz {
			emitGrid(tag+"z", lo, hi, true, poly(rg))
		}
		i := 0
		for i < n {
			idx[i]++
			if idx[i] < m {
				break
			}
			idx[i] = 0
			i++
		}
		if i == n {
			return
		}
	}
}

// all ordered vertex tuples, unclosed spelling only
// (vertices on {0..k}/den; the query grid extends one unit beyond)
func exhaustiveOpen(tag string, n, k int, den float64) {
	m := (k + 1) * (k + 1)
	idx := make([]int, n)
	for {
		rg := make(ring, n)
		for i, v := range idx {
			rg[i] = pt(float64(v%(k+1))/den, float64(v/(k+1))/den)
		}
		emitGrid(tag, -2, int(2*float64(k)/den)+2, false, poly(rg))
		i := 0
		for i < n {
			idx[i]++
			if idx[i] < m {
				break
			}
			idx[i] = 0
			i++
		}
		if i == n {
			return
		}
	}
}

func randPolygon(r *vproto.Rng, k int, den float64) geom.Polygon {
	nr := 1
	switch r.Intn(6) {
	case 0, 1:
		nr = 2
	case 2:
		nr = 3
	}
	rs := make([]ring, nr)
	for i := range rs {
		n := 3 + r.Intn(3)
		if r.Chance(0.08) {
			n = r.Intn(3) // rings the code must skip
		}
		rs[i] = spell(r, gridRing(r, n, k, den))
		if r.Chance(0.1) {
			rs[i] = negZeros(rs[i])
		}
	}
	return poly(rs...)
}

func sampled(r *vproto.Rng, n int) {
	for i := 0; i < n; i++ {
		z := r.Chance(0.3)
		switch r.Intn(7) {
		case 0: // quadrilaterals incl. bow-ties
			emitGrid("quad", -2, 10, z, poly(spell(r, gridRing(r, 4, 4, 1))))
		case 1:
			emitGrid("penta", -2, 10, z, poly(spell(r, gridRing(r, 5, 4, 1))))
		case 2:
			emitGrid("multiring", -2, 10, z, randPolygon(r, 4, 1))
		case 3:
			m := make(geom.MultiPolygon, 2+r.Intn(2))
			for j := range m {
				m[j] = randPolygon(r, 4, 1)
			}
			emitGrid("multipoly", -2, 10, z, m)
		case 4: // half-integer vertices
			emitGrid("half", -2, 10, z, randPolygon(r, 8, 2))
		case 5: // many vertices
			emitGrid("long", -2, 10, z, poly(spell(r, gridRing(r, 6+r.Intn(10), 8, 2))))
		default:
			a, b := gridRing(r, 2, 8, 2), 0
			_ = b
			emitGrid("bounds", -2, 10, z, &geom.Bounds{Min: a[0], Max: a[1]})
		}
	}
}

// emptyMembers: multipolygons with EMPTY member polygons (Polygon{}, nil, a polygon of one empty ring) at random
// positions among 1–3 real members — `Polygons()`/the member loop must neither drop, duplicate nor reorder anything the
// caller can see (seeded g1 compacted the caller's slice when filtering empty members). Grid lines (every point asked
// twice against three layouts, argument compared afterwards) and receiver lines (several vertices in ONE call).
func emptyMembers(r *vproto.Rng, n int) {
	for i := 0; i < n; i++ {
		var m geom.MultiPolygon
		k := 1 + r.Intn(3)
		var last geom.Polygon
		for j := 0; j < k; j++ {
			for r.Chance(0.45) {
				switch r.Intn(3) {
				case 0:
					m = append(m, geom.Polygon{})
				case 1:
					m = append(m, nil)
				default:
					m = append(m, poly(ring{}))
				}
			}
			last = randPolygon(r, 4, 1)
			m = append(m, last)
		}
		if r.Chance(0.3) {
			m = append(m, geom.Polygon{})
		}
		emitGrid("mpempty", -2, 10, r.Chance(0.3), m)
		if len(last) > 0 && len(last[0]) >= 3 {
			vs := geom.MultiPoint{last[0][0], last[0][1], last[0][2], last[0][0]}
			emitRecv("mpempty", vs, m)
			emitRecv("mpempty", geom.LineString(vs), m)
		}
	}
}

// the sampled shapes at dyadic scales (the Rat spec is evaluated on the exact scaled values)
func scaledShapes(r *vproto.Rng, n int) {
	fixed := []geom.Geom{
		poly(ring{pt(0, 0), pt(4, 0), pt(0, 4)}),
		poly(ring{pt(0, 2), pt(2, 0), pt(4, 2), pt(2, 4)}),
		poly(ring{pt(0, 0), pt(4, 0), pt(4, 4), pt(0, 4)}, ring{pt(1, 1), pt(2, 3), pt(3, 1)}),
	}
	for _, ex := range scales {
		for _, g := range fixed {
			emitSGrid(fmt.Sprintf("s%d", ex), -2, 10, ex, g)
		}
	}
	for i := 0; i < n; i++ {
		ex := scales[r.Intn(len(scales))]
		tag := fmt.Sprintf("s%d", ex)
		switch r.Intn(5) {
		case 0:
			emitSGrid(tag, -2, 10, ex, poly(spell(r, gridRing(r, 3+r.Intn(3), 4, 1))))
		case 1:
			emitSGrid(tag, -2, 10, ex, randPolygon(r, 4, 1))
		case 2:
			emitSGrid(tag, -2, 10, ex, geom.MultiPolygon{randPolygon(r, 4, 1), randPolygon(r, 4, 1)})
		case 3:
			emitSGrid(tag, -2, 10, ex, randPolygon(r, 8, 2))
		default:
			a := gridRing(r, 2, 8, 2)
			emitSGrid(tag, -2, 10, ex, &geom.Bounds{Min: a[0], Max: a[1]})
		}
	}
}

// half-integers of magnitude up to 2^11: query points are vertices, edge midpoints, points at vertex
// heights and their neighbours
func bigGrid(r *vproto.Rng, n int) {
	for i := 0; i < n; i++ {
		nv := 3 + r.Intn(4)
		rg := make(ring, nv)
		for j := range rg {
			rg[j] = pt(float64(r.Range(-1024, 1024)), float64(r.Range(-1024, 1024)))
			if r.Chance(0.3) && j > 0 {
				rg[j].Y = rg[r.Intn(j)].Y
			}
			if r.Chance(0.2) && j > 0 {
				rg[j].X = rg[r.Intn(j)].X
			}
		}
		pg := poly(spell(r, rg))
		for j := range rg {
			a, b := rg[j], rg[(j+1)%nv]
			mid := pt((a.X+b.X)/2, (a.Y+b.Y)/2)
			emitPt("big-vertex", a, pg)
			emitPt("big-mid", mid, pg)
			emitPt("big-near", pt(mid.X+0.5, mid.Y), pg)
			emitPt("big-near", pt(mid.X-0.5, mid.Y), pg)
			lo, hi := int(2*math.Min(a.X, b.X))-3, int(2*math.Max(a.X, b.X))+3
			emitPt("big-vray", pt(float64(r.Range(lo, hi))/2, a.Y), pg)
			lo, hi = int(2*math.Min(a.Y, b.Y))-3, int(2*math.Max(a.Y, b.Y))+3
			emitPt("big-vcol", pt(a.X, float64(r.Range(lo, hi))/2), pg)
			emitPt("big-vray", pt(float64(r.Range(-2100, 2100))/2, a.Y), pg)
		}
	}
}

// latticeEdges: `pt big-lattice` / `big-latnear` lines — an edge a → a + m·(u,v) with m not a power of two (3, 5, 6, 7, 9 …)
// and the lattice points a + j·(u,v), 0 < j < m, ON it (the slopes (j·v)/(j·u) and (m·v)/(m·u) are equal rationals whose
// numerators and denominators differ by a non-dyadic factor: any rewriting of the slope comparison that rounds
// differently on the two sides — reciprocal, cross products at the wrong scale — loses the equality), and their
// half-unit neighbours. Integer coordinates below 2^10: inside the domain where the float code is proved exact.
func latticeEdges(r *vproto.Rng, n int) {
	ms := []int{3, 5, 6, 7, 9, 10, 11, 12, 13}
	for i := 0; i < n; i++ {
		m := ms[r.Intn(len(ms))]
		u, v := r.Range(-12, 12), r.Range(-12, 12)
		if u == 0 && v == 0 {
			u = 1
		}
		a := pt(float64(r.Range(-512, 512)), float64(r.Range(-512, 512)))
		b := pt(a.X+float64(m*u), a.Y+float64(m*v))
		c := pt(float64(r.Range(-700, 700)), float64(r.Range(-700, 700)))
		rg := ring{a, b, c}
		if r.Chance(0.4) {
			rg = append(rg, pt(float64(r.Range(-700, 700)), float64(r.Range(-700, 700))))
		}
		k := r.Intn(len(rg)) // the lattice edge at any position, the closing segment included
		rg = append(append(ring{}, rg[k:]...), rg[:k]...)
		if r.Bool() {
			rg = reversed(rg)
		}
		var pg geom.Geom = poly(rg)
		if r.Chance(0.3) {
			pg = poly(closed(rg))
		}
		for j := 1; j < m; j++ {
			q := pt(a.X+float64(j*u), a.Y+float64(j*v))
			emitPt("big-lattice", q, pg)
			if j%2 == 1 {
				emitPt("big-latnear", pt(q.X+0.5, q.Y), pg)
				emitPt("big-latnear", pt(q.X, q.Y-0.5), pg)
			}
		}
	}
}

func distSeg(p, a, b geom.Point) float64 {
	vx, vy := b.X-a.X, b.Y-a.Y
	wx, wy := p.X-a.X, p.Y-a.Y
	c1 := wx*vx + wy*vy
	c2 := vx*vx + vy*vy
	t := 0.0
	if c2 > 0 {
		t = math.Max(0, math.Min(1, c1/c2))
	}
	return math.Hypot(p.X-(a.X+t*vx), p.Y-(a.Y+t*vy))
}

func clear(p geom.Point, pg geom.Polygon, margin float64) bool {
	for _, rg := range pg {
		for i := range rg {
			if distSeg(p, rg[i], rg[(i+1)%len(rg)]) < margin {
				return false
			}
		}
	}
	return true
}

func floatCases(r *vproto.Rng, n int, exps []int) {
	for i := 0; i < n; i++ {
		scale := math.Pow(10, float64(r.Range(-3, 6)))
		cx, cy := (r.Float()-0.5)*scale*4, (r.Float()-0.5)*scale*4
		if r.Chance(0.3) {
			cx, cy = 0, 0
		}
		coord := func() geom.Point { return pt(cx+(r.Float()-0.5)*scale, cy+(r.Float()-0.5)*scale) }
		nr := 1 + r.Intn(2)
		pg := make(geom.Polygon, nr)
		fam := r.Intn(5)
		for j := range pg {
			nv := 3 + r.Intn(8)
			rg := make(ring, nv)
			if r.Chance(0.6) { // star-shaped around the centre: a sizeable interior
				a0 := r.Float() * 2 * math.Pi
				for k := range rg {
					ang := a0 + 2*math.Pi*(float64(k)+0.8*r.Float())/float64(nv)
					rad := scale * (0.15 + 0.35*r.Float()) / float64(j+1)
					rg[k] = pt(cx+rad*math.Cos(ang), cy+rad*math.Sin(ang))
				}
				if r.Bool() {
					rg = reversed(rg)
				}
			} else {
				for k := range rg {
					rg[k] = coord()
				}
			}
			if fam == 3 { // an edge 1..3 ulps high
				k := r.Intn(nv)
				y := rg[k].Y
				for s := r.Range(1, 3); s > 0; s-- {
					y = math.Nextafter(y, math.Inf(1))
				}
				rg[(k+1)%nv].Y = y
			}
			if fam == 4 { // a vertex with x = +0, queried at x = -0
				rg[r.Intn(nv)].X = 0
			}
			if r.Bool() {
				rg = closed(rg)
			}
			pg[j] = rg
		}
		tag := []string{"rand", "rand", "vray", "ulpflat", "negzero"}[fam]
		var p geom.Point
		ok := false
		for try := 0; try < 50 && !ok; try++ {
			p = pt(cx+(r.Float()-0.5)*scale*1.1, cy+(r.Float()-0.5)*scale*1.1)
			rg := pg[r.Intn(nr)]
			switch fam {
			case 2, 3:
				p.Y = rg[r.Intn(len(rg))].Y // ray through a vertex
			case 4:
				p.X = math.Copysign(0, -1)
			}
			ok = clear(p, pg, 1e-6*scale)
		}
		if !ok {
			continue
		}
		var g geom.Geom = pg
		if r.Chance(0.2) {
			g = geom.MultiPolygon{pg, geom.Polygon{geom.Path(ring{coord(), coord(), coord()})}}
			if !clear(p, g.(geom.MultiPolygon)[1], 1e-6*scale) {
				g = pg
			}
		}
		if exps != nil {
			ex := exps[r.Intn(len(exps))]
			emitPt(fmt.Sprintf("s%d-%s", ex, tag), scalePt(p, ex), scaleGeom(g, ex))
		} else {
			emitPt(tag, p, g)
		}
	}
}

func mapPoly(p geom.Polygon, f func(geom.Point) geom.Point) geom.Polygon {
	o := make(geom.Polygon, len(p))
	for i, rg := range p {
		o[i] = make(geom.Path, len(rg))
		for k, v := range rg {
			o[i][k] = f(v)
		}
	}
	return o
}

// call histories against one polygon object that is changed between the calls
func histories(r *vproto.Rng, n int) {
	sq := poly(ring{pt(0, 0), pt(4, 0), pt(4, 4), pt(0, 4), pt(0, 0)})
	wide := poly(ring{pt(0, 0), pt(8, 0), pt(8, 4), pt(0, 4), pt(0, 0)})
	emitHist("inplace", -2, 18, sq, wide)
	emitHist("inplace", -2, 18, wide, sq)
	emitHist("reslot", -2, 18, sq, poly(ring{pt(5, 5), pt(9, 5), pt(7, 9)}))
	emitHist("inplace", -2, 18, &geom.Bounds{Min: pt(0, 0), Max: pt(2, 2)}, &geom.Bounds{Min: pt(3, 3), Max: pt(6, 5)})
	emitHist("inplace", -2, 18, &geom.Bounds{Min: pt(1, 1), Max: pt(6, 6)}, &geom.Bounds{Min: pt(2, 2), Max: pt(3, 3)})
	for i := 0; i < n; i++ {
		if r.Chance(0.12) { // a *Bounds object whose fields are overwritten
			a, b := gridRing(r, 2, 8, 2), gridRing(r, 2, 16, 2)
			emitHist("inplace", -4, 18, &geom.Bounds{Min: a[0], Max: pt(a[0].X+a[1].X, a[0].Y+a[1].Y)}, &geom.Bounds{Min: b[0], Max: b[1]})
			continue
		}
		p1 := randPolygon(r, 4, 1)
		if r.Bool() {
			p1 = randPolygon(r, 8, 2)
		}
		switch r.Intn(6) {
		case 0: // translate
			dx, dy := float64(r.Range(-1, 4)), float64(r.Range(-1, 4))
			emitHist("inplace", -4, 18, p1, mapPoly(p1, func(v geom.Point) geom.Point { return pt(v.X+dx, v.Y+dy) }))
		case 1: // dilate
			emitHist("inplace", -4, 18, p1, mapPoly(p1, func(v geom.Point) geom.Point { return pt(2*v.X, 2*v.Y) }))
		case 2: // one vertex moved
			p2 := mapPoly(p1, func(v geom.Point) geom.Point { return v })
			if len(p2) > 0 && len(p2[0]) > 0 {
				p2[0][r.Intn(len(p2[0]))] = pt(float64(r.Range(0, 16))/2, float64(r.Range(0, 16))/2)
			}
			emitHist("inplace", -4, 18, p1, p2)
		case 3: // same structure, unrelated coordinates
			emitHist("inplace", -4, 18, p1, mapPoly(p1, func(geom.Point) geom.Point {
				return pt(float64(r.Range(0, 16))/2, float64(r.Range(0, 16))/2)
			}))
		case 4: // member polygons of a multipolygon overwritten in place
			q := randPolygon(r, 4, 1)
			m1 := geom.MultiPolygon{p1, q}
			m2 := geom.MultiPolygon{mapPoly(p1, func(v geom.Point) geom.Point { return pt(v.X+3, v.Y+2) }),
				mapPoly(q, func(v geom.Point) geom.Point { return pt(2*v.X, v.Y+1) })}
			emitHist("inplace", -4, 18, m1, m2)
		default: // ring slots re-pointed to other rings (lengths free, ring count kept)
			p2 := make(geom.Polygon, len(p1))
			for k := range p2 {
				p2[k] = spell(r, gridRing(r, 3+r.Intn(3), 16, 2))
			}
			emitHist("reslot", -4, 18, p1, p2)
		}
	}
}

// ---- concurrent callers ----
//
// Point.Within is a function of the point and the polygon; what other goroutines ask at the same time must
// not matter. A cc line carries K unrelated parts (polygonal + own query grid). The first ring of every
// polygon of every part is written SHORT on the line and subdivided by both sides (harness here, Lean driver
// there: `subdivide`) into sub pieces per edge, so that a call spends most of its time in a long first ring
// and the later rings (holes, islands, skipped rings, second members) are visited late.

type ccPart struct {
	lo, hi int
	g      geom.Geom
}

func emitCC(tag string, rounds, sub int, parts []ccPart) {
	var b strings.Builder
	fmt.Fprintf(&b, "cc %s %d %d", tag, rounds, sub)
	for i, p := range parts {
		if i > 0 {
			b.WriteString(" |")
		}
		fmt.Fprintf(&b, " %d %d %s", p.lo, p.hi, vproto.GeomToks(p.g))
	}
	fmt.Fprintln(w, b.String())
}

// subdivide: every edge of the ring (cyclically: the edge from the last vertex back to the first included)
// cut into sub equal pieces; the result has len(rg)*sub vertices. Exact for (half-)integer coordinates of
// small magnitude and sub a power of two. Mirrors GeomV.C02.subdivide.
func subdivide(rg ring, sub int) ring {
	if sub <= 1 || len(rg) == 0 {
		return rg
	}
	o := make(ring, 0, len(rg)*sub)
	for i, a := range rg {
		b := rg[(i+1)%len(rg)]
		for k := 0; k < sub; k++ {
			o = append(o, pt(a.X+(b.X-a.X)*float64(k)/float64(sub), a.Y+(b.Y-a.Y)*float64(k)/float64(sub)))
		}
	}
	return o
}

func subdividePolygonal(g geom.Geom, sub int) geom.Polygonal {
	one := func(p geom.Polygon) geom.Polygon {
		o := make(geom.Polygon, len(p))
		copy(o, p)
		if len(o) > 0 {
			o[0] = geom.Path(subdivide(o[0], sub))
		}
		return o
	}
	switch t := g.(type) {
	case geom.Polygon:
		return one(t)
	case geom.MultiPolygon:
		o := make(geom.MultiPolygon, len(t))
		for i, p := range t {
			o[i] = one(p)
		}
		return o
	}
	return g.(geom.Polygonal)
}

func translate(p geom.Polygon, d float64) geom.Polygon {
	return mapPoly(p, func(v geom.Point) geom.Point { return pt(v.X+d, v.Y+d) })
}

// ccPolygon: a big first ring around [0,4]^2 (or an arbitrary one) followed by 1-3 small rings inside
func ccPolygon(r *vproto.Rng) geom.Polygon {
	var outer ring
	switch r.Intn(5) {
	case 0: // arbitrary (bow-ties, slivers)
		outer = gridRing(r, 4+r.Intn(3), 6, 1)
	case 1: // big triangle
		outer = ring{pt(float64(-1-r.Intn(2)), float64(-1-r.Intn(2))), pt(float64(9+r.Intn(3)), float64(-1-r.Intn(2))), pt(float64(-1-r.Intn(2)), float64(9+r.Intn(3)))}
	default:
		outer = ring{pt(float64(-1-r.Intn(2)), float64(-1-r.Intn(2))), pt(float64(5+r.Intn(2)), float64(-1-r.Intn(2))),
			pt(float64(5+r.Intn(2)), float64(5+r.Intn(2))), pt(float64(-1-r.Intn(2)), float64(5+r.Intn(2)))}
	}
	if r.Bool() {
		outer = reversed(outer)
	}
	rs := []ring{outer}
	for k := 1 + r.Intn(3); k > 0; k-- {
		n := 3 + r.Intn(3)
		if r.Chance(0.1) {
			n = r.Intn(3)
		}
		den := 1.0
		if r.Chance(0.3) {
			den = 2
		}
		rs = append(rs, spell(r, gridRing(r, n, int(4*den), den)))
	}
	return poly(rs...)
}

func concurrent(r *vproto.Rng, n, rounds int) {
	// hand-picked: square with a hole, an unclosed island in the hole and a clockwise hole; a second member
	base := poly(ring{pt(-1, -1), pt(6, -1), pt(6, 6), pt(-1, 6)},
		ring{pt(0, 0), pt(3, 0), pt(3, 3), pt(0, 3), pt(0, 0)},
		ring{pt(1, 1), pt(2, 1), pt(2, 2), pt(1, 2)},
		ring{pt(4, 1), pt(4, 3), pt(5, 3), pt(5, 1), pt(4, 1)})
	emitCC("corpus", rounds, 128, []ccPart{
		{-2, 12, base},
		{38, 52, geom.MultiPolygon{translate(base, 20), translate(poly(ring{pt(1, 1), pt(2, 1), pt(2, 2), pt(1, 2), pt(1, 1)}), 20)}},
		{78, 92, translate(base, 40)},
		{-2, 12, geom.MultiPolygon{base, poly(ring{pt(0, 0), pt(4, 0), pt(0, 4)})}},
	})
	for i := 0; i < n; i++ {
		k := 2 + r.Intn(4)
		parts := make([]ccPart, k)
		apart := r.Chance(0.7) // parts far from each other / all in the same place
		for j := range parts {
			d := 0
			if apart {
				d = 20 * j
			}
			var g geom.Geom
			switch r.Intn(4) {
			case 0:
				g = geom.MultiPolygon{translate(ccPolygon(r), float64(d)), translate(randPolygon(r, 4, 1), float64(d))}
			case 1:
				g = geom.MultiPolygon{translate(randPolygon(r, 4, 1), float64(d)), translate(ccPolygon(r), float64(d)), translate(ccPolygon(r), float64(d))}
			default:
				g = translate(ccPolygon(r), float64(d))
			}
			parts[j] = ccPart{2*d - 2, 2*d + 10, g}
		}
		sub := []int{16, 64, 128, 256}[r.Intn(4)]
		emitCC(fmt.Sprintf("k%d", k), rounds, sub, parts)
	}
}

func receivers(r *vproto.Rng, n int) {
	for i := 0; i < n; i++ {
		var pg geom.Geom
		big := ring{pt(0, 0), pt(5, 0), pt(5, 5), pt(0, 5)}
		switch r.Intn(6) {
		case 0:
			pg = geom.MultiPolygon{randPolygon(r, 8, 2), randPolygon(r, 8, 2)}
		case 1:
			a := gridRing(r, 2, 8, 2)
			pg = &geom.Bounds{Min: a[0], Max: a[1]}
		case 2: // a big square, possibly with a hole or a second member: most vertices are not Outside
			pg = poly(spell(r, big))
		case 3:
			h := gridRing(r, 2, 8, 2)
			pg = poly(spell(r, big), ring{h[0], pt(h[1].X, h[0].Y), h[1], pt(h[0].X, h[1].Y)})
		case 4:
			pg = geom.MultiPolygon{poly(spell(r, big)), randPolygon(r, 3, 2)}
		default:
			pg = randPolygon(r, 8, 2)
		}
		line := func() []geom.Point { return gridRing(r, r.Intn(5), 10, 2) }
		switch r.Intn(5) {
		case 0:
			emitRecv("rand", geom.MultiPoint(line()), pg)
		case 1:
			emitRecv("rand", geom.LineString(line()), pg)
		case 2:
			m := make(geom.MultiLineString, r.Intn(4))
			for j := range m {
				m[j] = line()
			}
			emitRecv("rand", m, pg)
		case 3:
			emitRecv("rand", randPolygon(r, 8, 2), pg)
		default: // deep-equal argument, degenerate rings included
			p := randPolygon(r, 8, 2)
			emitRecv("self", p, p)
		}
	}
}

// receivers against a target that contains a known region: every vertex is drawn from the region (border
// included), then — in two of three cases — ONE vertex at a random position (any member, first / middle / last)
// is replaced by a point outside. "Outside exactly when at least one vertex is Outside", position by position.
func receiversOneOut(r *vproto.Rng, n int) {
	for i := 0; i < n; i++ {
		x0, y0 := float64(r.Range(0, 4))/2, float64(r.Range(0, 4))/2
		x1, y1 := x0+float64(r.Range(4, 10))/2, y0+float64(r.Range(4, 10))/2
		box := ring{pt(x0, y0), pt(x1, y0), pt(x1, y1), pt(x0, y1)}
		var pg geom.Geom
		switch r.Intn(6) {
		case 0, 1:
			pg = &geom.Bounds{Min: pt(x0, y0), Max: pt(x1, y1)}
		case 2:
			pg = poly(spell(r, box))
		case 3:
			pg = geom.MultiPolygon{poly(spell(r, box))}
		case 4: // two members sharing an edge
			xm := x0 + 1
			pg = geom.MultiPolygon{poly(spell(r, ring{pt(x0, y0), pt(xm, y0), pt(xm, y1), pt(x0, y1)})), poly(spell(r, ring{pt(xm, y0), pt(x1, y0), pt(x1, y1), pt(xm, y1)}))}
		default: // a member far away comes first
			pg = geom.MultiPolygon{poly(ring{pt(20, 20), pt(21, 20), pt(20, 21)}), poly(spell(r, box))}
		}
		in := func() geom.Point {
			return pt(x0+float64(r.Range(0, int(2*(x1-x0))))/2, y0+float64(r.Range(0, int(2*(y1-y0))))/2)
		}
		out := func() geom.Point {
			p := in()
			switch r.Intn(4) {
			case 0:
				p.X = x0 - float64(r.Range(1, 3))/2
			case 1:
				p.X = x1 + float64(r.Range(1, 3))/2
			case 2:
				p.Y = y0 - float64(r.Range(1, 3))/2
			default:
				p.Y = y1 + float64(r.Range(1, 3))/2
			}
			return p
		}
		line := func(lo, hi int) []geom.Point {
			l := make([]geom.Point, r.Range(lo, hi))
			for k := range l {
				l[k] = in()
			}
			return l
		}
		var members [][]geom.Point
		kind := r.Intn(4)
		switch kind {
		case 0, 1:
			members = [][]geom.Point{line(1, 6)}
		default:
			members = make([][]geom.Point, r.Range(1, 4))
			for k := range members {
				members[k] = line(1, 5)
			}
		}
		tag := "allin"
		if r.Chance(0.67) {
			m := members[r.Intn(len(members))]
			m[r.Intn(len(m))] = out()
			tag = "oneout"
		}
		switch kind {
		case 0:
			emitRecv(tag, geom.MultiPoint(members[0]), pg)
		case 1:
			emitRecv(tag, geom.LineString(members[0]), pg)
		case 2:
			m := make(geom.MultiLineString, len(members))
			for k := range members {
				m[k] = members[k]
			}
			emitRecv(tag, m, pg)
		default:
			m := make(geom.Polygon, len(members))
			for k := range members {
				m[k] = members[k]
			}
			emitRecv(tag, m, pg)
		}
	}
}

// nonFinite: `pt nf-…` lines — NaN / ±Inf / -0.0 coordinates in the query point and/or in polygon vertices, finite
// coordinates on the small half-integer grid (float arithmetic on them is exact). Outside the property's quantifier:
// judged against the XF rendering of the source (GenXL.pointInPolygonal, ProofsNaN.lean), DIFF only.
func nonFinite(r *vproto.Rng, n int) {
	nan, pinf, ninf, nz := math.NaN(), math.Inf(1), math.Inf(-1), math.Copysign(0, -1)
	special := []float64{nan, pinf, ninf, nz}
	tri := ring{pt(0, 0), pt(4, 0), pt(0, 4)}
	sq := ring{pt(0, 0), pt(4, 0), pt(4, 4), pt(0, 4)}
	hole := ring{pt(1, 1), pt(1, 2), pt(2, 2), pt(2, 1)}
	fan := ring{pt(0, 0), pt(1, 1), pt(-1, 1)}
	shapes := []geom.Geom{poly(tri), poly(closed(sq)), poly(sq, hole), poly(fan), geom.MultiPolygon{poly(tri), poly(hole)},
		geom.MultiPolygon{poly(sq), poly(fan), poly(ring{pt(5, 5), pt(6, 5), pt(6, 6)})}, &geom.Bounds{Min: pt(0, 0), Max: pt(4, 4)}}
	fin := func() float64 { return float64(r.Range(-2, 10)) / 2 }
	// (a) special query points against finite shapes (incl. -0.0 on the fan of D1)
	for _, g := range shapes {
		for _, sx := range special {
			for _, y := range []float64{0, 0.5, 1, 2, 4, nan, pinf, ninf, nz} {
				emitPt("nf-query", pt(sx, y), g)
				emitPt("nf-query", pt(y, sx), g)
			}
		}
	}
	// (b) one or two special coordinates in the vertices; query points on the grid and special
	mutate := func(g geom.Geom) geom.Geom {
		g = scaleGeom(g, 0) // deep copy
		var rings []geom.Path
		switch t := g.(type) {
		case geom.Polygon:
			rings = t
		case geom.MultiPolygon:
			for _, p := range t {
				rings = append(rings, p...)
			}
		case *geom.Bounds:
			v := special[r.Intn(len(special))]
			switch r.Intn(4) {
			case 0:
				t.Min.X = v
			case 1:
				t.Min.Y = v
			case 2:
				t.Max.X = v
			default:
				t.Max.Y = v
			}
			return t
		}
		for k := 0; k < 1+r.Intn(2); k++ {
			rg := rings[r.Intn(len(rings))]
			i := r.Intn(len(rg))
			v := special[r.Intn(len(special))]
			if v == 0 && r.Intn(2) == 0 { // -0.0 only where the coordinate is zero, half of the time
				if rg[i].X == 0 {
					rg[i].X = v
				}
				if rg[i].Y == 0 {
					rg[i].Y = v
				}
				continue
			}
			if r.Intn(2) == 0 {
				rg[i].X = v
			} else {
				rg[i].Y = v
			}
		}
		return g
	}
	for i := 0; i < n; i++ {
		g := mutate(shapes[r.Intn(len(shapes))])
		for k := 0; k < 6; k++ {
			q := pt(fin(), fin())
			switch r.Intn(6) {
			case 0:
				q.X = special[r.Intn(len(special))]
			case 1:
				q.Y = special[r.Intn(len(special))]
			}
			emitPt("nf-vertex", q, g)
		}
	}
}

// overflowCases: `pt ovf-…` lines — finite coordinates k·2^(1024-b), |k| < 2^b (b = 3, 4): exactly representable;
// every coordinate difference is a multiple of the same power of two and is either exact or, at 2^1024 and above,
// overflows to ±Inf. Floating-point polygons with grid query points (on an edge or far from it): inside the property's
// quantifier, judged by the Spec on the exact values; the judge also reports what the source rendered with overflowing
// `-` and `/` (GenOL) answers.
func overflowCases(r *vproto.Rng, n int) {
	for _, b := range []int{3, 4} {
		K := 1<<uint(b) - 1
		ex := 1024 - b
		sc := func(g geom.Geom) geom.Geom { return scaleGeom(g, ex) }
		k := float64(K)
		k1 := k - 1
		witness := ring{pt(-k1, -k1), pt(k1, k1), pt(-k1, k1)}
		sq := ring{pt(-k, -k), pt(k, -k), pt(k, k), pt(-k, k)}
		hole := ring{pt(-2, -2), pt(-2, 2), pt(2, 2), pt(2, -2)}
		dia := ring{pt(0, -k), pt(k, 0), pt(0, k), pt(-k, 0)}
		small := ring{pt(0, 0), pt(3, 0), pt(0, 3)}
		bow := ring{pt(-k, -k), pt(k, k), pt(k, -k), pt(-k, k)}
		fixed := []geom.Geom{poly(witness), poly(closed(witness)), poly(sq, hole), poly(closed(sq)), poly(dia), poly(small), poly(bow),
			geom.MultiPolygon{poly(dia), poly(hole)}, &geom.Bounds{Min: pt(-k, -k), Max: pt(k, k)}}
		for _, g := range fixed {
			for x := -K; x <= K; x++ {
				for y := -K; y <= K; y++ {
					if b == 4 && (x+y)%3 != 0 { // a third of the 31x31 grid
						continue
					}
					emitPt("ovf-fixed", scalePt(pt(float64(x), float64(y)), ex), sc(g))
				}
			}
		}
		c := func() float64 { return float64(r.Range(-K, K)) }
		for i := 0; i < n; i++ {
			nv := 3 + r.Intn(3)
			var rg ring
			for j := 0; j < nv; j++ {
				rg = append(rg, pt(c(), c()))
			}
			if r.Intn(3) == 0 {
				rg = closed(rg)
			}
			var g geom.Geom = poly(rg)
			switch r.Intn(4) {
			case 0:
				g = poly(rg, hole)
			case 1:
				g = geom.MultiPolygon{poly(rg), poly(dia)}
			}
			for j := 0; j < 24; j++ {
				q := pt(c(), c())
				if j%4 == 0 { // a vertex or an edge midpoint (when on the grid)
					a, bb := rg[r.Intn(len(rg))], rg[r.Intn(len(rg))]
					if m := pt((a.X+bb.X)/2, (a.Y+bb.Y)/2); m.X == math.Trunc(m.X) && m.Y == math.Trunc(m.Y) {
						q = m
					} else {
						q = a
					}
				}
				emitPt("ovf-rand", scalePt(q, ex), sc(g))
			}
		}
	}
}

func gen(seed uint64, tier string) {
	r := vproto.NewRng(seed)
	fixedCorpus()
	// the ovf family fires on the unchanged tree (known finding "OVERFLOW of coordinate differences", findings/C02.json);
	// checks/C02.py sets C02_OVF=0 as long as the committed KNOWN_FINDINGS.json does not carry that entry yet
	if os.Getenv("C02_OVF") != "0" {
		if tier == "thorough" {
			overflowCases(vproto.NewRng(seed+78), 400)
		} else {
			overflowCases(vproto.NewRng(seed+78), 40)
		}
	}
	if tier == "thorough" {
		nonFinite(vproto.NewRng(seed+77), 3000)
	} else {
		nonFinite(vproto.NewRng(seed+77), 400)
	}
	if tier == "thorough" {
		exhaustive("tri", 3, 2, true)
		exhaustive("tri3", 3, 3, true)
		exhaustive("quad2", 4, 2, true)
		exhaustiveOpen("quad3", 4, 3, 1)
		exhaustiveOpen("trihalf", 3, 4, 2)
		exhaustiveOpen("trihalf6", 3, 6, 2)
		sampled(r, 20000)
		bigGrid(r, 1500)
		latticeEdges(vproto.NewRng(seed+79), 1500)
		emptyMembers(vproto.NewRng(seed+80), 1500)
		floatCases(r, 150000, nil)
		scaledShapes(r, 6000)
		floatCases(r, 30000, floatScales)
		receivers(r, 15000)
		receiversOneOut(r, 15000)
		histories(r, 5000)
		concurrent(r, 40, 40)
	} else {
		exhaustive("tri", 3, 2, true)
		exhaustive("tri3", 3, 3, false)
		exhaustiveOpen("trihalf", 3, 4, 2)
		sampled(r, 4000)
		bigGrid(r, 300)
		latticeEdges(vproto.NewRng(seed+79), 150)
		emptyMembers(vproto.NewRng(seed+80), 150)
		floatCases(r, 20000, nil)
		scaledShapes(r, 1200)
		floatCases(r, 5000, floatScales)
		receivers(r, 3000)
		receiversOneOut(r, 3000)
		histories(r, 800)
		concurrent(r, 10, 30)
	}
	w.Flush()
}

func status(f func() geom.WithinStatus) string {
	var s geom.WithinStatus
	if e := vproto.Safe(func() { s = f() }); e != "" {
		return "panic_" + e
	}
	return fmt.Sprint(int(s))
}

// ---- implementation stage ----
//
// Every polygonal argument is built three ways: as parsed (every ring owns its array), "flat" (all rings of
// all member polygons are consecutive windows of ONE buffer with spare capacity, so cap(ring) > len(ring) and
// the element after a ring is the first vertex of the next), and "prefix" (every ring is a prefix re-slice of a
// longer array; empty rings are nil). The query of the line is asked TWICE against each object; after every
// pass the argument (visible part and whole backing arrays) is compared bit for bit with a snapshot.
// Within is a function of the point and the polygon: a modified argument or an answer that depends on the
// variant or the round is reported on the result line and judged SPEC.

var sentinel = geom.Point{X: 12345.5, Y: -54321.5}

type variant struct {
	name string
	pg   geom.Polygonal
	bufs [][]geom.Point
	snap [][]geom.Point
	toks string
}

func (v *variant) snapshot() {
	v.toks = vproto.GeomToks(v.pg.(geom.Geom))
	v.snap = make([][]geom.Point, len(v.bufs))
	for i, b := range v.bufs {
		v.snap[i] = append([]geom.Point(nil), b...)
	}
}

func (v *variant) changed() string {
	if t := vproto.GeomToks(v.pg.(geom.Geom)); t != v.toks {
		return "visible"
	}
	for i, b := range v.bufs {
		for k := range b {
			if math.Float64bits(b[k].X) != math.Float64bits(v.snap[i][k].X) || math.Float64bits(b[k].Y) != math.Float64bits(v.snap[i][k].Y) {
				return fmt.Sprintf("backing[%d][%d]", i, k)
			}
		}
	}
	return ""
}

func variants(pg geom.Polygonal, nilEmpty bool) []*variant {
	var polys []geom.Polygon
	multi := false
	switch t := pg.(type) {
	case geom.Polygon:
		polys = []geom.Polygon{t}
	case geom.MultiPolygon:
		polys, multi = t, true
	default:
		v := &variant{name: "parsed", pg: pg}
		v.snapshot()
		return []*variant{v}
	}
	wrap := func(ps []geom.Polygon) geom.Polygonal {
		if multi {
			return geom.MultiPolygon(ps)
		}
		return ps[0]
	}
	v0 := &variant{name: "parsed", pg: pg}
	total := 0
	for _, p := range polys {
		for _, r := range p {
			v0.bufs = append(v0.bufs, r[:cap(r)])
			total += len(r)
		}
	}
	// flat: windows of one buffer with spare capacity
	buf := make([]geom.Point, total+3)
	for i := range buf {
		buf[i] = sentinel
	}
	flat := make([]geom.Polygon, len(polys))
	o := 0
	for i, p := range polys {
		flat[i] = make(geom.Polygon, len(p))
		for k, r := range p {
			copy(buf[o:], r)
			flat[i][k] = buf[o : o+len(r)]
			o += len(r)
		}
	}
	v1 := &variant{name: "flat", pg: wrap(flat), bufs: [][]geom.Point{buf}}
	// prefix re-slices; empty rings are nil
	v2 := &variant{name: "prefix"}
	pre := make([]geom.Polygon, len(polys))
	for i, p := range polys {
		pre[i] = make(geom.Polygon, len(p))
		for k, r := range p {
			if len(r) == 0 && nilEmpty {
				continue
			}
			big := make([]geom.Point, len(r)+2)
			copy(big, r)
			big[len(r)], big[len(r)+1] = sentinel, sentinel
			pre[i][k] = big[:len(r)]
			v2.bufs = append(v2.bufs, big)
		}
	}
	v2.pg = wrap(pre)
	vs := []*variant{v0, v1, v2}
	for _, v := range vs {
		v.snapshot()
	}
	return vs
}

// ask runs the query against every variant twice
func ask(pg geom.Polygonal, nilEmpty bool, run func(geom.Polygonal) string) string {
	base := ""
	for _, v := range variants(pg, nilEmpty) {
		for round := 1; round <= 2; round++ {
			r := run(v.pg)
			if c := v.changed(); c != "" {
				return fmt.Sprintf("argument-modified variant=%s round=%d where=%s answer=%s", v.name, round, c, r)
			}
			if base == "" {
				base = r
			} else if r != base {
				return fmt.Sprintf("%s unstable variant=%s round=%d first=%s", r, v.name, round, base)
			}
		}
	}
	return base
}

func gridRun(lo, hi int, coord func(int) float64) func(geom.Polygonal) string {
	return func(pg geom.Polygonal) string {
		var b strings.Builder
		for j := lo; j <= hi; j++ {
			for i := lo; i <= hi; i++ {
				q := geom.Point{X: coord(i), Y: coord(j)}
				s := status(func() geom.WithinStatus { return q.Within(pg) })
				if len(s) != 1 {
					return s
				}
				b.WriteString(s)
			}
		}
		return b.String()
	}
}

func polysOf(g geom.Geom) []geom.Polygon {
	switch t := g.(type) {
	case geom.Polygon:
		return []geom.Polygon{t}
	case geom.MultiPolygon:
		return t
	}
	panic("hist: not a polygon")
}

// history runs query / change-in-place / query / change-back / query against ONE polygon object
func history(flav string, g1, g2 geom.Geom, run func(geom.Polygonal) string) string {
	if b, ok := g1.(*geom.Bounds); ok { // the same *Bounds object, fields overwritten
		keep := *b
		out := run(b)
		*b = *g2.(*geom.Bounds)
		out += " " + run(b)
		*b = keep
		out += " " + run(b)
		return out
	}
	obj := g1.(geom.Polygonal) // the object under test; g1's arrays are the ones being overwritten
	var keep geom.Geom         // pristine copy of state 1 (never passed to Within)
	switch t := g1.(type) {
	case geom.Polygon:
		keep = mapPoly(t, func(v geom.Point) geom.Point { return v })
	case geom.MultiPolygon:
		m := make(geom.MultiPolygon, len(t))
		for i, p := range t {
			m[i] = mapPoly(p, func(v geom.Point) geom.Point { return v })
		}
		keep = m
	}
	set := func(src geom.Geom) {
		dst, from := polysOf(obj.(geom.Geom)), polysOf(src)
		for i := range dst {
			for k := range dst[i] {
				switch flav {
				case "inplace":
					if len(dst[i][k]) != len(from[i][k]) {
						panic("hist inplace: structure differs")
					}
					copy(dst[i][k], from[i][k])
				default: // reslot: the ring slot of the same Polygon value points to another array
					dst[i][k] = append(geom.Path(nil), from[i][k]...)
				}
			}
		}
	}
	out := run(obj)
	set(g2)
	out += " " + run(obj)
	set(keep)
	out += " " + run(obj)
	return out
}

// concurrentRun: one goroutine per part asks its own grid `rounds` times; all start together. Meanwhile one
// more goroutine per part keeps calling Polygon.Area on that part's polygons (Area reaches pointInPolygon
// too) and two goroutines keep asking an unrelated far-away point against a small triangle. Per part the
// answer string of the first round is reported; if a later round of the same goroutine differs, both strings
// are reported as "first/other" (the judge holds BOTH against the Spec).
func concurrentRun(rounds int, pgs []geom.Polygonal, runs []func(geom.Polygonal) string) string {
	// at least 8 OS threads run goroutines, so that also on a machine with fewer cores (or a CPU affinity
	// mask) calls are interleaved by the OS scheduler at arbitrary instructions, not only at the Go
	// scheduler's 10 ms preemption points
	if old := runtime.GOMAXPROCS(0); old < 8 {
		runtime.GOMAXPROCS(8)
		defer runtime.GOMAXPROCS(old)
	}
	var stop int32
	var hammers, workers sync.WaitGroup
	start := make(chan struct{})
	far := geom.Point{X: -1e6, Y: -1e6}
	tri := geom.Polygon{{{X: -1e6 - 1, Y: -1e6 - 1}, {X: -1e6 + 1, Y: -1e6 - 1}, {X: -1e6, Y: -1e6 + 1}}}
	for h := 0; h < 2; h++ {
		hammers.Add(1)
		go func() {
			defer hammers.Done()
			<-start
			for atomic.LoadInt32(&stop) == 0 {
				vproto.Safe(func() { far.Within(tri) })
			}
		}()
	}
	for _, pg := range pgs {
		var ps []geom.Polygon
		switch t := pg.(type) {
		case geom.Polygon:
			ps = []geom.Polygon{t}
		case geom.MultiPolygon:
			ps = t
		}
		hammers.Add(1)
		go func() {
			defer hammers.Done()
			<-start
			for atomic.LoadInt32(&stop) == 0 {
				for _, p := range ps {
					vproto.Safe(func() { p.Area() })
				}
			}
		}()
	}
	res := make([]string, len(pgs))
	for k := range pgs {
		workers.Add(1)
		go func(k int) {
			defer workers.Done()
			<-start
			first, other := "", ""
			for round := 0; round < rounds; round++ {
				s := runs[k](pgs[k])
				if round == 0 {
					first = s
				} else if s != first && other == "" {
					other = s
				}
			}
			res[k] = first
			if other != "" {
				res[k] = first + "/" + other
			}
		}(k)
	}
	close(start)
	workers.Wait()
	atomic.StoreInt32(&stop, 1)
	hammers.Wait()
	return strings.Join(res, " ")
}

func impl() {
	vproto.Lines(func(line string, out *bufio.Writer) {
		defer out.Flush()
		p := vproto.NewParser(line)
		res := ""
		if e := vproto.Safe(func() {
			switch p.Next() {
			case "grid":
				p.Next()
				lo, hi, z := p.Int(), p.Int(), p.Int()
				pg := p.Geom().(geom.Polygonal)
				res = ask(pg, true, gridRun(lo, hi, func(i int) float64 {
					if i == 0 && z == 1 {
						return math.Copysign(0, -1)
					}
					return float64(i) / 2
				}))
			case "sgrid": // the half-integer grid scaled by 2^exp (the polygon on the line is already scaled)
				p.Next()
				lo, hi, ex := p.Int(), p.Int(), p.Int()
				pg := p.Geom().(geom.Polygonal)
				res = ask(pg, true, gridRun(lo, hi, func(i int) float64 { return math.Ldexp(float64(i)/2, ex) }))
			case "hist":
				flav := p.Next()
				lo, hi := p.Int(), p.Int()
				g1 := p.Geom()
				if p.Next() != "|" {
					panic("hist: missing |")
				}
				g2 := p.Geom()
				res = history(flav, g1, g2, gridRun(lo, hi, func(i int) float64 { return float64(i) / 2 }))
			case "cc":
				p.Next()
				rounds, sub := p.Int(), p.Int()
				var pgs []geom.Polygonal
				var runs []func(geom.Polygonal) string
				var snaps []*variant
				for {
					lo, hi := p.Int(), p.Int()
					pg := subdividePolygonal(p.Geom(), sub)
					v := &variant{name: "cc", pg: pg}
					v.snapshot()
					pgs, snaps = append(pgs, pg), append(snaps, v)
					runs = append(runs, gridRun(lo, hi, func(i int) float64 { return float64(i) / 2 }))
					if p.Done() || p.Next() != "|" {
						break
					}
				}
				res = concurrentRun(rounds, pgs, runs)
				for k, v := range snaps {
					if c := v.changed(); c != "" {
						res = fmt.Sprintf("argument-modified variant=cc part=%d where=%s", k, c)
					}
				}
			case "pt":
				p.Next()
				q := p.Pt()
				pg := p.Geom().(geom.Polygonal)
				res = ask(pg, true, func(pg geom.Polygonal) string {
					return status(func() geom.WithinStatus { return q.Within(pg) })
				})
			case "recv":
				tag := p.Next()
				a := p.Geom()
				if p.Next() != "|" {
					panic("recv: missing |")
				}
				pg := p.Geom().(geom.Polygonal)
				before := vproto.GeomToks(a)
				// reflect.DeepEqual distinguishes nil from empty rings: keep empty rings non-nil here
				res = ask(pg, false, func(pg geom.Polygonal) string {
					return status(func() geom.WithinStatus { return a.(geom.Withiner).Within(pg) })
				})
				if ap, ok := a.(geom.Polygon); ok && tag == "self" && len(res) == 1 {
					// the same object on both sides
					if r := status(func() geom.WithinStatus { return ap.Within(ap) }); r != res {
						res = r + " unstable variant=same-object first=" + res
					}
				}
				if vproto.GeomToks(a) != before {
					res = "argument-modified receiver"
				}
			default:
				res = "badline"
			}
		}); e != "" {
			res = "harness_" + e
		}
		fmt.Fprintf(out, "%s => %s\n", line, res)
	})
}

func main() {
	if len(os.Args) < 2 {
		fmt.Fprintln(os.Stderr, "usage: c02 gen --seed S --tier T | impl")
		os.Exit(2)
	}
	switch os.Args[1] {
	case "gen":
		seed, tier := vproto.SeedTier(os.Args[2:])
		gen(seed, tier)
	case "impl":
		impl()
	case "extract":
		extractMain(os.Args[2:])
	default:
		os.Exit(2)
	}
}
