package main

// T1 tie for C02, second part: the LOOPS.  Renders
//   within.go: (WithinStatus).invert, pointInPolygon, pointInPolygonal
//   bounds.go: NewBounds, NewBoundsPoint, (*Bounds).extendPoint, (*Bounds).extendPoints
//   area.go:   (Polygon).ringBounds
//   point.go / multipoint.go / linestring.go / multilinestring.go / polygon.go: the five Within receivers
// of the tree under test into namespace GeomV.C02.GenL (monad Go.M = Except Fault, see lean/GeomV/C02/GenLib.lean).
// The approach is the one of harness/cmd/c14/extract.go (monadic rendering, faulting index operations, loops as
// combinators with the assigned variables as state) extended by early `return` / `continue` (values of Go.Ctl).
//
// Calls of pointOnSegment / rayIntersectsSegment are rendered as calls of two PARAMETERS `os ray` of the generated
// definitions (open recursion over the callee): TiesLoops.lean instantiates them with the regenerated exact functions
// (Gen.…, tie to the model) and ProofsFloatGen.lean with the regenerated rounded ones (GenR.… rnd).
//
// Subset (anything else: "left the translatable subset", a broken obligation):
//   statements  x := e | x = e | b.Min.X = e (pointer receiver field) | s[i] = e | recv.mutator(args) |
//               if c {…} [else {…}] | for k, v := range e {…} | for i := c; i < len(s); i++ {…} | continue | return [e]
//   expressions identifiers, Outside/Inside/OnEdge, integer literals, len(s), s[i], integer + -, comparisons, !,
//               && || (operands without faulting sub-expressions), calls of the functions above and of
//               Equals/Overlaps/Polygons/reflect.DeepEqual, &Bounds{Point{…}, Point{…}}, math.Inf/Min/Max.

import (
	"fmt"
	"go/ast"
	"go/parser"
	"go/token"
	"path/filepath"
	"sort"
	"strings"
)

var leanType = map[string]string{
	"Point": "P", "Path": "List P", "LineString": "List P", "MultiPoint": "List P", "[]Point": "List P",
	"Polygon": "Poly", "MultiLineString": "List (List P)", "[]Polygon": "List Poly",
	"*Bounds": "Bounds", "[]*Bounds": "List Bounds", "Polygonal": "Polygonal", "WithinStatus": "Status",
	"int": "Int", "bool": "Bool",
}

var elemType = map[string]string{
	"Path": "Point", "LineString": "Point", "MultiPoint": "Point", "[]Point": "Point",
	"Polygon": "Path", "MultiLineString": "LineString", "[]Polygon": "Polygon", "[]*Bounds": "*Bounds",
}

func goType(x ast.Expr) string {
	switch t := x.(type) {
	case *ast.Ident:
		return t.Name
	case *ast.StarExpr:
		return "*" + goType(t.X)
	case *ast.ArrayType:
		if t.Len == nil {
			return "[]" + goType(t.Elt)
		}
	}
	fail("type expression %T outside the subset", x)
	return ""
}

var leanTypeX = map[string]string{"P": "PX", "List P": "List PX", "Poly": "PolyX", "List (List P)": "List (List PX)", "List Poly": "List PolyX",
	"Bounds": "BoundsX", "List Bounds": "List BoundsX", "Polygonal": "PolygonalX"}

func lt(t string) string {
	s, ok := leanType[t]
	if !ok {
		fail("type %s outside the subset", t)
	}
	if xmode {
		if x, ok := leanTypeX[s]; ok {
			return x
		}
	}
	return s
}

// names that differ between the exact rendering (ERat boxes over Rat points) and the XF rendering
func xn(exact, x string) string {
	if xmode {
		return x
	}
	return exact
}

// a function of the loop part
type lfun struct {
	file, recv, name string // recv: "" or the receiver's type name
	lean             string
	fd               *ast.FuncDecl
	params           []string // names (receiver first)
	ptypes           []string
	ret              string // Go result type; for mutators (pointer receiver changed in place) "*Bounds"
	mutator          bool
	usesDec          bool // needs the parameters os/ray
}

type lctx struct {
	f      *lfun
	funcs  map[string]*lfun // key: recvType+"."+name or name
	fresh  int
	inLoop bool   // return → Ctl.ret, end of block → Ctl.next state
	state  []string
}

type venv map[string]string // Go variable → Go type

func (v venv) copy() venv {
	o := venv{}
	for k, x := range v {
		o[k] = x
	}
	return o
}

func lname(id string) string {
	if id == "in" {
		return "in_"
	}
	if id == "_" {
		return "_"
	}
	return id
}

var statusConst = map[string]string{"Outside": "Status.outside", "Inside": "Status.inside", "OnEdge": "Status.onEdge"}

// eratExpr: a float expression that lands in a box field
func (c *lctx) eratExpr(x ast.Expr, ve venv) string {
	switch t := x.(type) {
	case *ast.ParenExpr:
		return c.eratExpr(t.X, ve)
	case *ast.SelectorExpr:
		if in, ok := t.X.(*ast.SelectorExpr); ok {
			id, ok := in.X.(*ast.Ident)
			if !ok || ve[id.Name] != "*Bounds" || (in.Sel.Name != "Min" && in.Sel.Name != "Max") || (t.Sel.Name != "X" && t.Sel.Name != "Y") {
				fail("box field selector outside the subset")
			}
			return lname(id.Name) + "." + strings.ToLower(in.Sel.Name) + t.Sel.Name
		}
		id, ok := t.X.(*ast.Ident)
		if !ok || ve[id.Name] != "Point" || (t.Sel.Name != "X" && t.Sel.Name != "Y") {
			fail("coordinate selector outside the subset")
		}
		if xmode {
			return lname(id.Name) + "." + strings.ToLower(t.Sel.Name)
		}
		return "(ERat.fin " + lname(id.Name) + "." + strings.ToLower(t.Sel.Name) + ")"
	case *ast.CallExpr:
		sel, ok := t.Fun.(*ast.SelectorExpr)
		if !ok {
			fail("float call outside the subset")
		}
		pk, ok := sel.X.(*ast.Ident)
		if !ok || pk.Name != "math" {
			fail("float call outside the subset")
		}
		switch sel.Sel.Name {
		case "Inf":
			if len(t.Args) == 1 {
				if bl, ok := t.Args[0].(*ast.BasicLit); ok && bl.Value == "1" {
					return xn("ERat.pinf", "XF.pinf")
				}
				if u, ok := t.Args[0].(*ast.UnaryExpr); ok && u.Op == token.SUB {
					if bl, ok := u.X.(*ast.BasicLit); ok && bl.Value == "1" {
						return xn("ERat.ninf", "XF.ninf")
					}
				}
			}
			fail("math.Inf argument")
		case "Min", "Max":
			if len(t.Args) != 2 {
				fail("math.%s arity", sel.Sel.Name)
			}
			return "(" + xn("ERat.", "XF.") + strings.ToLower(sel.Sel.Name) + " " + c.eratExpr(t.Args[0], ve) + " " + c.eratExpr(t.Args[1], ve) + ")"
		}
		fail("math.%s outside the subset", sel.Sel.Name)
	}
	fail("float expression %T outside the subset", x)
	return ""
}

// expr: (lean text, Go type, contains a faulting / monadic sub-expression)
func (c *lctx) expr(x ast.Expr, ve venv) (string, string, bool) {
	switch t := x.(type) {
	case *ast.ParenExpr:
		return c.expr(t.X, ve)
	case *ast.Ident:
		if s, ok := statusConst[t.Name]; ok {
			return s, "WithinStatus", false
		}
		if t.Name == "true" || t.Name == "false" {
			return t.Name, "bool", false
		}
		ty, ok := ve[t.Name]
		if !ok {
			fail("%s: unknown identifier %s", c.f.name, t.Name)
		}
		return lname(t.Name), ty, false
	case *ast.BasicLit:
		if t.Kind != token.INT {
			fail("literal %s", t.Value)
		}
		return "(" + t.Value + " : Int)", "int", false
	case *ast.IndexExpr:
		s, st, m1 := c.expr(t.X, ve)
		i, it, m2 := c.expr(t.Index, ve)
		et, ok := elemType[st]
		if !ok || it != "int" {
			fail("index expression outside the subset")
		}
		_ = m1
		_ = m2
		return "(← Go.idx " + s + " " + i + ")", et, true
	case *ast.UnaryExpr:
		switch t.Op {
		case token.NOT:
			s, ty, m := c.expr(t.X, ve)
			if ty != "bool" {
				fail("! of a non-boolean")
			}
			return "(!" + s + ")", "bool", m
		case token.AND: // &Bounds{Point{…}, Point{…}}
			cl, ok := t.X.(*ast.CompositeLit)
			if !ok {
				fail("& outside the subset")
			}
			if id, ok := cl.Type.(*ast.Ident); !ok || id.Name != "Bounds" || len(cl.Elts) != 2 {
				fail("composite literal outside the subset")
			}
			var fs []string
			for _, el := range cl.Elts {
				pl, ok := el.(*ast.CompositeLit)
				if !ok || len(pl.Elts) != 2 {
					fail("Bounds literal outside the subset")
				}
				if id, ok := pl.Type.(*ast.Ident); !ok || id.Name != "Point" {
					fail("Bounds literal outside the subset")
				}
				var xs, ys string
				for _, pe := range pl.Elts {
					kv, ok := pe.(*ast.KeyValueExpr)
					if !ok {
						fail("unkeyed Point literal")
					}
					switch kv.Key.(*ast.Ident).Name {
					case "X":
						xs = c.eratExpr(kv.Value, ve)
					case "Y":
						ys = c.eratExpr(kv.Value, ve)
					}
				}
				if xs == "" || ys == "" {
					fail("Point literal fields")
				}
				fs = append(fs, xs, ys)
			}
			return "(⟨" + strings.Join(fs, ", ") + "⟩ : " + lt("*Bounds") + ")", "*Bounds", false
		}
		fail("unary operator %s", t.Op)
	case *ast.BinaryExpr:
		l, lty, m1 := c.expr(t.X, ve)
		r, rty, m2 := c.expr(t.Y, ve)
		switch t.Op {
		case token.ADD, token.SUB:
			if lty != "int" || rty != "int" {
				fail("arithmetic on non-integers in the loop part")
			}
			return "(" + l + " " + t.Op.String() + " " + r + ")", "int", m1 || m2
		case token.LSS, token.GTR, token.LEQ, token.GEQ, token.EQL, token.NEQ:
			op := map[token.Token]string{token.LSS: "<", token.GTR: ">", token.LEQ: "≤", token.GEQ: "≥", token.EQL: "=", token.NEQ: "≠"}[t.Op]
			if lty != rty || (lty != "int" && lty != "WithinStatus") {
				fail("comparison of %s and %s outside the subset", lty, rty)
			}
			if lty == "WithinStatus" && t.Op != token.EQL && t.Op != token.NEQ {
				fail("ordering comparison of WithinStatus")
			}
			return "(decide (" + l + " " + op + " " + r + "))", "bool", m1 || m2
		case token.LAND, token.LOR:
			if lty != "bool" || rty != "bool" {
				fail("&&/|| of non-booleans")
			}
			if m2 {
				fail("faulting expression under a short-circuit operator")
			}
			op := "&&"
			if t.Op == token.LOR {
				op = "||"
			}
			return "(" + l + " " + op + " " + r + ")", "bool", m1
		}
		fail("operator %s", t.Op)
	case *ast.CallExpr:
		return c.call(t, ve)
	}
	fail("%s: expression %T outside the subset", c.f.name, x)
	return "", "", false
}

func (c *lctx) args(as []ast.Expr, ve venv) ([]string, []string, bool) {
	var ss, ts []string
	m := false
	for _, a := range as {
		s, t, mm := c.expr(a, ve)
		ss = append(ss, s)
		ts = append(ts, t)
		m = m || mm
	}
	return ss, ts, m
}

func (c *lctx) callFun(g *lfun, args []string) (string, string, bool) {
	if g.mutator {
		fail("%s: mutating method %s used as a value", c.f.name, g.name)
	}
	dec := ""
	if g.usesDec {
		dec = " os ray"
		c.f.usesDec = true
	}
	return "(← " + g.lean + dec + " " + strings.Join(args, " ") + ")", g.ret, true
}

func (c *lctx) call(t *ast.CallExpr, ve venv) (string, string, bool) {
	switch fn := t.Fun.(type) {
	case *ast.Ident:
		as, ts, m := c.args(t.Args, ve)
		switch fn.Name {
		case "len":
			if len(as) != 1 || elemType[ts[0]] == "" {
				fail("len of a non-slice")
			}
			return "(Go.len " + as[0] + ")", "int", m
		case "pointOnSegment", "rayIntersectsSegment":
			if len(as) != 3 || ts[0] != "Point" || ts[1] != "Point" || ts[2] != "Point" {
				fail("%s: arguments", fn.Name)
			}
			c.f.usesDec = true
			p := map[string]string{"pointOnSegment": "os", "rayIntersectsSegment": "ray"}[fn.Name]
			return "(" + p + " " + strings.Join(as, " ") + ")", "bool", m
		case "make":
			fail("make outside an assignment")
		}
		g, ok := c.funcs[fn.Name]
		if !ok {
			fail("%s: call of %s outside the subset", c.f.name, fn.Name)
		}
		if len(as) != len(g.ptypes) {
			fail("%s: arity of %s", c.f.name, fn.Name)
		}
		for i := range as {
			if lt(ts[i]) != lt(g.ptypes[i]) {
				fail("%s: argument %d of %s has type %s, want %s", c.f.name, i, fn.Name, ts[i], g.ptypes[i])
			}
		}
		return c.callFun(g, as)
	case *ast.SelectorExpr:
		if pk, ok := fn.X.(*ast.Ident); ok && pk.Name == "reflect" && fn.Sel.Name == "DeepEqual" {
			as, ts, m := c.args(t.Args, ve)
			if len(as) != 2 || ts[0] != "Polygon" || ts[1] != "Polygonal" || m {
				fail("reflect.DeepEqual outside the subset")
			}
			// a Polygon and an interface value are deeply equal iff the dynamic type is Polygon with equal rings
			return "(decide (" + as[1] + " = Polygonal.polygon " + as[0] + "))", "bool", false
		}
		rs, rty, m := c.expr(fn.X, ve)
		as, ts, m2 := c.args(t.Args, ve)
		m = m || m2
		switch {
		case fn.Sel.Name == "Polygons" && rty == "Polygonal" && len(as) == 0:
			return "(Polygonal_Polygons " + rs + ")", "[]Polygon", m
		case fn.Sel.Name == "Equals" && rty == "Point" && len(as) == 1 && ts[0] == "Point":
			return "(" + xn("Gen", "GenX") + ".Point_Equals " + rs + " " + as[0] + ")", "bool", m
		case fn.Sel.Name == "Overlaps" && rty == "*Bounds" && len(as) == 1 && ts[0] == "*Bounds":
			return "(" + xn("Gen", "GenX") + ".Bounds_Overlaps " + rs + " " + as[0] + ")", "bool", m
		}
		key := rty + "." + fn.Sel.Name
		if rty == "Path" { // methods of Path are not used; LineString.Within is called on a LineString only
			fail("method of Path")
		}
		g, ok := c.funcs[key]
		if !ok {
			fail("%s: method call %s outside the subset", c.f.name, key)
		}
		all := append([]string{rs}, as...)
		allT := append([]string{rty}, ts...)
		if len(all) != len(g.ptypes) {
			fail("%s: arity of %s", c.f.name, key)
		}
		for i := range all {
			if lt(allT[i]) != lt(g.ptypes[i]) {
				fail("%s: argument %d of %s", c.f.name, i, key)
			}
		}
		return c.callFun(g, all)
	}
	fail("call outside the subset")
	return "", "", false
}

// escapes: does the statement list contain a return / continue (not counting nested loops' continue)?
func escapes(ss []ast.Stmt, inLoopBody bool) (ret, cont bool) {
	for _, s := range ss {
		switch t := s.(type) {
		case *ast.ReturnStmt:
			ret = true
		case *ast.BranchStmt:
			cont = true
		case *ast.IfStmt:
			r, k := escapes(t.Body.List, inLoopBody)
			ret, cont = ret || r, cont || k
			switch el := t.Else.(type) {
			case *ast.BlockStmt:
				r, k := escapes(el.List, inLoopBody)
				ret, cont = ret || r, cont || k
			case *ast.IfStmt:
				r, k := escapes([]ast.Stmt{el}, inLoopBody)
				ret, cont = ret || r, cont || k
			}
		case *ast.RangeStmt:
			r, _ := escapes(t.Body.List, true)
			ret = ret || r
		case *ast.ForStmt:
			r, _ := escapes(t.Body.List, true)
			ret = ret || r
		}
	}
	return
}

// terminates: the list always ends in return/continue
func terminates(ss []ast.Stmt) bool {
	if len(ss) == 0 {
		return false
	}
	switch t := ss[len(ss)-1].(type) {
	case *ast.ReturnStmt, *ast.BranchStmt:
		return true
	case *ast.IfStmt:
		if t.Else == nil {
			return false
		}
		switch el := t.Else.(type) {
		case *ast.BlockStmt:
			return terminates(t.Body.List) && terminates(el.List)
		case *ast.IfStmt:
			return terminates(t.Body.List) && terminates([]ast.Stmt{el})
		}
	}
	return false
}

// assigned: variables of the enclosing scope (in ve) assigned in the list
func (c *lctx) assigned(ss []ast.Stmt, ve venv, out map[string]bool) {
	local := map[string]bool{}
	mark := func(n string) {
		if _, ok := ve[n]; ok && !local[n] {
			out[n] = true
		}
	}
	for _, s := range ss {
		switch t := s.(type) {
		case *ast.AssignStmt:
			for _, l := range t.Lhs {
				switch lv := l.(type) {
				case *ast.Ident:
					if t.Tok == token.DEFINE {
						local[lv.Name] = true
					} else {
						mark(lv.Name)
					}
				case *ast.IndexExpr:
					if id, ok := lv.X.(*ast.Ident); ok {
						mark(id.Name)
					}
				case *ast.SelectorExpr:
					if in, ok := lv.X.(*ast.SelectorExpr); ok {
						if id, ok := in.X.(*ast.Ident); ok {
							mark(id.Name)
						}
					}
				}
			}
		case *ast.ExprStmt:
			if ce, ok := t.X.(*ast.CallExpr); ok {
				if se, ok := ce.Fun.(*ast.SelectorExpr); ok {
					if id, ok := se.X.(*ast.Ident); ok {
						mark(id.Name)
					}
				}
			}
		case *ast.IfStmt:
			c.assigned(t.Body.List, ve, out)
			switch el := t.Else.(type) {
			case *ast.BlockStmt:
				c.assigned(el.List, ve, out)
			case *ast.IfStmt:
				c.assigned([]ast.Stmt{el}, ve, out)
			}
		case *ast.RangeStmt:
			c.assigned(t.Body.List, ve, out)
		case *ast.ForStmt:
			c.assigned(t.Body.List, ve, out)
		}
	}
}

func (c *lctx) stateOf(ss []ast.Stmt, ve venv) []string {
	m := map[string]bool{}
	c.assigned(ss, ve, m)
	var o []string
	for k := range m {
		o = append(o, k)
	}
	sort.Strings(o)
	return o
}

func stateTuple(st []string) string {
	switch len(st) {
	case 0:
		return "()"
	case 1:
		return lname(st[0])
	}
	var o []string
	for _, s := range st {
		o = append(o, lname(s))
	}
	return "(" + strings.Join(o, ", ") + ")"
}

func stateType(st []string, ve venv) string {
	switch len(st) {
	case 0:
		return "Unit"
	case 1:
		return lt(ve[st[0]])
	}
	var o []string
	for _, s := range st {
		o = append(o, lt(ve[s]))
	}
	return "(" + strings.Join(o, " × ") + ")"
}

// block context
type bctx struct {
	ctl   bool     // inside a loop body / joined sub-block: results are Go.Ctl values
	state []string // variables handed on at the normal end (ctl only)
}

func (c *lctx) retE(b bctx, e string) string {
	if b.ctl {
		return "pure (Go.Ctl.ret " + e + ")"
	}
	return "pure " + e
}

func (c *lctx) endE(b bctx) string {
	if b.ctl {
		return "pure (Go.Ctl.next " + stateTuple(b.state) + ")"
	}
	if c.f.mutator {
		return "pure " + lname(c.f.params[0])
	}
	fail("%s: control reaches the end of the function without a return", c.f.name)
	return ""
}

func (c *lctx) freshName() string {
	c.fresh++
	return fmt.Sprintf("c%d_", c.fresh)
}

func (c *lctx) stmts(ss []ast.Stmt, ve venv, ind string, b bctx) string {
	if len(ss) == 0 {
		return ind + c.endE(b)
	}
	rest := ss[1:]
	rty := lt(c.f.ret)
	switch t := ss[0].(type) {
	case *ast.ReturnStmt:
		if len(t.Results) == 0 {
			if !c.f.mutator {
				fail("bare return")
			}
			return ind + c.retE(b, lname(c.f.params[0]))
		}
		if len(t.Results) != 1 {
			fail("return arity")
		}
		s, ty, _ := c.expr(t.Results[0], ve)
		if lt(ty) != rty {
			fail("%s: return type %s", c.f.name, ty)
		}
		return ind + c.retE(b, s)
	case *ast.BranchStmt:
		if t.Tok != token.CONTINUE || t.Label != nil || !b.ctl {
			fail("branch statement outside the subset")
		}
		return ind + c.endE(b)
	case *ast.ExprStmt: // recv.mutator(args)
		ce, ok := t.X.(*ast.CallExpr)
		if !ok {
			fail("expression statement outside the subset")
		}
		se, ok := ce.Fun.(*ast.SelectorExpr)
		if !ok {
			fail("expression statement outside the subset")
		}
		id, ok := se.X.(*ast.Ident)
		if !ok {
			fail("expression statement outside the subset")
		}
		g, ok := c.funcs[ve[id.Name]+"."+se.Sel.Name]
		if !ok || !g.mutator {
			fail("%s: call statement %s.%s is not a known mutating method", c.f.name, id.Name, se.Sel.Name)
		}
		as, ts, _ := c.args(ce.Args, ve)
		if len(as)+1 != len(g.ptypes) {
			fail("arity of %s", g.name)
		}
		for i := range as {
			if lt(ts[i]) != lt(g.ptypes[i+1]) {
				fail("%s: argument %d of %s", c.f.name, i, g.name)
			}
		}
		return ind + "let " + lname(id.Name) + " ← " + g.lean + " " + lname(id.Name) + " " + strings.Join(as, " ") + "\n" + c.stmts(rest, ve, ind, b)
	case *ast.AssignStmt:
		if len(t.Lhs) != 1 || len(t.Rhs) != 1 {
			fail("assignment outside the subset")
		}
		switch lv := t.Lhs[0].(type) {
		case *ast.Ident:
			// make([]*Bounds, len(p))
			if ce, ok := t.Rhs[0].(*ast.CallExpr); ok {
				if fn, ok := ce.Fun.(*ast.Ident); ok && fn.Name == "make" {
					if t.Tok != token.DEFINE || len(ce.Args) != 2 || goType(ce.Args[0]) != "[]*Bounds" {
						fail("make outside the subset")
					}
					n, nt, _ := c.expr(ce.Args[1], ve)
					if lc, ok := ce.Args[1].(*ast.CallExpr); !ok || nt != "int" {
						fail("make length is not len(…)")
					} else if li, ok := lc.Fun.(*ast.Ident); !ok || li.Name != "len" {
						fail("make length is not len(…)")
					}
					ve2 := ve.copy()
					ve2[lv.Name] = "[]*Bounds"
					return ind + "let " + lname(lv.Name) + " := Go.make " + n + " (default : " + lt("*Bounds") + ")\n" + c.stmts(rest, ve2, ind, b)
				}
			}
			s, ty, _ := c.expr(t.Rhs[0], ve)
			ve2 := ve.copy()
			if t.Tok == token.DEFINE {
				ve2[lv.Name] = ty
			} else {
				if t.Tok != token.ASSIGN {
					fail("assignment operator %s", t.Tok)
				}
				if old, ok := ve[lv.Name]; !ok || lt(old) != lt(ty) {
					fail("%s: assignment to %s changes its type", c.f.name, lv.Name)
				}
			}
			return ind + "let " + lname(lv.Name) + " := " + s + "\n" + c.stmts(rest, ve2, ind, b)
		case *ast.IndexExpr: // s[i] = v (v is not used afterwards: pointers are copied as values)
			id, ok := lv.X.(*ast.Ident)
			if !ok || t.Tok != token.ASSIGN {
				fail("indexed assignment outside the subset")
			}
			i, it, _ := c.expr(lv.Index, ve)
			v, vt, _ := c.expr(t.Rhs[0], ve)
			if it != "int" || elemType[ve[id.Name]] != vt {
				fail("indexed assignment types")
			}
			if vid, ok := t.Rhs[0].(*ast.Ident); ok && strings.HasPrefix(vt, "*") {
				used := false
				for _, r := range rest {
					ast.Inspect(r, func(n ast.Node) bool {
						if x, ok := n.(*ast.Ident); ok && x.Name == vid.Name {
							used = true
						}
						return true
					})
				}
				if used {
					fail("%s: pointer %s is used after it was stored (aliasing is not modelled)", c.f.name, vid.Name)
				}
			}
			return ind + "let " + lname(id.Name) + " ← Go.setIdx " + lname(id.Name) + " " + i + " " + v + "\n" + c.stmts(rest, ve, ind, b)
		case *ast.SelectorExpr: // b.Min.X = e
			in, ok := lv.X.(*ast.SelectorExpr)
			if !ok || t.Tok != token.ASSIGN {
				fail("field assignment outside the subset")
			}
			id, ok := in.X.(*ast.Ident)
			if !ok || ve[id.Name] != "*Bounds" || (in.Sel.Name != "Min" && in.Sel.Name != "Max") || (lv.Sel.Name != "X" && lv.Sel.Name != "Y") {
				fail("field assignment outside the subset")
			}
			if !c.f.mutator || id.Name != c.f.params[0] {
				fail("%s: field assignment through a pointer that is not the receiver", c.f.name)
			}
			n := lname(id.Name)
			return ind + "let " + n + " := {" + n + " with " + strings.ToLower(in.Sel.Name) + lv.Sel.Name + " := " + c.eratExpr(t.Rhs[0], ve) + "}\n" + c.stmts(rest, ve, ind, b)
		}
		fail("assignment target outside the subset")
	case *ast.IfStmt:
		if t.Init != nil {
			fail("if with init")
		}
		cs, cty, _ := c.expr(t.Cond, ve)
		if cty != "bool" {
			fail("condition is not boolean")
		}
		var elseL []ast.Stmt
		switch el := t.Else.(type) {
		case nil:
		case *ast.BlockStmt:
			elseL = el.List
		case *ast.IfStmt:
			elseL = []ast.Stmt{el}
		}
		thenT, elseT := terminates(t.Body.List), t.Else != nil && terminates(elseL)
		r1, k1 := escapes(t.Body.List, false)
		r2, k2 := escapes(elseL, false)
		switch {
		case thenT && elseT:
			return ind + "if " + cs + " then do\n" + c.stmts(t.Body.List, ve, ind+"  ", b) + "\n" + ind + "else do\n" + c.stmts(elseL, ve, ind+"  ", b)
		case thenT: // the else branch (if any) falls through into the rest
			return ind + "if " + cs + " then do\n" + c.stmts(t.Body.List, ve, ind+"  ", b) + "\n" + ind + "else do\n" +
				c.stmts(append(append([]ast.Stmt{}, elseL...), rest...), ve, ind+"  ", b)
		case elseT:
			return ind + "if " + cs + " then do\n" + c.stmts(append(append([]ast.Stmt{}, t.Body.List...), rest...), ve, ind+"  ", b) + "\n" + ind + "else do\n" +
				c.stmts(elseL, ve, ind+"  ", b)
		}
		st := c.stateOf(append(append([]ast.Stmt{}, t.Body.List...), elseL...), ve)
		if !r1 && !r2 && !k1 && !k2 { // plain join: the branches only assign
			sub := &lctx{f: c.f, funcs: c.funcs, fresh: c.fresh}
			jb := bctx{ctl: false}
			_ = jb
			thenS := sub.joinBranch(t.Body.List, ve, ind+"    ", st)
			elseS := sub.joinBranch(elseL, ve, ind+"    ", st)
			c.fresh = sub.fresh
			return ind + "let " + stateTuple(st) + " : " + stateType(st, ve) + " ← (if " + cs + " then do\n" + thenS + "\n" + ind + "  else do\n" + elseS + ")\n" +
				c.stmts(rest, ve, ind, b)
		}
		if k1 || k2 {
			fail("%s: `continue` inside an if that also falls through", c.f.name)
		}
		// join through Ctl: the branches may return
		nm := c.freshName()
		jb := bctx{ctl: true, state: st}
		thenS := c.stmts(t.Body.List, ve, ind+"    ", jb)
		elseS := c.stmts(elseL, ve, ind+"    ", jb)
		return ind + "let " + nm + " : Go.Ctl " + parenT(rty) + " " + parenT(stateType(st, ve)) + " ← (if " + cs + " then do\n" + thenS + "\n" + ind + "  else do\n" + elseS + ")\n" +
			ind + "match " + nm + " with\n" + ind + "| Go.Ctl.ret r_ => " + c.retE(b, "r_") + "\n" + ind + "| Go.Ctl.next " + stateTuple(st) + " =>\n" +
			c.stmts(rest, ve, ind+"  ", b)
	case *ast.RangeStmt:
		xs, xty, _ := c.expr(t.X, ve)
		et, ok := elemType[xty]
		if !ok || t.Tok != token.DEFINE {
			fail("range outside the subset")
		}
		kn, vn := "_", "_"
		ve2 := ve.copy()
		if t.Key != nil {
			kn = t.Key.(*ast.Ident).Name
			if kn != "_" {
				ve2[kn] = "int"
			}
		}
		if t.Value != nil {
			vn = t.Value.(*ast.Ident).Name
			if vn != "_" {
				ve2[vn] = et
			}
		}
		st := c.stateOf(t.Body.List, ve)
		for _, s := range st {
			if s == kn || s == vn {
				fail("loop variable assigned in the body")
			}
		}
		nm := c.freshName()
		body := c.stmts(t.Body.List, ve2, ind+"  ", bctx{ctl: true, state: st})
		return ind + "let " + nm + " ← Go.forRange (ρ := " + rty + ") " + xs + " " + stateTuple(st) + " (fun " + stateTuple(st) + " " + lname(kn) + " " + lname(vn) + " => do\n" + body + "\n" + ind + "  )\n" +
			ind + "match " + nm + " with\n" + ind + "| Go.Ctl.ret r_ => " + c.retE(b, "r_") + "\n" + ind + "| Go.Ctl.next " + stateTuple(st) + " =>\n" +
			c.stmts(rest, ve, ind+"  ", b)
	case *ast.ForStmt: // for i := lo; i < len(s); i++
		as, ok := t.Init.(*ast.AssignStmt)
		if !ok || as.Tok != token.DEFINE || len(as.Lhs) != 1 || len(as.Rhs) != 1 {
			fail("for init outside the subset")
		}
		iv := as.Lhs[0].(*ast.Ident).Name
		lo, loT, m0 := c.expr(as.Rhs[0], ve)
		if loT != "int" || m0 {
			fail("for init outside the subset")
		}
		cond, ok := t.Cond.(*ast.BinaryExpr)
		if !ok || cond.Op != token.LSS {
			fail("for condition outside the subset")
		}
		if ci, ok := cond.X.(*ast.Ident); !ok || ci.Name != iv {
			fail("for condition outside the subset")
		}
		hc, ok := cond.Y.(*ast.CallExpr)
		if !ok {
			fail("for bound is not len(…)")
		}
		if hf, ok := hc.Fun.(*ast.Ident); !ok || hf.Name != "len" || len(hc.Args) != 1 {
			fail("for bound is not len(…)")
		}
		bid, ok := hc.Args[0].(*ast.Ident)
		if !ok {
			fail("for bound is not len(identifier)")
		}
		hi, _, _ := c.expr(cond.Y, ve)
		inc, ok := t.Post.(*ast.IncDecStmt)
		if !ok || inc.Tok != token.INC {
			fail("for post outside the subset")
		}
		if ii, ok := inc.X.(*ast.Ident); !ok || ii.Name != iv {
			fail("for post outside the subset")
		}
		ve2 := ve.copy()
		ve2[iv] = "int"
		st := c.stateOf(t.Body.List, ve2)
		for _, s := range st {
			if s == iv || s == bid.Name {
				fail("for: the counter or the bounded slice is assigned in the body")
			}
		}
		nm := c.freshName()
		body := c.stmts(t.Body.List, ve2, ind+"  ", bctx{ctl: true, state: st})
		return ind + "let " + nm + " ← Go.forInt (ρ := " + rty + ") " + lo + " " + hi + " " + stateTuple(st) + " (fun " + stateTuple(st) + " " + lname(iv) + " => do\n" + body + "\n" + ind + "  )\n" +
			ind + "match " + nm + " with\n" + ind + "| Go.Ctl.ret r_ => " + c.retE(b, "r_") + "\n" + ind + "| Go.Ctl.next " + stateTuple(st) + " =>\n" +
			c.stmts(rest, ve, ind+"  ", b)
	}
	fail("%s: statement %T outside the subset", c.f.name, ss[0])
	return ""
}

func parenT(s string) string {
	if strings.Contains(s, " ") && !strings.HasPrefix(s, "(") {
		return "(" + s + ")"
	}
	return s
}

// joinBranch: a branch that only assigns; its value is the state tuple
func (c *lctx) joinBranch(ss []ast.Stmt, ve venv, ind string, st []string) string {
	if len(ss) == 0 {
		return ind + "pure " + stateTuple(st)
	}
	// translate with a pseudo context whose end yields the tuple
	sub := bctx{ctl: false}
	_ = sub
	save := c.f.mutator
	defer func() { c.f.mutator = save }()
	out := c.stmtsJoin(ss, ve, ind, st)
	return out
}

func (c *lctx) stmtsJoin(ss []ast.Stmt, ve venv, ind string, st []string) string {
	if len(ss) == 0 {
		return ind + "pure " + stateTuple(st)
	}
	switch ss[0].(type) {
	case *ast.AssignStmt, *ast.ExprStmt:
		// reuse stmts for one statement by cutting its continuation off
		one := c.stmts(ss[:1], ve, ind, bctx{ctl: true, state: nil})
		lines := strings.Split(one, "\n")
		head := strings.Join(lines[:len(lines)-1], "\n")
		return head + "\n" + c.stmtsJoin(ss[1:], ve, ind, st)
	}
	fail("%s: nested control flow inside an assigning branch", c.f.name)
	return ""
}

type lwant struct{ file, recv, name, lean string }

var loopFuncs = []lwant{
	{"within.go", "WithinStatus", "invert", "WithinStatus_invert"},
	{"bounds.go", "", "NewBounds", "NewBounds"},
	{"bounds.go", "", "NewBoundsPoint", "NewBoundsPoint"},
	{"bounds.go", "*Bounds", "extendPoint", "Bounds_extendPoint"},
	{"bounds.go", "*Bounds", "extendPoints", "Bounds_extendPoints"},
	{"area.go", "Polygon", "ringBounds", "Polygon_ringBounds"},
	{"within.go", "", "pointInPolygon", "pointInPolygon"},
	{"within.go", "", "pointInPolygonal", "pointInPolygonal"},
	{"point.go", "Point", "Within", "Point_Within"},
	{"multipoint.go", "MultiPoint", "Within", "MultiPoint_Within"},
	{"linestring.go", "LineString", "Within", "LineString_Within"},
	{"multilinestring.go", "MultiLineString", "Within", "MultiLineString_Within"},
	{"polygon.go", "Polygon", "Within", "Polygon_Within"},
}

// Polygons() of the three types behind the Polygonal interface (polygon.go, multipolygon.go, bounds.go), rendered as one
// function by cases on the dynamic type. Accepted: a body that is a single `return e` with e the receiver, or a composite
// literal of []Polygon / Polygon / Path / Point nesting (types may be elided) over the receiver, b.Min, b.Max and their
// .X/.Y fields.
func extractPolygons(repo string, fset *token.FileSet) string {
	type src struct{ file, recv, ctor string }
	var arms []string
	for _, w := range []src{{"polygon.go", "Polygon", "polygon"}, {"multipolygon.go", "MultiPolygon", "multiPolygon"}, {"bounds.go", "*Bounds", "bounds"}} {
		f, err := parser.ParseFile(fset, filepath.Join(repo, w.file), nil, 0)
		if err != nil {
			fail("%v", err)
		}
		var fd *ast.FuncDecl
		for _, d := range f.Decls {
			if x, ok := d.(*ast.FuncDecl); ok && x.Name.Name == "Polygons" && recvType(x) == w.recv {
				fd = x
			}
		}
		if fd == nil || len(fd.Recv.List[0].Names) != 1 || fd.Type.Params.NumFields() != 0 || fd.Type.Results.NumFields() != 1 ||
			goType(fd.Type.Results.List[0].Type) != "[]Polygon" {
			fail("%s: (%s).Polygons() []Polygon not found", w.file, w.recv)
		}
		rn := fd.Recv.List[0].Names[0].Name
		if len(fd.Body.List) != 1 {
			fail("(%s).Polygons: body outside the subset (one return statement)", w.recv)
		}
		ret, ok := fd.Body.List[0].(*ast.ReturnStmt)
		if !ok || len(ret.Results) != 1 {
			fail("(%s).Polygons: body outside the subset (one return statement)", w.recv)
		}
		// depth: 0 = []Polygon, 1 = Polygon, 2 = Path, 3 = Point, 4 = float64
		depthOf := map[string]int{"[]Polygon": 0, "MultiPolygon": 0, "Polygon": 1, "[]Path": 1, "Path": 2, "[]Point": 2, "Point": 3}
		var tr func(e ast.Expr, depth int) string
		tr = func(e ast.Expr, depth int) string {
			switch t := e.(type) {
			case *ast.Ident:
				if t.Name == rn && w.recv != "*Bounds" && depthOf[w.recv] == depth {
					return lname(rn)
				}
			case *ast.SelectorExpr:
				if w.recv == "*Bounds" {
					if x, ok := t.X.(*ast.Ident); ok && x.Name == rn && depth == 3 && (t.Sel.Name == "Min" || t.Sel.Name == "Max") {
						return lname(rn) + t.Sel.Name
					}
					if in, ok := t.X.(*ast.SelectorExpr); ok && depth == 4 && (t.Sel.Name == "X" || t.Sel.Name == "Y") {
						if x, ok := in.X.(*ast.Ident); ok && x.Name == rn && (in.Sel.Name == "Min" || in.Sel.Name == "Max") {
							return lname(rn) + in.Sel.Name + "." + strings.ToLower(t.Sel.Name)
						}
					}
				}
			case *ast.CompositeLit:
				if t.Type != nil {
					d, ok := depthOf[goType(t.Type)]
					if !ok || d != depth {
						fail("(%s).Polygons: literal of type %s at depth %d", w.recv, goType(t.Type), depth)
					}
				}
				var el []string
				for _, x := range t.Elts {
					if _, ok := x.(*ast.KeyValueExpr); ok {
						fail("(%s).Polygons: keyed literal", w.recv)
					}
					el = append(el, tr(x, depth+1))
				}
				if depth == 3 {
					if len(el) != 2 {
						fail("(%s).Polygons: Point literal", w.recv)
					}
					return "⟨" + el[0] + ", " + el[1] + "⟩"
				}
				if depth < 3 {
					return "[" + strings.Join(el, ", ") + "]"
				}
			}
			fail("(%s).Polygons: expression outside the subset at depth %d", w.recv, depth)
			return ""
		}
		body := tr(ret.Results[0], 0)
		pat := lname(rn)
		if w.recv == "*Bounds" {
			pat = lname(rn) + "Min " + lname(rn) + "Max"
		}
		arms = append(arms, "  | "+lt("Polygonal")+"."+w.ctor+" "+pat+" => "+body)
	}
	return "/-- polygon.go, multipolygon.go, bounds.go: Polygons() of the three types behind the Polygonal interface -/\ndef Polygonal_Polygons (pg : " +
		lt("Polygonal") + ") : " + lt("[]Polygon") + " :=\n  match pg with\n" + strings.Join(arms, "\n") + "\n\n"
}

func recvType(fd *ast.FuncDecl) string {
	if fd.Recv == nil || len(fd.Recv.List) != 1 {
		return ""
	}
	return goType(fd.Recv.List[0].Type)
}

func extractLoops(repo string) string {
	fset := token.NewFileSet()
	files := map[string]*ast.File{}
	funcs := map[string]*lfun{}
	var b strings.Builder
	ns := xn("GenL", "GenXL")
	b.WriteString("/-! the loops: within.go pointInPolygon(al), area.go ringBounds, bounds.go NewBounds(Point)/extendPoint(s), the Within receivers;\n`os`/`ray` stand for the callees pointOnSegment / rayIntersectsSegment -/\nnamespace GeomV.C02." + ns + "\nopen GeomV GeomV.C02\n\n")
	b.WriteString(extractPolygons(repo, fset))
	for _, w := range loopFuncs {
		if xmode && strings.HasSuffix(w.lean, "_Within") { // reflect.DeepEqual compares floats with ==: receivers stay outside the XF rendering
			continue
		}
		f, ok := files[w.file]
		if !ok {
			var err error
			f, err = parser.ParseFile(fset, filepath.Join(repo, w.file), nil, 0)
			if err != nil {
				fail("%v", err)
			}
			files[w.file] = f
		}
		var fd *ast.FuncDecl
		for _, d := range f.Decls {
			if x, ok := d.(*ast.FuncDecl); ok && x.Name.Name == w.name && recvType(x) == w.recv {
				fd = x
			}
		}
		if fd == nil {
			fail("%s: function %s %s not found", w.file, w.recv, w.name)
		}
		lf := &lfun{file: w.file, recv: w.recv, name: w.name, lean: w.lean, fd: fd}
		venv0 := venv{}
		fields := fd.Type.Params.List
		if fd.Recv != nil {
			fields = append(append([]*ast.Field{}, fd.Recv.List...), fields...)
		}
		for _, fl := range fields {
			ty := goType(fl.Type)
			lt(ty)
			if len(fl.Names) == 0 {
				fail("%s: unnamed parameter", w.name)
			}
			for _, n := range fl.Names {
				lf.params = append(lf.params, n.Name)
				lf.ptypes = append(lf.ptypes, ty)
				venv0[n.Name] = ty
			}
		}
		pre := ""
		switch {
		case fd.Type.Results == nil || len(fd.Type.Results.List) == 0:
			if w.recv != "*Bounds" {
				fail("%s: no result", w.name)
			}
			lf.mutator, lf.ret = true, "*Bounds"
		case len(fd.Type.Results.List) == 1:
			r := fd.Type.Results.List[0]
			lf.ret = goType(r.Type)
			lt(lf.ret)
			if len(r.Names) == 1 { // named result: starts as the zero value
				if lf.ret != "WithinStatus" {
					fail("%s: named result of type %s", w.name, lf.ret)
				}
				venv0[r.Names[0].Name] = lf.ret
				pre = "  let " + lname(r.Names[0].Name) + " := Status.outside\n"
			} else if len(r.Names) > 1 {
				fail("%s: results", w.name)
			}
			if w.recv == "*Bounds" { // pointer receiver: does the body change it?
				m := map[string]bool{}
				c0 := &lctx{f: lf, funcs: funcs}
				c0.assigned(fd.Body.List, venv0, m)
				if m[lf.params[0]] {
					if lf.ret != "*Bounds" {
						fail("%s: mutating method with a result that is not the receiver", w.name)
					}
					lf.mutator = true
				}
			}
		default:
			fail("%s: results", w.name)
		}
		c := &lctx{f: lf, funcs: funcs}
		body := c.stmts(fd.Body.List, venv0, "  ", bctx{})
		var ps []string
		for i, p := range lf.params {
			ps = append(ps, "("+lname(p)+" : "+lt(lf.ptypes[i])+")")
		}
		dec := ""
		if lf.usesDec {
			dec = "(os ray : " + lt("Point") + " → " + lt("Point") + " → " + lt("Point") + " → Bool) "
		}
		rn := w.name
		if w.recv != "" {
			rn = "(" + w.recv + ")." + w.name
		}
		fmt.Fprintf(&b, "/-- %s: %s -/\ndef %s %s%s : Go.M %s := do\n%s%s\n\n", w.file, rn, w.lean, dec, strings.Join(ps, " "), parenT(lt(lf.ret)), pre, body)
		key := w.name
		if w.recv != "" {
			key = w.recv + "." + w.name
		}
		funcs[key] = lf
	}
	b.WriteString("end GeomV.C02." + ns + "\n")
	return b.String()
}
