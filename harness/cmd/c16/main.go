// Harness for C16 (shapefile write followed by read). Subcommands:
//
//	gen --seed S --tier T   write case lines; one line = one shapefile (writer spec, reader spec, records)
//	impl                    read case lines, write and read REAL temporary files through
//	                        /repo/encoding/shp, append " => result"
//
// Line grammar (tokens separated by one space; byte strings are hex with a one-letter prefix):
//
//	file W <wspec> R <rspec> N <n> <rec>*
//	wspec = S <nf> (<name:x..> <tag:x..> <kind>)*          kind = i f s gP gMP gLS gMLS gPG gB
//	      | SM <k> <E|F>{k} <nf> (<name> <tag> <kind>)*    writer schedule on ONE NewEncoder encoder: record i is written with
//	                                                       Encode (E) or EncodeFields (F) according to entry i mod k
//	      | F <shapetype> <nf> (<name:x..> <type> <size> <prec>)*
//	rspec = S <nf> (<name> <tag> <kind>)*                  kind additionally gI (a geom.Geom field); fresh record variable per row
//	      | SR <nf> (<name> <tag> <kind>)*                 the same, decoding every row into ONE reused record variable
//	      | F <nn> <name:x..>*
//	      | M <k> (S … | F …)*                             reading schedule on ONE decoder: record i is read with call i mod k
//	rec   = <geom tokens> <nv> <val>*                      val = i<dec> | f<16 hex> | s<hex>
//
// Result: W <per record ok|err|panic:..>* R <nread> (<geom tokens> <nv> <val|->*)* E <0|1> FILES x<.shp hex> x<.shx hex> x<.dbf hex>
// (the bytes of the real temporary files after Encoder.Close())
// or one of  newenc-panic:<..> | newenc-err | newdec-err | pin-mismatch <sum>
package main

import (
	"bufio"
	"encoding/hex"
	"fmt"
	"hash/fnv"
	"math"
	"os"
	"reflect"
	"runtime/debug"
	"strconv"
	"strings"

	"github.com/ctessum/geom"
	gshp "github.com/ctessum/geom/encoding/shp"
	shp "github.com/jonas-p/go-shp"

	"verif/harness/vproto"
)

// The Lean model transcribes go-shp's NewPolyLine/flatten, WriteAttribute and ReadAttribute from the
// module with this content hash (go.sum h1:). The harness refuses to answer for any other content.
const goShpPath = "github.com/jonas-p/go-shp"
const goShpSum = "h1:h5O7ee4tlSPVjdC75eSLX7jXZiHftthuHio/GtrhaSM="

func linkedGoShpSum() string {
	bi, ok := debug.ReadBuildInfo()
	if !ok {
		return "no-build-info"
	}
	for _, d := range bi.Deps {
		if d.Path == goShpPath {
			if d.Replace != nil {
				return "replaced:" + d.Replace.Path
			}
			if d.Sum == "" {
				return "no-sum"
			}
			return d.Sum
		}
	}
	return "not-linked"
}

// ---------------------------------------------------------------- case description

type sfield struct {
	name, tag, kind string
}
type ffield struct {
	name       string
	typ        byte
	size, prec int
}
type val struct {
	k byte // 'i' 'f' 's'
	i int
	f float64
	s string
}
type rec struct {
	g    geom.Geom
	vals []val
}
type spec struct {
	path   byte // 'S' or 'F'
	sf     []sfield
	shpTyp int
	ff     []ffield
	names  []string
	calls  []spec // path 'M': per-row reading schedule
	reuse  bool   // reader path 'S': one record variable reused for all rows (var rec T; for d.DecodeRow(&rec))
	wsched []byte // writer path 'S': per-record method 'E' (Encode) / 'F' (EncodeFields) on the one encoder; empty = all Encode
}
type fcase struct {
	w, r spec
	recs []rec
}

func hx(p string, s string) string { return p + hex.EncodeToString([]byte(s)) }
func unhx(t string) string {
	b, err := hex.DecodeString(t[1:])
	if err != nil {
		panic(err)
	}
	return string(b)
}

func (v val) tok() string {
	switch v.k {
	case 'i':
		return "i" + strconv.Itoa(v.i)
	case 'f':
		return "f" + vproto.F2H(v.f)
	default:
		return hx("s", v.s)
	}
}

func (s spec) toks(b *strings.Builder, reader bool) {
	if s.path == 'M' {
		fmt.Fprintf(b, " M %d", len(s.calls))
		for _, c := range s.calls {
			c.toks(b, true)
		}
		return
	}
	if s.path == 'S' {
		tag := "S"
		if reader && s.reuse {
			tag = "SR"
		}
		if !reader && len(s.wsched) > 0 {
			fmt.Fprintf(b, " SM %d", len(s.wsched))
			for _, m := range s.wsched {
				fmt.Fprintf(b, " %c", m)
			}
			tag = ""
		}
		if tag != "" {
			b.WriteString(" " + tag)
		}
		fmt.Fprintf(b, " %d", len(s.sf))
		for _, f := range s.sf {
			fmt.Fprintf(b, " %s %s %s", hx("x", f.name), hx("x", f.tag), f.kind)
		}
		return
	}
	if reader {
		fmt.Fprintf(b, " F %d", len(s.names))
		for _, n := range s.names {
			b.WriteString(" " + hx("x", n))
		}
		return
	}
	fmt.Fprintf(b, " F %d %d", s.shpTyp, len(s.ff))
	for _, f := range s.ff {
		fmt.Fprintf(b, " %s %d %d %d", hx("x", f.name), f.typ, f.size, f.prec)
	}
}

func (c fcase) line() string {
	var b strings.Builder
	b.WriteString("file W")
	c.w.toks(&b, false)
	b.WriteString(" R")
	c.r.toks(&b, true)
	fmt.Fprintf(&b, " N %d", len(c.recs))
	for _, r := range c.recs {
		b.WriteString(" " + vproto.GeomToks(r.g))
		fmt.Fprintf(&b, " %d", len(r.vals))
		for _, v := range r.vals {
			b.WriteString(" " + v.tok())
		}
	}
	return b.String()
}

func parseVal(t string) val {
	switch t[0] {
	case 'i':
		n, err := strconv.Atoi(t[1:])
		if err != nil {
			panic(err)
		}
		return val{k: 'i', i: n}
	case 'f':
		f, err := vproto.H2F(t[1:])
		if err != nil {
			panic(err)
		}
		return val{k: 'f', f: f}
	case 's':
		return val{k: 's', s: unhx(t)}
	}
	panic("bad value token " + t)
}

func parseSpec(p *vproto.Parser, reader bool) spec {
	var s spec
	switch t := p.Next(); t {
	case "S", "SR", "SM":
		s.path = 'S'
		s.reuse = t == "SR"
		if t == "SM" {
			k := p.Int()
			for i := 0; i < k; i++ {
				s.wsched = append(s.wsched, p.Next()[0])
			}
		}
		n := p.Int()
		for i := 0; i < n; i++ {
			s.sf = append(s.sf, sfield{unhx(p.Next()), unhx(p.Next()), p.Next()})
		}
	case "M":
		s.path = 'M'
		n := p.Int()
		for i := 0; i < n; i++ {
			s.calls = append(s.calls, parseSpec(p, true))
		}
	case "F":
		s.path = 'F'
		if reader {
			n := p.Int()
			for i := 0; i < n; i++ {
				s.names = append(s.names, unhx(p.Next()))
			}
		} else {
			s.shpTyp = p.Int()
			n := p.Int()
			for i := 0; i < n; i++ {
				s.ff = append(s.ff, ffield{unhx(p.Next()), byte(p.Int()), p.Int(), p.Int()})
			}
		}
	default:
		panic("bad spec")
	}
	return s
}

func parseCase(line string) fcase {
	p := vproto.NewParser(line)
	var c fcase
	if p.Next() != "file" || p.Next() != "W" {
		panic("bad line")
	}
	c.w = parseSpec(p, false)
	if p.Next() != "R" {
		panic("bad line: R expected")
	}
	c.r = parseSpec(p, true)
	if p.Next() != "N" {
		panic("bad line: N expected")
	}
	n := p.Int()
	for i := 0; i < n; i++ {
		var r rec
		r.g = p.Geom()
		nv := p.Int()
		for j := 0; j < nv; j++ {
			r.vals = append(r.vals, parseVal(p.Next()))
		}
		c.recs = append(c.recs, r)
	}
	return c
}

// ---------------------------------------------------------------- running the real code

var geomIface = reflect.TypeOf((*geom.Geom)(nil)).Elem()

func kindType(k string) reflect.Type {
	switch k {
	case "i":
		return reflect.TypeOf(int(0))
	case "f":
		return reflect.TypeOf(float64(0))
	case "s":
		return reflect.TypeOf("")
	case "gP":
		return reflect.TypeOf(geom.Point{})
	case "gMP":
		return reflect.TypeOf(geom.MultiPoint{})
	case "gLS":
		return reflect.TypeOf(geom.LineString{})
	case "gMLS":
		return reflect.TypeOf(geom.MultiLineString{})
	case "gPG":
		return reflect.TypeOf(geom.Polygon{})
	case "gB":
		return reflect.TypeOf((*geom.Bounds)(nil))
	case "gI":
		return geomIface
	}
	panic("bad kind " + k)
}

func structType(fs []sfield) reflect.Type {
	var sf []reflect.StructField
	for _, f := range fs {
		var tag reflect.StructTag
		if f.tag != "" {
			tag = reflect.StructTag(`shp:` + strconv.Quote(f.tag))
		}
		sf = append(sf, reflect.StructField{Name: f.name, Type: kindType(f.kind), Tag: tag})
	}
	return reflect.StructOf(sf)
}

func isGeomKind(k string) bool { return k[0] == 'g' }

var tmpDir string

// the bytes of the three files are part of the answer when together they are at most this long
const maxFileBytes = 24 << 10

var caseNo int

func runCase(c fcase) string {
	caseNo++
	base := fmt.Sprintf("%s/f%d", tmpDir, caseNo%8)
	defer func() {
		for _, e := range []string{".shp", ".shx", ".dbf"} {
			os.Remove(base + e)
			os.Remove(base + "c" + e)
		}
	}()
	var b strings.Builder
	// Companion objects (a third of the cases, decided by the input line so that a replay does the same): a SECOND
	// Encoder on a file of its own, created after the main encoder's first record and fed every other record in
	// between the main calls, and a SECOND Decoder on the main file, opened after the main decoder's first call and
	// advanced in between the main calls. Encoders and Decoders are independent objects: the main file and the main
	// results must be exactly what they are without the companions (the judge knows nothing about them).
	hl := fnv.New32a()
	hl.Write([]byte(c.line()))
	companion := hl.Sum32()%3 == 0

	// ---- write
	var enc *gshp.Encoder
	var err error
	var wt reflect.Type
	if c.w.path == 'S' {
		wt = structType(c.w.sf)
	}
	newEnc := func(path string) (en *gshp.Encoder, err error, pan string) {
		if c.w.path == 'S' {
			pan = vproto.Safe(func() { en, err = gshp.NewEncoder(path, reflect.Zero(wt).Interface()) })
			return
		}
		fields := make([]shp.Field, len(c.w.ff))
		for i, f := range c.w.ff {
			fields[i] = shp.Field{Fieldtype: f.typ, Size: uint8(f.size), Precision: uint8(f.prec)}
			copy(fields[i].Name[:], []byte(f.name))
		}
		pan = vproto.Safe(func() { en, err = gshp.NewEncoderFromFields(path, shp.ShapeType(c.w.shpTyp), fields...) })
		return
	}
	{
		var pan string
		if enc, err, pan = newEnc(base + ".shp"); pan != "" {
			return "newenc-panic:" + pan
		}
	}
	if err != nil {
		return "newenc-err"
	}
	var enc2 *gshp.Encoder // the companion encoder
	b.WriteString("W")
	for ri, r := range c.recs {
		var e error
		var pan string
		ri, r := ri, r
		writeTo := func(enc *gshp.Encoder) (e error, pan string) {
			if c.w.path == 'S' {
				v := reflect.New(wt).Elem()
				ai := 0
				for i, f := range c.w.sf {
					if isGeomKind(f.kind) {
						if r.g != nil {
							v.Field(i).Set(reflect.ValueOf(r.g))
						}
						continue
					}
					if ai >= len(r.vals) {
						continue
					}
					x := r.vals[ai]
					ai++
					switch f.kind {
					case "i":
						v.Field(i).SetInt(int64(x.i))
					case "f":
						v.Field(i).SetFloat(x.f)
					case "s":
						v.Field(i).SetString(x.s)
					}
				}
				if len(c.w.wsched) > 0 && c.w.wsched[ri%len(c.w.wsched)] == 'F' {
					// the same record through EncodeFields on the SAME encoder: geometry value of the struct field,
					// attribute values in column order
					var gv geom.Geom
					var vals []interface{}
					for i, f := range c.w.sf {
						if isGeomKind(f.kind) {
							gv, _ = v.Field(i).Interface().(geom.Geom)
						} else {
							vals = append(vals, v.Field(i).Interface())
						}
					}
					pan = vproto.Safe(func() { e = enc.EncodeFields(gv, vals...) })
				} else {
					pan = vproto.Safe(func() { e = enc.Encode(v.Interface()) })
				}
			} else {
				vals := make([]interface{}, len(r.vals))
				for i, x := range r.vals {
					switch x.k {
					case 'i':
						vals[i] = x.i
					case 'f':
						vals[i] = x.f
					default:
						vals[i] = x.s
					}
				}
				pan = vproto.Safe(func() { e = enc.EncodeFields(r.g, vals...) })
			}
			return
		}
		e, pan = writeTo(enc)
		if companion {
			if enc2 == nil {
				if en, err2, pan2 := newEnc(base + "c.shp"); pan2 == "" && err2 == nil {
					enc2 = en
				}
			}
			if enc2 != nil && ri%2 == 0 {
				writeTo(enc2)
			}
		}
		switch {
		case pan != "":
			b.WriteString(" panic")
		case e != nil:
			b.WriteString(" err")
		default:
			b.WriteString(" ok")
		}
	}
	if enc2 != nil {
		vproto.Safe(func() { enc2.Close() })
	}
	enc.Close()
	// the bytes of the three files as go-shp left them (compared with the byte-layout model by the judge)
	var fileToks strings.Builder
	fileToks.WriteString(" FILES")
	{
		var datas [][]byte
		total := 0
		for _, e := range []string{".shp", ".shx", ".dbf"} {
			data, rerr := os.ReadFile(base + e)
			if rerr != nil {
				data = nil
			}
			datas = append(datas, data)
			total += len(data)
		}
		if total > maxFileBytes {
			// keeps the answers of the thorough tier (files of up to 300 records) at a size the judge can handle
			fmt.Fprintf(&fileToks, " skipped %d", total)
		} else {
			for _, data := range datas {
				if data == nil {
					fileToks.WriteString(" missing")
				} else {
					fileToks.WriteString(" x" + hex.EncodeToString(data))
				}
			}
		}
	}

	// ---- read
	dec, err := gshp.NewDecoder(base + ".shp")
	if err != nil {
		return "newdec-err"
	}
	// Every row's result is KEPT as the caller received it (the map of DecodeRowFields, the geometry value, the
	// record struct - for a reused record variable a shallow copy taken when the call returned, as a caller that
	// appends `rec` to a slice does) and only printed after the whole file has been read to the end and the
	// Decoder has been closed: results must not alias state the Decoder goes on using.
	var rows []func() string
	limit := len(c.recs) + 3
	calls := c.r.calls
	if c.r.path != 'M' {
		calls = []spec{c.r}
	}
	types := make([]reflect.Type, len(calls))
	vars := make([]reflect.Value, len(calls)) // the reused record variable of each call site
	for i, cl := range calls {
		if cl.path == 'S' {
			types[i] = structType(cl.sf)
			vars[i] = reflect.New(types[i])
		}
	}
	panicRow := func() string { return "PANIC" }
	var dec2 *gshp.Decoder // the companion decoder on the same file
	defer func() {
		if dec2 != nil {
			vproto.Safe(func() { dec2.Close() })
		}
	}()
	// one Decoder for the whole file; record i is read with call i mod len(calls)
	for i := 0; len(rows) < limit && len(calls) > 0; i++ {
		cl := calls[i%len(calls)]
		if companion && i >= 1 {
			if dec2 == nil {
				if d2, err2 := gshp.NewDecoder(base + ".shp"); err2 == nil {
					dec2 = d2
				}
			}
			if dec2 != nil && i%2 == 1 {
				vproto.Safe(func() { dec2.DecodeRowFields() })
			}
		}
		if cl.path == 'S' {
			p := vars[i%len(calls)]
			if !cl.reuse {
				p = reflect.New(types[i%len(calls)])
			}
			var more bool
			if pan := vproto.Safe(func() { more = dec.DecodeRow(p.Interface()) }); pan != "" {
				rows = append(rows, panicRow)
				break
			}
			if !more {
				break
			}
			kept := p.Elem()
			if cl.reuse {
				kept = reflect.New(types[i%len(calls)]).Elem()
				kept.Set(p.Elem())
			}
			sf := cl.sf
			rows = append(rows, func() string {
				var rb strings.Builder
				nv := 0
				var vs strings.Builder
				for i, f := range sf {
					fv := kept.Field(i)
					if isGeomKind(f.kind) {
						if f.kind == "gI" && fv.IsNil() {
							rb.WriteString("NIL")
						} else {
							rb.WriteString(vproto.GeomToks(fv.Interface().(geom.Geom)))
						}
						continue
					}
					nv++
					switch f.kind {
					case "i":
						vs.WriteString(" i" + strconv.FormatInt(fv.Int(), 10))
					case "f":
						vs.WriteString(" f" + vproto.F2H(fv.Float()))
					case "s":
						vs.WriteString(" " + hx("s", fv.String()))
					}
				}
				fmt.Fprintf(&rb, " %d%s", nv, vs.String())
				return rb.String()
			})
		} else {
			var g geom.Geom
			var fields map[string]string
			var more bool
			if pan := vproto.Safe(func() { g, fields, more = dec.DecodeRowFields(cl.names...) }); pan != "" {
				rows = append(rows, panicRow)
				break
			}
			if !more {
				break
			}
			names := cl.names
			rows = append(rows, func() string {
				var rb strings.Builder
				rb.WriteString(vproto.GeomToks(g))
				fmt.Fprintf(&rb, " %d", len(names))
				for _, n := range names {
					if v, ok := fields[n]; ok {
						rb.WriteString(" " + hx("s", v))
					} else {
						rb.WriteString(" -")
					}
				}
				return rb.String()
			})
		}
		if dec.Error() != nil {
			break
		}
	}
	decErr := dec.Error()
	dec.Close()
	fmt.Fprintf(&b, " R %d", len(rows))
	for _, r := range rows {
		b.WriteString(" " + r())
	}
	if decErr != nil {
		b.WriteString(" E 1")
	} else {
		b.WriteString(" E 0")
	}
	b.WriteString(fileToks.String())
	return b.String()
}

func impl() {
	sum := linkedGoShpSum()
	tmpDir = fmt.Sprintf("/verif/.build/tmp-c16-%d", os.Getpid())
	if err := os.MkdirAll(tmpDir, 0o755); err != nil {
		fmt.Fprintln(os.Stderr, err)
		os.Exit(2)
	}
	defer os.RemoveAll(tmpDir)
	vproto.Lines(func(line string, out *bufio.Writer) {
		var res string
		if sum != goShpSum {
			res = "pin-mismatch " + sum
		} else if strings.HasPrefix(line, "rfile ") {
			if pan := vproto.Safe(func() { res = runReflectLine(line) }); pan != "" {
				res = "harness-panic:" + pan
			}
		} else if pan := vproto.Safe(func() { res = runCase(parseCase(line)) }); pan != "" {
			res = "harness-panic:" + pan
		}
		fmt.Fprintf(out, "%s => %s\n", line, res)
		out.Flush()
	})
}

func main() {
	if len(os.Args) < 2 {
		fmt.Fprintln(os.Stderr, "usage: c16 gen|impl")
		os.Exit(2)
	}
	switch os.Args[1] {
	case "gen":
		seed, tier := vproto.SeedTier(os.Args[2:])
		gen(seed, tier)
	case "impl":
		impl()
	}
}

var _ = math.Inf
