package main

// T1 for the pure string helpers of encoding/shp/shp.go: shpFieldName2String, shpAttributeToFloat, shpAttributeToInt are
// translated STATEMENT BY STATEMENT (go/ast) into Lean definitions over the small vocabulary of
// lean/GeomV/C16/GenStrLib.lean (goTrim, goIndex, goSlice with its bounds fault, goTrimSpace, goParseFloat, goParseInt);
// lean/GeomV/C16/TieStr.lean proves each generated definition equal to the hand-written model function for all inputs.
// Subset: `x := e`, `x = e`, `v, err := strconv.ParseFloat(e, bits)` / `strconv.ParseInt(e, base, bits)`,
// `if a == b { x = e … }` / `if a != b {…}` without else, `return e[, e]`; expressions: identifiers, integer literals,
// `-1`, `nil`, string literals (as byte lists), `[]byte{…}`, `x[:]`, `x[lo:hi]` (bounds fault), `len(x)`, `string(x)`,
// `[]byte(x)`, `bytes.Trim`/`strings.Trim(x, lit)`, `bytes.Index(x, sep)`, `bytes.IndexByte(x, c)`, `strings.TrimSpace(x)`,
// `fmt.Errorf(…)` (a non-nil error). Anything else is reported on stderr (the pregen hook records a broken obligation).

import (
	"fmt"
	"go/ast"
	"go/parser"
	"go/token"
	"os"
	"path/filepath"
	"strconv"
	"strings"
)

type strTr struct {
	fset  *token.FileSet
	text  []byte
	lines []string
	tmp   int
	errs  []string
}

func (t *strTr) fail(n ast.Node, what string) string {
	t.errs = append(t.errs, fmt.Sprintf("%s: %s: %s", t.fset.Position(n.Pos()), what, src(t.fset, n, t.text)))
	return "untranslated"
}

func (t *strTr) bytesLit(e ast.Expr) (string, bool) {
	switch x := e.(type) {
	case *ast.BasicLit:
		if x.Kind == token.STRING {
			s, err := strconv.Unquote(x.Value)
			if err == nil {
				return bytesLean([]byte(s)), true
			}
		}
	case *ast.CompositeLit:
		if src(t.fset, x.Type, t.text) == "[]byte" {
			var bs []byte
			for _, el := range x.Elts {
				n := natOf(el)
				if n < 0 || n > 255 {
					return "", false
				}
				bs = append(bs, byte(n))
			}
			return bytesLean(bs), true
		}
	}
	return "", false
}

func (t *strTr) intExpr(e ast.Expr) string {
	switch x := e.(type) {
	case *ast.BasicLit:
		if x.Kind == token.INT {
			return "(" + x.Value + " : Int)"
		}
	case *ast.UnaryExpr:
		if x.Op == token.SUB {
			if b, ok := x.X.(*ast.BasicLit); ok && b.Kind == token.INT {
				return "(-" + b.Value + " : Int)"
			}
		}
	}
	return t.expr(e)
}

func (t *strTr) expr(e ast.Expr) string {
	switch x := e.(type) {
	case *ast.ParenExpr:
		return t.expr(x.X)
	case *ast.Ident:
		if x.Name == "nil" {
			return "false"
		}
		return x.Name
	case *ast.BasicLit, *ast.CompositeLit:
		if s, ok := t.bytesLit(e); ok {
			return "(" + s + " : Bytes)"
		}
		return t.intExpr2(e)
	case *ast.UnaryExpr:
		return t.intExpr2(e)
	case *ast.BinaryExpr:
		if x.Op == token.ADD || x.Op == token.SUB {
			return "(" + t.intExpr(x.X) + " " + x.Op.String() + " " + t.intExpr(x.Y) + ")"
		}
		return t.fail(e, "operator outside the translated subset")
	case *ast.SliceExpr:
		base := t.expr(x.X)
		if x.Low == nil && x.High == nil && !x.Slice3 {
			return base
		}
		if x.Slice3 {
			return t.fail(e, "3-index slice")
		}
		lo, hi := "(0 : Int)", "("+base+".length : Int)"
		if x.Low != nil {
			lo = t.intExpr(x.Low)
		}
		if x.High != nil {
			hi = t.intExpr(x.High)
		}
		t.tmp++
		v := fmt.Sprintf("t%d", t.tmp)
		t.lines = append(t.lines, fmt.Sprintf("  let %s ← goSlice %s %s %s", v, base, lo, hi))
		return v
	case *ast.CallExpr:
		fn := src(t.fset, x.Fun, t.text)
		switch fn {
		case "string", "[]byte":
			if len(x.Args) == 1 {
				return t.expr(x.Args[0])
			}
		case "len":
			if len(x.Args) == 1 {
				return "((" + t.expr(x.Args[0]) + ").length : Int)"
			}
		case "bytes.Trim", "strings.Trim":
			if len(x.Args) == 2 {
				if cut, ok := t.bytesLit(x.Args[1]); ok {
					return "(goTrim " + cut + " " + t.expr(x.Args[0]) + ")"
				}
			}
		case "bytes.TrimRight", "strings.TrimRight":
			if len(x.Args) == 2 {
				if cut, ok := t.bytesLit(x.Args[1]); ok {
					return "(goTrimRight " + cut + " " + t.expr(x.Args[0]) + ")"
				}
			}
		case "bytes.Index":
			if len(x.Args) == 2 {
				if sep, ok := t.bytesLit(x.Args[1]); ok {
					return "(goIndex " + t.expr(x.Args[0]) + " " + sep + ")"
				}
			}
		case "bytes.IndexByte":
			if len(x.Args) == 2 {
				if n := natOf(x.Args[1]); n >= 0 && n < 256 {
					return fmt.Sprintf("(goIndex %s [%d])", t.expr(x.Args[0]), n)
				}
			}
		case "strings.TrimSpace", "bytes.TrimSpace":
			if len(x.Args) == 1 {
				return "(goTrimSpace " + t.expr(x.Args[0]) + ")"
			}
		case "fmt.Errorf", "errors.New":
			return "true"
		}
		return t.fail(e, "call outside the translated subset")
	}
	return t.fail(e, "expression outside the translated subset")
}

func (t *strTr) intExpr2(e ast.Expr) string {
	switch x := e.(type) {
	case *ast.BasicLit:
		if x.Kind == token.INT {
			return "(" + x.Value + " : Int)"
		}
	case *ast.UnaryExpr:
		if x.Op == token.SUB {
			if b, ok := x.X.(*ast.BasicLit); ok && b.Kind == token.INT {
				return "(-" + b.Value + " : Int)"
			}
		}
	}
	return t.fail(e, "literal outside the translated subset")
}

func (t *strTr) cond(e ast.Expr) string {
	b, ok := e.(*ast.BinaryExpr)
	if !ok || (b.Op != token.EQL && b.Op != token.NEQ) {
		return t.fail(e, "condition outside the translated subset")
	}
	op := "=="
	if b.Op == token.NEQ {
		op = "!="
	}
	return "(" + t.expr(b.X) + " " + op + " " + t.expr(b.Y) + ")"
}

func (t *strTr) assign(s *ast.AssignStmt, guard string) {
	if len(s.Lhs) == 2 && len(s.Rhs) == 1 && guard == "" {
		if c, ok := s.Rhs[0].(*ast.CallExpr); ok {
			fn := src(t.fset, c.Fun, t.text)
			a, b := src(t.fset, s.Lhs[0], t.text), src(t.fset, s.Lhs[1], t.text)
			if fn == "strconv.ParseFloat" && len(c.Args) == 2 && natOf(c.Args[1]) >= 0 {
				t.lines = append(t.lines, fmt.Sprintf("  let (%s, %s) := goParseFloat %s %d", a, b, t.expr(c.Args[0]), natOf(c.Args[1])))
				return
			}
			if fn == "strconv.ParseInt" && len(c.Args) == 3 && natOf(c.Args[1]) >= 0 && natOf(c.Args[2]) >= 0 {
				t.lines = append(t.lines, fmt.Sprintf("  let (%s, %s) := goParseInt %s %d %d", a, b, t.expr(c.Args[0]), natOf(c.Args[1]), natOf(c.Args[2])))
				return
			}
		}
	}
	if len(s.Lhs) != 1 || len(s.Rhs) != 1 || (s.Tok != token.DEFINE && s.Tok != token.ASSIGN) {
		t.fail(s, "assignment outside the translated subset")
		return
	}
	id, ok := s.Lhs[0].(*ast.Ident)
	if !ok {
		t.fail(s, "assignment target outside the translated subset")
		return
	}
	mark := len(t.lines)
	rhs := t.expr(s.Rhs[0])
	if guard != "" {
		if s.Tok != token.ASSIGN {
			t.fail(s, "declaration inside an if")
			return
		}
		pre := append([]string{}, t.lines[mark:]...)
		t.lines = t.lines[:mark]
		if len(pre) > 0 { // a faulting sub-expression (slice) is evaluated only when the guard holds
			t.lines = append(t.lines, fmt.Sprintf("  let %s ← (if %s then (do", id.Name, guard))
			for _, l := range pre {
				t.lines = append(t.lines, "      "+strings.TrimSpace(l))
			}
			t.lines = append(t.lines, fmt.Sprintf("      pure %s) else pure %s)", rhs, id.Name))
			return
		}
		t.lines = append(t.lines, fmt.Sprintf("  let %s := if %s then %s else %s", id.Name, guard, rhs, id.Name))
		return
	}
	t.lines = append(t.lines, fmt.Sprintf("  let %s := %s", id.Name, rhs))
}

func (t *strTr) stmts(list []ast.Stmt) {
	for _, st := range list {
		switch s := st.(type) {
		case *ast.AssignStmt:
			t.assign(s, "")
		case *ast.IfStmt:
			guard := ""
			if s.Init != nil {
				// `if n := f(x); n != -1 { b = b[:n] }`: the init statement is an ordinary assignment
				if as, ok := s.Init.(*ast.AssignStmt); ok {
					t.assign(as, "")
				} else {
					t.fail(s.Init, "if-init outside the translated subset")
				}
			}
			if s.Else != nil {
				t.fail(s, "if with else")
				continue
			}
			guard = t.cond(s.Cond)
			for _, bs := range s.Body.List {
				as, ok := bs.(*ast.AssignStmt)
				if !ok {
					t.fail(bs, "statement inside an if outside the translated subset")
					continue
				}
				t.assign(as, guard)
			}
		case *ast.ReturnStmt:
			var rs []string
			for _, r := range s.Results {
				rs = append(rs, t.expr(r))
			}
			t.lines = append(t.lines, "  pure ("+strings.Join(rs, ", ")+")")
		default:
			t.fail(st, "statement outside the translated subset")
		}
	}
}

func strMain(repo string) {
	path := filepath.Join(repo, "encoding", "shp", "shp.go")
	text, err := os.ReadFile(path)
	if err != nil {
		fmt.Fprintln(os.Stderr, err)
		os.Exit(1)
	}
	fset := token.NewFileSet()
	f, err := parser.ParseFile(fset, path, text, 0)
	if err != nil {
		fmt.Fprintln(os.Stderr, err)
		os.Exit(1)
	}
	b := &strings.Builder{}
	p := func(format string, a ...interface{}) { fmt.Fprintf(b, format, a...) }
	p("import GeomV.C16.GenStrLib\n")
	p("/-! GENERATED by harness/cmd/c16/extract -str (go/ast, statement level) from encoding/shp/shp.go on every run of\n")
	p("`bin/check C16` (pregen hook of checks/C16.py); do not edit. `TieStr.lean` proves every definition here equal to the\n")
	p("model function it is the source of, for all inputs. -/\n")
	p("namespace GeomV.C16.GenStr\nopen GeomV.C16\n\n")
	sigs := []struct{ name, param, ret string }{
		{"shpFieldName2String", "name", "Bytes"},
		{"shpAttributeToFloat", "attr", "Option UInt64 × Bool"},
		{"shpAttributeToInt", "attr", "Option Int × Bool"},
	}
	var errs []string
	for _, sg := range sigs {
		fd := funcDecl(f, sg.name)
		if fd == nil || fd.Type.Params == nil || len(fd.Type.Params.List) != 1 || len(fd.Type.Params.List[0].Names) != 1 {
			errs = append(errs, "function "+sg.name+" not found or with another parameter list")
			p("/-- `%s`: NOT FOUND in the source -/\ndef %s (%s : Bytes) : Except Fault (%s) := .error .index\n\n", sg.name, sg.name, sg.param, sg.ret)
			continue
		}
		param := fd.Type.Params.List[0].Names[0].Name
		t := &strTr{fset: fset, text: text}
		t.stmts(fd.Body.List)
		errs = append(errs, t.errs...)
		p("/-- `%s` -/\n", strings.SplitN(src(fset, fd.Type, text), "\n", 2)[0])
		p("def %s (%s : Bytes) : Except Fault (%s) := do\n%s\n\n", sg.name, param, sg.ret, strings.Join(t.lines, "\n"))
	}
	p("end GeomV.C16.GenStr\n")
	fmt.Print(b.String())
	for _, e := range errs {
		fmt.Fprintln(os.Stderr, e)
	}
}
