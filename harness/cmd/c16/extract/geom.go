// T1 translator for C16: reads <repo>/encoding/shp/shp2geom.go with go/ast and prints
// lean/GeomV/C16/GenGeom.lean — the 2-D geometry <-> shape conversion functions of the CURRENT source,
// translated statement by statement into the vocabulary of lean/GeomV/C16/GenGeomLib.lean.
// lean/GeomV/C16/TieGeom.lean proves the regenerated definitions equal to the hand-written model
// (lean/GeomV/C16/Model.lean), so a source change breaks `lake build` of the tie.
//
//	usage: extract -geom <repo>
//
// A construct outside the translated subset is emitted as `(unsupported "<source text>")`, an
// identifier that does not exist: the generated file then fails to build at that place.
package main

import (
	"fmt"
	"go/ast"
	"go/parser"
	"go/token"
	"go/types"
	"os"
	"path/filepath"
	"sort"
	"strconv"
	"strings"
)

// ---- types ---------------------------------------------------------------------------------------

// canon maps a Go type (source text, pointers stripped) to its structural class
func canon(t string) string {
	t = strings.TrimPrefix(t, "*")
	switch t {
	case "geom.Point", "shp.Point":
		return "P"
	case "[]geom.Point", "[]shp.Point", "geom.Path", "geom.LineString", "geom.MultiPoint":
		return "[]P"
	case "geom.Polygon", "geom.MultiLineString", "[]geom.Path", "[]geom.LineString", "[][]shp.Point", "[][]geom.Point":
		return "[][]P"
	case "[]int32":
		return "[]nat"
	case "int32":
		return "nat"
	case "int":
		return "int"
	case "float64":
		return "coord"
	case "bool":
		return "bool"
	case "shp.Polygon", "shp.PolyLine":
		return "Poly"
	case "shp.MultiPoint":
		return "MPoint"
	case "geom.Bounds":
		return "Bounds"
	case "shp.Null":
		return "Null"
	case "geom.Geom":
		return "Geom"
	case "shp.Shape":
		return "Shape"
	case "error":
		return "error"
	}
	return "?" + t
}

func leanType(t string) string {
	switch canon(t) {
	case "P":
		return "Pt α"
	case "[]P":
		return "List (Pt α)"
	case "[][]P":
		return "List (List (Pt α))"
	case "[]nat":
		return "List Nat"
	case "nat":
		return "Nat"
	case "int":
		return "Int"
	case "coord":
		return "α"
	case "bool":
		return "Bool"
	case "Poly":
		return "PolyS α"
	case "MPoint":
		return "MPointS α"
	case "Bounds":
		return "BoundsS α"
	case "Geom":
		return "Geom α"
	case "Shape":
		return "Shape α"
	}
	return "(unsupportedType " + strconv.Quote(t) + ")"
}

func elemType(t string) string {
	switch canon(t) {
	case "[][]P":
		return "[]shp.Point"
	case "[]P":
		return "shp.Point"
	case "[]nat":
		return "int32"
	}
	return "?elem(" + t + ")"
}

func zeroOf(t string) string {
	switch canon(t) {
	case "P":
		return "(zeroPt : Pt α)"
	case "[]P":
		return "([] : List (Pt α))"
	case "[][]P":
		return "([] : List (List (Pt α)))"
	case "int":
		return "(0 : Int)"
	case "nat":
		return "(0 : Nat)"
	case "MPoint":
		return "(MPointS.zero : MPointS α)"
	}
	return "(unsupportedZero " + strconv.Quote(t) + ")"
}

func fieldType(t, f string) (string, string) { // -> lean projection, type
	switch canon(t) {
	case "Poly":
		switch f {
		case "Parts":
			return "Parts", "[]int32"
		case "Points":
			return "Points", "[]shp.Point"
		}
	case "MPoint":
		if f == "Points" {
			return "Points", "[]shp.Point"
		}
	case "Bounds":
		if f == "Min" || f == "Max" {
			return f, "geom.Point"
		}
	case "P":
		if f == "X" || f == "Y" {
			return strings.ToLower(f), "float64"
		}
	}
	return "", ""
}

// constructors of `Geom α` / `Shape α` by Go type: pattern, payload expression
func geomCtor(t, v string) (pat, payload string, ok bool) {
	switch strings.TrimPrefix(t, "*") {
	case "geom.Point":
		return ".point " + v + "_point", v + "_point", true
	case "geom.MultiPoint":
		return ".multiPoint " + v + "_multiPoint", v + "_multiPoint", true
	case "geom.LineString":
		return ".lineString " + v + "_lineString", v + "_lineString", true
	case "geom.MultiLineString":
		return ".multiLineString " + v + "_multiLineString", v + "_multiLineString", true
	case "geom.Polygon":
		return ".polygon " + v + "_polygon", v + "_polygon", true
	case "geom.MultiPolygon":
		return ".multiPolygon " + v + "_multiPolygon", v + "_multiPolygon", true
	case "geom.GeometryCollection":
		return ".collection " + v + "_collection", v + "_collection", true
	case "geom.Bounds":
		return ".bounds " + v + "_min " + v + "_max", "(⟨" + v + "_min, " + v + "_max⟩ : BoundsS α)", true
	}
	return "", "", false
}

var shapeCtors = []string{"shp.Null", "shp.Point", "shp.PolyLine", "shp.Polygon", "shp.MultiPoint"}

func shapeCtor(t, v string) (pat, payload string, ok bool) {
	switch strings.TrimPrefix(t, "*") {
	case "shp.Null":
		return ".null", "()", true
	case "shp.Point":
		return ".point " + v + "_point", v + "_point", true
	case "shp.PolyLine":
		return ".polyLine " + v + "_parts " + v + "_points", "(⟨" + v + "_parts, " + v + "_points⟩ : PolyS α)", true
	case "shp.Polygon":
		return ".polygon " + v + "_parts " + v + "_points", "(⟨" + v + "_parts, " + v + "_points⟩ : PolyS α)", true
	case "shp.MultiPoint":
		return ".multiPoint " + v + "_points", "(⟨" + v + "_points⟩ : MPointS α)", true
	}
	return "", "", false
}

// ---- translator state ----------------------------------------------------------------------------

type ggen struct {
	fset    *token.FileSet
	text    []byte
	funcs   map[string]*ast.FuncDecl
	usesEq  map[string]bool
	out     *strings.Builder
	extra   []string // generated side definitions (ignored cases, dropped assignments, default texts)
	emitted map[string]bool
}

type payload struct{ typ, lean string }

type fctx struct {
	g      *ggen
	fd     *ast.FuncDecl
	env    map[string]string
	res    []string // result types without `error`
	hasErr bool
	named  []string
	tmp    int
	pre    []string
	assert map[string]payload
	drops  []string
}

func (g *ggen) src(n ast.Node) string {
	return string(g.text[g.fset.Position(n.Pos()).Offset:g.fset.Position(n.End()).Offset])
}

func oneLine(s string) string { return strings.Join(strings.Fields(s), " ") }

func (c *fctx) unsupported(n ast.Node) string {
	t := oneLine(c.g.src(n))
	fmt.Fprintf(os.Stderr, "c16 extract -geom: %s: outside the translated subset: %s\n", c.fd.Name.Name, t)
	return "(unsupported " + strconv.Quote(t) + ")"
}

var leanKeywords = map[string]bool{"end": true, "at": true, "from": true, "have": true, "show": true, "fun": true, "do": true,
	"then": true, "else": true, "if": true, "let": true, "in": true, "match": true, "with": true, "open": true, "def": true,
	"where": true, "by": true, "mut": true, "for": true, "return": true, "structure": true, "instance": true, "namespace": true,
	"section": true, "variable": true, "theorem": true, "example": true, "eq": true, "zero": true}

func lname(s string) string {
	if leanKeywords[s] {
		return s + "_"
	}
	return s
}

func (c *fctx) fresh() string { c.tmp++; return fmt.Sprintf("x%d", c.tmp) }

func (c *fctx) bind(rhs string) string {
	v := c.fresh()
	c.pre = append(c.pre, "let "+v+" ← "+rhs)
	return v
}

func (c *fctx) flush() []string { p := c.pre; c.pre = nil; return p }

func indent(ls []string) []string {
	o := make([]string, len(ls))
	for i, l := range ls {
		o[i] = "    " + l
	}
	return o
}

func copyEnv(m map[string]string) map[string]string {
	o := map[string]string{}
	for k, v := range m {
		o[k] = v
	}
	return o
}

// ---- expressions ---------------------------------------------------------------------------------

func typeStr(e ast.Expr) string { return types.ExprString(e) }

func isNilIdent(e ast.Expr) bool { id, ok := e.(*ast.Ident); return ok && id.Name == "nil" }

// ex translates e; monadic sub-expressions are bound in c.pre. want is the expected type ("" if unknown)
func (c *fctx) ex(e ast.Expr, want string) (string, string) {
	switch v := e.(type) {
	case *ast.ParenExpr:
		return c.ex(v.X, want)
	case *ast.BasicLit:
		if v.Kind == token.INT {
			return "(" + v.Value + " : Int)", "int"
		}
		if v.Kind == token.STRING {
			return v.Value, "string"
		}
	case *ast.Ident:
		switch v.Name {
		case "nil":
			if canon(want) == "Geom" {
				return "Geom.nil", "geom.Geom"
			}
			return c.unsupported(e), want
		case "true", "false":
			return v.Name, "bool"
		case "FixOrientation":
			return "FixOrientation", "bool"
		}
		if t, ok := c.env[v.Name]; ok {
			return lname(v.Name), t
		}
	case *ast.StarExpr:
		s, t := c.ex(v.X, want)
		return s, strings.TrimPrefix(t, "*")
	case *ast.UnaryExpr:
		switch v.Op {
		case token.AND:
			s, t := c.ex(v.X, want)
			return s, "*" + t
		case token.NOT:
			s, _ := c.ex(v.X, "bool")
			return "(!" + s + ")", "bool"
		case token.SUB:
			s, t := c.ex(v.X, want)
			return "(-" + s + ")", t
		}
	case *ast.BinaryExpr:
		return c.binary(v)
	case *ast.IndexExpr:
		a, t := c.ex(v.X, "")
		i, _ := c.ex(v.Index, "int")
		return c.bind("idx " + a + " " + i), elemType(t)
	case *ast.SelectorExpr:
		a, t := c.ex(v.X, "")
		if p, ft := fieldType(t, v.Sel.Name); p != "" {
			return a + "." + p, ft
		}
	case *ast.TypeAssertExpr:
		if id, ok := v.X.(*ast.Ident); ok && v.Type != nil {
			if p, ok := c.assert[id.Name]; ok && strings.TrimPrefix(p.typ, "*") == strings.TrimPrefix(typeStr(v.Type), "*") {
				return p.lean, typeStr(v.Type)
			}
		}
	case *ast.CompositeLit:
		return c.composite(v, want)
	case *ast.CallExpr:
		return c.call(v, want)
	}
	return c.unsupported(e), want
}

func (c *fctx) binary(v *ast.BinaryExpr) (string, string) {
	switch v.Op {
	case token.LAND, token.LOR:
		a, _ := c.ex(v.X, "bool")
		old := c.pre
		c.pre = nil
		b, _ := c.ex(v.Y, "bool")
		rhsPre := c.pre
		c.pre = old
		if len(rhsPre) == 0 {
			if v.Op == token.LAND {
				return "(" + a + " && " + b + ")", "bool"
			}
			return "(" + a + " || " + b + ")", "bool"
		}
		// short circuit: the right operand is evaluated (and may fault) only when needed
		x := c.fresh()
		var ls []string
		if v.Op == token.LAND {
			ls = append(ls, "let "+x+" ← (if "+a+" then (do")
		} else {
			ls = append(ls, "let "+x+" ← (if (!"+a+") then (do")
		}
		ls = append(ls, indent(rhsPre)...)
		ls = append(ls, "    pure "+b+")")
		if v.Op == token.LAND {
			ls = append(ls, "  else pure false)")
		} else {
			ls = append(ls, "  else pure true)")
		}
		c.pre = append(c.pre, ls...)
		return x, "bool"
	case token.ADD, token.SUB, token.MUL:
		a, ta := c.ex(v.X, "int")
		b, _ := c.ex(v.Y, "int")
		if canon(ta) != "int" {
			return c.unsupported(v), "int"
		}
		return "(" + a + " " + v.Op.String() + " " + b + ")", "int"
	case token.EQL, token.NEQ, token.LSS, token.LEQ, token.GTR, token.GEQ:
		if isNilIdent(v.Y) && (v.Op == token.EQL || v.Op == token.NEQ) {
			a, ta := c.ex(v.X, "")
			if canon(ta) == "Geom" {
				if v.Op == token.EQL {
					return "(isNilGeom " + a + ")", "bool"
				}
				return "(!isNilGeom " + a + ")", "bool"
			}
			return c.unsupported(v), "bool"
		}
		a, ta := c.ex(v.X, "int")
		b, tb := c.ex(v.Y, "int")
		if canon(ta) != "int" || canon(tb) != "int" {
			return c.unsupported(v), "bool"
		}
		op := map[token.Token]string{token.EQL: "=", token.NEQ: "≠", token.LSS: "<", token.LEQ: "≤", token.GTR: ">", token.GEQ: "≥"}[v.Op]
		return "decide (" + a + " " + op + " " + b + ")", "bool"
	}
	return c.unsupported(v), ""
}

func (c *fctx) composite(v *ast.CompositeLit, want string) (string, string) {
	t := want
	if v.Type != nil {
		t = typeStr(v.Type)
	}
	switch canon(t) {
	case "Null":
		if len(v.Elts) == 0 {
			return "()", t
		}
	case "P":
		var x, y string
		for i, el := range v.Elts {
			if kv, ok := el.(*ast.KeyValueExpr); ok {
				s, _ := c.ex(kv.Value, "float64")
				switch typeStr(kv.Key) {
				case "X":
					x = s
				case "Y":
					y = s
				default:
					return c.unsupported(v), t
				}
			} else {
				s, _ := c.ex(el, "float64")
				if i == 0 {
					x = s
				} else if i == 1 {
					y = s
				} else {
					return c.unsupported(v), t
				}
			}
		}
		if x == "" || y == "" {
			return c.unsupported(v), t
		}
		return "(⟨" + x + ", " + y + "⟩ : Pt α)", t
	case "[]P", "[][]P":
		var parts []string
		for _, el := range v.Elts {
			if _, ok := el.(*ast.KeyValueExpr); ok {
				return c.unsupported(v), t
			}
			s, _ := c.ex(el, elemType(t))
			parts = append(parts, s)
		}
		return "([" + strings.Join(parts, ", ") + "] : " + leanType(t) + ")", t
	}
	return c.unsupported(v), t
}

func (c *fctx) call(v *ast.CallExpr, want string) (string, string) {
	fn := typeStr(v.Fun)
	switch fn {
	case "len":
		a, t := c.ex(v.Args[0], "")
		if strings.HasPrefix(canon(t), "[]") {
			return "(len " + a + ")", "int"
		}
		return c.unsupported(v), "int"
	case "int":
		a, t := c.ex(v.Args[0], "")
		switch canon(t) {
		case "nat":
			return "(Int.ofNat " + a + ")", "int"
		case "int":
			return a, "int"
		}
		return c.unsupported(v), "int"
	case "make":
		t := typeStr(v.Args[0])
		if !strings.HasPrefix(canon(t), "[]") || len(v.Args) < 2 {
			return c.unsupported(v), t
		}
		n, _ := c.ex(v.Args[1], "int")
		if len(v.Args) == 3 {
			cp, _ := c.ex(v.Args[2], "int")
			return c.bind("mkCap " + zeroOf(elemType(t)) + " " + n + " " + cp), t
		}
		return c.bind("mk " + zeroOf(elemType(t)) + " " + n), t
	case "new":
		t := typeStr(v.Args[0])
		return zeroOf(t), "*" + t
	case "append":
		if len(v.Args) == 2 && v.Ellipsis == token.NoPos {
			a, t := c.ex(v.Args[0], want)
			b, _ := c.ex(v.Args[1], elemType(t))
			return "(" + a + " ++ [" + b + "])", t
		}
	case "geom.Point", "shp.Point", "shp.Polygon", "shp.PolyLine", "geom.Polygon", "geom.MultiLineString", "geom.MultiPoint",
		"geom.LineString", "geom.Path":
		// conversion between types of the same structure
		a, t := c.ex(v.Args[0], fn)
		if canon(t) == canon(fn) {
			return a, fn
		}
		return c.unsupported(v), fn
	case "shp.NewPolyLine":
		a, t := c.ex(v.Args[0], "[][]shp.Point")
		if canon(t) == "[][]P" {
			return "(newPolyLineS " + a + ")", "*shp.PolyLine"
		}
	}
	if sel, ok := v.Fun.(*ast.SelectorExpr); ok && sel.Sel.Name == "Equals" && len(v.Args) == 1 {
		a, ta := c.ex(sel.X, "")
		b, tb := c.ex(v.Args[0], "")
		if canon(ta) == "P" && canon(tb) == "P" {
			return "(eq " + a + " " + b + ")", "bool"
		}
	}
	if id, ok := v.Fun.(*ast.Ident); ok {
		if fd, ok := c.g.funcs[id.Name]; ok {
			c.g.emitFunc(id.Name)
			args := ""
			if c.g.usesEq[id.Name] {
				args = " eq"
			}
			i := 0
			for _, f := range fd.Type.Params.List {
				for range f.Names {
					a, _ := c.ex(v.Args[i], strings.TrimPrefix(typeStr(f.Type), "*"))
					args += " " + a
					i++
				}
			}
			res, _ := resultTypes(fd)
			return c.bind(lname(id.Name) + args), strings.Join(res, ",")
		}
	}
	return c.unsupported(v), want
}

func resultTypes(fd *ast.FuncDecl) (res []string, hasErr bool) {
	if fd.Type.Results == nil {
		return nil, false
	}
	for _, f := range fd.Type.Results.List {
		n := len(f.Names)
		if n == 0 {
			n = 1
		}
		for i := 0; i < n; i++ {
			t := typeStr(f.Type)
			if t == "error" {
				hasErr = true
			} else {
				res = append(res, t)
			}
		}
	}
	return
}

// ---- statements ----------------------------------------------------------------------------------

// wrap injects a value of Go type t into the interface type want
func (c *fctx) wrap(s, t, want string, n ast.Node) string {
	if canon(want) == canon(t) || canon(t) == "Geom" || canon(t) == "Shape" {
		return s
	}
	switch canon(want) {
	case "Geom":
		switch strings.TrimPrefix(t, "*") {
		case "geom.Point":
			return "(Geom.point " + s + ")"
		case "geom.MultiPoint":
			return "(Geom.multiPoint " + s + ")"
		case "geom.LineString":
			return "(Geom.lineString " + s + ")"
		case "geom.MultiLineString":
			return "(Geom.multiLineString " + s + ")"
		case "geom.Polygon":
			return "(Geom.polygon " + s + ")"
		}
	case "Shape":
		if !strings.HasPrefix(t, "*") {
			break // only pointers to go-shp structs implement shp.Shape
		}
		switch strings.TrimPrefix(t, "*") {
		case "shp.Null":
			return "Shape.null"
		case "shp.Point":
			return "(Shape.point " + s + ")"
		case "shp.Polygon":
			return "(Shape.polygon " + s + ".Parts " + s + ".Points)"
		case "shp.PolyLine":
			return "(Shape.polyLine " + s + ".Parts " + s + ".Points)"
		case "shp.MultiPoint":
			return "(Shape.multiPoint " + s + ".Points)"
		}
	}
	return c.unsupported(n)
}

func tuple(vs []string) string {
	if len(vs) == 1 {
		return vs[0]
	}
	return "(" + strings.Join(vs, ", ") + ")"
}

func (c *fctx) ret(s *ast.ReturnStmt) []string {
	if len(s.Results) == 0 {
		var vs []string
		for _, n := range c.named {
			vs = append(vs, lname(n))
		}
		return []string{"pure " + tuple(vs)}
	}
	rs := s.Results
	if c.hasErr {
		e := rs[len(rs)-1]
		rs = rs[:len(rs)-1]
		if !isNilIdent(e) {
			if call, ok := e.(*ast.CallExpr); ok && typeStr(call.Fun) == "fmt.Errorf" && len(call.Args) > 0 {
				if l, ok := call.Args[0].(*ast.BasicLit); ok {
					return []string{"errorf " + l.Value}
				}
			}
			return []string{c.unsupported(s)}
		}
	}
	if len(rs) != len(c.res) {
		return []string{c.unsupported(s)}
	}
	var vs []string
	for i, r := range rs {
		a, t := c.ex(r, c.res[i])
		vs = append(vs, c.wrap(a, t, c.res[i], r))
	}
	return append(c.flush(), "pure "+tuple(vs))
}

// lvalue path: root identifier and the selectors / indices below it
type step struct {
	field string   // field name, or
	index ast.Expr // index expression
}

func lpath(e ast.Expr) (string, []step, bool) {
	switch v := e.(type) {
	case *ast.Ident:
		return v.Name, nil, true
	case *ast.IndexExpr:
		r, p, ok := lpath(v.X)
		return r, append(p, step{index: v.Index}), ok
	case *ast.SelectorExpr:
		r, p, ok := lpath(v.X)
		return r, append(p, step{field: v.Sel.Name}), ok
	case *ast.ParenExpr:
		return lpath(v.X)
	}
	return "", nil, false
}

var droppedFields = map[string]bool{"Box": true, "NumPoints": true, "NumParts": true}

// assign translates `lhs = rhs` for one lvalue; returns the statements
func (c *fctx) assign(lhs ast.Expr, rhs ast.Expr, node ast.Node) []string {
	root, path, ok := lpath(lhs)
	if !ok {
		return []string{c.unsupported(node)}
	}
	rt, declared := c.env[root]
	if !declared {
		return []string{c.unsupported(node)}
	}
	if len(path) == 1 && path[0].field != "" && droppedFields[path[0].field] && (canon(rt) == "MPoint" || canon(rt) == "Poly") {
		c.drops = append(c.drops, oneLine(c.g.src(node)))
		return nil
	}
	if len(path) == 0 {
		a, _ := c.ex(rhs, rt)
		return append(c.flush(), "let "+lname(root)+" := "+a)
	}
	// read down the path
	type node_ struct{ lean, typ, idx, field string }
	cur := node_{lean: lname(root), typ: rt}
	var nodes []node_
	for k, st := range path {
		n := cur
		if st.field != "" {
			p, ft := fieldType(cur.typ, st.field)
			if p == "" {
				return []string{c.unsupported(node)}
			}
			n.field = p
			nodes = append(nodes, n)
			cur = node_{lean: cur.lean + "." + p, typ: ft}
		} else {
			i, _ := c.ex(st.index, "int")
			n.idx = i
			nodes = append(nodes, n)
			if k < len(path)-1 {
				cur = node_{lean: c.bind("idx " + cur.lean + " " + i), typ: elemType(cur.typ)}
			} else {
				cur = node_{typ: elemType(cur.typ)}
			}
		}
	}
	val, _ := c.ex(rhs, cur.typ)
	out := c.flush()
	// write back up
	for k := len(nodes) - 1; k >= 0; k-- {
		n := nodes[k]
		target := c.fresh()
		if k == 0 {
			target = lname(root)
			c.tmp--
		}
		if n.field != "" {
			out = append(out, "let "+target+" := { "+n.lean+" with "+n.field+" := "+val+" }")
		} else {
			out = append(out, "let "+target+" ← setAt "+n.lean+" "+n.idx+" "+val)
		}
		val = target
	}
	return out
}

// assigned collects the root identifiers assigned in n (in order of first appearance) and the ones declared in n
func assigned(n ast.Node) (as []string, decl map[string]bool) {
	decl = map[string]bool{}
	seen := map[string]bool{}
	add := func(e ast.Expr) {
		if r, _, ok := lpath(e); ok && !seen[r] {
			seen[r] = true
			as = append(as, r)
		}
	}
	ast.Inspect(n, func(x ast.Node) bool {
		switch s := x.(type) {
		case *ast.AssignStmt:
			for _, l := range s.Lhs {
				if id, ok := l.(*ast.Ident); ok && s.Tok == token.DEFINE {
					decl[id.Name] = true
				} else {
					add(l)
				}
			}
		case *ast.IncDecStmt:
			add(s.X)
		case *ast.RangeStmt:
			for _, e := range []ast.Expr{s.Key, s.Value} {
				if id, ok := e.(*ast.Ident); ok && s.Tok == token.DEFINE {
					decl[id.Name] = true
				}
			}
		case *ast.DeclStmt:
			if gd, ok := s.Decl.(*ast.GenDecl); ok {
				for _, sp := range gd.Specs {
					if vs, ok := sp.(*ast.ValueSpec); ok {
						for _, nm := range vs.Names {
							decl[nm.Name] = true
						}
					}
				}
			}
		case *ast.ExprStmt:
			// op.FixOrientation(pg) writes its argument in place
			if call, ok := s.X.(*ast.CallExpr); ok && typeStr(call.Fun) == "op.FixOrientation" && len(call.Args) == 1 {
				add(call.Args[0])
			}
		}
		return true
	})
	return
}

// state = variables assigned in n that are visible outside it
func (c *fctx) state(n ast.Node) []string {
	as, decl := assigned(n)
	var st []string
	for _, a := range as {
		if _, ok := c.env[a]; ok && !decl[a] {
			st = append(st, a)
		}
	}
	return st
}

func lnames(vs []string) []string {
	o := make([]string, len(vs))
	for i, v := range vs {
		o[i] = lname(v)
	}
	return o
}

func mentions(e ast.Expr, names map[string]bool) bool {
	found := false
	ast.Inspect(e, func(x ast.Node) bool {
		if id, ok := x.(*ast.Ident); ok && names[id.Name] {
			found = true
		}
		return true
	})
	return found
}

func endsWithReturn(b *ast.BlockStmt) bool {
	if len(b.List) == 0 {
		return false
	}
	_, ok := b.List[len(b.List)-1].(*ast.ReturnStmt)
	return ok
}

func hasReturn(n ast.Node) bool {
	f := false
	ast.Inspect(n, func(x ast.Node) bool {
		if _, ok := x.(*ast.ReturnStmt); ok {
			f = true
		}
		return true
	})
	return f
}

// block translates a nested block with its own scope; tail is emitted where control falls off its end
func (c *fctx) block(list []ast.Stmt, tail []string) []string {
	saved := c.env
	c.env = copyEnv(saved)
	out := c.stmts(list, tail)
	c.env = saved
	return out
}

func (c *fctx) stmts(list []ast.Stmt, tail []string) []string {
	if len(list) == 0 {
		return tail
	}
	rest := list[1:]
	switch s := list[0].(type) {
	case *ast.ReturnStmt:
		return c.ret(s)
	case *ast.IfStmt:
		if s.Init != nil {
			return []string{c.unsupported(s)}
		}
		cond, _ := c.ex(s.Cond, "bool")
		out := c.flush()
		if s.Else == nil && endsWithReturn(s.Body) {
			// if c { …; return … }; rest
			out = append(out, "if "+cond+" then do")
			out = append(out, indent(c.block(s.Body.List, nil))...)
			out = append(out, "else do")
			out = append(out, indent(c.stmts(rest, tail))...)
			return out
		}
		if hasReturn(s) {
			return []string{c.unsupported(s)}
		}
		st := c.state(s)
		if len(st) == 0 {
			return append(out, c.stmts(rest, tail)...) // no effect on the variables
		}
		tup := tuple(lnames(st))
		out = append(out, "let "+tup+" ← (if "+cond+" then (do")
		out = append(out, indent(c.block(s.Body.List, []string{"pure " + tup + ")"}))...)
		switch e := s.Else.(type) {
		case nil:
			out = append(out, "  else pure "+tup+")")
		case *ast.BlockStmt:
			out = append(out, "  else (do")
			out = append(out, indent(c.block(e.List, []string{"pure " + tup + "))"}))...)
		default:
			return []string{c.unsupported(s)}
		}
		return append(out, c.stmts(rest, tail)...)
	case *ast.ForStmt:
		return append(c.forStmt(s), c.stmts(rest, tail)...)
	case *ast.RangeStmt:
		return append(c.rangeStmt(s), c.stmts(rest, tail)...)
	case *ast.SwitchStmt:
		if len(rest) == 0 {
			return c.reflectSwitch(s)
		}
	case *ast.TypeSwitchStmt:
		if len(rest) == 0 {
			return c.typeSwitch(s)
		}
	case *ast.DeclStmt:
		if gd, ok := s.Decl.(*ast.GenDecl); ok && gd.Tok == token.VAR {
			var out []string
			for _, sp := range gd.Specs {
				vs := sp.(*ast.ValueSpec)
				if vs.Type == nil || len(vs.Names) != 1 || len(vs.Values) > 1 {
					return []string{c.unsupported(s)}
				}
				t := typeStr(vs.Type)
				val := zeroOf(t)
				if len(vs.Values) == 1 {
					a, ta := c.ex(vs.Values[0], t)
					if canon(ta) != canon(t) {
						return []string{c.unsupported(s)}
					}
					val = a
				}
				out = append(out, c.flush()...)
				out = append(out, "let "+lname(vs.Names[0].Name)+" : "+leanType(t)+" := "+val)
				c.env[vs.Names[0].Name] = t
			}
			return append(out, c.stmts(rest, tail)...)
		}
	case *ast.AssignStmt:
		return append(c.assignStmt(s), c.stmts(rest, tail)...)
	case *ast.ExprStmt:
		if call, ok := s.X.(*ast.CallExpr); ok && typeStr(call.Fun) == "op.FixOrientation" && len(call.Args) == 1 {
			if id, ok := call.Args[0].(*ast.Ident); ok && canon(c.env[id.Name]) == "[][]P" {
				return append([]string{"let " + lname(id.Name) + " := opFixOrientation " + lname(id.Name)}, c.stmts(rest, tail)...)
			}
		}
	}
	return []string{c.unsupported(list[0])}
}

func (c *fctx) assignStmt(s *ast.AssignStmt) []string {
	if s.Tok != token.DEFINE && s.Tok != token.ASSIGN {
		return []string{c.unsupported(s)}
	}
	// a, b := f(…)
	if len(s.Lhs) > 1 && len(s.Rhs) == 1 {
		a, t := c.ex(s.Rhs[0], "")
		ts := strings.Split(t, ",")
		if len(ts) != len(s.Lhs) {
			return []string{c.unsupported(s)}
		}
		out := c.flush()
		for i, l := range s.Lhs {
			id, ok := l.(*ast.Ident)
			if !ok {
				return []string{c.unsupported(s)}
			}
			proj := ".2"
			if i < len(s.Lhs)-1 {
				proj = strings.Repeat(".2", i) + ".1"
			} else {
				proj = strings.Repeat(".2", i)
			}
			if id.Name == "_" {
				continue
			}
			out = append(out, "let "+lname(id.Name)+" := "+a+proj)
			c.env[id.Name] = ts[i]
		}
		return out
	}
	if len(s.Lhs) != 1 || len(s.Rhs) != 1 {
		return []string{c.unsupported(s)}
	}
	if id, ok := s.Lhs[0].(*ast.Ident); ok && s.Tok == token.DEFINE {
		a, t := c.ex(s.Rhs[0], "")
		c.env[id.Name] = t
		return append(c.flush(), "let "+lname(id.Name)+" := "+a)
	}
	return c.assign(s.Lhs[0], s.Rhs[0], s)
}

func (c *fctx) forStmt(s *ast.ForStmt) []string {
	init, ok1 := s.Init.(*ast.AssignStmt)
	post, ok2 := s.Post.(*ast.IncDecStmt)
	cond, ok3 := s.Cond.(*ast.BinaryExpr)
	if !ok1 || !ok2 || !ok3 || init.Tok != token.DEFINE || len(init.Lhs) != 1 || len(init.Rhs) != 1 {
		return []string{c.unsupported(s)}
	}
	v, okv := init.Lhs[0].(*ast.Ident)
	pv, okp := post.X.(*ast.Ident)
	cv, okc := cond.X.(*ast.Ident)
	if !okv || !okp || !okc || pv.Name != v.Name || cv.Name != v.Name {
		return []string{c.unsupported(s)}
	}
	// the body must assign neither the counter nor a variable of the bound
	as, _ := assigned(s.Body)
	asSet := map[string]bool{}
	for _, a := range as {
		asSet[a] = true
	}
	if asSet[v.Name] || mentions(cond.Y, asSet) || mentions(cond.Y, map[string]bool{v.Name: true}) {
		return []string{c.unsupported(s)}
	}
	a, _ := c.ex(init.Rhs[0], "int")
	b, tb := c.ex(cond.Y, "int")
	if canon(tb) != "int" {
		return []string{c.unsupported(s)}
	}
	var comb string
	switch {
	case post.Tok == token.INC && cond.Op == token.LSS:
		comb = "forUp " + a + " " + b
	case post.Tok == token.INC && cond.Op == token.LEQ:
		comb = "forUp " + a + " (" + b + " + 1)"
	case post.Tok == token.DEC && cond.Op == token.GEQ:
		comb = "forDown " + a + " " + b
	case post.Tok == token.DEC && cond.Op == token.GTR:
		comb = "forDown " + a + " (" + b + " + 1)"
	default:
		return []string{c.unsupported(s)}
	}
	out := c.flush()
	st := c.state(s.Body)
	if len(st) == 0 {
		return append(out, c.unsupported(s))
	}
	tup := tuple(lnames(st))
	saved := c.env
	c.env = copyEnv(saved)
	c.env[v.Name] = "int"
	out = append(out, "let "+tup+" ← "+comb+" "+tup+" (fun "+lname(v.Name)+" "+tup+" => do")
	out = append(out, indent(c.stmts(s.Body.List, []string{"pure " + tup + ")"}))...)
	c.env = saved
	return out
}

func (c *fctx) rangeStmt(s *ast.RangeStmt) []string {
	if s.Tok != token.DEFINE || hasReturn(s.Body) {
		return []string{c.unsupported(s)}
	}
	k, ok1 := s.Key.(*ast.Ident)
	val, ok2 := s.Value.(*ast.Ident)
	if !ok1 || !ok2 {
		return []string{c.unsupported(s)}
	}
	xs, t := c.ex(s.X, "")
	if !strings.HasPrefix(canon(t), "[]") {
		return []string{c.unsupported(s)}
	}
	as, _ := assigned(s.Body)
	for _, a := range as {
		if a == k.Name || a == val.Name {
			return []string{c.unsupported(s)}
		}
	}
	out := c.flush()
	st := c.state(s.Body)
	if len(st) == 0 {
		return append(out, c.unsupported(s))
	}
	tup := tuple(lnames(st))
	saved := c.env
	c.env = copyEnv(saved)
	kn, vn := "_", "_"
	if k.Name != "_" {
		c.env[k.Name] = "int"
		kn = lname(k.Name)
	}
	if val.Name != "_" {
		c.env[val.Name] = elemType(t)
		vn = lname(val.Name)
	}
	out = append(out, "let "+tup+" ← forRange "+xs+" "+tup+" (fun "+kn+" "+vn+" "+tup+" => do")
	out = append(out, indent(c.stmts(s.Body.List, []string{"pure " + tup + ")"}))...)
	c.env = saved
	return out
}

// switch t := reflect.TypeOf(s); { case t == reflect.TypeOf(&shp.X{}): … }  ->  match s with | .x … => …
func (c *fctx) reflectSwitch(s *ast.SwitchStmt) []string {
	init, ok := s.Init.(*ast.AssignStmt)
	if !ok || s.Tag != nil || len(init.Lhs) != 1 || len(init.Rhs) != 1 {
		return []string{c.unsupported(s)}
	}
	tv, ok1 := init.Lhs[0].(*ast.Ident)
	call, ok2 := init.Rhs[0].(*ast.CallExpr)
	if !ok1 || !ok2 || typeStr(call.Fun) != "reflect.TypeOf" || len(call.Args) != 1 {
		return []string{c.unsupported(s)}
	}
	subj, ok := call.Args[0].(*ast.Ident)
	if !ok || canon(c.env[subj.Name]) != "Shape" {
		return []string{c.unsupported(s)}
	}
	fname := c.fd.Name.Name
	out := []string{"match " + lname(subj.Name) + " with"}
	covered := map[string]bool{}
	var ignored []string
	var deflt *ast.CaseClause
	for _, st := range s.Body.List {
		cc := st.(*ast.CaseClause)
		if cc.List == nil {
			deflt = cc
			continue
		}
		typ := ""
		if len(cc.List) == 1 {
			if be, ok := cc.List[0].(*ast.BinaryExpr); ok && be.Op == token.EQL && typeStr(be.X) == tv.Name {
				if tc, ok := be.Y.(*ast.CallExpr); ok && typeStr(tc.Fun) == "reflect.TypeOf" && len(tc.Args) == 1 {
					if u, ok := tc.Args[0].(*ast.UnaryExpr); ok && u.Op == token.AND {
						if cl, ok := u.X.(*ast.CompositeLit); ok && len(cl.Elts) == 0 {
							typ = typeStr(cl.Type)
						}
					}
				}
			}
		}
		body := make([]string, len(cc.Body))
		for i, b := range cc.Body {
			body[i] = oneLine(c.g.src(b))
		}
		pat, pl, ok := shapeCtor(typ, lname(subj.Name))
		if typ == "" {
			out = append(out, c.unsupported(cc))
			continue
		}
		if !ok || covered[typ] {
			// a shape type outside the model (M/Z variants), or a case that can never be reached
			ignored = append(ignored, typ+": "+strings.Join(body, "; "))
			continue
		}
		covered[typ] = true
		out = append(out, "| "+pat+" => do")
		c.assert = map[string]payload{subj.Name: {typ: typ, lean: pl}}
		out = append(out, indent(c.block(cc.Body, nil))...)
		c.assert = nil
	}
	all := true
	for _, t := range shapeCtors {
		if !covered[t] {
			all = false
		}
	}
	dtext := "(no default)"
	if deflt != nil {
		body := make([]string, len(deflt.Body))
		for i, b := range deflt.Body {
			body[i] = oneLine(c.g.src(b))
		}
		dtext = strings.Join(body, "; ")
	}
	if !all {
		if deflt == nil {
			out = append(out, "| _ => "+c.unsupported(s.Body))
		} else {
			out = append(out, "| _ => do")
			out = append(out, indent(c.block(deflt.Body, nil))...)
		}
	}
	c.g.extra = append(c.g.extra,
		fmt.Sprintf("/-- `%s`: cases of shape types outside the model (not translated), in source order -/\ndef %s_ignoredCases : List String := [\n  %s]",
			fname, fname, strings.Join(quoteAll(ignored), ",\n  ")),
		fmt.Sprintf("/-- `%s`: the `default:` clause (reached by no shape of the model when all five 2-D types have a case: %v) -/\ndef %s_default : String := %s",
			fname, all, fname, strconv.Quote(dtext)))
	return out
}

func quoteAll(ss []string) []string {
	o := make([]string, len(ss))
	for i, s := range ss {
		o[i] = strconv.Quote(s)
	}
	return o
}

// switch t := g.(type) { case geom.X: … }  ->  match g with | .x g_x => …
func (c *fctx) typeSwitch(s *ast.TypeSwitchStmt) []string {
	if s.Init != nil {
		return []string{c.unsupported(s)}
	}
	var ta *ast.TypeAssertExpr
	switch a := s.Assign.(type) {
	case *ast.AssignStmt:
		if len(a.Rhs) == 1 {
			ta, _ = a.Rhs[0].(*ast.TypeAssertExpr)
		}
	case *ast.ExprStmt:
		ta, _ = a.X.(*ast.TypeAssertExpr)
	}
	if ta == nil {
		return []string{c.unsupported(s)}
	}
	subj, ok := ta.X.(*ast.Ident)
	if !ok || canon(c.env[subj.Name]) != "Geom" {
		return []string{c.unsupported(s)}
	}
	out := []string{"match " + lname(subj.Name) + " with"}
	covered := map[string]bool{}
	var deflt *ast.CaseClause
	for _, st := range s.Body.List {
		cc := st.(*ast.CaseClause)
		if cc.List == nil {
			deflt = cc
			continue
		}
		if len(cc.List) != 1 {
			out = append(out, c.unsupported(cc))
			continue
		}
		typ := typeStr(cc.List[0])
		pat, pl, ok := geomCtor(typ, lname(subj.Name))
		// geom.Bounds implements Geom through its pointer only
		if !ok || covered[typ] || (strings.TrimPrefix(typ, "*") == "geom.Bounds") != strings.HasPrefix(typ, "*") {
			out = append(out, c.unsupported(cc))
			continue
		}
		covered[typ] = true
		out = append(out, "| "+pat+" => do")
		c.assert = map[string]payload{subj.Name: {typ: typ, lean: pl}}
		out = append(out, indent(c.block(cc.Body, nil))...)
		c.assert = nil
	}
	if deflt == nil {
		out = append(out, "| _ => "+c.unsupported(s.Body))
	} else {
		out = append(out, "| _ => do")
		out = append(out, indent(c.block(deflt.Body, nil))...)
	}
	return out
}

// ---- functions -----------------------------------------------------------------------------------

func (g *ggen) emitFunc(name string) {
	if g.emitted[name] {
		return
	}
	g.emitted[name] = true
	fd := g.funcs[name]
	c := &fctx{g: g, fd: fd, env: map[string]string{}}
	c.res, c.hasErr = resultTypes(fd)
	params := ""
	if g.usesEq[name] {
		params += " (eq : Pt α → Pt α → Bool)"
	}
	for _, f := range fd.Type.Params.List {
		for _, n := range f.Names {
			t := typeStr(f.Type)
			c.env[n.Name] = t
			params += " (" + lname(n.Name) + " : " + leanType(t) + ")"
		}
	}
	var body []string
	if fd.Type.Results != nil {
		for _, f := range fd.Type.Results.List {
			for _, n := range f.Names {
				t := typeStr(f.Type)
				c.named = append(c.named, n.Name)
				c.env[n.Name] = t
				body = append(body, "let "+lname(n.Name)+" : "+leanType(t)+" := "+zeroOf(t))
			}
		}
	}
	body = append(body, c.stmts(fd.Body.List, nil)...) // callees are emitted first (emitFunc from call)
	rts := make([]string, len(c.res))
	for i, t := range c.res {
		rts[i] = leanType(t)
	}
	rt := strings.Join(rts, " × ")
	if len(rts) == 0 {
		rt = "Unit"
	}
	sig := oneLine(g.src(fd.Type))
	fmt.Fprintf(g.out, "/-- `%s` -/\ndef %s%s : M (%s) := do\n", sig, lname(name), params, rt)
	for _, l := range body {
		fmt.Fprintf(g.out, "  %s\n", l)
	}
	fmt.Fprintln(g.out)
	if len(c.drops) > 0 {
		g.extra = append(g.extra, fmt.Sprintf("/-- `%s`: assignments to go-shp fields that are functions of the rest (not stored in the model) -/\ndef %s_droppedAssignments : List String := [%s]",
			name, name, strings.Join(quoteAll(c.drops), ", ")))
	}
}

// calls of local functions and uses of Point.Equals inside fd
func (g *ggen) scanCalls(fd *ast.FuncDecl) (callees []string, eq bool) {
	ast.Inspect(fd.Body, func(x ast.Node) bool {
		if call, ok := x.(*ast.CallExpr); ok {
			if id, ok := call.Fun.(*ast.Ident); ok {
				if _, ok := g.funcs[id.Name]; ok {
					callees = append(callees, id.Name)
				}
			}
			if sel, ok := call.Fun.(*ast.SelectorExpr); ok && sel.Sel.Name == "Equals" {
				eq = true
			}
		}
		return true
	})
	return
}

func geomMain(repo string) {
	path := filepath.Join(repo, "encoding", "shp", "shp2geom.go")
	text, err := os.ReadFile(path)
	if err != nil {
		fmt.Fprintln(os.Stderr, err)
		os.Exit(1)
	}
	fset := token.NewFileSet()
	f, err := parser.ParseFile(fset, path, text, 0)
	if err != nil {
		fmt.Fprintln(os.Stderr, err)
		os.Exit(1)
	}
	g := &ggen{fset: fset, text: text, funcs: map[string]*ast.FuncDecl{}, usesEq: map[string]bool{}, out: &strings.Builder{}, emitted: map[string]bool{}}
	fixOrientation := "(unsupported \"var FixOrientation not found\")"
	var allFuncs []string
	for _, d := range f.Decls {
		switch v := d.(type) {
		case *ast.FuncDecl:
			if v.Recv == nil && v.Body != nil {
				g.funcs[v.Name.Name] = v
				allFuncs = append(allFuncs, v.Name.Name)
			}
		case *ast.GenDecl:
			if v.Tok == token.VAR {
				for _, sp := range v.Specs {
					vs := sp.(*ast.ValueSpec)
					for i, n := range vs.Names {
						if n.Name == "FixOrientation" && i < len(vs.Values) {
							if id, ok := vs.Values[i].(*ast.Ident); ok && (id.Name == "true" || id.Name == "false") {
								fixOrientation = id.Name
							}
						}
					}
				}
			}
		}
	}
	// which functions need the point equality (fixpoint over the call graph)
	calls := map[string][]string{}
	for n, fd := range g.funcs {
		calls[n], g.usesEq[n] = g.scanCalls(fd)
	}
	for changed := true; changed; {
		changed = false
		for n, cs := range calls {
			for _, cl := range cs {
				if g.usesEq[cl] && !g.usesEq[n] {
					g.usesEq[n], changed = true, true
				}
			}
		}
	}
	roots := []string{"getStartEnd", "point2geom", "polygon2geom", "polyLine2geom", "multiPoint2geom", "shp2Geom",
		"geom2point", "geom2polygon", "geom2polyLine", "geom2multiPoint", "geom2Shp"}
	var missing []string
	for _, r := range roots {
		if _, ok := g.funcs[r]; ok {
			g.emitFunc(r)
		} else {
			missing = append(missing, r)
		}
	}
	var skipped []string
	for _, n := range allFuncs {
		if !g.emitted[n] {
			skipped = append(skipped, n)
		}
	}
	sort.Strings(skipped)

	fmt.Print("import GeomV.C16.GenGeomLib\n/-!\nGENERATED by `harness/cmd/c16/extract -geom` (go/ast) from encoding/shp/shp2geom.go of the tree under test on\n" +
		"every run of `bin/check C16` — do not edit.  Statement-by-statement translation of the 2-D conversion\n" +
		"functions; vocabulary and its meaning: `GeomV/C16/GenGeomLib.lean`.  `GeomV/C16/TieGeom.lean` proves these\n" +
		"definitions equal to the hand-written model (`GeomV/C16/Model.lean`).\n" +
		"functions of the file that are not reachable from the 2-D cases and not translated: " + strings.Join(skipped, ", ") + "\n-/\n" +
		"set_option linter.unusedVariables false\nnamespace GeomV.C16.GenGeom\nopen GeomV GeomV.C16\n\nsection\nvariable {α : Type} [Inhabited α]\n\n")
	fmt.Printf("/-- `var FixOrientation = %s` -/\ndef FixOrientation : Bool := %s\n\n", fixOrientation, fixOrientation)
	for _, m := range missing {
		fmt.Printf("/-- function `%s` is missing from the source -/\ndef %s_missing : Unit := (unsupported \"func %s not found\")\n\n", m, m, m)
	}
	fmt.Print(g.out.String())
	fmt.Print("end\n\n")
	for _, e := range g.extra {
		fmt.Println(e)
		fmt.Println()
	}
	fmt.Println("end GeomV.C16.GenGeom")
}
