// Extractor for the regenerated tie of C16: reads <repo>/encoding/shp/shp.go with go/ast and prints
// lean/GeomV/C16/Gen.lean — the constants and the small decisions of the source that the model
// (lean/GeomV/C16/Model.lean) hard-codes — together with `tie_*` theorems `source = model`.
// Run by checks/C16.py (pregen) before every `lake build`.
//
//	usage: extract <repo>
package main

import (
	"fmt"
	"go/ast"
	"go/parser"
	"go/token"
	"os"
	"path/filepath"
	"strconv"
	"strings"
)

var consts = map[string]string{} // name -> literal text

func lit(e ast.Expr) (string, bool) {
	switch v := e.(type) {
	case *ast.BasicLit:
		return v.Value, true
	case *ast.Ident:
		s, ok := consts[v.Name]
		return s, ok
	}
	return "", false
}

func natOf(e ast.Expr) int {
	s, ok := lit(e)
	if !ok {
		return -1
	}
	n, err := strconv.Atoi(s)
	if err != nil {
		return -1
	}
	return n
}

// isCall reports whether e is a call pkg.fn(...) (or recv.fn) and returns it
func isCall(e ast.Expr, pkg, fn string) (*ast.CallExpr, bool) {
	c, ok := e.(*ast.CallExpr)
	if !ok {
		return nil, false
	}
	sel, ok := c.Fun.(*ast.SelectorExpr)
	if !ok || sel.Sel.Name != fn {
		return nil, false
	}
	if pkg != "" {
		id, ok := sel.X.(*ast.Ident)
		if !ok || id.Name != pkg {
			return nil, false
		}
	}
	return c, true
}

func src(fset *token.FileSet, n ast.Node, text []byte) string {
	return string(text[fset.Position(n.Pos()).Offset:fset.Position(n.End()).Offset])
}

func funcDecl(f *ast.File, name string) *ast.FuncDecl {
	for _, d := range f.Decls {
		if fd, ok := d.(*ast.FuncDecl); ok && fd.Name.Name == name {
			return fd
		}
	}
	return nil
}

// cutset of the first strings.Trim(<anything>, "<lit>") inside n
func trimCut(n ast.Node) []byte {
	var out []byte
	found := false
	ast.Inspect(n, func(x ast.Node) bool {
		if found {
			return false
		}
		if e, ok := x.(ast.Expr); ok {
			if c, ok := isCall(e, "strings", "Trim"); ok && len(c.Args) == 2 {
				if s, ok := lit(c.Args[1]); ok {
					if u, err := strconv.Unquote(s); err == nil {
						out, found = []byte(u), true
					}
				}
			}
		}
		return true
	})
	if !found {
		return []byte("?")
	}
	return out
}

func bytesLean(b []byte) string {
	p := make([]string, len(b))
	for i, c := range b {
		p[i] = strconv.Itoa(int(c))
	}
	return "[" + strings.Join(p, ", ") + "]"
}

func strsLean(s []string) string {
	p := make([]string, len(s))
	for i, c := range s {
		p[i] = strconv.Quote(c)
	}
	return "[" + strings.Join(p, ", ") + "]"
}

func main() {
	if len(os.Args) > 2 && os.Args[1] == "-geom" { // T1 translator of shp2geom.go (geom.go)
		geomMain(os.Args[2])
		return
	}
	if len(os.Args) > 2 && os.Args[1] == "-str" { // T1 translator of the string helpers of shp.go (strfn.go)
		strMain(os.Args[2])
		return
	}
	repo := "/repo"
	if len(os.Args) > 1 {
		repo = os.Args[1]
	}
	path := filepath.Join(repo, "encoding", "shp", "shp.go")
	text, err := os.ReadFile(path)
	if err != nil {
		fmt.Fprintln(os.Stderr, err)
		os.Exit(1)
	}
	fset := token.NewFileSet()
	f, err := parser.ParseFile(fset, path, text, 0)
	if err != nil {
		fmt.Fprintln(os.Stderr, err)
		os.Exit(1)
	}
	// ---- constants
	for _, d := range f.Decls {
		gd, ok := d.(*ast.GenDecl)
		if !ok || gd.Tok != token.CONST {
			continue
		}
		for _, sp := range gd.Specs {
			vs := sp.(*ast.ValueSpec)
			for i, n := range vs.Names {
				if i < len(vs.Values) {
					if b, ok := vs.Values[i].(*ast.BasicLit); ok {
						consts[n.Name] = b.Value
					}
				}
			}
		}
	}
	cnat := func(name string) int {
		n, err := strconv.Atoi(consts[name])
		if err != nil {
			return -1
		}
		return n
	}
	tag, _ := strconv.Unquote(consts["tag"])

	// ---- NewEncoder: column constructors per reflect kind; how the column name is formed
	var cols []string
	tagLowered, nameLowered := false, false
	if fd := funcDecl(f, "NewEncoder"); fd != nil {
		ast.Inspect(fd, func(x ast.Node) bool {
			switch n := x.(type) {
			case *ast.AssignStmt:
				if len(n.Lhs) == 1 && len(n.Rhs) == 1 {
					if id, ok := n.Lhs[0].(*ast.Ident); ok && id.Name == "fieldName" {
						rhs := src(fset, n.Rhs[0], text)
						if strings.Contains(rhs, "Tag.Get") {
							tagLowered = strings.HasPrefix(rhs, "strings.ToLower(")
						}
						if strings.Contains(rhs, ".Name") && !strings.Contains(rhs, "Tag") {
							nameLowered = strings.HasPrefix(rhs, "strings.ToLower(")
						}
					}
				}
			case *ast.CaseClause:
				for _, e := range n.List {
					k := src(fset, e, text)
					if k != "reflect.Int" && k != "reflect.Float64" && k != "reflect.String" {
						continue
					}
					for _, st := range n.Body {
						ast.Inspect(st, func(y ast.Node) bool {
							if ye, ok := y.(ast.Expr); ok {
								for _, fn := range []string{"NumberField", "FloatField", "StringField"} {
									if c, ok := isCall(ye, "shp", fn); ok {
										var args []string
										for _, a := range c.Args[1:] {
											args = append(args, strconv.Itoa(natOf(a)))
										}
										cols = append(cols, fmt.Sprintf("(%q, %q, [%s])", strings.TrimPrefix(k, "reflect."), fn, strings.Join(args, ", ")))
									}
								}
							}
							return true
						})
					}
				}
			}
			return true
		})
	}

	// ---- DecodeRow: order of the if / else-if chain; lower-casing of the two keys
	var order []string
	keysLowered := true
	if fd := funcDecl(f, "DecodeRow"); fd != nil {
		ast.Inspect(fd, func(x ast.Node) bool {
			switch n := x.(type) {
			case *ast.AssignStmt:
				if len(n.Lhs) == 1 && len(n.Rhs) == 1 {
					if id, ok := n.Lhs[0].(*ast.Ident); ok && (id.Name == "fName" || id.Name == "tagName") {
						if !strings.HasPrefix(src(fset, n.Rhs[0], text), "strings.ToLower(") {
							keysLowered = false
						}
					}
				}
			case *ast.IfStmt:
				if len(order) > 0 {
					return true
				}
				// walk the chain starting at the first `if` whose condition mentions Implements
				if !strings.Contains(src(fset, n.Cond, text), "Implements") && (n.Init == nil || !strings.Contains(src(fset, n.Init, text), "Implements")) {
					return true
				}
				for cur := n; cur != nil; {
					c := ""
					if cur.Init != nil {
						c = src(fset, cur.Init, text)
					}
					c += " " + src(fset, cur.Cond, text)
					switch {
					case strings.Contains(c, "Implements"):
						order = append(order, "geom")
					case strings.Contains(c, "[tagName]"):
						order = append(order, "tag")
					case strings.Contains(c, "[fName]"):
						order = append(order, "name")
					default:
						order = append(order, "?")
					}
					next, _ := cur.Else.(*ast.IfStmt)
					cur = next
				}
			}
			return true
		})
	}

	// ---- cut sets
	strCut, numCutI, numCutF, fieldsCut := []byte("?"), []byte("?"), []byte("?"), []byte("?")
	if fd := funcDecl(f, "setFieldToAttribute"); fd != nil {
		ast.Inspect(fd, func(x ast.Node) bool {
			if cc, ok := x.(*ast.CaseClause); ok && len(cc.List) == 1 && src(fset, cc.List[0], text) == "reflect.String" {
				strCut = trimCut(cc)
			}
			return true
		})
	}
	if fd := funcDecl(f, "shpAttributeToInt"); fd != nil {
		numCutI = trimCut(fd)
	}
	if fd := funcDecl(f, "shpAttributeToFloat"); fd != nil {
		numCutF = trimCut(fd)
	}
	fieldsLowered := false
	rowIncr := 0
	if fd := funcDecl(f, "DecodeRowFields"); fd != nil {
		fieldsCut = trimCut(fd)
		fieldsLowered = strings.Contains(src(fset, fd, text), "r.fieldIndices[strings.ToLower(name)]")
		ast.Inspect(fd, func(x ast.Node) bool {
			if s, ok := x.(*ast.IncDecStmt); ok && src(fset, s.X, text) == "r.row" && s.Tok == token.INC {
				rowIncr++
			}
			return true
		})
	}

	// ---- Encode / EncodeFields: is the shape written before the attributes?
	shapeFirst := func(name string) bool {
		fd := funcDecl(f, name)
		if fd == nil {
			return false
		}
		var w, a token.Pos
		ast.Inspect(fd, func(x ast.Node) bool {
			if e, ok := x.(ast.Expr); ok {
				if c, ok := isCall(e, "", "Write"); ok && w == 0 && strings.Contains(src(fset, c, text), "Writer.Write(") {
					w = c.Pos()
				}
				if c, ok := isCall(e, "", "WriteAttribute"); ok && a == 0 {
					a = c.Pos()
				}
			}
			return true
		})
		return w != 0 && a != 0 && w < a
	}

	lookups := []string{}
	for _, o := range order {
		switch o {
		case "tag":
			lookups = append(lookups, ".tag")
		case "name":
			lookups = append(lookups, ".name")
		}
	}

	b := &strings.Builder{}
	p := func(format string, a ...interface{}) { fmt.Fprintf(b, format, a...) }
	p("import GeomV.C16.Model\n")
	p("/-! GENERATED by harness/cmd/c16/extract (go/ast) from encoding/shp/shp.go on every run of `bin/check C16`\n")
	p("(pregen hook of checks/C16.py); do not edit. It states what the SOURCE says; the `tie_*` theorems say that\n")
	p("this is what the model in Model.lean assumes, so a changed constant, lookup order, cut set or write order\n")
	p("breaks the build of the proofs (a broken obligation, followed by the failing-input search). -/\n")
	p("namespace GeomV.C16.Gen\n\n")
	p("/-- `const tag` -/\ndef tag : String := %q\n", tag)
	p("def intLength : Nat := %d\ndef floatLength : Nat := %d\ndef floatPrecision : Nat := %d\ndef stringLength : Nat := %d\n\n",
		cnat("intLength"), cnat("floatLength"), cnat("floatPrecision"), cnat("stringLength"))
	p("/-- `NewEncoder`: reflect kind ↦ go-shp field constructor and its numeric arguments -/\n")
	p("def newEncoderCols : List (String × String × List Nat) := [%s]\n", strings.Join(cols, ", "))
	p("/-- `fieldName := strings.ToLower(sField.Tag.Get(tag))`; `fieldName = sField.Name` (case kept) -/\n")
	p("def tagLowered : Bool := %v\ndef fieldNameLowered : Bool := %v\n\n", tagLowered, nameLowered)
	p("/-- `DecodeRow`: the if / else-if chain per struct field -/\n")
	p("def decodeRowOrder : List String := %s\n", strsLean(order))
	p("def attrLookups : List GeomV.C16.Lookup := [%s]\n", strings.Join(lookups, ", "))
	p("/-- `fName`, `tagName` are `strings.ToLower(…)` -/\ndef decodeRowKeysLowered : Bool := %v\n\n", keysLowered)
	p("/-- cut sets of `strings.Trim`: string struct fields; `shpAttributeToInt`; `shpAttributeToFloat`; `DecodeRowFields` -/\n")
	p("def strCut : List UInt8 := %s\ndef intCut : List UInt8 := %s\ndef floatCut : List UInt8 := %s\ndef fieldsCut : List UInt8 := %s\n",
		bytesLean(strCut), bytesLean(numCutI), bytesLean(numCutF), bytesLean(fieldsCut))
	p("/-- `DecodeRowFields`: `r.fieldIndices[strings.ToLower(name)]`; number of `r.row++` statements -/\n")
	p("def fieldsLookupLowered : Bool := %v\ndef fieldsRowIncrements : Nat := %d\n\n", fieldsLowered, rowIncr)
	p("/-- `Encode` / `EncodeFields`: `Writer.Write(shape)` precedes the first `WriteAttribute` -/\n")
	p("def encodeShapeFirst : Bool := %v\ndef encodeFieldsShapeFirst : Bool := %v\n\n", shapeFirst("Encode"), shapeFirst("EncodeFields"))

	p("theorem tie_widths : GeomV.C16.intLength = intLength ∧ GeomV.C16.floatLength = floatLength ∧\n")
	p("    GeomV.C16.floatPrecision = floatPrecision ∧ GeomV.C16.stringLength = stringLength ∧ tag = \"shp\" := by decide\n\n")
	p("/-- the columns of `colField` are the constructor calls of the source -/\n")
	p("theorem tie_columns : newEncoderCols =\n")
	p("    [(\"Int\", \"NumberField\", [GeomV.C16.intLength]), (\"Float64\", \"FloatField\", [GeomV.C16.floatLength, GeomV.C16.floatPrecision]),\n")
	p("     (\"String\", \"StringField\", [GeomV.C16.stringLength])] ∧ tagLowered = true ∧ fieldNameLowered = false := by decide\n\n")
	p("/-- `matchField` is the source's lookup chain: geometry first (`decodeField`), then the lookups in source order -/\n")
	p("theorem tie_lookup : decodeRowOrder.head? = some \"geom\" ∧ decodeRowKeysLowered = true ∧\n")
	p("    ∀ keys sf, GeomV.C16.matchField keys sf = GeomV.C16.matchFieldOrder attrLookups keys sf := by\n")
	p("  refine ⟨by decide, by decide, fun keys sf => ?_⟩\n")
	p("  simp only [GeomV.C16.matchField, attrLookups, GeomV.C16.matchFieldOrder, GeomV.C16.Lookup.sel]\n")
	p("  cases GeomV.C16.lastIdx keys (GeomV.C16.lower sf.tag) <;> cases GeomV.C16.lastIdx keys (GeomV.C16.lower sf.name) <;> rfl\n\n")
	p("/-- `isNul` / `isNulSp` of the model are the source's cut sets -/\n")
	p("theorem tie_cuts : strCut = [0] ∧ intCut = [0, 32] ∧ floatCut = [0, 32] ∧ fieldsCut = [0] ∧ fieldsLookupLowered = true := by decide\n\n")
	p("/-- the shape (hence the blank attribute row) is written before the attributes in both encoders, and\n")
	p("`DecodeRowFields` has exactly one `r.row++` (at its end) -/\n")
	p("theorem tie_write_order : encodeShapeFirst = true ∧ encodeFieldsShapeFirst = true ∧ fieldsRowIncrements = 1 := by decide\n\n")
	p("end GeomV.C16.Gen\n")
	fmt.Print(b.String())
}
