// Reflection rules of the struct paths of /repo/encoding/shp (NewEncoder, Encode, DecodeRow): record types that
// are NOT plain `struct{ exported int/float64/string/geometry fields }`.
//
// The types below are STATICALLY declared. A line carries, for the writer type and the reader type, the type's id
// AND the description of its direct fields computed by reflection (`describe`) - the Lean model (Reflect.lean) only
// sees the description; `impl` recomputes it from the id and answers `desc-mismatch` when the line disagrees.
//
//	rfile W <typeId> <nf> <fdesc>* R <typeId> <nf> <fdesc>* N <n> <rec>*
//	fdesc = <name:x..> <typeName:x..> <tag:x..> <exported 0|1> <embedded 0|1> <named 0|1> <kind>
//	        name = reflect.StructField.Name (for an embedded field Go makes this the type's name), typeName = Type.Name()
//	        (of the element type for a pointer), named: the field's type is not the predeclared int/float64/string
//	kind  = i | f | s                          reflect.Int / Float64 / String (named types included)
//	      | gP gMP gLS gMLS gPG gB gI          geom.Point … *geom.Bounds, geom.Geom
//	      | gO                                 another type implementing geom.Geom (Kind Struct/Slice/Ptr): *geom.Point, geom.MultiPolygon
//	      | oS <k> (<name:x..> <tag:x..> <i|f|s>)*   another struct; its direct int/float64/string fields (never looked at by the code)
//	      | oL | oP                            another slice / another pointer
//	      | u                                  any other kind (bool, int64, float32, map, interface, array, func, chan, …)
//	rec   = <geom tokens> <nv> <val>*          one value per COLUMN field of the writer type (direct field of kind i/f/s) in field
//	                                           order; an unexported field cannot be set from outside its package: it stays at its
//	                                           zero value and the line says so (i0 / f0000000000000000 / s)
//
// The writer type id `WNull` is special: the file is written with NewEncoderFromFields(NULL, columns of the type) and
// EncodeFields(nil, vals...) - the only way to get Null shapes into a file; everything else goes through NewEncoder/Encode.
//
// Answer: desc-mismatch | newenc-panic:<..> | newenc-err | newdec-err |
//
//	W <ok|err|panic>* R <nrows> (<geom tokens of the printable geometry fields> <nv> <val>*)* [PANIC] E <0|1>
//
// where every non-geometry field of the reader type gives one <val>: i<dec> / f<hex> / s<hex> for kinds i f s (read through
// reflect without Interface(), so unexported fields are shown too), `-` for a field of any other kind that still holds its
// zero value and `!` when it does not. Rows are kept until EOF and Decoder.Close() and printed afterwards.
package main

import (
	"bufio"
	"fmt"
	"os"
	"reflect"
	"sort"
	"strconv"
	"strings"
	"unsafe"

	"github.com/ctessum/geom"
	gshp "github.com/ctessum/geom/encoding/shp"
	shp "github.com/jonas-p/go-shp"

	"verif/harness/vproto"
)

// ---------------------------------------------------------------- the record types

type Inner struct {
	A int
	B int
}
type lowinner struct{ N int }
type MyInt int
type MyStr string
type MyFloat float64

type (
	// in-contract types (exported int/float64/string/geometry fields only)
	RT01 struct {
		G geom.Point
		A int
		S string
	}
	RT02 struct {
		geom.Point // embedded: the field's name is "Point", it is the geometry field
		A          int
		S          string
		F          float64
	}
	RT03 struct {
		S string `shp:"Name"`
		G geom.Polygon
		A int `shp:"cnt"`
	}
	RT04 struct {
		F float64
		M geom.MultiPoint
		S string
	}
	RT05 struct {
		L geom.MultiLineString
		A int
		B int
	}
	// embedded struct: not flattened
	RT06 struct {
		Inner
		G geom.Point
		A int
	}
	RT07 struct {
		G geom.Point
		Inner
		S string
	}
	RT08 struct { // a column named like the embedded struct type of RT06/RT07
		G     geom.Point
		Inner int
		S     string
	}
	RT09 struct {
		G geom.Point
		lowinner
		A int
	}
	// unexported column fields
	RT10 struct {
		G geom.Polygon
		a int
		B int
		c string
		D string
	}
	RT11 struct {
		G geom.Point
		B int
		S string
		a int
		D string
	}
	RT12 struct {
		G geom.Point
		s string
		A int
	}
	// silently skipped kinds
	RT13 struct {
		P *int
		G geom.Point
		Q *string
		L []int
		A int
		I *Inner
	}
	// unsupported kinds
	RT14 struct {
		G geom.Point
		M map[string]int
		A int
	}
	RT15 struct {
		A int
		G geom.Point
		B bool
	}
	RT16 struct {
		A int64
		G geom.Point
	}
	RT17 struct {
		G geom.Point
		X float32
		S string
	}
	RT18 struct {
		G geom.Geom
		A int
	}
	// named types
	RT19 struct {
		G geom.Point
		N MyInt
		S string
	}
	RT20 struct {
		G geom.Point
		A int
		S MyStr
		B int
	}
	RT21 struct {
		G geom.Point
		A int
		F MyFloat
	}
	// pointer / other geometry fields
	RT22 struct {
		G *geom.Bounds
		A int
	}
	RT23 struct {
		G *geom.Point
		A int
	}
	RT24 struct {
		g geom.Point
		A int
	}
	RT25 struct {
		G geom.MultiPolygon
		S string
	}
	RT26 struct {
		L geom.LineString
		A int
	}
	RT27 struct { // two geometry fields: the LAST one decides in NewEncoder, DecodeRow sets both
		P geom.Point
		G geom.Polygon
		A int
	}
	// collisions
	RT28 struct {
		G geom.Point
		A int `shp:"x"`
		B int `shp:"X"`
	}
	RT29 struct { // tag equal to another field's name
		G geom.Point
		A int `shp:"b"`
		B int
	}
	RT30 struct { // reader: tag tried before name
		G geom.Point
		B int `shp:"A"`
		A int
	}
	// readers whose odd fields match no column of most writers
	RT31 struct {
		G  geom.Point
		Zz bool
		Yy *int
		L  []int
		q  int64
		w  string
		Inner
	}
	// readers whose odd fields are named like columns
	RT32 struct {
		G geom.Point
		A int64
	}
	RT33 struct {
		G geom.Point
		A *int
		S string
	}
	RT34 struct {
		G geom.Point
		A bool
	}
	RT35 struct {
		G geom.Point
		a int
		S string
	}
	RT36 struct {
		G geom.Point
		A MyInt
		S MyStr
		F MyFloat
	}
	RT37 struct {
		G geom.Geom
		A int
		S string
		B int
		F float64
	}
	RT38 struct { // only attribute fields: NewEncoder finds no shape field
		A int
		S string
	}
	// WNull: the columns of a NULL-typed file written through EncodeFields(nil, …)
	WNull struct {
		A int
		S string
	}
)

var rtypes = map[string]reflect.Type{
	"RT01": reflect.TypeOf(RT01{}), "RT02": reflect.TypeOf(RT02{}), "RT03": reflect.TypeOf(RT03{}), "RT04": reflect.TypeOf(RT04{}),
	"RT05": reflect.TypeOf(RT05{}), "RT06": reflect.TypeOf(RT06{}), "RT07": reflect.TypeOf(RT07{}), "RT08": reflect.TypeOf(RT08{}),
	"RT09": reflect.TypeOf(RT09{}), "RT10": reflect.TypeOf(RT10{}), "RT11": reflect.TypeOf(RT11{}), "RT12": reflect.TypeOf(RT12{}),
	"RT13": reflect.TypeOf(RT13{}), "RT14": reflect.TypeOf(RT14{}), "RT15": reflect.TypeOf(RT15{}), "RT16": reflect.TypeOf(RT16{}),
	"RT17": reflect.TypeOf(RT17{}), "RT18": reflect.TypeOf(RT18{}), "RT19": reflect.TypeOf(RT19{}), "RT20": reflect.TypeOf(RT20{}),
	"RT21": reflect.TypeOf(RT21{}), "RT22": reflect.TypeOf(RT22{}), "RT23": reflect.TypeOf(RT23{}), "RT24": reflect.TypeOf(RT24{}),
	"RT25": reflect.TypeOf(RT25{}), "RT26": reflect.TypeOf(RT26{}), "RT27": reflect.TypeOf(RT27{}), "RT28": reflect.TypeOf(RT28{}),
	"RT29": reflect.TypeOf(RT29{}), "RT30": reflect.TypeOf(RT30{}), "RT31": reflect.TypeOf(RT31{}), "RT32": reflect.TypeOf(RT32{}),
	"RT33": reflect.TypeOf(RT33{}), "RT34": reflect.TypeOf(RT34{}), "RT35": reflect.TypeOf(RT35{}), "RT36": reflect.TypeOf(RT36{}),
	"RT37": reflect.TypeOf(RT37{}), "RT38": reflect.TypeOf(RT38{}), "WNull": reflect.TypeOf(WNull{}),
}

func rtypeIDs() []string {
	var ids []string
	for id := range rtypes {
		ids = append(ids, id)
	}
	sort.Strings(ids)
	return ids
}

// ---------------------------------------------------------------- description by reflection

var (
	tInt     = reflect.TypeOf(int(0))
	tFloat64 = reflect.TypeOf(float64(0))
	tString  = reflect.TypeOf("")
)

// kindTok classifies a field type the way the model's RKind does. It looks at type IDENTITY (geom.Point itself), the
// code under test at the type's NAME - a disagreement would show as a DIFF.
func kindTok(ft reflect.Type) string {
	switch ft.Kind() {
	case reflect.Int:
		return "i"
	case reflect.Float64:
		return "f"
	case reflect.String:
		return "s"
	}
	for _, k := range []string{"gP", "gMP", "gLS", "gMLS", "gPG", "gB", "gI"} {
		if ft == kindType(k) {
			return k
		}
	}
	switch ft.Kind() {
	case reflect.Struct, reflect.Slice, reflect.Ptr:
		if ft.Implements(geomIface) {
			return "gO"
		}
	}
	switch ft.Kind() {
	case reflect.Struct:
		var b strings.Builder
		n := 0
		for i := 0; i < ft.NumField(); i++ {
			f := ft.Field(i)
			var k string
			switch f.Type.Kind() {
			case reflect.Int:
				k = "i"
			case reflect.Float64:
				k = "f"
			case reflect.String:
				k = "s"
			default:
				continue
			}
			n++
			fmt.Fprintf(&b, " %s %s %s", hx("x", f.Name), hx("x", f.Tag.Get("shp")), k)
		}
		return fmt.Sprintf("oS %d%s", n, b.String())
	case reflect.Slice:
		return "oL"
	case reflect.Ptr:
		return "oP"
	}
	return "u"
}

func isColKind(ft reflect.Type) bool {
	switch ft.Kind() {
	case reflect.Int, reflect.Float64, reflect.String:
		return true
	}
	return false
}

func b01(b bool) string {
	if b {
		return "1"
	}
	return "0"
}

// describe: "<nf> <fdesc>*" of a struct type
func describe(t reflect.Type) string {
	var b strings.Builder
	fmt.Fprintf(&b, "%d", t.NumField())
	for i := 0; i < t.NumField(); i++ {
		f := t.Field(i)
		tn := f.Type.Name()
		if f.Type.Kind() == reflect.Ptr {
			tn = f.Type.Elem().Name()
		}
		named := isColKind(f.Type) && f.Type != tInt && f.Type != tFloat64 && f.Type != tString
		fmt.Fprintf(&b, " %s %s %s %s %s %s %s", hx("x", f.Name), hx("x", tn), hx("x", f.Tag.Get("shp")),
			b01(f.PkgPath == ""), b01(f.Anonymous), b01(named), kindTok(f.Type))
	}
	return b.String()
}

// ---------------------------------------------------------------- impl

// peek makes a struct field readable through Interface() whatever its visibility (v is addressable)
func peek(fv reflect.Value) reflect.Value {
	return reflect.NewAt(fv.Type(), unsafe.Pointer(fv.UnsafeAddr())).Elem()
}

func runReflectLine(line string) string {
	p := vproto.NewParser(line)
	if p.Next() != "rfile" || p.Next() != "W" {
		panic("bad rfile line")
	}
	wid := p.Next()
	// the descriptions on the line, as text, up to " R " and " N "
	rest := p.Rest()
	ri := strings.Index(rest, " R ")
	if ri < 0 {
		panic("bad rfile line: R expected")
	}
	wdesc := rest[:ri]
	rest = rest[ri+3:]
	ni := strings.Index(rest, " N ")
	if ni < 0 {
		panic("bad rfile line: N expected")
	}
	rtoks := strings.SplitN(rest[:ni], " ", 2)
	rid := rtoks[0]
	rdesc := ""
	if len(rtoks) > 1 {
		rdesc = rtoks[1]
	}
	wt, ok1 := rtypes[wid]
	rt, ok2 := rtypes[rid]
	if !ok1 || !ok2 || describe(wt) != wdesc || describe(rt) != rdesc {
		return "desc-mismatch"
	}
	q := vproto.NewParser(rest[ni+3:])
	n := q.Int()
	var recs []rec
	for i := 0; i < n; i++ {
		var r rec
		r.g = q.Geom()
		nv := q.Int()
		for j := 0; j < nv; j++ {
			r.vals = append(r.vals, parseVal(q.Next()))
		}
		recs = append(recs, r)
	}

	caseNo++
	base := fmt.Sprintf("%s/r%d", tmpDir, caseNo%8)
	defer func() {
		for _, e := range []string{".shp", ".shx", ".dbf"} {
			os.Remove(base + e)
		}
	}()
	var b strings.Builder

	// ---- write
	var enc *gshp.Encoder
	var err error
	if wid == "WNull" {
		var fields []shp.Field
		for i := 0; i < wt.NumField(); i++ {
			f := wt.Field(i)
			switch f.Type.Kind() {
			case reflect.Int:
				fields = append(fields, shp.NumberField(f.Name, 10))
			case reflect.Float64:
				fields = append(fields, shp.FloatField(f.Name, 30, 10))
			case reflect.String:
				fields = append(fields, shp.StringField(f.Name, 50))
			}
		}
		if pan := vproto.Safe(func() { enc, err = gshp.NewEncoderFromFields(base+".shp", shp.NULL, fields...) }); pan != "" {
			return "newenc-panic:" + pan
		}
	} else if pan := vproto.Safe(func() { enc, err = gshp.NewEncoder(base+".shp", reflect.Zero(wt).Interface()) }); pan != "" {
		return "newenc-panic:" + pan
	}
	if err != nil {
		return "newenc-err"
	}
	b.WriteString("W")
	for _, r := range recs {
		var e error
		var pan string
		if wid == "WNull" {
			vals := make([]interface{}, len(r.vals))
			for i, x := range r.vals {
				switch x.k {
				case 'i':
					vals[i] = x.i
				case 'f':
					vals[i] = x.f
				default:
					vals[i] = x.s
				}
			}
			pan = vproto.Safe(func() { e = enc.EncodeFields(nil, vals...) })
		} else {
			v := reflect.New(wt).Elem()
			ai := 0
			for i := 0; i < wt.NumField(); i++ {
				fv := v.Field(i)
				ft := wt.Field(i).Type
				if isColKind(ft) {
					if ai >= len(r.vals) {
						continue
					}
					x := r.vals[ai]
					ai++
					if !fv.CanSet() { // unexported: stays zero (the line says so)
						continue
					}
					switch ft.Kind() {
					case reflect.Int:
						fv.SetInt(int64(x.i))
					case reflect.Float64:
						fv.SetFloat(x.f)
					case reflect.String:
						fv.SetString(x.s)
					}
					continue
				}
				// the record's geometry goes into every settable field it is assignable to
				if r.g != nil && fv.CanSet() && reflect.TypeOf(r.g).AssignableTo(ft) && ft.Implements(geomIface) {
					fv.Set(reflect.ValueOf(r.g))
				}
			}
			pan = vproto.Safe(func() { e = enc.Encode(v.Interface()) })
		}
		switch {
		case pan != "":
			b.WriteString(" panic")
		case e != nil:
			b.WriteString(" err")
		default:
			b.WriteString(" ok")
		}
	}
	enc.Close()

	// ---- read
	dec, err := gshp.NewDecoder(base + ".shp")
	if err != nil {
		return "newdec-err"
	}
	var rows []func() string
	limit := len(recs) + 3
	for len(rows) < limit {
		pv := reflect.New(rt) // a fresh record variable per row
		var more bool
		if pan := vproto.Safe(func() { more = dec.DecodeRow(pv.Interface()) }); pan != "" {
			rows = append(rows, func() string { return "PANIC" })
			break
		}
		if !more {
			break
		}
		kept := pv.Elem()
		rows = append(rows, func() string {
			var gs, vs strings.Builder
			nv := 0
			for i := 0; i < rt.NumField(); i++ {
				fv := peek(kept.Field(i))
				k := kindTok(rt.Field(i).Type)
				switch {
				case k == "gI" || k == "gB":
					if fv.IsNil() {
						gs.WriteString("NIL ")
					} else {
						gs.WriteString(vproto.GeomToks(fv.Interface().(geom.Geom)) + " ")
					}
				case k[0] == 'g' && k != "gO":
					gs.WriteString(vproto.GeomToks(fv.Interface().(geom.Geom)) + " ")
				case k == "i":
					nv++
					vs.WriteString(" i" + strconv.FormatInt(fv.Int(), 10))
				case k == "f":
					nv++
					vs.WriteString(" f" + vproto.F2H(fv.Float()))
				case k == "s":
					nv++
					vs.WriteString(" " + hx("s", fv.String()))
				default:
					nv++
					if fv.IsZero() {
						vs.WriteString(" -")
					} else {
						vs.WriteString(" !")
					}
				}
			}
			return fmt.Sprintf("%s%d%s", gs.String(), nv, vs.String())
		})
		if dec.Error() != nil {
			break
		}
	}
	decErr := dec.Error()
	dec.Close()
	fmt.Fprintf(&b, " R %d", len(rows))
	for _, r := range rows {
		b.WriteString(" " + r())
	}
	if decErr != nil {
		b.WriteString(" E 1")
	} else {
		b.WriteString(" E 0")
	}
	return b.String()
}

// ---------------------------------------------------------------- gen

const rstrAlphabet = "bcdghjklmoqrstuvwyzBCDGHJKLMOQRSTUVWYZ0123456789 .-"

func genRStr(r *vproto.Rng) string {
	n := r.Intn(13)
	switch r.Intn(8) {
	case 0:
		n = 0
	case 1:
		n = 50
	}
	b := make([]byte, n)
	for i := range b {
		b[i] = rstrAlphabet[r.Intn(len(rstrAlphabet))]
	}
	if n > 0 && b[0] == ' ' {
		b[0] = 'L'
	}
	if n > 0 && b[n-1] == ' ' {
		b[n-1] = 'T'
	}
	return string(b)
}

// lastGeomKind: the kind token of the field NewEncoder takes the shape type from ("" if none)
func lastGeomKind(t reflect.Type) string {
	k := ""
	for i := 0; i < t.NumField(); i++ {
		switch kt := kindTok(t.Field(i).Type); kt {
		case "gP", "gMP", "gLS", "gMLS", "gPG", "gB":
			k = kt
		}
	}
	return k
}

func genReflectLine(r *vproto.Rng, wid, rid string) string {
	wt, rt := rtypes[wid], rtypes[rid]
	var b strings.Builder
	fmt.Fprintf(&b, "rfile W %s %s R %s %s", wid, describe(wt), rid, describe(rt))
	n := r.Intn(5)
	fmt.Fprintf(&b, " N %d", n)
	gk := lastGeomKind(wt)
	wide := r.Intn(12) == 0 // a value wider than its column now and then (Encode reports it; outside the statement)
	for i := 0; i < n; i++ {
		var g geom.Geom
		if gk != "" && wid != "WNull" && r.Intn(10) != 0 {
			g = genGeom(r, gk)
		}
		b.WriteString(" " + vproto.GeomToks(g))
		var vs []string
		for j := 0; j < wt.NumField(); j++ {
			f := wt.Field(j)
			if !isColKind(f.Type) {
				continue
			}
			settable := f.PkgPath == ""
			var v val
			switch f.Type.Kind() {
			case reflect.Int:
				v = val{k: 'i'}
				if settable && r.Intn(5) != 0 {
					v.i = genIntFit(r, 10)
					if wide && r.Intn(3) == 0 {
						v.i = 12345678901
					}
				}
			case reflect.Float64:
				v = val{k: 'f'}
				if settable && r.Intn(5) != 0 {
					v.f = genFloatFit(r, 30, 10)
				}
			default:
				v = val{k: 's'}
				if settable && r.Intn(5) != 0 {
					v.s = genRStr(r)
					if wide && r.Intn(3) == 0 {
						v.s = strings.Repeat("q", 51)
					}
				}
			}
			vs = append(vs, v.tok())
		}
		fmt.Fprintf(&b, " %d", len(vs))
		for _, t := range vs {
			b.WriteString(" " + t)
		}
	}
	return b.String()
}

// writerDead: NewEncoder panics for this archetype whatever the records are (an unsupported kind, or no shape field),
// so the reader type never matters - a few lines are enough
func writerDead(t reflect.Type) bool {
	for i := 0; i < t.NumField(); i++ {
		if k := kindTok(t.Field(i).Type); k == "u" || k == "gI" {
			return true
		}
	}
	return lastGeomKind(t) == ""
}

func genReflect(out *bufio.Writer, seed uint64, tier string) {
	r := vproto.NewRng(seed ^ 0x5ef1ec7)
	ids := rtypeIDs()
	live, dead := 4, 1
	if tier == "thorough" {
		live, dead = 55, 5
	}
	for _, wid := range ids {
		// every writer type with itself as the reader, then with several other reader types
		fmt.Fprintln(out, genReflectLine(r, wid, wid))
		extra := live
		if wid == "WNull" {
			extra = 2 * live
		} else if writerDead(rtypes[wid]) {
			extra = dead
		}
		for k := 0; k < extra; k++ {
			fmt.Fprintln(out, genReflectLine(r, wid, ids[r.Intn(len(ids))]))
		}
	}
	// pairs inside the property statement (plain writer type, reader type that accepts what comes back): the SPEC verdict
	// applies; RT37 reads every geometry through a geom.Geom field and has fields for the columns A, S, B, F
	reps := 2
	if tier == "thorough" {
		reps = 12
	}
	for _, wid := range []string{"RT01", "RT02", "RT03", "RT04", "RT05", "RT26"} {
		for k := 0; k < reps; k++ {
			rid := wid
			if wid == "RT26" || k%2 == 1 { // a geom.LineString field cannot be read back into
				rid = "RT37"
			}
			fmt.Fprintln(out, genReflectLine(r, wid, rid))
		}
	}
}
