package main

import (
	"bufio"
	"fmt"
	"math"
	"os"
	"strings"

	"github.com/ctessum/geom"

	"verif/harness/vproto"
)

// ---------------------------------------------------------------- geometry

func coord(r *vproto.Rng) float64 {
	switch r.Intn(14) {
	case 0:
		return math.Float64frombits(r.U64())
	case 1:
		return math.Float64frombits(0x7ff0000000000001 | r.U64()&0x000fffffffffffff) // NaN with payload
	case 2:
		return math.Copysign(0, -1)
	case 3:
		return 0
	case 4:
		return math.Inf(1 - 2*r.Intn(2))
	case 5:
		return math.Float64frombits(r.U64() & 0x000fffffffffffff) // subnormal
	case 6:
		return math.MaxFloat64
	case 7, 8, 9:
		return float64(r.Range(-3, 3))
	default:
		return (r.Float() - 0.5) * math.Pow(10, float64(r.Range(-5, 12)))
	}
}

func pt(r *vproto.Rng) geom.Point { return geom.Point{X: coord(r), Y: coord(r)} }

func pts(r *vproto.Rng, lo, hi int) []geom.Point {
	n := r.Range(lo, hi)
	p := make([]geom.Point, n)
	for i := range p {
		p[i] = pt(r)
	}
	return p
}

func ring(r *vproto.Rng) geom.Path {
	p := geom.Path(pts(r, 0, 6))
	if len(p) == 0 {
		return p
	}
	switch r.Intn(6) {
	case 0, 1, 2: // closed, bit-identical copy of the first vertex
		p = append(p, p[0])
	case 3: // closed for Point.Equals but not bit-identical (+0 / -0)
		p[0] = geom.Point{X: 0, Y: float64(r.Range(-2, 2))}
		p = append(p, geom.Point{X: math.Copysign(0, -1), Y: p[0].Y})
	default: // left as generated (usually unclosed; a single vertex is closed)
	}
	return p
}

const kinds = "gP gMP gLS gMLS gPG gB"

func shapeTypeOf(kind string) int {
	switch kind {
	case "gP":
		return 1
	case "gLS", "gMLS":
		return 3
	case "gPG", "gB":
		return 5
	case "gMP":
		return 8
	}
	return 0
}

// normalKind is the geometry kind a reader gets back
func normalKind(kind string) string {
	switch kind {
	case "gLS":
		return "gMLS"
	case "gB":
		return "gPG"
	}
	return kind
}

// counts around the powers of two where fixed-size buffers, narrow counters and chunked copies break
var bigCounts = []int{63, 64, 65, 255, 256, 257, 1023, 1024, 1025, 2047, 2048, 2049}

func ptsN(r *vproto.Rng, n int) []geom.Point {
	p := make([]geom.Point, n)
	for i := range p {
		p[i] = geom.Point{X: float64(i), Y: coord(r)}
	}
	return p
}

// genBigGeom: one geometry with MANY vertices in a part, or MANY parts/rings (the ordinary generator stays below 7)
func genBigGeom(r *vproto.Rng, kind string) geom.Geom {
	n := bigCounts[r.Intn(len(bigCounts))]
	manyParts := r.Intn(2) == 0
	if manyParts {
		n = []int{64, 65, 257, 258, 300}[r.Intn(5)]
	}
	switch kind {
	case "gMP":
		return geom.MultiPoint(ptsN(r, n))
	case "gLS":
		return geom.LineString(ptsN(r, n))
	case "gMLS":
		if manyParts {
			m := make(geom.MultiLineString, n)
			for i := range m {
				m[i] = ptsN(r, r.Range(0, 3))
			}
			return m
		}
		return geom.MultiLineString{pts(r, 0, 3), ptsN(r, n), pts(r, 1, 3)}
	case "gPG":
		if manyParts {
			m := make(geom.Polygon, n)
			for i := range m {
				m[i] = geom.Path(ptsN(r, r.Range(0, 4)))
			}
			return m
		}
		return geom.Polygon{geom.Path(ptsN(r, n)), ring(r)}
	}
	return nil
}

func genGeom(r *vproto.Rng, kind string) geom.Geom {
	switch kind {
	case "gP":
		return pt(r)
	case "gMP":
		return geom.MultiPoint(pts(r, 0, 7))
	case "gLS":
		return geom.LineString(pts(r, 0, 7))
	case "gMLS":
		n := r.Range(0, 6)
		m := make(geom.MultiLineString, n)
		for i := range m {
			if r.Intn(4) == 0 {
				m[i] = geom.LineString{}
			} else {
				m[i] = pts(r, 0, 6)
			}
		}
		return m
	case "gPG":
		n := r.Range(0, 5)
		m := make(geom.Polygon, n)
		for i := range m {
			m[i] = ring(r)
		}
		return m
	case "gB":
		b := &geom.Bounds{Min: pt(r), Max: pt(r)}
		switch r.Intn(5) {
		case 0:
			b.Max.Y = b.Min.Y // zero height
		case 1:
			b.Max = b.Min // a point's bounds
		case 2:
			b.Max.X = b.Min.X
		}
		return b
	}
	return nil
}

// ---------------------------------------------------------------- attribute values

var intPool = []int{0, 1, -1, 7, 42, 999999999, -999999999, 9999999999, 1234567890, -123456789,
	-1234567890, 10000000000, -1000000000, math.MaxInt64, math.MinInt64, 1000000000, 99999}

func genInt(r *vproto.Rng) int {
	switch r.Intn(4) {
	case 0:
		return intPool[r.Intn(len(intPool))]
	case 1:
		return r.Range(-1000, 1000)
	case 2:
		d := r.Range(1, 11)
		v := int(r.U64() % uint64(math.Pow10(d)))
		if r.Bool() {
			v = -v
		}
		return v
	default:
		return int(r.U64()) >> uint(r.Intn(64))
	}
}

var floatPool = []float64{0, math.Copysign(0, -1), 1.5, -1.5, 1e-10, 1e-11, 5e-11, -5e-11, 4.9e-324, 0.00048828125, 0.5, 2.5,
	123456789.123456789, 1e15 + 0.3, 1e18, -1e18, 1e19, 9.999999999999999e18, -9.99999999999999e17, math.MaxFloat64,
	math.NaN(), math.Inf(1), math.Inf(-1), 0.1, 0.2, 1.0 / 3, -2.0 / 3, 1e10, 12345.678901234567}

func genFloat(r *vproto.Rng) float64 {
	switch r.Intn(5) {
	case 0:
		return floatPool[r.Intn(len(floatPool))]
	case 1:
		return (r.Float() - 0.5) * math.Pow(10, float64(r.Range(-12, 22)))
	case 2: // exact ties at the 10th decimal: odd multiples of 2^-k
		return float64(2*r.Range(-50, 50)+1) * math.Pow(2, -float64(r.Range(11, 16)))
	case 3:
		return float64(r.Range(-100000, 100000)) / 1000
	default:
		return math.Float64frombits(r.U64())
	}
}

var strPool = []string{"", "a", "hello world", "x", "longvalue", strings.Repeat("a", 50), strings.Repeat("b", 51),
	strings.Repeat("c", 49), "  lead", "trail  ", " both ", strings.Repeat("d", 49) + " ", strings.Repeat("e", 48) + " ",
	"a\x00b", "\x00lead", "trail\x00", strings.Repeat("€", 16) + "ab", strings.Repeat("€", 17), strings.Repeat("é", 25),
	"ünïcödé", "   ", " ", "tab\there", "1234", "-5", "3.25", "1e3", strings.Repeat("f", 255), strings.Repeat("g", 256)}

const printable = " !\"#$%&'()*+,-./0123456789:;<=>?@ABCDEFGHIJKLMNOPQRSTUVWXYZ[\\]^_`abcdefghijklmnopqrstuvwxyz{|}~"

// genStr: mostly "ordinary" strings (no leading space, no NUL, no trailing space at full width);
// edge==true draws from the pool with the space/NUL/length edge cases
func genStr(r *vproto.Rng, edge bool, max int) string {
	if edge && r.Intn(2) == 0 {
		return strPool[r.Intn(len(strPool))]
	}
	n := r.Intn(max + 1)
	if r.Intn(6) == 0 {
		n = max
	}
	b := make([]byte, n)
	for i := range b {
		if edge && r.Intn(12) == 0 {
			b[i] = byte(r.Intn(256))
		} else {
			b[i] = printable[r.Intn(len(printable))]
		}
	}
	if !edge && n > 0 {
		if b[0] == ' ' {
			b[0] = 'L'
		}
		if b[n-1] == ' ' && n == max {
			b[n-1] = 'T'
		}
	}
	return string(b)
}

// numeric-looking text over an alphabet on which strconv.ParseInt/ParseFloat and the model's
// literal grammar are known to coincide (no letters other than e/E, no underscore)
func genNumText(r *vproto.Rng) string {
	switch r.Intn(8) {
	case 0:
		return fmt.Sprint(genInt(r))
	case 1:
		return fmt.Sprintf("%.*f", r.Range(0, 12), float64(r.Range(-100000, 100000))/float64([]int{1, 3, 7, 1000}[r.Intn(4)]))
	case 2:
		return fmt.Sprintf("%de%d", r.Range(-999, 999), r.Range(-30, 30))
	case 3:
		return []string{"", "+", "-", ".", "+5", "-0", "00012", ".5", "5.", "+.5e-3", "1e", "1e+", "--1", "1 2", "9223372036854775807",
			"9223372036854775808", "-9223372036854775808", "-9223372036854775809", "1e308", "1e309", "1.7976931348623157e308", "0.1e-5",
			"12#", "q", "1.2.3", " 7", "7 ", "  8  "}[r.Intn(28)]
	default:
		const al = "0123456789+-.eE #q"
		n := r.Range(0, 8)
		b := make([]byte, n)
		for i := range b {
			b[i] = al[r.Intn(len(al))]
			if r.Intn(2) == 0 {
				b[i] = al[r.Intn(10)]
			}
		}
		return string(b)
	}
}

// ---------------------------------------------------------------- names

var namePool = []string{"A", "Ab", "NAME", "Name2", "Value", "VALUE", "Val", "Population", "Abcdefghijk", "Abcdefghij",
	"LongFieldName12", "LongFieldNameXY", "X1", "Zz", "ID", "Id", "Count", "Tag", "B", "C_d", "Éa", "M_2"}

func casePerturb(r *vproto.Rng, s string) string {
	b := []byte(s)
	for i := range b {
		if r.Intn(2) == 0 {
			if b[i] >= 'a' && b[i] <= 'z' {
				b[i] -= 32
			} else if b[i] >= 'A' && b[i] <= 'Z' {
				b[i] += 32
			}
		}
	}
	return string(b)
}

func exportNameLower(s string) string { return strings.ToLower(exportName(s)) }

// exported Go identifier derived from s (ASCII only)
func exportName(s string) string {
	var b []byte
	for i := 0; i < len(s); i++ {
		c := s[i]
		if c >= 'a' && c <= 'z' || c >= 'A' && c <= 'Z' || c >= '0' && c <= '9' || c == '_' {
			b = append(b, c)
		}
	}
	if len(b) == 0 || !(b[0] >= 'a' && b[0] <= 'z' || b[0] >= 'A' && b[0] <= 'Z') {
		b = append([]byte{'F'}, b...)
	}
	if b[0] >= 'a' && b[0] <= 'z' {
		b[0] -= 32
	}
	return string(b)
}

func uniqueNames(r *vproto.Rng, n int, allowCollide, allowLong bool) []string {
	out := []string{}
	seenExact := map[string]bool{"G": true}
	seenLower := map[string]bool{}
	for len(out) < n {
		s := namePool[r.Intn(len(namePool))]
		if r.Intn(5) == 0 {
			s = fmt.Sprintf("F%d", r.Intn(1000))
		}
		s = exportName(s)
		if seenExact[s] || (!allowLong && len(s) > 11) { // 11 bytes fill go-shp's [11]byte name slot completely (no terminator) and are read back unchanged
			continue
		}
		if seenLower[strings.ToLower(s)] && !(allowCollide && r.Intn(2) == 0) {
			continue
		}
		seenExact[s] = true
		seenLower[strings.ToLower(s)] = true
		out = append(out, s)
	}
	return out
}

// ---------------------------------------------------------------- cases

type colPlan struct {
	kind    string // i f s
	edge    bool   // string edge cases allowed
	numText bool   // string column holding numeric-looking text (may be read back as int/float)
	wide    bool   // values wider than the column / non-finite floats allowed
	spaces  bool   // NUL-free strings with blanks at the ends (the known finding)
	prec    int
}

// an int whose rendering fits w characters (boundaries included)
func genIntFit(r *vproto.Rng, w int) int {
	if w > 18 {
		w = 18
	}
	if w < 1 {
		return 0
	}
	maxPos := int(math.Pow10(w)) - 1
	maxNeg := int(math.Pow10(w-1)) - 1
	switch r.Intn(6) {
	case 0:
		return maxPos
	case 1:
		return -maxNeg
	case 2:
		return []int{0, 1, -1, 7}[r.Intn(4)] % (maxNeg + 1)
	default:
		v := int(r.U64() % uint64(maxPos+1))
		if r.Bool() {
			v = -(v % (maxNeg + 1))
		}
		return v
	}
}

// a finite float whose 'f' rendering with prec decimals fits w characters
func genFloatFit(r *vproto.Rng, w, prec int) float64 {
	frac := 0
	if prec > 0 {
		frac = prec + 1
	}
	k := w - frac - 2 // integer digits available, one reserved for the sign, one as margin
	if k < 1 {
		return []float64{0, 0.25, 0.5}[r.Intn(3)]
	}
	if k > 17 {
		k = 17
	}
	var v float64
	switch r.Intn(6) {
	case 0:
		v = []float64{0, math.Copysign(0, -1), 1.5, -1.5, 1e-10, 1e-11, 5e-11, -5e-11, 4.9e-324, 0.00048828125, 0.5, 2.5, 0.1, 0.2, 1.0 / 3, -2.0 / 3}[r.Intn(16)]
	case 1:
		v = float64(2*r.Range(-50, 50)+1) * math.Pow(2, -float64(r.Range(11, 16)))
	case 2:
		v = float64(r.Range(-100000, 100000)) / 1000
	case 3:
		v = math.Pow10(k) * (1 - 1e-15) * float64(1-2*r.Intn(2)) // just below the width limit
	default:
		v = (r.Float() - 0.5) * math.Pow(10, float64(r.Range(-12, k)))
	}
	if math.Abs(v) >= math.Pow10(k) {
		v = math.Mod(v, math.Pow10(k))
	}
	return v
}

func genVal(r *vproto.Rng, p colPlan, max int) val {
	if r.Intn(4) == 0 { // zero values alternate with non-zero ones: "", 0, 0.0 must come back as such
		switch p.kind {
		case "i":
			return val{k: 'i', i: 0}
		case "f":
			return val{k: 'f', f: 0}
		default:
			return val{k: 's', s: ""}
		}
	}
	switch p.kind {
	case "i":
		if !p.wide {
			return val{k: 'i', i: genIntFit(r, max)}
		}
		return val{k: 'i', i: genInt(r)}
	case "f":
		if !p.wide {
			return val{k: 'f', f: genFloatFit(r, max, p.prec)}
		}
		return val{k: 'f', f: genFloat(r)}
	default:
		if p.numText {
			return val{k: 's', s: genNumText(r)}
		}
		if max > 50 && !p.wide {
			max = 50
		}
		st := genStr(r, p.edge, max)
		if p.spaces && r.Intn(4) == 0 && max >= 2 {
			switch r.Intn(3) {
			case 0:
				st = " " + st
			case 1:
				st = st + " "
			default:
				st = (st + strings.Repeat("w", max))[:max-1] + " " // a blank at the very end of a full cell
			}
			if len(st) > max {
				st = st[:max]
			}
		}
		return val{k: 's', s: st}
	}
}

func indexOf(b []byte, c byte) int {
	for i, x := range b {
		if x == c {
			return i
		}
	}
	return 0
}

func nrecs(r *vproto.Rng, tier string) int {
	switch r.Intn(12) {
	case 0:
		return 0
	case 1:
		return 1
	case 2:
		if tier == "thorough" {
			return r.Range(100, 300)
		}
		return r.Range(30, 120)
	case 3:
		if tier == "thorough" && r.Intn(4) == 0 {
			return 300
		}
		return r.Range(10, 40)
	default:
		return r.Range(2, 9)
	}
}

func genCase(r *vproto.Rng, tier string) fcase {
	var c fcase
	kind := strings.Fields(kinds)[r.Intn(6)]
	nullFile := false
	ncols := []int{0, 1, 1, 2, 2, 3, 3, 4, 5, 6}[r.Intn(10)]
	loose := r.Intn(5) == 0              // inputs outside the statement's quantifier allowed (model-vs-code only)
	edgeFile := loose                    // string edge cases (NULs, over-long) allowed
	collide := loose && r.Intn(2) == 0   // names colliding after lower-casing allowed
	crossFile := loose && r.Intn(2) == 0 // some columns are read back with another type
	spaces := !loose && r.Intn(10) == 0  // NUL-free strings with blanks at the ends
	plans := make([]colPlan, ncols)
	for i := range plans {
		plans[i] = colPlan{kind: []string{"i", "f", "s"}[r.Intn(3)], edge: edgeFile, wide: loose, spaces: spaces, prec: 10}
		if crossFile && plans[i].kind == "s" && r.Intn(2) == 0 {
			plans[i].numText = true
		}
	}
	names := uniqueNames(r, ncols, collide, loose)
	tags := make([]string, ncols)
	for i := range tags {
		switch r.Intn(6) {
		case 0:
			tags[i] = strings.ToLower(namePool[r.Intn(len(namePool))])
			if !loose && (len(tags[i]) > 11 || tags[i] != exportNameLower(tags[i])) {
				tags[i] = ""
			}
		case 1:
			tags[i] = casePerturb(r, fmt.Sprintf("t%d", r.Intn(100)))
		case 2:
			if collide && ncols > 1 {
				tags[i] = strings.ToLower(names[r.Intn(ncols)]) // tag colliding with some field's name
			}
		}
	}
	if !collide { // make the effective column names distinct after lower-casing and 11-byte truncation
		seen := map[string]bool{}
		for i := range tags {
			for {
				eff := tags[i]
				if eff == "" {
					eff = names[i]
				}
				eff = strings.ToLower(eff)
				if len(eff) > 11 {
					eff = eff[:11]
				}
				if !seen[eff] {
					seen[eff] = true
					break
				}
				tags[i] = fmt.Sprintf("u%d", r.Intn(100000))
			}
		}
	}

	// ---- writer
	widths := make([]int, ncols)
	if r.Intn(2) == 0 {
		c.w.path = 'S'
		gpos := r.Intn(ncols + 1)
		for i := 0; i <= ncols; i++ {
			if i == gpos {
				c.w.sf = append(c.w.sf, sfield{"G", "", kind})
			}
			if i < ncols {
				c.w.sf = append(c.w.sf, sfield{names[i], tags[i], plans[i].kind})
				widths[i] = map[string]int{"i": 10, "f": 30, "s": 50}[plans[i].kind]
			}
		}
	} else {
		c.w.path = 'F'
		c.w.shpTyp = shapeTypeOf(kind)
		if r.Intn(12) == 0 {
			nullFile = true
			c.w.shpTyp = 0
		}
		for i := 0; i < ncols; i++ {
			nm := tags[i]
			if nm == "" {
				nm = names[i]
			}
			if loose && r.Intn(5) == 0 {
				nm = nm + " " // padded name
			}
			f := ffield{name: nm}
			switch plans[i].kind {
			case "i":
				f.typ, f.size = 'N', []int{10, 10, 5, 18, 20, 1}[r.Intn(6)]
			case "f":
				f.typ, f.size, f.prec = 'F', []int{30, 30, 20, 12, 40}[r.Intn(5)], []int{10, 10, 10, 0, 3, 15}[r.Intn(6)]
				plans[i].prec = f.prec
			default:
				f.typ, f.size = 'C', []int{50, 50, 10, 254, 255, 1}[r.Intn(6)]
			}
			widths[i] = f.size
			c.w.ff = append(c.w.ff, f)
		}
	}

	if c.w.path == 'S' && r.Intn(3) == 0 { // writer schedule: Encode and EncodeFields mixed on the one encoder
		k := r.Range(2, 4)
		for i := 0; i < k; i++ {
			c.w.wsched = append(c.w.wsched, "EF"[r.Intn(2)])
		}
		c.w.wsched[r.Intn(k)] = 'F'
		c.w.wsched[(r.Intn(k-1)+1+indexOf(c.w.wsched, 'F'))%k] = 'E'
	}

	// ---- reader
	rk := normalKind(kind)
	if r.Intn(3) == 0 {
		rk = "gI"
	}
	if loose && r.Intn(8) == 0 {
		rk = kind // same struct for reading: panics for gLS/gB
	}
	effName := func(i int) string {
		if c.w.path == 'F' {
			return c.w.ff[i].name
		}
		if tags[i] != "" {
			return tags[i]
		}
		return names[i]
	}
	mkS := func() spec {
		var sp spec
		sp.path = 'S'
		order := make([]int, 0, ncols+2)
		for i := 0; i < ncols; i++ {
			if r.Intn(8) != 0 {
				order = append(order, i)
			}
		}
		if r.Intn(3) == 0 { // shuffle
			for i := len(order) - 1; i > 0; i-- {
				j := r.Intn(i + 1)
				order[i], order[j] = order[j], order[i]
			}
		}
		used := map[string]bool{"G": true}
		gpos := r.Intn(len(order) + 1)
		for k := 0; k <= len(order); k++ {
			if k == gpos {
				sp.sf = append(sp.sf, sfield{"G", "", rk})
			}
			if k == len(order) {
				break
			}
			i := order[k]
			f := sfield{kind: plans[i].kind}
			if plans[i].numText {
				f.kind = []string{"i", "f", "s"}[r.Intn(3)]
			} else if crossFile && plans[i].kind != "s" && r.Intn(4) == 0 {
				f.kind = []string{"i", "f", "s"}[r.Intn(3)] // e.g. an int column read as float or string
			}
			en := strings.TrimSpace(effName(i))
			switch r.Intn(4) {
			case 0: // by tag (case perturbed), unrelated field name
				f.tag = casePerturb(r, en)
				f.name = fmt.Sprintf("Q%d", k)
			case 1: // by tag; the field name matches another column (tag must win)
				f.tag = casePerturb(r, en)
				f.name = exportName(casePerturb(r, strings.TrimSpace(effName(r.Intn(ncols)))))
			default: // by field name when the column name is an identifier, else by tag
				f.name = exportName(casePerturb(r, en))
				if !strings.EqualFold(f.name, en) {
					f.tag = casePerturb(r, en)
					f.name = fmt.Sprintf("Q%d", k)
				}
			}
			for used[f.name] {
				f.name = f.name + "x"
				if f.tag == "" {
					f.tag = casePerturb(r, en)
				}
			}
			used[f.name] = true
			sp.sf = append(sp.sf, f)
		}
		if r.Intn(4) == 0 { // a field no column matches
			sp.sf = append(sp.sf, sfield{"Unmatched9", "", []string{"i", "f", "s"}[r.Intn(3)]})
		}
		sp.reuse = r.Bool() // decode every row into one reused record variable, or into a fresh one per row
		return sp
	}
	// field-based call: all names / subset / permuted / duplicates / none
	mkF := func() spec {
		sp := spec{path: 'F'}
		variant := r.Intn(6)
		for i := 0; i < ncols; i++ {
			if variant == 1 && r.Intn(2) == 0 { // subset
				continue
			}
			if variant != 1 && variant != 4 && r.Intn(8) == 0 {
				continue
			}
			sp.names = append(sp.names, casePerturb(r, strings.TrimSpace(effName(i))))
		}
		switch variant {
		case 2: // permuted
			for i := len(sp.names) - 1; i > 0; i-- {
				j := r.Intn(i + 1)
				sp.names[i], sp.names[j] = sp.names[j], sp.names[i]
			}
		case 3: // duplicates
			if len(sp.names) > 0 {
				sp.names = append(sp.names, sp.names[r.Intn(len(sp.names))], sp.names[0])
			}
		case 4: // none: geometry only
			sp.names = nil
		}
		if loose && r.Intn(6) == 0 {
			sp.names = append(sp.names, "nosuchfield")
		}
		return sp
	}
	switch r.Intn(3) {
	case 0:
		c.r = mkS()
	case 1:
		c.r = mkF()
	default: // a reading schedule on one decoder: the call varies per row
		c.r.path = 'M'
		k := r.Range(2, 4)
		for i := 0; i < k; i++ {
			if r.Intn(3) == 0 {
				c.r.calls = append(c.r.calls, mkS())
			} else {
				c.r.calls = append(c.r.calls, mkF())
			}
		}
		if r.Intn(3) == 0 { // make sure a geometry-only read precedes reads with attributes
			c.r.calls[0] = spec{path: 'F'}
		}
	}

	// ---- records
	n := nrecs(r, tier)
	bigAt := -1
	staleCursor := false
	if n > 0 && r.Intn(15) == 0 { // one record of the file carries a big geometry (followed and preceded by ordinary ones)
		bigAt = r.Intn(n)
	}
	for i := 0; i < n; i++ {
		var rc rec
		rc.g = genGeom(r, kind)
		if bigAt == i {
			if bg := genBigGeom(r, kind); bg != nil {
				rc.g = bg
			}
		}
		if nullFile {
			rc.g = nil
		}
		if loose && kind == "gB" && c.w.path == 'S' && r.Intn(20) == 0 {
			rc.g = nil // typed nil *Bounds: Encode panics
		}
		nv := ncols
		if loose && c.w.path == 'F' && ncols > 0 && r.Intn(10) == 0 {
			nv = r.Intn(ncols) // fewer values than fields
		}
		extra := 0
		if loose && c.w.path == 'F' && r.Intn(12) == 0 {
			// MORE values than fields: go-shp's WriteAttribute indexes dbfFields out of range - a panic AFTER the shape
			// and the first len(fields) cells were written and BEFORE e.row++, so every later record of the file
			// writes its cells into an earlier row (model: encodeG, theorem C16_end_to_end)
			extra = 1 + r.Intn(2)
		}
		for j := 0; j < nv; j++ {
			p := plans[j]
			if loose && c.w.path == 'F' && r.Intn(15) == 0 { // a value of another type in that column
				p = colPlan{kind: []string{"i", "f", "s"}[r.Intn(3)], numText: true}
			}
			if i > 0 && j < len(c.recs[i-1].vals) && r.Intn(6) == 0 {
				// the same value as in the previous record (consecutive records sharing attribute values are the rule in
				// real tables): a writer or reader that treats "unchanged since the last row" specially shows here
				rc.vals = append(rc.vals, c.recs[i-1].vals[j])
				continue
			}
			rc.vals = append(rc.vals, genVal(r, p, widths[j]))
		}
		for j := 0; j < extra && nv == ncols; j++ {
			rc.vals = append(rc.vals, genVal(r, colPlan{kind: []string{"i", "f", "s"}[r.Intn(3)], numText: true}, 10))
		}
		if staleCursor {
			// after a record with left-over values the encoder's cursor is behind and every later cell is laid OVER an earlier
			// row's text: a short exponent literal ("74e-5") gets the old text's digits appended to its exponent
			// ("74e-50000000"), which strconv reads as 0 but the model's parser (C17 Dec: |scale| <= 5000) does not cover -
			// keep exponent forms out of the overlaid rows (assumption "decimal literals with |exponent| <= 5000")
			for j := range rc.vals {
				if rc.vals[j].k == 's' {
					rc.vals[j].s = strings.NewReplacer("e", "", "E", "").Replace(rc.vals[j].s)
				}
			}
		}
		if extra > 0 && nv == ncols {
			staleCursor = true
		}
		c.recs = append(c.recs, rc)
	}
	return c
}

func corpus() []fcase {
	P := func(x, y float64) geom.Point { return geom.Point{X: x, Y: y} }
	sv := func(s string) val { return val{k: 's', s: s} }
	iv := func(i int) val { return val{k: 'i', i: i} }
	fv := func(f float64) val { return val{k: 'f', f: f} }
	var out []fcase
	// 1. struct path, string in the last column, a shorter value after a longer one (fixed defect d0dd046)
	out = append(out, fcase{
		w:    spec{path: 'S', sf: []sfield{{"G", "", "gP"}, {"N", "", "i"}, {"S", "", "s"}}},
		r:    spec{path: 'S', sf: []sfield{{"G", "", "gP"}, {"N", "", "i"}, {"S", "", "s"}}},
		recs: []rec{{P(1, 2), []val{iv(5), sv("longvalue")}}, {P(3, 4), []val{iv(6), sv("x")}}, {P(5, 6), []val{iv(7), sv("")}}},
	})
	// 2. boxes of zero height / zero width / a point's bounds (fixed defect 4d7a28b)
	out = append(out, fcase{
		w: spec{path: 'S', sf: []sfield{{"G", "", "gB"}}},
		r: spec{path: 'S', sf: []sfield{{"G", "", "gPG"}}},
		recs: []rec{{&geom.Bounds{Min: P(0, 0), Max: P(1, 1)}, nil}, {&geom.Bounds{Min: P(0, 0), Max: P(1, 0)}, nil},
			{&geom.Bounds{Min: P(3, 4), Max: P(3, 4)}, nil}, {&geom.Bounds{Min: P(0, 0), Max: P(0, 1)}, nil},
			{&geom.Bounds{Min: P(math.NaN(), 0), Max: P(1, 1)}, nil}},
	})
	// 3. string edge cases, both paths
	var srecs []rec
	for _, s := range strPool {
		srecs = append(srecs, rec{P(0, 0), []val{sv(s)}})
	}
	out = append(out, fcase{w: spec{path: 'S', sf: []sfield{{"S", "", "s"}, {"G", "", "gP"}}}, r: spec{path: 'S', sf: []sfield{{"G", "", "gI"}, {"S", "", "s"}}}, recs: srecs})
	out = append(out, fcase{w: spec{path: 'F', shpTyp: 1, ff: []ffield{{"S", 'C', 50, 0}}}, r: spec{path: 'F', names: []string{"s"}}, recs: srecs})
	for _, s := range strPool { // one file per string so that each gets its own verdict
		out = append(out, fcase{w: spec{path: 'F', shpTyp: 1, ff: []ffield{{"S", 'C', 50, 0}}}, r: spec{path: 'F', names: []string{"S"}}, recs: []rec{{P(0, 0), []val{sv(s)}}}})
		out = append(out, fcase{w: spec{path: 'S', sf: []sfield{{"S", "", "s"}, {"G", "", "gP"}}}, r: spec{path: 'S', sf: []sfield{{"G", "", "gP"}, {"S", "", "s"}}}, recs: []rec{{P(0, 0), []val{sv(s)}}}})
	}
	// 4. integers and floats at the width boundaries, one file per value
	for _, i := range intPool {
		out = append(out, fcase{w: spec{path: 'S', sf: []sfield{{"G", "", "gP"}, {"N", "", "i"}}}, r: spec{path: 'S', sf: []sfield{{"G", "", "gP"}, {"N", "", "i"}}}, recs: []rec{{P(0, 0), []val{iv(i)}}}})
		out = append(out, fcase{w: spec{path: 'F', shpTyp: 1, ff: []ffield{{"N", 'N', 10, 0}}}, r: spec{path: 'F', names: []string{"N"}}, recs: []rec{{P(0, 0), []val{iv(i)}}}})
	}
	for _, f := range floatPool {
		out = append(out, fcase{w: spec{path: 'S', sf: []sfield{{"G", "", "gP"}, {"V", "", "f"}}}, r: spec{path: 'S', sf: []sfield{{"G", "", "gP"}, {"V", "", "f"}}}, recs: []rec{{P(0, 0), []val{fv(f)}}}})
		out = append(out, fcase{w: spec{path: 'F', shpTyp: 1, ff: []ffield{{"V", 'F', 30, 10}}}, r: spec{path: 'S', sf: []sfield{{"G", "", "gP"}, {"V", "", "f"}}}, recs: []rec{{P(0, 0), []val{fv(f)}}}})
	}
	// 5. one of each geometry kind, empty members, unclosed and closed rings, nil geometries in a NULL file
	out = append(out, fcase{w: spec{path: 'S', sf: []sfield{{"G", "", "gLS"}}}, r: spec{path: 'S', sf: []sfield{{"G", "", "gMLS"}}},
		recs: []rec{{geom.LineString{P(0, 0), P(1, 1)}, nil}, {geom.LineString{}, nil}, {geom.LineString{P(2, 2)}, nil}}})
	out = append(out, fcase{w: spec{path: 'S', sf: []sfield{{"G", "", "gMLS"}}}, r: spec{path: 'F'},
		recs: []rec{{geom.MultiLineString{{P(0, 0), P(1, 1)}, {}, {P(2, 2)}, {}}, nil}, {geom.MultiLineString{}, nil}, {geom.MultiLineString{{}, {}}, nil}}})
	out = append(out, fcase{w: spec{path: 'S', sf: []sfield{{"G", "", "gPG"}}}, r: spec{path: 'S', sf: []sfield{{"G", "", "gPG"}}},
		recs: []rec{{geom.Polygon{{P(0, 0), P(1, 0), P(1, 1)}, {P(0, 0), P(2, 0), P(2, 2), P(0, 0)}, {}, {P(5, 5)}}, nil}, {geom.Polygon{}, nil},
			{geom.Polygon{{P(0, 0), P(1, 1), P(math.Copysign(0, -1), 0)}}, nil}, {geom.Polygon{{P(math.NaN(), 0), P(1, 1), P(math.NaN(), 0)}}, nil}}})
	out = append(out, fcase{w: spec{path: 'F', shpTyp: 8}, r: spec{path: 'F'}, recs: []rec{{geom.MultiPoint{P(0, 0), P(1, 1)}, nil}, {geom.MultiPoint{}, nil}}})
	out = append(out, fcase{w: spec{path: 'F', shpTyp: 0, ff: []ffield{{"N", 'N', 10, 0}}}, r: spec{path: 'F', names: []string{"n"}}, recs: []rec{{nil, []val{iv(1)}}, {nil, []val{iv(2)}}}})
	// 6. reading with the writing struct: a LineString / *Bounds field cannot receive what comes back
	out = append(out, fcase{w: spec{path: 'S', sf: []sfield{{"G", "", "gLS"}}}, r: spec{path: 'S', sf: []sfield{{"G", "", "gLS"}}}, recs: []rec{{geom.LineString{P(0, 0), P(1, 1)}, nil}}})
	out = append(out, fcase{w: spec{path: 'S', sf: []sfield{{"G", "", "gB"}}}, r: spec{path: 'S', sf: []sfield{{"G", "", "gB"}}}, recs: []rec{{&geom.Bounds{Min: P(0, 0), Max: P(1, 1)}, nil}}})
	// 7. matching: tag first then name, case-insensitive, colliding tag/name, 11-byte truncation
	out = append(out, fcase{
		w:    spec{path: 'S', sf: []sfield{{"G", "", "gP"}, {"Alpha", "", "i"}, {"Beta", "alpha2", "i"}, {"Gamma", "BETA", "i"}, {"LongFieldName12", "", "i"}}},
		r:    spec{path: 'S', sf: []sfield{{"G", "", "gP"}, {"ALPHA", "", "i"}, {"Beta", "", "i"}, {"X", "Alpha2", "i"}, {"Gamma", "", "i"}, {"Alpha2", "gamma", "i"}, {"LongFieldName12", "", "i"}, {"Y", "longfieldna", "i"}}},
		recs: []rec{{P(0, 0), []val{iv(1), iv(2), iv(3), iv(4)}}},
	})
	out = append(out, fcase{
		w:    spec{path: 'S', sf: []sfield{{"G", "", "gP"}, {"Val", "", "i"}, {"VAL", "", "i"}, {"Other", "val", "i"}}},
		r:    spec{path: 'S', sf: []sfield{{"G", "", "gP"}, {"Val", "", "i"}, {"VAL", "", "i"}, {"Z", "VaL", "i"}}},
		recs: []rec{{P(0, 0), []val{iv(1), iv(2), iv(3)}}},
	})
	// 7a. column names of exactly eleven bytes fill go-shp's [11]byte name slot without a terminator and are matched like any other
	// (struct field name, tag, field-based name; ten bytes next to them)
	{
		ws := spec{path: 'S', sf: []sfield{{"G", "", "gP"}, {"ID", "", "i"}, {"Temperature", "", "f"}, {"Name", "stationname", "s"}, {"Abcdefghij", "", "i"}}}
		wf := spec{path: 'F', shpTyp: 1, ff: []ffield{{"ID", 'N', 10, 0}, {"Temperature", 'F', 30, 10}, {"StationName", 'C', 50, 0}, {"abcdefghij", 'N', 10, 0}}}
		recs := []rec{{P(1, 2), []val{iv(7), fv(21.5), sv("alpha"), iv(1)}}, {P(3, 4), []val{iv(8), fv(-3.25), sv("beta"), iv(2)}}}
		rs := spec{path: 'S', sf: []sfield{{"G", "", "gP"}, {"ID", "", "i"}, {"TEMPERATURE", "", "f"}, {"Q", "StationName", "s"}, {"Abcdefghij", "", "i"}}}
		rf := spec{path: 'F', names: []string{"id", "temperature", "STATIONNAME", "AbcdefghiJ"}}
		out = append(out, fcase{w: ws, r: rs, recs: recs}, fcase{w: ws, r: rf, recs: recs}, fcase{w: wf, r: rs, recs: recs}, fcase{w: wf, r: rf, recs: recs})
	}
	// 7b. reading schedules on one decoder: geometry-only reads between reads with attributes, DecodeRow after DecodeRowFields
	{
		w := spec{path: 'F', shpTyp: 1, ff: []ffield{{"id", 'N', 10, 0}, {"name", 'C', 50, 0}}}
		ws := spec{path: 'S', sf: []sfield{{"G", "", "gP"}, {"Id", "", "i"}, {"Name", "", "s"}}}
		var recs []rec
		for i := 0; i < 7; i++ {
			recs = append(recs, rec{P(float64(i), 0), []val{iv(100 + i), sv(fmt.Sprintf("r%d", i))}})
		}
		all := spec{path: 'F', names: []string{"id", "name"}}
		none := spec{path: 'F'}
		st := spec{path: 'S', sf: []sfield{{"G", "", "gP"}, {"Id", "", "i"}, {"Name", "", "s"}}}
		for _, sched := range [][]spec{{none, all}, {all, none, none}, {none, st}, {st, all, none}, {{path: 'F', names: []string{"name"}}, {path: 'F', names: []string{"NAME", "id", "name"}}, none, st}} {
			out = append(out, fcase{w: w, r: spec{path: 'M', calls: sched}, recs: recs})
			out = append(out, fcase{w: ws, r: spec{path: 'M', calls: sched}, recs: recs})
		}
	}
	// 7c. one reused record variable: empty strings / zeros after non-empty values must be assigned, not skipped
	{
		ws := spec{path: 'S', sf: []sfield{{"G", "", "gP"}, {"ID", "", "i"}, {"Name", "", "s"}, {"V", "", "f"}, {"Note", "", "s"}}}
		wf := spec{path: 'F', shpTyp: 1, ff: []ffield{{"ID", 'N', 10, 0}, {"Name", 'C', 50, 0}, {"V", 'F', 30, 10}, {"Note", 'C', 50, 0}}}
		recs := []rec{{P(1, 2), []val{iv(1), sv("alpha"), fv(1.5), sv("first")}}, {P(3, 4), []val{iv(2), sv(""), fv(0), sv("second")}},
			{P(5, 6), []val{iv(0), sv("gamma"), fv(2.5), sv("")}}, {P(7, 8), []val{iv(0), sv(""), fv(0), sv("")}}, {P(9, 9), []val{iv(5), sv("e"), fv(-1), sv("f")}}}
		rd := spec{path: 'S', reuse: true, sf: []sfield{{"G", "", "gP"}, {"ID", "", "i"}, {"Name", "", "s"}, {"V", "", "f"}, {"Note", "", "s"}}}
		out = append(out, fcase{w: ws, r: rd, recs: recs}, fcase{w: wf, r: rd, recs: recs})
		out = append(out, fcase{w: ws, r: spec{path: 'M', calls: []spec{rd, {path: 'F'}, rd}}, recs: recs})
	}
	// 7e. consecutive records with the SAME attribute values (and a change back): every record carries its own values
	{
		ws := spec{path: 'S', sf: []sfield{{"G", "", "gP"}, {"ID", "", "i"}, {"Name", "", "s"}, {"V", "", "f"}}}
		wf := spec{path: 'F', shpTyp: 1, ff: []ffield{{"ID", 'N', 10, 0}, {"Name", 'C', 50, 0}, {"V", 'F', 30, 10}}}
		recs := []rec{{P(1, 2), []val{iv(4), sv("same"), fv(1.5)}}, {P(3, 4), []val{iv(4), sv("same"), fv(1.5)}}, {P(5, 6), []val{iv(4), sv("same"), fv(1.5)}},
			{P(7, 8), []val{iv(5), sv("other"), fv(2.5)}}, {P(9, 9), []val{iv(4), sv("same"), fv(1.5)}}, {P(9, 9), []val{iv(4), sv("same"), fv(1.5)}}}
		rd := spec{path: 'S', sf: []sfield{{"G", "", "gP"}, {"ID", "", "i"}, {"Name", "", "s"}, {"V", "", "f"}}}
		rr := spec{path: 'S', reuse: true, sf: rd.sf}
		rf := spec{path: 'F', names: []string{"id", "name", "v"}}
		out = append(out, fcase{w: ws, r: rd, recs: recs}, fcase{w: ws, r: rr, recs: recs}, fcase{w: ws, r: rf, recs: recs},
			fcase{w: wf, r: rd, recs: recs}, fcase{w: wf, r: rr, recs: recs}, fcase{w: wf, r: rf, recs: recs})
	}
	// 7f. files with MANY records (row counters, chunked reads): 260 and 1100 points with an int and a short string column
	for _, n := range []int{260, 1100} {
		var recs []rec
		for i := 0; i < n; i++ {
			recs = append(recs, rec{P(float64(i), float64(-i)), []val{iv(i), sv(fmt.Sprintf("r%d", i))}})
		}
		ws := spec{path: 'S', sf: []sfield{{"G", "", "gP"}, {"ID", "", "i"}, {"Name", "", "s"}}}
		wf := spec{path: 'F', shpTyp: 1, ff: []ffield{{"ID", 'N', 10, 0}, {"Name", 'C', 8, 0}}}
		out = append(out, fcase{w: ws, r: spec{path: 'S', reuse: true, sf: ws.sf}, recs: recs},
			fcase{w: wf, r: spec{path: 'F', names: []string{"id", "name"}}, recs: recs})
	}
	// 7d. writer schedules: Encode and EncodeFields mixed on one NewEncoder encoder share the row cursor
	{
		sf := []sfield{{"G", "", "gP"}, {"Name", "", "s"}, {"V", "", "f"}}
		recs := []rec{{P(1, 1), []val{sv("first"), fv(1)}}, {P(2, 2), []val{sv("second"), fv(2)}}, {P(3, 3), []val{sv("third"), fv(3)}},
			{P(4, 4), []val{sv("fourth"), fv(4)}}, {P(5, 5), []val{sv("fifth"), fv(5)}}}
		rd := spec{path: 'S', sf: sf}
		for _, ws := range []string{"EEFE", "EF", "FE", "FFE", "EFF"} {
			out = append(out, fcase{w: spec{path: 'S', sf: sf, wsched: []byte(ws)}, r: rd, recs: recs})
			out = append(out, fcase{w: spec{path: 'S', sf: sf, wsched: []byte(ws)}, r: spec{path: 'F', names: []string{"name", "v"}}, recs: recs})
		}
		// a refused attribute (51 bytes) in between
		recs2 := []rec{recs[0], {P(2, 2), []val{sv(strings.Repeat("z", 51)), fv(2)}}, recs[2], recs[3]}
		out = append(out, fcase{w: spec{path: 'S', sf: sf, wsched: []byte("EEF")}, r: rd, recs: recs2})
		out = append(out, fcase{w: spec{path: 'S', sf: sf, wsched: []byte("FEE")}, r: rd, recs: recs2})
	}
	// 8. no geometry field in the archetype
	out = append(out, fcase{w: spec{path: 'S', sf: []sfield{{"N", "", "i"}}}, r: spec{path: 'F'}, recs: nil})
	// 9. EncodeFields drops an over-long value silently; Encode reports it and the row stays in the file
	out = append(out, fcase{w: spec{path: 'F', shpTyp: 1, ff: []ffield{{"N", 'N', 10, 0}, {"S", 'C', 50, 0}}}, r: spec{path: 'F', names: []string{"N", "S"}},
		recs: []rec{{P(0, 0), []val{iv(12345678901), sv("kept")}}, {P(1, 1), []val{iv(5), sv(strings.Repeat("z", 51))}}, {P(2, 2), []val{iv(6), sv("ok")}}}})
	out = append(out, fcase{w: spec{path: 'S', sf: []sfield{{"G", "", "gP"}, {"N", "", "i"}, {"S", "", "s"}}}, r: spec{path: 'S', sf: []sfield{{"G", "", "gP"}, {"N", "", "i"}, {"S", "", "s"}}},
		recs: []rec{{P(0, 0), []val{iv(12345678901), sv("lost")}}, {P(1, 1), []val{iv(5), sv(strings.Repeat("z", 51))}}, {P(2, 2), []val{iv(6), sv("ok")}}}})
	// 10. EncodeFields with more values than columns: index panic after the cells were written, the encoder's cursor stays
	// behind, the following records overwrite the beginnings of the cells of EARLIER rows and leave their own rows blank
	out = append(out, fcase{w: spec{path: 'F', shpTyp: 1, ff: []ffield{{"N", 'N', 10, 0}, {"S", 'C', 50, 0}}}, r: spec{path: 'F', names: []string{"N", "S"}},
		recs: []rec{{P(0, 0), []val{iv(1), sv("first")}}, {P(1, 1), []val{iv(22222), sv("second-long"), iv(7)}}, {P(2, 2), []val{iv(3), sv("3rd")}},
			{P(3, 3), []val{iv(4), sv(strings.Repeat("w", 51)), sv("x"), sv("y")}}, {P(4, 4), []val{iv(55), sv("")}}}})
	out = append(out, fcase{w: spec{path: 'F', shpTyp: 1, ff: nil}, r: spec{path: 'F'},
		recs: []rec{{P(0, 0), []val{iv(1)}}, {P(1, 1), nil}, {P(2, 2), []val{sv("s"), fv(1.5)}}}})
	out = append(out, fcase{w: spec{path: 'F', shpTyp: 1, ff: []ffield{{"V", 'F', 12, 3}}}, r: spec{path: 'S', sf: []sfield{{"G", "", "gP"}, {"V", "", "f"}}},
		recs: []rec{{P(0, 0), []val{fv(1.25), fv(2.5)}}, {P(1, 1), []val{fv(-3.125)}}, {P(2, 2), []val{fv(4)}}}})
	return out
}

func gen(seed uint64, tier string) {
	out := bufio.NewWriterSize(os.Stdout, 1<<20)
	defer out.Flush()
	r := vproto.NewRng(seed)
	for _, c := range corpus() {
		fmt.Fprintln(out, c.line())
	}
	n := 3000
	if tier == "thorough" {
		n = 40000
	}
	for i := 0; i < n; i++ {
		fmt.Fprintln(out, genCase(r, tier).line())
	}
	// the wide family: every regime in every run, then random ones
	nw := 10
	if tier == "thorough" {
		nw = 60
	}
	for i := 0; i < nw; i++ {
		fmt.Fprintln(out, genWide(r, i%5).line())
	}
	genReflect(out, seed, tier)
}

// ---------------------------------------------------------------- files beyond go-shp's int16 widths ("wide" family)

// genWide: NewEncoderFromFields / EncodeFields / DecodeRowFields on a field list whose attribute row or header does not
// fit go-shp's int16 counters (lean/GeomV/C16/Wrap.lean models what go-shp then does; classes `…-wide`, model vs code
// only): regime 0 row of 32768..65535 bytes (wrapped NEGATIVE: every EncodeFields panics in writeEmptyRecord after the
// shape was written), 1 row of exactly 65536 bytes (wrapped to 0: index fault), 2 row > 65536 bytes (wrapped to a small
// positive length: overlapping rows), 3 header >= 32768 bytes (1023+ columns: the constructor panics), 4 the last
// widths that fit (128 columns of 255 bytes; 1022 columns).
func genWide(r *vproto.Rng, regime int) fcase {
	var c fcase
	c.w.path = 'F'
	c.w.shpTyp = 1
	ncols, size := 129, 255
	switch regime {
	case 0:
		ncols, size = 129+r.Intn(128), 255
	case 1:
		ncols, size = 257, 255
	case 2:
		ncols, size = 258+r.Intn(40), 255
	case 3:
		ncols, size = 1023+r.Intn(6), 1+r.Intn(3)
	default:
		if r.Intn(2) == 0 {
			ncols, size = 128, 255
		} else {
			ncols, size = 1022, 1+r.Intn(2)
		}
	}
	for i := 0; i < ncols; i++ {
		sz := size
		if regime == 0 && i == 0 {
			sz = 1 + r.Intn(255) // the row length then falls anywhere in the wrapped range
		}
		c.w.ff = append(c.w.ff, ffield{name: fmt.Sprintf("c%d", i), typ: 'C', size: sz})
	}
	nrec := r.Intn(5)
	for i := 0; i < nrec; i++ {
		var rc rec
		rc.g = geom.Point{X: float64(r.Intn(100)), Y: float64(r.Intn(100))}
		nv := r.Intn(4)
		if r.Intn(4) == 0 {
			nv = ncols // a value for every column: the positioned writes reach far beyond the rows
		}
		for j := 0; j < nv && j < ncols; j++ {
			s := fmt.Sprintf("v%d_%d", i, j)
			if len(s) > c.w.ff[j].size {
				s = s[:c.w.ff[j].size]
			}
			rc.vals = append(rc.vals, val{k: 's', s: s})
		}
		c.recs = append(c.recs, rc)
	}
	c.r.path = 'F'
	nn := r.Intn(4)
	for i := 0; i < nn; i++ {
		switch r.Intn(5) {
		case 0:
			c.r.names = append(c.r.names, "c0")
		case 1:
			c.r.names = append(c.r.names, fmt.Sprintf("C%d", ncols-1))
		case 2:
			c.r.names = append(c.r.names, "nosuch")
		default:
			c.r.names = append(c.r.names, fmt.Sprintf("c%d", r.Intn(ncols)))
		}
	}
	return c
}
