// Harness for C12 (R-tree nearest-neighbour queries return the true nearest objects).
//
//	gen --seed S --tier T   one C11-style history per line followed by a batch of queries
//	                        K <n> (<x> <y> <k>)*   (k = 0: NearestNeighbor, k >= 1: NearestNeighbors(k))
//	impl                    runs the history on the real index/rtree, dumps the final tree through
//	                        the verif hook and appends every answer
package main

import (
	"bufio"
	"fmt"
	"os"
	"strings"

	"github.com/ctessum/geom"
	"github.com/ctessum/geom/index/rtree"

	"verif/harness/cmd/c11/rtwire"
	"verif/harness/vproto"
)

func finalSize(h *rtwire.Hist) int {
	cnt := map[int]int{}
	n := 0
	for _, o := range h.Ops {
		if o.Del {
			if cnt[o.ID] > 0 {
				cnt[o.ID]--
				n--
			}
		} else {
			cnt[o.ID]++
			n++
		}
	}
	return n
}

func addQueries(r *vproto.Rng, h *rtwire.Hist, nq int) {
	size := finalSize(h)
	ks := []int{0, 1, 2, 3, size - 1, size, size + 3, 0, 3, 2}
	h.KQs = []rtwire.KQ{}
	for i := 0; i < nq; i++ {
		o := h.Pool[r.Intn(len(h.Pool))]
		var x, y float64
		switch r.Intn(8) {
		case 0: // centre of a box (half-integers)
			x, y = (o.MinX+o.MaxX)/2, (o.MinY+o.MaxY)/2
		case 1: // corner
			x, y = o.MaxX, o.MinY
		case 2: // on an edge
			x, y = o.MinX, (o.MinY+o.MaxY)/2
		case 3: // just outside
			x, y = o.MaxX+1, o.MaxY+1
		case 4: // far outside
			x, y = float64(r.Range(-300, -100)), float64(r.Range(150, 400))
		case 5: // equidistant-prone grid point
			x, y = float64(r.Range(0, 10)*10), float64(r.Range(0, 10)*10)
		default:
			x, y = float64(r.Range(-10, 110)), float64(r.Range(-10, 110))
		}
		k := ks[(i+r.Intn(2))%len(ks)]
		if k < 0 {
			k = 0
		}
		h.KQs = append(h.KQs, rtwire.KQ{X: x, Y: y, K: k})
	}
}

func gen(seed uint64, tier string) []*rtwire.Hist {
	r := vproto.NewRng(seed ^ 0xC12)
	var hs []*rtwire.Hist
	for _, h := range rtwire.Corpus() {
		h.Ops = h.Ops[:len(h.Ops)*2/5] // stop while the tree is populated
		h.Class = "nn-" + h.Class
		addQueries(r, h, 12)
		hs = append(hs, h)
	}
	n := 500
	if tier == "thorough" {
		n = 6000
	}
	for i := 0; i < n; i++ {
		par := rtwire.Params[i%len(rtwire.Params)]
		kind := rtwire.Kinds[(i/len(rtwire.Params))%len(rtwire.Kinds)]
		var h *rtwire.Hist
		size := 6 + r.Intn(34)
		switch i % 5 {
		case 0, 1, 2: // grow only
			h = rtwire.GenHist(r, 3, par, kind, size, 1)
			// keep a prefix that is mostly inserts
			h.Ops = h.Ops[:len(h.Ops)/2]
			h.Class = fmt.Sprintf("nn-grow-%s-m%dM%d", kind, par[0], par[1])
		case 3: // after a region delete
			h = rtwire.GenHist(r, 2, par, kind, size, 1)
			h.Ops = h.Ops[:len(h.Ops)*3/4]
			h.Class = fmt.Sprintf("nn-region-%s-m%dM%d", kind, par[0], par[1])
		default: // after churn
			h = rtwire.GenHist(r, 1, par, kind, size, 1)
			h.Class = fmt.Sprintf("nn-boundary-%s-m%dM%d", kind, par[0], par[1])
		}
		addQueries(r, h, 14)
		hs = append(hs, h)
	}
	return hs
}

func runHist(line string, out *bufio.Writer) {
	var b strings.Builder
	b.WriteString(line)
	b.WriteString(" =>")
	defer func() {
		out.WriteString(b.String())
		out.WriteString("\n")
		out.Flush()
	}()
	var h *rtwire.Hist
	if msg := vproto.Safe(func() { h = rtwire.Parse(line) }); msg != "" {
		b.WriteString(" badline " + msg)
		return
	}
	objs, ids := h.Objects()
	tree := rtree.NewTree(h.Min, h.Max)
	msg := vproto.Safe(func() {
		for _, op := range h.Ops {
			if op.Del {
				tree.Delete(objs[op.ID])
			} else {
				tree.Insert(objs[op.ID])
			}
		}
	})
	if msg != "" {
		b.WriteString(" panic " + msg)
		return
	}
	root, _, _ := tree.VerifWalk(70)
	fmt.Fprintf(&b, " T %d %d", tree.Size(), tree.Depth())
	rtwire.Dump(&b, root, ids)
	for _, q := range h.KQs {
		p := geom.Point{X: q.X, Y: q.Y}
		if q.K == 0 {
			var res geom.Geom
			if msg := vproto.Safe(func() { res = tree.NearestNeighbor(p) }); msg != "" {
				b.WriteString(" | nn panic " + msg)
			} else if id, ok := ids[res]; ok {
				fmt.Fprintf(&b, " | nn %d", id)
			} else {
				b.WriteString(" | nn foreign")
			}
		} else {
			var res []geom.Geom
			if msg := vproto.Safe(func() { res = tree.NearestNeighbors(q.K, p) }); msg != "" {
				b.WriteString(" | knn panic " + msg)
			} else {
				b.WriteString(" | knn")
				rtwire.IDs(&b, res, ids)
			}
		}
	}
}

func main() {
	if len(os.Args) < 2 {
		fmt.Fprintln(os.Stderr, "usage: c12 gen --seed S --tier T | impl")
		os.Exit(2)
	}
	switch os.Args[1] {
	case "gen":
		seed, tier := vproto.SeedTier(os.Args[2:])
		w := bufio.NewWriter(os.Stdout)
		defer w.Flush()
		for _, h := range gen(seed, tier) {
			fmt.Fprintln(w, h.String())
		}
	case "impl":
		vproto.Lines(runHist)
	default:
		os.Exit(2)
	}
}
