// Harness for C12 (R-tree nearest-neighbour queries return the true nearest objects).
//
//	gen --seed S --tier T   one C11-style history per line followed by a batch of queries
//	                        K <n> (<x> <y> <k>)*   (k = 0: NearestNeighbor, k >= 1: NearestNeighbors(k))
//	impl                    runs the history on the real index/rtree, dumps the final tree through
//	                        the verif hook and appends every answer
package main

import (
	"bufio"
	"fmt"
	"os"
	"strings"

	"github.com/ctessum/geom"
	"github.com/ctessum/geom/index/rtree"

	"verif/harness/cmd/c11/rtwire"
	"verif/harness/vproto"
)

func finalSize(h *rtwire.Hist) int {
	cnt := map[int]int{}
	n := 0
	for _, o := range h.Ops {
		if o.Del {
			if cnt[o.ID] > 0 {
				cnt[o.ID]--
				n--
			}
		} else {
			cnt[o.ID]++
			n++
		}
	}
	return n
}

func addQueries(r *vproto.Rng, h *rtwire.Hist, nq int) {
	size := finalSize(h)
	ks := []int{0, 1, 2, 3, size - 1, size, size + 3, 0, 3, 2}
	sc := h.Scale
	if sc == 0 {
		sc = 1
	}
	h.KQs = []rtwire.KQ{}
	for i := 0; i < nq; i++ {
		o := h.Pool[r.Intn(len(h.Pool))]
		var x, y float64
		switch r.Intn(8) {
		case 0: // centre of a box (half-integers)
			x, y = (o.MinX+o.MaxX)/2, (o.MinY+o.MaxY)/2
		case 1: // corner
			x, y = o.MaxX, o.MinY
		case 2: // on an edge
			x, y = o.MinX, (o.MinY+o.MaxY)/2
		case 3: // just outside
			x, y = o.MaxX+sc, o.MaxY+sc
		case 4: // far outside
			x, y = float64(r.Range(-300, -100))*sc, float64(r.Range(150, 400))*sc
		case 5: // equidistant-prone grid point
			x, y = float64(r.Range(0, 10)*10)*sc, float64(r.Range(0, 10)*10)*sc
		default:
			x, y = float64(r.Range(-10, 110))*sc, float64(r.Range(-10, 110))*sc
			if sc < 0.01 { // lattice / tiny units: anywhere in and around the unit square
				x, y = float64(r.Range(-100, 1124))/1024, float64(r.Range(-100, 1124))/1024
			}
		}
		k := ks[(i+r.Intn(2))%len(ks)]
		if i%3 == 2 { // any k in 1..size+3
			k = r.Range(1, size+3)
		}
		if k < 0 {
			k = 0
		}
		h.KQs = append(h.KQs, rtwire.KQ{X: x, Y: y, K: k})
	}
}

func gen(seed uint64, tier string) []*rtwire.Hist {
	r := vproto.NewRng(seed ^ 0xC12)
	var hs []*rtwire.Hist
	for _, h := range rtwire.Corpus() {
		h.Ops = h.Ops[:len(h.Ops)*2/5] // stop while the tree is populated
		h.Class = "nn-" + h.Class
		addQueries(r, h, 12)
		hs = append(hs, h)
	}
	// the same object inserted twice, deleted once, then asked for everything (k >= Size)
	for ki, kind := range rtwire.Kinds {
		pool := []rtwire.Box{{MinX: 0, MinY: 0, MaxX: 0, MaxY: 0}, {MinX: 3, MinY: 1, MaxX: 3, MaxY: 1}, {MinX: 7, MinY: 2, MaxX: 7, MaxY: 2}, {MinX: 9, MinY: 9, MaxX: 9, MaxY: 9}}
		ops := []rtwire.Op{{ID: 0}, {ID: 0}, {ID: 1}, {ID: 2}, {Del: true, ID: 0}}
		if ki == 1 {
			ops = []rtwire.Op{{ID: 1}, {ID: 2}, {ID: 2}, {ID: 2}, {ID: 3}, {Del: true, ID: 2}, {ID: 0}}
		}
		h := &rtwire.Hist{Class: "nn-corpus-dup-delete-once", Min: 2, Max: 4 + ki, Kind: kind, Pool: pool, Ops: ops, Queries: []rtwire.Box{{MinX: 0, MinY: 0, MaxX: 1, MaxY: 1}}}
		sz := finalSize(h)
		h.KQs = []rtwire.KQ{{X: 1, Y: 1, K: sz}, {X: 5, Y: 5, K: sz + 3}, {X: 0, Y: 0, K: 0}, {X: 8, Y: 2, K: sz - 1}, {X: 8, Y: 2, K: 1}}
		hs = append(hs, h)
	}
	// sub-unit data: two groups inside the unit square (squared distance < distance)
	{
		var pool []rtwire.Box
		var ops []rtwire.Op
		for i := 0; i < 5; i++ {
			a := float64(i) / 64
			pool = append(pool, rtwire.Box{MinX: a, MinY: 0, MaxX: a, MaxY: 0})
			pool = append(pool, rtwire.Box{MinX: 0.5 + a, MinY: 0.5, MaxX: 0.5 + a, MaxY: 0.5})
		}
		for i := range pool {
			ops = append(ops, rtwire.Op{ID: i})
		}
		h := &rtwire.Hist{Class: "nn-corpus-subunit", Min: 2, Max: 4, Kind: "ptr", Pool: pool, Ops: ops, Scale: 1.0 / 64,
			Queries: []rtwire.Box{{MinX: 0, MinY: 0, MaxX: 1, MaxY: 1}}}
		addQueries(r, h, 14)
		h.KQs = append(h.KQs, rtwire.KQ{X: 0.25, Y: 0.125, K: 2}, rtwire.KQ{X: 0.25, Y: 0.25, K: 3}, rtwire.KQ{X: 0.375, Y: 0.25, K: 6})
		hs = append(hs, h)
	}
	n := 500
	if tier == "thorough" {
		n = 6000
	}
	for i := 0; i < n; i++ {
		par := rtwire.Params[i%len(rtwire.Params)]
		kind := rtwire.Kinds[(i/len(rtwire.Params))%len(rtwire.Kinds)]
		var h *rtwire.Hist
		size := 6 + r.Intn(34)
		switch i % 6 {
		case 5: // duplicates of few objects, inserted and deleted
			h = rtwire.GenHist(r, 4, par, kind, size, 1)
			h.Ops = h.Ops[:len(h.Ops)*(2+r.Intn(3))/5]
			h.Class = fmt.Sprintf("nn-dups-%s-m%dM%d", kind, par[0], par[1])
		case 0, 1, 2: // grow only
			h = rtwire.GenHist(r, 3, par, kind, size, 1)
			// keep a prefix that is mostly inserts
			h.Ops = h.Ops[:len(h.Ops)/2]
			h.Class = fmt.Sprintf("nn-grow-%s-m%dM%d", kind, par[0], par[1])
		case 3: // after a region delete
			h = rtwire.GenHist(r, 2, par, kind, size, 1)
			h.Ops = h.Ops[:len(h.Ops)*3/4]
			h.Class = fmt.Sprintf("nn-region-%s-m%dM%d", kind, par[0], par[1])
		default: // after churn
			h = rtwire.GenHist(r, 1, par, kind, size, 1)
			h.Class = fmt.Sprintf("nn-boundary-%s-m%dM%d", kind, par[0], par[1])
		}
		addQueries(r, h, 14)
		hs = append(hs, h)
	}
	return hs
}

func runHist(line string, out *bufio.Writer) {
	var b strings.Builder
	b.WriteString(line)
	b.WriteString(" =>")
	defer func() {
		out.WriteString(b.String())
		out.WriteString("\n")
		out.Flush()
	}()
	var h *rtwire.Hist
	if msg := vproto.Safe(func() { h = rtwire.Parse(line) }); msg != "" {
		b.WriteString(" badline " + msg)
		return
	}
	objs, ids := h.Objects()
	tree := rtree.NewTree(h.Min, h.Max)
	msg := vproto.Safe(func() {
		for _, op := range h.Ops {
			if op.Del {
				tree.Delete(objs[op.ID])
			} else {
				tree.Insert(objs[op.ID])
			}
		}
	})
	if msg != "" {
		b.WriteString(" panic " + msg)
		return
	}
	root, _, _ := tree.VerifWalk(70)
	fmt.Fprintf(&b, " T %d %d", tree.Size(), tree.Depth())
	rtwire.Dump(&b, root, ids)
	for _, q := range h.KQs {
		p := geom.Point{X: q.X, Y: q.Y}
		if q.K == 0 {
			var res geom.Geom
			if msg := vproto.Safe(func() { res = tree.NearestNeighbor(p) }); msg != "" {
				b.WriteString(" | nn panic " + msg)
			} else if id, ok := ids[res]; ok {
				fmt.Fprintf(&b, " | nn %d", id)
			} else {
				b.WriteString(" | nn foreign")
			}
		} else {
			var res []geom.Geom
			if msg := vproto.Safe(func() { res = tree.NearestNeighbors(q.K, p) }); msg != "" {
				b.WriteString(" | knn panic " + msg)
			} else {
				b.WriteString(" | knn")
				rtwire.IDs(&b, res, ids)
			}
		}
	}
}

func main() {
	if len(os.Args) < 2 {
		fmt.Fprintln(os.Stderr, "usage: c12 gen --seed S --tier T | impl")
		os.Exit(2)
	}
	switch os.Args[1] {
	case "gen":
		seed, tier := vproto.SeedTier(os.Args[2:])
		w := bufio.NewWriter(os.Stdout)
		defer w.Flush()
		for _, h := range gen(seed, tier) {
			fmt.Fprintln(w, h.String())
		}
	case "impl":
		vproto.Lines(runHist)
	default:
		os.Exit(2)
	}
}
