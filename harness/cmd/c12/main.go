// Harness for C12 (R-tree nearest-neighbour queries return the true nearest objects).
//
//	gen --seed S --tier T   one C11-style history per line followed by a batch of queries
//	                        K <n> (<x> <y> <k>)*   (k = 0: NearestNeighbor, k >= 1: NearestNeighbors(k))
//	impl                    runs the history on the real index/rtree, dumps the final tree through
//	                        the verif hook and appends every answer
package main

import (
	"bufio"
	"fmt"
	"math"
	"os"
	"strings"

	"github.com/ctessum/geom"
	"github.com/ctessum/geom/index/rtree"

	"verif/harness/cmd/c11/rtwire"
	"verif/harness/vproto"
)

// kZero on the wire: NearestNeighbors(0, p) (K = 0 is NearestNeighbor); other negative K are passed
// as they are (make panics).  Both are outside the property's k >= 1: correspondence with the model.
const kZero = -1000

func finalSize(h *rtwire.Hist) int {
	cnt := map[int]int{}
	n := 0
	for _, o := range h.Ops {
		if o.Qry {
			continue
		}
		if o.Del {
			if cnt[o.ID] > 0 {
				cnt[o.ID]--
				n--
			}
		} else {
			cnt[o.ID]++
			n++
		}
	}
	return n
}

func addQueries(r *vproto.Rng, h *rtwire.Hist, nq int) {
	size := finalSize(h)
	ks := []int{0, 1, 2, 3, size - 1, size, size + 3, 0, 3, 2}
	sc := h.Scale
	if sc == 0 {
		sc = 1
	}
	h.KQs = []rtwire.KQ{}
	for i := 0; i < nq; i++ {
		o := h.Pool[r.Intn(len(h.Pool))]
		var x, y float64
		switch r.Intn(8) {
		case 0: // centre of a box (half-integers)
			x, y = (o.MinX+o.MaxX)/2, (o.MinY+o.MaxY)/2
		case 1: // corner
			x, y = o.MaxX, o.MinY
		case 2: // on an edge
			x, y = o.MinX, (o.MinY+o.MaxY)/2
		case 3: // just outside
			x, y = o.MaxX+sc, o.MaxY+sc
		case 4: // far outside
			x, y = float64(r.Range(-300, -100))*sc, float64(r.Range(150, 400))*sc
		case 5: // equidistant-prone grid point
			x, y = float64(r.Range(0, 10)*10)*sc, float64(r.Range(0, 10)*10)*sc
		default:
			x, y = float64(r.Range(-10, 110))*sc, float64(r.Range(-10, 110))*sc
			if sc < 0.01 { // lattice / tiny units: anywhere in and around the unit square
				x, y = float64(r.Range(-100, 1124))/1024, float64(r.Range(-100, 1124))/1024
			}
		}
		k := ks[(i+r.Intn(2))%len(ks)]
		if i%3 == 2 { // any k in 1..size+3
			k = r.Range(1, size+3)
		}
		if k < 0 {
			k = 0
		}
		h.KQs = append(h.KQs, rtwire.KQ{X: x, Y: y, K: k})
	}
}

// askAll appends one query op per query that is not yet referenced by the history
func askAll(h *rtwire.Hist) {
	used := map[int]bool{}
	for _, o := range h.Ops {
		if o.Qry {
			used[o.ID] = true
		}
	}
	for j := range h.KQs {
		if !used[j] {
			h.Ops = append(h.Ops, rtwire.Op{Qry: true, ID: j})
		}
	}
}

func boxDist2(x, y float64, b rtwire.Box) float64 {
	dx, dy := 0.0, 0.0
	if x < b.MinX {
		dx = b.MinX - x
	} else if x > b.MaxX {
		dx = x - b.MaxX
	}
	if y < b.MinY {
		dy = b.MinY - y
	} else if y > b.MaxY {
		dy = y - b.MaxY
	}
	return dx*dx + dy*dy
}

// state of a history under construction (multiset of stored ids)
type st struct {
	h       *rtwire.Hist
	present []int
}

func (s *st) ins(id int) {
	s.h.Ops = append(s.h.Ops, rtwire.Op{ID: id})
	s.present = append(s.present, id)
}
func (s *st) del(id int) {
	s.h.Ops = append(s.h.Ops, rtwire.Op{Del: true, ID: id})
	for i, p := range s.present {
		if p == id {
			s.present = append(s.present[:i], s.present[i+1:]...)
			return
		}
	}
}
func (s *st) ask(x, y float64, k int) int {
	s.h.KQs = append(s.h.KQs, rtwire.KQ{X: x, Y: y, K: k})
	j := len(s.h.KQs) - 1
	s.h.Ops = append(s.h.Ops, rtwire.Op{Qry: true, ID: j})
	return j
}
func (s *st) again(j int) { s.h.Ops = append(s.h.Ops, rtwire.Op{Qry: true, ID: j}) }
func (s *st) has(id int) bool {
	for _, p := range s.present {
		if p == id {
			return true
		}
	}
	return false
}
func (s *st) nearest(x, y float64, stored bool) int { // nearest stored / not stored pool object
	best, bd := -1, 0.0
	for id, b := range s.h.Pool {
		if s.has(id) != stored {
			continue
		}
		if d := boxDist2(x, y, b); best < 0 || d < bd {
			best, bd = id, d
		}
	}
	return best
}

// interleaved: the identical query repeated across mutations that restore Size (delete one of
// the answers + insert a nearer object, and the other way round), repeated with no change, with
// NearestNeighbor and other queries in between or not.
func genInterleaved(r *vproto.Rng, par [2]int, kind string, i int) *rtwire.Hist {
	size := 6 + r.Intn(24)
	h := rtwire.GenHist(r, 3, par, kind, size, 1)
	pool := h.Pool
	h.Ops = nil
	h.KQs = []rtwire.KQ{}
	h.Class = fmt.Sprintf("nn-interleaved-%s-m%dM%d", kind, par[0], par[1])
	s := &st{h: h}
	n := len(pool) * 2 / 3
	for id := 0; id < n; id++ {
		s.ins(id)
	}
	sc := h.Scale
	if sc == 0 {
		sc = 1
	}
	for round := 0; round < 4; round++ {
		o := pool[r.Intn(len(pool))]
		x, y := o.MinX+float64(r.Range(-3, 3))*sc, o.MaxY+float64(r.Range(-3, 3))*sc
		k := []int{1, 2, 3, 3, len(s.present), r.Range(1, len(s.present)+2)}[r.Intn(6)]
		j := s.ask(x, y, k)
		switch (i + round) % 5 {
		case 0: // delete the nearest answer, insert the nearest absent object, ask again
			if d := s.nearest(x, y, true); d >= 0 {
				s.del(d)
			}
			if a := s.nearest(x, y, false); a >= 0 {
				s.ins(a)
			}
			s.again(j)
		case 1: // insert first, then delete
			if a := s.nearest(x, y, false); a >= 0 {
				s.ins(a)
			}
			if d := s.nearest(x, y, true); d >= 0 {
				s.del(d)
			}
			s.again(j)
		case 2: // no change, NearestNeighbor in between
			s.ask(x, y, 0)
			s.again(j)
			s.again(j)
		case 3: // two deletes and two inserts of random objects
			for c := 0; c < 2 && len(s.present) > 1; c++ {
				s.del(s.present[r.Intn(len(s.present))])
			}
			for c := 0; c < 2; c++ {
				if a := s.nearest(float64(r.Range(0, 100))*sc, float64(r.Range(0, 100))*sc, false); a >= 0 {
					s.ins(a)
				}
			}
			s.again(j)
		default: // a single mutation, and a different k in between
			if d := s.nearest(x, y, true); d >= 0 && len(s.present) > 1 {
				s.del(d)
			}
			s.again(j)
			s.ask(x, y, k+1)
			s.again(j)
		}
		s.ask(x, y, 0)
	}
	return h
}

// sweep: small-branching trees of height >= 3, deletes that do not underflow, and after every
// delete a sweep of NearestNeighbor / k = 1 queries on a half-unit grid around the data.
func genSweep(r *vproto.Rng, par [2]int, kind string) *rtwire.Hist {
	n := 9 + r.Intn(22)
	h := &rtwire.Hist{Min: par[0], Max: par[1], Kind: kind, Queries: []rtwire.Box{{MinX: 0, MinY: 0, MaxX: 1, MaxY: 1}}, KQs: []rtwire.KQ{}}
	h.Class = fmt.Sprintf("nn-sweep-%s-m%dM%d", kind, par[0], par[1])
	seen := map[[2]int]bool{}
	for len(h.Pool) < n+3 {
		x, y := r.Range(0, 20), r.Range(0, 20)
		if seen[[2]int{x, y}] {
			continue
		}
		seen[[2]int{x, y}] = true
		b := rtwire.Box{MinX: float64(x), MinY: float64(y), MaxX: float64(x + 1), MaxY: float64(y + 1)}
		if kind == "pt" {
			b.MaxX, b.MaxY = b.MinX, b.MinY
		}
		h.Pool = append(h.Pool, b)
	}
	s := &st{h: h}
	for id := 0; id < n; id++ {
		s.ins(id)
	}
	// side >= 0: half of the points lie in the strip along that side of the data (where a stale,
	// oversized ancestor box would still reach)
	side := -1
	sweep := func(m int) {
		for c := 0; c < m; c++ {
			x, y := float64(r.Range(-2, 44))/2, float64(r.Range(-2, 44))/2
			if side >= 0 && c%2 == 0 {
				a := float64(r.Range(-6, 4)) / 2
				switch side {
				case 0:
					x = 21 + a
				case 1:
					x = -a
				case 2:
					y = 21 + a
				default:
					y = -a
				}
			}
			s.ask(x, y, (c/2)%2) // NearestNeighbor and NearestNeighbors(1)
		}
	}
	sweep(6)
	for round := 0; round < 4 && len(s.present) > 3; round++ {
		// prefer an object on the hull of the data (it alone defines an edge of ancestor boxes)
		best, bv := -1, 0.0
		dir := r.Intn(4)
		for _, id := range s.present {
			b := h.Pool[id]
			v := []float64{b.MaxX, -b.MinX, b.MaxY, -b.MinY}[dir]
			if best < 0 || v > bv {
				best, bv = id, v
			}
		}
		side = dir
		if r.Chance(0.25) {
			best = s.present[r.Intn(len(s.present))]
			side = -1
		}
		s.del(best)
		sweep(24)
	}
	s.ins(n)
	sweep(6)
	return h
}

// drain: grow to (at least) three levels, delete every object, and after EACH deletion ask
// NearestNeighbors with k in {1,2,3,7} (NearestNeighbor only while something is stored: its panic
// on the empty tree is documented); ends on the empty tree, optionally refilled.
func genDrain(r *vproto.Rng, par [2]int, kind string, order int) *rtwire.Hist {
	n := 3*par[1] + r.Intn(2*par[1]+1)
	if n > 40 {
		n = 40
	}
	h := rtwire.GenHist(r, 3, par, kind, n, 1)
	h.Ops = nil
	h.KQs = []rtwire.KQ{}
	h.Class = fmt.Sprintf("nn-drain-%s-m%dM%d", kind, par[0], par[1])
	s := &st{h: h}
	sc := h.Scale
	if sc == 0 {
		sc = 1
	}
	pt := func() (float64, float64) {
		o := h.Pool[r.Intn(len(h.Pool))]
		return o.MinX + float64(r.Range(-2, 2))*sc, o.MaxY + float64(r.Range(-2, 2))*sc
	}
	x, y := pt()
	for _, k := range []int{1, 2, 3, 7} { // fresh tree
		s.ask(x, y, k)
	}
	for id := 0; id < n && id < len(h.Pool); id++ {
		s.ins(id)
	}
	ks := []int{1, 2, 3, 7}
	for len(s.present) > 0 {
		var id int
		switch order {
		case 0:
			id = s.present[0]
		case 1:
			id = s.present[len(s.present)-1]
		default:
			id = s.present[r.Intn(len(s.present))]
		}
		s.del(id)
		x, y = pt()
		s.ask(x, y, ks[len(s.present)%4])
		if len(s.present) <= 3 {
			for _, k := range ks {
				s.ask(x, y, k)
			}
		}
		if len(s.present) > 0 && r.Chance(0.3) {
			s.ask(x, y, 0)
		}
	}
	s.del(0) // absent object on the empty tree
	for _, k := range ks {
		s.ask(x, y, k)
	}
	if r.Bool() {
		s.ins(0)
		s.ask(x, y, 1)
		s.ask(x, y, 0)
		s.del(0)
		s.ask(x, y, 1)
	}
	return h
}

// far: a tight cluster of objects about 2^26 units away from the query points, so that the
// squared box distances are exact integers in [2^51, 2^53) that differ by 1, 2, 3, 4, ... - closer
// together than the float64 grid of their square roots (ulp 2^-26 at 2^26): a comparison of
// math.Sqrt values cannot tell them apart, a comparison of the squared values can.  layout 0: the
// cluster lies straight east of the query (objects of one column differ by dy^2 only), layout 1:
// on the diagonal (objects of one anti-diagonal differ by a^2+b^2 only).  The whole picture is
// multiplied by a power of two (exactness is scale-free), e.g. 2^-26: data around (1,0) with
// offsets of 2^-26.
func genFar(r *vproto.Rng, par [2]int, kind string, layout int, i int) *rtwire.Hist {
	scales := []float64{1, 1, 0x1p-26, 0x1p-40, 0x1p60, 0x1p-3}
	sc := scales[r.Intn(len(scales))]
	h := &rtwire.Hist{Min: par[0], Max: par[1], Kind: kind, Scale: sc, KQs: []rtwire.KQ{},
		Queries: []rtwire.Box{{MinX: 0, MinY: 0, MaxX: sc, MaxY: sc}}}
	h.Class = fmt.Sprintf("nn-far%d-%s-m%dM%d", layout, kind, par[0], par[1])
	bx, by := float64(1<<26), 0.0
	if layout == 1 {
		bx, by = 47453132, 47453132 // ~2^25.5 each: the sum of the squares stays below 2^53
	}
	n := 6 + r.Intn(3*par[1])
	if n > 36 {
		n = 36
	}
	span := 2 + r.Intn(3)
	if m := (2*span+1)*(2*span+1)*3/5 - 4; n > m { // enough distinct lattice points for the pool
		n = m
	}
	seen := map[[2]int]bool{}
	for len(h.Pool) < n+4 {
		a, c := r.Range(-span, span), r.Range(-span, span)
		if seen[[2]int{a, c}] && (kind == "pt" || r.Chance(0.9)) { // a few coincident objects (exact ties); equal geom.Point values are one object
			continue
		}
		seen[[2]int{a, c}] = true
		b := rtwire.Box{MinX: bx + float64(a), MinY: by + float64(c)}
		b.MaxX, b.MaxY = b.MinX, b.MinY
		if kind != "pt" && r.Chance(0.4) {
			b.MaxX, b.MaxY = b.MinX+float64(r.Intn(2)), b.MinY+float64(r.Intn(2))
		}
		h.Pool = append(h.Pool, rtwire.Box{MinX: b.MinX * sc, MinY: b.MinY * sc, MaxX: b.MaxX * sc, MaxY: b.MaxY * sc})
	}
	s := &st{h: h}
	for id := 0; id < n; id++ {
		s.ins(id)
	}
	ask := func(m int) {
		for c := 0; c < m; c++ {
			x, y := float64(r.Range(-2, 2)), float64(r.Range(-2, 2))
			if layout == 0 {
				y = float64(r.Range(-span-1, span+1))
			}
			if r.Chance(0.15) { // from the other side
				x, y = 2*bx-x, 2*by-y
			}
			ks := []int{0, 1, 2, 3, len(s.present), len(s.present) + 2, 0, 1, r.Range(1, len(s.present)+1)}
			s.ask(x*sc, y*sc, ks[(c+i)%len(ks)])
		}
	}
	ask(10)
	s.ask(0, 0, []int{kZero, -1, -7}[i%3])
	for c := 0; c < 3 && len(s.present) > 2; c++ {
		s.del(s.present[r.Intn(len(s.present))])
	}
	s.ins(n)
	s.ins(n + 1)
	ask(8)
	return h
}

// round: NON-dyadic data, judged by the Spec only (class carries "specOnly": the tree heuristics' areas are
// inexact in float64, so the tree may differ from the exact model by tie-breaking) with a relative
// tolerance of 2^-40 on squared distances (the float64 distances carry a few ulp = 2^-52 of rounding).
// What it is after: MINMAXDIST pruning on ROUNDED values.  layout 0/1: point clouds / small boxes on
// the k/10 (k/7, k/3) grid in which coordinates are shared (zero-width / zero-height node boxes), the
// query outside the slab of such a box: before fix ef912a0 `S - d1*d1 + d2*d2` could round below MINDIST
// of the same box and every branch was pruned (panic "nearest neighbor is nil" on a non-empty tree).
// layout 2/3: one axis lives at 2^52 + {0..3} (all differences, squares and sums exact), the other on
// eighths: the midpoint (Min+Max)/2 of a node box is not a float64 there, and the old face selection
// took the NEARER face for the far one (MINMAXDIST too small by up to 1: the branch holding the nearest
// object was pruned, wrong answers by 30 % of the distance).
func genRound(r *vproto.Rng, par [2]int, kind string, layout int, i int) *rtwire.Hist {
	h := &rtwire.Hist{Min: par[0], Max: par[1], Kind: kind, KQs: []rtwire.KQ{},
		Queries: []rtwire.Box{{MinX: 0, MinY: 0, MaxX: 1, MaxY: 1}}}
	h.Class = fmt.Sprintf("nn-round%d-specOnly-%s-m%dM%d", layout, kind, par[0], par[1])
	var cx, cy func() float64
	if layout < 2 {
		d := []float64{10, 10, 7, 3}[r.Intn(4)]
		var shared []float64
		for c := 0; c < 4; c++ {
			shared = append(shared, float64(r.Intn(100))/d)
		}
		c := func() float64 {
			if r.Chance(0.5) {
				return shared[r.Intn(len(shared))]
			}
			return float64(r.Intn(100)) / d
		}
		cx, cy = c, c
	} else if layout >= 4 {
		// layout 4/5 "thin": a cluster on the tenths within [-6,6]^2 plus a few objects 1e8 .. 2^40 away along ONE axis, so
		// that node boxes are elongated by 2^27 and more relative to the query's distance from them: the far-face term
		// of one axis exceeds 2^53 times the other, and any formula that forms the far-corner sum S first and
		// subtracts (S - f*f + n*n) loses the small term completely (MINMAXDIST too small by the whole fy^2).
		far := []float64{1e8, -1e8, 3e9, float64(uint64(1) << 40), -float64(uint64(1) << 33), 2.5e8}
		near := func() float64 { return float64(r.Range(-60, 60)) / 10 }
		long := func() float64 {
			if r.Chance(0.22) {
				return far[r.Intn(len(far))] + float64(r.Intn(3))
			}
			return near()
		}
		cx, cy = long, near
		if layout == 5 {
			cx, cy = near, long
		}
	} else {
		big := func() float64 { return float64(uint64(1)<<52) + float64(r.Intn(4+2*(i%2))) }
		small := func() float64 { return float64(r.Range(-40, 40)) / 8 }
		cx, cy = small, big
		if layout == 3 {
			cx, cy = big, small
		}
	}
	n := 4 + r.Intn(4*par[1])
	if n > 40 {
		n = 40
	}
	seen := map[[2]float64]bool{}
	for tries := 0; len(h.Pool) < n+3 && tries < 4000; tries++ {
		x, y := cx(), cy()
		if seen[[2]float64{x, y}] && (kind == "pt" || r.Chance(0.9)) { // equal geom.Point values are one object
			continue
		}
		seen[[2]float64{x, y}] = true
		b := rtwire.Box{MinX: x, MinY: y, MaxX: x, MaxY: y}
		if kind != "pt" && r.Chance(0.35) { // segments and small boxes between grid values
			x2, y2 := cx(), cy()
			switch r.Intn(3) {
			case 0:
				x2 = x
			case 1:
				y2 = y
			}
			b = rtwire.Box{MinX: math.Min(x, x2), MinY: math.Min(y, y2), MaxX: math.Max(x, x2), MaxY: math.Max(y, y2)}
		}
		h.Pool = append(h.Pool, b)
	}
	if len(h.Pool) < 4 {
		h.Pool = append(h.Pool, rtwire.Box{MinX: 1, MinY: 1, MaxX: 1, MaxY: 1}, rtwire.Box{MinX: 2, MinY: 1, MaxX: 2, MaxY: 1},
			rtwire.Box{MinX: 3, MinY: 5, MaxX: 3, MaxY: 5}, rtwire.Box{MinX: 4, MinY: 2, MaxX: 4, MaxY: 2})
	}
	n = len(h.Pool) - 3
	s := &st{h: h}
	ask := func(m int) {
		for c := 0; c < m; c++ {
			ks := []int{0, 1, 0, 1, 0, 2, 0, 1, 3, 0, len(s.present), 0, 1, len(s.present) + 2}
			qx, qy := cx(), cy()
			if layout >= 4 { // queries stay near the cluster (within a few units of the short side of the thin boxes)
				qx, qy = float64(r.Range(-80, 80))/10, float64(r.Range(-80, 80))/10
			}
			s.ask(qx, qy, ks[(c+i)%len(ks)])
		}
	}
	for id := 0; id < n; id++ {
		s.ins(id)
		if id >= par[1] && id%3 == 0 { // also while the tree grows (just after the first splits)
			ask(2)
		}
	}
	ask(10)
	for c := 0; c < 3 && len(s.present) > 2; c++ {
		s.del(s.present[r.Intn(len(s.present))])
	}
	for id := n; id < len(h.Pool); id++ {
		s.ins(id)
	}
	ask(8)
	return h
}

// bigk: more than 64 (and more than 128) stored objects and k around 64 / 128 / Size, so that
// result slots beyond a fixed small prefix are exercised (every slot must start at MaxFloat64 and
// every slot must be shifted by insertNearest).
func genBigK(r *vproto.Rng, par [2]int, kind string, i int) *rtwire.Hist {
	size := 66 + r.Intn(80)
	h := rtwire.GenHist(r, 3, par, kind, size, 1)
	h.Ops = nil
	h.KQs = []rtwire.KQ{}
	h.Class = fmt.Sprintf("nn-bigk-%s-m%dM%d", kind, par[0], par[1])
	s := &st{h: h}
	for id := range h.Pool {
		s.ins(id)
	}
	sc := h.Scale
	if sc == 0 {
		sc = 1
	}
	ask := func() {
		n := len(s.present)
		for _, k := range []int{63, 64, 65, 66, n - 1, n, n + 3, 127, 128, 129, r.Range(60, n+2)} {
			if k < 1 {
				continue
			}
			o := h.Pool[r.Intn(len(h.Pool))]
			s.ask(o.MinX+float64(r.Range(-3, 3))*sc, o.MaxY+float64(r.Range(-3, 3))*sc, k)
		}
	}
	ask()
	for c := 0; c < 5 && len(s.present) > 1; c++ {
		s.del(s.present[r.Intn(len(s.present))])
	}
	ask()
	return h
}

// ring: MORE than eight kept branches below one node, the nearest object under a LATE one in MINDIST
// order.  All stored objects lie on (just outside) a circle of radius R around the query point except one
// to three "inner" objects at R-delta.  The leaves are arcs; the box of an arc has an EMPTY corner inside
// the circle, so its MINDIST is R^2(1 - sin(2θ+Δ)·sinΔ): smallest for the arcs around the diagonals,
// largest (R^2 cos^2 Δ) for the arcs at the axes - but still below (R-delta)^2 <= every MINMAXDIST, so
// MINMAXDIST pruning keeps EVERY branch and the arcs at the axes are visited last.  The inner objects sit
// near the axes (3 of 4) or anywhere.  Branching parameters with MaxChildren 9..25 (and the wide ones
// 66, 70) and 9..MaxChildren leaves below the root, or height 3 with wide internal nodes.  A search that
// keeps, visits or sorts only a bounded number of branches answers with an object at R instead of R-delta.
var ringParams = [][2]int{{4, 9}, {5, 11}, {2, 12}, {6, 12}, {6, 13}, {5, 16}, {8, 16}, {10, 20}, {12, 25}, {2, 11}, {33, 66}, {2, 70}}

func genRing(r *vproto.Rng, par [2]int, kind string, i int) *rtwire.Hist {
	sc := []float64{1, 1, 0.125, 16, 1.0 / 1024}[r.Intn(5)]
	h := &rtwire.Hist{Min: par[0], Max: par[1], Kind: kind, Scale: sc, KQs: []rtwire.KQ{},
		Queries: []rtwire.Box{{MinX: 0, MinY: 0, MaxX: sc, MaxY: sc}}}
	h.Class = fmt.Sprintf("nn-ring-%s-m%dM%d", kind, par[0], par[1])
	R := float64(r.Range(200, 1500))
	cx, cy := float64(r.Range(-2000, 2000)), float64(r.Range(-2000, 2000))
	M := par[1]
	fill := (par[0] + M + 1) / 2 // a typical leaf
	if fill < M*3/5 {
		fill = M * 3 / 5
	}
	leaves := r.Range(9, M+1)
	if i%5 == 4 && M >= 16 { // height 3: the root's children are wide internal nodes
		leaves = r.Range(M+2, 2*M)
	}
	n := leaves * fill
	if n > 420 {
		n = 420
	}
	seen := map[[2]float64]bool{}
	at := func(th, rad float64) (float64, float64) { // lattice point just outside radius rad
		x, y := rad*math.Cos(th), rad*math.Sin(th)
		if x >= 0 {
			x = math.Ceil(x)
		} else {
			x = math.Floor(x)
		}
		if y >= 0 {
			y = math.Ceil(y)
		} else {
			y = math.Floor(y)
		}
		return x, y
	}
	box := func(x, y float64) rtwire.Box {
		b := rtwire.Box{MinX: x, MinY: y, MaxX: x, MaxY: y}
		if kind != "pt" && r.Chance(0.3) { // grows away from the centre: the near corner stays the lattice point
			w, v := float64(r.Intn(4)), float64(r.Intn(4))
			if x >= 0 {
				b.MaxX += w
			} else {
				b.MinX -= w
			}
			if y >= 0 {
				b.MaxY += v
			} else {
				b.MinY -= v
			}
		}
		return rtwire.Box{MinX: (b.MinX + cx) * sc, MinY: (b.MinY + cy) * sc, MaxX: (b.MaxX + cx) * sc, MaxY: (b.MaxY + cy) * sc}
	}
	arc := 2 * math.Pi
	if i%3 == 1 { // one quadrant only
		arc = math.Pi / 2
	}
	for tries := 0; len(h.Pool) < n && tries < 20*n; tries++ {
		th := r.Float() * arc
		if i%2 == 0 { // evenly spread, jittered
			th = (float64(len(h.Pool)) + 0.8*r.Float()) / float64(n) * arc
		}
		x, y := at(th, R)
		if seen[[2]float64{x, y}] {
			continue
		}
		seen[[2]float64{x, y}] = true
		h.Pool = append(h.Pool, box(x, y))
	}
	n = len(h.Pool)
	// the inner objects
	ninner := 1 + r.Intn(3)
	for c := 0; c < ninner; c++ {
		th := r.Float() * arc
		if r.Chance(0.75) {
			th = float64(r.Intn(5))*math.Pi/2 + (r.Float()-0.5)*0.2
			if arc < 2 {
				th = float64(r.Intn(2))*math.Pi/2 + (1-2*float64(c%2))*r.Float()*0.1
				if th < 0 {
					th = -th
				}
				if th > arc {
					th = arc - (th - arc)
				}
			}
		}
		x, y := at(th, R-float64(3+c+r.Intn(3))-float64(r.Intn(int(R/60))))
		h.Pool = append(h.Pool, box(x, y))
	}
	s := &st{h: h}
	order := make([]int, n)
	for j := range order {
		order[j] = j
	}
	if i%4 != 3 { // random order (every fourth case: in the order of the angle)
		for j := n - 1; j > 0; j-- {
			k := r.Intn(j + 1)
			order[j], order[k] = order[k], order[j]
		}
	}
	pos := r.Intn(n + 1)
	for j, id := range order {
		if j == pos {
			for c := 0; c < ninner; c++ {
				s.ins(n + c)
			}
		}
		s.ins(id)
	}
	if pos == n {
		for c := 0; c < ninner; c++ {
			s.ins(n + c)
		}
	}
	ask := func() {
		for c, k := range []int{0, 1, 0, 1, 2, 0, M - 1, M, M + 1, 1, 0} {
			dx, dy := 0.0, 0.0
			if c >= 2 {
				dx, dy = float64(r.Range(-2, 2)), float64(r.Range(-2, 2))
			}
			s.ask((cx+dx)*sc, (cy+dy)*sc, k)
		}
	}
	ask()
	for c := ninner - 1; c >= 0; c-- { // delete the inner objects from the nearest to the farthest ... not quite: any order
		s.del(n + c)
		s.ask(cx*sc, cy*sc, c%2)
		s.ask(cx*sc, cy*sc, 1-c%2)
	}
	s.ins(n)
	ask()
	return h
}

// huge: coordinates on the grid {0..span}·2^e with e = 500, 505, 508 (span 1000, 60, 8): every squared distance is
// an exact float64 between 2^1000 and 2^1024 - far above 1e300 and MaxFloat32^2, just below MaxFloat64 - and no
// intermediate value of minDist / minMaxDist overflows (2·(span·2^e)^2 < 2^1024).  A search whose initial best
// distance is anything smaller than MaxFloat64 never stores an object here.
func genHuge(r *vproto.Rng, par [2]int, kind string, i int) *rtwire.Hist {
	e := []int{500, 505, 508}[i%3]
	span := []int{1000, 60, 8}[i%3]
	u := math.Ldexp(1, e)
	h := &rtwire.Hist{Min: par[0], Max: par[1], Kind: kind, Scale: u, KQs: []rtwire.KQ{},
		Queries: []rtwire.Box{{MinX: 0, MinY: 0, MaxX: u, MaxY: u}}}
	h.Class = fmt.Sprintf("nn-huge%d-%s-m%dM%d", e, kind, par[0], par[1])
	n := 3 + r.Intn(4*par[1])
	if n > 40 {
		n = 40
	}
	seen := map[[2]int]bool{}
	for tries := 0; len(h.Pool) < n+2 && tries < 4000; tries++ {
		x, y := r.Range(0, span), r.Range(0, span)
		if seen[[2]int{x, y}] {
			continue
		}
		seen[[2]int{x, y}] = true
		b := rtwire.Box{MinX: float64(x) * u, MinY: float64(y) * u, MaxX: float64(x) * u, MaxY: float64(y) * u}
		if kind != "pt" && r.Chance(0.3) {
			b.MaxX = float64(x+r.Intn(span-x+1)/4) * u
			b.MaxY = float64(y+r.Intn(span-y+1)/4) * u
		}
		h.Pool = append(h.Pool, b)
	}
	n = len(h.Pool) - 2
	s := &st{h: h}
	ask := func(m int) {
		for c := 0; c < m; c++ {
			ks := []int{0, 1, 2, 0, 3, len(s.present), 1, len(s.present) + 2, 0}
			s.ask(float64(r.Range(0, span))*u, float64(r.Range(0, span))*u, ks[(c+i)%len(ks)])
		}
	}
	for id := 0; id < n; id++ {
		s.ins(id)
		if id < 3 {
			ask(2)
		}
	}
	ask(9)
	for c := 0; c < 2 && len(s.present) > 1; c++ {
		s.del(s.present[r.Intn(len(s.present))])
	}
	s.ins(n)
	s.ins(n + 1)
	ask(6)
	return h
}

func gen(seed uint64, tier string) []*rtwire.Hist {
	r := vproto.NewRng(seed ^ 0xC12)
	var hs []*rtwire.Hist
	for _, h := range rtwire.Corpus() {
		if strings.Contains(h.Class, "specOnly") {
			continue // non-dyadic coordinates: float distances are inexact, not a C12 family
		}
		h.Ops = h.Ops[:len(h.Ops)*2/5] // stop while the tree is populated
		h.Class = "nn-" + h.Class
		addQueries(r, h, 12)
		hs = append(hs, h)
	}
	// the same object inserted twice, deleted once, then asked for everything (k >= Size)
	for ki, kind := range rtwire.Kinds {
		pool := []rtwire.Box{{MinX: 0, MinY: 0, MaxX: 0, MaxY: 0}, {MinX: 3, MinY: 1, MaxX: 3, MaxY: 1}, {MinX: 7, MinY: 2, MaxX: 7, MaxY: 2}, {MinX: 9, MinY: 9, MaxX: 9, MaxY: 9}}
		ops := []rtwire.Op{{ID: 0}, {ID: 0}, {ID: 1}, {ID: 2}, {Del: true, ID: 0}}
		if ki == 1 {
			ops = []rtwire.Op{{ID: 1}, {ID: 2}, {ID: 2}, {ID: 2}, {ID: 3}, {Del: true, ID: 2}, {ID: 0}}
		}
		h := &rtwire.Hist{Class: "nn-corpus-dup-delete-once", Min: 2, Max: 4 + ki, Kind: kind, Pool: pool, Ops: ops, Queries: []rtwire.Box{{MinX: 0, MinY: 0, MaxX: 1, MaxY: 1}}}
		sz := finalSize(h)
		h.KQs = []rtwire.KQ{{X: 1, Y: 1, K: sz}, {X: 5, Y: 5, K: sz + 3}, {X: 0, Y: 0, K: 0}, {X: 8, Y: 2, K: sz - 1}, {X: 8, Y: 2, K: 1}}
		hs = append(hs, h)
	}
	// sub-unit data: two groups inside the unit square (squared distance < distance)
	{
		var pool []rtwire.Box
		var ops []rtwire.Op
		for i := 0; i < 5; i++ {
			a := float64(i) / 64
			pool = append(pool, rtwire.Box{MinX: a, MinY: 0, MaxX: a, MaxY: 0})
			pool = append(pool, rtwire.Box{MinX: 0.5 + a, MinY: 0.5, MaxX: 0.5 + a, MaxY: 0.5})
		}
		for i := range pool {
			ops = append(ops, rtwire.Op{ID: i})
		}
		h := &rtwire.Hist{Class: "nn-corpus-subunit", Min: 2, Max: 4, Kind: "ptr", Pool: pool, Ops: ops, Scale: 1.0 / 64,
			Queries: []rtwire.Box{{MinX: 0, MinY: 0, MaxX: 1, MaxY: 1}}}
		addQueries(r, h, 14)
		h.KQs = append(h.KQs, rtwire.KQ{X: 0.25, Y: 0.125, K: 2}, rtwire.KQ{X: 0.25, Y: 0.25, K: 3}, rtwire.KQ{X: 0.375, Y: 0.25, K: 6})
		hs = append(hs, h)
	}
	// the documented query/delete/insert/identical-query sequence on six unit squares
	{
		corners := [][2]float64{{0, 0}, {1, 1}, {3, 1}, {5, 2}, {2, 4}, {6, 5}, {4, 6}}
		var pool []rtwire.Box
		for _, c := range corners {
			pool = append(pool, rtwire.Box{MinX: c[0], MinY: c[1], MaxX: c[0] + 1, MaxY: c[1] + 1})
		}
		h := &rtwire.Hist{Class: "nn-corpus-repeat-after-delete-insert", Min: 3, Max: 3, Kind: "bnd", Pool: pool,
			Queries: []rtwire.Box{{MinX: 0, MinY: 0, MaxX: 1, MaxY: 1}}, KQs: []rtwire.KQ{}}
		s := &st{h: h}
		for id := 1; id < len(pool); id++ {
			s.ins(id)
		}
		j := s.ask(0.5, 0.5, 3)
		s.again(j)
		s.del(1)
		s.ins(0)
		s.again(j)
		s.ask(0.5, 0.5, 0)
		s.del(0)
		s.again(j)
		s.ins(1)
		s.again(j)
		hs = append(hs, h)
	}
	// height 3 with (2,3), delete the object that alone defines an ancestor's edge, sweep
	{
		corners := [][2]float64{{11, 7}, {2, 8}, {7, 13}, {1, 9}, {19, 8}, {0, 18}, {13, 4}, {8, 6}, {0, 3}}
		var pool []rtwire.Box
		for _, c := range corners {
			pool = append(pool, rtwire.Box{MinX: c[0], MinY: c[1], MaxX: c[0] + 1, MaxY: c[1] + 1})
		}
		h := &rtwire.Hist{Class: "nn-corpus-sweep-after-delete", Min: 2, Max: 3, Kind: "bnd", Pool: pool,
			Queries: []rtwire.Box{{MinX: 0, MinY: 0, MaxX: 1, MaxY: 1}}, KQs: []rtwire.KQ{}}
		s := &st{h: h}
		for id := range pool {
			s.ins(id)
		}
		s.ask(19.5, 16.5, 0)
		s.del(4)
		s.ask(19.5, 16.5, 0)
		s.ask(19.5, 16.5, 1)
		for x := 15.0; x <= 21; x += 1.5 {
			for y := 10.0; y <= 21; y += 1.5 {
				s.ask(x, y, 0)
			}
		}
		hs = append(hs, h)
	}
	// squared distances 2^52 and 2^52+1 (both exact): their float64 square roots are equal.  The
	// farther object is inserted (and scanned) first.
	for ki, kind := range rtwire.Kinds {
		f := float64(1 << 26)
		pool := []rtwire.Box{{MinX: f, MinY: 1, MaxX: f, MaxY: 1}, {MinX: f, MinY: 0, MaxX: f, MaxY: 0}, {MinX: f + 1, MinY: 5, MaxX: f + 1, MaxY: 5},
			{MinX: f, MinY: -1, MaxX: f, MaxY: -1}, {MinX: f, MinY: 2, MaxX: f, MaxY: 2}, {MinX: f + 1, MinY: 0, MaxX: f + 1, MaxY: 0}}
		h := &rtwire.Hist{Class: "nn-corpus-sqrt-collapse", Min: 2, Max: 4 + ki, Kind: kind, Pool: pool,
			Queries: []rtwire.Box{{MinX: 0, MinY: 0, MaxX: 1, MaxY: 1}}, KQs: []rtwire.KQ{}}
		s := &st{h: h}
		s.ins(0)
		s.ins(1)
		s.ins(2)
		s.ask(0, 0, 0)
		s.ask(0, 0, 1)
		s.ask(0, 0, 2)
		s.ask(0, 0, 3)
		s.ins(4)
		s.ins(3)
		s.ins(5)
		for _, k := range []int{0, 1, 2, 3, 4, 6, 8} {
			s.ask(0, 0, k)
			s.ask(0, 1, k)
		}
		hs = append(hs, h)
	}
	// rounded MINMAXDIST (fixed by ef912a0): (a) two points with X = 9.8 make a zero-width leaf box whose
	// MINMAXDIST S - d1*d1 + d2*d2 rounded below its MINDIST: every branch pruned, NearestNeighbor panicked;
	// (b) Y at 2^52 + {0..3}: the midpoint of a node box is not a float64, the nearer face was taken for
	// the far one and the branch holding the nearest object was pruned.
	for ki, kind := range rtwire.Kinds {
		pts := [][2]float64{{6.5, 8.9}, {9.8, 3.4}, {3.2, 7.8}, {4.9, 5.4}, {9.8, 5.7}}
		var pool []rtwire.Box
		for _, c := range pts {
			pool = append(pool, rtwire.Box{MinX: c[0], MinY: c[1], MaxX: c[0], MaxY: c[1]})
		}
		h := &rtwire.Hist{Class: "nn-corpus-round-specOnly-zero-width", Min: 2, Max: 4, Kind: kind, Pool: pool,
			Queries: []rtwire.Box{{MinX: 0, MinY: 0, MaxX: 1, MaxY: 1}}, KQs: []rtwire.KQ{}}
		s := &st{h: h}
		for id := range pool {
			s.ins(id)
		}
		for _, k := range []int{0, 1, 2, 5, 7} {
			s.ask(8, 2.7, k)
		}
		s.ask(9.8, 0.1, 0)
		s.ask(0.3, 3.4, ki)
		hs = append(hs, h)
		b := float64(uint64(1) << 52)
		pts = [][2]float64{{4.625, b}, {1.875, b + 3}, {-2.5, b + 1}, {-3.25, b + 3}, {-3, b + 1}, {1.5, b + 2}}
		pool = nil
		for _, c := range pts {
			pool = append(pool, rtwire.Box{MinX: c[0], MinY: c[1], MaxX: c[0], MaxY: c[1]})
		}
		h = &rtwire.Hist{Class: "nn-corpus-round-specOnly-midpoint", Min: 2, Max: 4, Kind: kind, Pool: pool,
			Queries: []rtwire.Box{{MinX: 0, MinY: 0, MaxX: 1, MaxY: 1}}, KQs: []rtwire.KQ{}}
		s = &st{h: h}
		for id := range pool {
			s.ins(id)
		}
		for _, k := range []int{0, 1, 2, 6, 8} {
			s.ask(-2.625, b+2, k)
		}
		hs = append(hs, h)
	}
	// k = 0 and negative k (outside the property): empty slice / makeslice panic, tree untouched
	for ki, kind := range rtwire.Kinds {
		pool := []rtwire.Box{{MinX: 1, MinY: 1, MaxX: 1, MaxY: 1}, {MinX: 4, MinY: 0, MaxX: 4, MaxY: 0}, {MinX: 2, MinY: 5, MaxX: 2, MaxY: 5},
			{MinX: 7, MinY: 7, MaxX: 7, MaxY: 7}, {MinX: 0, MinY: 3, MaxX: 0, MaxY: 3}, {MinX: 6, MinY: 1, MaxX: 6, MaxY: 1}}
		h := &rtwire.Hist{Class: "nn-corpus-nonpositive-k", Min: 2, Max: 3 + ki, Kind: kind, Pool: pool,
			Queries: []rtwire.Box{{MinX: 0, MinY: 0, MaxX: 1, MaxY: 1}}, KQs: []rtwire.KQ{}}
		s := &st{h: h}
		s.ask(1, 1, kZero)
		s.ask(1, 1, -1)
		for id := range pool {
			s.ins(id)
			s.ask(3, 3, kZero)
			s.ask(3, 3, -1-id)
			s.ask(3, 3, 2)
		}
		s.ask(3, 3, -1<<40)
		s.ask(3, 3, 0)
		hs = append(hs, h)
	}
	// NearestNeighbors on trees that store nothing: fresh, and emptied by deletes
	for ki, kind := range rtwire.Kinds {
		pool := []rtwire.Box{{MinX: 1, MinY: 1, MaxX: 2, MaxY: 2}, {MinX: 4, MinY: 0, MaxX: 4, MaxY: 0}}
		if kind == "pt" {
			pool[0] = rtwire.Box{MinX: 1, MinY: 1, MaxX: 1, MaxY: 1}
		}
		h := &rtwire.Hist{Class: "nn-corpus-empty-tree", Min: 2, Max: 4 + ki, Kind: kind, Pool: pool,
			Queries: []rtwire.Box{{MinX: 0, MinY: 0, MaxX: 1, MaxY: 1}}, KQs: []rtwire.KQ{}}
		s := &st{h: h}
		for _, k := range []int{1, 2, 3, 7} {
			s.ask(0.5, 0.5, k)
		}
		s.ins(0)
		s.ask(0.5, 0.5, 1)
		s.del(0)
		for _, k := range []int{1, 2, 3, 7} {
			s.ask(3, 3, k)
		}
		s.del(1)
		s.ask(3, 3, 1)
		hs = append(hs, h)
	}
	for _, h := range hs {
		askAll(h)
	}
	for i := 0; i < 18; i++ {
		hs = append(hs, genDrain(r, [][2]int{{2, 4}, {2, 3}, {2, 5}, {3, 6}, {3, 7}, {4, 8}}[i%6], rtwire.Kinds[(i/6)%3], i%3))
	}
	n := 500
	if tier == "thorough" {
		n = 6000
	}
	for i := 0; i < n; i++ {
		par := rtwire.Params[i%len(rtwire.Params)]
		kind := rtwire.Kinds[(i/len(rtwire.Params))%len(rtwire.Kinds)]
		var h *rtwire.Hist
		size := 6 + r.Intn(34)
		if i%4 == 1 {
			hs = append(hs, genInterleaved(r, par, kind, i))
			continue
		}
		if i%4 == 3 {
			hs = append(hs, genSweep(r, [][2]int{{2, 3}, {2, 4}, {2, 3}, {2, 5}}[(i/4)%4], kind))
			continue
		}
		switch i % 6 {
		case 5: // duplicates of few objects, inserted and deleted
			h = rtwire.GenHist(r, 4, par, kind, size, 1)
			h.Ops = h.Ops[:len(h.Ops)*(2+r.Intn(3))/5]
			h.Class = fmt.Sprintf("nn-dups-%s-m%dM%d", kind, par[0], par[1])
		case 0, 1, 2: // grow only
			h = rtwire.GenHist(r, 3, par, kind, size, 1)
			// keep a prefix that is mostly inserts
			h.Ops = h.Ops[:len(h.Ops)/2]
			h.Class = fmt.Sprintf("nn-grow-%s-m%dM%d", kind, par[0], par[1])
		case 3: // after a region delete
			h = rtwire.GenHist(r, 2, par, kind, size, 1)
			h.Ops = h.Ops[:len(h.Ops)*3/4]
			h.Class = fmt.Sprintf("nn-region-%s-m%dM%d", kind, par[0], par[1])
		default: // after churn
			h = rtwire.GenHist(r, 1, par, kind, size, 1)
			h.Class = fmt.Sprintf("nn-boundary-%s-m%dM%d", kind, par[0], par[1])
		}
		addQueries(r, h, 14)
		askAll(h)
		hs = append(hs, h)
	}
	nfar := 60
	if tier == "thorough" {
		nfar = 600
	}
	for i := 0; i < nfar; i++ {
		par := [][2]int{{2, 4}, {2, 3}, {2, 5}, {3, 6}, {4, 8}, {3, 7}}[i%6]
		hs = append(hs, genFar(r, par, rtwire.Kinds[(i/6)%3], (i/2)%2, i))
	}
	nbig := 12
	if tier == "thorough" {
		nbig = 60
	}
	for i := 0; i < nbig; i++ {
		par := [][2]int{{25, 50}, {4, 8}, {2, 4}, {3, 7}}[i%4]
		hs = append(hs, genBigK(r, par, rtwire.Kinds[(i/4)%3], i))
	}
	nround := 80
	if tier == "thorough" {
		nround = 800
	}
	for i := 0; i < nround; i++ {
		par := [][2]int{{2, 4}, {2, 3}, {2, 5}, {3, 6}, {4, 8}, {3, 7}}[i%6]
		hs = append(hs, genRound(r, par, rtwire.Kinds[(i/6)%3], []int{0, 2, 1, 3, 0, 2, 3, 1}[(i/2)%8], i))
	}
	nring := 36
	if tier == "thorough" {
		nring = 240
	}
	for i := 0; i < nring; i++ {
		hs = append(hs, genRing(r, ringParams[i%len(ringParams)], rtwire.Kinds[(i/len(ringParams))%3], i))
	}
	// KNOWN finding (findings/C12.json): coordinates 2^600 apart - the squared distance overflows to +Inf, `dist < d`
	// fails against the initial math.MaxFloat64, nothing is ever stored: NearestNeighbor panics on a non-empty tree
	// and NearestNeighbors returns nil slots.  Judged by the Spec (class specOnly: tree areas overflow as well).
	for _, kind := range rtwire.Kinds {
		u := math.Ldexp(1, 600)
		pool := []rtwire.Box{{MinX: 0, MinY: 0, MaxX: 0, MaxY: 0}, {MinX: u, MinY: 0, MaxX: u, MaxY: 0}, {MinX: 0, MinY: 2 * u, MaxX: 0, MaxY: 2 * u}}
		h := &rtwire.Hist{Class: "nn-corpus-overflow-specOnly", Min: 2, Max: 4, Kind: kind, Pool: pool,
			Queries: []rtwire.Box{{MinX: 0, MinY: 0, MaxX: 1, MaxY: 1}}, KQs: []rtwire.KQ{}}
		s := &st{h: h}
		for id := range pool {
			s.ins(id)
		}
		s.ask(3*u, 0, 0)
		s.ask(3*u, 0, 2)
		s.ask(3*u, u, 1)
		hs = append(hs, h)
	}
	nhuge := 18
	if tier == "thorough" {
		nhuge = 120
	}
	for i := 0; i < nhuge; i++ {
		par := [][2]int{{2, 4}, {2, 3}, {3, 6}, {2, 5}, {4, 8}, {3, 7}}[i%6]
		hs = append(hs, genHuge(r, par, rtwire.Kinds[(i/6)%3], i))
	}
	// last, so that the random streams of the families above stay what they were
	nthin := 24
	if tier == "thorough" {
		nthin = 240
	}
	for i := 0; i < nthin; i++ {
		par := [][2]int{{2, 4}, {2, 3}, {2, 5}, {3, 6}, {4, 8}, {3, 7}}[i%6]
		hs = append(hs, genRound(r, par, rtwire.Kinds[(i/6)%3], 4+(i/3)%2, i))
	}
	return hs
}

func runHist(line string, out *bufio.Writer) {
	var b strings.Builder
	b.WriteString(line)
	b.WriteString(" =>")
	defer func() {
		out.WriteString(b.String())
		out.WriteString("\n")
		out.Flush()
	}()
	var h *rtwire.Hist
	if msg := vproto.Safe(func() { h = rtwire.Parse(line) }); msg != "" {
		b.WriteString(" badline " + msg)
		return
	}
	objs, ids := h.Objects()
	tree := rtree.NewTree(h.Min, h.Max)
	// every slice returned by NearestNeighbors is kept and rendered again after the whole history:
	// an answer must not change under later calls (shared backing arrays, memoised results)
	type keptAnswer struct {
		res []geom.Geom
		str string
		n   int
	}
	var kept []keptAnswer
	nq := 0
	for i, op := range h.Ops {
		if !op.Qry {
			msg := vproto.Safe(func() {
				if op.Del {
					tree.Delete(objs[op.ID])
				} else {
					tree.Insert(objs[op.ID])
				}
			})
			if msg != "" {
				fmt.Fprintf(&b, " | oppanic %d %s", i+1, msg)
				return
			}
			continue
		}
		q := h.KQs[op.ID]
		p := geom.Point{X: q.X, Y: q.Y}
		nq++
		if q.K == 0 {
			var res geom.Geom
			if msg := vproto.Safe(func() { res = tree.NearestNeighbor(p) }); msg != "" {
				b.WriteString(" | nn panic " + msg)
			} else if id, ok := ids[res]; ok {
				fmt.Fprintf(&b, " | nn %d", id)
			} else {
				b.WriteString(" | nn foreign")
			}
		} else {
			var res []geom.Geom
			k := q.K
			if k == kZero {
				k = 0
			}
			if msg := vproto.Safe(func() { res = tree.NearestNeighbors(k, p) }); msg != "" {
				b.WriteString(" | knn panic " + msg)
			} else {
				var sb strings.Builder
				rtwire.IDs(&sb, res, ids)
				b.WriteString(" | knn" + sb.String())
				kept = append(kept, keptAnswer{res, sb.String(), nq})
			}
		}
	}
	root, _, _ := tree.VerifWalk(70)
	fmt.Fprintf(&b, " | T %d %d", tree.Size(), tree.Depth())
	rtwire.Dump(&b, root, ids)
	for _, k := range kept {
		var sb strings.Builder
		rtwire.IDs(&sb, k.res, ids)
		if sb.String() != k.str {
			fmt.Fprintf(&b, " | changed %d", k.n)
		}
	}
}

func main() {
	if len(os.Args) < 2 {
		fmt.Fprintln(os.Stderr, "usage: c12 gen --seed S --tier T | impl")
		os.Exit(2)
	}
	switch os.Args[1] {
	case "gen":
		seed, tier := vproto.SeedTier(os.Args[2:])
		w := bufio.NewWriter(os.Stdout)
		defer w.Flush()
		for _, h := range gen(seed, tier) {
			fmt.Fprintln(w, h.String())
		}
	case "impl":
		vproto.Lines(runHist)
	default:
		os.Exit(2)
	}
}
