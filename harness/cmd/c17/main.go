// Harness for C17 (WKT output is well-formed OGC text that parses back). Subcommands:
//
//	gen --seed S --tier T   write case lines (inputs only)
//	impl                    read case lines, call wkt.Encode, append " => result"
//
// Result: "ok x<hex of the bytes> | <bits> <strconv 'g' rendering> ..." or "err | ...".
// The renderings are produced here with strconv.AppendFloat(x,'g',-1,64) for every coordinate
// of the input, NOT taken from the encoder's output: the Lean model is instantiated with them as
// its `fmt`, so that a byte difference isolates the structure assembled by encoding/wkt, while the
// Lean OGC parser reads the numbers of the real output with its own exact decimal conversion.
package main

import (
	"bufio"
	"encoding/hex"
	"errors"
	"fmt"
	"hash/fnv"
	"math"
	"math/big"
	"os"
	"strconv"
	"runtime"
	"strings"
	"sync"
	"sync/atomic"
	"time"

	"github.com/ctessum/geom"
	"github.com/ctessum/geom/encoding/wkt"

	"verif/harness/vproto"
)

var specials = []float64{
	0, math.Copysign(0, -1), 1, -1, 0.1, 0.5, -2.5, 1e21, 1e20, 9.999999999999999e20, 1.0000000000000001e21, 123456789012345680000, 1e22, 1e23,
	1e-4, 1e-5, 0.0001, 0.00001, 9.999999999999999e-5, 0.00010000000000000002, 1e-7, 1e-6, 1.5e-7, 1e-10,
	5e-324, 2.2250738585072014e-308, 2.225073858507201e-308, math.MaxFloat64, -math.MaxFloat64, 4.9e-324,
	0.30000000000000004, 0.1 + 0.7, 1.0 / 3, 2.0 / 3, 100, 1e15, 1e16, 1e17, 9007199254740993, 9007199254740992, 123456.789,
	1.7976931348623157e308, 8.41e21, 5e-5, 12345678901234567890, 0.000001, 1234567.0, 100000, 1e5, 1e100, 1e-100, 3.141592653589793,
	2.718281828459045, 179.99999999999997, -179.99999999999997, 89.99999999999999, 4503599627370496.5, 0.1e-3,
	// the real %e/%f switch of 'g' with shortest digits (formatDigits: eprec = 6): exponent < -4 || exponent >= 6
	999999, 1e6, 999999.9999999999, 1000000.0000000001, 999999.5, 1000001, 1.5e6, 123456, 1234567, 100000.5, 9.223372036854775808e18,
}

func coord(r *vproto.Rng, allowNonFinite bool) float64 {
	k := r.Intn(16)
	switch k {
	case 0:
		// arbitrary finite pattern
		for {
			f := math.Float64frombits(r.U64())
			if !math.IsNaN(f) && !math.IsInf(f, 0) {
				return f
			}
		}
	case 1:
		return math.Float64frombits(r.U64() & 0x000fffffffffffff) // subnormal
	case 2:
		return math.Copysign(0, -1)
	case 3, 4:
		return specials[r.Intn(len(specials))]
	case 5:
		// around the 'g' exponent-notation boundaries 1e-4/1e-5 and 1e6 (and 1e21, fmt's %v boundary)
		b := []float64{1e21, 1e-4, 1e-5, 1e20, 1e-7, 1e6, 1e5, 1e7}[r.Intn(8)]
		f := b
		for i := r.Intn(4); i > 0; i-- {
			if r.Bool() {
				f = math.Nextafter(f, math.Inf(1))
			} else {
				f = math.Nextafter(f, 0)
			}
		}
		if r.Bool() {
			f = -f
		}
		return f
	case 6:
		return float64(r.Range(-1000, 1000))
	case 7:
		// 17 significant digits
		return (r.Float() + 0.1) * math.Pow(10, float64(r.Range(-8, 22)))
	case 8:
		return math.Ldexp(float64(r.U64()>>11)+0.5, r.Range(-1074, 960)) // wide exponent sweep
	case 9:
		if allowNonFinite {
			return []float64{math.NaN(), math.Inf(1), math.Inf(-1)}[r.Intn(3)]
		}
		return float64(r.Range(-180, 180)) + r.Float()
	case 10:
		return float64(r.Range(-9, 9)) / 4
	default:
		return (r.Float() - 0.5) * math.Pow(10, float64(r.Range(-5, 12)))
	}
}

// decSpecials: doubles 1..3 ulps away from the double nearest a short decimal (round h): a formatter that
// decides "v has at most d decimals" in floating point prints the short decimal, which reads back as the neighbour
var decSpecials = []float64{
	math.Nextafter(12.34579, math.Inf(1)), 0.00021799999999999999, math.Nextafter(0.000218, 1), math.Nextafter(12.34579, 0),
	math.Nextafter(179.123456, math.Inf(1)), math.Nextafter(-89.5, 0), math.Nextafter(0.1, 1), math.Nextafter(0.1, 0),
	math.Nextafter(1234.5, math.Inf(1)), math.Nextafter(99999.999999, 0), math.Nextafter(2.5e-4, 1), math.Nextafter(1e3, 0),
	math.Nextafter(1e15, math.Inf(1)), math.Nextafter(123456789.123, 0), math.Nextafter(4.35, 0), math.Nextafter(1.005, 9),
}

// decNeighbour: the double nearest k/10^d (d in 1..17) or k*10^e (e in 0..4), k of 1..17 digits, moved by
// 0, ±1, ±2 or ±3 ulps (±1 half of the time), either sign.  Such values come out of arithmetic on "round"
// numbers (sums, midpoints, projections of lon/lat with a few decimals) and need 16–17 significant digits.
func decNeighbour(r *vproto.Rng) float64 {
	nd := r.Range(1, 17)
	k := uint64(r.Range(1, 9))
	for i := 1; i < nd; i++ {
		k = k*10 + uint64(r.Intn(10))
	}
	var e int
	switch r.Intn(8) {
	case 0:
		e = r.Range(0, 4)
	case 1, 2, 3:
		e = -r.Range(1, 6) // the everyday case: up to six decimals
	default:
		e = -r.Range(1, 17)
	}
	if r.Intn(3) > 0 && e < 0 && nd > -e+3 {
		// keep most magnitudes in the coordinate range (|v| < 1e3..1e6): drop leading digits
		m := uint64(1)
		for i := 0; i < -e+r.Range(0, 6); i++ {
			m *= 10
		}
		if k%m != 0 {
			k %= m
		}
	}
	f, err := strconv.ParseFloat(fmt.Sprintf("%de%d", k, e), 64) // correctly rounded
	if err != nil {
		return 1
	}
	steps := []int{1, -1, 1, -1, 2, -2, 3, -3, 0, 1, -1}[r.Intn(11)]
	for ; steps > 0; steps-- {
		f = math.Nextafter(f, math.Inf(1))
	}
	for ; steps < 0; steps++ {
		f = math.Nextafter(f, 0)
	}
	if r.Bool() {
		f = -f
	}
	return f
}

type cfg struct {
	emptyMember bool // allow members without vertices / zero member counts
	nonFinite   bool
	big         bool
	dec         bool // coordinates are decimal neighbours (4 of 5) or decSpecials
}

func (c cfg) co(r *vproto.Rng) float64 {
	if c.dec {
		switch r.Intn(10) {
		case 0:
			return coord(r, c.nonFinite)
		case 1:
			return decSpecials[r.Intn(len(decSpecials))]
		default:
			return decNeighbour(r)
		}
	}
	return coord(r, c.nonFinite)
}

func (c cfg) count(r *vproto.Rng, hi int) int {
	if c.emptyMember && r.Intn(4) == 0 {
		return 0
	}
	// large counts only at the vertex level (hi == 6 is used for vertices and Multi* members)
	if c.big && hi == 6 && r.Intn(60) == 0 {
		return []int{17, 64, 300}[r.Intn(3)]
	}
	switch r.Intn(6) {
	case 0, 1:
		return 1
	case 2:
		return 2
	default:
		return r.Range(1, hi)
	}
}

func (c cfg) pts(r *vproto.Rng) []geom.Point {
	n := c.count(r, 6)
	p := make([]geom.Point, n)
	for i := range p {
		p[i] = geom.Point{X: c.co(r), Y: c.co(r)}
	}
	return p
}

func (c cfg) ptss(r *vproto.Rng) []geom.Path {
	n := c.count(r, 4)
	p := make([]geom.Path, n)
	for i := range p {
		p[i] = c.pts(r)
	}
	return p
}

func (c cfg) geom(r *vproto.Rng, k int) geom.Geom {
	switch k {
	case 0:
		return geom.Point{X: c.co(r), Y: c.co(r)}
	case 1:
		return geom.LineString(c.pts(r))
	case 2:
		n := c.count(r, 6)
		m := make(geom.MultiLineString, n)
		for i := range m {
			m[i] = c.pts(r)
		}
		return m
	case 3:
		return geom.Polygon(c.ptss(r))
	case 4:
		n := c.count(r, 6)
		m := make(geom.MultiPolygon, n)
		for i := range m {
			m[i] = c.ptss(r)
		}
		return m
	case 5:
		return geom.MultiPoint(c.pts(r))
	case 6:
		n := r.Range(0, 3)
		m := make(geom.GeometryCollection, n)
		for i := range m {
			m[i] = c.geom(r, r.Intn(6))
		}
		return m
	default:
		return &geom.Bounds{Min: geom.Point{X: coord(r, false), Y: coord(r, false)}, Max: geom.Point{X: coord(r, false), Y: coord(r, false)}}
	}
}

// wide builds a geometry of type k (1 LineString, 2 MultiLineString, 3 Polygon, 4 MultiPolygon) in which
// exactly one nesting level has w members (all others 1..2)
func wide(r *vproto.Rng, k, level, w int) geom.Geom {
	cnt := func(l int) int {
		if l == level {
			return w
		}
		return r.Range(1, 2)
	}
	pts := func(l int) []geom.Point {
		p := make([]geom.Point, cnt(l))
		for i := range p {
			p[i] = geom.Point{X: coord(r, false), Y: float64(i)}
		}
		return p
	}
	ptss := func(l int) []geom.Path {
		p := make([]geom.Path, cnt(l))
		for i := range p {
			p[i] = pts(l + 1)
		}
		return p
	}
	switch k {
	case 1:
		return geom.LineString(pts(0))
	case 2:
		m := make(geom.MultiLineString, cnt(0))
		for i := range m {
			m[i] = pts(1)
		}
		return m
	case 3:
		return geom.Polygon(ptss(0))
	default:
		m := make(geom.MultiPolygon, cnt(0))
		for i := range m {
			m[i] = ptss(1)
		}
		return m
	}
}

// insertDup repeats one element of s: next to the original or anywhere (value-equal members / vertices)
func insertDup[T any](r *vproto.Rng, s []T) []T {
	if len(s) == 0 {
		return s
	}
	i := r.Intn(len(s))
	j := i + 1
	if r.Intn(3) == 0 {
		j = r.Intn(len(s) + 1)
	}
	q := make([]T, 0, len(s)+1)
	q = append(q, s[:j]...)
	q = append(q, s[i])
	q = append(q, s[j:]...)
	return q
}

// withDup: a geometry of type k (1..4) in which a vertex, a ring / line string, or a whole polygon occurs twice
// (or three times) with equal values; impl makes such members share one backing array on every other line
func withDup(r *vproto.Rng, k int) geom.Geom {
	c := cfg{}
	times := 1 + r.Intn(2)
	switch g := c.geom(r, k).(type) {
	case geom.LineString:
		for ; times > 0; times-- {
			g = insertDup(r, g)
		}
		return g
	case geom.MultiLineString:
		for ; times > 0; times-- {
			g = insertDup(r, g)
		}
		return g
	case geom.Polygon:
		for ; times > 0; times-- {
			if r.Intn(4) == 0 {
				i := r.Intn(len(g))
				g[i] = insertDup(r, g[i])
			} else {
				g = insertDup(r, g)
			}
		}
		return g
	case geom.MultiPolygon:
		for ; times > 0; times-- {
			if r.Bool() {
				i := r.Intn(len(g))
				g[i] = insertDup(r, g[i])
			} else {
				g = insertDup(r, g)
			}
		}
		return g
	default:
		return g
	}
}

func gen(seed uint64, tier string) {
	out := bufio.NewWriter(os.Stdout)
	defer out.Flush()
	r := vproto.NewRng(seed)
	n := 9000
	if tier == "thorough" {
		n = 150000
	}
	emit := func(g geom.Geom) { fmt.Fprintf(out, "enc %s\n", vproto.GeomToks(g)) }
	P := func(x, y float64) geom.Point { return geom.Point{X: x, Y: y} }
	// fixed corpus: one of each type, multi-member nestings, the guard's boundary, unsupported types
	corpus := []geom.Geom{
		P(1, 2), P(math.Copysign(0, -1), 1e21), P(1e-7, 5e-324), P(0.30000000000000004, 1e20),
		geom.LineString{P(1, 2)}, geom.LineString{P(1, 2), P(3, 4)}, geom.LineString{P(1, 2), P(3, 4), P(5, 6)},
		geom.MultiLineString{{P(1, 2)}}, geom.MultiLineString{{P(1, 2), P(3, 4)}, {P(5, 6)}},
		geom.MultiLineString{{P(1, 2)}, {P(3, 4)}, {P(5, 6), P(7, 8)}},
		geom.Polygon{{P(0, 0), P(1, 0), P(1, 1), P(0, 0)}}, geom.Polygon{{P(0, 0), P(4, 0), P(4, 4), P(0, 0)}, {P(1, 1), P(2, 1), P(2, 2), P(1, 1)}},
		geom.Polygon{{P(0, 0)}, {P(1, 1)}, {P(2, 2)}},
		geom.MultiPolygon{{{P(0, 0), P(1, 0), P(1, 1), P(0, 0)}}},
		geom.MultiPolygon{{{P(0, 0), P(1, 0), P(0, 0)}}, {{P(5, 5), P(6, 5), P(5, 5)}, {P(7, 7)}}},
		geom.MultiPolygon{{{P(0, 0)}}, {{P(1, 1)}}, {{P(2, 2)}, {P(3, 3)}}},
		// guard boundary: empty members (C17_guard_exact)
		geom.LineString{}, geom.MultiLineString{}, geom.MultiLineString{{}}, geom.MultiLineString{{P(1, 2)}, {}},
		geom.MultiLineString{{}, {P(1, 2)}}, geom.Polygon{}, geom.Polygon{{}}, geom.Polygon{{P(1, 2)}, {}}, geom.MultiPolygon{},
		geom.MultiPolygon{{}}, geom.MultiPolygon{{{}}}, geom.MultiPolygon{{{P(1, 2)}}, {}}, geom.MultiPolygon{{{P(1, 2)}, {}}},
		// unsupported types (C17_unsupported)
		geom.MultiPoint{}, geom.MultiPoint{P(1, 2)}, geom.GeometryCollection{}, geom.GeometryCollection{P(1, 2)},
		&geom.Bounds{Min: P(0, 0), Max: P(1, 1)},
		// non-finite (information only: no OGC parser accepts NaN/+Inf)
		P(math.NaN(), 1), geom.LineString{P(math.Inf(1), math.Inf(-1))},
	}
	for _, g := range corpus {
		emit(g)
	}
	// pointer-typed geometries: not listed in Encode's type switch ("other types are rejected, not mis-encoded")
	for _, g := range corpus[:16] {
		fmt.Fprintf(out, "encp %s\n", vproto.GeomToks(g))
	}
	fmt.Fprintf(out, "encp %s\n", vproto.GeomToks(geom.MultiPoint{P(1, 2)}))
	fmt.Fprintf(out, "encp %s\n", vproto.GeomToks(geom.GeometryCollection{P(1, 2)}))
	for _, x := range specials {
		emit(P(x, -x))
		emit(geom.LineString{P(x, 1), P(2, x)})
	}
	guarded := cfg{}
	for i := 0; i < n; i++ {
		switch {
		case i%20 == 17:
			emit(cfg{emptyMember: true}.geom(r, 1+r.Intn(4)))
		case i%20 == 18:
			emit(cfg{nonFinite: true}.geom(r, r.Intn(5)))
		case i%20 == 19:
			emit(cfg{}.geom(r, 5+r.Intn(3)))
		case i%100 == 16:
			fmt.Fprintf(out, "encp %s\n", vproto.GeomToks(guarded.geom(r, r.Intn(7))))
		default:
			emit(guarded.geom(r, r.Intn(5)))
		}
	}
	// wide geometries: one nesting level with many members
	nw := 3
	if tier == "thorough" {
		nw = 40
	}
	wdepth := map[int]int{1: 1, 2: 2, 3: 2, 4: 3}
	for i := 0; i < nw; i++ {
		for k := 1; k <= 4; k++ {
			for level := 0; level < wdepth[k]; level++ {
				emit(wide(r, k, level, []int{65, 129, 257, 1025}[r.Intn(4)]))
			}
		}
	}
	// histories: a window of Encode results is kept and re-verified after the whole batch (a result must
	// not alias state that a later call overwrites); one batch = one line so that a replay reproduces it
	nb := 60
	if tier == "thorough" {
		nb = 1500
	}
	small := cfg{}
	for i := 0; i < nb; i++ {
		k := r.Range(2, 8)
		fmt.Fprintf(out, "batch %d", k)
		for j := 0; j < k; j++ {
			var g geom.Geom
			switch {
			case i%5 == 4 && j == 0:
				g = wide(r, 1+r.Intn(4), 0, []int{65, 129}[r.Intn(2)]) // one long text in the window
			case j%3 == 2:
				g = geom.Point{X: float64(r.Range(-9, 9)), Y: coord(r, false)}
			case j%4 == 1 && i%2 == 1:
				g = small.geom(r, 5+r.Intn(3)) // the error path inside a history: MultiPoint, GeometryCollection, *Bounds
			default:
				g = small.geom(r, r.Intn(5))
			}
			fmt.Fprintf(out, " %s", vproto.GeomToks(g))
		}
		fmt.Fprintln(out)
	}
	// concurrent callers (generic probe (g)): wkt.Encode is a pure function; pooled / package-level scratch
	// buffers are invisible to a sequential harness
	ncc := 70
	if tier == "thorough" {
		ncc = 500
	}
	for i := 0; i < ncc; i++ {
		var g geom.Geom
		switch i % 7 {
		case 0:
			g = wide(r, 1+r.Intn(4), 0, []int{65, 129, 257}[r.Intn(3)])
		case 1:
			g = wide(r, 3+r.Intn(2), 1, []int{65, 129}[r.Intn(2)])
		case 2:
			g = cfg{}.geom(r, 5+r.Intn(3)) // unsupported: the error path
		case 3:
			g = cfg{big: true}.geom(r, 1+r.Intn(4))
		default:
			g = guarded.geom(r, r.Intn(5))
		}
		fmt.Fprintf(out, "cc %d %d %s\n", []int{20, 60, 200}[r.Intn(3)], r.Intn(1<<30), vproto.GeomToks(g))
	}
	// long histories (counters, caches that fill up): 300 calls on tiny geometries in one line
	nlong := 2
	if tier == "thorough" {
		nlong = 12
	}
	for i := 0; i < nlong; i++ {
		fmt.Fprintf(out, "batch 300")
		for j := 0; j < 300; j++ {
			a, b := float64(r.Range(-9, 9)), float64(j)
			var g geom.Geom = geom.LineString{{X: a, Y: b}, {X: b, Y: a}}
			if j%3 == 1 {
				g = geom.Polygon{{{X: a, Y: b}, {X: b, Y: a}}, {{X: a, Y: a}}}
			}
			fmt.Fprintf(out, " %s", vproto.GeomToks(g))
		}
		fmt.Fprintln(out)
	}
	// cross-validation of the driver's exact decimal->binary64 conversion (spec-side component)
	// against strconv.ParseFloat on literals that are NOT shortest renderings: random digit strings,
	// exact midpoints between adjacent doubles (ties-to-even) and their neighbours
	nnum := 600
	if tier == "thorough" {
		nnum = 6000
	}
	for i := 0; i < nnum; i++ {
		switch i % 3 {
		case 0:
			var b strings.Builder
			if r.Bool() {
				b.WriteString("-")
			}
			nd := r.Range(1, 25)
			dot := r.Range(0, nd)
			for j := 0; j < nd; j++ {
				if j == dot && j > 0 {
					b.WriteString(".")
				}
				b.WriteByte(byte('0' + r.Intn(10)))
			}
			if r.Bool() {
				fmt.Fprintf(&b, "e%+d", r.Range(-340, 310))
			}
			fmt.Fprintf(out, "num %s\n", b.String())
		default:
			x := math.Abs(coord(r, false))
			if i%2 == 0 {
				x = math.Float64frombits(r.U64() & 0x7fefffffffffffff)
			}
			y := math.Nextafter(x, math.Inf(1))
			if math.IsInf(y, 0) {
				continue
			}
			mid := new(big.Float).SetPrec(4000).SetFloat64(x)
			mid.Add(mid, new(big.Float).SetPrec(4000).SetFloat64(y))
			mid.Quo(mid, big.NewFloat(2))
			t := mid.Text('e', 1100)
			if i%3 == 2 {
				// nudge the last digits: just above / below the midpoint
				k := strings.Index(t, "e")
				d := []byte(t[:k])
				d[len(d)-1] = byte('0' + r.Intn(10))
				if r.Bool() {
					d[len(d)-300] = byte('0' + r.Intn(10))
				}
				t = string(d) + t[k:]
			}
			fmt.Fprintf(out, "num %s\n", t)
		}
	}
	// a few large ones
	big := cfg{big: true}
	nbig := 20
	if tier == "thorough" {
		nbig = 400
	}
	for i := 0; i < nbig; i++ {
		emit(big.geom(r, 1+r.Intn(4)))
	}
	// repeated members: value-equal vertices / rings / line strings / polygons inside one geometry (impl lets
	// them share a backing array on every other line)
	ndup := 300
	if tier == "thorough" {
		ndup = 4000
	}
	for i := 0; i < ndup; i++ {
		emit(withDup(r, 1+r.Intn(4)))
	}
	// round h: decimal neighbours (doubles 1..3 ulps around the double nearest k/10^d, k*10^e) in every supported
	// type and position; fixed corpus first
	for _, x := range decSpecials {
		emit(P(x, -x))
		emit(geom.LineString{P(1, x), P(x, 2)})
		emit(geom.MultiPolygon{{{P(0, 0), P(x, 0), P(-x, x), P(0, 0)}}, {{P(5, x)}}})
	}
	ndec := 500
	if tier == "thorough" {
		ndec = 8000
	}
	dec := cfg{dec: true}
	for i := 0; i < ndec; i++ {
		emit(dec.geom(r, i%5))
	}
}

func renderings(g geom.Geom, b *strings.Builder) {
	seen := map[uint64]bool{}
	add := func(x float64) {
		u := math.Float64bits(x)
		if seen[u] {
			return
		}
		seen[u] = true
		b.WriteString(" ")
		b.WriteString(vproto.F2H(x))
		b.WriteString(" ")
		b.Write(strconv.AppendFloat(nil, x, 'g', -1, 64))
	}
	var walk func(g geom.Geom)
	pts := func(ps []geom.Point) {
		for _, p := range ps {
			add(p.X)
			add(p.Y)
		}
	}
	walk = func(g geom.Geom) {
		switch t := g.(type) {
		case geom.Point:
			add(t.X)
			add(t.Y)
		case geom.MultiPoint:
			pts(t)
		case geom.LineString:
			pts(t)
		case geom.MultiLineString:
			for _, l := range t {
				pts(l)
			}
		case geom.Polygon:
			for _, l := range t {
				pts(l)
			}
		case geom.MultiPolygon:
			for _, pg := range t {
				for _, l := range pg {
					pts(l)
				}
			}
		case geom.GeometryCollection:
			for _, m := range t {
				walk(m)
			}
		case *geom.Bounds:
			if t != nil {
				add(t.Min.X)
				add(t.Min.Y)
				add(t.Max.X)
				add(t.Max.Y)
			}
		}
	}
	walk(g)
}

// pointerTo returns a pointer to the value held in g (a geom.Geom of a type wkt.Encode's switch does not list)
func pointerTo(g geom.Geom) geom.Geom {
	switch t := g.(type) {
	case geom.Point:
		return &t
	case geom.MultiPoint:
		return &t
	case geom.LineString:
		return &t
	case geom.MultiLineString:
		return &t
	case geom.Polygon:
		return &t
	case geom.MultiPolygon:
		return &t
	case geom.GeometryCollection:
		return &t
	}
	return g
}

// errReport: "err <kind> <Type.String() | nil> x<hex of Error()> <len of the returned bytes>"
func errReport(err error, nbuf int) string {
	var ue *wkt.UnsupportedGeometryError
	if errors.As(err, &ue) {
		if ue.Type == nil {
			return fmt.Sprintf("err unsupported nil x %d", nbuf) // Error() would dereference the nil Type
		}
		return fmt.Sprintf("err unsupported %s x%s %d", ue.Type.String(), hex.EncodeToString([]byte(err.Error())), nbuf)
	}
	return fmt.Sprintf("err other - x%s %d", hex.EncodeToString([]byte(err.Error())), nbuf)
}

// roomy rebuilds g so that every slice has cap = len+2 with junk elements beyond its length (a slice
// header with spare capacity is what append-built geometries look like; code that reads up to cap, or
// appends to a slice of its argument, then shows)
func roomy(g geom.Geom) geom.Geom {
	junk := geom.Point{X: 7777, Y: -7777}
	pts := func(p []geom.Point) []geom.Point {
		q := make([]geom.Point, len(p)+2)
		copy(q, p)
		q[len(p)], q[len(p)+1] = junk, junk
		return q[:len(p)]
	}
	paths := func(p []geom.Path) []geom.Path {
		q := make([]geom.Path, len(p)+2)
		for i := range p {
			q[i] = pts(p[i])
		}
		q[len(p)], q[len(p)+1] = geom.Path{junk}, geom.Path{junk, junk}
		return q[:len(p)]
	}
	switch t := g.(type) {
	case geom.LineString:
		return geom.LineString(pts(t))
	case geom.MultiPoint:
		return geom.MultiPoint(pts(t))
	case geom.MultiLineString:
		q := make(geom.MultiLineString, len(t)+2)
		for i := range t {
			q[i] = pts(t[i])
		}
		q[len(t)], q[len(t)+1] = geom.LineString{junk}, geom.LineString{junk, junk}
		return q[:len(t)]
	case geom.Polygon:
		return geom.Polygon(paths(t))
	case geom.MultiPolygon:
		q := make(geom.MultiPolygon, len(t)+2)
		for i := range t {
			q[i] = paths(t[i])
		}
		q[len(t)], q[len(t)+1] = geom.Polygon{{junk}}, geom.Polygon{{junk, junk}}
		return q[:len(t)]
	}
	return g
}

// shared lets value-equal members of g (rings, line strings, polygons) be ONE slice: same backing array,
// same header — what `ring := ...; geom.Polygon{ring, ring}` or a deduplicating decoder produces
func shared(g geom.Geom) geom.Geom {
	seenP := map[string][]geom.Point{}
	pts := func(p []geom.Point) []geom.Point {
		if len(p) == 0 {
			return p
		}
		k := vproto.GeomToks(geom.LineString(p))
		if q, ok := seenP[k]; ok {
			return q
		}
		seenP[k] = p
		return p
	}
	seenPP := map[string][]geom.Path{}
	paths := func(p []geom.Path) []geom.Path {
		for i := range p {
			p[i] = pts(p[i])
		}
		if len(p) == 0 {
			return p
		}
		k := vproto.GeomToks(geom.Polygon(p))
		if q, ok := seenPP[k]; ok {
			return q
		}
		seenPP[k] = p
		return p
	}
	switch t := g.(type) {
	case geom.MultiLineString:
		for i := range t {
			t[i] = pts(t[i])
		}
	case geom.Polygon:
		return geom.Polygon(paths(t))
	case geom.MultiPolygon:
		for i := range t {
			t[i] = paths(t[i])
		}
	}
	return g
}

// encAnswer: the result string of one Encode call (same format as an `enc` line's result)
func encAnswer(g geom.Geom) (ans string) {
	if pan := vproto.Safe(func() {
		buf, err := wkt.Encode(g)
		if err != nil {
			ans = errReport(err, len(buf))
		} else {
			ans = "ok x" + hex.EncodeToString(buf)
		}
	}); pan != "" {
		ans = "panic " + pan
	}
	return ans
}

// concurrent: wkt.Encode is a pure function of its argument.  The reference answer is computed alone; then
// 8 goroutines repeat the same call on private deep copies while 8 others hammer Encode with unrelated large
// geometries.  The first answer that is not byte-identical to the reference (or a modified argument) is
// reported and judged by the Spec.
func concurrent(rounds int, seed uint64, toks string) string {
	parse := func() geom.Geom { return vproto.NewParser(toks).Geom() }
	g0 := parse()
	ref := encAnswer(g0)
	before := vproto.GeomToks(g0)
	var stop int32
	var mu sync.Mutex
	first := ""
	report := func(s string) {
		mu.Lock()
		if first == "" {
			first = s
		}
		mu.Unlock()
		atomic.StoreInt32(&stop, 1)
	}
	var wg, nwg sync.WaitGroup
	for w := 0; w < 8; w++ {
		nwg.Add(1)
		go func(w int) {
			defer nwg.Done()
			nr := vproto.NewRng(seed + uint64(w)*7919)
			var ng geom.Geom
			if w%2 == 0 {
				ng = wide(nr, 1+nr.Intn(4), 0, 1025)
			} else {
				ng = wide(nr, 3+nr.Intn(2), 1, 257)
			}
			for atomic.LoadInt32(&stop) == 0 {
				vproto.Safe(func() { wkt.Encode(ng) })
			}
		}(w)
	}
	for w := 0; w < 8; w++ {
		wg.Add(1)
		go func() {
			defer wg.Done()
			g := parse()
			for i := 0; i < rounds && atomic.LoadInt32(&stop) == 0; i++ {
				if a := encAnswer(g); a != ref {
					report("differs " + a)
					return
				}
				if vproto.GeomToks(g) != before {
					report("argument-modified " + ref)
					return
				}
			}
		}()
	}
	wg.Wait()
	atomic.StoreInt32(&stop, 1)
	nwg.Wait()
	// a goroutine the library itself spawned and that panics kills the process: let it do so while this line
	// is still the current one (the orchestrator then records `crash` for THIS line)
	runtime.Gosched()
	time.Sleep(time.Millisecond)
	if first != "" {
		return first
	}
	return "same " + ref
}

var poison = geom.LineString{
	{X: math.Copysign(0, -1), Y: math.Copysign(0, -1)}, {X: -math.MaxFloat64, Y: 5e-324},
	{X: 0.30000000000000004, Y: -2.2250738585072014e-308}, {X: 123456789012345680000, Y: 9.999999999999999e-5},
	{X: math.Copysign(0, -1), Y: math.Copysign(0, -1)},
}

func impl() {
	vproto.Lines(func(line string, out *bufio.Writer) {
		p := vproto.NewParser(line)
		var res string
		var tab strings.Builder
		pan := vproto.Safe(func() {
			switch p.Next() {
			case "enc", "encp":
				g := p.Geom()
				renderings(g, &tab)
				hl := fnv.New32a()
				hl.Write([]byte(line))
				if hl.Sum32()&2 == 2 {
					g = roomy(g) // every slice has spare capacity holding junk beyond its length
				}
				if hl.Sum32()&4 == 4 {
					g = shared(g) // value-equal members are one and the same slice
				}
				before := vproto.GeomToks(g)
				arg := g
				if strings.HasPrefix(line, "encp ") {
					arg = pointerTo(g) // *geom.Point, *geom.LineString, ...: geometry types Encode does not list
				}
				if h := fnv.New32a(); true {
					// every other line (decided by the line itself, so that a replay does the same) starts from a
					// "used" encoder: one call on a long geometry with -0 and extreme values precedes the call under
					// test, so that state carried from one call to the next shows on a single replayable line
					h.Write([]byte(line))
					if h.Sum32()&1 == 1 {
						wkt.Encode(poison)
					}
					// (bit 3) … and/or the error path was taken by the call immediately before: an unsupported type
					// (a panic of THIS call is not the verdict of the line: unsupported types have their own lines)
					if h.Sum32()&8 == 8 {
						vproto.Safe(func() {
							if h.Sum32()&16 == 16 {
								wkt.Encode(geom.MultiPoint{{X: 1, Y: 2}})
							} else {
								wkt.Encode(&geom.Bounds{Min: geom.Point{X: 0, Y: 0}, Max: geom.Point{X: 1, Y: 1}})
							}
						})
					}
				}
				buf, err := wkt.Encode(arg)
				if err != nil {
					res = errReport(err, len(buf))
				} else {
					res = "ok x" + hex.EncodeToString(buf)
				}
				if vproto.GeomToks(g) != before {
					res = "inputmodified " + res
				}
			case "cc":
				rounds := p.Int()
				seed := uint64(p.Int())
				toks := p.Rest()
				renderings(vproto.NewParser(toks).Geom(), &tab)
				res = concurrent(rounds, seed, toks)
			case "batch":
				n := p.Int()
				kept := make([][]byte, n)   // the slices exactly as Encode returned them
				copies := make([]string, n) // immediate copies
				errs := make([]error, n)
				for i := 0; i < n; i++ {
					g := p.Geom()
					kept[i], errs[i] = wkt.Encode(g)
					copies[i] = string(kept[i])
				}
				// late check: report what the kept slices hold NOW, after the whole batch
				var b strings.Builder
				for i := 0; i < n; i++ {
					if i > 0 {
						b.WriteString(" ; ")
					}
					if errs[i] != nil {
						b.WriteString("err")
					} else {
						b.WriteString("ok x" + hex.EncodeToString([]byte(copies[i])) + " x" + hex.EncodeToString(kept[i]))
					}
				}
				res = b.String()
			case "num":
				f, err := strconv.ParseFloat(p.Next(), 64)
				if err != nil && math.IsInf(f, 0) {
					err = nil // out of range: ParseFloat returns ±Inf with ErrRange; the driver rounds to Inf as well
				}
				if err != nil {
					res = "err"
				} else {
					res = "ok " + vproto.F2H(f)
				}
			default:
				res = "badline"
			}
		})
		if pan != "" {
			res = "panic " + pan
		}
		fmt.Fprintf(out, "%s => %s |%s\n", line, res, tab.String())
		out.Flush()
	})
}

func main() {
	if len(os.Args) < 2 {
		fmt.Fprintln(os.Stderr, "usage: c17 gen|impl")
		os.Exit(2)
	}
	switch os.Args[1] {
	case "gen":
		seed, tier := vproto.SeedTier(os.Args[2:])
		gen(seed, tier)
	case "impl":
		impl()
	}
}
