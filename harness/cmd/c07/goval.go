package main

import (
	"encoding/hex"
	"encoding/json"
	"fmt"
	"sort"
	"strings"

	"github.com/ctessum/geom"

	"verif/harness/vproto"
)

// Arbitrary Go values for Geometry.Coordinates, in prefix token form:
//
//	n | f <bits> | a <k> v.. | s <hex or -> | t | u | i <int> | o <k> (<keyhex or -> v)..
//	F1 <k> <bits>.. | F2 <k> (<k> <bits>..).. | PT <bits> <bits> | jn <text hex or ->   (json.Number) | ref <k>   (the k-th enclosing array itself: a CYCLIC value)
func parseGoVal(p *vproto.Parser) interface{} { return parseGoValIn(p, nil) }

// parseGoValIn: `enclosing` is the stack of arrays being built around the current position
// (innermost last). `ref k` is the k-th enclosing array ITSELF (k = 0: the innermost), which makes
// the value cyclic: `a 1 ref 0` is the slice x with x[0] = x.
func parseGoValIn(p *vproto.Parser, enclosing [][]interface{}) interface{} {
	switch tag := p.Next(); tag {
	case "ref":
		k := p.Int()
		if k < 0 || k >= len(enclosing) {
			return nil
		}
		return enclosing[len(enclosing)-1-k]
	case "n":
		return nil
	case "f":
		return p.F()
	case "a":
		k := p.Int()
		a := make([]interface{}, k)
		for i := range a {
			a[i] = parseGoValIn(p, append(enclosing, a))
		}
		return a
	case "s":
		return hexStr(p.Next())
	case "t":
		return true
	case "u":
		return false
	case "i":
		return p.Int()
	case "o":
		k := p.Int()
		m := make(map[string]interface{}, k)
		for i := 0; i < k; i++ {
			key := hexStr(p.Next())
			m[key] = parseGoValIn(p, enclosing)
		}
		return m
	case "F1":
		k := p.Int()
		a := make([]float64, k)
		for i := range a {
			a[i] = p.F()
		}
		return a
	case "F2":
		k := p.Int()
		a := make([][]float64, k)
		for i := range a {
			kk := p.Int()
			a[i] = make([]float64, kk)
			for j := range a[i] {
				a[i][j] = p.F()
			}
		}
		return a
	case "PT":
		return geom.Point{X: p.F(), Y: p.F()}
	case "jn":
		return json.Number(hexStr(p.Next()))
	default:
		panic("harness: unknown goval tag " + tag)
	}
}

func hexStr(t string) string {
	if t == "-" {
		return ""
	}
	b, err := hex.DecodeString(t)
	if err != nil {
		panic(err)
	}
	return string(b)
}

func strTok(s string) string {
	if s == "" {
		return "-"
	}
	return hex.EncodeToString([]byte(s))
}

// jv is a JSON-like tree used by the generators; it renders both to JSON text and to goval tokens.
type jv struct {
	kind byte // 'n' null, 'f' number, 'a' array, 's' string, 't','u' bool, 'o' object, 'r' raw text (number literal)
	num  float64
	raw  string // literal text for kind 'r' (and the value it denotes in num when representable)
	str  string
	arr  []*jv
	keys []string
	// gonly: a Go-only value (typed slice, int, geom.Point) in token form; cannot be rendered as JSON
	gonly string
}

func jnum(f float64) *jv { return &jv{kind: 'f', num: f} }
func jarr(xs ...*jv) *jv { return &jv{kind: 'a', arr: xs} }
func jstr(s string) *jv  { return &jv{kind: 's', str: s} }
func jnull() *jv         { return &jv{kind: 'n'} }
func jbool(b bool) *jv {
	if b {
		return &jv{kind: 't'}
	}
	return &jv{kind: 'u'}
}
func jraw(text string) *jv { return &jv{kind: 'r', raw: text} }
func jgo(tok string) *jv   { return &jv{kind: 'g', gonly: tok} }
func jobj(kv ...interface{}) *jv {
	o := &jv{kind: 'o'}
	for i := 0; i+1 < len(kv); i += 2 {
		o.keys = append(o.keys, kv[i].(string))
		o.arr = append(o.arr, kv[i+1].(*jv))
	}
	return o
}

func (v *jv) clone() *jv {
	c := *v
	c.arr = make([]*jv, len(v.arr))
	for i, x := range v.arr {
		c.arr[i] = x.clone()
	}
	c.keys = append([]string(nil), v.keys...)
	return &c
}

// hasGoOnly reports whether the tree holds values that JSON text cannot express.
func (v *jv) hasGoOnly() bool {
	if v.kind == 'g' {
		return true
	}
	for _, x := range v.arr {
		if x.hasGoOnly() {
			return true
		}
	}
	return false
}

// toks renders the tree as goval tokens (numbers as bit patterns). Raw literals are not allowed here.
func (v *jv) toks(b *strings.Builder) {
	switch v.kind {
	case 'n':
		b.WriteString(" n")
	case 'f':
		b.WriteString(" f " + vproto.F2H(v.num))
	case 'a':
		fmt.Fprintf(b, " a %d", len(v.arr))
		for _, x := range v.arr {
			x.toks(b)
		}
	case 's':
		b.WriteString(" s " + strTok(v.str))
	case 't':
		b.WriteString(" t")
	case 'u':
		b.WriteString(" u")
	case 'o':
		// a Go map has no duplicate keys: later wins
		seen := map[string]int{}
		var ks []string
		for i, k := range v.keys {
			if _, ok := seen[k]; !ok {
				ks = append(ks, k)
			}
			seen[k] = i
		}
		fmt.Fprintf(b, " o %d", len(ks))
		for _, k := range ks {
			b.WriteString(" " + strTok(k))
			v.arr[seen[k]].toks(b)
		}
	case 'g':
		b.WriteString(" " + v.gonly)
	default:
		panic("jv.toks: raw literal")
	}
}

// valToks renders what encoding/json produced (possibly with UseNumber) as goval tokens.
func valToks(b *strings.Builder, v interface{}) {
	switch t := v.(type) {
	case nil:
		b.WriteString(" n")
	case float64:
		b.WriteString(" f " + vproto.F2H(t))
	case json.Number:
		b.WriteString(" jn " + strTok(string(t)))
	case string:
		b.WriteString(" s " + strTok(t))
	case bool:
		if t {
			b.WriteString(" t")
		} else {
			b.WriteString(" u")
		}
	case []interface{}:
		fmt.Fprintf(b, " a %d", len(t))
		for _, x := range t {
			valToks(b, x)
		}
	case map[string]interface{}:
		keys := make([]string, 0, len(t))
		for k := range t {
			keys = append(keys, k)
		}
		sort.Strings(keys)
		fmt.Fprintf(b, " o %d", len(keys))
		for _, k := range keys {
			b.WriteString(" " + strTok(k))
			valToks(b, t[k])
		}
	default:
		panic(fmt.Sprintf("valToks: %T", v))
	}
}
