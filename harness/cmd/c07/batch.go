package main

import (
	"bufio"
	"encoding/binary"
	"encoding/hex"
	"fmt"
	"strings"

	"github.com/ctessum/geom"
	"github.com/ctessum/geom/encoding/geojson"
	ghex "github.com/ctessum/geom/encoding/hex"
	"github.com/ctessum/geom/encoding/wkb"

	"verif/harness/vproto"
)

// Batch lines: the round-trip clause for results that are ALIVE AT THE SAME TIME.
//
//	batch <wkb|hex|json> x<hex> x<hex> ...
//
// Every member is decoded; then ALL successfully decoded geometries are re-encoded first (the
// returned byte slices / strings are kept, and a private copy is taken immediately after each
// call); only after the whole batch has been encoded is each KEPT encoding compared with its copy
// and decoded again. An encoder that hands out memory it reuses on the next call passes an
// immediate Decode(Encode(g)) and fails here; so does a DECODER whose result is overwritten by a
// later decoder call (the geometry is rendered as returned, the encodings are made after the batch). The whole history lives on one line (replay unit).
//
// Result: `batch || m <i> err:<class> || m <i> ok | <geom> | <tag> k<kept hex> c<copy hex> <late decode> | ...`

type keptEnc struct {
	tag   string
	bytes []byte // what the encoder returned (kept, not copied)
	str   string // for string results
	isStr bool
	cp    []byte // private copy taken right after the call
	err   bool
}

func runBatch(line string) string {
	p := vproto.NewParser(line)
	p.Next()
	fam := p.Next()
	type member struct {
		g    geom.Geom
		res  string
		toks string // the geometry AS RETURNED: rendered right after the call, before any later decoder call
		encs []*keptEnc
	}
	var ms []*member
	for !p.Done() {
		buf := mustHex(p.Next()[1:])
		m := &member{}
		var err error
		pan := vproto.Safe(func() {
			switch fam {
			case "wkb":
				m.g, err = wkb.Decode(buf)
			case "hex":
				m.g, err = ghex.Decode(string(buf))
			default:
				m.g, err = geojson.Decode(buf)
			}
		})
		switch {
		case pan != "":
			m.res, m.g = "panic:"+pan, nil
		case err != nil:
			m.res, m.g = "err:"+errClass(err), nil
		case m.g == nil:
			m.res = "nilnil"
		default:
			m.res = "ok"
			m.toks = vproto.GeomToks(m.g)
		}
		ms = append(ms, m)
	}
	// phase 1: encode everything, keep what the encoders return
	for round := 0; round < 2; round++ {
		for _, m := range ms {
			if m.g == nil {
				continue
			}
			m.encs = nil
			add := func(tag string, f func() ([]byte, string, bool, error)) {
				k := &keptEnc{tag: tag}
				pan := vproto.Safe(func() {
					b, s, isStr, err := f()
					if err != nil {
						k.err = true
						return
					}
					k.bytes, k.str, k.isStr = b, s, isStr
					if isStr {
						k.cp = []byte(strings.Clone(s))
					} else {
						k.cp = append([]byte(nil), b...)
					}
				})
				if pan != "" {
					k.err = true
				}
				m.encs = append(m.encs, k)
			}
			g := m.g
			switch fam {
			case "wkb":
				for _, o := range []struct {
					t string
					o binary.ByteOrder
				}{{"N", wkb.NDR}, {"X", wkb.XDR}} {
					o := o
					add(o.t, func() ([]byte, string, bool, error) { b, e := wkb.Encode(g, o.o); return b, "", false, e })
				}
			case "hex":
				add("N", func() ([]byte, string, bool, error) { s, e := ghex.Encode(g, wkb.NDR); return nil, s, true, e })
				add("X", func() ([]byte, string, bool, error) { s, e := ghex.Encode(g, wkb.XDR); return nil, s, true, e })
			default:
				add("J", func() ([]byte, string, bool, error) { b, e := geojson.Encode(g); return b, "", false, e })
			}
		}
	}
	// phase 2: only now look at the kept encodings
	var b strings.Builder
	b.WriteString("batch")
	for i, m := range ms {
		fmt.Fprintf(&b, " || m %d %s", i, m.res)
		if m.res != "ok" {
			continue
		}
		// what the call returned (not what the value holds now): a decoder whose results share memory
		// with later calls re-encodes to something else than it returned
		b.WriteString(" | " + m.toks)
		for _, k := range m.encs {
			if k.err {
				b.WriteString(" | " + k.tag + " encerr")
				continue
			}
			kept := k.bytes
			if k.isStr {
				kept = []byte(k.str)
			}
			var g2 geom.Geom
			var err error
			pan := vproto.Safe(func() {
				switch fam {
				case "wkb":
					g2, err = wkb.Decode(kept)
				case "hex":
					g2, err = ghex.Decode(k.str)
				default:
					g2, err = geojson.Decode(kept)
				}
			})
			late := ""
			switch {
			case pan != "":
				late = "panic:" + pan
			case err != nil:
				late = "err:" + errClass(err)
			default:
				late = "ok " + vproto.GeomToks(g2)
			}
			fmt.Fprintf(&b, " | %s k%s c%s %s", k.tag, hex.EncodeToString(kept), hex.EncodeToString(k.cp), late)
		}
	}
	return b.String()
}

// genBatches: windows of valid (and a few invalid) inputs of DIFFERENT lengths and types, long
// encodings first and last, both byte orders, so that a re-used output buffer is overwritten by a
// different, shorter encoding before the earlier one is looked at.
func genBatches(out *bufio.Writer, r *vproto.Rng, tier string) {
	n := 150
	if tier == "thorough" {
		n = 2500
	}
	fixed := []geom.Geom{
		geom.LineString{{X: 1, Y: 2}, {X: 3, Y: 4}, {X: 5, Y: 6}}, geom.Point{X: 1, Y: 2},
		geom.Polygon{{{X: 0, Y: 0}, {X: 1, Y: 0}, {X: 1, Y: 1}, {X: 0, Y: 0}}}, geom.MultiPoint{{X: 7, Y: 8}},
	}
	emit := func(fam string, gs []geom.Geom) {
		var b strings.Builder
		b.WriteString("batch " + fam)
		for i, g := range gs {
			var buf []byte
			switch fam {
			case "wkb":
				buf = encodeMeta(g, r.Bool(), i%3 == 0, r).b
			case "hex":
				buf = []byte(hex.EncodeToString(encodeMeta(g, r.Bool(), false, r).b))
			default:
				var err error
				buf, err = geojson.Encode(g)
				if err != nil {
					continue
				}
			}
			if r.Intn(12) == 0 && len(buf) > 1 {
				buf = buf[:r.Intn(len(buf))] // an undecodable member in between
			}
			b.WriteString(" x" + hex.EncodeToString(buf))
		}
		fmt.Fprintln(out, b.String())
	}
	emit("wkb", fixed)
	emit("hex", fixed)
	emit("json", fixed)
	for i := 0; i < n; i++ {
		k := r.Range(2, 10)
		gs := make([]geom.Geom, 0, k)
		for j := 0; j < k; j++ {
			g := genGeom(r, 2)
			gs = append(gs, g)
		}
		fam := []string{"wkb", "wkb", "hex", "json"}[i%4]
		if fam == "json" {
			// GeoJSON: finite coordinates, no collections, non-empty first members
			gs = gs[:0]
			for j := 0; j < k; j++ {
				typ := geoTypes[r.Intn(6)]
				var sb strings.Builder
				jobj("type", jstr(typ), "coordinates", coords(geoDepth[typ], r, true)).render(&sb, r)
				g, err := geojson.Decode([]byte(sb.String()))
				if err == nil {
					gs = append(gs, g)
				}
			}
		}
		emit(fam, gs)
	}
}
